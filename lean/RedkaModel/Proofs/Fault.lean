/-
  Proofs for property C07: the control structure of `execTx` under faults (`Model/Fault.lean`),
  the link between `update`-wrapped methods and `execTx`, and the lookup tables over the facts the
  translator extracts from the Go source (`Generated/Facts.lean`, `Generated/Sql.lean`).
-/
import RedkaModel.Model.Fault
import RedkaModel.Proofs.NoTrace
import RedkaModel.Generated.All

namespace Redka.Proofs.Fault

open Redka Redka.Model

/-! ### the callback -/

theorem runOps_none_fold {p : Bool} {now : Int} {body : List Op} {db : DB}
    (h : (runOps p now body db).1 = none) : (runOps p now body db).2 = foldOps now body db := by
  induction body generalizing db with
  | nil => rfl
  | cons op rest ih =>
    unfold runOps at h ⊢
    simp only [foldOps, List.foldl_cons]
    dsimp only at h ⊢
    split at h
    · split at h
      · cases h
      · rename_i hp; have hp' : p = false := by simpa using hp
        subst hp'; exact ih h
    · exact ih h

theorem runOps_none_iff {p : Bool} {now : Int} {body : List Op} {db : DB} :
    (runOps p now body db).1 = none ↔ (p = false ∨ bodyErrs now body db = false) := by
  induction body generalizing db with
  | nil => simp [runOps, bodyErrs]
  | cons op rest ih =>
    unfold runOps bodyErrs
    dsimp only
    cases hout : (Model.tx true op now db).out with
    | error e =>
      cases p with
      | true => simp
      | false => simpa using (ih (db := (Model.tx true op now db).db)).mpr (.inl rfl)
    | ok v => simp only [Bool.false_or]; exact ih

/-- a body that does not hand errors on always returns `nil` -/
theorem runOps_ignore {now : Int} {body : List Op} {db : DB} : (runOps false now body db).1 = none :=
  runOps_none_iff.mpr (.inl rfl)

/-! ### `execTx` -/

/-- what `tables a = tables b` says -/
theorem tables_eq_iff (a b : DB) : tables a = tables b ↔
    a.keys = b.keys ∧ a.strs = b.strs ∧ a.lists = b.lists ∧ a.sets = b.sets ∧ a.hashes = b.hashes ∧
      a.zsets = b.zsets := by
  cases a; cases b; simp [tables]

theorem connAfterCancel_tables (env : Env) (db : DB) : tables (connAfterCancel env db) = tables db := by
  unfold connAfterCancel; split <;> rfl

/-- all-or-nothing on the content of the six tables, for every fault and every body -/
theorem runTx_atomic_tables (env : Env) (p : Bool) (body : List Op) (fault : Fault) (now : Int) (db : DB) :
    ((runTx env p body fault now db).1 = .ok () ∧
        (runTx env p body fault now db).2 = foldOps now body db ∧
        (p = false ∨ bodyErrs now body db = false) ∧ fault = .none) ∨
    ((∃ a, (runTx env p body fault now db).1 = .error a) ∧
        tables (runTx env p body fault now db).2 = tables db) := by
  cases fault with
  | beginFails => exact .inr ⟨⟨_, rfl⟩, rfl⟩
  | none =>
    simp only [runTx, Fault.reached, reduceCtorEq, if_false]
    split
    · exact .inr ⟨⟨_, rfl⟩, rfl⟩
    · rename_i hnone
      exact .inl ⟨rfl, runOps_none_fold hnone, runOps_none_iff.mp hnone, trivial⟩
  | callbackError n =>
    simp only [runTx, reduceCtorEq, if_false]; split <;> exact .inr ⟨⟨_, rfl⟩, rfl⟩
  | callbackPanics n =>
    simp only [runTx, reduceCtorEq, if_false]; split <;> exact .inr ⟨⟨_, rfl⟩, rfl⟩
  | ctxCancelled n =>
    simp only [runTx, reduceCtorEq, if_false]; split
    · exact .inr ⟨⟨_, rfl⟩, rfl⟩
    · exact .inr ⟨⟨_, rfl⟩, connAfterCancel_tables ..⟩
  | commitFails =>
    simp only [runTx, reduceCtorEq, if_false]; split <;> exact .inr ⟨⟨_, rfl⟩, rfl⟩

/-- … and on the whole database value, connection flag included, when the connection survives -/
theorem runTx_atomic (env : Env) (p : Bool) (body : List Op) (fault : Fault) (now : Int) (db : DB)
    (hc : connKept env fault = true) :
    ((runTx env p body fault now db).1 = .ok () ∧
        (runTx env p body fault now db).2 = foldOps now body db ∧
        (p = false ∨ bodyErrs now body db = false) ∧ fault = .none) ∨
    ((∃ a, (runTx env p body fault now db).1 = .error a) ∧ (runTx env p body fault now db).2 = db) := by
  cases fault with
  | beginFails => exact .inr ⟨⟨_, rfl⟩, rfl⟩
  | none =>
    simp only [runTx, Fault.reached, reduceCtorEq, if_false]
    split
    · exact .inr ⟨⟨_, rfl⟩, rfl⟩
    · rename_i hnone
      exact .inl ⟨rfl, runOps_none_fold hnone, runOps_none_iff.mp hnone, trivial⟩
  | callbackError n =>
    simp only [runTx, reduceCtorEq, if_false]; split <;> exact .inr ⟨⟨_, rfl⟩, rfl⟩
  | callbackPanics n =>
    simp only [runTx, reduceCtorEq, if_false]; split <;> exact .inr ⟨⟨_, rfl⟩, rfl⟩
  | ctxCancelled n =>
    simp only [connKept, Bool.or_false] at hc
    simp only [runTx, reduceCtorEq, if_false]; split
    · exact .inr ⟨⟨_, rfl⟩, rfl⟩
    · refine .inr ⟨⟨_, rfl⟩, ?_⟩
      simp only [connAfterCancel, hc, if_true, rollback]
  | commitFails =>
    simp only [runTx, reduceCtorEq, if_false]; split <;> exact .inr ⟨⟨_, rfl⟩, rfl⟩

/-- a fault never lets the transaction report success -/
theorem runTx_fault_fails (env : Env) (p : Bool) (body : List Op) (fault : Fault) (now : Int) (db : DB)
    (hf : fault ≠ .none) : ∃ a, (runTx env p body fault now db).1 = .error a := by
  rcases runTx_atomic_tables env p body fault now db with ⟨_, _, _, h⟩ | ⟨h, _⟩
  · exact absurd h hf
  · exact h

/-! ### `DB.Update(func(tx) { …; return err })` is `execTx` -/

/-- For an `update`-wrapped method the model's `DB`-level function (`Schema.update`) is the
fault-free `execTx` of the one-operation propagating body: same database afterwards, success for
success. -/
theorem dbRun_is_runTx (env : Env) (op : Op) (now : Int) (db : DB) (hw : Model.wrapOf op = .update) :
    (dbRunFault env op .none now db).2 = (Model.dbRun op now db).db ∧
    ((dbRunFault env op .none now db).1 = .ok () ↔ ∃ v, (Model.dbRun op now db).out = .ok v) := by
  have hrun : Model.dbRun op now db = update (Model.tx true op now) db := by
    unfold Model.dbRun; rw [hw]
  rw [hrun]
  unfold dbRunFault runTx update
  simp only [Fault.reached, runOps]
  cases hout : (Model.tx true op now db).out with
  | error e => simp [rollback]
  | ok v => simp [hout]

/-! ### lookup tables over the generated facts

Built from the generated constants, so they are re-evaluated whenever the Go source changes. The
`…_complete` theorems state that no generated name is missing from a table. -/

/-- `(package, DB method, wrapper kind, callees)` -/
def wrapTable : List (String × String × String × List String) := [
  ("rhash", "Delete", Generated.wrap_rhash_Delete, Generated.wrapCalls_rhash_Delete),
  ("rhash", "Exists", Generated.wrap_rhash_Exists, Generated.wrapCalls_rhash_Exists),
  ("rhash", "Fields", Generated.wrap_rhash_Fields, Generated.wrapCalls_rhash_Fields),
  ("rhash", "Get", Generated.wrap_rhash_Get, Generated.wrapCalls_rhash_Get),
  ("rhash", "GetMany", Generated.wrap_rhash_GetMany, Generated.wrapCalls_rhash_GetMany),
  ("rhash", "Incr", Generated.wrap_rhash_Incr, Generated.wrapCalls_rhash_Incr),
  ("rhash", "IncrFloat", Generated.wrap_rhash_IncrFloat, Generated.wrapCalls_rhash_IncrFloat),
  ("rhash", "Items", Generated.wrap_rhash_Items, Generated.wrapCalls_rhash_Items),
  ("rhash", "Len", Generated.wrap_rhash_Len, Generated.wrapCalls_rhash_Len),
  ("rhash", "Scan", Generated.wrap_rhash_Scan, Generated.wrapCalls_rhash_Scan),
  ("rhash", "Scanner", Generated.wrap_rhash_Scanner, Generated.wrapCalls_rhash_Scanner),
  ("rhash", "Set", Generated.wrap_rhash_Set, Generated.wrapCalls_rhash_Set),
  ("rhash", "SetMany", Generated.wrap_rhash_SetMany, Generated.wrapCalls_rhash_SetMany),
  ("rhash", "SetNotExists", Generated.wrap_rhash_SetNotExists, Generated.wrapCalls_rhash_SetNotExists),
  ("rhash", "Values", Generated.wrap_rhash_Values, Generated.wrapCalls_rhash_Values),
  ("rkey", "Count", Generated.wrap_rkey_Count, Generated.wrapCalls_rkey_Count),
  ("rkey", "Delete", Generated.wrap_rkey_Delete, Generated.wrapCalls_rkey_Delete),
  ("rkey", "DeleteAll", Generated.wrap_rkey_DeleteAll, Generated.wrapCalls_rkey_DeleteAll),
  ("rkey", "DeleteExpired", Generated.wrap_rkey_DeleteExpired, Generated.wrapCalls_rkey_DeleteExpired),
  ("rkey", "Exists", Generated.wrap_rkey_Exists, Generated.wrapCalls_rkey_Exists),
  ("rkey", "Expire", Generated.wrap_rkey_Expire, Generated.wrapCalls_rkey_Expire),
  ("rkey", "ExpireAt", Generated.wrap_rkey_ExpireAt, Generated.wrapCalls_rkey_ExpireAt),
  ("rkey", "Get", Generated.wrap_rkey_Get, Generated.wrapCalls_rkey_Get),
  ("rkey", "Keys", Generated.wrap_rkey_Keys, Generated.wrapCalls_rkey_Keys),
  ("rkey", "Len", Generated.wrap_rkey_Len, Generated.wrapCalls_rkey_Len),
  ("rkey", "Persist", Generated.wrap_rkey_Persist, Generated.wrapCalls_rkey_Persist),
  ("rkey", "Random", Generated.wrap_rkey_Random, Generated.wrapCalls_rkey_Random),
  ("rkey", "Rename", Generated.wrap_rkey_Rename, Generated.wrapCalls_rkey_Rename),
  ("rkey", "RenameNotExists", Generated.wrap_rkey_RenameNotExists, Generated.wrapCalls_rkey_RenameNotExists),
  ("rkey", "Scan", Generated.wrap_rkey_Scan, Generated.wrapCalls_rkey_Scan),
  ("rkey", "Scanner", Generated.wrap_rkey_Scanner, Generated.wrapCalls_rkey_Scanner),
  ("rlist", "Delete", Generated.wrap_rlist_Delete, Generated.wrapCalls_rlist_Delete),
  ("rlist", "DeleteBack", Generated.wrap_rlist_DeleteBack, Generated.wrapCalls_rlist_DeleteBack),
  ("rlist", "DeleteFront", Generated.wrap_rlist_DeleteFront, Generated.wrapCalls_rlist_DeleteFront),
  ("rlist", "Get", Generated.wrap_rlist_Get, Generated.wrapCalls_rlist_Get),
  ("rlist", "InsertAfter", Generated.wrap_rlist_InsertAfter, Generated.wrapCalls_rlist_InsertAfter),
  ("rlist", "InsertBefore", Generated.wrap_rlist_InsertBefore, Generated.wrapCalls_rlist_InsertBefore),
  ("rlist", "Len", Generated.wrap_rlist_Len, Generated.wrapCalls_rlist_Len),
  ("rlist", "PopBack", Generated.wrap_rlist_PopBack, Generated.wrapCalls_rlist_PopBack),
  ("rlist", "PopBackPushFront", Generated.wrap_rlist_PopBackPushFront, Generated.wrapCalls_rlist_PopBackPushFront),
  ("rlist", "PopFront", Generated.wrap_rlist_PopFront, Generated.wrapCalls_rlist_PopFront),
  ("rlist", "PushBack", Generated.wrap_rlist_PushBack, Generated.wrapCalls_rlist_PushBack),
  ("rlist", "PushFront", Generated.wrap_rlist_PushFront, Generated.wrapCalls_rlist_PushFront),
  ("rlist", "Range", Generated.wrap_rlist_Range, Generated.wrapCalls_rlist_Range),
  ("rlist", "Set", Generated.wrap_rlist_Set, Generated.wrapCalls_rlist_Set),
  ("rlist", "Trim", Generated.wrap_rlist_Trim, Generated.wrapCalls_rlist_Trim),
  ("rset", "Add", Generated.wrap_rset_Add, Generated.wrapCalls_rset_Add),
  ("rset", "Delete", Generated.wrap_rset_Delete, Generated.wrapCalls_rset_Delete),
  ("rset", "Diff", Generated.wrap_rset_Diff, Generated.wrapCalls_rset_Diff),
  ("rset", "DiffStore", Generated.wrap_rset_DiffStore, Generated.wrapCalls_rset_DiffStore),
  ("rset", "Exists", Generated.wrap_rset_Exists, Generated.wrapCalls_rset_Exists),
  ("rset", "Inter", Generated.wrap_rset_Inter, Generated.wrapCalls_rset_Inter),
  ("rset", "InterStore", Generated.wrap_rset_InterStore, Generated.wrapCalls_rset_InterStore),
  ("rset", "Items", Generated.wrap_rset_Items, Generated.wrapCalls_rset_Items),
  ("rset", "Len", Generated.wrap_rset_Len, Generated.wrapCalls_rset_Len),
  ("rset", "Move", Generated.wrap_rset_Move, Generated.wrapCalls_rset_Move),
  ("rset", "Pop", Generated.wrap_rset_Pop, Generated.wrapCalls_rset_Pop),
  ("rset", "Random", Generated.wrap_rset_Random, Generated.wrapCalls_rset_Random),
  ("rset", "Scan", Generated.wrap_rset_Scan, Generated.wrapCalls_rset_Scan),
  ("rset", "Scanner", Generated.wrap_rset_Scanner, Generated.wrapCalls_rset_Scanner),
  ("rset", "Union", Generated.wrap_rset_Union, Generated.wrapCalls_rset_Union),
  ("rset", "UnionStore", Generated.wrap_rset_UnionStore, Generated.wrapCalls_rset_UnionStore),
  ("rstring", "Get", Generated.wrap_rstring_Get, Generated.wrapCalls_rstring_Get),
  ("rstring", "GetMany", Generated.wrap_rstring_GetMany, Generated.wrapCalls_rstring_GetMany),
  ("rstring", "Incr", Generated.wrap_rstring_Incr, Generated.wrapCalls_rstring_Incr),
  ("rstring", "IncrFloat", Generated.wrap_rstring_IncrFloat, Generated.wrapCalls_rstring_IncrFloat),
  ("rstring", "Set", Generated.wrap_rstring_Set, Generated.wrapCalls_rstring_Set),
  ("rstring", "SetCmd.Run", Generated.wrap_rstring_SetCmd_Run, Generated.wrapCalls_rstring_SetCmd_Run),
  ("rstring", "SetExpires", Generated.wrap_rstring_SetExpires, Generated.wrapCalls_rstring_SetExpires),
  ("rstring", "SetMany", Generated.wrap_rstring_SetMany, Generated.wrapCalls_rstring_SetMany),
  ("rstring", "SetWith", Generated.wrap_rstring_SetWith, Generated.wrapCalls_rstring_SetWith),
  ("rzset", "Add", Generated.wrap_rzset_Add, Generated.wrapCalls_rzset_Add),
  ("rzset", "AddMany", Generated.wrap_rzset_AddMany, Generated.wrapCalls_rzset_AddMany),
  ("rzset", "Count", Generated.wrap_rzset_Count, Generated.wrapCalls_rzset_Count),
  ("rzset", "Delete", Generated.wrap_rzset_Delete, Generated.wrapCalls_rzset_Delete),
  ("rzset", "DeleteCmd.Run", Generated.wrap_rzset_DeleteCmd_Run, Generated.wrapCalls_rzset_DeleteCmd_Run),
  ("rzset", "DeleteWith", Generated.wrap_rzset_DeleteWith, Generated.wrapCalls_rzset_DeleteWith),
  ("rzset", "GetRank", Generated.wrap_rzset_GetRank, Generated.wrapCalls_rzset_GetRank),
  ("rzset", "GetRankRev", Generated.wrap_rzset_GetRankRev, Generated.wrapCalls_rzset_GetRankRev),
  ("rzset", "GetScore", Generated.wrap_rzset_GetScore, Generated.wrapCalls_rzset_GetScore),
  ("rzset", "Incr", Generated.wrap_rzset_Incr, Generated.wrapCalls_rzset_Incr),
  ("rzset", "Inter", Generated.wrap_rzset_Inter, Generated.wrapCalls_rzset_Inter),
  ("rzset", "InterCmd.Run", Generated.wrap_rzset_InterCmd_Run, Generated.wrapCalls_rzset_InterCmd_Run),
  ("rzset", "InterCmd.Store", Generated.wrap_rzset_InterCmd_Store, Generated.wrapCalls_rzset_InterCmd_Store),
  ("rzset", "InterWith", Generated.wrap_rzset_InterWith, Generated.wrapCalls_rzset_InterWith),
  ("rzset", "Len", Generated.wrap_rzset_Len, Generated.wrapCalls_rzset_Len),
  ("rzset", "Range", Generated.wrap_rzset_Range, Generated.wrapCalls_rzset_Range),
  ("rzset", "RangeCmd.Run", Generated.wrap_rzset_RangeCmd_Run, Generated.wrapCalls_rzset_RangeCmd_Run),
  ("rzset", "RangeWith", Generated.wrap_rzset_RangeWith, Generated.wrapCalls_rzset_RangeWith),
  ("rzset", "Scan", Generated.wrap_rzset_Scan, Generated.wrapCalls_rzset_Scan),
  ("rzset", "Scanner", Generated.wrap_rzset_Scanner, Generated.wrapCalls_rzset_Scanner),
  ("rzset", "Union", Generated.wrap_rzset_Union, Generated.wrapCalls_rzset_Union),
  ("rzset", "UnionCmd.Run", Generated.wrap_rzset_UnionCmd_Run, Generated.wrapCalls_rzset_UnionCmd_Run),
  ("rzset", "UnionCmd.Store", Generated.wrap_rzset_UnionCmd_Store, Generated.wrapCalls_rzset_UnionCmd_Store),
  ("rzset", "UnionWith", Generated.wrap_rzset_UnionWith, Generated.wrapCalls_rzset_UnionWith)]

/-- `(package, function, the SQL statements it can execute, transitively)` -/
def stmtTable : List (String × String × List String) := [
  ("rhash", "Scanner.Scan", Generated.txStmts_rhash_Scanner_Scan),
  ("rhash", "Tx.Delete", Generated.txStmts_rhash_Tx_Delete),
  ("rhash", "Tx.Exists", Generated.txStmts_rhash_Tx_Exists),
  ("rhash", "Tx.Fields", Generated.txStmts_rhash_Tx_Fields),
  ("rhash", "Tx.Get", Generated.txStmts_rhash_Tx_Get),
  ("rhash", "Tx.GetMany", Generated.txStmts_rhash_Tx_GetMany),
  ("rhash", "Tx.Incr", Generated.txStmts_rhash_Tx_Incr),
  ("rhash", "Tx.IncrFloat", Generated.txStmts_rhash_Tx_IncrFloat),
  ("rhash", "Tx.Items", Generated.txStmts_rhash_Tx_Items),
  ("rhash", "Tx.Len", Generated.txStmts_rhash_Tx_Len),
  ("rhash", "Tx.Scan", Generated.txStmts_rhash_Tx_Scan),
  ("rhash", "Tx.Scanner", Generated.txStmts_rhash_Tx_Scanner),
  ("rhash", "Tx.Set", Generated.txStmts_rhash_Tx_Set),
  ("rhash", "Tx.SetMany", Generated.txStmts_rhash_Tx_SetMany),
  ("rhash", "Tx.SetNotExists", Generated.txStmts_rhash_Tx_SetNotExists),
  ("rhash", "Tx.Values", Generated.txStmts_rhash_Tx_Values),
  ("rhash", "Tx.count", Generated.txStmts_rhash_Tx_count),
  ("rhash", "Tx.set", Generated.txStmts_rhash_Tx_set),
  ("rhash", "newScanner", Generated.txStmts_rhash_func_newScanner),
  ("rhash", "scanValue", Generated.txStmts_rhash_func_scanValue),
  ("rkey", "Scanner.Scan", Generated.txStmts_rkey_Scanner_Scan),
  ("rkey", "Tx.Count", Generated.txStmts_rkey_Tx_Count),
  ("rkey", "Tx.Delete", Generated.txStmts_rkey_Tx_Delete),
  ("rkey", "Tx.DeleteAll", Generated.txStmts_rkey_Tx_DeleteAll),
  ("rkey", "Tx.Exists", Generated.txStmts_rkey_Tx_Exists),
  ("rkey", "Tx.Expire", Generated.txStmts_rkey_Tx_Expire),
  ("rkey", "Tx.ExpireAt", Generated.txStmts_rkey_Tx_ExpireAt),
  ("rkey", "Tx.Get", Generated.txStmts_rkey_Tx_Get),
  ("rkey", "Tx.Keys", Generated.txStmts_rkey_Tx_Keys),
  ("rkey", "Tx.Len", Generated.txStmts_rkey_Tx_Len),
  ("rkey", "Tx.Persist", Generated.txStmts_rkey_Tx_Persist),
  ("rkey", "Tx.Random", Generated.txStmts_rkey_Tx_Random),
  ("rkey", "Tx.Rename", Generated.txStmts_rkey_Tx_Rename),
  ("rkey", "Tx.RenameNotExists", Generated.txStmts_rkey_Tx_RenameNotExists),
  ("rkey", "Tx.Scan", Generated.txStmts_rkey_Tx_Scan),
  ("rkey", "Tx.Scanner", Generated.txStmts_rkey_Tx_Scanner),
  ("rkey", "Tx.deleteExpired", Generated.txStmts_rkey_Tx_deleteExpired),
  ("rkey", "newScanner", Generated.txStmts_rkey_func_newScanner),
  ("rlist", "Tx.Delete", Generated.txStmts_rlist_Tx_Delete),
  ("rlist", "Tx.DeleteBack", Generated.txStmts_rlist_Tx_DeleteBack),
  ("rlist", "Tx.DeleteFront", Generated.txStmts_rlist_Tx_DeleteFront),
  ("rlist", "Tx.Get", Generated.txStmts_rlist_Tx_Get),
  ("rlist", "Tx.InsertAfter", Generated.txStmts_rlist_Tx_InsertAfter),
  ("rlist", "Tx.InsertBefore", Generated.txStmts_rlist_Tx_InsertBefore),
  ("rlist", "Tx.Len", Generated.txStmts_rlist_Tx_Len),
  ("rlist", "Tx.PopBack", Generated.txStmts_rlist_Tx_PopBack),
  ("rlist", "Tx.PopBackPushFront", Generated.txStmts_rlist_Tx_PopBackPushFront),
  ("rlist", "Tx.PopFront", Generated.txStmts_rlist_Tx_PopFront),
  ("rlist", "Tx.PushBack", Generated.txStmts_rlist_Tx_PushBack),
  ("rlist", "Tx.PushFront", Generated.txStmts_rlist_Tx_PushFront),
  ("rlist", "Tx.Range", Generated.txStmts_rlist_Tx_Range),
  ("rlist", "Tx.Set", Generated.txStmts_rlist_Tx_Set),
  ("rlist", "Tx.Trim", Generated.txStmts_rlist_Tx_Trim),
  ("rlist", "Tx.delete", Generated.txStmts_rlist_Tx_delete),
  ("rlist", "Tx.insert", Generated.txStmts_rlist_Tx_insert),
  ("rlist", "Tx.pop", Generated.txStmts_rlist_Tx_pop),
  ("rlist", "Tx.push", Generated.txStmts_rlist_Tx_push),
  ("rset", "Scanner.Scan", Generated.txStmts_rset_Scanner_Scan),
  ("rset", "Tx.Add", Generated.txStmts_rset_Tx_Add),
  ("rset", "Tx.Delete", Generated.txStmts_rset_Tx_Delete),
  ("rset", "Tx.Diff", Generated.txStmts_rset_Tx_Diff),
  ("rset", "Tx.DiffStore", Generated.txStmts_rset_Tx_DiffStore),
  ("rset", "Tx.Exists", Generated.txStmts_rset_Tx_Exists),
  ("rset", "Tx.Inter", Generated.txStmts_rset_Tx_Inter),
  ("rset", "Tx.InterStore", Generated.txStmts_rset_Tx_InterStore),
  ("rset", "Tx.Items", Generated.txStmts_rset_Tx_Items),
  ("rset", "Tx.Len", Generated.txStmts_rset_Tx_Len),
  ("rset", "Tx.Move", Generated.txStmts_rset_Tx_Move),
  ("rset", "Tx.Pop", Generated.txStmts_rset_Tx_Pop),
  ("rset", "Tx.Random", Generated.txStmts_rset_Tx_Random),
  ("rset", "Tx.Scan", Generated.txStmts_rset_Tx_Scan),
  ("rset", "Tx.Scanner", Generated.txStmts_rset_Tx_Scanner),
  ("rset", "Tx.Union", Generated.txStmts_rset_Tx_Union),
  ("rset", "Tx.UnionStore", Generated.txStmts_rset_Tx_UnionStore),
  ("rset", "Tx.createKey", Generated.txStmts_rset_Tx_createKey),
  ("rset", "Tx.deleteKey", Generated.txStmts_rset_Tx_deleteKey),
  ("rset", "Tx.selectElems", Generated.txStmts_rset_Tx_selectElems),
  ("rset", "Tx.store", Generated.txStmts_rset_Tx_store),
  ("rset", "countDistinct", Generated.txStmts_rset_func_countDistinct),
  ("rset", "newScanner", Generated.txStmts_rset_func_newScanner),
  ("rstring", "SetCmd.Run", Generated.txStmts_rstring_SetCmd_Run),
  ("rstring", "SetCmd.run", Generated.txStmts_rstring_SetCmd_run),
  ("rstring", "Tx.Get", Generated.txStmts_rstring_Tx_Get),
  ("rstring", "Tx.GetMany", Generated.txStmts_rstring_Tx_GetMany),
  ("rstring", "Tx.Incr", Generated.txStmts_rstring_Tx_Incr),
  ("rstring", "Tx.IncrFloat", Generated.txStmts_rstring_Tx_IncrFloat),
  ("rstring", "Tx.Set", Generated.txStmts_rstring_Tx_Set),
  ("rstring", "Tx.SetExpires", Generated.txStmts_rstring_Tx_SetExpires),
  ("rstring", "Tx.SetMany", Generated.txStmts_rstring_Tx_SetMany),
  ("rstring", "Tx.SetWith", Generated.txStmts_rstring_Tx_SetWith),
  ("rstring", "get", Generated.txStmts_rstring_func_get),
  ("rstring", "set", Generated.txStmts_rstring_func_set),
  ("rstring", "update", Generated.txStmts_rstring_func_update),
  ("rzset", "DeleteCmd.Run", Generated.txStmts_rzset_DeleteCmd_Run),
  ("rzset", "DeleteCmd.deleteRank", Generated.txStmts_rzset_DeleteCmd_deleteRank),
  ("rzset", "DeleteCmd.deleteScore", Generated.txStmts_rzset_DeleteCmd_deleteScore),
  ("rzset", "DeleteCmd.run", Generated.txStmts_rzset_DeleteCmd_run),
  ("rzset", "DeleteCmd.updateKey", Generated.txStmts_rzset_DeleteCmd_updateKey),
  ("rzset", "InterCmd.Run", Generated.txStmts_rzset_InterCmd_Run),
  ("rzset", "InterCmd.Store", Generated.txStmts_rzset_InterCmd_Store),
  ("rzset", "InterCmd.run", Generated.txStmts_rzset_InterCmd_run),
  ("rzset", "InterCmd.store", Generated.txStmts_rzset_InterCmd_store),
  ("rzset", "RangeCmd.Run", Generated.txStmts_rzset_RangeCmd_Run),
  ("rzset", "RangeCmd.rangeRank", Generated.txStmts_rzset_RangeCmd_rangeRank),
  ("rzset", "RangeCmd.rangeScore", Generated.txStmts_rzset_RangeCmd_rangeScore),
  ("rzset", "Scanner.Scan", Generated.txStmts_rzset_Scanner_Scan),
  ("rzset", "Tx.Add", Generated.txStmts_rzset_Tx_Add),
  ("rzset", "Tx.AddMany", Generated.txStmts_rzset_Tx_AddMany),
  ("rzset", "Tx.Count", Generated.txStmts_rzset_Tx_Count),
  ("rzset", "Tx.Delete", Generated.txStmts_rzset_Tx_Delete),
  ("rzset", "Tx.DeleteWith", Generated.txStmts_rzset_Tx_DeleteWith),
  ("rzset", "Tx.GetRank", Generated.txStmts_rzset_Tx_GetRank),
  ("rzset", "Tx.GetRankRev", Generated.txStmts_rzset_Tx_GetRankRev),
  ("rzset", "Tx.GetScore", Generated.txStmts_rzset_Tx_GetScore),
  ("rzset", "Tx.Incr", Generated.txStmts_rzset_Tx_Incr),
  ("rzset", "Tx.Inter", Generated.txStmts_rzset_Tx_Inter),
  ("rzset", "Tx.InterWith", Generated.txStmts_rzset_Tx_InterWith),
  ("rzset", "Tx.Len", Generated.txStmts_rzset_Tx_Len),
  ("rzset", "Tx.Range", Generated.txStmts_rzset_Tx_Range),
  ("rzset", "Tx.RangeWith", Generated.txStmts_rzset_Tx_RangeWith),
  ("rzset", "Tx.Scan", Generated.txStmts_rzset_Tx_Scan),
  ("rzset", "Tx.Scanner", Generated.txStmts_rzset_Tx_Scanner),
  ("rzset", "Tx.Union", Generated.txStmts_rzset_Tx_Union),
  ("rzset", "Tx.UnionWith", Generated.txStmts_rzset_Tx_UnionWith),
  ("rzset", "Tx.add", Generated.txStmts_rzset_Tx_add),
  ("rzset", "Tx.count", Generated.txStmts_rzset_Tx_count),
  ("rzset", "Tx.getRank", Generated.txStmts_rzset_Tx_getRank),
  ("rzset", "UnionCmd.Run", Generated.txStmts_rzset_UnionCmd_Run),
  ("rzset", "UnionCmd.Store", Generated.txStmts_rzset_UnionCmd_Store),
  ("rzset", "UnionCmd.run", Generated.txStmts_rzset_UnionCmd_run),
  ("rzset", "UnionCmd.store", Generated.txStmts_rzset_UnionCmd_store),
  ("rzset", "countDistinct", Generated.txStmts_rzset_func_countDistinct),
  ("rzset", "newScanner", Generated.txStmts_rzset_func_newScanner),
  ("rzset", "scanItem", Generated.txStmts_rzset_func_scanItem)]

/-- `(package, statement, verb)` -/
def verbTable : List (String × String × String) := [
  ("rhash", "sqlCount", Generated.verb_rhash_sqlCount),
  ("rhash", "sqlDelete1", Generated.verb_rhash_sqlDelete1),
  ("rhash", "sqlDelete2", Generated.verb_rhash_sqlDelete2),
  ("rhash", "sqlFields", Generated.verb_rhash_sqlFields),
  ("rhash", "sqlGet", Generated.verb_rhash_sqlGet),
  ("rhash", "sqlGetMany", Generated.verb_rhash_sqlGetMany),
  ("rhash", "sqlItems", Generated.verb_rhash_sqlItems),
  ("rhash", "sqlLen", Generated.verb_rhash_sqlLen),
  ("rhash", "sqlScan", Generated.verb_rhash_sqlScan),
  ("rhash", "sqlSet1", Generated.verb_rhash_sqlSet1),
  ("rhash", "sqlSet2", Generated.verb_rhash_sqlSet2),
  ("rhash", "sqlValues", Generated.verb_rhash_sqlValues),
  ("rkey", "sqlCount", Generated.verb_rkey_sqlCount),
  ("rkey", "sqlDelete", Generated.verb_rkey_sqlDelete),
  ("rkey", "sqlDeleteAll", Generated.verb_rkey_sqlDeleteAll),
  ("rkey", "sqlDeleteAllExpired", Generated.verb_rkey_sqlDeleteAllExpired),
  ("rkey", "sqlDeleteNExpired", Generated.verb_rkey_sqlDeleteNExpired),
  ("rkey", "sqlExpire", Generated.verb_rkey_sqlExpire),
  ("rkey", "sqlGet", Generated.verb_rkey_sqlGet),
  ("rkey", "sqlKeys", Generated.verb_rkey_sqlKeys),
  ("rkey", "sqlLen", Generated.verb_rkey_sqlLen),
  ("rkey", "sqlPersist", Generated.verb_rkey_sqlPersist),
  ("rkey", "sqlRandom", Generated.verb_rkey_sqlRandom),
  ("rkey", "sqlRename", Generated.verb_rkey_sqlRename),
  ("rkey", "sqlScan", Generated.verb_rkey_sqlScan),
  ("rlist", "sqlDelete", Generated.verb_rlist_sqlDelete),
  ("rlist", "sqlDeleteBack", Generated.verb_rlist_sqlDeleteBack),
  ("rlist", "sqlDeleteFront", Generated.verb_rlist_sqlDeleteFront),
  ("rlist", "sqlGet", Generated.verb_rlist_sqlGet),
  ("rlist", "sqlInsert", Generated.verb_rlist_sqlInsert),
  ("rlist", "sqlInsertAfter", Generated.verb_rlist_sqlInsertAfter),
  ("rlist", "sqlInsertBefore", Generated.verb_rlist_sqlInsertBefore),
  ("rlist", "sqlInsertKey", Generated.verb_rlist_sqlInsertKey),
  ("rlist", "sqlLen", Generated.verb_rlist_sqlLen),
  ("rlist", "sqlPopBack", Generated.verb_rlist_sqlPopBack),
  ("rlist", "sqlPopFront", Generated.verb_rlist_sqlPopFront),
  ("rlist", "sqlPush", Generated.verb_rlist_sqlPush),
  ("rlist", "sqlPushBack", Generated.verb_rlist_sqlPushBack),
  ("rlist", "sqlPushFront", Generated.verb_rlist_sqlPushFront),
  ("rlist", "sqlRange", Generated.verb_rlist_sqlRange),
  ("rlist", "sqlSet", Generated.verb_rlist_sqlSet),
  ("rlist", "sqlTrim", Generated.verb_rlist_sqlTrim),
  ("rset", "sqlAdd1", Generated.verb_rset_sqlAdd1),
  ("rset", "sqlAdd2", Generated.verb_rset_sqlAdd2),
  ("rset", "sqlDelete1", Generated.verb_rset_sqlDelete1),
  ("rset", "sqlDelete2", Generated.verb_rset_sqlDelete2),
  ("rset", "sqlDeleteKey1", Generated.verb_rset_sqlDeleteKey1),
  ("rset", "sqlDeleteKey2", Generated.verb_rset_sqlDeleteKey2),
  ("rset", "sqlDiff", Generated.verb_rset_sqlDiff),
  ("rset", "sqlDiffStore", Generated.verb_rset_sqlDiffStore),
  ("rset", "sqlExists", Generated.verb_rset_sqlExists),
  ("rset", "sqlInter", Generated.verb_rset_sqlInter),
  ("rset", "sqlInterStore", Generated.verb_rset_sqlInterStore),
  ("rset", "sqlItems", Generated.verb_rset_sqlItems),
  ("rset", "sqlLen", Generated.verb_rset_sqlLen),
  ("rset", "sqlPop1", Generated.verb_rset_sqlPop1),
  ("rset", "sqlPop2", Generated.verb_rset_sqlPop2),
  ("rset", "sqlRandom", Generated.verb_rset_sqlRandom),
  ("rset", "sqlScan", Generated.verb_rset_sqlScan),
  ("rset", "sqlUnion", Generated.verb_rset_sqlUnion),
  ("rset", "sqlUnionStore", Generated.verb_rset_sqlUnionStore),
  ("rstring", "sqlGet", Generated.verb_rstring_sqlGet),
  ("rstring", "sqlGetMany", Generated.verb_rstring_sqlGetMany),
  ("rstring", "sqlSet1", Generated.verb_rstring_sqlSet1),
  ("rstring", "sqlSet2", Generated.verb_rstring_sqlSet2),
  ("rstring", "sqlUpdate1", Generated.verb_rstring_sqlUpdate1),
  ("rstring", "sqlUpdate2", Generated.verb_rstring_sqlUpdate2),
  ("rzset", "sqlAdd1", Generated.verb_rzset_sqlAdd1),
  ("rzset", "sqlAdd2", Generated.verb_rzset_sqlAdd2),
  ("rzset", "sqlCount", Generated.verb_rzset_sqlCount),
  ("rzset", "sqlCountScore", Generated.verb_rzset_sqlCountScore),
  ("rzset", "sqlDelete1", Generated.verb_rzset_sqlDelete1),
  ("rzset", "sqlDelete2", Generated.verb_rzset_sqlDelete2),
  ("rzset", "sqlDeleteAll1", Generated.verb_rzset_sqlDeleteAll1),
  ("rzset", "sqlDeleteAll2", Generated.verb_rzset_sqlDeleteAll2),
  ("rzset", "sqlDeleteRank", Generated.verb_rzset_sqlDeleteRank),
  ("rzset", "sqlDeleteScore", Generated.verb_rzset_sqlDeleteScore),
  ("rzset", "sqlGetRank", Generated.verb_rzset_sqlGetRank),
  ("rzset", "sqlGetScore", Generated.verb_rzset_sqlGetScore),
  ("rzset", "sqlIncr1", Generated.verb_rzset_sqlIncr1),
  ("rzset", "sqlIncr2", Generated.verb_rzset_sqlIncr2),
  ("rzset", "sqlInter", Generated.verb_rzset_sqlInter),
  ("rzset", "sqlInterStore1", Generated.verb_rzset_sqlInterStore1),
  ("rzset", "sqlInterStore2", Generated.verb_rzset_sqlInterStore2),
  ("rzset", "sqlInterStore3", Generated.verb_rzset_sqlInterStore3),
  ("rzset", "sqlInterStore4", Generated.verb_rzset_sqlInterStore4),
  ("rzset", "sqlLen", Generated.verb_rzset_sqlLen),
  ("rzset", "sqlRangeRank", Generated.verb_rzset_sqlRangeRank),
  ("rzset", "sqlRangeScore", Generated.verb_rzset_sqlRangeScore),
  ("rzset", "sqlScan", Generated.verb_rzset_sqlScan),
  ("rzset", "sqlUnion", Generated.verb_rzset_sqlUnion),
  ("rzset", "sqlUnionStore1", Generated.verb_rzset_sqlUnionStore1),
  ("rzset", "sqlUnionStore2", Generated.verb_rzset_sqlUnionStore2),
  ("rzset", "sqlUnionStore3", Generated.verb_rzset_sqlUnionStore3),
  ("rzset", "sqlUnionStore4", Generated.verb_rzset_sqlUnionStore4),
  ("rzset", "sqlUpdateKey", Generated.verb_rzset_sqlUpdateKey)]

theorem wrapTable_complete : wrapTable.map (fun e => (e.1, e.2.1)) = Generated.wrapNames := by decide

theorem stmtTable_complete : stmtTable.map (fun e => (e.1, e.2.1)) =
    Generated.txNames_rhash.map (fun n => ("rhash", n)) ++ Generated.txNames_rkey.map (fun n => ("rkey", n)) ++
    Generated.txNames_rlist.map (fun n => ("rlist", n)) ++ Generated.txNames_rset.map (fun n => ("rset", n)) ++
    Generated.txNames_rstring.map (fun n => ("rstring", n)) ++ Generated.txNames_rzset.map (fun n => ("rzset", n)) := by
  decide

theorem verbTable_complete : verbTable.map (fun e => (e.1, e.2.1)) = Generated.sqlNames := by decide

def wrapKind (pkg m : String) : Option String :=
  (wrapTable.find? (fun e => e.1 == pkg && e.2.1 == m)).map (·.2.2.1)

def wrapCallees (pkg m : String) : List String :=
  match wrapTable.find? (fun e => e.1 == pkg && e.2.1 == m) with
  | some e => e.2.2.2
  | none => []

def stmtsOf (pkg fn : String) : Option (List String) :=
  (stmtTable.find? (fun e => e.1 == pkg && e.2.1 == fn)).map (·.2.2)

def verbOf (pkg stmt : String) : Option String :=
  (verbTable.find? (fun e => e.1 == pkg && e.2.1 == stmt)).map (·.2.2)

/-- a statement that is known to be a plain `select` -/
def isSelect (pkg stmt : String) : Bool := verbOf pkg stmt == some "select"

/-- The statements a `DB` method can execute through its callees, other than `NewTx` (which only
wraps the handle). A callee that is itself a `DB` method of the package (a builder handing over to
its `Run`) contributes nothing here: it is judged as its own entry. `none`: a callee is unknown. -/
def reachStmts (pkg : String) (callees : List String) : Option (List String) :=
  callees.foldl (fun acc c =>
    match acc with
    | none => none
    | some l =>
      if c == "NewTx" then some l
      else match stmtsOf pkg c with
        | some s => some (l ++ s)
        | none => if (wrapKind pkg c).isSome then some l else none) (some [])

/-- the statements among them that are not plain selects -/
def reachWrites (pkg : String) (callees : List String) : Option (List String) :=
  (reachStmts pkg callees).map (fun l => l.filter (fun s => !isSelect pkg s))

/-- the one `DB` method that runs more than one writing statement outside `Update`: the cleaner.
Its two statements are the branches of `if n > 0 { … } else { … }`, one `Exec` per call. -/
def isAlternatives (pkg m : String) (writes : List String) : Bool :=
  pkg == "rkey" && m == "DeleteExpired" && writes == ["sqlDeleteNExpired", "sqlDeleteAllExpired"]

/-- the judgement of one `DB` method -/
def wrapperSafe (e : String × String × String × List String) : Bool :=
  let (pkg, m, kind, callees) := e
  match reachWrites pkg callees with
  | none => false
  | some w =>
    if kind == "update" then true
    else if kind == "ro" then w.isEmpty
    else decide (w.length ≤ 1) || isAlternatives pkg m w

/-! ### which `DB` method an operation of the model is -/

def kindName : Model.Wrap → String
  | .update => "update"
  | .roDirect => "ro"
  | .rwDirect => "rw"

/-- `(package, DB method)`; a builder command is the method that runs it -/
def opMethod : Op → String × String
  | .strGet .. => ("rstring", "Get")
  | .strGetMany .. => ("rstring", "GetMany")
  | .strIncr .. => ("rstring", "Incr")
  | .strIncrFloat .. => ("rstring", "IncrFloat")
  | .strSet .. => ("rstring", "Set")
  | .strSetExpires .. => ("rstring", "SetExpires")
  | .strSetMany .. => ("rstring", "SetMany")
  | .strSetWith .. => ("rstring", "SetCmd.Run")
  | .keyCount .. => ("rkey", "Count")
  | .keyDelete .. => ("rkey", "Delete")
  | .keyDeleteAll .. => ("rkey", "DeleteAll")
  | .keyDeleteExpired .. => ("rkey", "DeleteExpired")
  | .keyExists .. => ("rkey", "Exists")
  | .keyExpire .. => ("rkey", "Expire")
  | .keyExpireAt .. => ("rkey", "ExpireAt")
  | .keyGet .. => ("rkey", "Get")
  | .keyKeys .. => ("rkey", "Keys")
  | .keyLen .. => ("rkey", "Len")
  | .keyPersist .. => ("rkey", "Persist")
  | .keyRandom .. => ("rkey", "Random")
  | .keyRename .. => ("rkey", "Rename")
  | .keyRenameNX .. => ("rkey", "RenameNotExists")
  | .keyScan .. => ("rkey", "Scan")
  | .listDelete .. => ("rlist", "Delete")
  | .listDeleteBack .. => ("rlist", "DeleteBack")
  | .listDeleteFront .. => ("rlist", "DeleteFront")
  | .listGet .. => ("rlist", "Get")
  | .listInsertAfter .. => ("rlist", "InsertAfter")
  | .listInsertBefore .. => ("rlist", "InsertBefore")
  | .listLen .. => ("rlist", "Len")
  | .listPopBack .. => ("rlist", "PopBack")
  | .listPopBackPushFront .. => ("rlist", "PopBackPushFront")
  | .listPopFront .. => ("rlist", "PopFront")
  | .listPushBack .. => ("rlist", "PushBack")
  | .listPushFront .. => ("rlist", "PushFront")
  | .listRange .. => ("rlist", "Range")
  | .listSet .. => ("rlist", "Set")
  | .listTrim .. => ("rlist", "Trim")
  | .setAdd .. => ("rset", "Add")
  | .setDelete .. => ("rset", "Delete")
  | .setDiff .. => ("rset", "Diff")
  | .setDiffStore .. => ("rset", "DiffStore")
  | .setExists .. => ("rset", "Exists")
  | .setInter .. => ("rset", "Inter")
  | .setInterStore .. => ("rset", "InterStore")
  | .setItems .. => ("rset", "Items")
  | .setLen .. => ("rset", "Len")
  | .setMove .. => ("rset", "Move")
  | .setPop .. => ("rset", "Pop")
  | .setRandom .. => ("rset", "Random")
  | .setScan .. => ("rset", "Scan")
  | .setUnion .. => ("rset", "Union")
  | .setUnionStore .. => ("rset", "UnionStore")
  | .hashDelete .. => ("rhash", "Delete")
  | .hashExists .. => ("rhash", "Exists")
  | .hashFields .. => ("rhash", "Fields")
  | .hashGet .. => ("rhash", "Get")
  | .hashGetMany .. => ("rhash", "GetMany")
  | .hashIncr .. => ("rhash", "Incr")
  | .hashIncrFloat .. => ("rhash", "IncrFloat")
  | .hashItems .. => ("rhash", "Items")
  | .hashLen .. => ("rhash", "Len")
  | .hashScan .. => ("rhash", "Scan")
  | .hashSet .. => ("rhash", "Set")
  | .hashSetMany .. => ("rhash", "SetMany")
  | .hashSetNotExists .. => ("rhash", "SetNotExists")
  | .hashValues .. => ("rhash", "Values")
  | .zAdd .. => ("rzset", "Add")
  | .zAddMany .. => ("rzset", "AddMany")
  | .zCount .. => ("rzset", "Count")
  | .zDelete .. => ("rzset", "Delete")
  | .zDeleteRank .. => ("rzset", "DeleteCmd.Run")
  | .zDeleteScore .. => ("rzset", "DeleteCmd.Run")
  | .zGetRank .. => ("rzset", "GetRank")
  | .zGetRankRev .. => ("rzset", "GetRankRev")
  | .zGetScore .. => ("rzset", "GetScore")
  | .zIncr .. => ("rzset", "Incr")
  | .zInter .. => ("rzset", "InterCmd.Run")
  | .zInterStore .. => ("rzset", "InterCmd.Store")
  | .zLen .. => ("rzset", "Len")
  | .zRangeRank .. => ("rzset", "RangeWith")
  | .zRangeScore .. => ("rzset", "RangeWith")
  | .zScan .. => ("rzset", "Scan")
  | .zUnion .. => ("rzset", "UnionCmd.Run")
  | .zUnionStore .. => ("rzset", "UnionCmd.Store")

end Redka.Proofs.Fault
