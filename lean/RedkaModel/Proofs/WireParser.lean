/-
  Lemmas about the argument pipeline of `internal/parser` as modelled in
  `RedkaModel/Model/Wire/Parser.lean`: for EVERY grammar built from the combinators and EVERY
  argument vector.

  * unfolding lemmas for `runP` / `runNamed` / `runOneOf`;
  * no combinator, no loop and no grammar ever panics (since the repair of D11: `parser.StringsN`
    refuses a negative count with `ErrInvalidArgNum`); `hasStringsN` says where `StringsN` occurs;
  * the footprint of a combinator (`EnvStep`): which slots it may write, and that every `int` it
    stores was read by `strconv.Atoi` from one of the arguments;
  * `equalFold` is invariant under ASCII case changes of either side; `Flag`, `Named` and `OneOf`
    of those look at the head argument only through `equalFold`;
  * the positional prefix of a grammar.

  Everything lives in `Redka.WireProofs`. Core Lean only.
-/
import RedkaModel.Model.Wire.Parser

namespace Redka.WireProofs

open Redka Redka.Wire

/-! ### bytes -/

theorem forall_uint8 {p : UInt8 → Prop} (h : ∀ n : Fin 256, p (UInt8.ofNat n.val)) : ∀ c, p c := by
  intro c
  have := h ⟨c.toNat, c.toNat_lt⟩
  simpa using this

/-- `c - 32` for `a..z` -/
def upperAscii (c : UInt8) : UInt8 := if 97 ≤ c && c ≤ 122 then c - 32 else c

theorem lowerAscii_idem : ∀ c : UInt8, lowerAscii (lowerAscii c) = lowerAscii c := by
  apply forall_uint8; decide +kernel

theorem lowerAscii_upperAscii : ∀ c : UInt8, lowerAscii (upperAscii c) = lowerAscii c := by
  apply forall_uint8; decide +kernel

theorem lowerAscii_lt_128 : ∀ c : UInt8, (lowerAscii c < 128) = (c < 128) := by
  apply forall_uint8; decide +kernel

theorem lowerAscii_of_ge : ∀ c : UInt8, ¬ c < 128 → lowerAscii c = c := by
  apply forall_uint8; decide +kernel

/-- two byte strings that differ at most in the case of ASCII letters -/
def CaseVariant (a b : Bytes) : Prop := a.map lowerAscii = b.map lowerAscii

instance (a b : Bytes) : Decidable (CaseVariant a b) := by unfold CaseVariant; infer_instance

theorem CaseVariant.refl (a : Bytes) : CaseVariant a a := rfl
theorem CaseVariant.symm {a b : Bytes} (h : CaseVariant a b) : CaseVariant b a := Eq.symm h
theorem CaseVariant.trans {a b c : Bytes} (h : CaseVariant a b) (h' : CaseVariant b c) :
    CaseVariant a c := Eq.trans h h'

theorem caseVariant_lower (a : Bytes) : CaseVariant (a.map lowerAscii) a := by
  simp [CaseVariant, List.map_map, Function.comp_def, lowerAscii_idem]

theorem caseVariant_upper (a : Bytes) : CaseVariant (a.map upperAscii) a := by
  simp [CaseVariant, List.map_map, Function.comp_def, lowerAscii_upperAscii]

/-! ### `strings.EqualFold` -/

theorem equalFold_cons (a : UInt8) (as : Bytes) (n : UInt8) (ns : Bytes) :
    equalFold (a :: as) (n :: ns) =
      if a < 128 then lowerAscii a == lowerAscii n && equalFold as ns
      else if a == 0xE2 then
        match as with
        | b :: c :: rest => b == 0x84 && c == 0xAA && lowerAscii n == 107 && equalFold rest ns
        | _ => false
      else if a == 0xC5 then
        match as with
        | b :: rest => b == 0xBF && lowerAscii n == 115 && equalFold rest ns
        | _ => false
      else false := by
  rw [equalFold.eq_def]; rfl

theorem lowerAscii_beq_84 : ∀ b : UInt8, (lowerAscii b == 0x84) = (b == 0x84) := by
  apply forall_uint8; decide +kernel
theorem lowerAscii_beq_AA : ∀ b : UInt8, (lowerAscii b == 0xAA) = (b == 0xAA) := by
  apply forall_uint8; decide +kernel
theorem lowerAscii_beq_BF : ∀ b : UInt8, (lowerAscii b == 0xBF) = (b == 0xBF) := by
  apply forall_uint8; decide +kernel

/-- the first argument only matters up to ASCII case -/
theorem equalFold_lower_left (a n : Bytes) : equalFold (a.map lowerAscii) n = equalFold a n := by
  fun_induction equalFold a n with
  | case1 => rfl
  | case2 => rfl
  | case3 => rfl
  | case4 a as n ns h ih =>
    have h' : lowerAscii a < 128 := by rw [lowerAscii_lt_128]; exact h
    rw [List.map_cons, equalFold_cons, if_pos h', lowerAscii_idem, ih]
  | case5 a n ns h h2 b c rest ih =>
    have e : lowerAscii a = a := lowerAscii_of_ge a h
    rw [List.map_cons, equalFold_cons, e, if_neg h, if_pos h2]
    simp only [List.map_cons]
    rw [lowerAscii_beq_84, lowerAscii_beq_AA, ih]
  | case6 a as n ns h h2 hno =>
    have e : lowerAscii a = a := lowerAscii_of_ge a h
    rw [List.map_cons, equalFold_cons, e, if_neg h, if_pos h2]
    match as, hno with
    | [], _ => rfl
    | [_], _ => rfl
    | b :: c :: rest, hno => exact absurd rfl (hno b c rest)
  | case7 a n ns h h2 h3 b rest ih =>
    have e : lowerAscii a = a := lowerAscii_of_ge a h
    rw [List.map_cons, equalFold_cons, e, if_neg h, if_neg h2, if_pos h3]
    simp only [List.map_cons]
    rw [lowerAscii_beq_BF, ih]
  | case8 a as n ns h h2 h3 hno =>
    have e : lowerAscii a = a := lowerAscii_of_ge a h
    rw [List.map_cons, equalFold_cons, e, if_neg h, if_neg h2, if_pos h3]
    match as, hno with
    | [], _ => rfl
    | b :: rest, hno => exact absurd rfl (hno b rest)
  | case9 a as n ns h h2 h3 =>
    have e : lowerAscii a = a := lowerAscii_of_ge a h
    rw [List.map_cons, equalFold_cons, e, if_neg h, if_neg h2, if_neg h3]

/-- … and so does the second -/
theorem equalFold_lower_right (a n : Bytes) : equalFold a (n.map lowerAscii) = equalFold a n := by
  fun_induction equalFold a n with
  | case1 => rfl
  | case2 => rfl
  | case3 => rfl
  | case4 a as n ns h ih =>
    rw [List.map_cons, equalFold_cons, if_pos h, lowerAscii_idem, ih]
  | case5 a n ns h h2 b c rest ih =>
    rw [List.map_cons, equalFold_cons, if_neg h, if_pos h2]
    simp only []
    rw [lowerAscii_idem, ih]
  | case6 a as n ns h h2 hno =>
    rw [List.map_cons, equalFold_cons, if_neg h, if_pos h2]
    match as, hno with
    | [], _ => rfl
    | [_], _ => rfl
    | b :: c :: rest, hno => exact absurd rfl (hno b c rest)
  | case7 a n ns h h2 h3 b rest ih =>
    rw [List.map_cons, equalFold_cons, if_neg h, if_neg h2, if_pos h3]
    simp only []
    rw [lowerAscii_idem, ih]
  | case8 a as n ns h h2 h3 hno =>
    rw [List.map_cons, equalFold_cons, if_neg h, if_neg h2, if_pos h3]
    match as, hno with
    | [], _ => rfl
    | b :: rest, hno => exact absurd rfl (hno b rest)
  | case9 a as n ns h h2 h3 =>
    rw [List.map_cons, equalFold_cons, if_neg h, if_neg h2, if_neg h3]

/-- `strings.EqualFold(arg, name)` does not see the ASCII case of `arg` … -/
theorem equalFold_caseVariant_left {a a' : Bytes} (h : CaseVariant a a') (n : Bytes) :
    equalFold a n = equalFold a' n := by
  rw [← equalFold_lower_left a, ← equalFold_lower_left a', h]

/-- … nor of `name` -/
theorem equalFold_caseVariant_right {n n' : Bytes} (a : Bytes) (h : CaseVariant n n') :
    equalFold a n = equalFold a n' := by
  rw [← equalFold_lower_right a n, ← equalFold_lower_right a n', h]

theorem equalFold_ascii_lower (a n : Bytes) :
    equalFold (a.map lowerAscii) n = equalFold a n ∧ equalFold a (n.map lowerAscii) = equalFold a n :=
  ⟨equalFold_lower_left a n, equalFold_lower_right a n⟩

theorem equalFold_ascii_upper (a n : Bytes) :
    equalFold (a.map upperAscii) n = equalFold a n ∧ equalFold a (n.map upperAscii) = equalFold a n :=
  ⟨equalFold_caseVariant_left (caseVariant_upper a) n, equalFold_caseVariant_right a (caseVariant_upper n)⟩

/-! ### unfolding the combinators -/

theorem runP_named (name : String) (ps : List P) (args : List Bytes) (env : Env) :
    runP (.named name ps) args env =
      match args with
      | [] => .ret false args env
      | a :: r => if !equalFold a (asciiBytes name) then .ret false args env
        else runNamed ps r env 0 ps.length := by
  cases args <;> simp [runP]

theorem runP_flag (name slot : String) (args : List Bytes) (env : Env) :
    runP (.flag name slot) args env =
      match args with
      | [] => .ret false args env
      | a :: r => if !equalFold a (asciiBytes name) then .ret false args env
        else .ret true r (setSlot env slot (.bool true)) := by
  cases args <;> simp [runP]

theorem runP_oneOf (ps : List P) (args : List Bytes) (env : Env) :
    runP (.oneOf ps) args env = runOneOf ps args env 0 := by
  cases args <;> simp [runP]

theorem runNamed_nil (args : List Bytes) (env : Env) (n t : Nat) :
    runNamed [] args env n t = if n != t then .fail .syntaxError else .ret true args env := by
  rw [runNamed]

theorem runNamed_cons (p : P) (ps : List P) (args : List Bytes) (env : Env) (n t : Nat) :
    runNamed (p :: ps) args env n t =
      match runP p args env with
      | .ret fired rest env' =>
        if rest.isEmpty then
          (if (if fired then n + 1 else n) != t then .fail .syntaxError else .ret true rest env')
        else runNamed ps rest env' (if fired then n + 1 else n) t
      | other => other := by
  rw [runNamed]; rfl

theorem runOneOf_nil (args : List Bytes) (env : Env) (n : Nat) :
    runOneOf [] args env n = if n > 1 then .fail .syntaxError else .ret (n > 0) args env := by
  rw [runOneOf]

theorem runOneOf_cons (p : P) (ps : List P) (args : List Bytes) (env : Env) (n : Nat) :
    runOneOf (p :: ps) args env n =
      match runP p args env with
      | .ret fired rest env' => runOneOf ps rest env' (if fired then n + 1 else n)
      | other => other := by
  rw [runOneOf]; rfl

/-- a combinator that is not `Named` / `OneOf` -/
def isLeaf : P → Bool
  | .named _ _ => false
  | .oneOf _ => false
  | _ => true

/-! ### slots and `StringsN` occurrences -/

mutual
/-- the destination variables a combinator may assign -/
def slotsOf : P → List String
  | .string s => [s]
  | .bytes s => [s]
  | .int s => [s]
  | .float s => [s]
  | .enum s _ => [s]
  | .strings s => [s]
  | .anys s => [s]
  | .stringsN s _ => [s]
  | .anyMap s => [s]
  | .floatMap s => [s]
  | .flag _ s => [s]
  | .named _ ps => slotsOfL ps
  | .oneOf ps => slotsOfL ps
  | .unknown _ => []
def slotsOfL : List P → List String
  | [] => []
  | p :: ps => slotsOf p ++ slotsOfL ps
end

mutual
/-- `parser.StringsN` occurs in the combinator, at any depth -/
def hasStringsN : P → Bool
  | .stringsN _ _ => true
  | .named _ ps => hasStringsNL ps
  | .oneOf ps => hasStringsNL ps
  | _ => false
def hasStringsNL : List P → Bool
  | [] => false
  | p :: ps => hasStringsN p || hasStringsNL ps
end

mutual
/-- `parser.Enum` occurs in the combinator, at any depth -/
def hasEnum : P → Bool
  | .enum _ _ => true
  | .named _ ps => hasEnumL ps
  | .oneOf ps => hasEnumL ps
  | _ => false
def hasEnumL : List P → Bool
  | [] => false
  | p :: ps => hasEnum p || hasEnumL ps
end

mutual
/-- a construct the extractor did not recognise occurs in the combinator -/
def hasUnknown : P → Bool
  | .unknown _ => true
  | .named _ ps => hasUnknownL ps
  | .oneOf ps => hasUnknownL ps
  | _ => false
def hasUnknownL : List P → Bool
  | [] => false
  | p :: ps => hasUnknown p || hasUnknownL ps
end

/-! ### A.1 nothing panics -/

def stepIsPanic : Step → Bool
  | .panic => true
  | _ => false

mutual
/-- no combinator panics, on any arguments, in any environment -/
theorem runP_noPanic (p : P) (args : List Bytes) (env : Env) :
    stepIsPanic (runP p args env) = false := by
  cases p with
  | named name ps =>
    rw [runP_named]
    split
    · rfl
    · split
      · rfl
      · exact runNamed_noPanic ps _ _ _ _
  | oneOf ps =>
    rw [runP_oneOf]
    exact runOneOf_noPanic ps _ _ _
  | stringsN _ _ => cases args <;> simp only [runP] <;> (try split) <;> rfl
  | string _ => cases args <;> simp [runP, stepIsPanic]
  | bytes _ => cases args <;> simp [runP, stepIsPanic]
  | int _ => cases args <;> simp only [runP] <;> (try split) <;> rfl
  | float _ => cases args <;> simp only [runP] <;> (try split) <;> rfl
  | enum _ _ => cases args <;> simp only [runP] <;> (try split) <;> (try split) <;> rfl
  | strings _ => cases args <;> simp [runP, stepIsPanic]
  | anys _ => cases args <;> simp [runP, stepIsPanic]
  | anyMap _ => simp only [runP]; split <;> rfl
  | floatMap _ => simp only [runP]; split <;> (try split) <;> rfl
  | flag _ _ => rw [runP_flag]; split <;> (try split) <;> rfl
  | unknown _ => simp [runP, stepIsPanic]
theorem runNamed_noPanic (ps : List P) (args : List Bytes) (env : Env) (n t : Nat) :
    stepIsPanic (runNamed ps args env n t) = false := by
  cases ps with
  | nil => rw [runNamed_nil]; split <;> rfl
  | cons p ps =>
    rw [runNamed_cons]
    have hp := runP_noPanic p args env
    cases hr : runP p args env with
    | ret fired rest env' =>
      simp only []
      split
      · split <;> (try split) <;> rfl
      · exact runNamed_noPanic ps _ _ _ _
    | panic => rw [hr] at hp; cases hp
    | _ => rfl
theorem runOneOf_noPanic (ps : List P) (args : List Bytes) (env : Env) (n : Nat) :
    stepIsPanic (runOneOf ps args env n) = false := by
  cases ps with
  | nil => rw [runOneOf_nil]; split <;> rfl
  | cons p ps =>
    rw [runOneOf_cons]
    have hp := runP_noPanic p args env
    cases hr : runP p args env with
    | ret fired rest env' => exact runOneOf_noPanic ps _ _ _
    | panic => rw [hr] at hp; cases hp
    | _ => rfl
end

theorem runP_ne_panic (p : P) (args : List Bytes) (env : Env) : runP p args env ≠ .panic := by
  intro e
  have := runP_noPanic p args env
  rw [e] at this
  cases this

def outcomeIsPanic : Outcome → Bool
  | .panic => true
  | _ => false

def tryIsPanic : TryRes → Bool
  | .stop .panic => true
  | _ => false

theorem tryAll_noPanic (ps : List P) (i : Nat) (args : List Bytes) (env : Env) :
    tryIsPanic (tryAll ps i args env) = false := by
  induction ps generalizing i env with
  | nil => rfl
  | cons p ps ih =>
    have hp := runP_noPanic p args env
    rw [tryAll]
    split
    · rfl
    · exact ih _ _
    · rfl
    · next hpan => rw [hpan] at hp; cases hp
    · rfl
    · rfl

theorem finish_noPanic (args : List Bytes) (env : Env) : outcomeIsPanic (finish args env) = false := by
  unfold finish; split <;> rfl

theorem runLoop_noPanic (fuel : Nat) (ps : List P) (args : List Bytes) (env : Env) :
    outcomeIsPanic (runLoop fuel ps args env) = false := by
  induction fuel generalizing ps args env with
  | zero => rw [runLoop]; exact finish_noPanic _ _
  | succ fuel ih =>
    rw [runLoop]
    split
    · exact finish_noPanic _ _
    · have ht := tryAll_noPanic ps 0 args env
      split
      · exact ih _ _ _
      · exact finish_noPanic _ _
      · next o hstop =>
        rw [hstop] at ht
        cases o <;> first | rfl | cases ht

/-- `Pipeline.Run` never panics: any grammar, any arguments -/
theorem runGrammar_noPanic (g : Grammar) (args : List Bytes) :
    outcomeIsPanic (runGrammar g args) = false := by
  unfold runGrammar
  split
  · rfl
  · exact runLoop_noPanic _ _ _ _

theorem runGrammar_ne_panic (g : Grammar) (args : List Bytes) : runGrammar g args ≠ .panic := by
  intro e
  have := runGrammar_noPanic g args
  rw [e] at this
  cases this

/-! ### the footprint of a combinator -/

theorem getSlot_setSlot (env : Env) (k : String) (v : SlotVal) (k' : String) :
    getSlot (setSlot env k v) k' = if k = k' then some v else getSlot env k' := by
  induction env with
  | nil => simp [setSlot, getSlot]
  | cons kv r ih =>
    obtain ⟨k0, v0⟩ := kv
    by_cases h0 : k0 = k
    · subst h0; simp only [setSlot, getSlot, beq_self_eq_true, if_true, beq_iff_eq]; split <;> simp [*]
    · simp only [setSlot, beq_iff_eq, h0, if_false, getSlot, ih]
      by_cases h1 : k0 = k'
      · subst h1
        have : ¬ k = k0 := fun e => h0 e.symm
        simp [this]
      · simp [h1]

/-- an `int` stored in a slot was read by `strconv.Atoi` from one of the arguments `src` -/
def IntOK (src : List Bytes) (v : SlotVal) : Prop := ∀ i, v = .int i → ∃ a ∈ src, atoi a = some i

/-- `env'` is `env` after some assignments, each to a slot of `S`, each `int` read from `src` -/
inductive EnvStep (S : List String) (src : List Bytes) : Env → Env → Prop
  | refl (env : Env) : EnvStep S src env env
  | set {env env' : Env} (s : String) (v : SlotVal) :
      EnvStep S src env env' → s ∈ S → IntOK src v → EnvStep S src env (setSlot env' s v)

theorem EnvStep.mono {S S' : List String} {src src' : List Bytes} {env env' : Env}
    (h : EnvStep S src env env') (hS : ∀ s ∈ S, s ∈ S') (hsrc : ∀ a ∈ src, a ∈ src') :
    EnvStep S' src' env env' := by
  induction h with
  | refl => exact .refl _
  | set s v _ hs hv ih =>
    refine .set s v ih (hS s hs) ?_
    intro i hi
    obtain ⟨a, ha, hat⟩ := hv i hi
    exact ⟨a, hsrc a ha, hat⟩

theorem EnvStep.trans {S : List String} {src : List Bytes} {e1 e2 e3 : Env}
    (h1 : EnvStep S src e1 e2) (h2 : EnvStep S src e2 e3) : EnvStep S src e1 e3 := by
  induction h2 with
  | refl => exact h1
  | set s v _ hs hv ih => exact .set s v ih hs hv

theorem EnvStep.single {S : List String} {src : List Bytes} (env : Env) {s : String} (v : SlotVal)
    (hs : s ∈ S) (hv : IntOK src v) : EnvStep S src env (setSlot env s v) :=
  .set s v (.refl env) hs hv

/-- slots outside `S` keep their value -/
theorem EnvStep.frame {S : List String} {src : List Bytes} {env env' : Env}
    (h : EnvStep S src env env') (k : String) (hk : k ∉ S) : getSlot env' k = getSlot env k := by
  induction h with
  | refl => rfl
  | set s v _ hs _ ih =>
    rw [getSlot_setSlot]
    have : ¬ s = k := fun e => hk (e ▸ hs)
    simp [this, ih]

/-- what a returning combinator did: it left a suffix of its input, assigned only its own slots,
and when it did not fire it changed nothing -/
def Foot (S : List String) (args : List Bytes) (env : Env) (f : Bool) (rest : List Bytes)
    (env' : Env) : Prop :=
  rest <:+ args ∧ EnvStep S args env env' ∧ (f = false → rest = args ∧ env' = env)

theorem foot_unfired (S : List String) (args : List Bytes) (env : Env) : Foot S args env false args env :=
  ⟨List.suffix_refl _, .refl _, fun _ => ⟨rfl, rfl⟩⟩

theorem foot_set {S : List String} {args rest : List Bytes} (env : Env) {s : String} (v : SlotVal)
    (hsuf : rest <:+ args) (hs : s ∈ S) (hv : IntOK args v) :
    Foot S args env true rest (setSlot env s v) :=
  ⟨hsuf, .single env v hs hv, fun h => by cases h⟩

theorem intOK_of_not_int {src : List Bytes} {v : SlotVal} (h : ∀ i, v ≠ .int i) : IntOK src v :=
  fun i hi => absurd hi (h i)

theorem leaf_foot (p : P) (hl : isLeaf p = true) (args : List Bytes) (env : Env) (f : Bool)
    (rest : List Bytes) (env' : Env) (h : runP p args env = .ret f rest env') :
    Foot (slotsOf p) args env f rest env' := by
  cases p with
  | named _ _ => cases hl
  | oneOf _ => cases hl
  | unknown _ => simp [runP] at h
  | string s =>
    cases args with
    | nil => simp [runP] at h; obtain ⟨rfl, rfl, rfl⟩ := h; exact foot_unfired _ _ _
    | cons a r =>
      simp [runP] at h; obtain ⟨rfl, rfl, rfl⟩ := h
      exact foot_set _ _ (List.suffix_cons _ _) (by simp [slotsOf]) (intOK_of_not_int (by simp))
  | bytes s =>
    cases args with
    | nil => simp [runP] at h; obtain ⟨rfl, rfl, rfl⟩ := h; exact foot_unfired _ _ _
    | cons a r =>
      simp [runP] at h; obtain ⟨rfl, rfl, rfl⟩ := h
      exact foot_set _ _ (List.suffix_cons _ _) (by simp [slotsOf]) (intOK_of_not_int (by simp))
  | int s =>
    cases args with
    | nil => simp [runP] at h; obtain ⟨rfl, rfl, rfl⟩ := h; exact foot_unfired _ _ _
    | cons a r =>
      cases ha : atoi a with
      | none => simp [runP, ha] at h
      | some i =>
        simp [runP, ha] at h; obtain ⟨rfl, rfl, rfl⟩ := h
        refine foot_set _ _ (List.suffix_cons _ _) (by simp [slotsOf]) ?_
        intro j hj
        cases hj
        exact ⟨a, by simp, ha⟩
  | float s =>
    cases args with
    | nil => simp [runP] at h; obtain ⟨rfl, rfl, rfl⟩ := h; exact foot_unfired _ _ _
    | cons a r =>
      cases ha : parseFloat a with
      | invalid => simp [runP, ha] at h
      | outOfDomain => simp [runP, ha] at h
      | ok x =>
        simp [runP, ha] at h; obtain ⟨rfl, rfl, rfl⟩ := h
        exact foot_set _ _ (List.suffix_cons _ _) (by simp [slotsOf]) (intOK_of_not_int (by simp))
  | enum s allowed =>
    cases args with
    | nil => simp [runP] at h; obtain ⟨rfl, rfl, rfl⟩ := h; exact foot_unfired _ _ _
    | cons a r =>
      simp only [runP] at h
      split at h
      · cases h
      · split at h
        · cases h
          exact foot_set _ _ (List.suffix_cons _ _) (by simp [slotsOf]) (intOK_of_not_int (by simp))
        · cases h
  | strings s =>
    cases args with
    | nil => simp [runP] at h; obtain ⟨rfl, rfl, rfl⟩ := h; exact foot_unfired _ _ _
    | cons a r =>
      simp [runP] at h; obtain ⟨rfl, rfl, rfl⟩ := h
      exact foot_set _ _ (List.nil_suffix) (by simp [slotsOf]) (intOK_of_not_int (by simp))
  | anys s =>
    cases args with
    | nil => simp [runP] at h; obtain ⟨rfl, rfl, rfl⟩ := h; exact foot_unfired _ _ _
    | cons a r =>
      simp [runP] at h; obtain ⟨rfl, rfl, rfl⟩ := h
      exact foot_set _ _ (List.nil_suffix) (by simp [slotsOf]) (intOK_of_not_int (by simp))
  | stringsN s ns =>
    cases args with
    | nil => simp [runP] at h; obtain ⟨rfl, rfl, rfl⟩ := h; exact foot_unfired _ _ _
    | cons a r =>
      simp only [runP] at h
      split at h
      · cases h
      · cases h
        exact foot_set _ _ (List.drop_suffix _ _) (by simp [slotsOf]) (intOK_of_not_int (by simp))
  | anyMap s =>
    simp only [runP] at h
    split at h
    · cases h; exact foot_unfired _ _ _
    · cases h
      exact foot_set _ _ (List.nil_suffix) (by simp [slotsOf]) (intOK_of_not_int (by simp))
  | floatMap s =>
    simp only [runP] at h
    split at h
    · cases h; exact foot_unfired _ _ _
    · split at h
      · cases h; exact foot_unfired _ _ _
      · cases h
      · cases h
      · cases h
        exact foot_set _ _ (List.nil_suffix) (by simp [slotsOf]) (intOK_of_not_int (by simp))
  | flag name s =>
    rw [runP_flag] at h
    split at h
    · cases h; exact foot_unfired _ _ _
    · split at h
      · cases h; exact foot_unfired _ _ _
      · cases h
        exact foot_set _ _ (List.suffix_cons _ _) (by simp [slotsOf]) (intOK_of_not_int (by simp))

theorem Foot.mono {S S' : List String} {args args' : List Bytes} {env env' : Env} {rest : List Bytes}
    (h : Foot S args env true rest env') (hS : ∀ s ∈ S, s ∈ S') (hsuf : args <:+ args') :
    Foot S' args' env true rest env' :=
  ⟨h.1.trans hsuf, h.2.1.mono hS (fun _ ha => hsuf.subset ha), fun h => by cases h⟩

mutual
theorem runP_foot (p : P) (args : List Bytes) (env : Env) (f : Bool) (rest : List Bytes) (env' : Env)
    (h : runP p args env = .ret f rest env') : Foot (slotsOf p) args env f rest env' := by
  cases p with
  | named name ps =>
    rw [runP_named] at h
    split at h
    · cases h; exact foot_unfired _ _ _
    · next a r =>
      split at h
      · cases h; exact foot_unfired _ _ _
      · have := runNamed_foot ps r env 0 ps.length f rest env' h
        obtain ⟨rfl, hf⟩ := this
        exact hf.mono (fun _ hs => by simpa [slotsOf] using hs) (List.suffix_cons _ _)
  | oneOf ps =>
    rw [runP_oneOf] at h
    have := runOneOf_foot ps args env 0 f rest env' h
    refine ⟨this.1, by simpa [slotsOf] using this.2.1, fun hf => (this.2.2 hf).2⟩
  | string s => exact leaf_foot _ rfl _ _ _ _ _ h
  | bytes s => exact leaf_foot _ rfl _ _ _ _ _ h
  | int s => exact leaf_foot _ rfl _ _ _ _ _ h
  | float s => exact leaf_foot _ rfl _ _ _ _ _ h
  | enum s al => exact leaf_foot _ rfl _ _ _ _ _ h
  | strings s => exact leaf_foot _ rfl _ _ _ _ _ h
  | anys s => exact leaf_foot _ rfl _ _ _ _ _ h
  | stringsN s ns => exact leaf_foot _ rfl _ _ _ _ _ h
  | anyMap s => exact leaf_foot _ rfl _ _ _ _ _ h
  | floatMap s => exact leaf_foot _ rfl _ _ _ _ _ h
  | flag n s => exact leaf_foot _ rfl _ _ _ _ _ h
  | unknown t => exact leaf_foot _ rfl _ _ _ _ _ h
/-- `Named` never returns "not fired" from its loop -/
theorem runNamed_foot (ps : List P) (args : List Bytes) (env : Env) (n t : Nat) (f : Bool)
    (rest : List Bytes) (env' : Env) (h : runNamed ps args env n t = .ret f rest env') :
    f = true ∧ Foot (slotsOfL ps) args env true rest env' := by
  cases ps with
  | nil =>
    rw [runNamed_nil] at h
    split at h
    · cases h
    · cases h; exact ⟨rfl, List.suffix_refl _, .refl _, fun h => by cases h⟩
  | cons p ps =>
    rw [runNamed_cons] at h
    cases hr : runP p args env with
    | ret f1 rest1 env1 =>
      rw [hr] at h
      simp only [] at h
      have h1 := runP_foot p args env f1 rest1 env1 hr
      have hS1 : ∀ s ∈ slotsOf p, s ∈ slotsOfL (p :: ps) := fun s hs => by simp [slotsOfL, hs]
      have hS2 : ∀ s ∈ slotsOfL ps, s ∈ slotsOfL (p :: ps) := fun s hs => by simp [slotsOfL, hs]
      by_cases he : rest1.isEmpty = true
      · rw [if_pos he] at h
        by_cases hc : ((if f1 = true then n + 1 else n) != t) = true
        · rw [if_pos hc] at h; cases h
        · rw [if_neg hc] at h; cases h
          exact ⟨rfl, h1.1, h1.2.1.mono hS1 (fun _ h => h), fun h => by cases h⟩
      · rw [if_neg he] at h
        obtain ⟨rfl, h2⟩ := runNamed_foot ps rest1 env1 _ t f rest env' h
        refine ⟨rfl, h2.1.trans h1.1, ?_, fun h => by cases h⟩
        exact (h1.2.1.mono hS1 (fun _ h => h)).trans
          (h2.2.1.mono hS2 (fun _ ha => h1.1.subset ha))
    | fail e => rw [hr] at h; cases h
    | panic => rw [hr] at h; cases h
    | outOfDomain => rw [hr] at h; cases h
    | unsupported t => rw [hr] at h; cases h
theorem runOneOf_foot (ps : List P) (args : List Bytes) (env : Env) (n : Nat) (f : Bool)
    (rest : List Bytes) (env' : Env) (h : runOneOf ps args env n = .ret f rest env') :
    rest <:+ args ∧ EnvStep (slotsOfL ps) args env env' ∧
      (f = false → n = 0 ∧ rest = args ∧ env' = env) := by
  cases ps with
  | nil =>
    rw [runOneOf_nil] at h
    split at h
    · cases h
    · cases h
      refine ⟨List.suffix_refl _, .refl _, fun hf => ⟨?_, rfl, rfl⟩⟩
      simpa using hf
  | cons p ps =>
    rw [runOneOf_cons] at h
    cases hr : runP p args env with
    | ret f1 rest1 env1 =>
      rw [hr] at h
      simp only [] at h
      have h1 := runP_foot p args env f1 rest1 env1 hr
      have hS1 : ∀ s ∈ slotsOf p, s ∈ slotsOfL (p :: ps) := fun s hs => by simp [slotsOfL, hs]
      have hS2 : ∀ s ∈ slotsOfL ps, s ∈ slotsOfL (p :: ps) := fun s hs => by simp [slotsOfL, hs]
      have h2 := runOneOf_foot ps rest1 env1 _ f rest env' h
      refine ⟨h2.1.trans h1.1, ?_, ?_⟩
      · exact (h1.2.1.mono hS1 (fun _ h => h)).trans
          (h2.2.1.mono hS2 (fun _ ha => h1.1.subset ha))
      · intro hf
        obtain ⟨hn, hrest, henv⟩ := h2.2.2 hf
        cases f1 with
        | true => simp at hn
        | false =>
          obtain ⟨e1, e2⟩ := h1.2.2 rfl
          subst e1 e2
          exact ⟨by simpa using hn, hrest, henv⟩
    | fail e => rw [hr] at h; cases h
    | panic => rw [hr] at h; cases h
    | outOfDomain => rw [hr] at h; cases h
    | unsupported t => rw [hr] at h; cases h
end

/-! ### the inner loop of `Pipeline.Run` -/

theorem tryAll_cons (p : P) (ps : List P) (i : Nat) (args : List Bytes) (env : Env) :
    tryAll (p :: ps) i args env =
      match runP p args env with
      | .ret true rest env' => .fired i rest env'
      | .ret false _ env' => tryAll ps (i + 1) args env'
      | .fail e => .stop (.error e)
      | .panic => .stop .panic
      | .outOfDomain => .stop .outOfDomain
      | .unsupported t => .stop (.unsupported t) := by
  rw [tryAll]; rfl

/-- a parser that does not fire leaves arguments and environment alone -/
theorem runP_unfired {p : P} {args : List Bytes} {env : Env} {rest : List Bytes} {env' : Env}
    (h : runP p args env = .ret false rest env') : rest = args ∧ env' = env :=
  (runP_foot p args env false rest env' h).2.2 rfl

theorem tryAll_unfired_cons {p : P} (ps : List P) (i : Nat) {args : List Bytes} {env : Env}
    (h : runP p args env = .ret false args env) :
    tryAll (p :: ps) i args env = tryAll ps (i + 1) args env := by
  rw [tryAll_cons, h]

/-- "try all parsers until one fires": the parser at index `k` fired, the earlier ones did not -/
theorem tryAll_fired (ps : List P) (i : Nat) (args : List Bytes) (env : Env) (j : Nat)
    (rest : List Bytes) (env' : Env) (h : tryAll ps i args env = .fired j rest env') :
    ∃ k p, j = i + k ∧ ps[k]? = some p ∧ runP p args env = .ret true rest env' ∧
      ∀ m, m < k → ∃ q, ps[m]? = some q ∧ runP q args env = .ret false args env := by
  induction ps generalizing i with
  | nil => rw [tryAll] at h; cases h
  | cons p ps ih =>
    rw [tryAll_cons] at h
    cases hr : runP p args env with
    | ret f1 rest1 env1 =>
      rw [hr] at h
      cases f1 with
      | true =>
        simp only [] at h
        cases h
        exact ⟨0, p, rfl, rfl, hr, fun m hm => absurd hm (Nat.not_lt_zero _)⟩
      | false =>
        simp only [] at h
        obtain ⟨e1, e2⟩ := runP_unfired hr
        subst e1 e2
        obtain ⟨k, q, hj, hq, hrun, hbefore⟩ := ih (i + 1) h
        refine ⟨k + 1, q, by omega, by simpa using hq, hrun, ?_⟩
        intro m hm
        cases m with
        | zero => exact ⟨p, rfl, hr⟩
        | succ m =>
          obtain ⟨q', hq', hr'⟩ := hbefore m (by omega)
          exact ⟨q', by simpa using hq', hr'⟩
    | fail e => rw [hr] at h; cases h
    | panic => rw [hr] at h; cases h
    | outOfDomain => rw [hr] at h; cases h
    | unsupported t => rw [hr] at h; cases h

theorem mem_slotsOfL {p : P} {ps : List P} (hp : p ∈ ps) : ∀ s ∈ slotsOf p, s ∈ slotsOfL ps := by
  induction ps with
  | nil => cases hp
  | cons q qs ih =>
    intro s hs
    rcases List.mem_cons.mp hp with rfl | hq
    · simp [slotsOfL, hs]
    · simp [slotsOfL, ih hq s hs]

theorem tryAll_fired_foot (ps : List P) (i : Nat) (args : List Bytes) (env : Env) (j : Nat)
    (rest : List Bytes) (env' : Env) (h : tryAll ps i args env = .fired j rest env') :
    rest <:+ args ∧ EnvStep (slotsOfL ps) args env env' := by
  obtain ⟨k, p, _, hp, hrun, _⟩ := tryAll_fired ps i args env j rest env' h
  have hf := runP_foot p args env true rest env' hrun
  exact ⟨hf.1, hf.2.1.mono (mem_slotsOfL (List.mem_of_getElem? hp)) (fun _ h => h)⟩

/-! ### A.1 `StringsN` refuses a negative count (D11, repaired) -/

/-- `parser.StringsN` answers `ErrInvalidArgNum` exactly when something is left to parse and the
count parsed earlier is negative or larger than what is left (`n < 0 || len(args) < n`) -/
theorem stringsN_fail_iff (slot nSlot : String) (args : List Bytes) (env : Env) (e : PErr) :
    runP (.stringsN slot nSlot) args env = .fail e ↔
      e = .invalidArgNum ∧ args ≠ [] ∧ (getInt env nSlot < 0 ∨ (args.length : Int) < getInt env nSlot) := by
  cases args with
  | nil => simp [runP]
  | cons a r =>
    simp only [runP]
    constructor
    · intro h
      split at h
      · next hc =>
        cases h
        refine ⟨rfl, by simp, ?_⟩
        simpa using hc
      · cases h
    · rintro ⟨rfl, _, hn⟩
      have hc : (getInt env nSlot < 0 || ((a :: r).length : Int) < getInt env nSlot) = true := by
        simpa using hn
      rw [if_pos hc]

/-- a negative count is refused, not a panic -/
theorem stringsN_negative_refused (slot nSlot : String) (args : List Bytes) (env : Env)
    (hne : args ≠ []) (hn : getInt env nSlot < 0) :
    runP (.stringsN slot nSlot) args env = .fail .invalidArgNum :=
  (stringsN_fail_iff slot nSlot args env .invalidArgNum).mpr ⟨rfl, hne, .inl hn⟩

theorem finish_ne_panic (args : List Bytes) (env : Env) : finish args env ≠ .panic := by
  unfold finish; split <;> simp

/-! ### A.2 `Flag`, `Named` and `OneOf` of them see the head argument only through `equalFold` -/

/-- `Flag` fires exactly on a head argument that folds onto its name -/
theorem flag_step (name slot : String) (a : Bytes) (r : List Bytes) (env : Env) :
    runP (.flag name slot) (a :: r) env =
      if equalFold a (asciiBytes name) then .ret true r (setSlot env slot (.bool true))
      else .ret false (a :: r) env := by
  rw [runP_flag]; cases h : equalFold a (asciiBytes name) <;> simp [h]

/-- `Named` enters its body exactly on a head argument that folds onto its name -/
theorem named_step (name : String) (ps : List P) (a : Bytes) (r : List Bytes) (env : Env) :
    runP (.named name ps) (a :: r) env =
      if equalFold a (asciiBytes name) then runNamed ps r env 0 ps.length
      else .ret false (a :: r) env := by
  rw [runP_named]; cases h : equalFold a (asciiBytes name) <;> simp [h]

mutual
/-- a combinator guarded by a keyword: `Flag`, `Named`, or `OneOf` of such -/
def kwGuarded : P → Bool
  | .flag _ _ => true
  | .named _ _ => true
  | .oneOf ps => kwGuardedL ps
  | _ => false
def kwGuardedL : List P → Bool
  | [] => true
  | p :: ps => kwGuarded p && kwGuardedL ps
end

theorem kwGuardedL_eraseIdx (ps : List P) (i : Nat) (h : kwGuardedL ps = true) :
    kwGuardedL (ps.eraseIdx i) = true := by
  induction ps generalizing i with
  | nil => simpa using h
  | cons p ps ih =>
    simp only [kwGuardedL, Bool.and_eq_true] at h
    cases i with
    | zero => simpa using h.2
    | succ i => simp [kwGuardedL, h.1, ih i h.2]

mutual
/-- a keyword-guarded combinator that fires consumes the head argument -/
theorem kw_fired_suffix (p : P) (hk : kwGuarded p = true) (a : Bytes) (r : List Bytes) (env : Env)
    (rest : List Bytes) (env' : Env) (h : runP p (a :: r) env = .ret true rest env') : rest <:+ r := by
  cases p with
  | flag name slot =>
    rw [flag_step] at h
    split at h
    · cases h; exact List.suffix_refl _
    · cases h
  | named name ps =>
    rw [named_step] at h
    split at h
    · exact (runNamed_foot ps r env 0 ps.length true rest env' h).2.1
    · cases h
  | oneOf ps =>
    simp only [kwGuarded] at hk
    rw [runP_oneOf] at h
    rcases kwL_fired_suffix ps hk a r env 0 true rest env' h with h1 | ⟨_, _, hf⟩
    · exact h1
    · simp at hf
  | string _ => cases hk
  | bytes _ => cases hk
  | int _ => cases hk
  | float _ => cases hk
  | enum _ _ => cases hk
  | strings _ => cases hk
  | anys _ => cases hk
  | stringsN _ _ => cases hk
  | anyMap _ => cases hk
  | floatMap _ => cases hk
  | unknown _ => cases hk
theorem kwL_fired_suffix (ps : List P) (hk : kwGuardedL ps = true) (a : Bytes) (r : List Bytes)
    (env : Env) (n : Nat) (f : Bool) (rest : List Bytes) (env' : Env)
    (h : runOneOf ps (a :: r) env n = .ret f rest env') :
    rest <:+ r ∨ (rest = a :: r ∧ env' = env ∧ f = decide (n > 0)) := by
  cases ps with
  | nil =>
    rw [runOneOf_nil] at h
    split at h
    · cases h
    · cases h; exact .inr ⟨rfl, rfl, rfl⟩
  | cons p ps =>
    simp only [kwGuardedL, Bool.and_eq_true] at hk
    rw [runOneOf_cons] at h
    cases hr : runP p (a :: r) env with
    | ret f1 rest1 env1 =>
      rw [hr] at h
      simp only [] at h
      cases f1 with
      | false =>
        obtain ⟨e1, e2⟩ := runP_unfired hr
        rw [e1, e2] at h
        simpa using kwL_fired_suffix ps hk.2 a r env n f rest env' h
      | true =>
        have h1 := kw_fired_suffix p hk.1 a r env rest1 env1 hr
        have h2 := runOneOf_foot ps rest1 env1 _ f rest env' h
        exact .inl (h2.1.trans h1)
    | fail e => rw [hr] at h; cases h
    | panic => rw [hr] at h; cases h
    | outOfDomain => rw [hr] at h; cases h
    | unsupported t => rw [hr] at h; cases h
end

/-- what changing the head argument does to a step that did not touch it -/
def headSwap (a' : Bytes) (r : List Bytes) : Step → Step
  | .ret f rest env => if rest.length = r.length + 1 then .ret f (a' :: r) env else .ret f rest env
  | s => s

theorem headSwap_of_suffix {a' : Bytes} {r rest : List Bytes} (f : Bool) (env : Env) (h : rest <:+ r) :
    headSwap a' r (.ret f rest env) = .ret f rest env := by
  have := h.length_le
  simp only [headSwap]
  rw [if_neg (by omega)]

theorem headSwap_head (a a' : Bytes) (r : List Bytes) (f : Bool) (env : Env) :
    headSwap a' r (.ret f (a :: r) env) = .ret f (a' :: r) env := by
  simp [headSwap]

mutual
/-- A keyword-guarded combinator gives the same result on a head argument and on any ASCII case
variant of it (when it does not fire it hands back the arguments it was given). -/
theorem kw_caseVariant (p : P) (hk : kwGuarded p = true) (a a' : Bytes) (hv : CaseVariant a a')
    (r : List Bytes) (env : Env) :
    runP p (a' :: r) env = headSwap a' r (runP p (a :: r) env) := by
  cases p with
  | flag name slot =>
    rw [flag_step, flag_step, ← equalFold_caseVariant_left hv]
    split
    · rw [headSwap_of_suffix _ _ (List.suffix_refl _)]
    · rw [headSwap_head]
  | named name ps =>
    rw [named_step, named_step, ← equalFold_caseVariant_left hv]
    split
    · cases hn : runNamed ps r env 0 ps.length with
      | ret f rest env' =>
        rw [headSwap_of_suffix _ _ (runNamed_foot ps r env 0 ps.length f rest env' hn).2.1]
      | _ => rfl
    · rw [headSwap_head]
  | oneOf ps =>
    simp only [kwGuarded] at hk
    rw [runP_oneOf, runP_oneOf]
    exact kwL_caseVariant ps hk a a' hv r env 0
  | string _ => cases hk
  | bytes _ => cases hk
  | int _ => cases hk
  | float _ => cases hk
  | enum _ _ => cases hk
  | strings _ => cases hk
  | anys _ => cases hk
  | stringsN _ _ => cases hk
  | anyMap _ => cases hk
  | floatMap _ => cases hk
  | unknown _ => cases hk
theorem kwL_caseVariant (ps : List P) (hk : kwGuardedL ps = true) (a a' : Bytes)
    (hv : CaseVariant a a') (r : List Bytes) (env : Env) (n : Nat) :
    runOneOf ps (a' :: r) env n = headSwap a' r (runOneOf ps (a :: r) env n) := by
  cases ps with
  | nil =>
    rw [runOneOf_nil, runOneOf_nil]
    split
    · rfl
    · rw [headSwap_head]
  | cons p ps =>
    simp only [kwGuardedL, Bool.and_eq_true] at hk
    rw [runOneOf_cons, runOneOf_cons, kw_caseVariant p hk.1 a a' hv r env]
    cases hr : runP p (a :: r) env with
    | ret f1 rest1 env1 =>
      cases f1 with
      | false =>
        obtain ⟨e1, e2⟩ := runP_unfired hr
        rw [e1, e2, headSwap_head]
        exact kwL_caseVariant ps hk.2 a a' hv r env _
      | true =>
        have h1 := kw_fired_suffix p hk.1 a r env rest1 env1 hr
        rw [headSwap_of_suffix _ _ h1]
        show runOneOf ps rest1 env1 (if true = true then n + 1 else n) =
          headSwap a' r (runOneOf ps rest1 env1 (if true = true then n + 1 else n))
        generalize (if true = true then n + 1 else n) = m
        cases h2 : runOneOf ps rest1 env1 m with
        | ret f rest env' =>
          rw [headSwap_of_suffix _ _ ((runOneOf_foot ps rest1 env1 _ f rest env' h2).1.trans h1)]
        | _ => rfl
    | _ => rfl
end

theorem tryAll_caseVariant (ps : List P) (hk : kwGuardedL ps = true) (a a' : Bytes)
    (hv : CaseVariant a a') (r : List Bytes) (env : Env) (i : Nat) :
    tryAll ps i (a' :: r) env = tryAll ps i (a :: r) env := by
  induction ps generalizing i with
  | nil => rw [tryAll, tryAll]
  | cons p ps ih =>
    simp only [kwGuardedL, Bool.and_eq_true] at hk
    rw [tryAll_cons, tryAll_cons, kw_caseVariant p hk.1 a a' hv r env]
    cases hr : runP p (a :: r) env with
    | ret f1 rest1 env1 =>
      cases f1 with
      | false =>
        obtain ⟨e1, e2⟩ := runP_unfired hr
        rw [e1, e2, headSwap_head]
        exact ih hk.2 _
      | true =>
        rw [headSwap_of_suffix _ _ (kw_fired_suffix p hk.1 a r env rest1 env1 hr)]
    | _ => rfl

/-- **Keywords are recognised regardless of letter case.** Whenever the pipeline stands before an
argument with only keyword-guarded parsers left (`Flag`, `Named`, `OneOf` of these), replacing
that argument by any ASCII case variant of itself does not change the final outcome. -/
theorem runLoop_caseVariant (fuel : Nat) (ps : List P) (hk : kwGuardedL ps = true) (a a' : Bytes)
    (hv : CaseVariant a a') (r : List Bytes) (env : Env) :
    runLoop fuel ps (a' :: r) env = runLoop fuel ps (a :: r) env := by
  cases fuel with
  | zero => rw [runLoop, runLoop]; rfl
  | succ fuel =>
    rw [runLoop, runLoop, tryAll_caseVariant ps hk a a' hv r env 0]
    by_cases hp : ps.isEmpty = true
    · simp [hp, finish]
    · simp only [List.isEmpty_cons, hp, Bool.or_self, Bool.false_eq_true, if_false]
      cases tryAll ps 0 (a :: r) env <;> rfl

/-! ### A.3 the positional prefix -/

/-- `String`, `Bytes`, `Int`, `Float`: exactly one argument, bound whatever else is in the grammar -/
def isPositional : P → Bool
  | .string _ => true
  | .bytes _ => true
  | .int _ => true
  | .float _ => true
  | _ => false

/-- the leading positional parsers of a grammar -/
def posParsers (g : Grammar) : List P := g.parsers.takeWhile isPositional
/-- everything after them -/
def optTail (g : Grammar) : List P := g.parsers.dropWhile isPositional
/-- how many arguments are positional -/
def positionalPrefix (g : Grammar) : Nat := (posParsers g).length

theorem mem_takeWhile_imp {α : Type} (p : α → Bool) : ∀ (l : List α) (a : α), a ∈ l.takeWhile p → p a = true
  | [], _, h => by simp at h
  | x :: xs, a, h => by
    rw [List.takeWhile_cons] at h
    split at h
    · rcases List.mem_cons.mp h with rfl | h'
      · assumption
      · exact mem_takeWhile_imp p xs a h'
    · simp at h

theorem parsers_split (g : Grammar) : g.parsers = posParsers g ++ optTail g :=
  (List.takeWhile_append_dropWhile).symm

/-- what one positional parser stores for an argument (or how it fails) -/
def posVal : P → Bytes → Except Outcome (String × SlotVal)
  | .string s, a => .ok (s, .bytes a)
  | .bytes s, a => .ok (s, .bytes a)
  | .int s, a => match atoi a with
    | none => .error (.error .invalidInt)
    | some i => .ok (s, .int i)
  | .float s, a => match parseFloat a with
    | .invalid => .error (.error .invalidFloat)
    | .outOfDomain => .error .outOfDomain
    | .ok f => .ok (s, .float f)
  | _, _ => .error (.unsupported "not positional")

/-- bind the positional arguments one after the other -/
def bindPos : List P → List Bytes → Env → Except Outcome Env
  | p :: ps, a :: as, env =>
    match posVal p a with
    | .ok (s, v) => bindPos ps as (setSlot env s v)
    | .error o => .error o
  | _, _, env => .ok env

theorem positional_step (p : P) (hp : isPositional p = true) (a : Bytes) (r : List Bytes) (env : Env) :
    runP p (a :: r) env =
      match posVal p a with
      | .ok (s, v) => .ret true r (setSlot env s v)
      | .error (.error e) => .fail e
      | .error .outOfDomain => .outOfDomain
      | .error _ => .unsupported "not positional" := by
  cases p with
  | string s => simp [runP, posVal]
  | bytes s => simp [runP, posVal]
  | int s => simp only [runP, posVal]; cases atoi a <;> rfl
  | float s => simp only [runP, posVal]; cases parseFloat a <;> rfl
  | _ => cases hp

theorem posVal_error_shape (p : P) (hp : isPositional p = true) (a : Bytes) (o : Outcome)
    (h : posVal p a = .error o) : (∃ e, o = .error e) ∨ o = .outOfDomain := by
  cases p with
  | string s => cases h
  | bytes s => cases h
  | int s =>
    simp only [posVal] at h
    cases ha : atoi a <;> rw [ha] at h <;> cases h
    exact .inl ⟨_, rfl⟩
  | float s =>
    simp only [posVal] at h
    cases ha : parseFloat a <;> rw [ha] at h <;> cases h
    · exact .inl ⟨_, rfl⟩
    · exact .inr rfl
  | _ => cases hp

theorem runLoop_nil_args (fuel : Nat) (ps : List P) (env : Env) : runLoop fuel ps [] env = .ok env := by
  cases fuel <;> simp [runLoop, finish]

/-- the loop over a positional prefix: the `k`-th positional parser takes the `k`-th argument -/
theorem runLoop_positional (pos tail : List P) (hpos : ∀ p ∈ pos, isPositional p = true)
    (vals rest : List Bytes) (hlen : vals.length = pos.length) (fuel : Nat) (env : Env) :
    runLoop (pos.length + fuel) (pos ++ tail) (vals ++ rest) env =
      match bindPos pos vals env with
      | .ok env' => runLoop fuel tail rest env'
      | .error o => o := by
  induction pos generalizing vals env with
  | nil =>
    cases vals with
    | nil => simp [bindPos]
    | cons _ _ => simp at hlen
  | cons p pos ih =>
    cases vals with
    | nil => simp at hlen
    | cons v vals =>
      have hp := hpos p (by simp)
      have hstep := positional_step p hp v (vals ++ rest) env
      rw [show (p :: pos).length + fuel = (pos.length + fuel) + 1 by simp; omega]
      rw [runLoop]
      simp only [List.cons_append, List.isEmpty_cons, Bool.or_self, Bool.false_eq_true, if_false,
        tryAll_cons, hstep, bindPos]
      cases hv : posVal p v with
      | ok sv =>
        obtain ⟨s, x⟩ := sv
        simp only [List.eraseIdx_zero, List.tail_cons]
        exact ih (fun q hq => hpos q (by simp [hq])) vals (by simpa using hlen) _
      | error o =>
        rcases posVal_error_shape p hp v o hv with ⟨e, rfl⟩ | rfl <;> rfl

/-- **The positional prefix.** If the grammar starts with `n` positional parsers and at least `n`
arguments are given, the first `n` arguments are bound to those `n` slots, whatever their bytes;
the options loop then runs on the remaining arguments only. -/
theorem runGrammar_positional (g : Grammar) (args : List Bytes)
    (hn : positionalPrefix g ≤ args.length) (hreq : g.required ≤ args.length) :
    runGrammar g args =
      match bindPos (posParsers g) (args.take (positionalPrefix g)) [] with
      | .ok env => runLoop (optTail g).length (optTail g) (args.drop (positionalPrefix g)) env
      | .error o => o := by
  unfold runGrammar
  rw [if_neg (by omega)]
  have hsplit := parsers_split g
  have hl : g.parsers.length = (posParsers g).length + (optTail g).length := by
    rw [hsplit]; simp [List.length_append]
  have ha : args = args.take (positionalPrefix g) ++ args.drop (positionalPrefix g) :=
    (List.take_append_drop _ _).symm
  rw [hl]
  conv => lhs; rw [hsplit, ha]
  refine runLoop_positional (posParsers g) (optTail g) ?_ _ _ ?_ _ _
  · intro p hp
    exact mem_takeWhile_imp _ _ _ hp
  · simp [positionalPrefix] at hn ⊢
    omega

/-! ### what a successful run leaves in the positional slots -/

theorem slotsOfL_append (ps qs : List P) : slotsOfL (ps ++ qs) = slotsOfL ps ++ slotsOfL qs := by
  induction ps with
  | nil => simp [slotsOfL]
  | cons p ps ih => simp [slotsOfL, ih]

theorem slotsOfL_eraseIdx (ps : List P) (i : Nat) : ∀ s ∈ slotsOfL (ps.eraseIdx i), s ∈ slotsOfL ps := by
  induction ps generalizing i with
  | nil => intro s hs; simpa using hs
  | cons p ps ih =>
    intro s hs
    cases i with
    | zero => simp only [List.eraseIdx_zero, List.tail_cons] at hs; simp [slotsOfL, hs]
    | succ i =>
      simp only [List.eraseIdx_cons_succ, slotsOfL, List.mem_append] at hs ⊢
      rcases hs with h | h
      · exact .inl h
      · exact .inr (ih i s h)

theorem finish_ok {args : List Bytes} {env env' : Env} (h : finish args env = .ok env') : env' = env := by
  unfold finish at h
  split at h
  · cases h; rfl
  · cases h

theorem tryAll_stop_ne_ok (ps : List P) (i : Nat) (args : List Bytes) (env env' : Env) :
    tryAll ps i args env ≠ .stop (.ok env') := by
  induction ps generalizing i env with
  | nil => rw [tryAll]; simp
  | cons p ps ih =>
    rw [tryAll_cons]
    cases hr : runP p args env with
    | ret f1 rest1 env1 =>
      cases f1 with
      | true => simp
      | false => exact ih _ _
    | _ => simp

theorem bindPos_error_shape (pos : List P) (hpos : ∀ p ∈ pos, isPositional p = true)
    (vals : List Bytes) (env : Env) (o : Outcome) (h : bindPos pos vals env = .error o) :
    (∃ e, o = .error e) ∨ o = .outOfDomain := by
  induction pos generalizing vals env with
  | nil => simp only [bindPos] at h; cases h
  | cons p pos ih =>
    cases vals with
    | nil => simp only [bindPos] at h; cases h
    | cons a vals =>
      simp only [bindPos] at h
      cases hv : posVal p a with
      | error o' =>
        rw [hv] at h
        cases h
        exact posVal_error_shape p (hpos p (by simp)) a o hv
      | ok sv =>
        obtain ⟨s, v⟩ := sv
        rw [hv] at h
        exact ih (fun q hq => hpos q (by simp [hq])) vals _ h

/-- the whole loop assigns only slots of its parsers -/
theorem runLoop_foot (fuel : Nat) (ps : List P) (args : List Bytes) (env env' : Env)
    (h : runLoop fuel ps args env = .ok env') : EnvStep (slotsOfL ps) args env env' := by
  induction fuel generalizing ps args env with
  | zero => rw [runLoop] at h; rw [finish_ok h]; exact .refl _
  | succ fuel ih =>
    rw [runLoop] at h
    split at h
    · rw [finish_ok h]; exact .refl _
    · cases ht : tryAll ps 0 args env with
      | fired j rest env1 =>
        rw [ht] at h
        simp only [] at h
        obtain ⟨hsuf, hstep⟩ := tryAll_fired_foot ps 0 args env j rest env1 ht
        exact hstep.trans ((ih _ rest env1 h).mono (slotsOfL_eraseIdx ps j) (fun _ ha => hsuf.subset ha))
      | noneFired => rw [ht] at h; simp only [] at h; rw [finish_ok h]; exact .refl _
      | stop o => rw [ht] at h; simp only [] at h; subst h; exact absurd ht (tryAll_stop_ne_ok _ _ _ _ _)

theorem posVal_slot {p : P} {a : Bytes} {s : String} {v : SlotVal} (h : posVal p a = .ok (s, v)) :
    slotsOf p = [s] := by
  cases p with
  | string s' => simp only [posVal] at h; cases h; rfl
  | bytes s' => simp only [posVal] at h; cases h; rfl
  | int s' =>
    simp only [posVal] at h
    cases ha : atoi a <;> rw [ha] at h <;> cases h
    rfl
  | float s' =>
    simp only [posVal] at h
    cases ha : parseFloat a <;> rw [ha] at h <;> cases h
    rfl
  | _ => cases h

theorem bindPos_frame (pos : List P) (vals : List Bytes) (env env' : Env)
    (h : bindPos pos vals env = .ok env') (k : String) (hk : k ∉ slotsOfL pos) :
    getSlot env' k = getSlot env k := by
  induction pos generalizing vals env with
  | nil => simp only [bindPos] at h; cases h; rfl
  | cons p pos ih =>
    cases vals with
    | nil => simp only [bindPos] at h; cases h; rfl
    | cons a vals =>
      simp only [bindPos] at h
      cases hv : posVal p a with
      | error o => rw [hv] at h; cases h
      | ok sv =>
        obtain ⟨s, v⟩ := sv
        rw [hv] at h
        simp only [] at h
        have hs := posVal_slot hv
        simp only [slotsOfL, hs, List.mem_append, List.mem_singleton, not_or] at hk
        rw [ih vals _ h hk.2, getSlot_setSlot]
        have : ¬ s = k := fun e => hk.1 e.symm
        simp [this]

theorem bindPos_get (pos : List P) (hnd : (slotsOfL pos).Nodup) (vals : List Bytes) (env env' : Env)
    (h : bindPos pos vals env = .ok env') (k : Nat) (p : P) (a : Bytes)
    (hp : pos[k]? = some p) (ha : vals[k]? = some a) :
    ∃ s v, posVal p a = .ok (s, v) ∧ getSlot env' s = some v := by
  induction pos generalizing vals env k with
  | nil => simp at hp
  | cons q pos ih =>
    cases vals with
    | nil => simp at ha
    | cons b vals =>
      simp only [bindPos] at h
      cases hv : posVal q b with
      | error o => rw [hv] at h; cases h
      | ok sv =>
        obtain ⟨s, v⟩ := sv
        rw [hv] at h
        simp only [] at h
        have hs := posVal_slot hv
        simp only [slotsOfL, hs, List.singleton_append, List.nodup_cons] at hnd
        cases k with
        | zero =>
          simp only [List.getElem?_cons_zero, Option.some.injEq] at hp ha
          subst hp ha
          refine ⟨s, v, hv, ?_⟩
          rw [bindPos_frame pos vals _ _ h s hnd.1, getSlot_setSlot]
          simp
        | succ k =>
          simp only [List.getElem?_cons_succ] at hp ha
          exact ih hnd.2 vals _ h k hp ha

/-- **A value that happens to spell a keyword is still treated as a value** (positional values).
In a successful run of a grammar with pairwise distinct slot names, the `k`-th positional slot
holds what the positional parser made of the `k`-th argument — for `String` and `Bytes` parsers
the argument itself, byte for byte — whatever keywords the rest of the grammar knows. -/
theorem positional_bound (g : Grammar) (args : List Bytes) (env : Env)
    (hnd : (slotsOfL g.parsers).Nodup) (hn : positionalPrefix g ≤ args.length)
    (hok : runGrammar g args = .ok env) (k : Nat) (p : P) (a : Bytes)
    (hp : (posParsers g)[k]? = some p) (ha : args[k]? = some a) :
    ∃ s v, posVal p a = .ok (s, v) ∧ getSlot env s = some v := by
  have hreq : g.required ≤ args.length := by
    unfold runGrammar at hok
    split at hok
    · cases hok
    · omega
  rw [runGrammar_positional g args hn hreq] at hok
  rw [parsers_split g, slotsOfL_append] at hnd
  cases hb : bindPos (posParsers g) (args.take (positionalPrefix g)) [] with
  | error o =>
    rw [hb] at hok
    simp only [] at hok
    subst hok
    rcases bindPos_error_shape _ (fun q hq => mem_takeWhile_imp _ _ _ hq) _ _ _ hb with ⟨e, he⟩ | he <;>
      cases he
  | ok env0 =>
    rw [hb] at hok
    simp only [] at hok
    have hk : k < positionalPrefix g := by
      have := (List.getElem?_eq_some_iff.mp hp).1
      simpa [positionalPrefix] using this
    have ha' : (args.take (positionalPrefix g))[k]? = some a := by
      rw [List.getElem?_take]; simp [hk, ha]
    obtain ⟨s, v, hv, hg⟩ := bindPos_get (posParsers g) (List.nodup_append.mp hnd).1 _ _ _ hb k p a hp ha'
    refine ⟨s, v, hv, ?_⟩
    have hmem : s ∈ slotsOfL (posParsers g) :=
      mem_slotsOfL (List.mem_of_getElem? hp) s (by rw [posVal_slot hv]; simp)
    have hnot : s ∉ slotsOfL (optTail g) := fun h2 => (List.nodup_append.mp hnd).2.2 s hmem s h2 rfl
    rw [(runLoop_foot _ _ _ _ _ hok).frame s hnot, hg]

/-! ### keywords after the positional prefix -/

/-- For a grammar whose parsers after the positional prefix are all keyword-guarded: the argument
right after the positional values may be given in any ASCII case. (Later keyword positions are
states of the same loop: `runLoop_caseVariant`.) -/
theorem runGrammar_caseVariant (g : Grammar) (hk : kwGuardedL (optTail g) = true)
    (vals : List Bytes) (hv : vals.length = positionalPrefix g) (a a' : Bytes) (hc : CaseVariant a a')
    (r : List Bytes) :
    runGrammar g (vals ++ a' :: r) = runGrammar g (vals ++ a :: r) := by
  by_cases hreq : g.required ≤ (vals ++ a :: r).length
  · have hreq' : g.required ≤ (vals ++ a' :: r).length := by simpa using hreq
    rw [runGrammar_positional g _ (by simp [hv]) hreq, runGrammar_positional g _ (by simp [hv]) hreq']
    simp only [← hv, List.take_left', List.drop_left']
    cases bindPos (posParsers g) vals [] with
    | error o => rfl
    | ok env => exact runLoop_caseVariant _ _ hk a a' hc r env
  · have hreq' : ¬ g.required ≤ (vals ++ a' :: r).length := by simpa using hreq
    unfold runGrammar
    rw [if_pos (by omega), if_pos (by omega)]

/-- **A value that spells a keyword is still a value** (values of `Named` options): once the name
matched, a `String` body takes the next argument whatever it is. -/
theorem named_string_value (name slot : String) (kw v : Bytes) (r : List Bytes) (env : Env)
    (hkw : equalFold kw (asciiBytes name) = true) :
    runP (.named name [.string slot]) (kw :: v :: r) env = .ret true r (setSlot env slot (.bytes v)) := by
  rw [named_step, if_pos hkw, runNamed_cons]
  simp only [runP]
  cases r with
  | nil => simp
  | cons x xs => simp [runNamed_nil]

end Redka.WireProofs
