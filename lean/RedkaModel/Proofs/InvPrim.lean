/-
  C11 — lemma library: how each statement-level primitive of the model transforms the clauses of
  the invariant (`WFd δ`), with `δ` the excess of the cached length over the child-row count.
-/
import RedkaModel.Proofs.InvEquiv

namespace Redka.InvP

open Redka

variable {δ δ' : Int → Int} {db : DB}

/-! ### bookkeeping -/

theorem LenOk.shift {db db' : DB} {r r' : KeyRow} (h : LenOk δ db r)
    (hty : r'.ty = r.ty) (hlen : r'.ty ≠ TString → r'.len = r.len.map (· + d))
    (hlenS : r'.ty = TString → r'.len = r.len)
    (hm : meas db' r'.id + δ' r'.id = meas db r.id + δ r.id + (if r.ty = TString then 0 else d)) :
    LenOk δ' db' r' := by
  constructor
  · intro hs
    have hs' : r.ty = TString := hty ▸ hs
    have := h.1 hs'
    rw [if_pos hs'] at hm
    exact ⟨(hlenS hs).trans this.1, by omega⟩
  · intro hs
    have hs' : r.ty ≠ TString := hty ▸ hs
    have := h.2 hs'
    rw [if_neg hs'] at hm
    rw [hlen hs, this, Option.map_some]
    congr 1; omega

/-- same row, other tables / other excess: only the sum matters -/
theorem LenOk.same {db db' : DB} {r : KeyRow} (h : LenOk δ db r)
    (hm : meas db' r.id + δ' r.id = meas db r.id + δ r.id) : LenOk δ' db' r := by
  refine ⟨fun hs => ?_, fun hs => ?_⟩
  · have := h.1 hs; exact ⟨this.1, by omega⟩
  · have := h.2 hs; rw [this]; congr 1; omega

theorem WFd.congr (h : WFd δ db) (hδ : ∀ r ∈ db.keys, δ' r.id = δ r.id) : WFd δ' db :=
  { h with cnt := fun r hr => (h.cnt r hr).same (by rw [hδ r hr]) }

theorem Owner.mono {db db' : DB} {kid ty : Int} (ho : Owner db kid ty)
    (hk : ∀ r ∈ db.keys, ∃ r' ∈ db'.keys, r'.id = r.id ∧ r'.ty = r.ty) : Owner db' kid ty := by
  obtain ⟨r, hr, hid, hty⟩ := ho
  obtain ⟨r', hr', hid', hty'⟩ := hk r hr
  exact ⟨r', hr', hid'.trans hid, hty'.trans hty⟩

/-- no child row carries an id that no key row has -/
theorem WFd.meas_fresh (h : WFd δ db) {id : Int} (hid : ∀ o ∈ db.keys, o.id ≠ id) :
    meas db id = 0 := by
  have no : ∀ t, ¬ Owner db id t := fun t ⟨o, ho, e, _⟩ => hid o ho e
  simp only [meas, cS, cL, cT, cH, cZ]
  rw [filter_kid_nil (·.kid) db.strs id (fun x hx e => no _ (e ▸ h.oS x hx)),
      filter_kid_nil (·.kid) db.lists id (fun x hx e => no _ (e ▸ h.oL x hx)),
      filter_kid_nil (·.kid) db.sets id (fun x hx e => no _ (e ▸ h.oT x hx)),
      filter_kid_nil (·.kid) db.hashes id (fun x hx e => no _ (e ▸ h.oH x hx)),
      filter_kid_nil (·.kid) db.zsets id (fun x hx e => no _ (e ▸ h.oZ x hx))]
  rfl

/-! ### freshness of allocated ids -/

theorem id_lt_nextKeyId (db : DB) : ∀ r ∈ db.keys, r.id < db.nextKeyId := by
  intro r hr
  have := le_maxD 0 (db.keys.map (·.id)) r.id (List.mem_map.2 ⟨r, hr, rfl⟩)
  simp only [DB.nextKeyId]; omega

theorem rowid_lt_nextSetRowid (db : DB) : ∀ r ∈ db.sets, r.rowid < db.nextSetRowid := by
  intro r hr
  have := le_maxD 0 (db.sets.map (·.rowid)) r.rowid (List.mem_map.2 ⟨r, hr, rfl⟩)
  simp only [DB.nextSetRowid]; omega

theorem rowid_lt_nextHashRowid (db : DB) : ∀ r ∈ db.hashes, r.rowid < db.nextHashRowid := by
  intro r hr
  have := le_maxD 0 (db.hashes.map (·.rowid)) r.rowid (List.mem_map.2 ⟨r, hr, rfl⟩)
  simp only [DB.nextHashRowid]; omega

theorem rowid_lt_nextZRowid (db : DB) : ∀ r ∈ db.zsets, r.rowid < db.nextZRowid := by
  intro r hr
  have := le_maxD 0 (db.zsets.map (·.rowid)) r.rowid (List.mem_map.2 ⟨r, hr, rfl⟩)
  simp only [DB.nextZRowid]; omega

/-! ### the key table -/

/-- rewrite key rows in place (ids and types kept): the caller owes the name uniqueness and the
length clause of the rewritten rows -/
theorem WFd.mapKeys (h : WFd δ db) (g : KeyRow → KeyRow)
    (hid : ∀ r ∈ db.keys, (g r).id = r.id) (hty : ∀ r ∈ db.keys, (g r).ty = r.ty)
    (hkey : (db.keys.map g).Pairwise (fun a b => a.key ≠ b.key))
    (hlen : ∀ r ∈ db.keys, LenOk δ' db (g r)) :
    WFd δ' { db with keys := db.keys.map g } := by
  have mono : ∀ {kid ty}, Owner db kid ty → Owner { db with keys := db.keys.map g } kid ty :=
    fun ho => ho.mono (fun r hr => ⟨g r, List.mem_map.2 ⟨r, hr, rfl⟩, hid r hr, hty r hr⟩)
  refine { h with ty := ?_, cnt := ?_, oS := ?_, oL := ?_, oT := ?_, oH := ?_, oZ := ?_, uId := ?_, uKey := hkey }
  · intro r' hr'
    obtain ⟨r, hr, rfl⟩ := List.mem_map.1 hr'
    rw [hty r hr]; exact h.ty r hr
  · intro r' hr'
    obtain ⟨r, hr, rfl⟩ := List.mem_map.1 hr'
    exact hlen r hr
  · exact fun x hx => mono (h.oS x hx)
  · exact fun x hx => mono (h.oL x hx)
  · exact fun x hx => mono (h.oT x hx)
  · exact fun x hx => mono (h.oH x hx)
  · exact fun x hx => mono (h.oZ x hx)
  · rw [List.pairwise_map]
    exact h.uId.imp_of_mem (fun ha hb hab => by rw [hid _ ha, hid _ hb]; exact hab)

theorem pairwise_key_map {l : List KeyRow} (h : l.Pairwise (fun a b => a.key ≠ b.key))
    (g : KeyRow → KeyRow) (hkey : ∀ r ∈ l, (g r).key = r.key) :
    (l.map g).Pairwise (fun a b => a.key ≠ b.key) := by
  rw [List.pairwise_map]
  exact h.imp_of_mem (fun ha hb hab => by rw [hkey _ ha, hkey _ hb]; exact hab)

/-- `update rkey set … where id = ?` that keeps id, name and type and moves `len` by `d` -/
theorem WFd.updKey (h : WFd δ db) (id : Int) (f : KeyRow → KeyRow) (d : Int)
    (hf : ∀ r ∈ db.keys, r.id = id →
      (f r).id = r.id ∧ (f r).key = r.key ∧ (f r).ty = r.ty ∧ (f r).len = r.len.map (· + d))
    (hs : ∀ r ∈ db.keys, r.id = id → r.ty = TString → d = 0) :
    WFd (fun i => if i = id then δ i + d else δ i) (db.updKey id f) := by
  unfold DB.updKey
  apply h.mapKeys
  · intro r hr; split
    · rename_i e; exact (hf r hr (by simpa using e)).1
    · rfl
  · intro r hr; split
    · rename_i e; exact (hf r hr (by simpa using e)).2.2.1
    · rfl
  · apply pairwise_key_map h.uKey
    intro r hr; split
    · rename_i e; exact (hf r hr (by simpa using e)).2.1
    · rfl
  · intro r hr
    split
    · rename_i e
      have e : r.id = id := by simpa using e
      obtain ⟨h1, _, h3, h4⟩ := hf r hr e
      refine (h.cnt r hr).shift (d := d) h3 (fun _ => h4) (fun hs => ?_) ?_
      · rw [h4]; have := (h.cnt r hr).1 (h3 ▸ hs); rw [this.1]; rfl
      · rw [h1]; simp only [e, if_true]
        split
        · rename_i hs'; rw [hs r hr e hs']; omega
        · omega
    · rename_i e
      have e : r.id ≠ id := by simpa using e
      exact (h.cnt r hr).same (by simp [e])


/-! ### replacing one child table: the caller owes owners, uniqueness and the count balance -/

theorem WFd.setStrs (h : WFd δ db) (l : List StrRow)
    (ho : ∀ x ∈ l, Owner db x.kid TString)
    (huS : l.Pairwise (fun a b => a.kid ≠ b.kid))
    (hc : ∀ r ∈ db.keys, ((l.filter (fun x => x.kid == r.id)).length : Int) + δ' r.id
        = (cS db r.id : Int) + δ r.id) :
    WFd δ' { db with strs := l } :=
  { h with oS := ho, uS := huS, cnt := fun r hr => (h.cnt r hr).same (by
      have := hc r hr
      simp only [meas, cS, cL, cT, cH, cZ] at this ⊢
      omega) }

theorem WFd.setLists (h : WFd δ db) (l : List ListRow)
    (ho : ∀ x ∈ l, Owner db x.kid TList)
    (huL : l.Pairwise (fun a b => (a.kid, a.pos) ≠ (b.kid, b.pos)))
    (hc : ∀ r ∈ db.keys, ((l.filter (fun x => x.kid == r.id)).length : Int) + δ' r.id
        = (cL db r.id : Int) + δ r.id) :
    WFd δ' { db with lists := l } :=
  { h with oL := ho, uL := huL, cnt := fun r hr => (h.cnt r hr).same (by
      have := hc r hr
      simp only [meas, cS, cL, cT, cH, cZ] at this ⊢
      omega) }

theorem WFd.setSets (h : WFd δ db) (l : List SetRow)
    (ho : ∀ x ∈ l, Owner db x.kid TSet)
    (huT : l.Pairwise (fun a b => (a.kid, a.elem) ≠ (b.kid, b.elem)))
    (hrT : l.Pairwise (fun a b => a.rowid ≠ b.rowid))
    (hc : ∀ r ∈ db.keys, ((l.filter (fun x => x.kid == r.id)).length : Int) + δ' r.id
        = (cT db r.id : Int) + δ r.id) :
    WFd δ' { db with sets := l } :=
  { h with oT := ho, uT := huT, rT := hrT, cnt := fun r hr => (h.cnt r hr).same (by
      have := hc r hr
      simp only [meas, cS, cL, cT, cH, cZ] at this ⊢
      omega) }

theorem WFd.setHashes (h : WFd δ db) (l : List HashRow)
    (ho : ∀ x ∈ l, Owner db x.kid THash)
    (huH : l.Pairwise (fun a b => (a.kid, a.field) ≠ (b.kid, b.field)))
    (hrH : l.Pairwise (fun a b => a.rowid ≠ b.rowid))
    (hc : ∀ r ∈ db.keys, ((l.filter (fun x => x.kid == r.id)).length : Int) + δ' r.id
        = (cH db r.id : Int) + δ r.id) :
    WFd δ' { db with hashes := l } :=
  { h with oH := ho, uH := huH, rH := hrH, cnt := fun r hr => (h.cnt r hr).same (by
      have := hc r hr
      simp only [meas, cS, cL, cT, cH, cZ] at this ⊢
      omega) }

theorem WFd.setZSets (h : WFd δ db) (l : List ZRow)
    (ho : ∀ x ∈ l, Owner db x.kid TZSet)
    (huZ : l.Pairwise (fun a b => (a.kid, a.elem) ≠ (b.kid, b.elem)))
    (hrZ : l.Pairwise (fun a b => a.rowid ≠ b.rowid))
    (hc : ∀ r ∈ db.keys, ((l.filter (fun x => x.kid == r.id)).length : Int) + δ' r.id
        = (cZ db r.id : Int) + δ r.id) :
    WFd δ' { db with zsets := l } :=
  { h with oZ := ho, uZ := huZ, rZ := hrZ, cnt := fun r hr => (h.cnt r hr).same (by
      have := hc r hr
      simp only [meas, cS, cL, cT, cH, cZ] at this ⊢
      omega) }

/-! ### generic list facts for the child tables -/

theorem length_filter_append_one {α} (p : α → Bool) (l : List α) (x : α) :
    ((l ++ [x]).filter p).length = (l.filter p).length + (if p x then 1 else 0) := by
  rw [List.filter_append, List.length_append]
  cases h : p x <;> simp [h]

theorem pairwise_append_one {α} {R : α → α → Prop} {l : List α} (h : l.Pairwise R) (x : α)
    (hx : ∀ y ∈ l, R y x) : (l ++ [x]).Pairwise R := by
  rw [List.pairwise_append]
  exact ⟨h, List.pairwise_singleton _ _, fun a ha b hb => by
    rw [List.mem_singleton] at hb; subst hb; exact hx a ha⟩

/-- kept rows + removed rows = all rows of the group -/
theorem length_filter_keep {α} (p keep : α → Bool) :
    ∀ l : List α, (l.filter p).length
      = ((l.filter keep).filter p).length + (l.filter (fun x => p x && !keep x)).length
  | [] => rfl
  | x :: xs => by
    have ih := length_filter_keep p keep xs
    cases hp : p x <;> cases hq : keep x <;> simp [hp, hq] at ih ⊢ <;> omega

theorem length_filter_map_kid {α} (kidf : α → Int) (g : α → α) (hg : ∀ x, kidf (g x) = kidf x)
    (l : List α) (i : Int) :
    ((l.map g).filter (fun x => kidf x == i)).length = (l.filter (fun x => kidf x == i)).length := by
  rw [List.filter_map, List.length_map]
  congr 1
  apply List.filter_congr
  intro x _; simp [hg x]


/-! ### inserting and deleting key rows -/

theorem WFd.appendKey (h : WFd δ db) (r : KeyRow) (hid : ∀ o ∈ db.keys, o.id ≠ r.id)
    (hkey : ∀ o ∈ db.keys, o.key ≠ r.key) (hty : 1 ≤ r.ty ∧ r.ty ≤ 5)
    (hlen : LenOk δ' db r) (hδ : ∀ o ∈ db.keys, δ' o.id = δ o.id) :
    WFd δ' { db with keys := db.keys ++ [r] } := by
  have mono : ∀ {kid ty}, Owner db kid ty → Owner { db with keys := db.keys ++ [r] } kid ty :=
    fun ho => ho.mono (fun o ho => ⟨o, List.mem_append_left _ ho, rfl, rfl⟩)
  refine { h with ty := ?_, cnt := ?_, oS := ?_, oL := ?_, oT := ?_, oH := ?_, oZ := ?_, uId := ?_, uKey := ?_ }
  · intro o ho
    rcases List.mem_append.1 ho with ho | ho
    · exact h.ty o ho
    · rw [List.mem_singleton] at ho; subst ho; exact hty
  · intro o ho
    rcases List.mem_append.1 ho with ho | ho
    · exact (h.cnt o ho).same (by rw [hδ o ho]; rfl)
    · rw [List.mem_singleton] at ho; subst ho; exact hlen
  · exact fun x hx => mono (h.oS x hx)
  · exact fun x hx => mono (h.oL x hx)
  · exact fun x hx => mono (h.oT x hx)
  · exact fun x hx => mono (h.oH x hx)
  · exact fun x hx => mono (h.oZ x hx)
  · exact pairwise_append_one h.uId r hid
  · exact pairwise_append_one h.uKey r hkey

/-- which key ids a `delete from rkey where p` removes: exactly those of the rows satisfying `p` -/
theorem contains_deleted_ids (h : WFd δ db) (p : KeyRow → Bool) {r : KeyRow} (hr : r ∈ db.keys) :
    ((db.keys.filter p).map (·.id)).contains r.id = p r := by
  cases hp : p r
  · cases hc : ((db.keys.filter p).map (·.id)).contains r.id
    · rfl
    · simp only [List.contains_eq_mem, List.mem_map, List.mem_filter, decide_eq_true_eq] at hc
      obtain ⟨o, ⟨ho, hpo⟩, e⟩ := hc
      have : o = r := eq_of_id_eq h.uId ho hr e
      subst this; rw [hp] at hpo; cases hpo
  · simp only [List.contains_eq_mem, List.mem_map, List.mem_filter, decide_eq_true_eq]
    exact ⟨r, ⟨hr, hp⟩, rfl⟩

/-- `delete from rkey where …` with `foreign_keys = on`: the children go with their keys -/
theorem WFd.deleteKeysWhere (h : WFd δ db) (hfk : db.fk = true) (p : KeyRow → Bool) :
    WFd δ (db.deleteKeysWhere p).1 := by
  simp only [DB.deleteKeysWhere, DB.cascade, hfk, if_true]
  generalize hids : (db.keys.filter p).map (·.id) = ids
  have hcon : ∀ r ∈ db.keys, ids.contains r.id = p r := fun r hr => hids ▸ contains_deleted_ids h p hr
  -- a surviving owner for every surviving child row
  have own : ∀ {kid ty}, Owner db kid ty → ids.contains kid = false →
      Owner { db with keys := db.keys.filter (fun r => !p r) } kid ty := by
    rintro kid ty ⟨o, ho, e, hty⟩ hc
    refine ⟨o, List.mem_filter.2 ⟨ho, ?_⟩, e, hty⟩
    rw [← hcon o ho, e, hc]; rfl
  have keepc : ∀ {α} (kidf : α → Int) (l : List α) (r : KeyRow), r ∈ db.keys → p r = false →
      ((l.filter (fun x => !ids.contains (kidf x))).filter (fun x => kidf x == r.id)) =
        l.filter (fun x => kidf x == r.id) := by
    intro α kidf l r hr hp
    apply filter_filter_other
    intro x _ e
    have e : kidf x = r.id := by simpa using e
    rw [e, hcon r hr, hp]; rfl
  refine
    { ty := fun r hr => h.ty r (List.mem_filter.1 hr).1
      cnt := ?_
      oS := fun x hx => own (h.oS x (List.mem_filter.1 hx).1) (by simpa using (List.mem_filter.1 hx).2)
      oL := fun x hx => own (h.oL x (List.mem_filter.1 hx).1) (by simpa using (List.mem_filter.1 hx).2)
      oT := fun x hx => own (h.oT x (List.mem_filter.1 hx).1) (by simpa using (List.mem_filter.1 hx).2)
      oH := fun x hx => own (h.oH x (List.mem_filter.1 hx).1) (by simpa using (List.mem_filter.1 hx).2)
      oZ := fun x hx => own (h.oZ x (List.mem_filter.1 hx).1) (by simpa using (List.mem_filter.1 hx).2)
      uId := h.uId.filter _, uKey := h.uKey.filter _, uS := h.uS.filter _, uL := h.uL.filter _
      uT := h.uT.filter _, uH := h.uH.filter _, uZ := h.uZ.filter _
      rT := h.rT.filter _, rH := h.rH.filter _, rZ := h.rZ.filter _ }
  intro r hr
  obtain ⟨hr, hp⟩ := List.mem_filter.1 hr
  have hp : p r = false := by simpa using hp
  refine (h.cnt r hr).same ?_
  simp only [meas, cS, cL, cT, cH, cZ]
  rw [keepc (·.kid) db.strs r hr hp, keepc (·.kid) db.lists r hr hp, keepc (·.kid) db.sets r hr hp,
    keepc (·.kid) db.hashes r hr hp, keepc (·.kid) db.zsets r hr hp]


/-! ### the type-guarded key upsert -/

theorem findKey_some {db : DB} {k : Bytes} {r : KeyRow} (h : db.findKey k = some r) :
    r ∈ db.keys ∧ r.key = k := by
  unfold DB.findKey at h
  exact ⟨List.mem_of_find?_eq_some h, by simpa using List.find?_some h⟩

theorem findKey_none {db : DB} {k : Bytes} (h : db.findKey k = none) :
    ∀ o ∈ db.keys, o.key ≠ k := by
  unfold DB.findKey at h
  intro o ho
  simpa using List.find?_eq_none.1 h o ho

theorem liveKey_some {db : DB} {k : Bytes} {now : Int} {r : KeyRow} (h : db.liveKey k now = some r) :
    r ∈ db.keys ∧ r.key = k := by
  unfold DB.liveKey at h
  have := List.find?_some h
  simp only [Bool.and_eq_true, beq_iff_eq] at this
  exact ⟨List.mem_of_find?_eq_some h, this.1⟩

theorem liveKeyT_some {db : DB} {k : Bytes} {ty now : Int} {r : KeyRow}
    (h : db.liveKeyT k ty now = some r) : r ∈ db.keys ∧ r.key = k ∧ r.ty = ty := by
  unfold DB.liveKeyT at h
  have := List.find?_some h
  simp only [Bool.and_eq_true, beq_iff_eq] at this
  exact ⟨List.mem_of_find?_eq_some h, this.1.1, this.1.2⟩

theorem liveKeyT_owner {db : DB} {k : Bytes} {ty now : Int} {r : KeyRow}
    (h : db.liveKeyT k ty now = some r) : Owner db r.id ty :=
  ⟨r, (liveKeyT_some h).1, rfl, (liveKeyT_some h).2.2⟩

theorem keyUpsert_cases {db : DB} {k : Bytes} {ty : Int} {onNew : Int → KeyRow}
    {onOld : KeyRow → KeyRow} {db' : DB} {r : KeyRow}
    (h : keyUpsert db k ty onNew onOld = .ok (db', r)) :
    (db.findKey k = none ∧ r = onNew db.nextKeyId ∧ db' = { db with keys := db.keys ++ [r] }) ∨
    (∃ old, db.findKey k = some old ∧ old.ty = ty ∧ r = onOld old ∧
      db' = db.updKey old.id (fun _ => r)) := by
  unfold keyUpsert at h
  split at h
  · rename_i hf
    simp only [Except.ok.injEq, Prod.mk.injEq] at h
    exact .inl ⟨hf, h.2.symm, by rw [← h.1, h.2]⟩
  · rename_i old hf
    split at h
    · rename_i hty
      simp only [Except.ok.injEq, Prod.mk.injEq] at h
      exact .inr ⟨old, hf, by simpa using hty, h.2.symm, by rw [← h.1, h.2]⟩
    · cases h

theorem keyUpsert_error {db : DB} {k : Bytes} {ty : Int} {onNew : Int → KeyRow}
    {onOld : KeyRow → KeyRow} {e : Err} (h : keyUpsert db k ty onNew onOld = .error e) :
    e = .keyType := by
  unfold keyUpsert at h
  split at h
  · cases h
  · split at h
    · cases h
    · cases h; rfl

/-- the upsert of a collection key: a new row carries `len = dNew` and no children, an existing
row of the same type gets `len + dOld`; either way the excess at the returned id is `dNew`/`dOld`
and zero elsewhere -/
theorem WF.keyUpsert {db : DB} (h : WF db) {k : Bytes} {ty : Int} {onNew : Int → KeyRow}
    {onOld : KeyRow → KeyRow} {db' : DB} {r : KeyRow} (dNew dOld : Int) (lenNew : Option Int)
    (hty : 1 ≤ ty ∧ ty ≤ 5)
    (hln : (ty = TString → lenNew = none ∧ dNew = 1) ∧ (ty ≠ TString → lenNew = some dNew))
    (hdo : ty = TString → dOld = 0)
    (he : keyUpsert db k ty onNew onOld = .ok (db', r))
    (hnew : ∀ id, (onNew id).id = id ∧ (onNew id).key = k ∧ (onNew id).ty = ty ∧
      (onNew id).len = lenNew)
    (hold : ∀ o, (onOld o).id = o.id ∧ (onOld o).key = o.key ∧ (onOld o).ty = o.ty ∧
      (onOld o).len = o.len.map (· + dOld)) :
    ∃ d, (d = dNew ∨ d = dOld) ∧ WFd (fun i => if i = r.id then d else 0) db' ∧
      Owner db' r.id ty ∧ r ∈ db'.keys ∧ r.key = k ∧ r.ty = ty ∧
      db'.strs = db.strs ∧ db'.lists = db.lists ∧ db'.sets = db.sets ∧ db'.hashes = db.hashes ∧
      db'.zsets = db.zsets ∧ db'.fk = db.fk := by
  rcases keyUpsert_cases he with ⟨hf, hr, hdb⟩ | ⟨old, hf, hoty, hr, hdb⟩
  · obtain ⟨n1, n2, n3, n4⟩ := hnew db.nextKeyId
    rw [← hr] at n1 n2 n3 n4
    have fresh : ∀ o ∈ db.keys, o.id ≠ r.id := fun o ho => by
      have := id_lt_nextKeyId db o ho; omega
    have hmem : r ∈ db'.keys := by rw [hdb]; exact List.mem_append_right _ (List.mem_singleton.2 rfl)
    refine ⟨dNew, .inl rfl, ?_, ⟨r, hmem, rfl, n3⟩, hmem, n2, n3, by rw [hdb], by rw [hdb], by rw [hdb],
      by rw [hdb], by rw [hdb], by rw [hdb]⟩
    rw [hdb]
    refine WFd.appendKey h r fresh (fun o ho => n2 ▸ findKey_none hf o ho) (n3 ▸ hty) ?_ ?_
    · refine ⟨fun hs => ?_, fun hs => ?_⟩
      · rw [n4, h.meas_fresh fresh, (hln.1 (n3 ▸ hs)).1, (hln.1 (n3 ▸ hs)).2]; simp
      · rw [n4, h.meas_fresh fresh, hln.2 (n3 ▸ hs)]; simp
    · intro o ho; simp [fresh o ho]
  · obtain ⟨hom, hok⟩ := findKey_some hf
    obtain ⟨o1, o2, o3, o4⟩ := hold old
    rw [← hr] at o1 o2 o3 o4
    have hmem : r ∈ db'.keys := by
      rw [hdb]; unfold DB.updKey
      exact List.mem_map.2 ⟨old, hom, by simp⟩
    refine ⟨dOld, .inr rfl, ?_, ⟨r, hmem, rfl, o3.trans hoty⟩, hmem, o2.trans hok, o3.trans hoty,
      by rw [hdb]; rfl, by rw [hdb]; rfl,
      by rw [hdb]; rfl, by rw [hdb]; rfl, by rw [hdb]; rfl, by rw [hdb]; rfl⟩
    rw [hdb]
    have := WFd.updKey h old.id (fun _ => r) dOld (fun x hx e => by
      have : x = old := eq_of_id_eq h.uId hx hom e
      subst this; exact ⟨o1, o2, o3, o4⟩) (fun x hx e hs => by
      have : x = old := eq_of_id_eq h.uId hx hom e
      subst this; exact hdo (hoty ▸ hs))
    refine this.congr (fun x _ => ?_)
    rw [o1]; simp


/-! ### counting under the two child-table edits (generic in the row type) -/

theorem count_append {α} (kidf : α → Int) (l : List α) (x : α) (i : Int) :
    (((l ++ [x]).filter (fun y => kidf y == i)).length : Int)
      = (l.filter (fun y => kidf y == i)).length + (if i = kidf x then 1 else 0) := by
  rw [length_filter_append_one]
  by_cases e : i = kidf x
  · simp [e]
  · have : (kidf x == i) = false := by simpa using fun e' => e e'.symm
    simp [e, this]

theorem count_remove {α} (kidf : α → Int) (q : α → Bool) (l : List α) (kid i : Int) :
    (((l.filter (fun x => !(kidf x == kid && q x))).filter (fun x => kidf x == i)).length : Int)
      + (if i = kid then ((l.filter (fun x => kidf x == kid && q x)).length : Int) else 0)
      = (l.filter (fun x => kidf x == i)).length := by
  have := length_filter_keep (fun x => kidf x == i) (fun x => !(kidf x == kid && q x)) l
  rw [this]
  by_cases e : i = kid
  · subst e
    have : l.filter (fun x => kidf x == i && !!(kidf x == i && q x))
        = l.filter (fun x => kidf x == i && q x) := by
      apply List.filter_congr; intro x _; cases kidf x == i <;> simp
    rw [this]; simp
  · have : l.filter (fun x => kidf x == i && !!(kidf x == kid && q x)) = [] := by
      rw [List.filter_eq_nil_iff]; intro x _
      by_cases e1 : kidf x = i
      · have : (kidf x == kid) = false := by simpa [e1] using e
        simp [this]
      · simp [e1]
    rw [this]; simp [e]

/-- non-string keys are untouched by `len` arithmetic guards: an owner of a collection type -/
theorem Owner.not_string {δ : Int → Int} {db : DB} (h : WFd δ db) {kid ty : Int} (ho : Owner db kid ty)
    (hty : ty ≠ TString) : ∀ r ∈ db.keys, r.id = kid → r.ty ≠ TString :=
  fun _ hr e hs => hty ((ho.ty_eq h.uId hr e).symm.trans hs)

theorem Owner.updKey {db : DB} {kid ty : Int} (ho : Owner db kid ty) (id : Int) (f : KeyRow → KeyRow)
    (hf : ∀ r, (f r).id = r.id ∧ (f r).ty = r.ty) : Owner (db.updKey id f) kid ty := by
  apply ho.mono
  intro r hr
  unfold DB.updKey
  refine ⟨_, List.mem_map.2 ⟨r, hr, rfl⟩, ?_⟩
  split
  · exact hf r
  · exact ⟨rfl, rfl⟩


/-- a uniqueness clause bounds the rows matching a full unique key by one -/
theorem length_filter_le_one {α} {R : α → α → Prop} {l : List α} (h : l.Pairwise R) (p : α → Bool)
    (hp : ∀ a b, p a = true → p b = true → ¬ R a b) : (l.filter p).length ≤ 1 := by
  have h' := h.filter p
  cases hl : l.filter p with
  | nil => simp
  | cons a t =>
    cases t with
    | nil => simp
    | cons b t =>
      exfalso
      rw [hl] at h'
      have ha : p a = true := (List.mem_filter.1 (hl ▸ List.mem_cons_self)).2
      have hb : p b = true :=
        (List.mem_filter.1 (hl ▸ List.mem_cons_of_mem _ List.mem_cons_self)).2
      exact hp a b ha hb ((List.pairwise_cons.1 h').1 b List.mem_cons_self)

end Redka.InvP
