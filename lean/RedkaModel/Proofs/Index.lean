/-
  C02 / C05 — index arithmetic.

  List-level transcriptions of what the model's `listRange`, `listTrim`, `listRowAt`, `zRangeRank`,
  `zDeleteRank` and `zRangeScore` compute on the already ordered rows, the classifiers of where a RAW
  SQLite `LIMIT` does not clamp (the raw `limit s, e - s + 1` of the list window — D01, repaired: the
  `bounds` CTE clamps; the raw `limit a, b - a + 1` of the rank queries, which both callers now guard —
  D09, repaired), and the lemmas that the property
  file `RedkaModel/Props/C02idx.lean` is built from.

  The key observation: both `sqlLimit s c l` and the Redis rule are a *prefix of the same suffix*
  `l.drop (max s 0)`; two prefixes of one list are equal iff they have the same length
  (`List.take_eq_take_iff`), so equality of model and spec is a linear-arithmetic statement for
  every list whatsoever, and the raw-form classifiers below are exact, not merely sufficient.
-/
import RedkaModel.Spec.Seq
import RedkaModel.Model.List
import RedkaModel.Model.ZSet

namespace Redka.Proofs.Index

open Redka Redka.Model

/-! ### list-level transcriptions of the model -/

/-- what `listRange` computes on the element list of an existing list whose cached len equals its
length -/
def modelRange {α} (l : List α) (a b : Int) : List α :=
  if Model.rangePrecheck a b then [] else
  match Model.rangeWindow (some (l.length : Int)) a b l with | some w => w | none => []

/-- the rows `listTrim` keeps (everything else is deleted) on an existing list whose cached len
equals its length; `Trim` has no Go-side shortcut -/
def modelTrimKeep {α} (l : List α) (a b : Int) : List α :=
  match Model.rangeWindow (some (l.length : Int)) a b l with | some w => w | none => []

/-- `listRowAt` on a plain list: Go reverses the ordering and asks for `-i-1` when `i < 0` -/
def modelIndex {α} (l : List α) (i : Int) : Option α :=
  let (rows, i) := if i < 0 then (l.reverse, -i - 1) else (l, i)
  if i < 0 then none else rows[i.toNat]?

/-- the position (from the head, in the stored order) of the row `listRowAt` selects -/
def modelIndexPos (n : Nat) (i : Int) : Option Nat :=
  if i < 0 then
    (if (-i - 1).toNat < n then some (n - 1 - (-i - 1).toNat) else none)
  else
    (if i.toNat < n then some i.toNat else none)

/-- `listSet` on a plain list: the row `listRowAt` finds is overwritten in place -/
def modelSet {α} (l : List α) (i : Int) (x : α) : Option (List α) :=
  (modelIndexPos l.length i).map (fun j => l.set j x)

/-- the selection of `zRangeRank`, early return included -/
def modelRankRange {α} (l : List α) (a b : Int) : List α :=
  if a < 0 || b < 0 then [] else if a > b then [] else sqlLimit a (b - a + 1) l

/-- the victims of `zDeleteRank`, both early returns included (`start < 0 || stop < 0`, and, since
the repair of D09, `start > stop`) -/
def modelRankDelete {α} (l : List α) (a b : Int) : List α :=
  if a < 0 || b < 0 then [] else if a > b then [] else sqlLimit a (b - a + 1) l

/-- the three `limit` shapes of `zRangeScore` -/
def modelOffsetCount {α} (l : List α) (offset count : Int) : List α :=
  if offset > 0 && count > 0 then sqlLimit offset count l
  else if count > 0 then sqlLimit 0 count l
  else if offset > 0 then sqlLimit offset (-1) l
  else l

/-! ### classifiers -/

/-- where the RAW statement `limit a, b - a + 1` (both ranks non-negative) is not the Redis rank
slice: negative count, offset inside. No caller reaches it: `zRangeRank` always returned early on
`a > b`, and `zDeleteRank` does since the repair of D09 (this was the D09 classifier). -/
def rawRankLimitDeviates (n : Nat) (a b : Int) : Bool :=
  decide (0 ≤ a ∧ 0 ≤ b ∧ b + 1 < a ∧ a < n)

/-! ### `sqlLimit` and the Redis slice as prefixes of one suffix -/

theorem sqlLimit_eq_take {α} (s c : Int) (l : List α) :
    sqlLimit s c l =
      (l.drop (max s 0).toNat).take (if c < 0 then l.length else c.toNat) := by
  have h : (max s 0).toNat = s.toNat := by omega
  unfold sqlLimit
  rw [h]
  split
  · rw [List.take_of_length_le]
    rw [List.length_drop]; omega
  · rfl

/-- the Redis slice on normalised bounds -/
def clampSlice {α} (l : List α) (s e : Int) : List α :=
  let n : Int := l.length
  let s' := max s 0
  let e' := min e (n - 1)
  if s' > e' then [] else (l.drop s'.toNat).take (e' - s' + 1).toNat

theorem lrange_eq_clampSlice {α} (l : List α) (a b : Int) :
    Spec.lrange l a b = clampSlice l (Spec.normIdx l.length a) (Spec.normIdx l.length b) := rfl

theorem clampSlice_eq_take {α} (l : List α) (s e : Int) :
    clampSlice l s e =
      (l.drop (max s 0).toNat).take
        (if max s 0 > min e ((l.length : Int) - 1) then 0
         else (min e ((l.length : Int) - 1) - max s 0 + 1).toNat) := by
  unfold clampSlice
  simp only []
  split <;> simp

/-- the heart of it: on normalised bounds the clamped LIMIT window IS the Redis slice -/
theorem sqlLimit_eq_clampSlice {α} (l : List α) (s e : Int) :
    sqlLimit (max 0 s) (max 0 (e - max 0 s + 1)) l = clampSlice l s e := by
  rw [sqlLimit_eq_take, clampSlice_eq_take]
  have h1 : (max (max 0 s) 0).toNat = (max s 0).toNat := by omega
  rw [h1, List.take_eq_take_iff, List.length_drop]
  split <;> split <;> omega

/-- what D01 was: the RAW window `limit s, e - s + 1` on normalised bounds is the Redis slice exactly when
this is off (`0 ≤ s`: a negative count, read as "no limit", with the start inside the list; `s < 0`: the
count is measured from the unclamped start, so too many rows come back). The
`bounds` CTE now clamps (`max(0, start)`, `max(0, stop - start + 1)`), so no caller reaches the raw form. -/
def rawSliceDeviates (n : Nat) (s e : Int) : Bool :=
  if 0 ≤ s then decide (s < n ∧ e + 1 < s)
  else decide (0 < n ∧ e + 1 ≠ s ∧ e + 1 < n)

theorem raw_sqlLimit_eq_clampSlice_iff {α} (l : List α) (s e : Int) :
    sqlLimit s (e - s + 1) l = clampSlice l s e ↔ rawSliceDeviates l.length s e = false := by
  rw [sqlLimit_eq_take, clampSlice_eq_take, List.take_eq_take_iff, List.length_drop]
  unfold rawSliceDeviates
  by_cases hs : 0 ≤ s
  · simp only [hs, if_true, decide_eq_false_iff_not]
    split <;> split <;> omega
  · simp only [hs, if_false, decide_eq_false_iff_not]
    split <;> split <;> omega

theorem bound_some (n x : Int) : Model.bound (some n) x = some (Spec.normIdx n x) := by
  unfold Model.bound Spec.normIdx
  split <;> rfl

/-- with a cached length the `bounds` CTE never yields NULL -/
theorem rangeWindow_some {α} (n a b : Int) (l : List α) :
    Model.rangeWindow (some n) a b l =
      some (sqlLimit (max 0 (Spec.normIdx n a))
        (max 0 (Spec.normIdx n b - max 0 (Spec.normIdx n a) + 1)) l) := by
  unfold Model.rangeWindow
  rw [bound_some, bound_some]

theorem rangeWindow_some_ne_none {α} (n a b : Int) (l : List α) :
    Model.rangeWindow (some n) a b l ≠ none := by
  rw [rangeWindow_some]; exact Option.some_ne_none _

/-- D02 (repaired): without a cached length (`len` is NULL: the key is missing) the length counts as 0 and
the window is defined -/
theorem rangeWindow_ne_none {α} (len : Option Int) (a b : Int) (l : List α) :
    Model.rangeWindow len a b l ≠ none := by
  unfold Model.rangeWindow Model.bound
  by_cases ha : a < 0 <;> by_cases hb : b < 0 <;> simp [ha, hb]

theorem rangeWindow_nil {α} (len : Option Int) (a b : Int) :
    Model.rangeWindow len a b ([] : List α) = some [] := by
  unfold Model.rangeWindow Model.bound
  by_cases ha : a < 0 <;> by_cases hb : b < 0 <;> simp [ha, hb, sqlLimit]

theorem modelTrimKeep_eq {α} (l : List α) (a b : Int) :
    modelTrimKeep l a b =
      sqlLimit (max 0 (Spec.normIdx l.length a))
        (max 0 (Spec.normIdx l.length b - max 0 (Spec.normIdx l.length a) + 1)) l := by
  unfold modelTrimKeep
  rw [rangeWindow_some]

theorem modelRange_eq {α} (l : List α) (a b : Int) :
    modelRange l a b = if Model.rangePrecheck a b then [] else modelTrimKeep l a b := rfl

theorem trim_eq {α} (l : List α) (a b : Int) : modelTrimKeep l a b = Spec.ltrim l a b := by
  rw [modelTrimKeep_eq]
  unfold Spec.ltrim
  rw [lrange_eq_clampSlice]
  exact sqlLimit_eq_clampSlice l _ _

/-- whenever the Go shortcut fires Redis selects nothing too -/
theorem lrange_of_precheck {α} (l : List α) (a b : Int) (h : Model.rangePrecheck a b = true) :
    Spec.lrange l a b = [] := by
  simp only [Model.rangePrecheck, Bool.and_eq_true, Bool.or_eq_true, decide_eq_true_eq] at h
  unfold Spec.lrange Spec.normIdx
  simp only []
  rw [if_pos]
  split <;> split <;> omega

theorem range_eq {α} (l : List α) (a b : Int) : modelRange l a b = Spec.lrange l a b := by
  rw [modelRange_eq]
  by_cases hp : Model.rangePrecheck a b = true
  · simp [hp, lrange_of_precheck l a b hp]
  · have hp' : Model.rangePrecheck a b = false := by simpa using hp
    simp only [hp', Bool.false_eq_true, if_false]
    exact trim_eq l a b

/-! ### LINDEX / LSET -/

theorem modelIndex_eq_pos {α} (l : List α) (i : Int) :
    modelIndex l i = (modelIndexPos l.length i).bind (fun j => l[j]?) := by
  unfold modelIndex modelIndexPos
  by_cases hi : i < 0
  · have h2 : ¬ (-i - 1 < 0) := by omega
    simp only [hi, if_true, h2, if_false]
    by_cases hj : (-i - 1).toNat < l.length
    · simp only [hj, if_true, Option.bind_some]
      exact List.getElem?_reverse hj
    · simp only [hj, if_false, Option.bind_none]
      rw [List.getElem?_eq_none]
      rw [List.length_reverse]; omega
  · simp only [hi, if_false]
    by_cases hj : i.toNat < l.length
    · simp [hj]
    · simp only [hj, if_false, Option.bind_none]
      rw [List.getElem?_eq_none]; omega

theorem modelIndexPos_eq (n : Nat) (i : Int) : modelIndexPos n i = Spec.lindexPos n i := by
  unfold modelIndexPos Spec.lindexPos Spec.normIdx
  simp only []
  by_cases hi : i < 0
  · simp only [hi, if_true]
    split <;> split <;> first | rfl | (exfalso; omega) | (congr 1; omega)
  · simp only [hi, if_false]
    split <;> split <;> first | rfl | (exfalso; simp only [false_or] at *; omega)

theorem lindex_eq_bind {α} (l : List α) (i : Int) :
    Spec.lindex l i = (Spec.lindexPos l.length i).bind (fun j => l[j]?) := by
  unfold Spec.lindex
  cases Spec.lindexPos l.length i <;> rfl

theorem lset_eq_map {α} (l : List α) (i : Int) (x : α) :
    Spec.lset l i x = (Spec.lindexPos l.length i).map (fun j => l.set j x) := by
  unfold Spec.lset
  cases Spec.lindexPos l.length i <;> rfl

/-- `listRowAt` is `modelIndex` on the ordered rows, by definition -/
theorem listRowAt_eq (db : DB) (kid i : Int) :
    Model.listRowAt db kid i = modelIndex (Model.listRows db kid) i := rfl

/-! ### sorted-set ranks and LIMIT offset/count -/

theorem sqlLimit_eq_rankSlice_iff {α} (l : List α) (a b : Int) (ha : 0 ≤ a) (hb : 0 ≤ b) :
    sqlLimit a (b - a + 1) l = Spec.rankSlice l a b ↔ rawRankLimitDeviates l.length a b = false := by
  have hr : Spec.rankSlice l a b =
      (l.drop (max a 0).toNat).take (if a > b then 0 else (b - a + 1).toNat) := by
    have h : (max a 0).toNat = a.toNat := by omega
    unfold Spec.rankSlice
    rw [h]
    by_cases hab : a > b
    · simp [hab]
    · have : ¬ (a < 0 ∨ b < 0 ∨ a > b) := by omega
      rw [if_neg this, if_neg hab]
  rw [sqlLimit_eq_take, hr, List.take_eq_take_iff, List.length_drop]
  unfold rawRankLimitDeviates
  simp only [decide_eq_false_iff_not]
  split <;> split <;> omega

end Redka.Proofs.Index
