/-
  Closed facts about the GENERATED grammar table (`RedkaModel/Generated/Grammar.lean`, regenerated
  from the Go source on every run), checked by kernel evaluation, and the lift of the generic
  pipeline lemmas of `WireParser.lean` to `command.Parse`.
  Everything lives in `Redka.WireProofs`. Core Lean only.
-/
import RedkaModel.Proofs.WireParser
import RedkaModel.Model.Wire.Cmd.Parse

namespace Redka.WireProofs

open Redka Redka.Wire

/-- the names of the generated grammars that satisfy `f` -/
def grammarsWhere (f : Grammar → Bool) : List String :=
  (Generated.grammars.filter (fun r => f r.2.2)).map (·.1)

/-- the parse functions whose grammar contains `parser.StringsN` -/
def numkeysParsers : List String :=
  ["zset.ParseZInter", "zset.ParseZInterStore", "zset.ParseZUnion", "zset.ParseZUnionStore"]

theorem stringsN_table : grammarsWhere (fun g => hasStringsNL g.parsers) = numkeysParsers := by
  decide +kernel

theorem enum_table : grammarsWhere (fun g => hasEnumL g.parsers) =
    ["key.ParseScan", "list.ParseLInsert", "zset.ParseZInter", "zset.ParseZInterStore",
     "zset.ParseZUnion", "zset.ParseZUnionStore"] := by
  decide +kernel

theorem unknown_table : grammarsWhere (fun g => hasUnknownL g.parsers) = [] := by
  decide +kernel

/-- slot names are pairwise distinct in every generated grammar -/
theorem slots_nodup_table :
    Generated.grammars.all (fun r => decide (slotsOfL r.2.2.parsers).Nodup) = true := by
  decide +kernel

/-- wherever a generated grammar has a slot `key`, it is one of the positional slots -/
theorem key_positional_table :
    Generated.grammars.all (fun r =>
      !(slotsOfL r.2.2.parsers).contains "key" || (slotsOfL (posParsers r.2.2)).contains "key") = true := by
  decide +kernel

def firstIsKey (g : Grammar) : Bool :=
  match g.parsers with
  | .string s :: _ => s == "key"
  | _ => false

/-- … in fact the first one, a `parser.String` -/
theorem key_first_table :
    Generated.grammars.all (fun r => !(slotsOfL r.2.2.parsers).contains "key" || firstIsKey r.2.2) = true := by
  decide +kernel

/-! ### witnesses -/

def isFail (e : PErr) : Step → Bool
  | .fail e' => e == e'
  | _ => false

/-- what a step that consumed its argument stored in a slot -/
def storedBytes (slot : String) : Step → Option Bytes
  | .ret true _ env => some (getBytes env slot)
  | _ => none

def envOf : Outcome → Option Env
  | .ok env => some env
  | _ => none

def isError (e : PErr) : Outcome → Bool
  | .error e' => e == e'
  | _ => false

/-- D11 (repaired): the arguments `-1 k1` of `ZINTER` are refused with `ErrInvalidArgNum` -/
theorem negative_numkeys_is_refused :
    isError .invalidArgNum (runGrammar Generated.grammar_ZInter [asciiBytes "-1", asciiBytes "k1"]) = true := by
  decide +kernel

/-- D13 (repaired): `parser.Enum` folds case — `BEFORE`, `Before` and `before` are all accepted and stored
as `before`; a value that is not allowed is still a syntax error -/
theorem enum_folds_case :
    storedBytes "where" (runP (.enum "where" ["before", "after"]) [asciiBytes "BEFORE"] []) = some (asciiBytes "before") ∧
    storedBytes "where" (runP (.enum "where" ["before", "after"]) [asciiBytes "Before"] []) = some (asciiBytes "before") ∧
    storedBytes "where" (runP (.enum "where" ["before", "after"]) [asciiBytes "before"] []) = some (asciiBytes "before") ∧
    isFail .syntaxError (runP (.enum "where" ["before", "after"]) [asciiBytes "BEFOR"] []) = true := by
  decide +kernel

/-! ### `command.Parse` -/

/-- helpers for closed examples -/
def bs (s : String) : Bytes := asciiBytes s
def pCmd : ParseOut → Option Cmd
  | .ok c => some c.cmd
  | _ => none
def pErr : ParseOut → Option RErr
  | .error e => some e
  | _ => none


theorem all_ascii_caseVariant {a a' : Bytes} (h : CaseVariant a a') :
    a.all (· < 128) = a'.all (· < 128) := by
  have key : ∀ b : Bytes, b.all (· < 128) = (b.map lowerAscii).all (· < 128) := by
    intro b
    induction b with
    | nil => rfl
    | cons c cs ih => simp only [List.all_cons, List.map_cons, ih, lowerAscii_lt_128]
  rw [key a, key a', h]

/-- **Command names are recognised regardless of letter case.** -/
theorem parse_name_caseVariant (a a' : Bytes) (h : CaseVariant a a') (rest : List Bytes) :
    parse (a' :: rest) = parse (a :: rest) := by
  have e : lowerName a' = lowerName a := by
    unfold lowerName
    rw [all_ascii_caseVariant h]
    split
    · exact congrArg some h.symm
    · rfl
  simp only [parse, e]

end Redka.WireProofs
