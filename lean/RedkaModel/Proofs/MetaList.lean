/-
  C19 — the list repository: every `Tx` method is an `Eff` step (the per-row triggers
  `rlist_on_delete` / `rlist_on_update` included).
-/
import RedkaModel.Proofs.MetaEff
import RedkaModel.Proofs.InvList

namespace Redka.MetaProofs

open Redka Redka.Model Redka.InvP

variable {db : DB}

theorem IsBump.comp {now : Int} {f g : KeyRow → KeyRow} (hf : IsBump now f) (hg : IsBump now g) :
    IsBump now (fun o => g (f o)) := fun o => by
  obtain ⟨f1, f2, f3, _⟩ := hf o
  obtain ⟨g1, g2, g3, g4⟩ := hg (f o)
  refine ⟨g1.trans f1, g2.trans f2, ?_, g4⟩
  show o.version < (g (f o)).version
  omega

/-- `n ≥ 1` firings of `rlist_on_delete` are one bump of the key row -/
theorem listOnDelete_fold_bump {kid now : Int} (v : Dyadic) (vs : List Dyadic) :
    ∀ d : DB, ∃ f, IsBump now f ∧
      (v :: vs).foldl (fun d _ => listOnDelete d kid now) d = d.updKey kid f := by
  induction vs with
  | nil => intro d; exact ⟨_, isBump_len now _, rfl⟩
  | cons w ws ih =>
    intro d
    obtain ⟨f, hf, e⟩ := ih (listOnDelete d kid now)
    rw [List.foldl_cons]
    rw [List.foldl_cons] at e
    refine ⟨_, (isBump_len now (fun l => l.map (· - 1))).comp hf, ?_⟩
    rw [List.foldl_cons, e]
    unfold listOnDelete
    exact updKey_updKey _ _ _ _ (fun _ => rfl)

theorem listDeleteRows_eff (kid : Int) (vs : List Dyadic) (now : Int) :
    Eff now db (listDeleteRows db kid vs now) ∧ Keep db (listDeleteRows db kid vs now) := by
  unfold listDeleteRows
  cases vs with
  | nil =>
    have : db.lists.filter (fun r => !(r.kid == kid && ([] : List Dyadic).contains r.pos)) = db.lists := by
      simp
    simp only [List.foldl_nil, this]
    exact ⟨Eff.refl _ _, Keep.refl _⟩
  | cons v vs =>
    have ht : Touch kid db { db with lists := db.lists.filter (fun r => !(r.kid == kid && (v :: vs).contains r.pos)) } := by
      refine Touch.setLists kid db _ (fun i hi => ?_)
      refine (filter_kid_filter_other (·.kid) _ db.lists i (fun x _ hx => ?_)).symm
      have : (x.kid == kid) = false := by simpa [hx] using hi
      simp [this]
    obtain ⟨f, hf, e⟩ := listOnDelete_fold_bump (kid := kid) (now := now) v vs
      { db with lists := db.lists.filter (fun r => !(r.kid == kid && (v :: vs).contains r.pos)) }
    simp only [e]
    exact eff_touch_updKey ht hf

theorem listPop_eff (k : Bytes) (front : Bool) (now : Int) :
    Eff now db (listPop db k front now).db ∧ Keep db (listPop db k front now).db := by
  unfold listPop
  split
  · exact ⟨Eff.refl _ _, Keep.refl _⟩
  · simp only
    split
    · exact ⟨Eff.refl _ _, Keep.refl _⟩
    · exact listDeleteRows_eff _ _ now

theorem listDelete_eff (k e : Bytes) (now : Int) : Eff now db (listDelete db k e now).db := by
  unfold listDelete
  split
  · exact Eff.refl _ _
  · exact (listDeleteRows_eff _ _ now).1

theorem listDeleteN_eff (k e : Bytes) (n : Int) (back : Bool) (now : Int) :
    Eff now db (listDeleteN db k e n back now).db := by
  unfold listDeleteN
  split
  · exact Eff.refl _ _
  · split
    · exact Eff.refl _ _
    · exact (listDeleteRows_eff _ _ now).1

theorem listTrim_eff (k : Bytes) (a b now : Int) : Eff now db (listTrim db k a b now).db := by
  unfold listTrim
  split
  · exact Eff.refl _ _
  · simp only
    split
    · exact Eff.refl _ _
    · split
      · exact Eff.refl _ _
      · exact (listDeleteRows_eff _ _ now).1

theorem listSet_eff (k : Bytes) (i : Int) (e : Bytes) (now : Int) :
    Eff now db (listSet db k i e now).db := by
  unfold listSet
  split
  · exact Eff.refl _ _
  · rename_i r _
    split
    · exact Eff.refl _ _
    · rename_i row _
      unfold listOnUpdate
      refine (eff_updKey_touch (isBump_succ now) (Touch.setLists r.id _ _ (fun j hj => ?_))).1
      refine (filter_kid_map_other (·.kid) _ db.lists j (fun x _ hx => ?_) (fun x _ => ?_)).symm
      · have : (x.kid == r.id) = false := by simpa [hx] using hj
        simp [this]
      · show (if x.kid == r.id && x.pos == row.pos then _ else x).kid = x.kid
        split <;> rfl

theorem listPush_eff (k e : Bytes) (front : Bool) (now : Int) :
    Eff now db (listPush db k e front now).db := by
  unfold listPush
  cases hk : listPushKey db k now with
  | error er => exact Eff.refl _ _
  | ok p =>
    obtain ⟨db1, r⟩ := p
    simp only
    generalize (if front = true then
        (match dyMin ((db1.lists.filter (fun x => x.kid == r.id)).map (·.pos)) with
          | none => (0 : Dyadic) | some m => round53 (m - 1))
      else _) = pos
    split
    · exact (eff_upsert hk (fun _ => ⟨rfl, rfl, rfl⟩) (isBump_len now _)).1
    · refine (eff_upsert_touch hk (fun _ => ⟨rfl, rfl, rfl⟩) (isBump_len now _)
        (Touch.setLists r.id db1 _ (fun i hi => ?_))).1
      exact (filter_kid_append_other (·.kid) db1.lists ({ kid := r.id, pos := pos, elem := e } : ListRow)
        (i := i) (fun (e : r.id = i) => hi e.symm)).symm

theorem listPopBackPushFront_eff (s d : Bytes) (now : Int) :
    Eff now db (listPopBackPushFront db s d now).db := by
  unfold listPopBackPushFront
  have h1 := listPop_eff (db := db) s false now
  generalize listPop db s false now = r at h1
  simp only
  split
  · exact h1.1
  · rename_i el _
    have h2 := listPush_eff (db := r.db) d el true now
    split <;> exact h1.1.trans h1.2 h2
  · exact h1.1

theorem listInsert_eff (k p e : Bytes) (after : Bool) (now : Int) :
    Eff now db (listInsert db k p e after now).db := by
  unfold listInsert
  split
  · exact Eff.refl _ _
  · rename_i r0 _
    simp only
    split
    · exact Eff.refl _ _
    · generalize (if after = true then _ else _) = newpos
      split
      · exact Eff.refl _ _
      · refine (eff_touch_updKey (Touch.setLists r0.id db _ (fun i hi => ?_)) (isBump_len now _)).1
        exact (filter_kid_append_other (·.kid) db.lists ({ kid := r0.id, pos := newpos, elem := e } : ListRow)
          (i := i) (fun (e : r0.id = i) => hi e.symm)).symm

end Redka.MetaProofs
