/-
  C11 — the key repository (`internal/rkey`) preserves the invariant.
-/
import RedkaModel.Proofs.InvPrim

namespace Redka.InvP

open Redka Redka.Model

variable {db : DB}

theorem deleteKeysWhere_keys (db : DB) (p : KeyRow → Bool) :
    (db.deleteKeysWhere p).1.keys = db.keys.filter (fun r => !p r) := by
  unfold DB.deleteKeysWhere DB.cascade
  cases db.fk <;> rfl

theorem deleteKeysWhere_fk (db : DB) (p : KeyRow → Bool) :
    (db.deleteKeysWhere p).1.fk = db.fk := by
  unfold DB.deleteKeysWhere DB.cascade
  cases db.fk <;> rfl

theorem WF.deleteKeysWhere (h : WF db) (hfk : db.fk = true) (p : KeyRow → Bool) :
    WF (db.deleteKeysWhere p).1 := WFd.deleteKeysWhere h hfk p

/-- `update rkey set version = …, etime = …, mtime = …` on one id -/
theorem WF.updKey_meta (h : WF db) (id : Int) (f : KeyRow → KeyRow)
    (hf : ∀ r, (f r).id = r.id ∧ (f r).key = r.key ∧ (f r).ty = r.ty ∧ (f r).len = r.len) :
    WF (db.updKey id f) := by
  have := WFd.updKey h id f 0 (fun r _ _ => by
    obtain ⟨a, b, c, d⟩ := hf r
    refine ⟨a, b, c, ?_⟩
    rw [d]; cases r.len <;> simp) (fun _ _ _ _ => rfl)
  exact this.congr (fun r _ => by simp)

theorem keyDelete_wf (h : WF db) (hfk : db.fk = true) (ks : List Bytes) (now : Int) :
    WF (keyDelete db ks now).db := h.deleteKeysWhere hfk _

theorem keyDeleteAll_wf (h : WF db) (hfk : db.fk = true) (inTx : Bool) :
    WF (keyDeleteAll db inTx).db := by
  unfold keyDeleteAll
  cases inTx <;> exact h.deleteKeysWhere hfk _

theorem keyDeleteExpired_wf (h : WF db) (hfk : db.fk = true) (n now : Int) :
    WF (keyDeleteExpired db n now).db := h.deleteKeysWhere hfk _

theorem keyExpireAt_wf (h : WF db) (k : Bytes) (at_ now : Int) :
    WF (keyExpireAt db k at_ now).db := by
  unfold keyExpireAt
  split
  · exact h
  · exact h.updKey_meta _ _ (fun r => ⟨rfl, rfl, rfl, rfl⟩)

theorem keyExpire_wf (h : WF db) (k : Bytes) (ttl now : Int) :
    WF (keyExpire db k ttl now).db := keyExpireAt_wf h k _ now

theorem keyPersist_wf (h : WF db) (k : Bytes) (now : Int) :
    WF (keyPersist db k now).db := by
  unfold keyPersist
  split
  · exact h
  · exact h.updKey_meta _ _ (fun r => ⟨rfl, rfl, rfl, rfl⟩)

/-- `update or replace rkey set key = ?`: the row holding the new name is deleted (with its
children), then the live row takes the name -/
theorem renameStmt_wf (h : WF db) (hfk : db.fk = true) (k nk : Bytes) (now : Int) :
    WF (renameStmt db k nk now) := by
  unfold renameStmt
  split
  · exact h
  · rename_i r hlk
    show WF (DB.updKey (db.deleteKeysWhere (fun x => x.key == nk && x.id != r.id)).1 r.id _)
    have h1 : WF (db.deleteKeysWhere (fun x => x.key == nk && x.id != r.id)).1 :=
      h.deleteKeysWhere hfk _
    have hk1 := deleteKeysWhere_keys db (fun x => x.key == nk && x.id != r.id)
    generalize (db.deleteKeysWhere (fun x => x.key == nk && x.id != r.id)).1 = db1 at h1 hk1
    unfold DB.updKey
    refine (WFd.mapKeys h1 _ ?_ ?_ ?_ ?_)
    · intro x _; split <;> rfl
    · intro x _; split <;> rfl
    · rw [List.pairwise_map]
      have hboth : db1.keys.Pairwise (fun a b => a.key ≠ b.key ∧ a.id ≠ b.id) :=
        List.pairwise_and_iff.2 ⟨h1.uKey, h1.uId⟩
      refine hboth.imp_of_mem ?_
      intro a b ha hb ⟨hkab, hiab⟩
      have surv : ∀ x ∈ db1.keys, x.id ≠ r.id → x.key ≠ nk := by
        intro x hx hne
        rw [hk1] at hx
        have := (List.mem_filter.1 hx).2
        simp only [Bool.not_eq_true', Bool.and_eq_false_iff, beq_eq_false_iff_ne, ne_eq,
          bne_eq_false_iff_eq] at this
        rcases this with this | this
        · exact this
        · exact absurd this hne
      by_cases ea : a.id = r.id <;> by_cases eb : b.id = r.id
      · exact absurd (ea.trans eb.symm) hiab
      · simp only [ea, beq_self_eq_true, if_true, beq_iff_eq, eb, if_false]
        exact fun e => surv b hb eb e.symm
      · simp only [eb, beq_self_eq_true, if_true, beq_iff_eq, ea, if_false]
        exact surv a ha ea
      · simp only [beq_iff_eq, ea, eb, if_false]; exact hkab
    · intro x hx
      split
      · exact ⟨(h1.cnt x hx).1, (h1.cnt x hx).2⟩
      · exact h1.cnt x hx

theorem keyRename_wf (h : WF db) (hfk : db.fk = true) (k nk : Bytes) (now : Int) :
    WF (keyRename db k nk now).db := by
  unfold keyRename
  repeat' split
  all_goals first | exact h | exact renameStmt_wf h hfk k nk now

theorem keyRenameNX_wf (h : WF db) (hfk : db.fk = true) (k nk : Bytes) (now : Int) :
    WF (keyRenameNX db k nk now).db := by
  unfold keyRenameNX
  repeat' split
  all_goals first | exact h | exact renameStmt_wf h hfk k nk now

end Redka.InvP
