/-
  C11 — `WF db ↔ db.invB = true`: the Prop-level invariant is exactly the Bool audit.
-/
import RedkaModel.Proofs.Inv

namespace Redka.InvP

open Redka

theorem ownerOk_iff (db : DB) (kid ty : Int) : db.ownerOk kid ty = true ↔ Owner db kid ty := by
  simp only [DB.ownerOk, Owner, List.any_eq_true, Bool.and_eq_true, beq_iff_eq]

/-- the uniqueness clauses, Bool against Prop -/
theorem uniqueOk_iff (db : DB) : db.uniqueOk = true ↔
    (db.keys.Pairwise (fun a b => a.id ≠ b.id) ∧ db.keys.Pairwise (fun a b => a.key ≠ b.key) ∧
     db.strs.Pairwise (fun a b => a.kid ≠ b.kid) ∧
     db.lists.Pairwise (fun a b => (a.kid, a.pos) ≠ (b.kid, b.pos)) ∧
     db.sets.Pairwise (fun a b => (a.kid, a.elem) ≠ (b.kid, b.elem)) ∧
     db.hashes.Pairwise (fun a b => (a.kid, a.field) ≠ (b.kid, b.field)) ∧
     db.zsets.Pairwise (fun a b => (a.kid, a.elem) ≠ (b.kid, b.elem)) ∧
     db.sets.Pairwise (fun a b => a.rowid ≠ b.rowid) ∧
     db.hashes.Pairwise (fun a b => a.rowid ≠ b.rowid) ∧
     db.zsets.Pairwise (fun a b => a.rowid ≠ b.rowid)) := by
  simp only [DB.uniqueOk, Bool.and_eq_true, nodupB_map_iff, and_assoc]

theorem ownersOk_iff (db : DB) : db.ownersOk = true ↔
    ((∀ x ∈ db.strs, Owner db x.kid TString) ∧ (∀ x ∈ db.lists, Owner db x.kid TList) ∧
     (∀ x ∈ db.sets, Owner db x.kid TSet) ∧ (∀ x ∈ db.hashes, Owner db x.kid THash) ∧
     (∀ x ∈ db.zsets, Owner db x.kid TZSet)) := by
  simp only [DB.ownersOk, Bool.and_eq_true, List.all_eq_true, ownerOk_iff, and_assoc]

/-- under the owner and id-uniqueness clauses, the per-type count of the audit is `meas` -/
theorem meas_eq (db : DB)
    (hu : db.keys.Pairwise (fun a b => a.id ≠ b.id))
    (oS : ∀ x ∈ db.strs, Owner db x.kid TString) (oL : ∀ x ∈ db.lists, Owner db x.kid TList)
    (oT : ∀ x ∈ db.sets, Owner db x.kid TSet) (oH : ∀ x ∈ db.hashes, Owner db x.kid THash)
    (oZ : ∀ x ∈ db.zsets, Owner db x.kid TZSet) {r : KeyRow} (hr : r ∈ db.keys)
    (hty : 1 ≤ r.ty ∧ r.ty ≤ 5) :
    (r.ty = TString → meas db r.id = ((db.strs.filter (fun s => s.kid == r.id)).length : Nat)) ∧
    (r.ty ≠ TString → meas db r.id = db.childCount r) := by
  have zS := fun h => count_zero_of_ty db (·.kid) db.strs TString hu oS hr h
  have zL := fun h => count_zero_of_ty db (·.kid) db.lists TList hu oL hr h
  have zT := fun h => count_zero_of_ty db (·.kid) db.sets TSet hu oT hr h
  have zH := fun h => count_zero_of_ty db (·.kid) db.hashes THash hu oH hr h
  have zZ := fun h => count_zero_of_ty db (·.kid) db.zsets TZSet hu oZ hr h
  have hcases : r.ty = 1 ∨ r.ty = 2 ∨ r.ty = 3 ∨ r.ty = 4 ∨ r.ty = 5 := by omega
  simp only [meas, cS, cL, cT, cH, cZ, DB.childCount, TString, TList, TSet, THash, TZSet] at *
  rcases hcases with h | h | h | h | h <;> rw [h] at zS zL zT zH zZ ⊢
  · simp [zL (by decide), zT (by decide), zH (by decide), zZ (by decide)]
  · simp [zS (by decide), zT (by decide), zH (by decide), zZ (by decide)]
  · simp [zS (by decide), zL (by decide), zH (by decide), zZ (by decide)]
  · simp [zS (by decide), zL (by decide), zT (by decide), zZ (by decide)]
  · simp [zS (by decide), zL (by decide), zT (by decide), zH (by decide)]

theorem wf_iff_invB (db : DB) : WF db ↔ db.invB = true := by
  simp only [DB.invB, Bool.and_eq_true, uniqueOk_iff, ownersOk_iff]
  constructor
  · intro h
    refine ⟨⟨?_, h.oS, h.oL, h.oT, h.oH, h.oZ⟩, h.uId, h.uKey, h.uS, h.uL, h.uT, h.uH, h.uZ, h.rT, h.rH, h.rZ⟩
    simp only [DB.keysOk, List.all_eq_true, Bool.and_eq_true, decide_eq_true_eq]
    intro r hr
    have hm := meas_eq db h.uId h.oS h.oL h.oT h.oH h.oZ hr (h.ty r hr)
    have hc := h.cnt r hr
    simp only [LenOk, Int.add_zero] at hc
    refine ⟨h.ty r hr, ?_⟩
    by_cases hs : r.ty = TString
    · have := hc.1 hs
      have hm1 := hm.1 hs
      simp only [hs, beq_self_eq_true, if_true, Bool.and_eq_true, this.1, Option.isNone_none,
        beq_iff_eq, true_and]
      have h1 := this.2
      omega
    · have := hc.2 hs
      have hm2 := hm.2 hs
      have hb : (r.ty == TString) = false := by simpa using hs
      simp only [hb, Bool.false_eq_true, if_false, beq_iff_eq, this]
      congr 1
  · rintro ⟨⟨hk, oS, oL, oT, oH, oZ⟩, uId, uKey, uS, uL, uT, uH, uZ, rT, rH, rZ⟩
    simp only [DB.keysOk, List.all_eq_true, Bool.and_eq_true, decide_eq_true_eq] at hk
    refine ⟨fun r hr => (hk r hr).1, ?_, oS, oL, oT, oH, oZ, uId, uKey, uS, uL, uT, uH, uZ, rT, rH, rZ⟩
    intro r hr
    have hm := meas_eq db uId oS oL oT oH oZ hr (hk r hr).1
    have h2 := (hk r hr).2
    simp only [LenOk, Int.add_zero]
    constructor
    · intro hs
      have hm1 := hm.1 hs
      simp only [hs, beq_self_eq_true, if_true, Bool.and_eq_true, Option.isNone_iff_eq_none,
        beq_iff_eq] at h2
      refine ⟨h2.1, ?_⟩
      omega
    · intro hs
      have hm2 := hm.2 hs
      have hb : (r.ty == TString) = false := by simpa using hs
      simp only [hb, Bool.false_eq_true, if_false, beq_iff_eq] at h2
      rw [h2]; congr 1; omega

theorem WF.inv {db : DB} (h : WF db) : db.Inv := (wf_iff_invB db).1 h
theorem WF.of_inv {db : DB} (h : db.Inv) : WF db := (wf_iff_invB db).2 h


