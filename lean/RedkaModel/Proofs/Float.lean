/-
  The decimal float codec of Basic.lean (`parseFloatDec`, `formatFloatDec`): the text the model
  stores for a float sum reads back as exactly that number.
-/
import RedkaModel.Proofs.Num

namespace Redka.Float

open Redka

/-! ### digits -/

theorem length_natDigits_le {d : Nat} : ∀ {N : Nat}, (natDigits N).length ≤ d → N < 10 ^ d := by
  induction d with
  | zero =>
    intro N h
    have := natDigits_ne_nil N
    cases hN : natDigits N with
    | nil => exact absurd hN this
    | cons a t => rw [hN] at h; simp at h
  | succ d ih =>
    intro N h
    by_cases hlt : N < 10
    · calc N < 10 := hlt
        _ = 10 ^ 1 := rfl
        _ ≤ 10 ^ (d + 1) := Nat.pow_le_pow_right (by decide) (by omega)
    · have hge : 10 ≤ N := by omega
      rw [natDigits_of_ge hge, List.length_append] at h
      simp only [List.length_cons, List.length_nil] at h
      have := ih (N := N / 10) (by omega)
      rw [Nat.pow_succ]
      omega

theorem digitsVal_replicate_zero (z acc : Nat) : digitsVal (List.replicate z 48) acc = acc * 10 ^ z := by
  induction z generalizing acc with
  | zero => simp [digitsVal]
  | succ z ih =>
    rw [List.replicate_succ]
    simp only [digitsVal]
    rw [ih, Nat.pow_succ]
    have : ((48 : UInt8).toNat - 48) = 0 := by decide
    rw [this, Nat.add_zero, Nat.mul_assoc, Nat.mul_comm 10]

theorem all_digit_replicate (z : Nat) : (List.replicate z (48 : UInt8)).all isDigit = true := by
  rw [List.all_eq_true]
  intro c hc
  rw [List.eq_of_mem_replicate hc]
  decide

theorem takeWhile_digits (ds rest : Bytes) (hd : ds.all isDigit = true) :
    (ds ++ 46 :: rest).takeWhile isDigit = ds ∧ (ds ++ 46 :: rest).dropWhile isDigit = 46 :: rest := by
  induction ds with
  | nil => constructor <;> rfl
  | cons c cs ih =>
    rw [List.all_cons, Bool.and_eq_true] at hd
    obtain ⟨h1, h2⟩ := ih hd.2
    simp only [List.cons_append, List.takeWhile_cons, List.dropWhile_cons, hd.1, if_true, h1, h2]
    exact ⟨trivial, trivial⟩

theorem takeWhile_digits_end (ds : Bytes) (hd : ds.all isDigit = true) :
    ds.takeWhile isDigit = ds ∧ ds.dropWhile isDigit = [] := by
  induction ds with
  | nil => constructor <;> rfl
  | cons c cs ih =>
    rw [List.all_cons, Bool.and_eq_true] at hd
    obtain ⟨h1, h2⟩ := ih hd.2
    simp only [List.takeWhile_cons, List.dropWhile_cons, hd.1, if_true, h1, h2]
    exact ⟨trivial, trivial⟩

theorem digit_in_alphabet {c : UInt8} (h : isDigit c = true) : floatAlphabet c = true := by
  simp [floatAlphabet, h]

theorem digit_plain {c : UInt8} (h : isDigit c = true) :
    (isDigit c || c == 43 || c == 45 || c == 46) = true := by simp [h]

/-! ### odd parts -/

theorem oddPart_odd {n : Nat} (h : n % 2 = 1) : oddPart n = n := by
  rw [oddPart]
  have : n ≠ 0 := by omega
  simp [this]
  omega

theorem oddPart_mul_two_pow (n : Nat) (hn : n % 2 = 1) : ∀ j : Nat, oddPart (n * 2 ^ j) = n
  | 0 => by rw [Nat.pow_zero, Nat.mul_one]; exact oddPart_odd hn
  | j + 1 => by
    rw [oddPart]
    have hpos : n * 2 ^ (j + 1) ≠ 0 := by
      have : 0 < n := by omega
      exact Nat.ne_of_gt (Nat.mul_pos this (Nat.pow_pos (by decide)))
    have heven : n * 2 ^ (j + 1) % 2 = 0 := by
      rw [Nat.pow_succ, ← Nat.mul_assoc]; exact Nat.mul_mod_left .. |> fun _ => by omega
    have hdiv : n * 2 ^ (j + 1) / 2 = n * 2 ^ j := by
      rw [Nat.pow_succ, ← Nat.mul_assoc]; exact Nat.mul_div_cancel _ (by decide)
    simp only [hpos, dite_false, heven, if_true]
    rw [hdiv]
    exact oddPart_mul_two_pow n hn j

end Redka.Float

namespace Redka.Float

open Redka

/-- what `parseFloatDec` computes from the sign, the digits read as one natural number and the
number of fraction digits -/
def ofParts (neg : Bool) (n f : Nat) : FParse :=
  if n % pow5 f != 0 then .unknown
  else
    let m := n / pow5 f
    if m == 0 then (if neg then .unknown else .val .zero)
    else if oddPart m ≥ 2 ^ 53 then .unknown
    else .val (Dyadic.ofIntWithPrec (if neg then -(m : Int) else m) f)

def signBytes (neg : Bool) : Bytes := if neg then [45] else []

theorem all_append' (p : UInt8 → Bool) (a b : Bytes) : (a ++ b).all p = (a.all p && b.all p) :=
  List.all_append

/-- the sign dispatch of `plainDecimal` on a text that starts with a digit -/
theorem splitSign_digit {c : UInt8} (hc : isDigit c = true) (rest : Bytes) :
    splitSign (c :: rest) = (false, c :: rest) := by
  have hc45 : c ≠ 45 := by intro h; subst h; revert hc; decide
  have hc43 : c ≠ 43 := by intro h; subst h; revert hc; decide
  unfold splitSign
  split
  · rename_i r heq
    simp only [List.cons.injEq] at heq
    exact absurd heq.1 hc45
  · rename_i r heq
    simp only [List.cons.injEq] at heq
    exact absurd heq.1 hc43
  · rfl

theorem splitSign_minus (rest : Bytes) : splitSign (45 :: rest) = (true, rest) := rfl

theorem plainDecimal_frac (neg : Bool) (ip fr : Bytes) (hip : ip.all isDigit = true) (hne : ip ≠ [])
    (hfr : fr.all isDigit = true) :
    plainDecimal (signBytes neg ++ ip ++ 46 :: fr) = some (neg, ip, fr) := by
  obtain ⟨c, cs, rfl⟩ := List.exists_cons_of_ne_nil hne
  have hc : isDigit c = true := by
    rw [List.all_cons, Bool.and_eq_true] at hip; exact hip.1
  obtain ⟨h1, h2⟩ := takeWhile_digits (c :: cs) fr hip
  simp only [List.cons_append] at h1 h2
  cases neg with
  | true =>
    simp only [signBytes, if_true, List.cons_append, List.nil_append, plainDecimal, splitSign_minus]
    rw [h1, h2]
    simp [hfr]
  | false =>
    simp only [signBytes, Bool.false_eq_true, if_false, List.nil_append, plainDecimal, List.cons_append,
      splitSign_digit hc]
    rw [h1, h2]
    simp [hfr]

theorem plainDecimal_int (neg : Bool) (ip : Bytes) (hip : ip.all isDigit = true) (hne : ip ≠ []) :
    plainDecimal (signBytes neg ++ ip) = some (neg, ip, []) := by
  obtain ⟨c, cs, rfl⟩ := List.exists_cons_of_ne_nil hne
  have hc : isDigit c = true := by
    rw [List.all_cons, Bool.and_eq_true] at hip; exact hip.1
  obtain ⟨h1, h2⟩ := takeWhile_digits_end (c :: cs) hip
  cases neg with
  | true =>
    simp only [signBytes, if_true, List.cons_append, List.nil_append, plainDecimal, splitSign_minus]
    rw [h1, h2]
    simp
  | false =>
    simp only [signBytes, Bool.false_eq_true, if_false, List.nil_append, plainDecimal, splitSign_digit hc]
    rw [h1, h2]
    simp

theorem sign_alphabet (neg : Bool) : (signBytes neg).all floatAlphabet = true := by
  cases neg <;> decide

theorem sign_plain (neg : Bool) :
    (signBytes neg).all (fun c => isDigit c || c == 43 || c == 45 || c == 46) = true := by
  cases neg <;> decide

theorem all_alphabet_of_digits {ds : Bytes} (h : ds.all isDigit = true) : ds.all floatAlphabet = true := by
  rw [List.all_eq_true] at h ⊢
  intro c hc; exact digit_in_alphabet (h c hc)

theorem all_plain_of_digits {ds : Bytes} (h : ds.all isDigit = true) :
    ds.all (fun c => isDigit c || c == 43 || c == 45 || c == 46) = true := by
  rw [List.all_eq_true] at h ⊢
  intro c hc; exact digit_plain (h c hc)

/-- a signed decimal with a fraction part -/
theorem parse_frac (neg : Bool) (ip fr : Bytes) (hip : ip.all isDigit = true) (hne : ip ≠ [])
    (hfr : fr.all isDigit = true) :
    parseFloatDec (signBytes neg ++ ip ++ 46 :: fr) = ofParts neg (digitsVal (ip ++ fr) 0) fr.length := by
  have ha : (signBytes neg ++ ip ++ 46 :: fr).all floatAlphabet = true := by
    rw [all_append', all_append', sign_alphabet, all_alphabet_of_digits hip, List.all_cons,
      all_alphabet_of_digits hfr]; decide
  have hp : (signBytes neg ++ ip ++ 46 :: fr).all (fun c => isDigit c || c == 43 || c == 45 || c == 46) = true := by
    rw [all_append', all_append', sign_plain, all_plain_of_digits hip, List.all_cons,
      all_plain_of_digits hfr]; decide
  unfold parseFloatDec
  rw [ha, hp, plainDecimal_frac neg ip fr hip hne hfr]
  rfl

/-- a signed integer text -/
theorem parse_int (neg : Bool) (ip : Bytes) (hip : ip.all isDigit = true) (hne : ip ≠ []) :
    parseFloatDec (signBytes neg ++ ip) = ofParts neg (digitsVal ip 0) 0 := by
  have ha : (signBytes neg ++ ip).all floatAlphabet = true := by
    rw [all_append', sign_alphabet, all_alphabet_of_digits hip]; rfl
  have hp : (signBytes neg ++ ip).all (fun c => isDigit c || c == 43 || c == 45 || c == 46) = true := by
    rw [all_append', sign_plain, all_plain_of_digits hip]; rfl
  unfold parseFloatDec
  rw [ha, hp, plainDecimal_int neg ip hip hne]
  simp only [List.append_nil, List.length_nil]
  rfl

end Redka.Float

namespace Redka.Float

open Redka

theorem ofParts_exact (neg : Bool) (a N f : Nat) (hN : N = a * pow5 f) (ha : a % 2 = 1) (hlt : a < 2 ^ 53) :
    ofParts neg N f = .val (Dyadic.ofIntWithPrec (if neg then -(a : Int) else a) f) := by
  have hp : 0 < pow5 f := Nat.pow_pos (by decide)
  have hmod : N % pow5 f = 0 := by rw [hN]; exact Nat.mul_mod_left _ _
  have hdiv : N / pow5 f = a := by rw [hN]; exact Nat.mul_div_cancel _ hp
  have ha0 : a ≠ 0 := by omega
  unfold ofParts
  simp only [hmod, bne_self_eq_false, Bool.false_eq_true, if_false, hdiv]
  have : (a == 0) = false := by simpa using ha0
  simp only [this, Bool.false_eq_true, if_false, oddPart_odd ha]
  have : ¬ (a ≥ 2 ^ 53) := by omega
  simp only [this, if_false]

theorem natAbs_odd {n : Int} (hn : n % 2 = 1) : n.natAbs % 2 = 1 := by omega

theorem signed_natAbs (n : Int) : (if decide (n < 0) = true then -(n.natAbs : Int) else (n.natAbs : Int)) = n := by
  by_cases h : n < 0
  · simp only [h, decide_true, if_true]; omega
  · simp only [h, decide_false, Bool.false_eq_true, if_false]; omega

end Redka.Float

namespace Redka.Float

open Redka

theorem signBytes_eq (n : Int) : (if n < 0 then ([45] : Bytes) else []) = signBytes (decide (n < 0)) := by
  unfold signBytes
  by_cases h : n < 0 <;> simp [h]

/-- **The stored text of a float sum reads back as exactly that number**: whatever `formatFloatDec`
prints, `parseFloatDec` parses to the same dyadic rational (so the text a float increment stores
is a text the next float increment reads as the sum, C01/C04). -/
theorem parse_format (x : Dyadic) (txt : Bytes) (h : formatFloatDec x = some txt) :
    parseFloatDec txt = .val x := by
  cases x with
  | zero =>
    simp only [formatFloatDec, Option.some.injEq] at h
    subst h
    have := parse_int false [48] (by decide) (by decide)
    simp only [signBytes, Bool.false_eq_true, if_false, List.nil_append] at this
    rw [this]
    simp [ofParts, digitsVal, pow5]
  | ofOdd n k hn =>
    have ha := natAbs_odd hn
    simp only [formatFloatDec] at h
    rw [signBytes_eq] at h
    split at h
    · -- an integer: n * 2^j
      rename_i hk
      split at h
      · rename_i hc
        simp only [Bool.and_eq_true, decide_eq_true_eq] at hc
        simp only [Option.some.injEq] at h
        subst h
        rw [parse_int _ _ (natDigits_all_digit _) (natDigits_ne_nil _), digitsVal_natDigits]
        have hj : oddPart (n.natAbs * 2 ^ (-k).toNat) = n.natAbs := oddPart_mul_two_pow _ ha _
        have hpos : n.natAbs * 2 ^ (-k).toNat ≠ 0 := by
          have : 0 < n.natAbs := by omega
          exact Nat.ne_of_gt (Nat.mul_pos this (Nat.pow_pos (by decide)))
        unfold ofParts
        simp only [pow5, Nat.pow_zero, Nat.mod_one, bne_self_eq_false, Bool.false_eq_true, if_false,
          Nat.div_one, hj]
        have h0 : (n.natAbs * 2 ^ (-k).toNat == 0) = false := by simpa using hpos
        have hlt : ¬ (n.natAbs ≥ 2 ^ 53) := by omega
        simp only [h0, Bool.false_eq_true, if_false, hlt]
        congr 1
        rw [Dyadic.ofOdd_eq_ofIntWithPrec]
        -- ± (|n| * 2^j) = n <<< j, and the precision shifts by j
        have hs : (if decide (n < 0) = true then -((n.natAbs * 2 ^ (-k).toNat : Nat) : Int)
            else ((n.natAbs * 2 ^ (-k).toNat : Nat) : Int)) = n <<< (-k).toNat := by
          rw [Int.shiftLeft_eq]
          by_cases hneg : n < 0
          · simp only [hneg, decide_true, if_true]
            have : (n.natAbs : Int) = -n := by omega
            push_cast
            rw [this]
            simp [Int.neg_mul]
          · simp only [hneg, decide_false, Bool.false_eq_true, if_false]
            have : (n.natAbs : Int) = n := by omega
            push_cast
            rw [this]
        rw [hs]
        have hk0 : (0 : Int) = k + ((-k).toNat : Int) := by omega
        have := Dyadic.ofIntWithPrec_shiftLeft_add (x := n) (i := k) (n := (-k).toNat)
        rw [← hk0] at this
        exact this
      · cases h
    · -- a fraction: n / 2^k = (|n| * 5^k) / 10^k
      rename_i hk
      have hkpos : 0 < k := by omega
      have hkk : ((k.toNat : Nat) : Int) = k := by omega
      split at h
      · cases h
      · rename_i hlen
        have hlen : (natDigits (n.natAbs * pow5 k.toNat)).length ≤ 15 := by omega
        have hNlt := length_natDigits_le hlen
        have h5 : 1 ≤ pow5 k.toNat := Nat.pow_pos (by decide)
        have halt : n.natAbs < 2 ^ 53 := by
          have : n.natAbs ≤ n.natAbs * pow5 k.toNat := Nat.le_mul_of_pos_right _ h5
          have : (10 : Nat) ^ 15 < 2 ^ 53 := by decide
          omega
        have hres : ofParts (decide (n < 0)) (n.natAbs * pow5 k.toNat) k.toNat = .val (.ofOdd n k hn) := by
          rw [ofParts_exact _ n.natAbs _ _ rfl ha halt, signed_natAbs, hkk, Dyadic.ofOdd_eq_ofIntWithPrec]
        split at h
        · -- 0.000ddd
          rename_i hle
          simp only [Option.some.injEq] at h
          subst h
          have hshape : signBytes (decide (n < 0)) ++ [48, 46] ++
              List.replicate (k.toNat - (natDigits (n.natAbs * pow5 k.toNat)).length) 48 ++
              natDigits (n.natAbs * pow5 k.toNat)
              = signBytes (decide (n < 0)) ++ [48] ++ 46 ::
                (List.replicate (k.toNat - (natDigits (n.natAbs * pow5 k.toNat)).length) 48 ++
                  natDigits (n.natAbs * pow5 k.toNat)) := by
            simp [List.append_assoc]
          rw [hshape, parse_frac _ [48] _ (by decide) (by decide)
            (by rw [all_append', all_digit_replicate, natDigits_all_digit]; rfl)]
          rw [List.length_append, List.length_replicate, Nat.sub_add_cancel hle]
          rw [show ([48] : Bytes) ++ (List.replicate (k.toNat - (natDigits (n.natAbs * pow5 k.toNat)).length) 48 ++
              natDigits (n.natAbs * pow5 k.toNat))
            = List.replicate ((k.toNat - (natDigits (n.natAbs * pow5 k.toNat)).length) + 1) 48 ++
              natDigits (n.natAbs * pow5 k.toNat) by
              rw [List.replicate_succ]; rfl]
          rw [digitsVal_append, digitsVal_replicate_zero, Nat.zero_mul]
          rw [digitsVal_natDigits]
          exact hres
        · -- ddd.ddd
          rename_i hgt
          simp only [Option.some.injEq] at h
          subst h
          generalize hds : natDigits (n.natAbs * pow5 k.toNat) = ds at *
          have hall : ds.all isDigit = true := by rw [← hds]; exact natDigits_all_digit _
          have hcut : 0 < ds.length - k.toNat := by omega
          have hip : (ds.take (ds.length - k.toNat)).all isDigit = true := by
            rw [List.all_eq_true] at hall ⊢
            intro c hc; exact hall c (List.mem_of_mem_take hc)
          have hfr : (ds.drop (ds.length - k.toNat)).all isDigit = true := by
            rw [List.all_eq_true] at hall ⊢
            intro c hc; exact hall c (List.mem_of_mem_drop hc)
          have hne : ds.take (ds.length - k.toNat) ≠ [] := by
            intro he
            have := congrArg List.length he
            simp only [List.length_take, List.length_nil] at this
            omega
          have hshape : signBytes (decide (n < 0)) ++ ds.take (ds.length - k.toNat) ++ [46] ++
              ds.drop (ds.length - k.toNat)
              = signBytes (decide (n < 0)) ++ ds.take (ds.length - k.toNat) ++ 46 ::
                ds.drop (ds.length - k.toNat) := by simp [List.append_assoc]
          rw [hshape, parse_frac _ _ _ hip hne hfr, List.take_append_drop, List.length_drop]
          have : ds.length - (ds.length - k.toNat) = k.toNat := by omega
          rw [this, ← hds, digitsVal_natDigits]
          exact hres

end Redka.Float
