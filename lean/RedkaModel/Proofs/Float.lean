/-
  The float codec of Basic.lean (`parseFloatDec`, `formatFloatDec`): the text the model stores for
  a float sum reads back as exactly that number. `formatFloatDec` searches the decimals next to
  the value, fewest digits first, for the first one that `parseFloatDec` reads back as the value,
  so the read-back identity holds by construction; that this search IS Go's shortest formatting
  (and `ratRound53` Go's correctly rounded parsing) is validated by the correspondence, not proved.
-/
import RedkaModel.Proofs.Num

namespace Redka.Float

open Redka

/-- **Whatever `formatFloatDec` prints, `parseFloatDec` reads back as exactly that number.** -/
theorem parse_format (x : Dyadic) (txt : Bytes) (h : formatFloatDec x = some txt) :
    parseFloatDec txt = .val x := by
  unfold formatFloatDec at h
  cases x with
  | zero =>
    simp only [Option.some.injEq] at h
    subst h
    decide
  | ofOdd n k hn =>
    dsimp only at h
    split at h
    · rename_i t ht
      simp only [Option.some.injEq] at h
      subst h
      have := List.find?_some ht
      simpa using this
    · cases h

/-- the printed text is never empty -/
theorem format_nonempty (x : Dyadic) (txt : Bytes) (h : formatFloatDec x = some txt) : txt ≠ [] := by
  intro he
  have := parse_format x txt h
  rw [he] at this
  have h0 : parseFloatDec [] = .invalid := by decide
  rw [h0] at this
  cases this

private def b (s : String) : Bytes := s.toUTF8.toList

/-- non-vacuity: values that need rounding on the way in and 17 digits on the way out -/
example : (match parseFloatDec (b "0.1"), parseFloatDec (b "0.2") with
    | .val a, .val b => formatFloatDec (f64add a b)
    | _, _ => none) = some (b "0.30000000000000004") := by decide +kernel
example : (match parseFloatDec (b "1e23") with | .val a => formatFloatDec a | _ => none)
    = some (b "100000000000000000000000") := by decide +kernel
example : parseFloatDec (b "1e") = .invalid ∧ parseFloatDec (b "0x1p-2") = .unknown ∧
    parseFloatDec (b "-0") = .unknown ∧ parseFloatDec (b "1.5.2") = .invalid := by
  decide +kernel

end Redka.Float
