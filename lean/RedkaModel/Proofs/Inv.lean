/-
  C11 — the structural invariant of the six tables, at the Prop level.

  `WFd δ db` is the invariant with a per-key-id *excess* `δ` of the cached length over the number
  of child rows; `WF db = WFd 0 db` is equivalent to the Bool audit `db.invB` that the driver runs
  on real dumps (`wf_iff_invB`).  The excess makes every statement-level primitive of the model a
  single compositional step: appending a child row lowers the excess of its key by one, the
  trigger `len = len + 1` raises it by one, and so on (`WFd.…` lemmas below).
-/
import RedkaModel.Model.Inv
import RedkaModel.Model.Run

namespace Redka.InvP

open Redka

/-! ### small list facts -/

theorem nodupB_map_iff {α β} [DecidableEq β] (f : α → β) :
    ∀ l : List α, nodupB (l.map f) = true ↔ l.Pairwise (fun a b => f a ≠ f b)
  | [] => by simp [nodupB]
  | x :: xs => by
    simp only [List.map_cons, nodupB, Bool.and_eq_true, Bool.not_eq_true', List.pairwise_cons,
      nodupB_map_iff f xs]
    constructor
    · rintro ⟨h1, h2⟩
      refine ⟨fun a ha he => ?_, h2⟩
      have : (xs.map f).contains (f x) = true := by
        simp only [List.contains_eq_mem, List.mem_map, decide_eq_true_eq]
        exact ⟨a, ha, he.symm⟩
      rw [h1] at this; cases this
    · rintro ⟨h1, h2⟩
      refine ⟨?_, h2⟩
      cases hc : (xs.map f).contains (f x) with
      | false => rfl
      | true =>
        simp only [List.contains_eq_mem, List.mem_map, decide_eq_true_eq] at hc
        obtain ⟨a, ha, he⟩ := hc
        exact absurd he.symm (h1 a ha)

theorem le_maxD (d : Int) : ∀ (l : List Int), ∀ x ∈ l, x ≤ maxD d l
  | [], _, h => by cases h
  | y :: ys, x, h => by
    simp only [maxD]
    rcases List.mem_cons.1 h with rfl | h
    · split <;> omega
    · have := le_maxD d ys x h
      split <;> omega

theorem insertSortedBy_perm {α} (lt : α → α → Bool) (x : α) :
    ∀ l : List α, (insertSortedBy lt x l).Perm (x :: l)
  | [] => List.Perm.refl _
  | y :: ys => by
    simp only [insertSortedBy]
    split
    · exact List.Perm.refl _
    · exact ((insertSortedBy_perm lt x ys).cons y).trans (List.Perm.swap x y ys)

theorem sortBy_perm {α} (lt : α → α → Bool) : ∀ l : List α, (sortBy lt l).Perm l
  | [] => List.Perm.refl _
  | x :: xs => by
    show (insertSortedBy lt x (sortBy lt xs)).Perm (x :: xs)
    exact (insertSortedBy_perm lt x _).trans ((sortBy_perm lt xs).cons x)

theorem mem_sortBy {α} (lt : α → α → Bool) (l : List α) (z : α) : z ∈ sortBy lt l ↔ z ∈ l :=
  (sortBy_perm lt l).mem_iff

/-- splitting a filtered count by a second predicate -/
theorem length_filter_split {α} (p q : α → Bool) :
    ∀ l : List α, (l.filter p).length
      = (l.filter (fun x => p x && q x)).length + ((l.filter (fun x => !(p x && q x))).filter p).length
  | [] => rfl
  | x :: xs => by
    have ih := length_filter_split p q xs
    cases hp : p x <;> cases hq : q x <;> simp [hp, hq] at ih ⊢ <;> omega

/-- a filter that only removes rows of another group leaves the group alone -/
theorem filter_filter_other {α} (p q : α → Bool) (l : List α)
    (h : ∀ x ∈ l, p x = true → q x = true) : (l.filter q).filter p = l.filter p := by
  rw [List.filter_filter]
  apply List.filter_congr
  intro x hx
  cases hp : p x
  · simp
  · simp [h x hx hp]

/-! ### the invariant -/

def cS (db : DB) (id : Int) : Nat := (db.strs.filter (fun x => x.kid == id)).length
def cL (db : DB) (id : Int) : Nat := (db.lists.filter (fun x => x.kid == id)).length
def cT (db : DB) (id : Int) : Nat := (db.sets.filter (fun x => x.kid == id)).length
def cH (db : DB) (id : Int) : Nat := (db.hashes.filter (fun x => x.kid == id)).length
def cZ (db : DB) (id : Int) : Nat := (db.zsets.filter (fun x => x.kid == id)).length

/-- number of child rows (in all five child tables) that carry the key id -/
def meas (db : DB) (id : Int) : Int :=
  ((cS db id + cL db id + cT db id + cH db id + cZ db id : Nat) : Int)

/-- a key row with this id and this type exists -/
def Owner (db : DB) (kid ty : Int) : Prop := ∃ r ∈ db.keys, r.id = kid ∧ r.ty = ty

/-- `len` against the number of child rows, with excess `δ` -/
def LenOk (δ : Int → Int) (db : DB) (r : KeyRow) : Prop :=
  (r.ty = TString → r.len = none ∧ meas db r.id + δ r.id = 1) ∧
  (r.ty ≠ TString → r.len = some (meas db r.id + δ r.id))

structure WFd (δ : Int → Int) (db : DB) : Prop where
  ty : ∀ r ∈ db.keys, 1 ≤ r.ty ∧ r.ty ≤ 5
  cnt : ∀ r ∈ db.keys, LenOk δ db r
  oS : ∀ x ∈ db.strs, Owner db x.kid TString
  oL : ∀ x ∈ db.lists, Owner db x.kid TList
  oT : ∀ x ∈ db.sets, Owner db x.kid TSet
  oH : ∀ x ∈ db.hashes, Owner db x.kid THash
  oZ : ∀ x ∈ db.zsets, Owner db x.kid TZSet
  uId : db.keys.Pairwise (fun a b => a.id ≠ b.id)
  uKey : db.keys.Pairwise (fun a b => a.key ≠ b.key)
  uS : db.strs.Pairwise (fun a b => a.kid ≠ b.kid)
  uL : db.lists.Pairwise (fun a b => (a.kid, a.pos) ≠ (b.kid, b.pos))
  uT : db.sets.Pairwise (fun a b => (a.kid, a.elem) ≠ (b.kid, b.elem))
  uH : db.hashes.Pairwise (fun a b => (a.kid, a.field) ≠ (b.kid, b.field))
  uZ : db.zsets.Pairwise (fun a b => (a.kid, a.elem) ≠ (b.kid, b.elem))
  rT : db.sets.Pairwise (fun a b => a.rowid ≠ b.rowid)
  rH : db.hashes.Pairwise (fun a b => a.rowid ≠ b.rowid)
  rZ : db.zsets.Pairwise (fun a b => a.rowid ≠ b.rowid)

/-- the C11 invariant as a proposition -/
def WF (db : DB) : Prop := WFd (fun _ => 0) db

/-! ### uniqueness of ids: consequences -/

theorem eq_of_id_eq {l : List KeyRow} (h : l.Pairwise (fun a b => a.id ≠ b.id))
    {a b : KeyRow} (ha : a ∈ l) (hb : b ∈ l) (e : a.id = b.id) : a = b := by
  induction l with
  | nil => cases ha
  | cons x xs ih =>
    rw [List.pairwise_cons] at h
    rcases List.mem_cons.1 ha with rfl | ha' <;> rcases List.mem_cons.1 hb with rfl | hb'
    · rfl
    · exact absurd e (h.1 b hb')
    · exact absurd e.symm (h.1 a ha')
    · exact ih h.2 ha' hb'

theorem eq_of_key_eq {l : List KeyRow} (h : l.Pairwise (fun a b => a.key ≠ b.key))
    {a b : KeyRow} (ha : a ∈ l) (hb : b ∈ l) (e : a.key = b.key) : a = b := by
  induction l with
  | nil => cases ha
  | cons x xs ih =>
    rw [List.pairwise_cons] at h
    rcases List.mem_cons.1 ha with rfl | ha' <;> rcases List.mem_cons.1 hb with rfl | hb'
    · rfl
    · exact absurd e (h.1 b hb')
    · exact absurd e.symm (h.1 a ha')
    · exact ih h.2 ha' hb'

theorem Owner.ty_eq {db : DB} (hu : db.keys.Pairwise (fun a b => a.id ≠ b.id)) {kid ty : Int}
    (ho : Owner db kid ty) {r : KeyRow} (hr : r ∈ db.keys) (e : r.id = kid) : r.ty = ty := by
  obtain ⟨o, ho, hid, hty⟩ := ho
  have : r = o := eq_of_id_eq hu hr ho (e.trans hid.symm)
  subst this; exact hty

theorem filter_kid_nil {α} (kidf : α → Int) (l : List α) (id : Int)
    (h : ∀ x ∈ l, kidf x ≠ id) : l.filter (fun x => kidf x == id) = [] := by
  rw [List.filter_eq_nil_iff]
  intro x hx
  simp [h x hx]

/-- rows of a table whose owner type differs from the key's type do not carry its id -/
theorem count_zero_of_ty {α} (db : DB) (kidf : α → Int) (l : List α) (t : Int)
    (hu : db.keys.Pairwise (fun a b => a.id ≠ b.id))
    (ho : ∀ x ∈ l, Owner db (kidf x) t) {r : KeyRow} (hr : r ∈ db.keys) (hty : r.ty ≠ t) :
    (l.filter (fun x => kidf x == r.id)).length = 0 := by
  rw [filter_kid_nil kidf l r.id]; · rfl
  intro x hx e
  exact hty ((ho x hx).ty_eq hu hr e.symm)

end Redka.InvP
