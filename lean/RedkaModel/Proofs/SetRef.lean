/-
  `internal/rset` against the abstract keyspace: each method of the repository refines the
  specification's set operation (`Spec.setAdd`, …), outside the known deviation classes.
  The lemma library is `RedkaModel/Proofs/SetLib.lean`.
-/
import RedkaModel.Proofs.SetLib

namespace Redka.Model.SetRef

open Redka Redka.Spec Redka.DB Redka.Scan

/-! ### what is stored under a name, as the set repository sees it -/

theorem liveKeyT_eq_some_iff {db : DB} (hn : (db.keys.map (·.key)).Nodup) {k : Bytes} {ty now : Int}
    {r : KeyRow} :
    db.liveKeyT k ty now = some r ↔ db.findKey k = some r ∧ r.ty = ty ∧ r.live now = true := by
  rw [liveKeyT_eq hn]
  cases hf : db.findKey k with
  | none => simp [Option.filter]
  | some r' =>
    simp only [Option.filter]
    split
    · rename_i hc
      simp only [Bool.and_eq_true, beq_iff_eq] at hc
      constructor
      · intro h; cases h; exact ⟨rfl, hc⟩
      · rintro ⟨h, _⟩; exact h
    · rename_i hc
      simp only [Bool.and_eq_true, beq_iff_eq] at hc
      constructor
      · intro h; cases h
      · rintro ⟨h, h2⟩; cases h; exact absurd h2 hc

/-- The four things a name can be at `now`, each with what the set repository's lookup
(`… and type = 3 and (etime is null or etime > ?)`) and the abstraction make of it. -/
inductive SHolder (now : Int) (db : DB) (k : Bytes) : Prop
  | absent (h : db.findKey k = none) (hg : get (abs now db) k = none)
      (hl : db.liveKeyT k TSet now = none)
  | stale (r : KeyRow) (h : db.findKey k = some r) (hlv : r.live now = false)
      (hg : get (abs now db) k = none) (hl : db.liveKeyT k TSet now = none)
  | set (r : KeyRow) (h : db.findKey k = some r) (hlv : r.live now = true) (ht : r.ty = TSet)
      (hg : get (abs now db) k = some ⟨.set (setElems db r.id), r.etime⟩)
      (hl : db.liveKeyT k TSet now = some r)
  | other (r : KeyRow) (v : SVal) (h : db.findKey k = some r) (hlv : r.live now = true)
      (ht : r.ty ≠ TSet) (hg : get (abs now db) k = some ⟨v, r.etime⟩) (hv : ∀ m, v ≠ .set m)
      (hl : db.liveKeyT k TSet now = none)

theorem sholder {db : DB} (hw : db.WF) (now : Int) (k : Bytes) : SHolder now db k := by
  have hga := get_abs hw.names now k
  have hla := liveKeyT_eq hw.names k TSet now
  cases hf : db.findKey k with
  | none =>
    rw [hf] at hga hla
    exact .absent hf hga hla
  | some r =>
    rw [hf] at hga hla
    obtain ⟨hm, _⟩ := findKey_mem hf
    cases hl : r.live now with
    | false =>
      refine .stale r hf hl ?_ ?_
      · rw [hga]; simp [rowEntry, hl]
      · rw [hla]; simp [Option.filter, hl]
    | true =>
      by_cases ht : r.ty = TSet
      · refine .set r hf hl ht ?_ ?_
        · rw [hga]; simp [rowEntry, hl, absVal_set ht]
        · rw [hla]; simp [Option.filter, hl, ht]
      · have hex : ∃ v, absVal db r = some v := by
          by_cases hs : r.ty = TString
          · obtain ⟨s, hs1, hs2⟩ := hw.strRow r hm hs
            rw [absVal_str hs]
            cases hfs : db.strs.find? (fun s => s.kid == r.id) with
            | none =>
              rw [List.find?_eq_none] at hfs
              exact absurd (by simp [hs2]) (hfs s hs1)
            | some s' => exact ⟨_, rfl⟩
          · obtain ⟨v, hv, _⟩ := absVal_nonstr (db := db) hs (hw.tyOk r hm)
            exact ⟨v, hv⟩
        obtain ⟨v, hv⟩ := hex
        refine .other r v hf hl ht ?_ ?_ ?_
        · rw [hga]; simp [rowEntry, hl, hv]
        · intro m hm'
          rw [hm'] at hv
          exact ht (absVal_ne_set hv)
        · rw [hla]; simp [Option.filter, ht]

/-- the members the set repository reads under a name: none unless a live set key holds it -/
def mset (db : DB) (k : Bytes) (now : Int) : List Bytes :=
  match db.liveKeyT k TSet now with
  | none => []
  | some r => setElems db r.id

/-- "keys that are missing or hold another type" read as the empty set, on both sides -/
theorem setAt_abs {db : DB} (hw : db.WF) (now : Int) (k : Bytes) :
    setAt (abs now db) k = mset db k now := by
  rcases sholder hw now k with ⟨_, hg, hl⟩ | ⟨_, _, _, hg, hl⟩ | ⟨_, _, _, _, hg, hl⟩ |
    ⟨_, v, _, _, _, hg, hv, hl⟩
  · simp [setAt, mset, hg, hl]
  · simp [setAt, mset, hg, hl]
  · simp [setAt, mset, hg, hl]
  · cases v <;> first | exact absurd rfl (hv _) | simp [setAt, mset, hg, hl]

theorem mem_mset {db : DB} {k : Bytes} {now : Int} {e : Bytes} :
    e ∈ mset db k now ↔ ∃ r, db.liveKeyT k TSet now = some r ∧ e ∈ setElems db r.id := by
  unfold mset
  cases db.liveKeyT k TSet now <;> simp

theorem ssorted_mset {db : DB} (hw : SetWF db) (k : Bytes) (now : Int) : SSorted (mset db k now) := by
  unfold mset
  cases db.liveKeyT k TSet now with
  | none => exact SSorted.nil
  | some r => exact hw.elems_sorted r.id

/-! ### one step against the specification -/

/-- the verdict on one step, in the strong form that holds for the set family: same result, and
the tables afterwards stand for exactly the specification's keyspace (no set operation assigns an
expiry, so nothing is there to purge) -/
def RefS (now : Int) (m : Res) (s : SRes) : Prop := m.out = s.out ∧ abs now m.db = s.st

theorem RefS.refines {now : Int} {m : Res} {s : SRes} (hn : (m.db.keys.map (·.key)).Nodup)
    (h : RefS now m s) : Refines now m s := by
  refine ⟨h.1, ?_⟩
  rw [← h.2, purge_abs hn]

theorem update_pres {P : DB → Prop} {f : DB → Res} {db : DB} (h0 : P db) (h : P (f db).db) :
    P (update f db).db := by
  unfold update
  simp only
  split
  · exact h
  · exact h0

/-! ### reads -/

theorem setItems_eq (db : DB) (k : Bytes) (now : Int) :
    setItems db k now = .ok (.list ((mset db k now).map .bytes)) db := by
  unfold setItems mset
  cases db.liveKeyT k TSet now <;> rfl

theorem setItems_refS {db : DB} (hw : db.WF) (now : Int) (k : Bytes) :
    RefS now (setItems db k now) (Spec.ok (Spec.bytesList (setAt (abs now db) k)) (abs now db)) := by
  rw [setItems_eq, setAt_abs hw]
  exact ⟨rfl, rfl⟩

theorem setExists_eq (db : DB) (k e : Bytes) (now : Int) :
    setExists db k e now = .ok (.bool ((mset db k now).contains e)) db := by
  unfold setExists mset
  cases db.liveKeyT k TSet now with
  | none => rfl
  | some r => simp only [any_eq_mem_setElems]

theorem setExists_refS {db : DB} (hw : db.WF) (now : Int) (k e : Bytes) :
    RefS now (setExists db k e now) (Spec.ok (.bool (smem (setAt (abs now db) k) e)) (abs now db)) := by
  rw [setExists_eq, setAt_abs hw]
  exact ⟨rfl, rfl⟩

theorem setLen_eq {db : DB} (hw : SetWF db) (k : Bytes) (now : Int) :
    setLen db k now = .ok (.int (mset db k now).length) db := by
  unfold setLen mset
  cases hl : db.liveKeyT k TSet now with
  | none => rfl
  | some r =>
    obtain ⟨hf, ht, _⟩ := (liveKeyT_eq_some_iff hw.names).1 hl
    simp only [hw.setLen r (findKey_mem hf).1 ht, length_setElems]

theorem setLen_refS {db : DB} (hw : SetWF db) (now : Int) (k : Bytes) :
    RefS now (setLen db k now) (Spec.ok (.int (setAt (abs now db) k).length) (abs now db)) := by
  rw [setLen_eq hw, setAt_abs hw.wf]
  exact ⟨rfl, rfl⟩

theorem setRandom_refS {db : DB} (hw : db.WF) (now : Int) (k : Bytes) (o : Option Bytes) :
    RefS now (setRandom db k o now) (Spec.setRandom (abs now db) k o) := by
  unfold Spec.setRandom
  rw [setAt_abs hw]
  unfold setRandom mset
  cases hl : db.liveKeyT k TSet now with
  | none =>
    cases o with
    | none => exact ⟨rfl, rfl⟩
    | some e => exact ⟨rfl, rfl⟩
  | some r =>
    have hany : ∀ e, (setRows db r.id).any (fun x => x.elem == e) = (setElems db r.id).contains e := by
      intro e
      rw [Bool.eq_iff_iff, List.any_eq_true, List.contains_iff_mem]
      simp [setElems]
    have hemp : (setRows db r.id).isEmpty = (setElems db r.id).isEmpty := by
      simp [setElems]
    cases o with
    | none =>
      simp only [hemp]
      cases (setElems db r.id).isEmpty <;> exact ⟨rfl, rfl⟩
    | some e =>
      by_cases hc : e ∈ setElems db r.id
      · exact ⟨by simp [hany, smem, hc, Res.ok, Spec.ok], by simp [hany, smem, hc, Res.ok, Spec.ok]⟩
      · exact ⟨by simp [hany, smem, hc, Res.err, Spec.skip], by simp [hany, smem, hc, Res.err, Spec.skip]⟩

/-! ### add -/

/-- What `Add` does, case by case on what is stored under the name (expired rows included: this is
also the description of the deviation D05). -/
theorem setAdd_cases {db : DB} (hw : SetWF db) (k : Bytes) (es : List Bytes) (now : Int) :
    (db.findKey k = none ∧ ∃ db' id,
        setAdd db k es now = .ok (.int (sunion [] es).length) db' ∧ SetWF db' ∧ Frame db db' k ∧
        IsSetRow db' k id none ∧ setElems db' id = sunion [] es) ∨
    (∃ old, db.findKey k = some old ∧ old.ty = TSet ∧ ∃ db',
        setAdd db k es now
          = .ok (.int (((sunion (setElems db old.id) es).length : Int) - (setElems db old.id).length)) db' ∧
        SetWF db' ∧ Frame db db' k ∧ IsSetRow db' k old.id old.etime ∧
        setElems db' old.id = sunion (setElems db old.id) es) ∨
    (∃ old, db.findKey k = some old ∧ old.ty ≠ TSet ∧ setAdd db k es now = .err .keyType db) := by
  cases hf : db.findKey k with
  | none =>
    left
    obtain ⟨db1, r, h1, h2, h3, h4, h5⟩ := setAddKey_new hw hf now
    obtain ⟨db', g1, g2, g3, g4, g5⟩ := setAddElems_spec es db1 0 h2 h4
    rw [h5] at g1 g5
    refine ⟨rfl, db', r.id, ?_, g2, h3.trans g3, g4, g5⟩
    simp [setAdd, h1, g1]
  | some old =>
    right
    by_cases ht : old.ty = TSet
    · left
      obtain ⟨db1, r, h1, h2, h3, hid, h4, h5⟩ := setAddKey_old hw hf ht now
      obtain ⟨db', g1, g2, g3, g4, g5⟩ := setAddElems_spec es db1 0 h2 h4
      rw [h5] at g1 g5
      refine ⟨old, rfl, ht, db', ?_, g2, h3.trans g3, g4, g5⟩
      simp [setAdd, h1, hid, g1]
    · right
      exact ⟨old, rfl, ht, by simp [setAdd, setAddKey_other hf ht]⟩

theorem setAdd_wf {db : DB} (hw : SetWF db) (k : Bytes) (es : List Bytes) (now : Int) :
    SetWF (setAdd db k es now).db := by
  rcases setAdd_cases hw k es now with ⟨_, db', _, h, hw', _⟩ | ⟨_, _, _, db', h, hw', _⟩ | ⟨_, _, _, h⟩
  · rw [h]; exact hw'
  · rw [h]; exact hw'
  · rw [h]; exact hw

theorem setAdd_refS {db : DB} (hw : SetWF db) {now : Int} {k : Bytes}
    (hns : staleKey db now k = false) (es : List Bytes) :
    RefS now (setAdd db k es now) (Spec.setAdd (abs now db) k es) := by
  have hlive : liveAt now (none : Option Int) = true := rfl
  rcases sholder hw.wf now k with ⟨h, hg, _⟩ | ⟨_, h, hl, _, _⟩ | ⟨r, h, hlv, ht, hg, _⟩ |
    ⟨r, v, h, _, ht, hg, hv, _⟩
  · rcases setAdd_cases hw k es now with ⟨_, db', id, he, hw', hfr, hrow, hel⟩ | ⟨_, h', _⟩ | ⟨_, h', _⟩
    · have hv := hrow.view now
      rw [hlive, if_pos rfl, hel] at hv
      refine ⟨by simp [he, Spec.setAdd, hg, Res.ok, Spec.ok, sfromList_eq], ?_⟩
      rw [he]
      simp only [Res.ok, Spec.setAdd, hg, Spec.ok, sfromList_eq]
      exact abs_frame_put hw.names hw'.names hfr hv
    · rw [h] at h'; cases h'
    · rw [h] at h'; cases h'
  · exact (Holder.not_stale hns h hl).elim
  · rcases setAdd_cases hw k es now with ⟨h', _⟩ | ⟨old, h', _, db', he, hw', hfr, hrow, hel⟩ | ⟨old, h', ht', _⟩
    · rw [h] at h'; cases h'
    · rw [h] at h'; cases h'
      have hv := hrow.view now
      rw [show liveAt now r.etime = true from hlv, if_pos rfl, hel] at hv
      refine ⟨by simp [he, Spec.setAdd, hg, Res.ok, Spec.ok], ?_⟩
      rw [he]
      simp only [Res.ok, Spec.setAdd, hg, Spec.ok]
      exact abs_frame_put hw.names hw'.names hfr hv
    · rw [h] at h'; cases h'; exact absurd ht ht'
  · rcases setAdd_cases hw k es now with ⟨h', _⟩ | ⟨old, h', ht', _⟩ | ⟨old, h', _, he⟩
    · rw [h] at h'; cases h'
    · rw [h] at h'; cases h'; exact absurd ht' ht
    · rw [he]
      cases v <;> first | exact absurd rfl (hv _) |
        exact ⟨by simp [Spec.setAdd, hg, Res.err, Spec.er], by simp [Spec.setAdd, hg, Res.err, Spec.er]⟩

/-! ### delete -/

/-- `delete from rset where kid = ? and <p elem>` followed by `sqlDelete2` -/
theorem setRemove_spec {db : DB} (hw : SetWF db) {k : Bytes} {now : Int} {r : KeyRow}
    (hl : db.liveKeyT k TSet now = some r) (p : Bytes → Bool) :
    let n : Int := (db.sets.filter (fun x => x.kid == r.id && p x.elem)).length
    let db1 : DB := { db with sets := db.sets.filter (fun x => !(x.kid == r.id && p x.elem)) }
    let db' := setUpdKeyAfterDelete db1 k n now
    SetWF db' ∧ Frame db db' k ∧ IsSetRow db' k r.id r.etime ∧
      setElems db' r.id = (setElems db r.id).filter (fun e => !p e) ∧
      ((setElems db r.id).length : Int) = n + (setElems db' r.id).length := by
  intro n db1 db'
  obtain ⟨hf, ht, _⟩ := (liveKeyT_eq_some_iff hw.names).1 hl
  obtain ⟨hr, _⟩ := findKey_mem hf
  let r' : KeyRow := { r with version := r.version + 1, mtime := now, len := r.len.map (· - n) }
  have hc : core r' = core r := rfl
  have hsplit := length_filter_split (fun x : SetRow => x.kid == r.id) (fun x => p x.elem) db.sets
  have hleft : ((db.sets.filter (fun x => !(x.kid == r.id && p x.elem))).filter
      (fun x => x.kid == r.id)) = db.sets.filter (fun x => x.kid == r.id && !p x.elem) := by
    rw [List.filter_filter]
    apply List.filter_congr
    intro x _
    cases x.kid == r.id <;> simp
  have hdb' : db' = modDb db r.id r' (db.sets.filter (fun x => !(x.kid == r.id && p x.elem))) := by
    show setUpdKeyAfterDelete db1 k n now = _
    unfold setUpdKeyAfterDelete
    have : db1.liveKeyT k TSet now = some r := hl
    rw [this]
    exact updKey_const (db := db1) hw.ids hr _
  have hlen : r'.len = some (((db.sets.filter (fun x => !(x.kid == r.id && p x.elem))).filter
      (fun x => x.kid == r.id)).length : Int) := by
    show r.len.map (· - n) = _
    rw [hw.setLen r hr ht, hleft, hsplit]
    simp only [Option.map_some, Option.some.injEq, n]
    omega
  have := delRows_spec hw hf ht p hc hlen
  simp only at this
  rw [← hdb'] at this
  obtain ⟨h1, h2, h3, h4⟩ := this
  refine ⟨h1, h2, h3, h4, ?_⟩
  rw [length_setElems, length_setElems, hdb']
  show _ = n + (((db.sets.filter (fun x => !(x.kid == r.id && p x.elem))).filter
      (fun x => x.kid == r.id)).length : Int)
  rw [hleft, hsplit]
  simp only [n]
  omega

/-- What `Delete` does, case by case. -/
theorem setDelete_cases {db : DB} (hw : SetWF db) (k : Bytes) (es : List Bytes) (now : Int) :
    (db.liveKeyT k TSet now = none ∧ setDelete db k es now = .ok (.int 0) db) ∨
    (∃ r, db.liveKeyT k TSet now = some r ∧
      (sdiff (setElems db r.id) es).length = (setElems db r.id).length ∧
      setDelete db k es now = .ok (.int 0) db) ∨
    (∃ r, db.liveKeyT k TSet now = some r ∧
      (sdiff (setElems db r.id) es).length ≠ (setElems db r.id).length ∧ ∃ db',
      setDelete db k es now
        = .ok (.int (((setElems db r.id).length : Int) - (sdiff (setElems db r.id) es).length)) db' ∧
      SetWF db' ∧ Frame db db' k ∧ IsSetRow db' k r.id r.etime ∧
      setElems db' r.id = sdiff (setElems db r.id) es) := by
  cases hl : db.liveKeyT k TSet now with
  | none => left; exact ⟨rfl, by simp [setDelete, hl]⟩
  | some r =>
    right
    have hsp := setRemove_spec hw hl (fun y => es.contains y)
    simp only at hsp
    obtain ⟨h1, h2, h3, h4, h5⟩ := hsp
    have h4' : setElems _ r.id = sdiff (setElems db r.id) es := h4
    rw [h4'] at h5
    by_cases hn : (db.sets.filter (fun x => x.kid == r.id && es.contains x.elem)).length = 0
    · left
      refine ⟨r, rfl, by omega, ?_⟩
      simp only [setDelete, hl]
      have hn' : (((db.sets.filter (fun x => x.kid == r.id && es.contains x.elem)).length : Int) == 0) = true := by
        simp only [hn]; rfl
      rw [if_pos hn']
    · right
      refine ⟨r, rfl, by omega, _, ?_, h1, h2, h3, h4'⟩
      simp only [setDelete, hl]
      have hn' : ¬ (((db.sets.filter (fun x => x.kid == r.id && es.contains x.elem)).length : Int) == 0) = true := by
        simpa using hn
      rw [if_neg hn']
      congr 2
      congr 1
      omega

theorem setDelete_wf {db : DB} (hw : SetWF db) (k : Bytes) (es : List Bytes) (now : Int) :
    SetWF (setDelete db k es now).db := by
  rcases setDelete_cases hw k es now with ⟨_, h⟩ | ⟨_, _, _, h⟩ | ⟨_, _, _, db', h, hw', _⟩
  · rw [h]; exact hw
  · rw [h]; exact hw
  · rw [h]; exact hw'

theorem setDelete_refS {db : DB} (hw : SetWF db) (now : Int) (k : Bytes) (es : List Bytes) :
    RefS now (setDelete db k es now) (Spec.setDelete (abs now db) k es) := by
  rcases sholder hw.wf now k with ⟨_, hg, hl⟩ | ⟨_, _, _, hg, hl⟩ | ⟨r, h, hlv, ht, hg, hl⟩ |
    ⟨r, v, h, _, ht, hg, hv, hl⟩
  · rcases setDelete_cases hw k es now with ⟨_, he⟩ | ⟨_, h', _⟩ | ⟨_, h', _⟩
    · rw [he]; exact ⟨by simp [Spec.setDelete, hg, Res.ok, Spec.ok], by simp [Spec.setDelete, hg, Res.ok, Spec.ok]⟩
    · rw [hl] at h'; cases h'
    · rw [hl] at h'; cases h'
  · rcases setDelete_cases hw k es now with ⟨_, he⟩ | ⟨_, h', _⟩ | ⟨_, h', _⟩
    · rw [he]; exact ⟨by simp [Spec.setDelete, hg, Res.ok, Spec.ok], by simp [Spec.setDelete, hg, Res.ok, Spec.ok]⟩
    · rw [hl] at h'; cases h'
    · rw [hl] at h'; cases h'
  · rcases setDelete_cases hw k es now with ⟨h', _⟩ | ⟨r', h', hlen, he⟩ | ⟨r', h', hlen, db', he, hw', hfr, hrow, hel⟩
    · rw [hl] at h'; cases h'
    · rw [hl] at h'; cases h'
      rw [he]
      exact ⟨by simp [Spec.setDelete, hg, Res.ok, Spec.ok, hlen], by simp [Spec.setDelete, hg, Res.ok, Spec.ok, hlen]⟩
    · rw [hl] at h'; cases h'
      have hv := hrow.view now
      rw [show liveAt now r.etime = true from hlv, if_pos rfl, hel] at hv
      rw [he]
      refine ⟨by simp [Spec.setDelete, hg, Res.ok, Spec.ok], ?_⟩
      simp only [Res.ok, Spec.setDelete, hg, Spec.ok]
      have : ((sdiff (setElems db r.id) es).length == (setElems db r.id).length) = false := by
        simpa using hlen
      rw [this]
      exact abs_frame_put hw.names hw'.names hfr hv
  · rcases setDelete_cases hw k es now with ⟨_, he⟩ | ⟨_, h', _⟩ | ⟨_, h', _⟩
    · rw [he]
      cases v <;> first | exact absurd rfl (hv _) |
        exact ⟨by simp [Spec.setDelete, hg, Res.ok, Spec.ok], by simp [Spec.setDelete, hg, Res.ok, Spec.ok]⟩
    · rw [hl] at h'; cases h'
    · rw [hl] at h'; cases h'

end Redka.Model.SetRef
