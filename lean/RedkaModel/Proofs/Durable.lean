/-
  Lemmas for C09 (`Props/C09.lean`): the process model of `Model/Durable.lean` computes what
  `Model.dbRun` computes, closed forms for `recovered` / `acked` / `durable`, the ties of the
  schema table to the generated names.
-/
import RedkaModel.Model.Durable
import RedkaModel.Props.C07
import RedkaModel.Props.C11

namespace Redka.Proofs.Durable

open Redka Redka.Model Redka.Durable

/-! ### schema table -/

/-- the table lists exactly the generated statements, in order: a new object in `schema.sql` breaks
the build here -/
theorem schemaTable_complete : schemaTable.map (·.name) = Generated.schemaNames := by decide

theorem allIfNotExists_true : allIfNotExists = true := by decide +kernel

theorem createSchema_some (db : DB) : createSchema db = some db := by
  have h : allKeepOf schemaTable Generated.schemaNames = true := allIfNotExists_true
  simp [createSchema, createSchemaOf, h]

theorem reopen_id (db : DB) : reopen db = db := by
  simp [reopen, createSchema_some]

theorem iter_id (f : DB → DB) (hf : ∀ d, f d = d) : ∀ (n : Nat) (db : DB), iter f n db = db := by
  intro n
  induction n with
  | zero => intro db; rfl
  | succ n ih => intro db; simp only [iter, hf, ih]

/-! ### `Open`, `OpenRead`, `Close` -/

theorem defaultPragma_fk : hasPragma Generated.c_sqlx_DefaultPragma "foreign_keys=on" = true := by
  decide +kernel

theorem openReadRunsSchema_false : openReadRunsSchema = false := by decide +kernel

theorem readOnlyStartsCleaner_false : readOnlyStartsCleaner = false := by decide

theorem openRW_eq (db : DB) : openRW db = some { db with fk := true } := by
  simp [openRW, applySettings, createSchema_some, defaultPragma_fk]

theorem openRO_eq (db : DB) : openRO db = some db := by
  simp [openRO, openReadRunsSchema_false, readOnlyStartsCleaner_false]

theorem close_eq (db : DB) : close db = some db := by
  have h : (Generated.c_close_calls == "db.bg.Stop(); db.RW.Close(); db.RO.Close()") = true := by decide
  simp [close, h]

theorem tables_setFk (db : DB) (b : Bool) : tables { db with fk := b } = tables db := rfl

theorem cycle_tables (m : Mode) (db : DB) :
    ∃ d, cycle m db = some d ∧ tables d = tables db ∧ (db.fk = true → d = db) := by
  cases m
  · refine ⟨{ db with fk := true }, by simp [cycle, openAs, openRW_eq, close_eq], rfl, ?_⟩
    intro h; cases db; simp_all
  · exact ⟨db, by simp [cycle, openAs, openRO_eq, close_eq], rfl, fun _ => rfl⟩

theorem cycles_tables : ∀ (ms : List Mode) (db : DB),
    ∃ d, cycles ms db = some d ∧ tables d = tables db ∧ (db.fk = true → d = db) := by
  intro ms
  induction ms with
  | nil => intro db; exact ⟨db, rfl, rfl, fun _ => rfl⟩
  | cons m ms ih =>
    intro db
    obtain ⟨d1, h1, t1, e1⟩ := cycle_tables m db
    obtain ⟨d2, h2, t2, e2⟩ := ih d1
    refine ⟨d2, by simp [cycles, h1, h2], t2.trans t1, ?_⟩
    intro hfk
    have := e1 hfk
    subst this
    exact e2 hfk

/-! ### one operation of the process = `Model.dbRun` -/

theorem settle_exec_committed (p : Proc) (o : Op × Int) :
    (settle (exec p o) o).store.committed = (Model.dbRun o.1 o.2 p.store.committed).db := by
  unfold settle exec Model.dbRun update
  cases hw : wrapOf o.1 <;> simp only [decide_true, decide_false, reduceCtorEq] <;>
    cases ho : (Model.tx _ o.1 o.2 p.store.committed).out <;> simp

theorem settle_exec_settled (p : Proc) (o : Op × Int) :
    (settle (exec p o) o).settled = p.settled + 1 := by
  unfold settle exec
  cases hw : wrapOf o.1 <;> simp only [] <;>
    cases ho : (Model.tx _ o.1 o.2 p.store.committed).out <;> simp

theorem settle_exec_acks (p : Proc) (o : Op × Int) : (settle (exec p o) o).acks = p.acks := by
  unfold settle exec
  cases hw : wrapOf o.1 <;> simp only [] <;>
    cases ho : (Model.tx _ o.1 o.2 p.store.committed).out <;> simp

theorem complete_committed (p : Proc) (o : Op × Int) :
    (complete p o).store.committed = (Model.dbRun o.1 o.2 p.store.committed).db := by
  simp only [complete, ack]; exact settle_exec_committed p o

theorem complete_settled (p : Proc) (o : Op × Int) : (complete p o).settled = p.settled + 1 := by
  simp only [complete, ack]; exact settle_exec_settled p o

theorem complete_acks (p : Proc) (o : Op × Int) : (complete p o).acks = p.acks + 1 := by
  simp only [complete, ack]; rw [settle_exec_acks]

/-- nothing volatile is left between two operations -/
theorem complete_working (p : Proc) (o : Op × Int) : (complete p o).working = none := rfl

theorem foldl_complete (l : Workload) : ∀ p : Proc,
    (l.foldl complete p).store.committed = runFrom l p.store.committed ∧
    (l.foldl complete p).settled = p.settled + l.length ∧
    (l.foldl complete p).acks = p.acks + l.length := by
  induction l with
  | nil => intro p; exact ⟨rfl, rfl, rfl⟩
  | cons o l ih =>
    intro p
    obtain ⟨h1, h2, h3⟩ := ih (complete p o)
    simp only [List.foldl_cons, List.length_cons]
    refine ⟨?_, ?_, ?_⟩
    · rw [h1, complete_committed]; rfl
    · rw [h2, complete_settled]; omega
    · rw [h3, complete_acks]; omega

/-! ### histories -/

theorem runFrom_eq_run (ops : Workload) (db : DB) : runFrom ops db = Props.C11.run ops db := rfl

theorem stateAfter_eq_run (w : Workload) (j : Nat) :
    stateAfter w j = Props.C11.run (w.take j) Props.C11.init := rfl

theorem runFrom_append (a b : Workload) (db : DB) : runFrom (a ++ b) db = runFrom b (runFrom a db) := by
  simp [runFrom, List.foldl_append]

/-- the state after `k` operations is the state after `j ≤ k` operations followed by operations
`j+1 … k`, each run whole -/
theorem stateAfter_split (w : Workload) (j k : Nat) (h : j ≤ k) :
    stateAfter w k = runFrom ((w.take k).drop j) (stateAfter w j) := by
  unfold stateAfter
  rw [← runFrom_append]
  have : w.take j = (w.take k).take j := by rw [List.take_take, Nat.min_eq_left h]
  rw [this, List.take_append_drop]

theorem stateAfter_succ (w : Workload) (i : Nat) :
    stateAfter w (i + 1) = runFrom w[i]?.toList (stateAfter w i) := by
  unfold stateAfter
  rw [List.take_add_one, runFrom_append]

theorem stateAfter_succ_some (w : Workload) (i : Nat) (o : Op × Int) (h : w[i]? = some o) :
    stateAfter w (i + 1) = (Model.dbRun o.1 o.2 (stateAfter w i)).db := by
  rw [stateAfter_succ, h]; rfl

theorem stateAfter_succ_none (w : Workload) (i : Nat) (h : w[i]? = none) :
    stateAfter w (i + 1) = stateAfter w i := by
  rw [stateAfter_succ, h]; rfl

theorem stateAfter_ge (w : Workload) (j : Nat) (h : w.length ≤ j) : stateAfter w j = stateAfter w w.length := by
  unfold stateAfter
  rw [List.take_of_length_le h, List.take_of_length_le (Nat.le_refl _)]

/-! ### the process just before operation `i` -/

/-- the process after the first `i` operations -/
def prefixProc (w : Workload) (i : Nat) : Proc := (w.take i).foldl complete boot

theorem prefixProc_facts (w : Workload) (i : Nat) :
    (prefixProc w i).store.committed = stateAfter w i ∧
    (prefixProc w i).settled = min i w.length ∧
    (prefixProc w i).acks = min i w.length := by
  obtain ⟨h1, h2, h3⟩ := foldl_complete (w.take i) boot
  refine ⟨h1, ?_, ?_⟩
  · rw [prefixProc, h2, List.length_take]; simp [boot]
  · rw [prefixProc, h3, List.length_take]; simp [boot]

theorem runUntil_none (w : Workload) (c : Crash) (h : w[c.i]? = none) :
    runUntil w c = prefixProc w c.i := by
  simp only [runUntil, h]; rfl

theorem runUntil_some (w : Workload) (c : Crash) (o : Op × Int) (h : w[c.i]? = some o) :
    runUntil w c = opUntil c.phase (prefixProc w c.i) o := by
  simp only [runUntil, h]; rfl

/-! ### closed forms -/

theorem recovered_closed (w : Workload) (c : Crash) :
    recovered w c = stateAfter w (if c.phase.settled then c.i + 1 else c.i) := by
  obtain ⟨i, ph⟩ := c
  unfold recovered crash
  cases hget : w[i]? with
  | none =>
    rw [runUntil_none w _ hget, (prefixProc_facts w i).1]
    split
    · exact (stateAfter_succ_none w i hget).symm
    · rfl
  | some o =>
    rw [runUntil_some w _ o hget]
    have hp := (prefixProc_facts w i).1
    cases ph <;> simp only [opUntil, Phase.settled]
    · exact hp
    · simpa [exec] using hp
    · rw [settle_exec_committed, hp]; exact (stateAfter_succ_some w i o hget).symm
    · rw [complete_committed, hp]; exact (stateAfter_succ_some w i o hget).symm

theorem acked_closed (w : Workload) (c : Crash) :
    acked w c = if c.phase = .afterAck ∧ c.i < w.length then c.i + 1 else min c.i w.length := by
  obtain ⟨i, ph⟩ := c
  unfold acked
  cases hget : w[i]? with
  | none =>
    have hlen : w.length ≤ i := by simpa using hget
    rw [runUntil_none w _ hget, (prefixProc_facts w i).2.2]
    simp only []
    rw [if_neg (by omega)]
  | some o =>
    have hlen : i < w.length := by
      rcases Nat.lt_or_ge i w.length with h | h
      · exact h
      · rw [List.getElem?_eq_none h] at hget; cases hget
    rw [runUntil_some w _ o hget]
    have hp := (prefixProc_facts w i).2.2
    cases ph <;> simp only [opUntil]
    · rw [hp]; simp
    · rw [show (exec (prefixProc w i) o).acks = (prefixProc w i).acks from rfl, hp]; simp
    · rw [settle_exec_acks, hp]; simp
    · rw [complete_acks, hp]; simp [hlen]; omega

theorem durable_closed (w : Workload) (c : Crash) :
    durable w c = if c.phase.settled = true ∧ c.i < w.length then c.i + 1 else min c.i w.length := by
  obtain ⟨i, ph⟩ := c
  unfold durable
  cases hget : w[i]? with
  | none =>
    have hlen : w.length ≤ i := by simpa using hget
    rw [runUntil_none w _ hget, (prefixProc_facts w i).2.1]
    simp only []
    rw [if_neg (by omega)]
  | some o =>
    have hlen : i < w.length := by
      rcases Nat.lt_or_ge i w.length with h | h
      · exact h
      · rw [List.getElem?_eq_none h] at hget; cases hget
    rw [runUntil_some w _ o hget]
    have hp := (prefixProc_facts w i).2.1
    cases ph <;> simp only [opUntil, Phase.settled]
    · rw [hp]; simp
    · rw [show (exec (prefixProc w i) o).settled = (prefixProc w i).settled from rfl, hp]; simp
    · rw [settle_exec_settled, hp]; simp [hlen]; omega
    · rw [complete_settled, hp]; simp [hlen]; omega

/-- the file holds exactly the operations whose transaction had ended -/
theorem recovered_eq_durable (w : Workload) (c : Crash) : recovered w c = stateAfter w (durable w c) := by
  rw [recovered_closed, durable_closed]
  by_cases hlen : c.i < w.length
  · cases hc : c.phase.settled <;> simp [hlen, Nat.min_eq_left (Nat.le_of_lt hlen)]
  · have hlen' : w.length ≤ c.i := Nat.le_of_not_lt hlen
    have hneg : ¬ (c.phase.settled = true ∧ c.i < w.length) := fun h => hlen h.2
    rw [if_neg hneg, Nat.min_eq_right hlen']
    split
    · exact stateAfter_ge w _ (by omega)
    · exact stateAfter_ge w _ hlen'

theorem acked_le_durable (w : Workload) (c : Crash) :
    acked w c ≤ durable w c ∧ durable w c ≤ acked w c + 1 := by
  rw [acked_closed, durable_closed]
  obtain ⟨i, ph⟩ := c
  cases ph <;> simp only [Phase.settled] <;> (repeat' split) <;> simp_all <;> omega

end Redka.Proofs.Durable
