/-
  C19 — the sorted-set repository (non-storing methods): every `Tx` method is an `Eff` step.
-/
import RedkaModel.Proofs.MetaEff
import RedkaModel.Proofs.InvZSet

namespace Redka.MetaProofs

open Redka Redka.Model Redka.InvP

variable {db : DB}

theorem zInsertNew_touch (kid : Int) (e : Bytes) (s : Score) : Touch kid db (zInsertNew db kid e s) := by
  unfold zInsertNew
  refine (Touch.setZSets kid db _ (fun i hi => ?_)).trans (Touch.updLen kid _ _ (fun _ => rfl))
  exact (filter_kid_append_other (·.kid) db.zsets
    ({ rowid := db.nextZRowid, kid := kid, elem := e, score := s } : ZRow) (i := i)
    (fun (e : kid = i) => hi e.symm)).symm

theorem zSetRow_touch (kid : Int) (e : Bytes) (s : Score) : Touch kid db (zSetRow db kid e s) := by
  unfold zSetRow
  split
  · refine Touch.setZSets kid db _ (fun i hi => ?_)
    refine (filter_kid_map_other (·.kid) _ db.zsets i (fun x _ hx => ?_) (fun x _ => ?_)).symm
    · have : (x.kid == kid) = false := by simpa [hx] using hi
      simp [this]
    · show (if x.kid == kid && x.elem == e then _ else x).kid = x.kid
      split <;> rfl
  · exact zInsertNew_touch kid e s

theorem zAddTx_eff {k e : Bytes} {s : Score} {now : Int} {d : DB} (he : zAddTx db k e s now = .ok d) :
    Eff now db d ∧ Keep db d := by
  unfold zAddTx at he
  cases hk : zAddKey db k now with
  | error er => rw [hk] at he; cases he
  | ok p =>
    obtain ⟨db1, r⟩ := p
    rw [hk] at he
    simp only [Except.ok.injEq] at he
    subst he
    exact eff_upsert_touch hk (fun _ => ⟨rfl, rfl, rfl⟩) (isBump_succ now) (zSetRow_touch r.id e s)

theorem zAdd_eff (k e : Bytes) (s : Score) (now : Int) : Eff now db (zAdd db k e s now).db := by
  unfold zAdd
  simp only
  split
  · exact Eff.refl _ _
  · rename_i d he; exact (zAddTx_eff he).1

theorem zAddManyLoop_eff (k : Bytes) (now : Int) (items : List (Bytes × Score)) :
    ∀ {db : DB}, Eff now db (zAddManyLoop db k now items).2 := by
  induction items with
  | nil => intro db; exact Eff.refl _ _
  | cons p rest ih =>
    intro db
    obtain ⟨e, s⟩ := p
    unfold zAddManyLoop
    split
    · exact Eff.refl _ _
    · rename_i d he
      exact (zAddTx_eff he).1.trans (zAddTx_eff he).2 ih

theorem zAddMany_eff (k : Bytes) (items : List (Bytes × Score)) (now : Int) :
    Eff now db (zAddMany db k items now).db := by
  unfold zAddMany
  have := zAddManyLoop_eff k now items (db := db)
  simp only
  split <;> (rename_i he; rw [he] at this; exact this)

theorem zIncr_eff (k e : Bytes) (d : Score) (now : Int) : Eff now db (zIncr db k e d now).db := by
  unfold zIncr
  cases hk : zAddKey db k now with
  | error er => exact Eff.refl _ _
  | ok p =>
    obtain ⟨db1, r⟩ := p
    simp only
    split
    · exact (eff_upsert_touch hk (fun _ => ⟨rfl, rfl, rfl⟩) (isBump_succ now)
        (zInsertNew_touch r.id e d)).1
    · split
      · exact (eff_upsert hk (fun _ => ⟨rfl, rfl, rfl⟩) (isBump_succ now)).1
      · rename_i s _
        exact (eff_upsert_touch hk (fun _ => ⟨rfl, rfl, rfl⟩) (isBump_succ now)
          (zSetRow_touch r.id e s)).1

theorem zDeleteWhere_eff (k : Bytes) (victims : List Bytes) (now : Int) :
    Eff now db (zDeleteWhere db k victims now).db := by
  unfold zDeleteWhere
  split
  · exact Eff.refl _ _
  · rename_i r hl
    simp only
    split
    · exact Eff.refl _ _
    · have hl1 : DB.liveKeyT { db with zsets := db.zsets.filter (fun x => !(x.kid == r.id && victims.contains x.elem)) } k TZSet now = some r := hl
      unfold zUpdKeyAfterDelete
      rw [hl1]
      have ht : Touch r.id db { db with zsets := db.zsets.filter (fun x => !(x.kid == r.id && victims.contains x.elem)) } := by
        refine Touch.setZSets r.id db _ (fun i hi => ?_)
        refine (filter_kid_filter_other (·.kid) _ db.zsets i (fun x _ hx => ?_)).symm
        have : (x.kid == r.id) = false := by simpa [hx] using hi
        simp [this]
      exact (eff_touch_updKey ht (isBump_len now _)).1

theorem zDelete_eff (k : Bytes) (es : List Bytes) (now : Int) : Eff now db (zDelete db k es now).db :=
  zDeleteWhere_eff k es now

theorem zDeleteRank_eff (k : Bytes) (a b now : Int) : Eff now db (zDeleteRank db k a b now).db := by
  unfold zDeleteRank
  split
  · exact Eff.refl _ _
  · split
    · exact Eff.refl _ _
    · exact zDeleteWhere_eff k _ now

theorem zDeleteScore_eff (k : Bytes) (lo hi : Score) (now : Int) :
    Eff now db (zDeleteScore db k lo hi now).db := zDeleteWhere_eff k _ now

end Redka.MetaProofs
