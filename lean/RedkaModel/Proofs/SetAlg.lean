/-
  `internal/rset`: the set algebra (`sqlDiff`, `sqlInter`, `sqlUnion`) computes the mathematical
  result over the abstract keyspace, the storing variants, move and pop.
-/
import RedkaModel.Proofs.SetRef

namespace Redka.Model.SetRef

open Redka Redka.Spec Redka.DB Redka.Scan

/-! ### which `rset` rows a list of key names selects -/

theorem kids_contains {db : DB} (hw : db.WF) (ks : List Bytes) (now : Int) (j : Int) :
    (setKids db ks now).contains j = true ↔
      ∃ k ∈ ks, ∃ r, db.liveKeyT k TSet now = some r ∧ r.id = j := by
  simp only [setKids, List.contains_iff_mem, List.mem_map, List.mem_filter, Bool.and_eq_true,
    beq_iff_eq]
  constructor
  · rintro ⟨r, ⟨hr, ⟨hk, ht⟩, hl⟩, hid⟩
    exact ⟨r.key, hk, r, (liveKeyT_eq_some_iff hw.names).2 ⟨findKey_of_mem hw.names hr, ht, hl⟩, hid⟩
  · rintro ⟨k, hk, r, hl, hid⟩
    obtain ⟨hf, ht, hlv⟩ := (liveKeyT_eq_some_iff hw.names).1 hl
    obtain ⟨hr, hrk⟩ := findKey_mem hf
    exact ⟨r, ⟨hr, ⟨by rw [hrk]; exact hk, ht⟩, hlv⟩, hid⟩

/-- the members found in the rows selected by `ks` are the members of the sets named in `ks` -/
theorem mem_kidRows {db : DB} (hw : db.WF) (ks : List Bytes) (now : Int) (e : Bytes) :
    (∃ x ∈ db.sets, (setKids db ks now).contains x.kid = true ∧ x.elem = e) ↔
      ∃ k ∈ ks, e ∈ mset db k now := by
  constructor
  · rintro ⟨x, hx, hc, he⟩
    obtain ⟨k, hk, r, hl, hid⟩ := (kids_contains hw ks now x.kid).1 hc
    exact ⟨k, hk, mem_mset.2 ⟨r, hl, mem_setElems.2 ⟨x, hx, hid.symm, he⟩⟩⟩
  · rintro ⟨k, hk, hm⟩
    obtain ⟨r, hl, hm⟩ := mem_mset.1 hm
    obtain ⟨x, hx, hxk, he⟩ := mem_setElems.1 hm
    exact ⟨x, hx, (kids_contains hw ks now x.kid).2 ⟨k, hk, r, hl, hxk.symm⟩, he⟩

theorem mem_kidElems {db : DB} (hw : db.WF) (ks : List Bytes) (now : Int) (e : Bytes) :
    e ∈ (db.sets.filter (fun r => (setKids db ks now).contains r.kid)).map (·.elem) ↔
      ∃ k ∈ ks, e ∈ mset db k now := by
  rw [← mem_kidRows hw ks now e]
  simp only [List.mem_map, List.mem_filter]
  constructor
  · rintro ⟨x, ⟨hx, hc⟩, he⟩; exact ⟨x, hx, hc, he⟩
  · rintro ⟨x, hx, hc, he⟩; exact ⟨x, ⟨hx, hc⟩, he⟩

/-! ### union -/

theorem mem_setUnionOf (s : State) (ks : List Bytes) (e : Bytes) :
    e ∈ setUnionOf s ks ↔ ∃ k ∈ ks, e ∈ setAt s k := by
  unfold setUnionOf
  rw [mem_foldl_sunion (setAt s) e ks []]
  simp

theorem ssorted_setUnionOf (s : State) (ks : List Bytes) : SSorted (setUnionOf s ks) :=
  ssorted_foldl_sunion (setAt s) ks SSorted.nil

/-- **`sqlUnion` computes the union**, for any list of keys -/
theorem setUnionRaw_eq {db : DB} (hw : db.WF) (ks : List Bytes) (now : Int) :
    setUnionRaw db ks now = setUnionOf (abs now db) ks := by
  apply ssorted_ext (ssorted_sortBy (nodup_dedup _)) (ssorted_setUnionOf _ _)
  intro e
  show e ∈ sortBy bytesLt (dedup ((db.sets.filter (fun r => (setKids db ks now).contains r.kid)).map (·.elem))) ↔ _
  rw [mem_sortBy, mem_dedup, mem_kidElems hw, mem_setUnionOf]
  simp only [setAt_abs hw]

/-! ### difference -/

theorem setDiffOf_cons (s : State) (k : Bytes) (rest : List Bytes) :
    setDiffOf s (k :: rest)
      = (setAt s k).filter (fun e => rest.all (fun x => !(setAt s x).contains e)) :=
  foldl_sdiff (setAt s) rest (setAt s k)

theorem setDiffRaw_cons (db : DB) (first : Bytes) (others : List Bytes) (now : Int) :
    setDiffRaw db (first :: others) now
      = (mset db first now).filter (fun e =>
          !((db.sets.filter (fun r => (setKids db others now).contains r.kid)).map (·.elem)).contains e) := by
  unfold mset
  cases hl : db.liveKeyT first TSet now with
  | none => simp only [setDiffRaw, hl]; rfl
  | some r => simp only [setDiffRaw, hl]; rfl

/-- **`sqlDiff` computes the difference**, for any list of keys -/
theorem setDiffRaw_eq {db : DB} (hw : db.WF) (ks : List Bytes) (now : Int) :
    setDiffRaw db ks now = setDiffOf (abs now db) ks := by
  cases ks with
  | nil => rfl
  | cons first others =>
    rw [setDiffOf_cons, setDiffRaw_cons]
    simp only [setAt_abs hw]
    apply List.filter_congr
    intro e _
    rw [Bool.eq_iff_iff, Bool.not_eq_true', List.all_eq_true]
    constructor
    · intro h x hx
      rw [Bool.not_eq_true', Bool.eq_false_iff]
      intro hc
      rw [Bool.eq_false_iff] at h
      exact h (List.contains_iff_mem.2
        ((mem_kidElems hw others now e).2 ⟨x, hx, List.contains_iff_mem.1 hc⟩))
    · intro h
      rw [Bool.eq_false_iff]
      intro hc
      obtain ⟨x, hx, hm⟩ := (mem_kidElems hw others now e).1 (List.contains_iff_mem.1 hc)
      have := h x hx
      rw [Bool.not_eq_true', Bool.eq_false_iff] at this
      exact this (List.contains_iff_mem.2 hm)

/-! ### intersection -/

theorem setInterOf_cons (s : State) (k : Bytes) (rest : List Bytes) :
    setInterOf s (k :: rest)
      = (setAt s k).filter (fun e => rest.all (fun x => (setAt s x).contains e)) :=
  foldl_sinter (setAt s) rest (setAt s k)

theorem mem_setInterOf_cons (s : State) (k : Bytes) (rest : List Bytes) (e : Bytes) :
    e ∈ setInterOf s (k :: rest) ↔ ∀ x ∈ k :: rest, e ∈ setAt s x := by
  rw [setInterOf_cons]
  simp [List.mem_filter]

theorem setKids_nil (db : DB) (now : Int) : setKids db [] now = [] := by
  simp [setKids]

/-- `(kid, elem)` is unique: one row or none -/
theorem length_filter_kid_elem {db : DB} (hu : (db.sets.map (fun r => (r.kid, r.elem))).Nodup)
    (id : Int) (e : Bytes) :
    (db.sets.filter (fun x => x.kid == id && x.elem == e)).length
      = if (setElems db id).contains e then 1 else 0 := by
  have hkey := length_filter_key (fun y : SetRow => (y.kid, y.elem)) (id, e) db.sets hu
  have hmem : ((id, e) ∈ db.sets.map (fun y : SetRow => (y.kid, y.elem))) ↔ e ∈ setElems db id := by
    rw [mem_setElems]
    simp only [List.mem_map, Prod.mk.injEq]
  refine Eq.trans (congrArg List.length (List.filter_congr ?_)) (hkey.trans ?_)
  · intro x _
    rw [Bool.eq_iff_iff]
    simp
  · simp only [hmem, List.contains_eq_mem, decide_eq_true_eq]

/-- one key selects at most one row per member -/
theorem count_one {db : DB} (hw : SetWF db) (k : Bytes) (now : Int) (e : Bytes) :
    (db.sets.filter (fun x => (setKids db [k] now).contains x.kid && x.elem == e)).length
      = if (mset db k now).contains e then 1 else 0 := by
  unfold mset
  cases hl : db.liveKeyT k TSet now with
  | none =>
    have : db.sets.filter (fun x => (setKids db [k] now).contains x.kid && x.elem == e) = [] := by
      rw [List.filter_eq_nil_iff]
      intro x _ hc
      simp only [Bool.and_eq_true] at hc
      obtain ⟨k', hk', r, hr, _⟩ := (kids_contains hw.wf [k] now x.kid).1 hc.1
      have : k' = k := by simpa using hk'
      rw [this, hl] at hr
      cases hr
    rw [this]; rfl
  | some r =>
    have hcongr : db.sets.filter (fun x => (setKids db [k] now).contains x.kid && x.elem == e)
        = db.sets.filter (fun x => x.kid == r.id && x.elem == e) := by
      apply List.filter_congr
      intro x _
      rw [Bool.eq_iff_iff]
      simp only [Bool.and_eq_true, beq_iff_eq]
      rw [kids_contains hw.wf]
      constructor
      · rintro ⟨⟨k', hk', r', hr', hid⟩, he⟩
        have : k' = k := by simpa using hk'
        rw [this, hl] at hr'
        cases hr'
        exact ⟨hid.symm, he⟩
      · rintro ⟨hid, he⟩
        exact ⟨⟨k, by simp, r, hl, hid.symm⟩, he⟩
    rw [hcongr, length_filter_kid_elem hw.setUniq]

/-- `count(distinct kid)` over the rows selected by pairwise different names counts the named sets
that have the member -/
theorem inter_count {db : DB} (hw : SetWF db) (now : Int) (e : Bytes) : ∀ ks : List Bytes, ks.Nodup →
    (db.sets.filter (fun x => (setKids db ks now).contains x.kid && x.elem == e)).length
      = (ks.filter (fun k => (mset db k now).contains e)).length
  | [], _ => by simp [setKids_nil]
  | k :: rest, hnd => by
    have hnd' := List.nodup_cons.1 hnd
    have ih := inter_count hw now e rest hnd'.2
    have hsplit : db.sets.filter (fun x => (setKids db (k :: rest) now).contains x.kid && x.elem == e)
        = db.sets.filter (fun x => ((setKids db [k] now).contains x.kid && x.elem == e) ||
            ((setKids db rest now).contains x.kid && x.elem == e)) := by
      apply List.filter_congr
      intro x _
      rw [Bool.eq_iff_iff]
      simp only [Bool.and_eq_true, Bool.or_eq_true, beq_iff_eq]
      rw [kids_contains hw.wf, kids_contains hw.wf, kids_contains hw.wf]
      constructor
      · rintro ⟨⟨k', hk', r, hr, hid⟩, he⟩
        rcases List.mem_cons.1 hk' with rfl | hk'
        · exact Or.inl ⟨⟨k', by simp, r, hr, hid⟩, he⟩
        · exact Or.inr ⟨⟨k', hk', r, hr, hid⟩, he⟩
      · rintro (⟨⟨k', hk', r, hr, hid⟩, he⟩ | ⟨⟨k', hk', r, hr, hid⟩, he⟩)
        · have : k' = k := by simpa using hk'
          exact ⟨⟨k', by simp [this], r, hr, hid⟩, he⟩
        · exact ⟨⟨k', List.mem_cons_of_mem _ hk', r, hr, hid⟩, he⟩
    have hdisj : ∀ x ∈ db.sets, ((setKids db [k] now).contains x.kid && x.elem == e) = true →
        ((setKids db rest now).contains x.kid && x.elem == e) = true → False := by
      intro x _ h1 h2
      simp only [Bool.and_eq_true] at h1 h2
      obtain ⟨k1, hk1, r1, hr1, hid1⟩ := (kids_contains hw.wf [k] now x.kid).1 h1.1
      obtain ⟨k2, hk2, r2, hr2, hid2⟩ := (kids_contains hw.wf rest now x.kid).1 h2.1
      have hk1 : k1 = k := by simpa using hk1
      obtain ⟨hf1, _, _⟩ := (liveKeyT_eq_some_iff hw.names).1 hr1
      obtain ⟨hf2, _, _⟩ := (liveKeyT_eq_some_iff hw.names).1 hr2
      obtain ⟨hm1, hmk1⟩ := findKey_mem hf1
      obtain ⟨hm2, hmk2⟩ := findKey_mem hf2
      have : r1 = r2 := id_inj hw.ids hm1 hm2 (hid1.trans hid2.symm)
      apply hnd'.1
      rw [← hk1, ← hmk1, this, hmk2]
      exact hk2
    rw [hsplit, length_filter_or _ _ _ hdisj, count_one hw, ih, List.filter_cons]
    split <;> simp <;> omega

/-- the rows a key list selects depend only on which names occur in it, not on how often -/
theorem setKids_dedup (db : DB) (ks : List Bytes) (now : Int) :
    setKids db (dedup ks) now = setKids db ks now := by
  unfold setKids
  congr 1
  apply List.filter_congr
  intro r _
  have : (dedup ks).contains r.key = ks.contains r.key := by
    rw [Bool.eq_iff_iff]
    simp only [List.contains_eq_mem, decide_eq_true_eq]
    exact mem_dedup r.key ks
  rw [this]

/-- `count(distinct kid)` over the rows selected by ANY key list counts the distinct requested
names that are sets having the member -/
theorem inter_count_any {db : DB} (hw : SetWF db) (now : Int) (e : Bytes) (ks : List Bytes) :
    (db.sets.filter (fun x => (setKids db ks now).contains x.kid && x.elem == e)).length
      = ((dedup ks).filter (fun k => (mset db k now).contains e)).length := by
  rw [← inter_count hw now e (dedup ks) (nodup_dedup ks), setKids_dedup]

/-- **`sqlInter` computes the intersection**, for ANY non-empty key list — repeated keys, missing
keys and keys of another type included: the rows selected are those of the live sets among the
distinct requested names, and a member is kept iff the number of selected rows carrying it equals
the number of distinct requested names (`countDistinct(keys)`), i.e. iff every requested name is a
live set holding it. -/
theorem setInterRaw_eq {db : DB} (hw : SetWF db) {ks : List Bytes} (hne : ks ≠ [])
    (now : Int) : setInterRaw db ks now = setInterOf (abs now db) ks := by
  cases ks with
  | nil => exact absurd rfl hne
  | cons k rest =>
    have hs : SSorted (setInterOf (abs now db) (k :: rest)) := by
      rw [setInterOf_cons, setAt_abs hw.wf]
      exact (ssorted_mset hw k now).filter _
    apply ssorted_ext ((ssorted_sortBy (nodup_dedup _)).filter _) hs
    intro e
    rw [mem_setInterOf_cons]
    simp only [List.mem_filter]
    rw [mem_sortBy, mem_dedup, mem_kidElems hw.wf, List.filter_filter]
    have hcnt : (db.sets.filter (fun a => a.elem == e && (setKids db (k :: rest) now).contains a.kid)).length
        = ((dedup (k :: rest)).filter (fun k => (mset db k now).contains e)).length := by
      rw [← inter_count_any hw now e (k :: rest)]
      congr 1
      apply List.filter_congr
      intro x _
      exact Bool.and_comm _ _
    rw [hcnt]
    simp only [beq_iff_eq, Int.natCast_inj, List.length_filter_eq_length_iff, List.contains_eq_mem,
      decide_eq_true_eq, setAt_abs hw.wf, mem_dedup]
    constructor
    · exact fun h => h.2
    · exact fun h => ⟨⟨k, by simp, h k (by simp)⟩, h⟩

/-! ### the results depend only on the keys that are named -/

theorem setAt_frame {db db' : DB} {d : Bytes} (hn : (db.keys.map (·.key)).Nodup)
    (hn' : (db'.keys.map (·.key)).Nodup) (hf : Frame db db' d) (now : Int) {k : Bytes} (hk : k ≠ d) :
    setAt (abs now db') k = setAt (abs now db) k := by
  unfold setAt
  rw [get_abs_view hn', get_abs_view hn, hf.view hk now]

theorem setUnionOf_congr {s s' : State} {ks : List Bytes} (h : ∀ k ∈ ks, setAt s' k = setAt s k) :
    setUnionOf s' ks = setUnionOf s ks := by
  unfold setUnionOf
  apply foldl_congr_mem
  intro x hx a
  rw [h x hx]

theorem setDiffOf_congr {s s' : State} {ks : List Bytes} (h : ∀ k ∈ ks, setAt s' k = setAt s k) :
    setDiffOf s' ks = setDiffOf s ks := by
  cases ks with
  | nil => rfl
  | cons k rest =>
    show rest.foldl (fun acc x => sdiff acc (setAt s' x)) (setAt s' k)
      = rest.foldl (fun acc x => sdiff acc (setAt s x)) (setAt s k)
    rw [h k (by simp)]
    apply foldl_congr_mem
    intro x hx a
    rw [h x (List.mem_cons_of_mem _ hx)]

theorem setInterOf_congr {s s' : State} {ks : List Bytes} (h : ∀ k ∈ ks, setAt s' k = setAt s k) :
    setInterOf s' ks = setInterOf s ks := by
  cases ks with
  | nil => rfl
  | cons k rest =>
    show rest.foldl (fun acc x => sinter acc (setAt s' x)) (setAt s' k)
      = rest.foldl (fun acc x => sinter acc (setAt s x)) (setAt s k)
    rw [h k (by simp)]
    apply foldl_congr_mem
    intro x hx a
    rw [h x (List.mem_cons_of_mem _ hx)]

theorem ssorted_setDiffOf {db : DB} (hw : SetWF db) (now : Int) (ks : List Bytes) :
    SSorted (setDiffOf (abs now db) ks) := by
  cases ks with
  | nil => exact SSorted.nil
  | cons k rest =>
    rw [setDiffOf_cons, setAt_abs hw.wf]
    exact (ssorted_mset hw k now).filter _

theorem ssorted_setInterOf {db : DB} (hw : SetWF db) (now : Int) (ks : List Bytes) :
    SSorted (setInterOf (abs now db) ks) := by
  cases ks with
  | nil => exact SSorted.nil
  | cons k rest =>
    rw [setInterOf_cons, setAt_abs hw.wf]
    exact (ssorted_mset hw k now).filter _

/-! ### the storing variants -/

theorem setDeleteKey_none {db : DB} {d : Bytes} {now : Int} (hl : db.liveKeyT d TSet now = none) :
    setDeleteKey db d now = db := by
  simp [setDeleteKey, hl]

/-- `deleteKey` on a live set: all rows go, the key row stays with length 0 -/
theorem setDeleteKey_set {db : DB} (hw : SetWF db) {d : Bytes} {now : Int} {r : KeyRow}
    (hl : db.liveKeyT d TSet now = some r) :
    SetWF (setDeleteKey db d now) ∧ Frame db (setDeleteKey db d now) d ∧
      IsSetRow (setDeleteKey db d now) d r.id r.etime ∧ setElems (setDeleteKey db d now) r.id = [] := by
  obtain ⟨hf, ht, _⟩ := (liveKeyT_eq_some_iff hw.names).1 hl
  obtain ⟨hr, _⟩ := findKey_mem hf
  let r' : KeyRow := { r with version := 0, mtime := 0, len := some 0 }
  have hc : core r' = core r := rfl
  have hfil : db.sets.filter (fun x => x.kid != r.id)
      = db.sets.filter (fun x => !(x.kid == r.id && true)) := by
    apply List.filter_congr
    intro x _
    simp [bne]
  have hempty : (db.sets.filter (fun x => !(x.kid == r.id && true))).filter
      (fun x => x.kid == r.id) = [] := by
    rw [List.filter_filter, List.filter_eq_nil_iff]
    intro x _
    simp
  have hdb : setDeleteKey db d now
      = modDb db r.id r' (db.sets.filter (fun x => !(x.kid == r.id && true))) := by
    have h0 : setDeleteKey db d now
        = ({ db with sets := db.sets.filter (fun x => x.kid != r.id) } : DB).updKey r.id
            (fun o => { o with version := 0, mtime := 0, len := some 0 }) := by
      simp only [setDeleteKey, hl]
    rw [h0, hfil]
    exact updKey_const
      (db := { db with sets := db.sets.filter (fun x => !(x.kid == r.id && true)) }) hw.ids hr _
  have := delRows_spec hw hf ht (fun _ => true) hc (by rw [hempty]; rfl)
  simp only at this
  rw [← hdb] at this
  obtain ⟨h1, h2, h3, h4⟩ := this
  refine ⟨h1, h2, h3, ?_⟩
  rw [h4]
  simp

theorem setDeleteKey_wf {db : DB} (hw : SetWF db) (d : Bytes) (now : Int) :
    SetWF (setDeleteKey db d now) := by
  cases hl : db.liveKeyT d TSet now with
  | none => rw [setDeleteKey_none hl]; exact hw
  | some r => exact (setDeleteKey_set hw hl).1

/-- the storing variants keep the tables well-formed, whatever they meet -/
theorem setStore_wf {db : DB} (hw : SetWF db) (d : Bytes) (ks : List Bytes) (now : Int)
    (compute : DB → List Bytes) : SetWF (setStore db d ks now compute).db := by
  unfold setStore
  split
  · exact hw
  · have hw1 := setDeleteKey_wf hw d now
    generalize setDeleteKey db d now = db1 at hw1
    simp only
    cases hf : db1.findKey d with
    | none =>
      obtain ⟨db2, r, h1, h2, _, h4, _⟩ := setAddKey_new hw1 hf now
      rw [h1]
      simp only
      cases hi : setInsertAll db2 r.id (compute db2) 0 with
      | error e => exact h2
      | ok p => exact setInsertAll_wf _ _ _ h2 h4 p.1 p.2 hi
    | some old =>
      by_cases ht : old.ty = TSet
      · obtain ⟨db2, r, h1, h2, _, hid, h4, _⟩ := setAddKey_old hw1 hf ht now
        rw [h1]
        simp only
        rw [hid]
        cases hi : setInsertAll db2 old.id (compute db2) 0 with
        | error e => exact h2
        | ok p => exact setInsertAll_wf _ _ _ h2 h4 p.1 p.2 hi
      · rw [setAddKey_other hf ht]
        exact hw1

/-- **The storing variants.** With a destination that is not a stale leftover (D05) and a result
that does not change when the destination is wiped (guaranteed when the destination is not one of
the sources, D08; only asked for a non-empty list of sources): the destination ends up holding
exactly `result`, with its old expiry. -/
theorem setStore_refS {db : DB} (hw : SetWF db) {now : Int} {d : Bytes}
    (hns : staleKey db now d = false) (ks : List Bytes) (compute : DB → List Bytes)
    {result : List Bytes} (hres : SSorted result)
    (hc : ks.isEmpty = false → ∀ db2, SetWF db2 → Frame db db2 d → compute db2 = result) :
    RefS now (update (fun x => setStore x d ks now compute) db)
      (Spec.setStore (abs now db) d ks result) := by
  have hlive : liveAt now (none : Option Int) = true := rfl
  unfold Spec.setStore
  cases hemp : ks.isEmpty with
  | true => exact ⟨by simp [update, setStore, hemp, Res.ok, Spec.ok], by simp [update, setStore, hemp, Res.ok, Spec.ok]⟩
  | false =>
    simp only [Bool.false_eq_true, if_false]
    -- what happens once the key row is in place and the old rows are gone
    have fin : ∀ (db2 : DB) (id : Int) (et : Option Int), SetWF db2 → Frame db db2 d →
        IsSetRow db2 d id et → setElems db2 id = [] → liveAt now et = true →
        ∃ db3, setInsertAll db2 id (compute db2) 0 = .ok (db3, (result.length : Int)) ∧
          abs now db3 = put (abs now db) d ⟨.set result, et⟩ := by
      intro db2 id et hw2 hfr hrow hel hlv
      rw [hc hemp db2 hw2 hfr]
      obtain ⟨db3, g1, g2, g3, g4, g5⟩ := setInsertAll_spec result db2 0 hw2 hrow hres.nodup
        (by rw [hel]; simp)
      rw [hel, sunion_nil_of_ssorted hres] at g5
      refine ⟨db3, by rw [g1]; simp, ?_⟩
      have hv := g4.view now
      rw [hlv, if_pos rfl, g5] at hv
      exact abs_frame_put hw.names g2.names (hfr.trans g3) hv
    rcases sholder hw.wf now d with ⟨h, hg, hl⟩ | ⟨_, h, hl, _, _⟩ | ⟨r, h, hlv, ht, hg, hl⟩ |
      ⟨r, v, h, _, ht, hg, hv, hl⟩
    · obtain ⟨db2, r, h1, h2, h3, h4, h5⟩ := setAddKey_new hw h now
      obtain ⟨db3, g1, g2⟩ := fin db2 r.id none h2 h3 h4 h5 hlive
      have hrun : setStore db d ks now compute = .ok (.int result.length) db3 := by
        simp [setStore, hemp, setDeleteKey_none hl, h1, g1]
      exact ⟨by simp [update, hrun, Res.ok, hg, Spec.ok], by simp [update, hrun, Res.ok, hg, Spec.ok, g2]⟩
    · exact (Holder.not_stale hns h hl).elim
    · obtain ⟨k1, k2, k3, k4⟩ := setDeleteKey_set hw hl
      obtain ⟨r1, hf1, hid1, hty1, het1⟩ := k3
      obtain ⟨db2, r2, h1, h2, h3, hid, h4, h5⟩ := setAddKey_old k1 hf1 hty1 now
      rw [hid1] at h4 h5 hid
      rw [het1] at h4
      rw [k4] at h5
      obtain ⟨db3, g1, g2⟩ := fin db2 r.id r.etime h2 (k2.trans h3) h4 h5 hlv
      have hrun : setStore db d ks now compute = .ok (.int result.length) db3 := by
        simp [setStore, hemp, h1, hid, g1]
      exact ⟨by simp [update, hrun, Res.ok, hg, Spec.ok], by simp [update, hrun, Res.ok, hg, Spec.ok, g2]⟩
    · have hrun : setStore db d ks now compute = .err .keyType db := by
        simp [setStore, hemp, setDeleteKey_none hl, setAddKey_other h ht]
      cases v <;> first | exact absurd rfl (hv _) |
        exact ⟨by simp [update, hrun, Res.err, hg, Spec.er], by simp [update, hrun, Res.err, hg, Spec.er]⟩

/-! ### pop -/

theorem setPop_eq_delete {db : DB} (hw : SetWF db) (k e : Bytes) (now : Int)
    (hm : e ∈ mset db k now) :
    setPop db k (some e) now = ⟨.ok (.bytes e), (setDelete db k [e] now).db⟩ := by
  obtain ⟨r, hl, hme⟩ := mem_mset.1 hm
  have hany : (setRows db r.id).any (fun x => x.elem == e) = true := by
    rw [List.any_eq_true]
    obtain ⟨x, hx⟩ := List.mem_map.1 (show e ∈ (setRows db r.id).map (·.elem) from hme)
    exact ⟨x, hx.1, by simp [hx.2]⟩
  have hpred : (fun x : SetRow => x.kid == r.id && [e].contains x.elem)
      = (fun x => x.kid == r.id && x.elem == e) := by
    funext x; simp only [List.contains_cons, List.contains_nil, Bool.or_false]
  have hpred' : (fun x : SetRow => !(x.kid == r.id && [e].contains x.elem))
      = (fun x => !(x.kid == r.id && x.elem == e)) := by
    funext x; simp only [List.contains_cons, List.contains_nil, Bool.or_false]
  have hone : (db.sets.filter (fun x => x.kid == r.id && x.elem == e)).length = 1 := by
    rw [length_filter_kid_elem hw.setUniq, if_pos (List.contains_iff_mem.2 hme)]
  simp only [setPop, hl, hany, if_true, Res.ok, setDelete, hpred, hpred', hone]
  rfl

theorem setPop_refS {db : DB} (hw : SetWF db) (now : Int) (k : Bytes) (o : Option Bytes) :
    RefS now (update (fun x => setPop x k o now) db) (Spec.setPop (abs now db) k o) := by
  unfold Spec.setPop
  simp only [setAt_abs hw.wf]
  cases o with
  | some e =>
    by_cases hm : e ∈ mset db k now
    · have hd := setDelete_refS hw now k [e]
      have : smem (mset db k now) e = true := by simpa [smem] using hm
      simp only [this, if_true]
      exact ⟨by simp [update, setPop_eq_delete hw k e now hm],
        by simp only [update, setPop_eq_delete hw k e now hm]; exact hd.2⟩
    · have hsm : smem (mset db k now) e = false := by simpa [smem] using hm
      have hrun : setPop db k (some e) now = .err .outOfDomain db := by
        unfold setPop
        cases hl : db.liveKeyT k TSet now with
        | none => rfl
        | some r =>
          have hany : (setRows db r.id).any (fun x => x.elem == e) = false := by
            rw [Bool.eq_false_iff]
            intro h
            obtain ⟨x, hx, hxe⟩ := List.any_eq_true.1 h
            apply hm
            rw [mem_mset]
            exact ⟨r, hl, List.mem_map.2 ⟨x, hx, by simpa using hxe⟩⟩
          simp [hany]
      simp only [hsm, Bool.false_eq_true, if_false]
      exact ⟨by simp [update, hrun, Res.err, Spec.skip], by simp [update, hrun, Res.err, Spec.skip]⟩
  | none =>
    have hrun : setPop db k none now
        = if (mset db k now).isEmpty then .err .notFound db else .err .outOfDomain db := by
      unfold setPop mset
      cases hl : db.liveKeyT k TSet now with
      | none => rfl
      | some r => simp [setElems]
    simp only
    cases hemp : (mset db k now).isEmpty with
    | true => exact ⟨by simp [update, hrun, hemp, Res.err, Spec.er], by simp [update, hrun, hemp, Res.err, Spec.er]⟩
    | false =>
      exact ⟨by simp [update, hrun, hemp, Res.err, Spec.skip], by simp [update, hrun, hemp, Res.err, Spec.skip]⟩

theorem setPop_wf {db : DB} (hw : SetWF db) (k : Bytes) (o : Option Bytes) (now : Int) :
    SetWF (setPop db k o now).db := by
  cases o with
  | none =>
    unfold setPop
    cases db.liveKeyT k TSet now with
    | none => exact hw
    | some r => simp only; split <;> exact hw
  | some e =>
    by_cases hm : e ∈ mset db k now
    · rw [setPop_eq_delete hw k e now hm]
      exact setDelete_wf hw k [e] now
    · unfold setPop
      cases hl : db.liveKeyT k TSet now with
      | none => exact hw
      | some r =>
        have hany : (setRows db r.id).any (fun x => x.elem == e) = false := by
          rw [Bool.eq_false_iff]
          intro h
          obtain ⟨x, hx, hxe⟩ := List.any_eq_true.1 h
          apply hm
          rw [mem_mset]
          exact ⟨r, hl, List.mem_map.2 ⟨x, hx, by simpa using hxe⟩⟩
        simp only [hany]
        exact hw

/-! ### move -/

theorem setMove_wf {db : DB} (hw : SetWF db) (s d e : Bytes) (now : Int) :
    SetWF (setMove db s d e now).db := by
  have h1 := setDelete_wf hw s [e] now
  unfold setMove
  simp only
  split
  · exact h1
  · split
    · exact h1
    · have h2 := setAdd_wf h1 d [e] now
      split <;> exact h2
  · exact h1

/-- **Move** is a delete followed by an add, all or nothing. -/
theorem setMove_refS {db : DB} (hw : SetWF db) {now : Int} {d : Bytes}
    (hns : staleKey db now d = false) (s e : Bytes) :
    RefS now (update (fun x => setMove x s d e now) db) (Spec.setMove (abs now db) s d e) := by
  have hdel := setDelete_refS hw now s [e]
  have hw1 := setDelete_wf hw s [e] now
  unfold Spec.setMove
  by_cases hm : e ∈ setAt (abs now db) s
  · have hsm : smem (setAt (abs now db) s) e = true := by simpa [smem] using hm
    simp only [hsm, Bool.not_true, Bool.false_eq_true, if_false]
    rw [setAt_abs hw.wf] at hm
    obtain ⟨r, hl, hme⟩ := mem_mset.1 hm
    -- the delete removes exactly one member
    rcases setDelete_cases hw s [e] now with ⟨h', _⟩ | ⟨r', h', hlen, _⟩ | ⟨r', h', hlen, db1, he, hw1', hfr, hrow, hel⟩
    · rw [hl] at h'; cases h'
    · rw [hl] at h'; cases h'
      exfalso
      have hsub : sdiff (setElems db r.id) [e] = setElems db r.id :=
        List.filter_eq_self.2 (List.length_filter_eq_length_iff.1 hlen)
      have : e ∈ sdiff (setElems db r.id) [e] := by rw [hsub]; exact hme
      simp [mem_sdiff] at this
    · rw [hl] at h'; cases h'
      have hn1 : ((setElems db r.id).length : Int) - (sdiff (setElems db r.id) [e]).length ≠ 0 := by
        have hle : (sdiff (setElems db r.id) [e]).length ≤ (setElems db r.id).length :=
          List.length_filter_le _ _
        omega
      rw [he] at hdel
      -- the destination in the intermediate state
      have hns1 : staleKey db1 now d = false := by
        by_cases hds : d = s
        · subst hds
          rw [hrow.stale now]
          obtain ⟨_, _, hlv⟩ := (liveKeyT_eq_some_iff hw.names).1 hl
          simp [show liveAt now r.etime = true from hlv]
        · rw [hfr.stale hds now]; exact hns
      have hadd := setAdd_refS hw1' hns1 [e]
      have hab : abs now db1 = (Spec.setDelete (abs now db) s [e]).st := hdel.2
      rw [hab] at hadd
      -- the type of the destination is the same before and after the delete
      have hgd : ∀ v et, get (abs now db) d = some ⟨v, et⟩ →
          ∃ v', get (Spec.setDelete (abs now db) s [e]).st d = some ⟨v', et⟩ ∧
            ((∃ m, v = .set m) ↔ ∃ m, v' = .set m) := by
        intro v et hgv
        rw [← hab]
        by_cases hds : d = s
        · subst hds
          rcases sholder hw.wf now d with ⟨_, _, hl'⟩ | ⟨_, _, _, _, hl'⟩ | ⟨r2, _, _, _, hg2, hl'⟩ |
            ⟨_, _, _, _, _, _, _, hl'⟩
          · rw [hl] at hl'; cases hl'
          · rw [hl] at hl'; cases hl'
          · rw [hl] at hl'; cases hl'
            rw [hg2] at hgv; cases hgv
            have hv := hrow.view now
            obtain ⟨_, _, hlv⟩ := (liveKeyT_eq_some_iff hw.names).1 hl
            rw [show liveAt now r.etime = true from hlv, if_pos rfl] at hv
            rw [get_abs_view hw1'.names, hv]
            exact ⟨_, rfl, ⟨fun _ => ⟨_, rfl⟩, fun _ => ⟨_, rfl⟩⟩⟩
          · rw [hl] at hl'; cases hl'
        · rw [get_abs_view hw1'.names, hfr.view hds now, ← get_abs_view hw.names, hgv]
          exact ⟨v, rfl, Iff.rfl⟩
      have hgn : get (abs now db) d = none → get (Spec.setDelete (abs now db) s [e]).st d = none := by
        intro hgv
        rw [← hab]
        have hds : d ≠ s := by
          rintro rfl
          rcases sholder hw.wf now d with ⟨_, _, hl'⟩ | ⟨_, _, _, _, hl'⟩ | ⟨r2, _, _, _, hg2, _⟩ |
            ⟨_, _, _, _, _, _, _, hl'⟩
          · rw [hl] at hl'; cases hl'
          · rw [hl] at hl'; cases hl'
          · rw [hg2] at hgv; cases hgv
          · rw [hl] at hl'; cases hl'
        rw [get_abs_view hw1'.names, hfr.view hds now, ← get_abs_view hw.names, hgv]
      have hrun : setMove db s d e now
          = match (setAdd db1 d [e] now).out with
            | .error er => .err er (setAdd db1 d [e] now).db
            | .ok _ => .ok .nil (setAdd db1 d [e] now).db := by
        have hne : ¬ (((setElems db r.id).length : Int) - (sdiff (setElems db r.id) [e]).length == 0) = true := by
          simpa using hn1
        simp only [setMove, he, Res.ok, hne]
        rfl
      cases hgd' : get (abs now db) d with
      | none =>
        have hg1 := hgn hgd'
        simp only [Spec.setAdd, hg1, Spec.ok] at hadd
        obtain ⟨ha1, ha2⟩ := hadd
        simp only [Spec.setAdd, hg1, Spec.ok]
        exact ⟨by simp [update, hrun, ha1, Res.ok], by simp [update, hrun, ha1, Res.ok, ha2]⟩
      | some en =>
        obtain ⟨v, et⟩ := en
        obtain ⟨v', hg1, hiff⟩ := hgd v et hgd'
        cases v with
        | set m =>
          obtain ⟨m', hm'⟩ := hiff.1 ⟨m, rfl⟩
          subst hm'
          simp only [Spec.setAdd, hg1, Spec.ok] at hadd
          obtain ⟨ha1, ha2⟩ := hadd
          simp only [Spec.setAdd, hg1, Spec.ok]
          exact ⟨by simp [update, hrun, ha1, Res.ok], by simp [update, hrun, ha1, Res.ok, ha2]⟩
        | _ =>
          have hnv : ∀ m, v' ≠ .set m := by
            intro m hm'
            obtain ⟨m2, hm2⟩ := hiff.2 ⟨m, hm'⟩
            cases hm2
          cases v' <;> first | exact absurd rfl (hnv _) |
            (simp only [Spec.setAdd, hg1, Spec.er] at hadd
             obtain ⟨ha1, ha2⟩ := hadd
             exact ⟨by simp [update, hrun, ha1, Res.err, Spec.er], by simp [update, hrun, ha1, Res.err, Spec.er]⟩)
  · have hsm : smem (setAt (abs now db) s) e = false := by simpa [smem] using hm
    simp only [hsm, Bool.not_false, if_true]
    rw [setAt_abs hw.wf] at hm
    have hrun : setDelete db s [e] now = .ok (.int 0) db := by
      rcases setDelete_cases hw s [e] now with ⟨_, h⟩ | ⟨_, _, _, h⟩ | ⟨r, hl, hlen, _⟩
      · exact h
      · exact h
      · exfalso
        apply hlen
        have : sdiff (setElems db r.id) [e] = setElems db r.id := by
          apply List.filter_eq_self.2
          intro x hx
          have : x ≠ e := by
            rintro rfl
            exact hm (mem_mset.2 ⟨r, hl, hx⟩)
          simp [this]
        rw [this]
    exact ⟨by simp [update, setMove, hrun, Res.ok, Res.err, Spec.er],
      by simp [update, setMove, hrun, Res.ok, Res.err, Spec.er]⟩

end Redka.Model.SetRef
