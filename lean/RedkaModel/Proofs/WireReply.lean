/-
  Reply framing: the tokens a command writes form exactly one complete RESP value.

  * `owed`: a counter over a token list; `*n` opens `n` obligations, every other token closes one;
  * every `Run` of `Cmd/Run.lean` writes one complete value unless the model has no claim (`ood`);
  * `EXEC` writes `*n` and then one complete value per queued command — every one of them runs, also after a
    failing one (D12, repaired: the reply used to be short by the number of commands after the first failing one);
  * a well-formed token list is the encoding of a `Resp.Reply` tree, so the strict decoder of
    `Resp.lean` reads it back as exactly one reply with nothing left over.

  Everything lives in `Redka.WireProofs`. Core Lean only.
-/
import RedkaModel.Model.Wire.Server
import RedkaModel.Proofs.Resp
import RedkaModel.Proofs.WirePanic

namespace Redka.WireProofs

open Redka Redka.Wire

/-! ### the counter -/

/-- `owed ts k`: reading the tokens `ts` while `k` complete values are still expected; `some k'`:
all tokens were read and `k'` values are still expected; `none`: a token arrives when nothing is
expected, an array header announces a negative length, or a raw token appears. -/
def owed : List Token → Nat → Option Nat
  | [], k => some k
  | _ :: _, 0 => none
  | t :: ts, k + 1 =>
    match t with
    | .arrayHdr n => if n < 0 then none else owed ts (k + n.toNat)
    | .raw _ => none
    | _ => owed ts k

/-- the token list is exactly `k` complete values -/
def WellFormed (k : Nat) (ts : List Token) : Prop := owed ts k = some 0

/-- the token list is exactly one complete RESP value -/
def wellFormedOne (ts : List Token) : Prop := owed ts 1 = some 0

instance (k : Nat) (ts : List Token) : Decidable (WellFormed k ts) := by
  unfold WellFormed; infer_instance
instance (ts : List Token) : Decidable (wellFormedOne ts) := by
  unfold wellFormedOne; infer_instance

/-- a token that is a complete value on its own -/
def isScalar : Token → Bool
  | .str _ => true
  | .err _ => true
  | .int _ => true
  | .bulk _ => true
  | .null => true
  | _ => false

theorem owed_append (ts us : List Token) (k : Nat) :
    owed (ts ++ us) k = (owed ts k).bind (owed us) := by
  induction ts generalizing k with
  | nil => simp [owed]
  | cons t ts ih =>
    cases k with
    | zero => simp [owed]
    | succ k =>
      cases t <;> simp only [List.cons_append, owed, ih]
      · split <;> simp
      · simp

/-- extra expectations are carried along -/
theorem owed_add (ts : List Token) (k r c : Nat) (h : owed ts k = some r) : owed ts (k + c) = some (r + c) := by
  induction ts generalizing k r with
  | nil => simp only [owed] at h ⊢; cases h; rfl
  | cons t ts ih =>
    cases k with
    | zero => simp [owed] at h
    | succ k =>
      rw [show k + 1 + c = (k + c) + 1 by omega]
      cases t <;> simp only [owed] at h ⊢
      case arrayHdr n =>
        split at h
        · cases h
        · next hn =>
          rw [if_neg hn, show k + c + n.toNat = (k + n.toNat) + c by omega]
          exact ih _ _ h
      all_goals first | exact ih _ _ h | cases h

theorem owed_scalar (t : Token) (ht : isScalar t = true) (ts : List Token) (k : Nat) :
    owed (t :: ts) (k + 1) = owed ts k := by
  cases t <;> first | rfl | cases ht

theorem owed_hdr (n : Nat) (ts : List Token) (k : Nat) :
    owed (.arrayHdr (n : Int) :: ts) (k + 1) = owed ts (k + n) := by
  simp only [owed]
  rw [if_neg (by omega)]
  simp

/-- `n` scalar tokens are `n` complete values -/
theorem owed_scalars (ts : List Token) (h : ts.all isScalar = true) (c : Nat) :
    owed ts (ts.length + c) = some c := by
  induction ts with
  | nil => simp [owed]
  | cons t ts ih =>
    simp only [List.all_cons, Bool.and_eq_true] at h
    rw [show (t :: ts).length + c = (ts.length + c) + 1 by simp; omega, owed_scalar t h.1]
    exact ih h.2

theorem wf_scalar (t : Token) (ht : isScalar t = true) : wellFormedOne [t] := by
  unfold wellFormedOne
  rw [owed_scalar t ht]; rfl

/-- `*n` followed by `n` scalar tokens is one complete value -/
theorem wf_array_scalars (n : Nat) (ts : List Token) (hlen : ts.length = n)
    (h : ts.all isScalar = true) : wellFormedOne (.arrayHdr (n : Int) :: ts) := by
  unfold wellFormedOne
  rw [owed_hdr, ← hlen]
  simpa using owed_scalars ts h 0

/-- concatenating `a` values and `b` values gives `a + b` values -/
theorem WellFormed.append {a b : Nat} {ts us : List Token} (h1 : WellFormed a ts) (h2 : WellFormed b us) :
    WellFormed (a + b) (ts ++ us) := by
  unfold WellFormed at *
  rw [owed_append, owed_add ts a 0 b h1]
  simpa using h2

/-! ### what `Run` writes -/

/-- the tokens of one `Run` are one complete value, unless the model makes no claim -/
def RunOK (r : RunRes) : Prop := r.ood = false → wellFormedOne r.toks

theorem runOK_single (t : Token) (ht : isScalar t = true) (db : DB) (failed : Bool) (bag : Nat) :
    RunOK { toks := [t], db := db, failed := failed, bag := bag } :=
  fun _ => wf_scalar t ht

theorem runOK_ood (db : DB) : RunOK (.outOfDomain db) := fun h => by cases h

/-- the common shape of `Run`: every path writes one complete value -/
theorem call_ok (c : ParsedCmd) (run : Runner) (op : Op) (now : Int) (db : DB)
    (onOk : Val → Option (List Token)) (onErr : Err → Option (List Token × Bool)) (bag : Nat)
    (hok : ∀ v toks, onOk v = some toks → wellFormedOne toks)
    (herr : ∀ e toks f, onErr e = some (toks, f) → wellFormedOne toks) :
    RunOK (call c run op now db onOk onErr bag) := by
  unfold call
  simp only []
  split
  · exact runOK_ood _
  · next e _ _ =>
    split
    · next toks failed he => exact fun _ => herr e toks failed he
    · split
      · exact runOK_ood _
      · exact runOK_single _ rfl _ _ _
  · next v _ =>
    split
    · next toks ho => exact fun _ => hok v toks ho
    · exact runOK_ood _

theorem noErr_ok : ∀ (e : Err) (toks : List Token) (f : Bool),
    (fun _ => none : Err → Option (List Token × Bool)) e = some (toks, f) → wellFormedOne toks := by
  intro e toks f h; cases h

theorem onNotFound_ok (t : Token) (ht : isScalar t = true) : ∀ (e : Err) (toks : List Token) (f : Bool),
    onNotFound [t] e = some (toks, f) → wellFormedOne toks := by
  intro e toks f h
  cases e <;> simp only [onNotFound] at h <;> cases h
  exact wf_scalar t ht

theorem asInt_ok : ∀ v toks, asInt v = some toks → wellFormedOne toks := by
  intro v toks h
  cases v <;> simp only [asInt] at h <;> cases h
  exact wf_scalar _ rfl

theorem asBool_ok : ∀ v toks, asBool v = some toks → wellFormedOne toks := by
  intro v toks h
  cases v <;> simp only [asBool] at h <;> cases h
  exact wf_scalar _ rfl

theorem asOK_ok : ∀ v toks, asOK v = some toks → wellFormedOne toks := by
  intro v toks h
  cases h
  exact wf_scalar _ rfl

theorem vBulk_scalar {v : Val} {t : Token} (h : vBulk v = some t) : isScalar t = true := by
  cases v <;> simp only [vBulk] at h <;> cases h <;> rfl

theorem asBulk_ok : ∀ v toks, asBulk v = some toks → wellFormedOne toks := by
  intro v toks h
  unfold asBulk at h
  cases hv : vBulk v with
  | none => rw [hv] at h; cases h
  | some t => rw [hv] at h; cases h; exact wf_scalar t (vBulk_scalar hv)

theorem floatTok_scalar {s : Score} {t : Token} (h : floatTok s = some t) : isScalar t = true := by
  unfold floatTok at h
  cases hf : formatFloat s with
  | none => rw [hf] at h; cases h
  | some b => rw [hf] at h; cases h; rfl

theorem asFloat_ok : ∀ v toks, asFloat v = some toks → wellFormedOne toks := by
  intro v toks h
  cases v <;> simp only [asFloat] at h <;> try cases h
  next s =>
    cases hf : floatTok s with
    | none => rw [hf] at h; cases h
    | some t => rw [hf] at h; cases h; exact wf_scalar t (floatTok_scalar hf)

theorem const_ok (t : Token) (ht : isScalar t = true) :
    ∀ (v : Val) toks, (fun _ => some [t] : Val → Option (List Token)) v = some toks → wellFormedOne toks := by
  intro v toks h; cases h; exact wf_scalar t ht

/-! arrays -/

theorem vBulks_shape : ∀ (l : List Val) (ts : List Token), vBulks l = some ts →
    ts.length = l.length ∧ ts.all isScalar = true
  | [], ts, h => by simp only [vBulks] at h; cases h; simp
  | v :: vs, ts, h => by
    simp only [vBulks] at h
    cases hv : vBulk v with
    | none => rw [hv] at h; cases h
    | some t =>
      cases hr : vBulks vs with
      | none => rw [hv, hr] at h; cases h
      | some ts' =>
        rw [hv, hr] at h
        cases h
        have := vBulks_shape vs ts' hr
        simp [this.1, this.2, vBulk_scalar hv]

theorem arrayOfBulks_ok : ∀ v toks, arrayOfBulks v = some toks → wellFormedOne toks := by
  intro v toks h
  cases v <;> simp only [arrayOfBulks] at h <;> try cases h
  next l =>
    cases hr : vBulks l with
    | none => rw [hr] at h; cases h
    | some ts =>
      rw [hr] at h
      cases h
      have := vBulks_shape l ts hr
      exact wf_array_scalars _ _ this.1 this.2

theorem keyBulks_shape : ∀ (l : List Val) (ts : List Token), keyBulks l = some ts →
    ts.length = l.length ∧ ts.all isScalar = true
  | [], ts, h => by simp only [keyBulks] at h; cases h; simp
  | v :: vs, ts, h => by
    cases v <;> simp only [keyBulks] at h <;> try cases h
    next r =>
      cases hr : keyBulks vs with
      | none => rw [hr] at h; cases h
      | some ts' =>
        rw [hr] at h
        cases h
        have := keyBulks_shape vs ts' hr
        simp [this.1, this.2, isScalar]

theorem lookupToks_shape (items : List (Bytes × Bytes)) (names : List Bytes) :
    (lookupToks items names).length = names.length ∧ (lookupToks items names).all isScalar = true := by
  unfold lookupToks
  refine ⟨by simp, ?_⟩
  simp only [List.all_map, List.all_eq_true]
  intro n _
  simp only [Function.comp]
  split <;> rfl

theorem pairToks_shape (ps : List (Bytes × Bytes)) :
    (ps.flatMap (fun p => [Token.bulk p.1, Token.bulk p.2])).length = ps.length * 2 ∧
    (ps.flatMap (fun p => [Token.bulk p.1, Token.bulk p.2])).all isScalar = true := by
  induction ps with
  | nil => simp
  | cons p ps ih =>
    simp only [List.flatMap_cons, List.length_append, ih.1, List.all_append, ih.2]
    simp [isScalar]; omega

theorem itemToks_shape : ∀ (items : List (Bytes × Score)) (ts : List Token),
    itemToksWithScores items = some ts → ts.length = items.length * 2 ∧ ts.all isScalar = true
  | [], ts, h => by simp only [itemToksWithScores] at h; cases h; simp
  | (e, s) :: r, ts, h => by
    simp only [itemToksWithScores] at h
    cases hf : floatTok s with
    | none => rw [hf] at h; cases h
    | some f =>
      cases hr : itemToksWithScores r with
      | none => rw [hf, hr] at h; cases h
      | some ts' =>
        rw [hf, hr] at h
        cases h
        have := itemToks_shape r ts' hr
        have hfs := floatTok_scalar hf
        refine ⟨?_, ?_⟩
        · simp only [List.length_cons, this.1]; omega
        · simp only [List.all_cons, this.2, hfs, Bool.and_true]; rfl

theorem writeItems_ok (ws : Bool) : ∀ v toks, writeItems ws v = some toks → wellFormedOne toks := by
  intro v toks h
  cases v <;> simp only [writeItems] at h <;> try cases h
  next l =>
    cases hi : vItems l with
    | none => rw [hi] at h; cases h
    | some items =>
      rw [hi] at h
      simp only [] at h
      cases ws with
      | true =>
        simp only [if_true] at h
        cases hr : itemToksWithScores items with
        | none => rw [hr] at h; cases h
        | some ts =>
          rw [hr] at h
          cases h
          have := itemToks_shape items ts hr
          have := wf_array_scalars (items.length * 2) ts this.1 this.2
          simpa using this
      | false =>
        simp only [Bool.false_eq_true, if_false] at h
        cases h
        refine wf_array_scalars items.length _ (by simp) ?_
        simp [List.all_map, isScalar]

/-- `*2`, the cursor, `*n`, then `n` scalar tokens -/
theorem scanReply_ok (items : List Val → Option (Nat × List Token))
    (hitems : ∀ l p, items l = some p → p.2.length = p.1 ∧ p.2.all isScalar = true) :
    ∀ v toks, scanReply v items = some toks → wellFormedOne toks := by
  intro v toks h
  unfold scanReply at h
  split at h
  · next cur l =>
    cases hi : items l with
    | none => rw [hi] at h; cases h
    | some p =>
      rw [hi] at h
      cases h
      obtain ⟨hl, hs⟩ := hitems l p hi
      unfold wellFormedOne
      show owed (Token.arrayHdr ((2 : Nat) : Int) :: Token.int cur :: Token.arrayHdr ((p.1 : Nat) : Int) :: p.2) (0 + 1) = some 0
      rw [owed_hdr, show 0 + 2 = 1 + 1 by rfl, owed_scalar _ rfl, owed_hdr, ← hl]
      simpa using owed_scalars p.2 hs 0
  · cases h

theorem runOK_toks (toks : List Token) (h : wellFormedOne toks) (db : DB) (failed : Bool) (bag : Nat) :
    RunOK { toks := toks, db := db, failed := failed, bag := bag } := fun _ => h

theorem map_hdr_ok (x : Option (List Token)) (n : Nat) (toks : List Token)
    (hx : ∀ ts, x = some ts → ts.length = n ∧ ts.all isScalar = true)
    (h : Option.map (fun ts => Token.arrayHdr (n : Int) :: ts) x = some toks) : wellFormedOne toks := by
  cases x with
  | none => cases h
  | some ts => cases h; exact wf_array_scalars n ts (hx ts rfl).1 (hx ts rfl).2

theorem map_keyBulks_ok (l : List Val) (toks : List Token)
    (h : Option.map (fun ts => Token.arrayHdr (l.length : Int) :: ts) (keyBulks l) = some toks) :
    wellFormedOne toks :=
  map_hdr_ok _ _ _ (fun ts hts => keyBulks_shape l ts hts) h

theorem map_lookup_ok (keys : List Bytes) (l : List Val) (toks : List Token)
    (h : Option.map (fun items => Token.arrayHdr (keys.length : Int) :: lookupToks items keys) (vPairs l) = some toks) :
    wellFormedOne toks := by
  cases hk : vPairs l with
  | none => rw [hk] at h; cases h
  | some items =>
    rw [hk] at h
    cases h
    exact wf_array_scalars _ _ (lookupToks_shape items keys).1 (lookupToks_shape items keys).2

theorem map_pairs_ok (l : List Val) (toks : List Token)
    (h : Option.map (fun ps : List (Bytes × Bytes) => Token.arrayHdr ((ps.length : Int) * 2) ::
      List.flatMap (fun p => [Token.bulk p.fst, Token.bulk p.snd]) ps) (vPairs l) = some toks) :
    wellFormedOne toks := by
  cases hk : vPairs l with
  | none => rw [hk] at h; cases h
  | some ps =>
    rw [hk] at h
    cases h
    have := wf_array_scalars (ps.length * 2) _ (pairToks_shape ps).1 (pairToks_shape ps).2
    simpa using this

theorem rank_ok (rank : Int) (s : Score) (toks : List Token)
    (h : Option.map (fun f => [Token.arrayHdr 2, Token.int rank, f]) (floatTok s) = some toks) :
    wellFormedOne toks := by
  cases hf : floatTok s with
  | none => rw [hf] at h; cases h
  | some f =>
    rw [hf] at h
    cases h
    exact wf_array_scalars 2 [Token.int rank, f] rfl (by simp only [List.all_cons, floatTok_scalar hf, List.all_nil]; rfl)

theorem scanKeys_items : ∀ (l : List Val) (p : Nat × List Token),
    (fun l => Option.map (fun ts => (l.length, ts)) (keyBulks l)) l = some p →
      p.2.length = p.1 ∧ p.2.all isScalar = true := by
  intro l p h
  simp only [] at h
  cases hk : keyBulks l with
  | none => rw [hk] at h; cases h
  | some ts => rw [hk] at h; cases h; exact keyBulks_shape l ts hk

theorem scanBulks_items : ∀ (l : List Val) (p : Nat × List Token),
    (fun l => Option.map (fun ts => (l.length, ts)) (vBulks l)) l = some p →
      p.2.length = p.1 ∧ p.2.all isScalar = true := by
  intro l p h
  simp only [] at h
  cases hk : vBulks l with
  | none => rw [hk] at h; cases h
  | some ts => rw [hk] at h; cases h; exact vBulks_shape l ts hk

theorem scanPairs_items : ∀ (l : List Val) (p : Nat × List Token),
    (fun l => Option.map (fun ps : List (Bytes × Bytes) =>
      (ps.length * 2, List.flatMap (fun p => [Token.bulk p.fst, Token.bulk p.snd]) ps)) (vPairs l)) l = some p →
      p.2.length = p.1 ∧ p.2.all isScalar = true := by
  intro l p h
  simp only [] at h
  cases hk : vPairs l with
  | none => rw [hk] at h; cases h
  | some ps => rw [hk] at h; cases h; exact pairToks_shape ps

theorem scanItems_items : ∀ (l : List Val) (p : Nat × List Token),
    (fun l => match vItems l with
      | none => none
      | some items => (itemToksWithScores items).map (fun ts => (items.length * 2, ts))) l = some p →
      p.2.length = p.1 ∧ p.2.all isScalar = true := by
  intro l p h
  simp only [] at h
  cases hk : vItems l with
  | none => rw [hk] at h; cases h
  | some items =>
    rw [hk] at h
    simp only [] at h
    cases hi : itemToksWithScores items with
    | none => rw [hi] at h; cases h
    | some ts => rw [hi] at h; cases h; exact itemToks_shape items ts hi

macro "ok_leaf" h:ident : tactic => `(tactic| first
  | cases $h:ident; done
  | (cases $h:ident; exact wf_scalar _ rfl)
  | exact asBulk_ok _ _ $h
  | exact map_keyBulks_ok _ _ $h
  | exact map_lookup_ok _ _ _ $h
  | exact map_pairs_ok _ _ $h
  | exact rank_ok _ _ _ $h
  | exact scanReply_ok _ scanKeys_items _ _ $h
  | exact scanReply_ok _ scanBulks_items _ _ $h
  | exact scanReply_ok _ scanPairs_items _ _ $h
  | exact scanReply_ok _ scanItems_items _ _ $h)

macro "ok_side" : tactic => `(tactic| first
  | exact asInt_ok | exact asBool_ok | exact asOK_ok | exact asBulk_ok | exact asFloat_ok
  | exact arrayOfBulks_ok | exact writeItems_ok _ | exact const_ok _ rfl
  | (intro v toks h; (try simp only [] at h); first | ok_leaf h | ((repeat' split at h) <;> ok_leaf h)))

macro "err_side" : tactic => `(tactic| first
  | exact noErr_ok | exact onNotFound_ok _ rfl
  | (intro e toks f h; (try simp only [] at h); split at h <;> first | (cases h; exact wf_scalar _ rfl) | cases h))

macro "run_leaf" : tactic => `(tactic| first
  | exact runOK_ood _
  | exact runOK_single _ rfl _ _ _
  | exact runOK_toks _ (by decide) _ _ _
  | (apply call_ok
     · ok_side
     · err_side))

/-- **Every command writes exactly one complete value** (or the model makes no claim). -/
theorem run_ok (c : ParsedCmd) (r : Runner) (now : Int) (db : DB) (oracle : Option Bytes) :
    RunOK (run c r now db oracle) := by
  unfold run
  split
  all_goals first | run_leaf | ((repeat' split) <;> run_leaf)

/-! ### the handler chain, one request outside MULTI -/

theorem pop_push (st : ConnState) (pc : ParsedCmd) : (st.push pc).pop = (st, some pc) := by
  simp [ConnState.push, ConnState.pop]

theorem segs_single_toks (toks : List Token) (bag : Nat) :
    List.flatMap (fun s : Seg => s.toks) [{ toks := toks, bag := bag }] = toks := by
  simp

/-- what `handle` returns when the request parses and no transaction is open -/
theorem handleX_single (st : ConnState) (db : DB) (now : Int) (req : List Bytes) (pc : ParsedCmd)
    (hm : st.inMulti = false) (hp : parse req = .ok pc) :
    (handleX st db now req []).toks =
      if isName pc.name "multi" then [okTok]
      else if isName pc.name "exec" then [plainErr .notInMulti]
      else if isName pc.name "discard" then [plainErr .notInMulti]
      else (run pc Model.dbRun now db none).toks := by
  unfold handleX
  rw [hp]
  simp only [afterParse, multiStage]
  have hm' : (st.push pc).inMulti = false := hm
  rw [hm']
  simp only [Bool.false_eq_true, if_false]
  split
  · rfl
  · split
    · rfl
    · split
      · rfl
      · simp [handleNext, hm', handleSingle, pop_push, Out.toks, oracleAt]

theorem handleX_single_ood (st : ConnState) (db : DB) (now : Int) (req : List Bytes) (pc : ParsedCmd)
    (hm : st.inMulti = false) (hp : parse req = .ok pc)
    (h1 : isName pc.name "multi" = false) (h2 : isName pc.name "exec" = false)
    (h3 : isName pc.name "discard" = false) :
    (handleX st db now req []).ood = (run pc Model.dbRun now db none).ood := by
  unfold handleX
  rw [hp]
  simp only [afterParse, multiStage]
  have hm' : (st.push pc).inMulti = false := hm
  rw [hm']
  simp [h1, h2, h3, handleNext, hm', handleSingle, pop_push, oracleAt]

/-- the request is inside what the model covers: no numeric out-of-domain case, nothing the
extractor did not recognise (and not the empty request, which redcon never delivers). A panic is
not excluded here any more: `handleX_noPanic` shows there is none. -/
def InModel (o : Wire.Out) : Prop := o.ood = false ∧ o.unsupported = none

/-- **One reply per request**, outside MULTI. -/
theorem handle_one_reply (st : ConnState) (db : DB) (now : Int) (req : List Bytes)
    (hm : st.inMulti = false) (hin : InModel (handleX st db now req [])) :
    wellFormedOne (handle st db now req).2.2 := by
  show wellFormedOne (handleX st db now req []).toks
  cases hp : parse req with
  | error e => simp only [handleX, hp, Out.toks]; exact wf_scalar _ rfl
  | panic => exact absurd hp (parse_ne_panic req)
  | outOfDomain => have := hin.1; simp [handleX, hp] at this
  | unsupported t => have := hin.2; simp [handleX, hp] at this
  | ok pc =>
    rw [handleX_single st db now req pc hm hp]
    split
    · exact wf_scalar _ rfl
    · split
      · exact wf_scalar _ rfl
      · split
        · exact wf_scalar _ rfl
        · next h1 h2 h3 =>
          apply run_ok pc Model.dbRun now db none
          rw [← handleX_single_ood st db now req pc hm hp (by simpa using h1) (by simpa using h2)
            (by simpa using h3)]
          exact hin.1

/-- **A malformed invocation is answered with an error and changes nothing**: when
`command.Parse` fails, the handler chain writes exactly one error token and leaves the tables and
the connection state (open transaction and queue included) as they were. -/
theorem handle_parse_error (st : ConnState) (db : DB) (now : Int) (req : List Bytes) (e : RErr)
    (h : parse req = .error e) :
    handle st db now req = (st, db, [.err (errorText (asciiBytes e.text) [])]) := by
  simp [handle, handleX, h, Out.toks]

/-- the handler chain itself never panics: only the parser can -/
theorem handleX_panic (st : ConnState) (db : DB) (now : Int) (req : List Bytes)
    (h : (handleX st db now req []).panic = true) : parse req = .panic := by
  unfold handleX at h
  split at h
  · cases h
  · assumption
  · cases h
  · cases h
  · next pc _ =>
    exfalso
    simp only [afterParse, multiStage] at h
    have hpp := pop_push st pc
    repeat' split at h
    all_goals first
      | (cases h; done)
      | (simp only [handleNext, handleSingle, handleMulti, hpp] at h
         repeat' split at h
         all_goals first | (cases h; done) | (simp_all [ConnState.push]; done))

/-- **No request makes the handler chain panic**: the parser never does (`parse_ne_panic`), and
the one modelled panic of the chain itself — `handleSingle` calling `Run` on the `nil` command that
`state.pop()` returns for an empty queue — is unreachable, because `parse` has just pushed the
command (`pop_push`) and `EXEC` inside MULTI goes to `handleMulti`. -/
theorem handleX_noPanic (st : ConnState) (db : DB) (now : Int) (req : List Bytes) :
    (handleX st db now req []).panic = false := by
  cases h : (handleX st db now req []).panic with
  | false => rfl
  | true => exact absurd (handleX_panic st db now req h) (parse_ne_panic req)

/-! ### EXEC -/

/-- After `runQueue` (inside the model's domain): one segment per queued command — every command runs, also
after a failing one (D12, repaired) — and together they are exactly the `n` announced values. -/
theorem runQueue_owed (cmds : List ParsedCmd) (now : Int) (db : DB) (obs : List Token) (pos c : Nat)
    (hood : (runQueue cmds now db obs pos).ood = false) :
    (runQueue cmds now db obs pos).segs.length = cmds.length ∧
    owed ((runQueue cmds now db obs pos).segs.flatMap (·.toks)) (cmds.length + c) = some c := by
  induction cmds generalizing db pos with
  | nil => simp [runQueue, owed]
  | cons pc cs ih =>
    rw [runQueue] at hood ⊢
    simp only [] at hood ⊢
    have hrun := run_ok pc (Model.tx true) now db (oracleAt obs pos)
    by_cases ho : (run pc (Model.tx true) now db (oracleAt obs pos)).ood = true
    · rw [if_pos ho] at hood; cases hood
    · rw [if_neg ho] at hood ⊢
      have hwf := hrun (by simpa using ho)
      obtain ⟨h1, h2⟩ := ih _ _ hood
      refine ⟨by simp [h1], ?_⟩
      simp only [List.flatMap_cons, List.length_cons]
      rw [owed_append, show cs.length + 1 + c = 1 + (cs.length + c) by omega,
        owed_add _ 1 0 (cs.length + c) hwf]
      simp only [Option.bind_some, Nat.zero_add]
      exact h2

/-- the tokens of an `EXEC` inside MULTI: the header, then what the queued commands wrote -/
theorem handleX_exec (st : ConnState) (db : DB) (now : Int) (req : List Bytes) (pc : ParsedCmd)
    (hm : st.inMulti = true) (hp : parse req = .ok pc) (hname : pc.name = asciiBytes "exec") :
    (handleX st db now req []).toks =
      .arrayHdr st.cmds.length :: (runQueue st.cmds now db [] 1).segs.flatMap (·.toks) ∧
    (handleX st db now req []).ood = (runQueue st.cmds now db [] 1).ood := by
  unfold handleX
  rw [hp]
  simp only [afterParse, multiStage]
  have hm' : (st.push pc).inMulti = true := hm
  have h1 : isName pc.name "multi" = false := by rw [hname]; decide
  have h2 : isName pc.name "exec" = true := by rw [hname]; decide
  rw [hm']
  simp [h1, h2, pop_push, handleNext, hm, handleMulti, Out.toks]

/-- **EXEC replies.** Inside MULTI, `EXEC` announces `n` values and writes exactly `n`: its reply is one
complete RESP value whether or not a queued command fails (D12, repaired). -/
theorem exec_owed (st : ConnState) (db : DB) (now : Int) (req : List Bytes) (pc : ParsedCmd)
    (hm : st.inMulti = true) (hp : parse req = .ok pc) (hname : pc.name = asciiBytes "exec")
    (hood : (handleX st db now req []).ood = false) :
    owed (handle st db now req).2.2 1 = some 0 ∧
    (runQueue st.cmds now db [] 1).segs.length = st.cmds.length ∧
    wellFormedOne (handle st db now req).2.2 := by
  obtain ⟨ht, ho⟩ := handleX_exec st db now req pc hm hp hname
  have hq := runQueue_owed st.cmds now db [] 1 0 (by rw [← ho]; exact hood)
  have e : owed (handle st db now req).2.2 1 = some 0 := by
    show owed (handleX st db now req []).toks (0 + 1) = _
    rw [ht, owed_hdr]
    simpa using hq.2
  exact ⟨e, hq.1, e⟩

/-! ### inside MULTI, other than EXEC -/

/-- Inside MULTI a request that parses is answered with exactly one token and never touches the
tables: `QUEUED` (the command is appended to the queue), an error for a nested `MULTI`, `OK` for
`DISCARD` (the queue is dropped). -/
theorem handleX_in_multi (st : ConnState) (db : DB) (now : Int) (req : List Bytes) (pc : ParsedCmd)
    (hm : st.inMulti = true) (hp : parse req = .ok pc) (hne : isName pc.name "exec" = false) :
    handle st db now req =
      if isName pc.name "multi" then (st, db, [plainErr .nestedMulti])
      else if isName pc.name "discard" then ({ inMulti := false, cmds := [] }, db, [okTok])
      else ({ st with cmds := st.cmds ++ [pc] }, db, [.str (asciiBytes "QUEUED")]) := by
  unfold handle handleX
  rw [hp]
  simp only [afterParse, multiStage]
  have hm' : (st.push pc).inMulti = true := hm
  rw [hm']
  simp only [if_true, hne, Bool.false_eq_true, if_false]
  split
  · simp [pop_push, Out.toks]
  · split
    · simp [Out.toks, ConnState.clear, ConnState.push]
    · simp [Out.toks, ConnState.push]

theorem handle_in_multi_one_reply (st : ConnState) (db : DB) (now : Int) (req : List Bytes)
    (pc : ParsedCmd) (hm : st.inMulti = true) (hp : parse req = .ok pc)
    (hne : isName pc.name "exec" = false) :
    wellFormedOne (handle st db now req).2.2 ∧ (handle st db now req).2.1 = db := by
  rw [handleX_in_multi st db now req pc hm hp hne]
  split
  · exact ⟨wf_scalar _ rfl, rfl⟩
  · split
    · exact ⟨wf_scalar _ rfl, rfl⟩
    · exact ⟨wf_scalar _ rfl, rfl⟩

/-! ### pipelines -/

/-- the replies of a pipeline, one complete value each, are together as many complete values -/
theorem wellFormed_flatten (l : List (List Token)) (h : ∀ ts ∈ l, wellFormedOne ts) :
    WellFormed l.length l.flatten := by
  induction l with
  | nil => rfl
  | cons ts l ih =>
    have h1 : WellFormed 1 ts := h ts (by simp)
    have := WellFormed.append h1 (ih (fun us hus => h us (by simp [hus])))
    simpa [Nat.add_comm] using this

/-! ### from tokens to bytes (redcon `resp.go`) -/

open Redka.Resp in
/-- the bytes one `redis.Writer` call appends -/
def encodeToken : Token → Bytes
  | .str s => 43 :: (stripNewlines s ++ crlf)
  | .err s => 45 :: (stripNewlines s ++ crlf)
  | .int i => appendPrefix 58 i
  | .bulk b => appendPrefix 36 (b.length : Int) ++ (b ++ crlf)
  | .null => [36, 45, 49, 13, 10]
  | .arrayHdr n => appendPrefix 42 n
  | .raw b => b

/-- the bytes of a token list on the wire -/
def encodeTokens (ts : List Token) : Bytes := ts.flatMap encodeToken

open Redka.Resp in
/-- the reply a scalar token is (with CR and LF in status and error lines already replaced, as
redcon's writer does) -/
def scalarReply : Token → Reply
  | .str s => .simple (stripNewlines s)
  | .err s => .err (stripNewlines s)
  | .int i => .int i
  | .bulk b => .bulk b
  | _ => .null

theorem strip_clean (s : Bytes) :
    (Resp.stripNewlines s).contains 13 = false ∧ (Resp.stripNewlines s).contains 10 = false := by
  have key : ∀ c ∈ Resp.stripNewlines s, c ≠ 13 ∧ c ≠ 10 := by
    intro c hc
    unfold Resp.stripNewlines at hc
    obtain ⟨d, _, rfl⟩ := List.mem_map.mp hc
    by_cases h : d = 13 ∨ d = 10
    · rw [if_pos h]; decide
    · rw [if_neg h]; exact ⟨fun e => h (.inl e), fun e => h (.inr e)⟩
  constructor
  · cases hh : (Resp.stripNewlines s).contains 13 with
    | false => rfl
    | true => exact absurd rfl (key 13 (by simpa using hh)).1
  · cases hh : (Resp.stripNewlines s).contains 10 with
    | false => rfl
    | true => exact absurd rfl (key 10 (by simpa using hh)).2

theorem scalarReply_spec (t : Token) (ht : isScalar t = true) :
    Resp.Clean (scalarReply t) ∧ Resp.encode (scalarReply t) = encodeToken t := by
  cases t with
  | str s =>
    have := strip_clean s
    refine ⟨by show Resp.isClean _ = true; simp only [scalarReply, Resp.isClean, this.1, this.2]; rfl, ?_⟩
    simp [scalarReply, Resp.encode, encodeToken, Resp.stripNewlines_of_clean this.1 this.2]
  | err s =>
    have := strip_clean s
    refine ⟨by show Resp.isClean _ = true; simp only [scalarReply, Resp.isClean, this.1, this.2]; rfl, ?_⟩
    simp [scalarReply, Resp.encode, encodeToken, Resp.stripNewlines_of_clean this.1 this.2]
  | int i => exact ⟨rfl, rfl⟩
  | bulk b => exact ⟨rfl, rfl⟩
  | null => exact ⟨rfl, rfl⟩
  | arrayHdr n => cases ht
  | raw b => cases ht

/-- **Tokens to reply trees.** A token list that is `k` complete values is, byte for byte, the
encoding of `k` reply trees, each free of CR/LF in its status and error lines. -/
theorem wellFormed_replies (ts : List Token) (k : Nat) (h : WellFormed k ts) :
    ∃ rs : List Resp.Reply, rs.length = k ∧ (∀ r ∈ rs, Resp.Clean r) ∧
      encodeTokens ts = rs.flatMap Resp.encode := by
  unfold WellFormed at h
  induction ts generalizing k with
  | nil => simp only [owed] at h; cases h; exact ⟨[], rfl, by simp, rfl⟩
  | cons t ts ih =>
    cases k with
    | zero => simp [owed] at h
    | succ k =>
      by_cases hs : isScalar t = true
      · rw [owed_scalar t hs] at h
        obtain ⟨rs, hl, hc, he⟩ := ih k h
        obtain ⟨hc1, he1⟩ := scalarReply_spec t hs
        refine ⟨scalarReply t :: rs, by simp [hl], ?_, ?_⟩
        · intro r hr
          rcases List.mem_cons.mp hr with rfl | hr
          · exact hc1
          · exact hc r hr
        · simp [encodeTokens, he1] at he ⊢
          exact he
      · cases t with
        | arrayHdr n =>
          simp only [owed] at h
          split at h
          · cases h
          · next hn =>
            obtain ⟨rs, hl, hc, he⟩ := ih _ h
            have hlen : (rs.take n.toNat).length = n.toNat := by simp [hl]
            refine ⟨.array (rs.take n.toNat) :: rs.drop n.toNat, by simp [hl], ?_, ?_⟩
            · intro r hr
              rcases List.mem_cons.mp hr with rfl | hr
              · show Resp.isClean (.array _) = true
                rw [Resp.isClean, Resp.isCleanList_iff]
                exact fun r hr => hc r (List.mem_of_mem_take hr)
              · exact hc r (List.mem_of_mem_drop hr)
            · have hn' : ((n.toNat : Nat) : Int) = n := Int.toNat_of_nonneg (by omega)
              simp only [encodeTokens, List.flatMap_cons, encodeToken, Resp.encode, hlen, hn',
                Resp.encodeList_eq_flatMap] at he ⊢
              rw [he, List.append_assoc, ← List.flatMap_append, List.take_append_drop]
        | raw b => simp [owed] at h
        | _ => exact absurd rfl hs

/-- **On the wire.** A token list that is exactly one complete value is read by the strict RESP
decoder as exactly one reply, and whatever bytes follow it are left untouched. -/
theorem wellFormedOne_decodes (ts : List Token) (h : wellFormedOne ts) :
    ∃ r : Resp.Reply, Resp.Clean r ∧ encodeTokens ts = Resp.encode r ∧
      ∀ rest : Bytes, Resp.decode (encodeTokens ts ++ rest) = some (r, rest) := by
  obtain ⟨rs, hl, hc, he⟩ := wellFormed_replies ts 1 h
  match rs, hl with
  | [r], _ =>
    have hcr := hc r (by simp)
    refine ⟨r, hcr, by simpa using he, fun rest => ?_⟩
    rw [he]
    simpa using Resp.decode_encode_append r hcr rest

/-- a stream of `k` complete values is read as exactly `k` replies, to the last byte -/
theorem wellFormed_stream (ts : List Token) (k : Nat) (h : WellFormed k ts) :
    ∃ rs : List Resp.Reply, rs.length = k ∧ Resp.decodeAll (encodeTokens ts) = some rs := by
  obtain ⟨rs, hl, hc, he⟩ := wellFormed_replies ts k h
  exact ⟨rs, hl, by rw [he]; exact Resp.decodeAll_flatMap rs hc⟩

end Redka.WireProofs
