/-
  Each operation of `internal/rhash` against its specification (`Refines`), and the preservation
  of the invariant part `HWF`.
-/
import RedkaModel.Proofs.HashRef

namespace Redka.HashRef

open Redka Redka.Model Redka.Spec Redka.DB Redka.Scan

/-! ### the guarded reads of the model, by what sits at the name -/

theorem hashGetRaw_some {db : DB} {k : Bytes} {now : Int} {r : KeyRow}
    (hk : db.liveKeyT k THash now = some r) (f : Bytes) :
    hashGetRaw db k f now = hfind db.hashes r.id f := by
  simp [hashGetRaw, hk, hfind]

theorem hashGetRaw_none {db : DB} {k : Bytes} {now : Int} (hk : db.liveKeyT k THash now = none)
    (f : Bytes) : hashGetRaw db k f now = none := by
  simp [hashGetRaw, hk]

theorem hashCountRaw_some {db : DB} {k : Bytes} {now : Int} {r : KeyRow}
    (hk : db.liveKeyT k THash now = some r) (fs : List Bytes) :
    hashCountRaw db k fs now
      = ((db.hashes.filter (fun x => x.kid == r.id && fs.contains x.field)).length : Int) := by
  simp [hashCountRaw, hk]

theorem hashCountRaw_none {db : DB} {k : Bytes} {now : Int} (hk : db.liveKeyT k THash now = none)
    (fs : List Bytes) : hashCountRaw db k fs now = 0 := by
  simp [hashCountRaw, hk]

theorem countOne_isNone {hs : List HashRow} (h : PairNodup hs) (id : Int) (f : Bytes) :
    (((hs.filter (fun x => x.kid == id && [f].contains x.field)).length : Int) == 0)
      = (aget (hview hs id) f).isNone := by
  rw [aget_hview h]
  have hz := count_one_eq_zero hs id f
  cases hf : hfind hs id f with
  | none => rw [hz.2 hf]; rfl
  | some v =>
    have : (hs.filter (fun x => x.kid == id && [f].contains x.field)).length ≠ 0 := by
      intro h0; rw [hz.1 h0] at hf; cases hf
    simp only [Option.isNone_some, beq_eq_false_iff_ne, ne_eq, Int.natCast_eq_zero]
    exact this

theorem countOne_pos {hs : List HashRow} (h : PairNodup hs) (id : Int) (f : Bytes) :
    decide (((hs.filter (fun x => x.kid == id && [f].contains x.field)).length : Int) > 0)
      = (aget (hview hs id) f).isSome := by
  rw [aget_hview h]
  have hz := count_one_eq_zero hs id f
  cases hf : hfind hs id f with
  | none => rw [hz.2 hf]; rfl
  | some v =>
    have : (hs.filter (fun x => x.kid == id && [f].contains x.field)).length ≠ 0 := by
      intro h0; rw [hz.1 h0] at hf; cases hf
    simp only [Option.isSome_some, decide_eq_true_eq]
    omega

/-- the rows the model enumerates are the field map the abstraction holds -/
theorem liveRows_view {db : DB} (hw : db.WF) (now : Int) (k : Bytes) :
    (hashLiveRows db k now).map (fun x => (x.field, x.value)) = hashAt (abs now db) k := by
  rcases hholder hw now k with ⟨_, hg, hk⟩ | ⟨_, _, _, hg, hk⟩ | ⟨r, _, _, _, hg, hk⟩ |
    ⟨r, v, _, _, _, hg, hv, hk⟩
  · simp [hashLiveRows, hashAt, hg, hk]
  · simp [hashLiveRows, hashAt, hg, hk]
  · simp [hashLiveRows, hashAt, hg, hk, hashRows_view]
  · cases v <;> first | exact absurd rfl (hv _) | simp [hashLiveRows, hashAt, hg, hk]

/-! ### reads -/

theorem hashItems_refines {db : DB} (hw : db.WF) (now : Int) (k : Bytes) :
    Refines now (Model.hashItems db k now) (Spec.ok (.list ((hashAt (abs now db) k).map Spec.pairVal))
      (abs now db)) := by
  refine ⟨?_, by simp [Model.hashItems, Res.ok, Spec.ok, purge_abs hw.names]⟩
  simp only [Model.hashItems, Res.ok, Spec.ok]
  rw [← liveRows_view hw now k, List.map_map]
  rfl

theorem hashFields_refines {db : DB} (hw : db.WF) (now : Int) (k : Bytes) :
    Refines now (Model.hashFields db k now)
      (Spec.ok (Spec.bytesList ((hashAt (abs now db) k).map (·.1))) (abs now db)) := by
  refine ⟨?_, by simp [Model.hashFields, Res.ok, Spec.ok, purge_abs hw.names]⟩
  simp only [Model.hashFields, Res.ok, Spec.ok, Spec.bytesList]
  rw [← liveRows_view hw now k, List.map_map, List.map_map]
  rfl

theorem hashValues_refines {db : DB} (hw : db.WF) (now : Int) (k : Bytes) :
    Refines now (Model.hashValues db k now)
      (Spec.ok (Spec.bytesList (sortBy bytesLt ((hashAt (abs now db) k).map (·.2)))) (abs now db)) := by
  refine ⟨?_, by simp [Model.hashValues, Res.ok, Spec.ok, purge_abs hw.names]⟩
  simp only [Model.hashValues, Res.ok, Spec.ok, Spec.bytesList]
  rw [← liveRows_view hw now k, List.map_map]
  rfl

theorem hashGetMany_refines {db : DB} (hw : db.WF) (now : Int) (k : Bytes) (fs : List Bytes) :
    Refines now (Model.hashGetMany db k fs now)
      (Spec.ok (.list (((hashAt (abs now db) k).filter (fun p => fs.contains p.1)).map Spec.pairVal))
        (abs now db)) := by
  refine ⟨?_, by simp [Model.hashGetMany, Res.ok, Spec.ok, purge_abs hw.names]⟩
  simp only [Model.hashGetMany, Res.ok, Spec.ok]
  rw [← liveRows_view hw now k, List.filter_map, List.map_map]
  rfl

theorem hashGet_refines {db : DB} (hw : HWF db) (now : Int) (k f : Bytes) :
    Refines now (Model.hashGet db k f now) (Spec.hashGet (abs now db) k f) := by
  unfold Refines
  rcases hholder hw.wf now k with ⟨_, hg, hk⟩ | ⟨_, _, _, hg, hk⟩ | ⟨r, _, _, _, hg, hk⟩ |
    ⟨r, v, _, _, _, hg, hv, hk⟩
  · simp [Model.hashGet, hashGetRaw_none hk, Spec.hashGet, hashAt, hg, aget_nil, Res.err, Spec.er,
      purge_abs hw.wf.names]
  · simp [Model.hashGet, hashGetRaw_none hk, Spec.hashGet, hashAt, hg, aget_nil, Res.err, Spec.er,
      purge_abs hw.wf.names]
  · simp only [Model.hashGet, hashGetRaw_some hk, Spec.hashGet, hashAt, hg, ← aget_hview hw.pairs]
    cases aget (hview db.hashes r.id) f <;>
      simp [Res.err, Res.ok, Spec.er, Spec.ok, purge_abs hw.wf.names]
  · cases v <;> first | exact absurd rfl (hv _) |
      simp [Model.hashGet, hashGetRaw_none hk, Spec.hashGet, hashAt, hg, aget_nil, Res.err, Spec.er,
        purge_abs hw.wf.names]

theorem hashExists_refines {db : DB} (hw : HWF db) (now : Int) (k f : Bytes) :
    Refines now (Model.hashExists db k f now)
      (Spec.ok (.bool (aget (hashAt (abs now db) k) f).isSome) (abs now db)) := by
  unfold Refines
  rcases hholder hw.wf now k with ⟨_, hg, hk⟩ | ⟨_, _, _, hg, hk⟩ | ⟨r, _, _, _, hg, hk⟩ |
    ⟨r, v, _, _, _, hg, hv, hk⟩
  · simp [Model.hashExists, hashCountRaw_none hk, hashAt, hg, aget_nil, Res.ok, Spec.ok,
      purge_abs hw.wf.names]
  · simp [Model.hashExists, hashCountRaw_none hk, hashAt, hg, aget_nil, Res.ok, Spec.ok,
      purge_abs hw.wf.names]
  · simp only [Model.hashExists, hashCountRaw_some hk, hashAt, hg, countOne_pos hw.pairs, Res.ok,
      Spec.ok, purge_abs hw.wf.names, and_self]
  · cases v <;> first | exact absurd rfl (hv _) |
      simp [Model.hashExists, hashCountRaw_none hk, hashAt, hg, aget_nil, Res.ok, Spec.ok,
        purge_abs hw.wf.names]

theorem hashLen_refines {db : DB} (hw : HWF db) (now : Int) (k : Bytes) :
    Refines now (Model.hashLen db k now)
      (Spec.ok (.int (hashAt (abs now db) k).length) (abs now db)) := by
  unfold Refines
  rcases hholder hw.wf now k with ⟨_, hg, hk⟩ | ⟨_, _, _, hg, hk⟩ | ⟨r, hf, _, ht, hg, hk⟩ |
    ⟨r, v, _, _, _, hg, hv, hk⟩
  · simp [Model.hashLen, hk, hashAt, hg, Res.ok, Spec.ok, purge_abs hw.wf.names]
  · simp [Model.hashLen, hk, hashAt, hg, Res.ok, Spec.ok, purge_abs hw.wf.names]
  · have hl := hw.len r (findKey_mem hf).1 ht
    simp [Model.hashLen, hk, hl, hashAt, hg, length_hview, Res.ok, Spec.ok, purge_abs hw.wf.names]
  · cases v <;> first | exact absurd rfl (hv _) |
      simp [Model.hashLen, hk, hashAt, hg, Res.ok, Spec.ok, purge_abs hw.wf.names]

/-! ### `tx.set` against the abstraction -/

theorem setTx_absent {db : DB} (hw : HWF db) {k : Bytes} (h : db.findKey k = none) (f v : Bytes)
    (now : Int) :
    ∃ db2, hashSetTx db k f v now = .ok db2 ∧ HWF db2 ∧
      abs now db2 = put (abs now db) k ⟨.hash [(f, v)], none⟩ := by
  obtain ⟨db2, r2, he, hw2, het, hwr⟩ := hashSetTx_new hw h f v now
  refine ⟨db2, he, hw2, ?_⟩
  rw [hwr.abs hw.wf.names hw2.wf.names now, het]
  exact purge_put_live (sorted_abs hw.wf.names now) (purge_abs hw.wf.names now) k rfl

theorem setTx_present {db : DB} (hw : HWF db) {k : Bytes} {old : KeyRow}
    (h : db.findKey k = some old) (ht : old.ty = THash) (f v : Bytes) (now : Int) :
    ∃ db2, hashSetTx db k f v now = .ok db2 ∧ HWF db2 ∧
      abs now db2
        = purge now (put (abs now db) k ⟨.hash (aput (hview db.hashes old.id) f v), old.etime⟩) := by
  obtain ⟨db2, r2, he, hw2, het, hwr⟩ := hashSetTx_old hw h ht f v now
  refine ⟨db2, he, hw2, ?_⟩
  rw [hwr.abs hw.wf.names hw2.wf.names now, het]

/-- on a visible hash the write needs no `purge` -/
theorem setTx_visible {db : DB} (hw : HWF db) {now : Int} {k : Bytes} {h : List (Bytes × Bytes)}
    {et : Option Int} (hg : get (abs now db) k = some ⟨.hash h, et⟩) (f v : Bytes) :
    ∃ db2, hashSetTx db k f v now = .ok db2 ∧ HWF db2 ∧
      abs now db2 = put (abs now db) k ⟨.hash (aput h f v), et⟩ := by
  rcases hholder hw.wf now k with ⟨_, hg', _⟩ | ⟨_, _, _, hg', _⟩ | ⟨r, hf, hl, ht, hg', _⟩ |
    ⟨r, w, _, _, _, hg', hv, _⟩
  · rw [hg'] at hg; cases hg
  · rw [hg'] at hg; cases hg
  · rw [hg'] at hg
    simp only [Option.some.injEq, Entry.mk.injEq, SVal.hash.injEq] at hg
    obtain ⟨rfl, rfl⟩ := hg
    obtain ⟨db2, he, hw2, ha⟩ := setTx_present hw hf ht f v now
    refine ⟨db2, he, hw2, ?_⟩
    rw [ha]
    exact purge_put_live (sorted_abs hw.wf.names now) (purge_abs hw.wf.names now) k hl
  · rw [hg'] at hg
    simp only [Option.some.injEq, Entry.mk.injEq] at hg
    exact absurd hg.1 (hv _)

theorem HHolder.not_stale {now : Int} {db : DB} {k : Bytes} {r : KeyRow}
    (hns : staleKey db now k = false) (h : db.findKey k = some r) (hl : r.live now = false) : False := by
  simp [staleKey, h, hl] at hns

/-! ### single-field writes -/

theorem hashSet_refines {db : DB} (hw : HWF db) {now : Int} {k : Bytes}
    (hns : staleKey db now k = false) (f v : Bytes) :
    Refines now (update (fun d => Model.hashSet d k f v now) db) (Spec.hashSet (abs now db) k f v) := by
  unfold Refines
  rcases hholder hw.wf now k with ⟨h, hg, hk⟩ | ⟨_, h, hl, _, _⟩ | ⟨r, h, _, ht, hg, hk⟩ |
    ⟨r, w, h, _, ht, hg, hv, hk⟩
  · obtain ⟨db2, he, hw2, ha⟩ := setTx_absent hw h f v now
    simp only [update, Model.hashSet, hashCountRaw_none hk, he, Res.ok, Spec.hashSet, hg, Spec.ok]
    exact ⟨rfl, by rw [← ha, purge_abs hw2.wf.names]⟩
  · exact (HHolder.not_stale hns h hl).elim
  · obtain ⟨db2, he, _, ha⟩ := setTx_present hw h ht f v now
    simp only [update, Model.hashSet, hashCountRaw_some hk, he, Res.ok, Spec.hashSet, hg, Spec.ok,
      ha, countOne_isNone hw.pairs, and_self]
  · have he := hashSetTx_other (f := f) (v := v) (now := now) h ht
    cases w <;> first | exact absurd rfl (hv _) |
      simp [update, Model.hashSet, he, Res.err, Spec.hashSet, hg, Spec.er, purge_abs hw.wf.names]

theorem hashSetNX_refines {db : DB} (hw : HWF db) {now : Int} {k : Bytes}
    (hns : staleKey db now k = false) (f v : Bytes) :
    Refines now (update (fun d => Model.hashSetNotExists d k f v now) db)
      (Spec.hashSetNX (abs now db) k f v) := by
  unfold Refines
  rcases hholder hw.wf now k with ⟨h, hg, hk⟩ | ⟨_, h, hl, _, _⟩ | ⟨r, h, _, ht, hg, hk⟩ |
    ⟨r, w, h, _, ht, hg, hv, hk⟩
  · obtain ⟨db2, he, hw2, ha⟩ := setTx_absent hw h f v now
    have hm : Model.hashSetNotExists db k f v now = ⟨.ok (.bool true), db2⟩ := by
      simp [Model.hashSetNotExists, hashCountRaw_none hk, he, Res.ok]
    simp only [update, hm, Spec.hashSetNX, hg, Spec.ok]
    exact ⟨trivial, by rw [← ha, purge_abs hw2.wf.names]⟩
  · exact (HHolder.not_stale hns h hl).elim
  · obtain ⟨db2, he, _, ha⟩ := setTx_present hw h ht f v now
    have hc := countOne_pos hw.pairs r.id f
    cases hs : (aget (hview db.hashes r.id) f).isSome with
    | true =>
      rw [hs] at hc
      have hc := of_decide_eq_true hc
      have hm : Model.hashSetNotExists db k f v now = ⟨.ok (.bool false), db⟩ := by
        simp only [Model.hashSetNotExists, hashCountRaw_some hk]
        rw [if_pos hc]; rfl
      simp only [update, hm, Spec.hashSetNX, hg, hs, if_true, Spec.ok]
      exact ⟨trivial, (purge_abs hw.wf.names now).symm⟩
    | false =>
      rw [hs] at hc
      have hc := of_decide_eq_false hc
      have hm : Model.hashSetNotExists db k f v now = ⟨.ok (.bool true), db2⟩ := by
        simp only [Model.hashSetNotExists, hashCountRaw_some hk]
        rw [if_neg hc, he]; rfl
      simp only [update, hm, Spec.hashSetNX, hg, hs, Bool.false_eq_true, if_false, Spec.ok]
      exact ⟨trivial, ha⟩
  · have he := hashSetTx_other (f := f) (v := v) (now := now) h ht
    cases w <;> first | exact absurd rfl (hv _) |
      simp [update, Model.hashSetNotExists, hashCountRaw_none hk, he, Res.err, Spec.hashSetNX, hg,
        Spec.er, purge_abs hw.wf.names]

theorem hashIncr_refines {db : DB} (hw : HWF db) {now : Int} {k : Bytes}
    (hns : staleKey db now k = false) (f : Bytes) (d : Int) (hd : inInt64 d = true)
    (hov : ∀ b n, hashGetRaw db k f now = some b → valueInt b = some n → inInt64 (n + d) = true) :
    Refines now (update (fun x => Model.hashIncr x k f d now) db) (Spec.hashIncr (abs now db) k f d) := by
  unfold Refines
  have hv0 : valueInt [] = some 0 := rfl
  have hd0 : wrap64 (0 + d) = d := by rw [Int.zero_add]; exact wrap64_of_inInt64 hd
  rcases hholder hw.wf now k with ⟨h, hg, hk⟩ | ⟨_, h, hl, _, _⟩ | ⟨r, h, _, ht, hg, hk⟩ |
    ⟨r, w, h, _, ht, hg, hv, hk⟩
  · obtain ⟨db2, he, hw2, ha⟩ := setTx_absent hw h f (itoa d) now
    have hm : Model.hashIncr db k f d now = ⟨.ok (.int d), db2⟩ := by
      simp only [Model.hashIncr, hashGetRaw_none hk, Option.getD_none, hv0, hd0, he, Res.ok]
    simp only [update, hm, Spec.hashIncr, hg, Spec.ok]
    exact ⟨trivial, by rw [← ha, purge_abs hw2.wf.names]⟩
  · exact (HHolder.not_stale hns h hl).elim
  · have hraw := hashGetRaw_some hk f
    rw [← aget_hview hw.pairs] at hraw
    simp only [update, Model.hashIncr, Spec.hashIncr, hg, hraw]
    cases hvi : valueInt ((aget (hview db.hashes r.id) f).getD []) with
    | none => simp [Res.err, Spec.er, purge_abs hw.wf.names]
    | some n =>
      have hw64 : wrap64 (n + d) = n + d := by
        cases hgf : aget (hview db.hashes r.id) f with
        | none =>
          rw [hgf] at hvi
          simp only [Option.getD_none, hv0, Option.some.injEq] at hvi
          rw [← hvi]; exact hd0.trans (Int.zero_add d).symm
        | some b =>
          rw [hgf] at hvi hraw
          exact wrap64_of_inInt64 (hov b n hraw hvi)
      obtain ⟨db2, he, _, ha⟩ := setTx_present hw h ht f (itoa (n + d)) now
      simp [hw64, he, Res.ok, Spec.ok, ha]
  · have he := fun v => hashSetTx_other (f := f) (v := v) (now := now) h ht
    cases w <;> first | exact absurd rfl (hv _) |
      simp [update, Model.hashIncr, hashGetRaw_none hk, hv0, he, Res.err, Spec.hashIncr, hg,
        Spec.er, purge_abs hw.wf.names]

/-- whether `sqlSet1` (the key upsert of `tx.set`) fails depends only on what holds the name -/
theorem hashSetKey_ok_of_absent {db : DB} {k : Bytes} (now : Int) (h : db.findKey k = none) :
    ∃ x, hashSetKey db k now = .ok x := by
  unfold hashSetKey; rw [keyUpsert_new h]; exact ⟨_, rfl⟩

theorem hashSetKey_ok_of_hash {db : DB} {k : Bytes} (now : Int) {r : KeyRow} (h : db.findKey k = some r)
    (ht : r.ty = THash) : ∃ x, hashSetKey db k now = .ok x := by
  unfold hashSetKey; rw [keyUpsert_old h ht]; exact ⟨_, rfl⟩

theorem hashSetKey_err_of_other {db : DB} {k : Bytes} (now : Int) {r : KeyRow} (h : db.findKey k = some r)
    (ht : r.ty ≠ THash) : hashSetKey db k now = .error .keyType := by
  unfold hashSetKey; exact keyUpsert_other h ht

/-- Float increment of a hash field against the specification (numeric domain as for strings:
`valueFloat`, `formatFloatDec`; a missing field counts as zero; outside the domain both sides say
"not decided" and nothing changes). -/
theorem hashIncrFloat_refines {db : DB} (hw : HWF db) {now : Int} {k : Bytes}
    (hns : staleKey db now k = false) (f : Bytes) (d : Dyadic) :
    Refines now (update (fun x => Model.hashIncrFloat x k f d now) db)
      (Spec.hashIncrFloat (abs now db) k f d) := by
  unfold Refines
  have hv0 : valueFloat [] = .val .zero := rfl
  have hz : Dyadic.zero + d = d := rfl
  rcases hholder hw.wf now k with ⟨h, hg, hk⟩ | ⟨_, h, hl, _, _⟩ | ⟨r, h, _, ht, hg, hk⟩ |
    ⟨r, w, h, _, ht, hg, hv, hk⟩
  · cases hf : formatFloatDec (f64add .zero d) with
    | none =>
      obtain ⟨x, hx⟩ := hashSetKey_ok_of_absent now h
      have hf0 : formatFloatDec (f64add 0 d) = none := hf
      simp [update, Model.hashIncrFloat, hashGetRaw_none hk, hv0, hz, hf0, hx, Res.err, Spec.hashIncrFloat,
        hg, Spec.skip, purge_abs hw.wf.names]
    | some txt =>
      obtain ⟨db2, he, hw2, ha⟩ := setTx_absent hw h f txt now
      have hm : Model.hashIncrFloat db k f d now = ⟨.ok (.score (.fin (f64add .zero d))), db2⟩ := by
        simp only [Model.hashIncrFloat, hashGetRaw_none hk, Option.getD_none, hv0, hf, he, Res.ok]
      simp only [update, hm, Spec.hashIncrFloat, hg, hf, Spec.ok]
      exact ⟨trivial, by rw [← ha, purge_abs hw2.wf.names]⟩
  · exact (HHolder.not_stale hns h hl).elim
  · have hraw := hashGetRaw_some hk f
    rw [← aget_hview hw.pairs] at hraw
    simp only [update, Model.hashIncrFloat, Spec.hashIncrFloat, hg, hraw]
    cases hvf : valueFloat ((aget (hview db.hashes r.id) f).getD []) with
    | invalid => simp [Res.err, Spec.er, purge_abs hw.wf.names]
    | unknown => simp [Res.err, Spec.skip, purge_abs hw.wf.names]
    | val x =>
      cases hf : formatFloatDec (f64add x d) with
      | none =>
        obtain ⟨y, hy⟩ := hashSetKey_ok_of_hash now h ht
        simp [hf, hy, Res.err, Spec.skip, purge_abs hw.wf.names]
      | some txt =>
        obtain ⟨db2, he, _, ha⟩ := setTx_present hw h ht f txt now
        simp [hf, he, Res.ok, Spec.ok, ha]
  · have he := fun v => hashSetTx_other (f := f) (v := v) (now := now) h ht
    have hu := hashSetKey_err_of_other now h ht
    cases hf : formatFloatDec (f64add 0 d) <;> cases w <;> first | exact absurd rfl (hv _) |
      simp [update, Model.hashIncrFloat, hashGetRaw_none hk, hv0, hz, hf, hu, he, Res.err,
        Spec.hashIncrFloat, hg, Spec.er, purge_abs hw.wf.names]

/-! ### multi-set -/

theorem put_self {s : State} (hs : Sorted s) {k : Bytes} {e : Entry} (h : get s k = some e) :
    put s k e = s := by
  apply sorted_ext (hs.put k e) hs
  intro k'
  have h1 := get_put s k e k'
  unfold Spec.get at h1 h
  rw [h1]
  by_cases hk : k = k'
  · subst hk; simp [h]
  · have : (k == k') = false := by simpa using hk
    simp [this]

/-- the loop of `SetMany` on a visible hash: every item is `aput` in turn -/
theorem loop_visible (now : Int) (k : Bytes) : ∀ (items : List (Bytes × Bytes)) (db : DB)
    (h : List (Bytes × Bytes)) (et : Option Int), HWF db → get (abs now db) k = some ⟨.hash h, et⟩ →
    ∃ db2, hashSetManyLoop db k now items = (.ok db2, db2) ∧ HWF db2 ∧
      abs now db2
        = put (abs now db) k ⟨.hash (items.foldl (fun acc p => aput acc p.1 p.2) h), et⟩
  | [], db, h, et, hw, hg =>
    ⟨db, rfl, hw, (put_self (sorted_abs hw.wf.names now) hg).symm⟩
  | (f, v) :: rest, db, h, et, hw, hg => by
    obtain ⟨db1, he, hw1, ha⟩ := setTx_visible hw hg f v
    have hg1 : get (abs now db1) k = some ⟨.hash (aput h f v), et⟩ := by
      rw [ha, get_put]; simp
    obtain ⟨db2, hl, hw2, ha2⟩ := loop_visible now k rest db1 (aput h f v) et hw1 hg1
    refine ⟨db2, by simp only [hashSetManyLoop, he]; exact hl, hw2, ?_⟩
    rw [ha2, ha, put_put (sorted_abs hw.wf.names now)]
    rfl

/-- how many of the listed (distinct) fields are new: the count the model computes from one
`count(field)` statement and the count the specification makes item by item -/
theorem created_count {hs : List HashRow} (hp : PairNodup hs) (id : Int)
    {items : List (Bytes × Bytes)} (hnd : (items.map (·.1)).Nodup) :
    (items.length : Int)
        - ((hs.filter (fun x => x.kid == id && (items.map (·.1)).contains x.field)).length : Int)
      = ((items.filter (fun p => (aget (hview hs id) p.1).isNone)).length : Int) := by
  rw [count_listed hp id hnd, List.filter_map, List.length_map]
  have hsplit := length_filter_add_not (fun p : Bytes × Bytes => (aget (hview hs id) p.1).isNone) items
  have h1 : items.filter (fun x => !(aget (hview hs id) x.1).isNone)
      = items.filter ((fun f => (hfind hs id f).isSome) ∘ (·.1)) := by
    apply List.filter_congr
    intro p _
    simp only [Function.comp, aget_hview hp]
    cases hfind hs id p.1 <;> rfl
  rw [h1] at hsplit
  omega

theorem hashSetMany_refines {db : DB} (hw : HWF db) {now : Int} {k : Bytes}
    (hns : staleKey db now k = false) {items : List (Bytes × Bytes)}
    (hnd : (items.map (·.1)).Nodup) :
    Refines now (update (fun d => Model.hashSetMany d k items now) db)
      (Spec.hashSetMany (abs now db) k items) := by
  unfold Refines
  cases items with
  | nil =>
    have : hashCountRaw db k [] now = 0 := by
      unfold hashCountRaw; split <;> simp
    simp [update, Model.hashSetMany, hashSetManyLoop, this, Res.ok, Spec.hashSetMany, Spec.ok,
      purge_abs hw.wf.names]
  | cons p rest =>
    obtain ⟨f, v⟩ := p
    rcases hholder hw.wf now k with ⟨h, hg, hk⟩ | ⟨_, h, hl, _, _⟩ | ⟨r, h, hl, ht, hg, hk⟩ |
      ⟨r, w, h, _, ht, hg, hv, hk⟩
    · obtain ⟨db1, he, hw1, ha⟩ := setTx_absent hw h f v now
      have hg1 : get (abs now db1) k = some ⟨.hash [(f, v)], none⟩ := by rw [ha, get_put]; simp
      obtain ⟨db2, hl, hw2, ha2⟩ := loop_visible now k rest db1 [(f, v)] none hw1 hg1
      have hloop : hashSetManyLoop db k now ((f, v) :: rest) = (.ok db2, db2) := by
        simp only [hashSetManyLoop, he]; exact hl
      have hst : abs now db2 = put (abs now db) k
          ⟨.hash (((f, v) :: rest).foldl (fun acc p => aput acc p.1 p.2) []), none⟩ := by
        rw [ha2, ha, put_put (sorted_abs hw.wf.names now)]; rfl
      simp only [update, Model.hashSetMany, hashCountRaw_none hk, hloop, Res.ok, Spec.hashSetMany,
        hg, Spec.ok, List.isEmpty_cons, Bool.false_eq_true, if_false, Int.sub_zero, true_and]
      rw [← hst, purge_abs hw2.wf.names]
    · exact (HHolder.not_stale hns h hl).elim
    · obtain ⟨db2, hloop, hw2, ha2⟩ :=
        loop_visible now k ((f, v) :: rest) db (hview db.hashes r.id) r.etime hw hg
      simp only [update, Model.hashSetMany, hashCountRaw_some hk, hloop, Res.ok, Spec.hashSetMany,
        hg, Spec.ok, List.isEmpty_cons, Bool.false_eq_true, if_false]
      refine ⟨?_, ?_⟩
      · rw [created_count hw.pairs r.id hnd]
      · rw [← ha2, purge_abs hw2.wf.names]
    · have he := hashSetTx_other (f := f) (v := v) (now := now) h ht
      cases w <;> first | exact absurd rfl (hv _) |
        simp [update, Model.hashSetMany, hashSetManyLoop, he, Res.err, Spec.hashSetMany, hg,
          Spec.er, purge_abs hw.wf.names]

/-! ### delete -/

/-- the assignments of `sqlDelete`'s second statement -/
def hDrop (now n : Int) (o : KeyRow) : KeyRow :=
  { o with version := o.version + 1, mtime := now, len := o.len.map (· - n) }

/-- `Delete` on a stored, visible hash with at least one listed field present: closed form -/
theorem hashDelete_some {db : DB} (hw : HWF db) {k : Bytes} {now : Int} {r : KeyRow}
    (hf : db.findKey k = some r) (ht : r.ty = THash) (hk : db.liveKeyT k THash now = some r)
    (fs : List Bytes)
    (hn : (db.hashes.filter (fun x => x.kid == r.id && fs.contains x.field)).length ≠ 0) :
    ∃ db2 r2, Model.hashDelete db k fs now
        = .ok (.int (db.hashes.filter (fun x => x.kid == r.id && fs.contains x.field)).length) db2 ∧
      HWF db2 ∧ r2.etime = r.etime ∧
      WrittenV db db2 k r2 (.hash ((hview db.hashes r.id).filter (fun p => !fs.contains p.1))) := by
  obtain ⟨ho, hok⟩ := findKey_mem hf
  let n : Int := (db.hashes.filter (fun x => x.kid == r.id && fs.contains x.field)).length
  let r2 := hDrop now n r
  have hr2id : r2.id = r.id := rfl
  have ks : KeysStep db (db.updKey r.id (fun _ => r2)).keys k r2 :=
    keysStep_update hw.wf hf rfl rfl ht
  have rs := rowsStep_del hw.pairs r.id fs
  have hlen : r2.len = some (((hashDel db.hashes r.id fs).filter
      (fun x => x.kid == r2.id)).length : Int) := by
    show r.len.map (· - n) = _
    rw [hr2id, hw.len r ho ht]
    have := length_filter_hashDel db.hashes r.id fs
    simp only [Option.map_some, Option.some.injEq, n]
    omega
  obtain ⟨hw2, hwr⟩ := step_hwf_written hw ks rs hlen
  refine ⟨_, r2, ?_, hw2, rfl, ?_⟩
  · have hn' : ¬ (n = 0) := by simp only [n]; omega
    simp only [Model.hashDelete, hk]
    rw [if_neg (by simpa [n] using hn')]
    rw [← updKey_const hw.wf.ids ho]
    rfl
  · rw [hr2id, hview_hashDel hw.pairs] at hwr
    exact hwr

theorem hashDelete_refines {db : DB} (hw : HWF db) (now : Int) (k : Bytes) (fs : List Bytes) :
    Refines now (update (fun d => Model.hashDelete d k fs now) db)
      (Spec.hashDelete (abs now db) k fs) := by
  unfold Refines
  rcases hholder hw.wf now k with ⟨_, hg, hk⟩ | ⟨_, _, _, hg, hk⟩ | ⟨r, hf, hl, ht, hg, hk⟩ |
    ⟨r, v, _, _, _, hg, hv, hk⟩
  · simp [update, Model.hashDelete, hk, Res.ok, Spec.hashDelete, hg, Spec.ok, purge_abs hw.wf.names]
  · simp [update, Model.hashDelete, hk, Res.ok, Spec.hashDelete, hg, Spec.ok, purge_abs hw.wf.names]
  · have hsplit := length_filter_hashDel db.hashes r.id fs
    have hl1 := length_hview db.hashes r.id
    have hl2 : ((hview db.hashes r.id).filter (fun p => !fs.contains p.1)).length
        = ((hashDel db.hashes r.id fs).filter (fun x => x.kid == r.id)).length := by
      rw [← hview_hashDel hw.pairs, length_hview]
    by_cases hn : (db.hashes.filter (fun x => x.kid == r.id && fs.contains x.field)).length = 0
    · have hsame : ((hview db.hashes r.id).filter (fun p => !fs.contains p.1)).length
          = (hview db.hashes r.id).length := by omega
      simp only [update, Model.hashDelete, hk, hn, Spec.hashDelete, hg, hsame]
      simp [Res.ok, Spec.ok, purge_abs hw.wf.names]
    · obtain ⟨db2, r2, he, hw2, het, hwr⟩ := hashDelete_some hw hf ht hk fs hn
      have hdiff : ¬ ((hview db.hashes r.id).filter (fun p => !fs.contains p.1)).length
          = (hview db.hashes r.id).length := by omega
      simp only [update, he, Res.ok, Spec.hashDelete, hg, Spec.ok, beq_iff_eq, hdiff, if_false]
      refine ⟨?_, ?_⟩
      · congr 2; omega
      · rw [hwr.abs hw.wf.names hw2.wf.names now, het]
  · cases v <;> first | exact absurd rfl (hv _) |
      simp [update, Model.hashDelete, hk, Res.ok, Spec.hashDelete, hg, Spec.ok, purge_abs hw.wf.names]

/-! ### every operation keeps `HWF` -/

theorem hashSet_hwf {db : DB} (hw : HWF db) (k f v : Bytes) (now : Int) :
    HWF (Model.hashSet db k f v now).db := by
  unfold Model.hashSet
  simp only
  cases he : hashSetTx db k f v now with
  | error e => exact hw
  | ok d => exact hashSetTx_hwf hw k f v now d he

theorem hashSetNX_hwf {db : DB} (hw : HWF db) (k f v : Bytes) (now : Int) :
    HWF (Model.hashSetNotExists db k f v now).db := by
  unfold Model.hashSetNotExists
  split
  · exact hw
  · cases he : hashSetTx db k f v now with
    | error e => exact hw
    | ok d => exact hashSetTx_hwf hw k f v now d he

theorem hashIncr_hwf {db : DB} (hw : HWF db) (k f : Bytes) (d now : Int) :
    HWF (Model.hashIncr db k f d now).db := by
  unfold Model.hashIncr
  simp only
  split
  · exact hw
  · rename_i n _
    cases he : hashSetTx db k f (itoa (wrap64 (n + d))) now with
    | error e => exact hw
    | ok d' => exact hashSetTx_hwf hw k f _ now d' he

theorem hashIncrFloat_hwf {db : DB} (hw : HWF db) (k f : Bytes) (d : Dyadic) (now : Int) :
    HWF (Model.hashIncrFloat db k f d now).db := by
  unfold Model.hashIncrFloat
  simp only
  split
  · exact hw
  · exact hw
  · split
    · split <;> exact hw
    · rename_i txt _
      cases he : hashSetTx db k f txt now with
      | error e => exact hw
      | ok d' => exact hashSetTx_hwf hw k f _ now d' he

theorem loop_hwf (k : Bytes) (now : Int) : ∀ (items : List (Bytes × Bytes)) (db : DB), HWF db →
    HWF (hashSetManyLoop db k now items).2
  | [], _, hw => hw
  | (f, v) :: rest, db, hw => by
    unfold hashSetManyLoop
    cases he : hashSetTx db k f v now with
    | error e => exact hw
    | ok d => exact loop_hwf k now rest d (hashSetTx_hwf hw k f v now d he)

theorem hashSetMany_hwf {db : DB} (hw : HWF db) (k : Bytes) (items : List (Bytes × Bytes)) (now : Int) :
    HWF (Model.hashSetMany db k items now).db := by
  have := loop_hwf k now items db hw
  unfold Model.hashSetMany
  simp only
  generalize hashSetManyLoop db k now items = p at this ⊢
  rcases p with ⟨o, d⟩
  cases o <;> exact this

theorem update_hwf {f : DB → Res} {db : DB} (hw : HWF db) (h : HWF (f db).db) : HWF (update f db).db := by
  unfold update
  simp only
  split
  · exact h
  · exact hw

theorem hashDelete_hwf {db : DB} (hw : HWF db) (k : Bytes) (fs : List Bytes) (now : Int) :
    HWF (Model.hashDelete db k fs now).db := by
  cases hk : db.liveKeyT k THash now with
  | none => simp only [Model.hashDelete, hk]; exact hw
  | some r =>
    by_cases hn : (db.hashes.filter (fun x => x.kid == r.id && fs.contains x.field)).length = 0
    · simp only [Model.hashDelete, hk, hn]; exact hw
    · have hkf := liveKeyT_eq hw.wf.names k THash now
      rw [hk] at hkf
      cases hf : db.findKey k with
      | none => rw [hf] at hkf; cases hkf
      | some r' =>
        rw [hf] at hkf
        have hfil : (some r' : Option KeyRow).filter (fun r => r.ty == THash && r.live now) = some r :=
          hkf.symm
        have hrr : r' = r ∧ r.ty = THash := by
          simp only [Option.filter] at hfil
          split at hfil
          · rename_i hc
            simp only [Bool.and_eq_true, beq_iff_eq] at hc
            cases hfil; exact ⟨rfl, hc.1⟩
          · cases hfil
        obtain ⟨rfl, ht⟩ := hrr
        obtain ⟨db2, _, he, hw2, _⟩ := hashDelete_some hw hf ht hk fs hn
        rw [he]; exact hw2

/-! ### the field map a key holds, before and after a write -/

/-- a visible hash holds a strictly sorted field map -/
theorem hash_entry_sorted {db : DB} (hw : HWF db) {now : Int} {k : Bytes} {h : List (Bytes × Bytes)}
    {et : Option Int} (hg : get (abs now db) k = some ⟨.hash h, et⟩) : Sorted h := by
  rcases hholder hw.wf now k with ⟨_, hg', _⟩ | ⟨_, _, _, hg', _⟩ | ⟨r, _, _, _, hg', _⟩ |
    ⟨r, w, _, _, _, hg', hv, _⟩
  · rw [hg'] at hg; cases hg
  · rw [hg'] at hg; cases hg
  · rw [hg'] at hg
    simp only [Option.some.injEq, Entry.mk.injEq, SVal.hash.injEq] at hg
    rw [← hg.1]; exact hview_sorted hw.pairs r.id
  · rw [hg'] at hg
    simp only [Option.some.injEq, Entry.mk.injEq] at hg
    exact absurd hg.1 (hv _)

theorem hashAt_sorted {db : DB} (hw : HWF db) (now : Int) (k : Bytes) :
    Sorted (hashAt (abs now db) k) := by
  unfold hashAt
  split
  · rename_i m _ hg; exact hash_entry_sorted hw hg
  · exact List.Pairwise.nil

/-- the field map at `k` after a step whose specification puts `H` there with a live expiry -/
theorem hashAt_after {db db' : DB} (hw : db.WF) {now : Int} {k : Bytes} {H : List (Bytes × Bytes)}
    {et : Option Int} (hlive : liveAt now et = true)
    (ha : abs now db' = purge now (put (abs now db) k ⟨.hash H, et⟩)) :
    hashAt (abs now db') k = H := by
  unfold hashAt
  rw [ha, get_purge ((sorted_abs hw.names now).put k _), get_put]
  simp [hlive]

/-! ### the order of the items of a multi-set does not matter -/

theorem aget_foldl_aput : ∀ (items h : List (Bytes × Bytes)), (items.map (·.1)).Nodup → ∀ f,
    aget (items.foldl (fun acc p => aput acc p.1 p.2) h) f = (aget items f).or (aget h f)
  | [], h, _, f => by simp [aget_nil]
  | (f1, v1) :: rest, h, hnd, f => by
    have hnd' : f1 ∉ rest.map (·.1) ∧ (rest.map (·.1)).Nodup := by
      rw [List.map_cons] at hnd; exact List.nodup_cons.1 hnd
    rw [List.foldl_cons, aget_foldl_aput rest _ hnd'.2 f, aget_aput, aget_cons]
    by_cases hf : f1 = f
    · subst hf
      have : aget rest f1 = none := by
        rw [aget_eq_none_iff]
        intro p hp he
        exact hnd'.1 (List.mem_map.2 ⟨p, hp, he⟩)
      simp [this]
    · have : (f1 == f) = false := by simpa using hf
      simp [this]

theorem sorted_foldl_aput : ∀ (items h : List (Bytes × Bytes)), Sorted h →
    Sorted (items.foldl (fun acc p => aput acc p.1 p.2) h)
  | [], _, hs => hs
  | p :: rest, _, hs => sorted_foldl_aput rest _ (hs.aput p.1 p.2)

theorem aget_perm {a b : List (Bytes × Bytes)} (hp : a.Perm b) (hnd : (a.map (·.1)).Nodup)
    (f : Bytes) : aget a f = aget b f := by
  have hndb : (b.map (·.1)).Nodup := (hp.map _).nodup_iff.1 hnd
  apply Option.ext
  intro v
  rw [aget_eq_some_iff hnd, aget_eq_some_iff hndb, hp.mem_iff]

theorem foldl_aput_perm {a b : List (Bytes × Bytes)} (hp : a.Perm b) (hnd : (a.map (·.1)).Nodup)
    {h : List (Bytes × Bytes)} (hs : Sorted h) :
    a.foldl (fun acc p => aput acc p.1 p.2) h = b.foldl (fun acc p => aput acc p.1 p.2) h := by
  have hndb : (b.map (·.1)).Nodup := (hp.map _).nodup_iff.1 hnd
  apply sorted_ext (sorted_foldl_aput a h hs) (sorted_foldl_aput b h hs)
  intro f
  rw [aget_foldl_aput a h hnd, aget_foldl_aput b h hndb, aget_perm hp hnd]

/-- the specification of the multi-set does not depend on the order of items with distinct
fields -/
theorem specSetMany_perm {s : State} {k : Bytes} {a b : List (Bytes × Bytes)} (hp : a.Perm b)
    (hnd : (a.map (·.1)).Nodup)
    (hs : ∀ h et, get s k = some ⟨.hash h, et⟩ → Sorted h) :
    Spec.hashSetMany s k a = Spec.hashSetMany s k b := by
  have hemp : a.isEmpty = b.isEmpty := by
    cases a with
    | nil => rw [hp.symm.eq_nil]
    | cons x a' =>
      cases b with
      | nil => exact absurd hp.eq_nil (by simp)
      | cons y b' => rfl
  unfold Spec.hashSetMany
  rw [hemp]
  split
  · rfl
  · cases hg : get s k with
    | none =>
      simp only [hp.length_eq, foldl_aput_perm hp hnd (h := []) List.Pairwise.nil]
    | some e =>
      obtain ⟨val, et⟩ := e
      cases val with
      | hash h =>
        simp only [foldl_aput_perm hp hnd (hs h et hg), (hp.filter _).length_eq]
      | _ => rfl

end Redka.HashRef
