/-
  C19 — the storing methods (`SDIFFSTORE`/`SINTERSTORE`/`SUNIONSTORE`, `ZINTERSTORE`/`ZUNIONSTORE`):
  reset of a live destination, key upsert, bulk insert.  Rows not named like the destination and
  their children are untouched; the destination row is classified by `DestCase`.
-/
import RedkaModel.Proofs.MetaEff
import RedkaModel.Proofs.MetaSet
import RedkaModel.Proofs.MetaZSet
import RedkaModel.Proofs.InvStr

namespace Redka.MetaProofs

open Redka Redka.Model Redka.InvP

/-- does the key id hold rows in the child table of the storing family? -/
def destHasChildren (db : DB) (ty : Int) (id : Int) : Bool :=
  if ty == TSet then db.sets.any (fun x => x.kid == id) else db.zsets.any (fun x => x.kid == id)

/-- what became of the row named like the destination of a store -/
inductive DestCase (now : Int) (d : Bytes) (ty : Int) (db post : DB) (isE : Bool) (r' : KeyRow) : Prop
  /-- the name was free: a new row with a fresh id -/
  | new (hfree : ∀ r ∈ db.keys, r.key ≠ d ∧ r.id ≠ r'.id) (hv : r'.version = 1)
  /-- the name was held by a stored row of the type whose expiry has passed: it is bumped like
  by any other write (D05) -/
  | stale (r : KeyRow) (hr : r ∈ db.keys) (hk : r.key = d) (hid : r'.id = r.id) (hty : r'.ty = r.ty)
      (hv : r'.version = r.version + 1) (hlive : r.live now = false)
  /-- the name was held by a live key of the type: reset, then bumped to version 1 -/
  | live (r0 : KeyRow) (hl : db.liveKeyT d ty now = some r0)
      (hs : SameMeta { r0 with version := 1, mtime := now } r')
      (hval : isE = true → destHasChildren db ty r0.id = false → Spec.absVal db r0 = Spec.absVal post r')
      (hemp : isE = true → destHasChildren post ty r0.id = false)

/-- the state after the reset phase (`deleteKey` / `sqlDeleteAll`) -/
def ResetShape (now : Int) (d : Bytes) (ty : Int) (db a1 : DB) : Prop :=
  (db.liveKeyT d ty now = none ∧ a1 = db) ∨
  (∃ r0, db.liveKeyT d ty now = some r0 ∧
    a1.keys = db.keys.map (fun r => if r.id == r0.id then { r with version := 0, mtime := 0, len := some 0 } else r) ∧
    (∀ i, i ≠ r0.id → ChildEq db a1 i) ∧
    (destHasChildren db ty r0.id = false → ChildEq db a1 r0.id) ∧
    destHasChildren a1 ty r0.id = false)

theorem liveKeyT_none_dead {db : DB} {d : Bytes} {ty now : Int} (h : db.liveKeyT d ty now = none)
    {r : KeyRow} (hr : r ∈ db.keys) (hk : r.key = d) (hty : r.ty = ty) : r.live now = false := by
  unfold DB.liveKeyT at h
  have := List.find?_eq_none.1 h r hr
  simpa [hk, hty] using this

/-- a failed upsert after the reset phase means there was no reset -/
theorem reset_upsert_error {now : Int} {d : Bytes} {ty : Int} {db a1 : DB} {onNew : Int → KeyRow}
    {onOld : KeyRow → KeyRow} {e : Err} (h1 : WF a1) (hres : ResetShape now d ty db a1)
    (he : keyUpsert a1 d ty onNew onOld = .error e) : a1 = db ∧ db.liveKeyT d ty now = none := by
  rcases hres with ⟨hl, e1⟩ | ⟨r0, hl, hk, _, _, _⟩
  · exact ⟨e1, hl⟩
  · exfalso
    obtain ⟨hr0, hk0, hty0⟩ := liveKeyT_some hl
    have hmem : ({ r0 with version := 0, mtime := 0, len := some 0 } : KeyRow) ∈ a1.keys := by
      rw [hk]; exact List.mem_map.2 ⟨r0, hr0, by simp⟩
    have hf := findKey_of_mem h1 hmem
    have hf : a1.findKey d = some { r0 with version := 0, mtime := 0, len := some 0 } := hk0 ▸ hf
    unfold keyUpsert at he
    rw [hf] at he
    simp [hty0] at he

theorem store_core {now : Int} {d : Bytes} {ty : Int} {db a1 b c : DB} {onNew : Int → KeyRow}
    {onOld : KeyRow → KeyRow} {r : KeyRow} (isE : Bool)
    (h : WF db) (h1 : WF a1) (hres : ResetShape now d ty db a1)
    (he : keyUpsert a1 d ty onNew onOld = .ok (b, r))
    (hnew : ∀ id, (onNew id).id = id ∧ (onNew id).key = d ∧ (onNew id).version = 1 ∧ (onNew id).mtime = now)
    (hold : ∀ o, onOld o = { o with version := o.version + 1, mtime := now })
    (ht : Touch r.id b c) (hc : isE = true → c = b) :
    Keep db c ∧ ∀ r' ∈ c.keys, (r'.key ≠ d → r' ∈ db.keys ∧ ChildEq db c r'.id) ∧
      (r'.key = d → r'.mtime = now ∧ DestCase now d ty db c isE r') := by
  have hkeep : Keep db c := by
    have k1 : Keep db a1 := by
      rcases hres with ⟨_, e1⟩ | ⟨r0, _, hk, _, _, _⟩
      · rw [e1]; exact Keep.refl _
      · intro x hx
        refine ⟨_, by rw [hk]; exact List.mem_map.2 ⟨x, hx, rfl⟩, ?_⟩
        split <;> rfl
    have k2 : Keep a1 b := by
      rcases keyUpsert_cases he with ⟨_, _, hdb⟩ | ⟨old, _, _, hr, hdb⟩
      · intro x hx; exact ⟨x, by rw [hdb]; exact List.mem_append_left _ hx, rfl⟩
      · intro x hx
        refine ⟨_, by rw [hdb]; exact mem_updKey_of (f := fun _ => r) hx, ?_⟩
        split
        · rename_i hc'; rw [hr, hold old]; exact (by simpa using hc' : x.id = old.id).symm
        · rfl
    exact (k1.trans k2).trans ht.keep
  refine ⟨hkeep, ?_⟩
  -- rows of `a1` not named `d` are rows of `db` with their children
  have hother : ∀ x ∈ a1.keys, x.key ≠ d → x ∈ db.keys ∧ ChildEq db a1 x.id := by
    intro x hx hne
    rcases hres with ⟨_, e1⟩ | ⟨r0, hl, hk, hch, _, _⟩
    · subst e1; exact ⟨hx, ChildEq.refl _ _⟩
    · obtain ⟨hr0, hk0, _⟩ := liveKeyT_some hl
      rw [hk] at hx
      obtain ⟨y, hy, e⟩ := List.mem_map.1 hx
      by_cases hi : y.id = r0.id
      · have : y = r0 := eq_of_id_eq h.uId hy hr0 hi
        subst this
        simp at e
        rw [← e] at hne
        exact absurd hk0 hne
      · simp [hi] at e
        subst e
        exact ⟨hy, hch _ hi⟩
  have hab : ∀ i, ChildEq a1 b i := fun i => by
    rcases keyUpsert_cases he with ⟨_, _, hdb⟩ | ⟨_, _, _, _, hdb⟩ <;>
      (rw [hdb]; exact ChildEq.of_tables rfl rfl rfl rfl rfl)
  intro r' hr'
  obtain ⟨r2, hr2, hs, hsame⟩ := ht.keys r' hr'
  rcases keyUpsert_cases he with ⟨hf, hr, hdb⟩ | ⟨old, hf, hoty, hr, hdb⟩
  · -- the name is free in `a1`
    obtain ⟨n1, n2, n3, n4⟩ := hnew a1.nextKeyId
    rw [← hr] at n1 n2 n3 n4
    have fresh : ∀ o ∈ a1.keys, o.id ≠ r.id := fun o ho => by
      have := id_lt_nextKeyId a1 o ho; omega
    have ha1 : a1 = db := by
      rcases hres with ⟨_, e1⟩ | ⟨r0, hl, hk, _, _, _⟩
      · exact e1
      · exfalso
        obtain ⟨hr0, hk0, _⟩ := liveKeyT_some hl
        have hmem : ({ r0 with version := 0, mtime := 0, len := some 0 } : KeyRow) ∈ a1.keys := by
          rw [hk]; exact List.mem_map.2 ⟨r0, hr0, by simp⟩
        exact findKey_none hf _ hmem hk0
    rw [hdb] at hr2
    rcases List.mem_append.1 hr2 with hr2 | hr2
    · have hne : r'.id ≠ r.id := by rw [hs.id]; exact fresh r2 hr2
      have := hsame hne
      subst this
      have hk2 : r'.key ≠ d := findKey_none hf r' hr2
      refine ⟨fun _ => ?_, fun e => absurd e hk2⟩
      obtain ⟨hm, hc1⟩ := hother r' hr2 hk2
      exact ⟨hm, hc1.trans ((hab _).trans (ht.child _ hne))⟩
    · have : r2 = r := List.mem_singleton.1 hr2
      subst this
      refine ⟨fun hne => absurd (hs.key.trans n2) hne, fun _ => ⟨by rw [hs.mtime, n4], ?_⟩⟩
      refine DestCase.new (fun x hx => ?_) (by rw [hs.version, n3])
      rw [← ha1] at hx
      exact ⟨findKey_none hf x hx, by rw [hs.id]; exact fresh x hx⟩
  · -- the name is held in `a1`
    obtain ⟨hom, hok⟩ := findKey_some hf
    have hr : r = { old with version := old.version + 1, mtime := now } := hr.trans (hold old)
    rw [hdb] at hr2
    obtain ⟨x, hx, ⟨hi, e⟩ | ⟨hi, e⟩⟩ := mem_updKey hr2
    · -- the destination row
      have hk' : r'.key = d := by rw [hs.key, e, hr]; exact hok
      refine ⟨fun hne => absurd hk' hne, fun _ => ⟨by rw [hs.mtime, e, hr], ?_⟩⟩
      rcases hres with ⟨hl, e1⟩ | ⟨r0, hl, hk, _, hval, hemp1⟩
      · subst e1
        refine DestCase.stale old hom hok (by rw [hs.id, e, hr]) (by rw [hs.ty, e, hr])
          (by rw [hs.version, e, hr]) (liveKeyT_none_dead hl hom hok hoty)
      · obtain ⟨hr0, hk0, hty0⟩ := liveKeyT_some hl
        have hmem : ({ r0 with version := 0, mtime := 0, len := some 0 } : KeyRow) ∈ a1.keys := by
          rw [hk]; exact List.mem_map.2 ⟨r0, hr0, by simp⟩
        have hf' := findKey_of_mem h1 hmem
        have hf' : a1.findKey d = some { r0 with version := 0, mtime := 0, len := some 0 } := hk0 ▸ hf'
        rw [hf] at hf'
        have hold0 : old = { r0 with version := 0, mtime := 0, len := some 0 } := Option.some.inj hf'
        have hsm : SameMeta { r0 with version := 1, mtime := now } r' := by
          unfold SameMeta at hs ⊢
          rw [hs, e, hr, hold0]
          simp
        refine DestCase.live r0 hl hsm (fun hE hnc => ?_) (fun hE => ?_)
        · have hcb := hc hE
          subst hcb
          have h2 : ChildEq db c r0.id := (hval hnc).trans (hab _)
          rw [absVal_congr h2]
          exact (absVal_row hsm.id hsm.ty).symm
        · have hcb := hc hE
          subst hcb
          have htab : c.sets = a1.sets ∧ c.zsets = a1.zsets := by
            rw [hdb]; exact ⟨rfl, rfl⟩
          unfold destHasChildren at hemp1 ⊢
          rw [htab.1, htab.2]
          exact hemp1
    · have hne : r'.id ≠ r.id := by rw [hs.id, e, hr]; exact hi
      have := hsame hne
      subst this; subst e
      have hk2 : r'.key ≠ d := fun ek => by
        have : r' = old := eq_of_key_eq h1.uKey hx hom (ek.trans hok.symm)
        exact hi (by rw [this])
      refine ⟨fun _ => ?_, fun ek => absurd ek hk2⟩
      obtain ⟨hm, hc1⟩ := hother r' hx hk2
      exact ⟨hm, hc1.trans ((hab _).trans (ht.child _ hne))⟩

/-! ### sets -/

variable {db : DB}

theorem setDeleteKey_shape (d : Bytes) (now : Int) : ResetShape now d TSet db (setDeleteKey db d now) := by
  unfold setDeleteKey
  split
  · rename_i hl; exact .inl ⟨hl, rfl⟩
  · rename_i r0 hl
    refine .inr ⟨r0, hl, rfl, fun i hi => ?_, fun hnc => ?_, ?_⟩
    rotate_left 2
    · show destHasChildren (DB.updKey { db with sets := db.sets.filter (fun x => x.kid != r0.id) } r0.id _) TSet r0.id = false
      unfold destHasChildren
      simp only [beq_self_eq_true, if_true, updKey_sets]
      rw [List.any_eq_false]
      intro x hx
      have := (List.mem_filter.1 hx).2
      simpa using this
    · refine ⟨rfl, rfl, ?_, rfl, rfl⟩
      refine (filter_kid_filter_other (·.kid) _ db.sets i (fun x _ hx => ?_)).symm
      simpa [hx] using hi
    · refine ⟨rfl, rfl, ?_, rfl, rfl⟩
      have hno : ∀ x ∈ db.sets, x.kid ≠ r0.id := by
        intro x hx
        have : db.sets.any (fun x => x.kid == r0.id) = false := by
          simpa [destHasChildren] using hnc
        simpa using List.any_eq_false.1 this x hx
      show db.sets.filter (fun x => x.kid == r0.id) =
        (db.sets.filter (fun x => x.kid != r0.id)).filter (fun x => x.kid == r0.id)
      rw [filter_kid_nil (·.kid) db.sets r0.id hno, filter_kid_nil (·.kid) _ r0.id
        (fun x hx => hno x (List.mem_filter.1 hx).1)]

theorem setInsertAll_touch {kid : Int} (es : List Bytes) :
    ∀ {db : DB} (n : Int) {db3 : DB} {m : Int}, setInsertAll db kid es n = .ok (db3, m) →
      Touch kid db db3 := by
  induction es with
  | nil =>
    intro db n db3 m he
    simp only [setInsertAll, Except.ok.injEq, Prod.mk.injEq] at he
    exact he.1 ▸ Touch.refl _ _
  | cons e es ih =>
    intro db n db3 m he
    unfold setInsertAll at he
    split at he
    · cases he
    · rename_i db' hi
      exact (setInsertRow_touch hi).trans (ih (n + 1) he)

/-- the summary of a store: nothing happened (a refusal, or the empty source list `E` of the set
stores), or the rows are as `store_core` says -/
def StoreSum (now : Int) (d : Bytes) (ty : Int) (db : DB) (res : Res) (E : Prop) : Prop :=
  (res.db = db ∧ ((Spec.isErr res.out = true ∧ db.liveKeyT d ty now = none) ∨ E)) ∨
  (¬ E ∧ Keep db res.db ∧ ∀ r' ∈ res.db.keys, (r'.key ≠ d → r' ∈ db.keys ∧ ChildEq db res.db r'.id) ∧
    (r'.key = d → r'.mtime = now ∧ DestCase now d ty db res.db (Spec.isErr res.out) r'))

theorem setStore_sum (h : WF db) (d : Bytes) (ks : List Bytes) (now : Int)
    (compute : DB → List Bytes) :
    StoreSum now d TSet db (setStore db d ks now compute) (ks.isEmpty = true) := by
  unfold setStore
  split
  · rename_i hE; exact .inl ⟨rfl, .inr hE⟩
  · rename_i hE
    have h1 := setDeleteKey_wf h d now
    have hres := setDeleteKey_shape (db := db) d now
    simp only
    split
    · rename_i e he
      exact .inl ⟨(reset_upsert_error h1 hres he).1, .inl ⟨rfl, (reset_upsert_error h1 hres he).2⟩⟩
    · rename_i db2 r he
      split
      · exact .inr ⟨hE, store_core true h h1 hres he (fun _ => ⟨rfl, rfl, rfl, rfl⟩) (fun _ => rfl)
          (Touch.refl _ _) (fun _ => rfl)⟩
      · rename_i db3 n hi
        exact .inr ⟨hE, store_core false h h1 hres he (fun _ => ⟨rfl, rfl, rfl, rfl⟩) (fun _ => rfl)
          (setInsertAll_touch _ 0 hi) (fun hE => by cases hE)⟩

/-! ### sorted sets -/

theorem zDeleteAll_shape (d : Bytes) (now : Int) : ResetShape now d TZSet db (zDeleteAll db d now) := by
  unfold zDeleteAll
  split
  · rename_i hl; exact .inl ⟨hl, rfl⟩
  · rename_i r0 hl
    refine .inr ⟨r0, hl, rfl, fun i hi => ?_, fun hnc => ?_, ?_⟩
    rotate_left 2
    · show destHasChildren (DB.updKey { db with zsets := db.zsets.filter (fun x => x.kid != r0.id) } r0.id _) TZSet r0.id = false
      unfold destHasChildren
      have : (TZSet == TSet) = false := by decide
      simp only [this, Bool.false_eq_true, if_false, updKey_zsets]
      rw [List.any_eq_false]
      intro x hx
      have := (List.mem_filter.1 hx).2
      simpa using this
    · refine ⟨rfl, rfl, rfl, rfl, ?_⟩
      refine (filter_kid_filter_other (·.kid) _ db.zsets i (fun x _ hx => ?_)).symm
      simpa [hx] using hi
    · refine ⟨rfl, rfl, rfl, rfl, ?_⟩
      have hno : ∀ x ∈ db.zsets, x.kid ≠ r0.id := by
        intro x hx
        have : db.zsets.any (fun x => x.kid == r0.id) = false := by
          simpa [destHasChildren, TZSet, TSet] using hnc
        simpa using List.any_eq_false.1 this x hx
      show db.zsets.filter (fun x => x.kid == r0.id) =
        (db.zsets.filter (fun x => x.kid != r0.id)).filter (fun x => x.kid == r0.id)
      rw [filter_kid_nil (·.kid) db.zsets r0.id hno, filter_kid_nil (·.kid) _ r0.id
        (fun x hx => hno x (List.mem_filter.1 hx).1)]

theorem zInsertAll_touch {kid : Int} (items : List (Bytes × Option Score)) :
    ∀ {db : DB} (n : Int) {db3 : DB} {m : Int}, zInsertAll db kid items n = .ok (db3, m) →
      Touch kid db db3 := by
  induction items with
  | nil =>
    intro db n db3 m he
    simp only [zInsertAll, Except.ok.injEq, Prod.mk.injEq] at he
    exact he.1 ▸ Touch.refl _ _
  | cons p rest ih =>
    intro db n db3 m he
    obtain ⟨e, s⟩ := p
    unfold zInsertAll at he
    split at he
    · cases he
    · rename_i s
      split at he
      · cases he
      · exact (zInsertNew_touch kid e s).trans (ih (n + 1) he)

theorem zCombineStore_sum (h : WF db) (d : Bytes) (ks : List Bytes) (agg : Agg) (inter : Bool)
    (now : Int) : StoreSum now d TZSet db (zCombineStore db d ks agg inter now) False := by
  unfold zCombineStore
  have h1 := zDeleteAll_wf h d now
  have hres := zDeleteAll_shape (db := db) d now
  simp only
  split
  · rename_i e he
    exact .inl ⟨(reset_upsert_error h1 hres he).1, .inl ⟨rfl, (reset_upsert_error h1 hres he).2⟩⟩
  · rename_i db2 r he
    split
    · exact .inr ⟨id, store_core true h h1 hres he (fun _ => ⟨rfl, rfl, rfl, rfl⟩) (fun _ => rfl)
        (Touch.refl _ _) (fun _ => rfl)⟩
    · rename_i db3 n hi
      exact .inr ⟨id, store_core false h h1 hres he (fun _ => ⟨rfl, rfl, rfl, rfl⟩) (fun _ => rfl)
        (zInsertAll_touch _ 0 hi) (fun hE => by cases hE)⟩

end Redka.MetaProofs
