/-
  `internal/rlist` against the abstract keyspace: the refinement of each list operation.
-/
import RedkaModel.Proofs.ListRows
import RedkaModel.Proofs.Str
import RedkaModel.Props.C02idx

namespace Redka.Model

open Redka Redka.Spec Redka.DB Redka.ListOrd Redka.Scan Redka.Proofs.Index

/-- the elements of the list with key id `kid`, in order -/
def elems (db : DB) (kid : Int) : List Bytes := (listRows db kid).map (·.elem)

theorem length_elems (db : DB) (kid : Int) : (elems db kid).length = (listRows db kid).length :=
  List.length_map _

/-! ### what is stored under a name, as the list repository sees it -/

/-- The four things a name can be at `now`, each with what the model's typed lookup
(`sqlInsertKey` and friends: `… where key = ? and type = 2 and (etime is null or etime > ?)`) and
the abstraction make of it. -/
inductive LHolder (now : Int) (db : DB) (k : Bytes) : Prop
  | absent (h : db.findKey k = none) (hg : get (abs now db) k = none)
      (hk : db.liveKeyT k TList now = none)
  | stale (r : KeyRow) (h : db.findKey k = some r) (hl : r.live now = false)
      (hg : get (abs now db) k = none) (hk : db.liveKeyT k TList now = none)
  | list (r : KeyRow) (h : db.findKey k = some r) (hl : r.live now = true) (ht : r.ty = TList)
      (hg : get (abs now db) k = some ⟨.list (elems db r.id), r.etime⟩)
      (hk : db.liveKeyT k TList now = some r)
  | other (r : KeyRow) (v : SVal) (h : db.findKey k = some r) (hl : r.live now = true)
      (ht : r.ty ≠ TList) (hg : get (abs now db) k = some ⟨v, r.etime⟩) (hv : ∀ l, v ≠ .list l)
      (hk : db.liveKeyT k TList now = none)

theorem lholder {db : DB} (hw : db.WF) (now : Int) (k : Bytes) : LHolder now db k := by
  have hga := get_abs hw.names now k
  have hka := liveKeyT_eq hw.names k TList now
  cases hf : db.findKey k with
  | none =>
    rw [hf] at hga hka
    exact .absent hf hga hka
  | some r =>
    rw [hf] at hga hka
    obtain ⟨hm, _⟩ := findKey_mem hf
    cases hl : r.live now with
    | false =>
      refine .stale r hf hl ?_ ?_
      · rw [hga]; simp [rowEntry, hl]
      · rw [hka]; simp [Option.filter, hl]
    | true =>
      by_cases ht : r.ty = TList
      · refine .list r hf hl ht ?_ ?_
        · rw [hga]; simp [rowEntry, hl, absVal_list ht, elems]
        · rw [hka]; simp [Option.filter, hl, ht]
      · obtain ⟨v, hv, hns⟩ := absVal_nonlist hw hm ht
        refine .other r v hf hl ht ?_ hns ?_
        · rw [hga]; simp [rowEntry, hl, hv]
        · rw [hka]; simp [Option.filter, ht]

theorem listAt_of_get_list {s : State} {k : Bytes} {l : List Bytes} {et : Option Int}
    (h : get s k = some ⟨.list l, et⟩) : listAt s k = l := by
  simp [listAt, h]

theorem listAt_of_get_none {s : State} {k : Bytes} (h : get s k = none) : listAt s k = [] := by
  simp [listAt, h]

theorem listAt_of_get_other {s : State} {k : Bytes} {v : SVal} {et : Option Int}
    (h : get s k = some ⟨v, et⟩) (hv : ∀ l, v ≠ .list l) : listAt s k = [] := by
  unfold listAt
  rw [h]
  cases v <;> first | rfl | exact absurd rfl (hv _)

/-! ### index rules and `map` -/

theorem lindex_map {α β : Type} (f : α → β) (l : List α) (i : Int) :
    Spec.lindex (l.map f) i = (Spec.lindex l i).map f := by
  unfold Spec.lindex
  rw [List.length_map]
  cases Spec.lindexPos l.length i with
  | none => rfl
  | some j => simp [List.getElem?_map]

theorem lindex_nil {α : Type} (i : Int) : Spec.lindex ([] : List α) i = none := by
  unfold Spec.lindex
  cases Spec.lindexPos ([] : List α).length i <;> rfl

theorem sqlLimit_map {α β : Type} (f : α → β) (s c : Int) (l : List α) :
    sqlLimit s c (l.map f) = (sqlLimit s c l).map f := by
  unfold sqlLimit
  simp only []
  split
  · rw [List.map_drop]
  · rw [List.map_take, List.map_drop]

theorem lrange_map {α β : Type} (f : α → β) (l : List α) (a b : Int) :
    Spec.lrange (l.map f) a b = (Spec.lrange l a b).map f := by
  unfold Spec.lrange
  simp only [List.length_map]
  split
  · rfl
  · rw [List.map_take, List.map_drop]

theorem lrange_nil {α : Type} (a b : Int) : Spec.lrange ([] : List α) a b = [] := by
  unfold Spec.lrange
  simp only []
  split <;> simp

/-! ### the reads -/

theorem listLen_refines {db : DB} (hw : db.LWF) (now : Int) (k : Bytes) :
    Refines now (listLen db k now) (Spec.listLen (abs now db) k) := by
  unfold Refines
  rcases lholder hw.wf now k with ⟨_, hg, hk⟩ | ⟨_, _, _, hg, hk⟩ | ⟨r, h, _, ht, hg, hk⟩ |
    ⟨_, v, _, _, _, hg, hv, hk⟩
  · simp [listLen, Spec.listLen, hk, listAt_of_get_none hg, Res.ok, Spec.ok, purge_abs hw.wf.names]
  · simp [listLen, Spec.listLen, hk, listAt_of_get_none hg, Res.ok, Spec.ok, purge_abs hw.wf.names]
  · have hlen := hw.len_eq (findKey_mem h).1 ht
    simp [listLen, Spec.listLen, hk, hlen, listAt_of_get_list hg, length_elems, Res.ok, Spec.ok,
      purge_abs hw.wf.names]
  · simp [listLen, Spec.listLen, hk, listAt_of_get_other hg hv, Res.ok, Spec.ok,
      purge_abs hw.wf.names]

theorem listGet_refines {db : DB} (hw : db.LWF) (now : Int) (k : Bytes) (i : Int) :
    Refines now (listGet db k i now) (Spec.listGet (abs now db) k i) := by
  unfold Refines
  rcases lholder hw.wf now k with ⟨_, hg, hk⟩ | ⟨_, _, _, hg, hk⟩ | ⟨r, h, _, ht, hg, hk⟩ |
    ⟨_, v, _, _, _, hg, hv, hk⟩
  · simp [listGet, Spec.listGet, hk, listAt_of_get_none hg, lindex_nil, Res.err, Spec.er,
      purge_abs hw.wf.names]
  · simp [listGet, Spec.listGet, hk, listAt_of_get_none hg, lindex_nil, Res.err, Spec.er,
      purge_abs hw.wf.names]
  · have hidx : Spec.lindex (elems db r.id) i = (listRowAt db r.id i).map (·.elem) := by
      rw [listRowAt_eq, Redka.Props.C02.index_refines, elems, lindex_map]
    simp only [listGet, Spec.listGet, hk, listAt_of_get_list hg, hidx]
    cases listRowAt db r.id i with
    | none => simp [Res.err, Spec.er, purge_abs hw.wf.names]
    | some row => simp [Res.ok, Spec.ok, purge_abs hw.wf.names]
  · simp [listGet, Spec.listGet, hk, listAt_of_get_other hg hv, lindex_nil, Res.err, Spec.er,
      purge_abs hw.wf.names]

/-- D02 (repaired): on a missing key the window is defined (the missing length counts as 0) and empty -/
theorem listRange_missing {db : DB} {now : Int} {k : Bytes} {a b : Int}
    (hk : db.liveKeyT k TList now = none) :
    listRange db k a b now = .ok (.list []) db := by
  unfold listRange
  split
  · rfl
  · simp only [hk, Option.bind_none]
    rw [Redka.Proofs.Index.rangeWindow_nil]
    rfl

theorem listRange_refines {db : DB} (hw : db.LWF) (now : Int) (k : Bytes) (a b : Int) :
    Refines now (listRange db k a b now) (Spec.listRange (abs now db) k a b) := by
  unfold Refines
  rcases lholder hw.wf now k with ⟨_, hg, hk⟩ | ⟨_, _, _, hg, hk⟩ | ⟨r, h, _, ht, hg, hk⟩ |
    ⟨_, v, _, _, _, hg, hv, hk⟩
  · simp [listRange_missing hk, Spec.listRange, listAt_of_get_none hg, lrange_nil,
      Spec.bytesList, Res.ok, Spec.ok, purge_abs hw.wf.names]
  · simp [listRange_missing hk, Spec.listRange, listAt_of_get_none hg, lrange_nil,
      Spec.bytesList, Res.ok, Spec.ok, purge_abs hw.wf.names]
  · have hlen := hw.len_eq (findKey_mem h).1 ht
    have hmr := Redka.Props.C02.range_refines (listRows db r.id) a b
    have hm : listRange db k a b now
        = .ok (.list ((modelRange (listRows db r.id) a b).map (fun r => .bytes r.elem))) db := by
      unfold listRange modelRange
      split
      · rfl
      · simp only [hk, Option.bind_some, hlen]
        rw [rangeWindow_some]
    rw [hm, hmr]
    simp [Spec.listRange, listAt_of_get_list hg, elems, lrange_map, Spec.bytesList, Res.ok, Spec.ok,
      purge_abs hw.wf.names]
  · simp [listRange_missing hk, Spec.listRange, listAt_of_get_other hg hv, lrange_nil,
      Spec.bytesList, Res.ok, Spec.ok, purge_abs hw.wf.names]

/-! ### the generic write: an existing or a fresh list key gets a new table of rows -/

/-- An existing list key is rewritten: its key row becomes `r2` (same id, name, type) and `rlist`
becomes `L'`, which differs from the old table only in the rows of this key. -/
theorem listStore_old {db : DB} (hw : db.LWF) {k : Bytes} {r : KeyRow} (hf : db.findKey k = some r)
    (r2 : KeyRow) (hid : r2.id = r.id) (hkey : r2.key = r.key) (hty : r2.ty = TList)
    (L' : List ListRow)
    (hoth : ∀ id', id' ≠ r.id →
      L'.filter (fun x => x.kid == id') = db.lists.filter (fun x => x.kid == id'))
    (hpos : PosNodup L')
    (hlen : r2.len = some (((L'.filter (fun x => x.kid == r.id)).length : Nat) : Int)) :
    ({ db.updKey r.id (fun _ => r2) with lists := L' } : DB).LWF ∧
    Stored db { db.updKey r.id (fun _ => r2) with lists := L' } k r2
      (.list ((rowsOf L' r.id).map (·.elem))) := by
  obtain ⟨ho, hok⟩ := findKey_mem hf
  have hwf := hw.wf
  have hkeys : ({ db.updKey r.id (fun _ => r2) with lists := L' } : DB).keys
      = (db.updKey r.id (fun _ => r2)).keys := rfl
  have hne_id : ∀ r' ∈ db.keys, r' ≠ r → r'.id ≠ r.id :=
    fun r' hr' hne he => hne (id_inj hwf.ids hr' ho he)
  refine ⟨⟨⟨?_, ?_, ?_, ?_, hwf.strKids⟩, ?_, hpos, ?_⟩, ⟨?_, ?_, ?_⟩⟩
  · rw [hkeys, updKey_names hwf.ids ho hkey]; exact hwf.names
  · rw [hkeys, updKey_ids hwf.ids ho hid]; exact hwf.ids
  · intro x hx
    rcases mem_updKey hwf.ids ho hx with hx | ⟨hx, _⟩
    · rw [hx, hty]; decide
    · exact hwf.tyOk x hx
  · intro x hx hxt
    rcases mem_updKey hwf.ids ho hx with hx | ⟨hx, _⟩
    · rw [hx, hty] at hxt; cases hxt
    · exact hwf.strRow x hx hxt
  · intro x hx hxt
    rcases mem_updKey hwf.ids ho hx with hx | ⟨hx, hxne⟩
    · rw [hx, hid]; exact hlen
    · show x.len = some (((L'.filter (fun y => y.kid == x.id)).length : Nat) : Int)
      rw [hoth x.id (hne_id x hx hxne)]
      exact hw.listLen x hx hxt
  · intro x hx
    by_cases hxk : x.kid = r.id
    · refine ⟨r2, ?_, by rw [hid, hxk]⟩
      rw [hkeys, updKey_keys hwf.ids ho]
      exact List.mem_map.2 ⟨r, ho, by simp⟩
    · have hx' : x ∈ L'.filter (fun y => y.kid == x.kid) := List.mem_filter.2 ⟨hx, by simp⟩
      rw [hoth x.kid hxk] at hx'
      obtain ⟨r', hr', hrid⟩ := hw.listOwner x (List.mem_filter.1 hx').1
      refine ⟨r', ?_, hrid⟩
      rw [hkeys, updKey_keys hwf.ids ho]
      refine List.mem_map.2 ⟨r', hr', ?_⟩
      have : r' ≠ r := fun he => hxk (by rw [← hrid, he])
      simp [this]
  · intro k'
    show (db.updKey r.id (fun _ => r2)).findKey k' = _
    rw [← hok]; exact findKey_updKey hwf.names hwf.ids ho hkey k'
  · rw [absVal_list hty, hid]; rfl
  · intro r' hr' hne
    have hne' : r' ≠ r := fun he => hne (by rw [he, hok])
    apply absVal_congr <;> try rfl
    exact hoth r'.id (hne_id r' hr' hne')

/-- A fresh list key is created with the rows `L'` adds for it. -/
theorem listStore_new {db : DB} (hw : db.LWF) {k : Bytes} (hf : db.findKey k = none)
    (r2 : KeyRow) (hid : r2.id = db.nextKeyId) (hkey : r2.key = k) (hty : r2.ty = TList)
    (L' : List ListRow)
    (hoth : ∀ id', id' ≠ r2.id →
      L'.filter (fun x => x.kid == id') = db.lists.filter (fun x => x.kid == id'))
    (hpos : PosNodup L')
    (hlen : r2.len = some (((L'.filter (fun x => x.kid == r2.id)).length : Nat) : Int)) :
    ({ db with keys := db.keys ++ [r2], lists := L' } : DB).LWF ∧
    Stored db { db with keys := db.keys ++ [r2], lists := L' } k r2
      (.list ((rowsOf L' r2.id).map (·.elem))) := by
  have hwf := hw.wf
  have hnone : db.findKey r2.key = none := by rw [hkey]; exact hf
  have hne_id : ∀ r' ∈ db.keys, r'.id ≠ r2.id := by
    intro r' hr'; rw [hid]; exact nextKeyId_fresh db r' hr'
  refine ⟨⟨⟨names_append hwf.names hnone, ids_append hwf.ids hid, ?_, ?_, hwf.strKids⟩, ?_, hpos, ?_⟩,
    ⟨?_, ?_, ?_⟩⟩
  · intro x hx
    rcases List.mem_append.1 hx with hx | hx
    · exact hwf.tyOk x hx
    · have : x = r2 := by simpa using hx
      rw [this, hty]; decide
  · intro x hx hxt
    rcases List.mem_append.1 hx with hx | hx
    · exact hwf.strRow x hx hxt
    · have : x = r2 := by simpa using hx
      rw [this, hty] at hxt; cases hxt
  · intro x hx hxt
    rcases List.mem_append.1 hx with hx | hx
    · show x.len = some (((L'.filter (fun y => y.kid == x.id)).length : Nat) : Int)
      rw [hoth x.id (hne_id x hx)]
      exact hw.listLen x hx hxt
    · have : x = r2 := by simpa using hx
      rw [this]; exact hlen
  · intro x hx
    by_cases hxk : x.kid = r2.id
    · exact ⟨r2, by simp, hxk.symm⟩
    · have hx' : x ∈ L'.filter (fun y => y.kid == x.kid) := List.mem_filter.2 ⟨hx, by simp⟩
      rw [hoth x.kid hxk] at hx'
      obtain ⟨r', hr', hrid⟩ := hw.listOwner x (List.mem_filter.1 hx').1
      exact ⟨r', List.mem_append_left _ hr', hrid⟩
  · intro k'
    show ({ db with keys := db.keys ++ [r2] } : DB).findKey k' = _
    rw [← hkey]; exact findKey_append hnone k'
  · rw [absVal_list hty]; rfl
  · intro r' hr' _
    apply absVal_congr <;> try rfl
    exact hoth r'.id (hne_id r' hr')

/-- What a list write does to the abstract keyspace. -/
theorem _root_.Redka.Spec.Stored.abs_lwf {db db2 : DB} {k : Bytes} {r : KeyRow} {v : SVal} (hw : db.LWF) (hw2 : db2.LWF)
    (h : Stored db db2 k r v) (now : Int) :
    abs now db2 = purge now (put (abs now db) k ⟨v, r.etime⟩) :=
  h.abs hw.wf.names hw2.wf.names now

/-! ### deleting rows: `listDeleteRows` in closed form -/

/-- trigger `rlist_on_delete`, fired once -/
def delKey (now : Int) (o : KeyRow) : KeyRow :=
  { o with version := o.version + 1, mtime := now, len := o.len.map (· - 1) }

/-- … fired `n` times -/
def delN (now : Int) : Nat → KeyRow → KeyRow
  | 0, o => o
  | n + 1, o => delN now n (delKey now o)

theorem delN_id (now : Int) : ∀ (n : Nat) (o : KeyRow), (delN now n o).id = o.id
  | 0, _ => rfl
  | n + 1, o => by rw [delN, delN_id now n]; rfl

theorem delN_key (now : Int) : ∀ (n : Nat) (o : KeyRow), (delN now n o).key = o.key
  | 0, _ => rfl
  | n + 1, o => by rw [delN, delN_key now n]; rfl

theorem delN_ty (now : Int) : ∀ (n : Nat) (o : KeyRow), (delN now n o).ty = o.ty
  | 0, _ => rfl
  | n + 1, o => by rw [delN, delN_ty now n]; rfl

theorem delN_etime (now : Int) : ∀ (n : Nat) (o : KeyRow), (delN now n o).etime = o.etime
  | 0, _ => rfl
  | n + 1, o => by rw [delN, delN_etime now n]; rfl

theorem delN_len (now : Int) : ∀ (n : Nat) (o : KeyRow),
    (delN now n o).len = o.len.map (· - (n : Int))
  | 0, o => by cases h : o.len <;> simp [delN, h]
  | n + 1, o => by
    rw [delN, delN_len now n]
    cases h : o.len <;> simp [delKey, h]
    omega

theorem updKey_updKey (db : DB) (id : Int) (f g : KeyRow → KeyRow) (hf : ∀ o, (f o).id = o.id) :
    (db.updKey id f).updKey id g = db.updKey id (fun o => g (f o)) := by
  unfold updKey
  simp only [List.map_map]
  congr 1
  apply List.map_congr_left
  intro x _
  simp only [Function.comp]
  by_cases h : x.id = id
  · simp [h, hf]
  · simp [h]

theorem foldl_onDelete (kid now : Int) : ∀ (V : List Dyadic) (db : DB),
    V.foldl (fun d _ => listOnDelete d kid now) db = db.updKey kid (delN now V.length)
  | [], db => by
    show db = db.updKey kid (fun o => o)
    simp [updKey]
  | _ :: V, db => by
    rw [List.foldl_cons, foldl_onDelete kid now V]
    show (db.updKey kid (delKey now)).updKey kid (delN now V.length) = _
    exact updKey_updKey db kid (delKey now) (delN now V.length) (fun _ => rfl)

theorem listDeleteRows_eq (db : DB) (kid : Int) (V : List Dyadic) (now : Int) :
    listDeleteRows db kid V now
      = { db.updKey kid (delN now V.length) with
          lists := db.lists.filter (fun r => !(r.kid == kid && V.contains r.pos)) } := by
  unfold listDeleteRows
  simp only []
  rw [foldl_onDelete]
  rfl

theorem filter_pos_victims {rows S : List ListRow} (hs : PosSorted rows) (hsub : ∀ x ∈ S, x ∈ rows) :
    rows.filter (fun x => !(S.map (·.pos)).contains x.pos) = rows.filter (fun x => !S.contains x) := by
  apply List.filter_congr
  intro x hx
  congr 1
  rw [Bool.eq_iff_iff]
  simp only [List.contains_eq_mem, decide_eq_true_eq, List.mem_map]
  constructor
  · rintro ⟨y, hy, hp⟩
    rw [← hs.pos_inj y (hsub y hy) x hx hp]; exact hy
  · intro h; exact ⟨x, h, rfl⟩

/-- Deleting the rows `S` of the list stored at `k`: the tables stay well-formed and the name now
stands for the list without those rows. -/
theorem deleteRows_step {db : DB} (hw : db.LWF) {k : Bytes} {r : KeyRow} (hf : db.findKey k = some r)
    (ht : r.ty = TList) (S : List ListRow) (hnd : S.Nodup) (hsub : ∀ x ∈ S, x ∈ listRows db r.id)
    (now : Int) :
    (listDeleteRows db r.id (S.map (·.pos)) now).LWF ∧
    Stored db (listDeleteRows db r.id (S.map (·.pos)) now) k (delN now S.length r)
      (.list (((listRows db r.id).filter (fun x => !S.contains x)).map (·.elem))) := by
  obtain ⟨ho, _⟩ := findKey_mem hf
  have hsorted := hw.rows_sorted r.id
  have hrows : rowsOf (db.lists.filter (fun x => !(x.kid == r.id && (S.map (·.pos)).contains x.pos))) r.id
      = (listRows db r.id).filter (fun x => !S.contains x) := by
    rw [rowsOf_delete hw.listPos, ← listRows_eq_rowsOf, filter_pos_victims hsorted hsub]
  rw [listDeleteRows_eq, List.length_map, updKey_const hw.wf.ids ho, ← hrows]
  apply listStore_old hw hf _ (delN_id _ _ _) (delN_key _ _ _) (by rw [delN_ty, ht])
  · intro id' hne; exact filter_other_delete _ hne _
  · exact hw.listPos.filter _
  · rw [delN_len, hw.len_eq ho ht, ← length_rowsOf, hrows]
    have := length_filter_not_mem hsorted.nodup hnd hsub
    simp only [Option.map_some, Option.some.injEq]
    omega

/-! ### pop -/

/-- One pop, in full: either nothing is there to pop (no visible list, or an empty one) and
nothing happens, or the end row is deleted and the name stands for the shortened list. -/
theorem listPop_cases {db : DB} (hw : db.LWF) (now : Int) (k : Bytes) (front : Bool) :
    (listPop db k front now = ⟨.error .notFound, db⟩ ∧
      Spec.listPop (abs now db) k front = er .notFound (abs now db) ∧
      (∀ l et, get (abs now db) k = some ⟨.list l, et⟩ → l = [])) ∨
    (∃ (r : KeyRow) (x : Bytes) (l' : List Bytes) (db1 : DB),
      db.findKey k = some r ∧ r.live now = true ∧
      get (abs now db) k = some ⟨.list (elems db r.id), r.etime⟩ ∧
      listPop db k front now = ⟨.ok (.bytes x), db1⟩ ∧ db1.LWF ∧
      Stored db db1 k (delN now 1 r) (.list l') ∧
      Spec.listPop (abs now db) k front = ok (.bytes x) (put (abs now db) k ⟨.list l', r.etime⟩) ∧
      (front = false → (elems db r.id).getLast? = some x ∧ l' = (elems db r.id).dropLast)) := by
  rcases lholder hw.wf now k with ⟨_, hg, hk⟩ | ⟨_, _, _, hg, hk⟩ | ⟨r, h, hl, ht, hg, hk⟩ |
    ⟨_, v, _, _, _, hg, hv, hk⟩
  · exact Or.inl ⟨by simp [listPop, hk, Res.err], by simp [Spec.listPop, hg], by simp [hg]⟩
  · exact Or.inl ⟨by simp [listPop, hk, Res.err], by simp [Spec.listPop, hg], by simp [hg]⟩
  · have hsorted := hw.rows_sorted r.id
    cases front with
    | true =>
      cases hrows : listRows db r.id with
      | nil =>
        have hel : elems db r.id = [] := by simp [elems, hrows]
        refine Or.inl ⟨by simp [listPop, hk, hrows, Res.err], by simp [Spec.listPop, hg, hel], ?_⟩
        intro l et hl'
        rw [hg] at hl'; cases hl'; exact hel
      | cons row xs =>
        have hel : elems db r.id = row.elem :: xs.map (·.elem) := by simp [elems, hrows]
        obtain ⟨hw2, hst⟩ := deleteRows_step hw h ht [row] (by simp)
          (by intro x hx; rw [hrows]; simp at hx; simp [hx]) now
        rw [hrows, filter_not_head (hrows ▸ hsorted.nodup)] at hst
        have hst : Stored db (listDeleteRows db r.id [row.pos] now) k (delN now 1 r)
            (.list (xs.map (·.elem))) := hst
        have hw2 : (listDeleteRows db r.id [row.pos] now).LWF := hw2
        refine Or.inr ⟨r, row.elem, xs.map (·.elem), listDeleteRows db r.id [row.pos] now, h, hl, hg,
          by simp [listPop, hk, hrows, Res.ok], hw2, hst, by simp [Spec.listPop, hg, hel], ?_⟩
        intro hc; cases hc
    | false =>
      cases hlast : (listRows db r.id).getLast? with
      | none =>
        have hrows : listRows db r.id = [] := List.getLast?_eq_none_iff.1 hlast
        have hel : elems db r.id = [] := by simp [elems, hrows]
        refine Or.inl ⟨by simp [listPop, hk, hlast, Res.err], by simp [Spec.listPop, hg, hel], ?_⟩
        intro l et hl'
        rw [hg] at hl'; cases hl'; exact hel
      | some row =>
        obtain ⟨ys, hrows⟩ := List.getLast?_eq_some_iff.1 hlast
        have hel : elems db r.id = ys.map (·.elem) ++ [row.elem] := by simp [elems, hrows]
        obtain ⟨hw2, hst⟩ := deleteRows_step hw h ht [row] (by simp)
          (by intro x hx; rw [hrows]; simp at hx; simp [hx]) now
        rw [hrows, filter_not_last (hrows ▸ hsorted.nodup)] at hst
        have hst : Stored db (listDeleteRows db r.id [row.pos] now) k (delN now 1 r)
            (.list (ys.map (·.elem))) := hst
        have hw2 : (listDeleteRows db r.id [row.pos] now).LWF := hw2
        refine Or.inr ⟨r, row.elem, ys.map (·.elem), listDeleteRows db r.id [row.pos] now, h, hl, hg,
          by simp [listPop, hk, hlast, Res.ok], hw2, hst, by simp [Spec.listPop, hg, hel], ?_⟩
        intro _; simp [hel]
  · refine Or.inl ⟨by simp [listPop, hk, Res.err], ?_, ?_⟩
    · cases v <;> first | exact absurd rfl (hv _) | simp [Spec.listPop, hg]
    · intro l et hl'
      rw [hg] at hl'; cases hl'; exact absurd rfl (hv _)

theorem listPop_refines {db : DB} (hw : db.LWF) (now : Int) (k : Bytes) (front : Bool) :
    Refines now (update (fun d => listPop d k front now) db) (Spec.listPop (abs now db) k front) := by
  rcases listPop_cases hw now k front with ⟨hm, hs, _⟩ |
    ⟨r, x, l', db1, _, _, _, hm, hw2, hst, hs, _⟩
  · simp [Refines, update, hm, hs, Spec.er, purge_abs hw.wf.names]
  · have ha := hst.abs_lwf hw hw2 now
    rw [delN_etime] at ha
    simp [Refines, update, hm, hs, Spec.ok, ha]

/-! ### removing occurrences and trimming: one core lemma -/

/-- Deleting the rows `S` of the visible list at `k` against a specification step that shortens
the list to `l'` and reports the difference in length. -/
theorem delete_core {db : DB} (hw : db.LWF) {now : Int} {k : Bytes} {r : KeyRow}
    (h : db.findKey k = some r) (ht : r.ty = TList)
    (hg : get (abs now db) k = some ⟨.list (elems db r.id), r.etime⟩)
    (S : List ListRow) (hnd : S.Nodup) (hsub : ∀ x ∈ S, x ∈ listRows db r.id) (l' : List Bytes)
    (hl' : ((listRows db r.id).filter (fun x => !S.contains x)).map (·.elem) = l') :
    Refines now ⟨.ok (.int S.length), listDeleteRows db r.id (S.map (·.pos)) now⟩
      (Spec.ok (.int (((elems db r.id).length : Int) - l'.length))
        (if l'.length == (elems db r.id).length then abs now db
         else put (abs now db) k ⟨.list l', r.etime⟩)) := by
  obtain ⟨hw2, hst⟩ := deleteRows_step hw h ht S hnd hsub now
  have ha := hst.abs_lwf hw hw2 now
  rw [hl', delN_etime] at ha
  have hcount := length_filter_not_mem (hw.rows_sorted r.id).nodup hnd hsub
  have hlen' : l'.length + S.length = (elems db r.id).length := by
    rw [← hl', List.length_map, length_elems]; exact hcount
  refine ⟨?_, ?_⟩
  · simp only [Spec.ok]
    congr 2
    omega
  · simp only [Spec.ok]
    rw [ha]
    split
    · rename_i heq
      have heq : l'.length = (elems db r.id).length := by simpa using heq
      have hall : (listRows db r.id).filter (fun x => !S.contains x) = listRows db r.id := by
        apply List.filter_eq_self.2
        apply List.length_filter_eq_length_iff.1
        have := congrArg List.length hl'
        rw [List.length_map] at this
        rw [this, heq, length_elems]
      have hl'e : l' = elems db r.id := by rw [← hl', hall]; rfl
      rw [hl'e, put_same (sorted_abs hw.wf.names now) hg]
    · rfl

theorem mem_rows_of_filter {rows : List ListRow} {q : ListRow → Bool} :
    ∀ x ∈ rows.filter q, x ∈ rows := fun _ hx => (List.mem_filter.1 hx).1

theorem listDelete_refines {db : DB} (hw : db.LWF) (now : Int) (k e : Bytes) :
    Refines now (update (fun d => listDelete d k e now) db) (Spec.listDeleteAll (abs now db) k e) := by
  rcases lholder hw.wf now k with ⟨_, hg, hk⟩ | ⟨_, _, _, hg, hk⟩ | ⟨r, h, _, ht, hg, hk⟩ |
    ⟨_, v, _, _, _, hg, hv, hk⟩
  · simp [Refines, update, listDelete, hk, Res.ok, Spec.listDeleteAll, hg, Spec.ok,
      purge_abs hw.wf.names]
  · simp [Refines, update, listDelete, hk, Res.ok, Spec.listDeleteAll, hg, Spec.ok,
      purge_abs hw.wf.names]
  · have hsorted := hw.rows_sorted r.id
    have hcore := delete_core hw h ht hg ((listRows db r.id).filter (fun x => x.elem == e))
      (hsorted.nodup.sublist List.filter_sublist) mem_rows_of_filter
      ((elems db r.id).filter (fun x => !(x == e)))
      (by rw [filter_not_filter, elems, List.filter_map]; rfl)
    simp only [update, listDelete, hk, Res.ok, Spec.listDeleteAll, hg, List.length_map]
    exact hcore
  · cases v <;> first | exact absurd rfl (hv _) |
      simp [Refines, update, listDelete, hk, Res.ok, Spec.listDeleteAll, hg, Spec.ok,
        purge_abs hw.wf.names]

theorem sqlLimit_zero_pos {α : Type} {n : Int} (hn : ¬ n ≤ 0) (l : List α) :
    sqlLimit 0 n l = l.take n.toNat := by
  have : ¬ n < 0 := by omega
  simp [sqlLimit, this]

theorem listDeleteN_refines {db : DB} (hw : db.LWF) (now : Int) (k e : Bytes) (n : Int) (back : Bool) :
    Refines now (update (fun d => listDeleteN d k e n back now) db)
      (Spec.listDeleteN (abs now db) k e n back) := by
  by_cases hn : n ≤ 0
  · simp [Refines, update, listDeleteN, hn, Res.ok, Spec.listDeleteN, Spec.ok, purge_abs hw.wf.names]
  rcases lholder hw.wf now k with ⟨_, hg, hk⟩ | ⟨_, _, _, hg, hk⟩ | ⟨r, h, _, ht, hg, hk⟩ |
    ⟨_, v, _, _, _, hg, hv, hk⟩
  · simp [Refines, update, listDeleteN, hn, hk, Res.ok, Spec.listDeleteN, hg, Spec.ok,
      purge_abs hw.wf.names]
  · simp [Refines, update, listDeleteN, hn, hk, Res.ok, Spec.listDeleteN, hg, Spec.ok,
      purge_abs hw.wf.names]
  · have hsorted := hw.rows_sorted r.id
    have hfn : ((listRows db r.id).filter (fun x => x.elem == e)).Nodup :=
      hsorted.nodup.sublist List.filter_sublist
    cases back with
    | false =>
      have hcore := delete_core hw h ht hg (((listRows db r.id).filter (fun x => x.elem == e)).take n.toNat)
        (hfn.sublist (List.take_sublist _ _))
        (fun x hx => mem_rows_of_filter x (List.mem_of_mem_take hx))
        (Spec.removeFirstN e n.toNat (elems db r.id))
        (removeFirstN_rows (·.elem) e _ _ hsorted.nodup)
      simp only [update, listDeleteN, hn, if_false, hk, Res.ok, Spec.listDeleteN, hg,
        Bool.false_eq_true, sqlLimit_zero_pos hn, List.length_map]
      exact hcore
    | true =>
      have hcore := delete_core hw h ht hg
        (((listRows db r.id).filter (fun x => x.elem == e)).reverse.take n.toNat)
        ((nodup_reverse' hfn).sublist (List.take_sublist _ _))
        (fun x hx => mem_rows_of_filter x (List.mem_reverse.1 (List.mem_of_mem_take hx)))
        (Spec.removeLastN e n.toNat (elems db r.id))
        (removeLastN_rows (·.elem) e _ _ hsorted.nodup)
      simp only [update, listDeleteN, hn, if_false, hk, Res.ok, Spec.listDeleteN, hg,
        if_true, sqlLimit_zero_pos hn, List.length_map]
      exact hcore
  · cases v <;> first | exact absurd rfl (hv _) |
      simp [Refines, update, listDeleteN, hn, hk, Res.ok, Spec.listDeleteN, hg, Spec.ok,
        purge_abs hw.wf.names]

/-! ### trim -/

theorem sqlLimit_sublist {α : Type} (s c : Int) (l : List α) : (sqlLimit s c l).Sublist l := by
  unfold sqlLimit
  simp only []
  split
  · exact List.drop_sublist _ _
  · exact (List.take_sublist _ _).trans (List.drop_sublist _ _)

theorem modelTrimKeep_sublist {α : Type} (l : List α) (a b : Int) : (modelTrimKeep l a b).Sublist l := by
  rw [modelTrimKeep_eq]; exact sqlLimit_sublist _ _ _

theorem modelTrimKeep_map {α β : Type} (f : α → β) (l : List α) (a b : Int) :
    modelTrimKeep (l.map f) a b = (modelTrimKeep l a b).map f := by
  rw [modelTrimKeep_eq, modelTrimKeep_eq, List.length_map, sqlLimit_map]

theorem listTrim_refines {db : DB} (hw : db.LWF) (now : Int) (k : Bytes) (a b : Int) :
    Refines now (update (fun d => listTrim d k a b now) db) (Spec.listTrim (abs now db) k a b) := by
  rcases lholder hw.wf now k with ⟨_, hg, hk⟩ | ⟨_, _, _, hg, hk⟩ | ⟨r, h, _, ht, hg, hk⟩ |
    ⟨_, v, _, _, _, hg, hv, hk⟩
  · simp [Refines, update, listTrim, hk, Res.ok, Spec.listTrim, hg, Spec.ok, purge_abs hw.wf.names]
  · simp [Refines, update, listTrim, hk, Res.ok, Spec.listTrim, hg, Spec.ok, purge_abs hw.wf.names]
  · have hsorted := hw.rows_sorted r.id
    have hlen := hw.len_eq (findKey_mem h).1 ht
    cases hrows : listRows db r.id with
    | nil =>
      have hel : elems db r.id = [] := by simp [elems, hrows]
      simp [Refines, update, listTrim, hk, hrows, Res.ok, Spec.listTrim, hg, hel, Spec.ok,
        Spec.ltrim, lrange_nil, purge_abs hw.wf.names]
    | cons row xs =>
      have hkeep_sub := modelTrimKeep_sublist (listRows db r.id) a b
      have hwin : rangeWindow r.len a b (listRows db r.id) = some (modelTrimKeep (listRows db r.id) a b) := by
        rw [hlen, rangeWindow_some, modelTrimKeep_eq]
      have hS : (listRows db r.id).filter
            (fun x => !((modelTrimKeep (listRows db r.id) a b).map (·.pos)).contains x.pos)
          = (listRows db r.id).filter (fun x => !(modelTrimKeep (listRows db r.id) a b).contains x) :=
        filter_pos_victims hsorted (fun x hx => hkeep_sub.subset hx)
      have hcore := delete_core hw h ht hg
        ((listRows db r.id).filter (fun x => !(modelTrimKeep (listRows db r.id) a b).contains x))
        (hsorted.nodup.sublist List.filter_sublist) mem_rows_of_filter
        (Spec.ltrim (elems db r.id) a b)
        (by
          rw [filter_not_filter]
          simp only [Bool.not_not]
          rw [filter_mem_sublist hkeep_sub hsorted.nodup, ← modelTrimKeep_map,
            Redka.Props.C02.trim_refines _ a b]
          rfl)
      have hne : (listRows db r.id).isEmpty = false := by rw [hrows]; rfl
      simp only [update, listTrim, hk, hne, Bool.false_eq_true, if_false, hwin, hS, Res.ok,
        Spec.listTrim, hg, List.length_map]
      exact hcore
  · cases v <;> first | exact absurd rfl (hv _) |
      simp [Refines, update, listTrim, hk, Res.ok, Spec.listTrim, hg, Spec.ok, purge_abs hw.wf.names]

/-! ### set by index -/

/-- trigger `rlist_on_update` -/
def updRow (now : Int) (o : KeyRow) : KeyRow := { o with version := o.version + 1, mtime := now }

theorem map_setElem_eq_set (e : Bytes) (row : ListRow) : ∀ (rows : List ListRow) (j : Nat),
    rows[j]? = some row → PosSorted rows →
    (rows.map (fun x => if x.pos == row.pos then { x with elem := e } else x)).map (·.elem)
      = (rows.map (·.elem)).set j e
  | [], _, h, _ => by simp at h
  | x :: xs, 0, h, hs => by
    have hx : x = row := by simpa using h
    subst hx
    have hs' := List.pairwise_cons.1 hs
    simp only [List.map_cons, List.set_cons_zero, beq_self_eq_true, if_true]
    congr 1
    rw [List.map_map]
    apply List.map_congr_left
    intro y hy
    have : ¬ y.pos = x.pos := fun he => dy_lt_irrefl _ (he ▸ of_decide_eq_true (hs'.1 y hy))
    simp [this]
  | x :: xs, j + 1, h, hs => by
    have hs' := List.pairwise_cons.1 hs
    have h' : xs[j]? = some row := by simpa using h
    have hmem : row ∈ xs := List.mem_of_getElem? h'
    have : ¬ x.pos = row.pos := dy_ne_of_lt (of_decide_eq_true (hs'.1 row hmem))
    have hb : (x.pos == row.pos) = false := by simpa using this
    simp only [List.map_cons, List.set_cons_succ, hb, Bool.false_eq_true, if_false]
    rw [map_setElem_eq_set e row xs j h' hs'.2]

theorem lindexPos_lt {n : Nat} {i : Int} {j : Nat} (h : Spec.lindexPos n i = some j) : j < n := by
  unfold Spec.lindexPos at h
  simp only [] at h
  split at h
  · cases h
  · rename_i hc
    simp only [Option.some.injEq] at h
    omega

theorem listSet_refines {db : DB} (hw : db.LWF) (now : Int) (k : Bytes) (i : Int) (e : Bytes) :
    Refines now (update (fun d => listSet d k i e now) db) (Spec.listSet (abs now db) k i e) := by
  rcases lholder hw.wf now k with ⟨_, hg, hk⟩ | ⟨_, _, _, hg, hk⟩ | ⟨r, h, _, ht, hg, hk⟩ |
    ⟨_, v, _, _, _, hg, hv, hk⟩
  · simp [Refines, update, listSet, hk, Res.err, Spec.listSet, hg, Spec.er, purge_abs hw.wf.names]
  · simp [Refines, update, listSet, hk, Res.err, Spec.listSet, hg, Spec.er, purge_abs hw.wf.names]
  · obtain ⟨ho, _⟩ := findKey_mem h
    have hsorted := hw.rows_sorted r.id
    have hlen := hw.len_eq ho ht
    have hrow : listRowAt db r.id i
        = (Spec.lindexPos (listRows db r.id).length i).bind (fun j => (listRows db r.id)[j]?) := by
      rw [listRowAt_eq, modelIndex_eq_pos, modelIndexPos_eq]
    have hspec : Spec.lset (elems db r.id) i e
        = (Spec.lindexPos (listRows db r.id).length i).map (fun j => (elems db r.id).set j e) := by
      rw [lset_eq_map, length_elems]
    cases hp : Spec.lindexPos (listRows db r.id).length i with
    | none =>
      rw [hp] at hrow hspec
      simp [Refines, update, listSet, hk, hrow, Res.err, Spec.listSet, hg, hspec, Spec.er,
        purge_abs hw.wf.names]
    | some j =>
      rw [hp] at hrow hspec
      have hj := lindexPos_lt hp
      have hget : (listRows db r.id)[j]? = some (listRows db r.id)[j] := List.getElem?_eq_getElem hj
      simp only [Option.bind_some, hget] at hrow
      simp only [Option.map_some] at hspec
      generalize hrowdef : (listRows db r.id)[j] = row at hrow hget
      obtain ⟨hw2, hst⟩ := listStore_old hw h (updRow now r) rfl rfl ht
        (db.lists.map (setElemRow r.id row.pos e))
        (fun id' hne => filter_other_setElem _ hne _ _) (hw.listPos.setElem _ _ _)
        (by rw [filter_setElem]; exact hw.listLen r ho ht)
      have ha := hst.abs_lwf hw hw2 now
      rw [rowsOf_setElem, ← listRows_eq_rowsOf, map_setElem_eq_set e row _ j hget hsorted] at ha
      have hdb : ({ listOnUpdate db r.id now with
            lists := (listOnUpdate db r.id now).lists.map (fun x =>
              if x.kid == r.id && x.pos == row.pos then { x with elem := e } else x) } : DB)
          = { db.updKey r.id (fun _ => updRow now r) with
              lists := db.lists.map (setElemRow r.id row.pos e) } := by
        have := updKey_const hw.wf.ids ho (updRow now)
        rw [← this]; rfl
      simp only [Refines, update, listSet, hk, hrow, Res.ok, hdb, Spec.listSet, hg, hspec, Spec.ok]
      exact ⟨trivial, ha⟩
  · cases v <;> first | exact absurd rfl (hv _) |
      simp [Refines, update, listSet, hk, Res.err, Spec.listSet, hg, Spec.er, purge_abs hw.wf.names]

/-! ### push -/

/-- the position `sqlPushBack` / `sqlPushFront` computes for a new element of list `kid` -/
def pushPos (L : List ListRow) (kid : Int) (front : Bool) : Dyadic :=
  let ps := (L.filter (fun x => x.kid == kid)).map (·.pos)
  if front then (match dyMin ps with | none => 0 | some m => round53 (m - 1))
  else (match dyMax ps with | none => 0 | some m => round53 (m + 1))

def pushNew (k : Bytes) (now : Int) (id : Int) : KeyRow :=
  { id := id, key := k, ty := TList, version := 1, etime := none, mtime := now, len := some 1 }

def pushOld (now : Int) (o : KeyRow) : KeyRow :=
  { o with version := o.version + 1, mtime := now, len := o.len.map (· + 1) }

theorem pushNew_id (k : Bytes) (now id : Int) : (pushNew k now id).id = id := rfl
theorem pushNew_len (k : Bytes) (now id : Int) : (pushNew k now id).len = some 1 := rfl
theorem pushOld_id (now : Int) (o : KeyRow) : (pushOld now o).id = o.id := rfl

theorem updKey_lists (db : DB) (id : Int) (f : KeyRow → KeyRow) : (db.updKey id f).lists = db.lists := rfl

theorem listPushKey_eq (db : DB) (k : Bytes) (now : Int) :
    listPushKey db k now = keyUpsert db k TList (pushNew k now) (pushOld now) := rfl

theorem listPush_eq (db : DB) (k e : Bytes) (front : Bool) (now : Int) :
    listPush db k e front now =
      match listPushKey db k now with
      | .error er => .err er db
      | .ok (db1, r) =>
        if ((db1.lists.filter (fun x => x.kid == r.id)).map (·.pos)).contains
            (pushPos db1.lists r.id front) then .err .sqlUnique db1
        else
          .ok (match r.len with | some n => .int n | none => .nil)
            { db1 with lists := db1.lists ++
                [{ kid := r.id, pos := pushPos db1.lists r.id front, elem := e }] } := rfl

/-- the new position is beyond the end it is pushed to: greater than every position of the list
for a push to the back, smaller for a push to the front -/
def pushRoom (L : List ListRow) (kid : Int) (front : Bool) : Bool :=
  (L.filter (fun x => x.kid == kid)).all (fun x =>
    if front then decide (pushPos L kid front < x.pos) else decide (x.pos < pushPos L kid front))

/-- `Spacious` for a push, judged on the tables as `sqlPush` leaves them -/
def pushSpacious (db : DB) (k : Bytes) (front : Bool) (now : Int) : Bool :=
  match listPushKey db k now with
  | .error _ => true
  | .ok (db1, r) => pushRoom db1.lists r.id front

theorem rowsOf_nil_of_filter {L : List ListRow} {kid : Int}
    (h : L.filter (fun x => x.kid == kid) = []) : rowsOf L kid = [] := by
  unfold rowsOf; rw [h]; rfl

theorem listPush_refines {db : DB} (hw : db.LWF) {now : Int} {k : Bytes}
    (hns : staleKey db now k = false) (e : Bytes) (front : Bool)
    (hsp : pushSpacious db k front now = true) :
    Refines now (update (fun d => listPush d k e front now) db)
      (Spec.listPush (abs now db) k e front) := by
  rcases lholder hw.wf now k with ⟨h, hg, _⟩ | ⟨_, h, hl, _, _⟩ | ⟨r, h, _, ht, hg, _⟩ |
    ⟨r, v, h, _, ht, hg, hv, _⟩
  · -- a fresh key
    have hup := keyUpsert_new (ty := TList) (onNew := pushNew k now) (onOld := pushOld now) h
    have hnil := hw.no_rows_fresh
    have hpp : pushPos db.lists db.nextKeyId front = 0 := by
      unfold pushPos; simp only [hnil, List.map_nil, dyMin, dyMax]; cases front <;> rfl
    obtain ⟨hw2, hst⟩ := listStore_new hw h (pushNew k now db.nextKeyId) rfl rfl rfl
      (db.lists ++ [{ kid := db.nextKeyId, pos := 0, elem := e }])
      (fun id' hne => filter_other_append _ hne _ _)
      (hw.listPos.append e (by
        intro x hx hk
        have : x ∈ db.lists.filter (fun y => y.kid == db.nextKeyId) :=
          List.mem_filter.2 ⟨hx, by simpa using hk⟩
        rw [hnil] at this; cases this))
      (by
        show some (1 : Int) = some ((((db.lists ++ [({ kid := db.nextKeyId, pos := 0, elem := e } : ListRow)]).filter
          (fun x => x.kid == db.nextKeyId)).length : Nat) : Int)
        rw [filter_self_append_length, hnil]; rfl)
    have ha := hst.abs_lwf hw hw2 now
    have hrows : rowsOf (db.lists ++ [({ kid := db.nextKeyId, pos := 0, elem := e } : ListRow)])
        (pushNew k now db.nextKeyId).id = [{ kid := db.nextKeyId, pos := 0, elem := e }] := by
      have hsplit : rowsOf db.lists db.nextKeyId = [] ++ [] := rowsOf_nil_of_filter hnil
      exact rowsOf_insert (hw.listPos.append e (by
          intro x hx hk
          have : x ∈ db.lists.filter (fun y => y.kid == db.nextKeyId) :=
            List.mem_filter.2 ⟨hx, by simpa using hk⟩
          rw [hnil] at this; cases this)) hsplit List.Pairwise.nil
        (by intro x hx; cases hx) (by intro x hx; cases hx)
    rw [hrows] at ha
    simp only [Refines, update, listPush_eq, listPushKey_eq, hup, pushNew_id, pushNew_len, hnil, hpp,
      List.map_nil, List.contains_nil, Bool.false_eq_true, if_false, Res.ok, Spec.listPush, hg, Spec.ok]
    exact ⟨trivial, ha⟩
  · exact (Holder.not_stale hns h hl).elim
  · -- an existing list
    obtain ⟨ho, _⟩ := findKey_mem h
    have hup := keyUpsert_old (onNew := pushNew k now) (onOld := pushOld now) h ht
    have hsorted := hw.rows_sorted r.id
    have hlen := hw.len_eq ho ht
    have hroom : pushRoom db.lists r.id front = true := by
      have := hsp
      simp only [pushSpacious, listPushKey_eq, hup] at this
      exact this
    unfold pushRoom at hroom
    generalize hp : pushPos db.lists r.id front = p at hroom
    have hroom' : ∀ x ∈ listRows db r.id,
        if front then p < x.pos else x.pos < p := by
      intro x hx
      have hx' : x ∈ db.lists.filter (fun y => y.kid == r.id) := by
        have := (mem_rowsOf.1 hx); exact List.mem_filter.2 ⟨this.1, by simpa using this.2⟩
      have := List.all_eq_true.1 hroom x hx'
      cases front <;> simpa using this
    have hfresh : ∀ x ∈ db.lists, x.kid = r.id → x.pos ≠ p := by
      intro x hx hk he
      have := hroom' x (mem_rowsOf.2 ⟨hx, hk⟩)
      cases front <;> simp [he] at this <;> exact dy_lt_irrefl _ this
    have hnc : ((db.lists.filter (fun x => x.kid == r.id)).map (·.pos)).contains p = false := by
      rw [List.contains_eq_mem, decide_eq_false_iff_not, List.mem_map]
      rintro ⟨x, hx, hxp⟩
      have := List.mem_filter.1 hx
      exact hfresh x this.1 (by simpa using this.2) hxp
    have hpn := hw.listPos.append e hfresh
    obtain ⟨hw2, hst⟩ := listStore_old hw h (pushOld now r) rfl rfl ht
      (db.lists ++ [{ kid := r.id, pos := p, elem := e }])
      (fun id' hne => filter_other_append _ hne _ _) hpn
      (by
        rw [filter_self_append_length]
        show r.len.map (· + 1) = _
        rw [hw.listLen r ho ht]; simp)
    have ha := hst.abs_lwf hw hw2 now
    have hout : (pushOld now r).len = some (((elems db r.id).length + 1 : Nat) : Int) := by
      show r.len.map (· + 1) = _
      rw [hlen, length_elems]; simp
    cases front with
    | false =>
      have hrows : rowsOf (db.lists ++ [({ kid := r.id, pos := p, elem := e } : ListRow)]) r.id
          = listRows db r.id ++ [{ kid := r.id, pos := p, elem := e }] := by
        have hsplit : rowsOf db.lists r.id = listRows db r.id ++ [] := by simp [listRows_eq_rowsOf]
        exact rowsOf_insert hpn hsplit (by simpa using hsorted)
          (by intro x hx; simpa using hroom' x hx) (by intro x hx; cases hx)
      rw [hrows] at ha
      simp only [Refines, update, listPush_eq, listPushKey_eq, hup, pushOld_id, updKey_lists, hp, hnc,
        Bool.false_eq_true, if_false, Res.ok, hout, Spec.listPush, hg, Spec.ok]
      refine ⟨by simp, ?_⟩
      rw [ha]; simp [elems, pushOld]
    | true =>
      have hrows : rowsOf (db.lists ++ [({ kid := r.id, pos := p, elem := e } : ListRow)]) r.id
          = { kid := r.id, pos := p, elem := e } :: listRows db r.id := by
        have hsplit : rowsOf db.lists r.id = [] ++ listRows db r.id := by simp [listRows_eq_rowsOf]
        exact rowsOf_insert hpn hsplit (by simpa using hsorted)
          (by intro x hx; cases hx) (by intro x hx; simpa using hroom' x hx)
      rw [hrows] at ha
      simp only [Refines, update, listPush_eq, listPushKey_eq, hup, pushOld_id, updKey_lists, hp, hnc,
        Bool.false_eq_true, if_false, Res.ok, hout, Spec.listPush, hg, Spec.ok]
      refine ⟨by simp, ?_⟩
      rw [ha]; simp [elems, pushOld]
  · have hup := keyUpsert_other (onNew := pushNew k now) (onOld := pushOld now) h ht
    cases v <;> first | exact absurd rfl (hv _) |
      simp [Refines, update, listPush_eq, listPushKey_eq, hup, Res.err, Spec.listPush, hg, Spec.er,
        purge_abs hw.wf.names]

/-! ### insert next to a pivot -/

/-- the position of the first row holding `p` (the pivot `sqlInsertAfter` / `sqlInsertBefore`
pick with `min(pos)`) -/
def pivotPos (rows : List ListRow) (p : Bytes) : Option Dyadic :=
  dyMin ((rows.filter (fun x => x.elem == p)).map (·.pos))

/-- the position the insert statement computes for the new row; `none` without a pivot -/
def insertPos (rows : List ListRow) (p : Bytes) (after : Bool) : Option Dyadic :=
  match pivotPos rows p with
  | none => none
  | some pv =>
    some (if after then
        (match dyMin ((rows.filter (fun x => decide (pv < x.pos))).map (·.pos)) with
         | none => round53 (pv + 1)
         | some nx => mid53 pv nx)
      else
        (match dyMax ((rows.filter (fun x => decide (x.pos < pv))).map (·.pos)) with
         | none => round53 (pv - 1)
         | some pr => mid53 pr pv))

def insKey (now : Int) (o : KeyRow) : KeyRow :=
  { o with version := o.version + 1, mtime := now, len := o.len.map (· + 1) }

theorem listInsert_eq (db : DB) (k p e : Bytes) (after : Bool) (now : Int) :
    listInsert db k p e after now =
      match db.liveKeyT k TList now with
      | none => .err .notFound db
      | some r0 =>
        match insertPos (listRows db r0.id) p after with
        | none => .err .pivotNotFound db
        | some np =>
          if ((listRows db r0.id).map (·.pos)).contains np then .err .sqlUnique db
          else .ok (match r0.len with | some n => .int (n + 1) | none => .nil)
            (({ db with lists := db.lists ++ [{ kid := r0.id, pos := np, elem := e }] } : DB).updKey
              r0.id (insKey now)) := by
  unfold listInsert insertPos pivotPos
  cases db.liveKeyT k TList now with
  | none => rfl
  | some r0 =>
    simp only []
    cases dyMin (((listRows db r0.id).filter (fun x => x.elem == p)).map (·.pos)) <;> rfl

/-- the new position splits the rows exactly where the pivot does: after the pivot and before
everything behind it (insert after), or before the pivot and after everything in front of it -/
def insertRoom (rows : List ListRow) (p : Bytes) (after : Bool) : Bool :=
  match pivotPos rows p, insertPos rows p after with
  | some pv, some np =>
    rows.all (fun x =>
      if after then (if decide (pv < x.pos) then decide (np < x.pos) else decide (x.pos < np))
      else (if decide (x.pos < pv) then decide (x.pos < np) else decide (np < x.pos)))
  | _, _ => true

theorem pivotPos_none {rows : List ListRow} {p : Bytes} (h : ∀ y ∈ rows, (y.elem == p) = false) :
    pivotPos rows p = none := by
  unfold pivotPos
  rw [List.filter_eq_nil_iff.2 (by intro a ha; simp [h a ha])]
  rfl

theorem pivotPos_split {pre post : List ListRow} {x : ListRow} {p : Bytes}
    (hs : PosSorted (pre ++ x :: post)) (hx : (x.elem == p) = true)
    (hpre : ∀ y ∈ pre, (y.elem == p) = false) : pivotPos (pre ++ x :: post) p = some x.pos := by
  unfold pivotPos
  have hs' := List.pairwise_append.1 hs
  have hxs := List.pairwise_cons.1 hs'.2.1
  rw [List.filter_append, List.filter_eq_nil_iff.2 (by intro a ha; simp [hpre a ha]),
    List.filter_cons, if_pos hx, List.nil_append, List.map_cons]
  apply dyMin_eq_of (by simp)
  intro y hy
  rcases List.mem_cons.1 hy with rfl | hy
  · exact Dyadic.le_refl _
  · obtain ⟨z, hz, rfl⟩ := List.mem_map.1 hy
    exact dy_le_of_lt (of_decide_eq_true (hxs.1 z (List.mem_filter.1 hz).1))

theorem listInsert_refines {db : DB} (hw : db.LWF) (now : Int) (k p e : Bytes) (after : Bool)
    (hsp : ∀ r, db.liveKeyT k TList now = some r → insertRoom (listRows db r.id) p after = true) :
    Refines now (update (fun d => listInsert d k p e after now) db)
      (Spec.listInsert (abs now db) k p e after) := by
  rcases lholder hw.wf now k with ⟨_, hg, hk⟩ | ⟨_, _, _, hg, hk⟩ | ⟨r, h, _, ht, hg, hk⟩ |
    ⟨_, v, _, _, _, hg, hv, hk⟩
  · simp [Refines, update, listInsert_eq, hk, Res.err, Spec.listInsert, hg, Spec.er,
      purge_abs hw.wf.names]
  · simp [Refines, update, listInsert_eq, hk, Res.err, Spec.listInsert, hg, Spec.er,
      purge_abs hw.wf.names]
  · obtain ⟨ho, _⟩ := findKey_mem h
    have hsorted := hw.rows_sorted r.id
    have hlen := hw.len_eq ho ht
    have hroom := hsp r hk
    rcases split_first (fun x : ListRow => x.elem == p) (listRows db r.id) with
      ⟨pre, x, post, hrows, hx, hpre⟩ | hall
    · -- the pivot is `x`
      rw [hrows] at hsorted
      have hpv : pivotPos (listRows db r.id) p = some x.pos := by
        rw [hrows]; exact pivotPos_split hsorted hx hpre
      have hel : elems db r.id = pre.map (·.elem) ++ x.elem :: post.map (·.elem) := by
        simp [elems, hrows]
      have hspec : Spec.insertAt p e after (elems db r.id)
          = some (if after then pre.map (·.elem) ++ x.elem :: e :: post.map (·.elem)
              else pre.map (·.elem) ++ e :: x.elem :: post.map (·.elem)) := by
        rw [hel]
        apply insertAt_split p e after x.elem hx
        intro y hy
        obtain ⟨z, hz, rfl⟩ := List.mem_map.1 hy
        exact hpre z hz
      cases hnp : insertPos (listRows db r.id) p after with
      | none => simp [insertPos, hpv] at hnp
      | some np =>
        simp only [insertRoom, hpv, hnp, List.all_eq_true] at hroom
        have hs' := List.pairwise_append.1 hsorted
        have hxs := List.pairwise_cons.1 hs'.2.1
        have hpre_lt : ∀ y ∈ pre, y.pos < x.pos :=
          fun y hy => of_decide_eq_true (hs'.2.2 y hy x (by simp))
        have hpost_gt : ∀ y ∈ post, x.pos < y.pos :=
          fun y hy => of_decide_eq_true (hxs.1 y hy)
        have hmem : ∀ y, y ∈ pre ∨ y = x ∨ y ∈ post → y ∈ listRows db r.id := by
          intro y hy; rw [hrows]; simp only [List.mem_append, List.mem_cons]; exact hy
        -- where the new position lies
        have hA : after = true → (∀ y ∈ pre ++ [x], y.pos < np) ∧ ∀ y ∈ post, np < y.pos := by
          intro ha
          subst ha
          refine ⟨?_, ?_⟩
          · intro y hy
            have hy' : y ∈ pre ∨ y = x := by simpa using hy
            have hr := hroom y (hmem y (by rcases hy' with h1 | h1; exact Or.inl h1; exact Or.inr (Or.inl h1)))
            have hnlt : ¬ x.pos < y.pos := by
              rcases hy' with h1 | h1
              · exact dy_lt_asymm (hpre_lt y h1)
              · rw [h1]; exact dy_lt_irrefl _
            simpa [hnlt] using hr
          · intro y hy
            have hr := hroom y (hmem y (Or.inr (Or.inr hy)))
            simpa [hpost_gt y hy] using hr
        have hB : after = false → (∀ y ∈ pre, y.pos < np) ∧ ∀ y ∈ x :: post, np < y.pos := by
          intro ha
          subst ha
          refine ⟨?_, ?_⟩
          · intro y hy
            have hr := hroom y (hmem y (Or.inl hy))
            simpa [hpre_lt y hy] using hr
          · intro y hy
            have hy' : y = x ∨ y ∈ post := by simpa using hy
            have hr := hroom y (hmem y (Or.inr hy'))
            have hnlt : ¬ y.pos < x.pos := by
              rcases hy' with h1 | h1
              · rw [h1]; exact dy_lt_irrefl _
              · exact dy_lt_asymm (hpost_gt y h1)
            simpa [hnlt] using hr
        have hfresh : ∀ y ∈ listRows db r.id, y.pos ≠ np := by
          intro y hy he
          rw [hrows] at hy
          have hy' : y ∈ pre ∨ y = x ∨ y ∈ post := by simpa using hy
          cases after with
          | true =>
            obtain ⟨h1, h2⟩ := hA rfl
            rcases hy' with h3 | h3 | h3
            · exact dy_lt_irrefl _ (he ▸ h1 y (by simp [h3]))
            · exact dy_lt_irrefl _ (he ▸ h1 y (by simp [h3]))
            · exact dy_lt_irrefl _ (he ▸ h2 y h3)
          | false =>
            obtain ⟨h1, h2⟩ := hB rfl
            rcases hy' with h3 | h3 | h3
            · exact dy_lt_irrefl _ (he ▸ h1 y h3)
            · exact dy_lt_irrefl _ (he ▸ h2 y (by simp [h3]))
            · exact dy_lt_irrefl _ (he ▸ h2 y (by simp [h3]))
        have hnc : ((listRows db r.id).map (·.pos)).contains np = false := by
          rw [List.contains_eq_mem, decide_eq_false_iff_not, List.mem_map]
          rintro ⟨y, hy, hyp⟩
          exact hfresh y hy hyp
        have hpn : PosNodup (db.lists ++ [{ kid := r.id, pos := np, elem := e }]) :=
          hw.listPos.append e (fun y hy hk' => hfresh y (mem_rowsOf.2 ⟨hy, hk'⟩))
        obtain ⟨hw2, hst⟩ := listStore_old hw h (insKey now r) rfl rfl ht
          (db.lists ++ [{ kid := r.id, pos := np, elem := e }])
          (fun id' hne => filter_other_append _ hne _ _) hpn
          (by
            rw [filter_self_append_length]
            show r.len.map (· + 1) = _
            rw [hw.listLen r ho ht]; simp)
        have ha := hst.abs_lwf hw hw2 now
        have hdb : (({ db with lists := db.lists ++ [{ kid := r.id, pos := np, elem := e }] } : DB).updKey
              r.id (insKey now))
            = { db.updKey r.id (fun _ => insKey now r) with
                lists := db.lists ++ [{ kid := r.id, pos := np, elem := e }] } := by
          have := updKey_const hw.wf.ids ho (insKey now)
          rw [← this]; rfl
        have hrowsNew : rowsOf (db.lists ++ [({ kid := r.id, pos := np, elem := e } : ListRow)]) r.id
            = if after then pre ++ x :: { kid := r.id, pos := np, elem := e } :: post
              else pre ++ { kid := r.id, pos := np, elem := e } :: x :: post := by
          cases after with
          | true =>
            obtain ⟨h1, h2⟩ := hA rfl
            have hsplit : rowsOf db.lists r.id = (pre ++ [x]) ++ post := by
              rw [← listRows_eq_rowsOf, hrows]; simp
            have := rowsOf_insert hpn hsplit (by simpa using hsorted) h1 h2
            simpa using this
          | false =>
            obtain ⟨h1, h2⟩ := hB rfl
            have hsplit : rowsOf db.lists r.id = pre ++ (x :: post) := by
              rw [← listRows_eq_rowsOf, hrows]
            have := rowsOf_insert hpn hsplit hsorted h1 h2
            simpa using this
        rw [hrowsNew] at ha
        simp only [Refines, update, listInsert_eq, hk, hnp, hnc, Bool.false_eq_true, if_false, Res.ok,
          hlen, hdb, Spec.listInsert, hg, hspec, Spec.ok]
        refine ⟨?_, ?_⟩
        · have hlr : (listRows db r.id).length = pre.length + post.length + 1 := by
            rw [hrows]; simp; omega
          cases after <;> simp [hlr] <;> omega
        · rw [ha]
          cases after <;> simp [insKey]
    · -- no pivot
      have hpv := pivotPos_none hall
      have hnp : insertPos (listRows db r.id) p after = none := by simp [insertPos, hpv]
      have hspec : Spec.insertAt p e after (elems db r.id) = none := by
        apply insertAt_none
        intro y hy
        obtain ⟨z, hz, rfl⟩ := List.mem_map.1 hy
        exact hall z hz
      simp [Refines, update, listInsert_eq, hk, hnp, Res.err, Spec.listInsert, hg, hspec, Spec.er,
        purge_abs hw.wf.names]
  · cases v <;> first | exact absurd rfl (hv _) |
      simp [Refines, update, listInsert_eq, hk, Res.err, Spec.listInsert, hg, Spec.er,
        purge_abs hw.wf.names]

/-! ### pop from one list, push to another -/

theorem update_out (f : DB → Res) (db : DB) : (update f db).out = (f db).out := by
  unfold update; simp only []; split <;> rfl

theorem update_db_ok {f : DB → Res} {db : DB} {v : Val} (h : (f db).out = .ok v) :
    (update f db).db = (f db).db := by
  unfold update; simp only [h]

theorem update_db_err {f : DB → Res} {db : DB} {e : Err} (h : (f db).out = .error e) :
    (update f db).db = db := by
  unfold update; simp only [h]

/-- the specification of pop-and-push in terms of the specification of the push that follows the
pop -/
theorem spec_popPush {S : State} {s d : Bytes} {l : List Bytes} {et : Option Int} {x : Bytes}
    (hg : get S s = some ⟨.list l, et⟩) (hx : l.getLast? = some x) :
    (∀ v, (Spec.listPush (put S s ⟨.list l.dropLast, et⟩) d x true).out = .ok v →
      Spec.listPopBackPushFront S s d
        = ⟨.ok (.bytes x), (Spec.listPush (put S s ⟨.list l.dropLast, et⟩) d x true).st⟩) ∧
    (∀ e, (Spec.listPush (put S s ⟨.list l.dropLast, et⟩) d x true).out = .error e →
      Spec.listPopBackPushFront S s d = ⟨.error e, S⟩) := by
  have hpop : Spec.listPop S s false = Spec.ok (.bytes x) (put S s ⟨.list l.dropLast, et⟩) := by
    simp [Spec.listPop, hg, hx]
  have hgd := get_put S s ⟨.list l.dropLast, et⟩ d
  by_cases hsd : s = d
  · subst hsd
    simp only [beq_self_eq_true, if_true] at hgd
    refine ⟨?_, ?_⟩
    · intro v _
      simp [Spec.listPopBackPushFront, hg, hx, hpop, Spec.ok]
    · intro e he
      simp [Spec.listPush, hgd, Spec.ok] at he
  · have hb : (s == d) = false := by simpa using hsd
    simp only [hb, Bool.false_eq_true, if_false] at hgd
    cases hd : get S d with
    | none =>
      rw [hd] at hgd
      refine ⟨?_, ?_⟩
      · intro v _
        simp [Spec.listPopBackPushFront, hg, hx, hd, hpop, Spec.ok]
      · intro e he
        simp [Spec.listPush, hgd, Spec.ok] at he
    | some en =>
      rw [hd] at hgd
      obtain ⟨v, etd⟩ := en
      cases v with
      | list ld =>
        refine ⟨?_, ?_⟩
        · intro v _
          simp [Spec.listPopBackPushFront, hg, hx, hd, hpop, Spec.ok]
        · intro e he
          simp [Spec.listPush, hgd, Spec.ok] at he
      | _ =>
        refine ⟨?_, ?_⟩
        · intro v hv
          simp [Spec.listPush, hgd, Spec.er] at hv
        · intro e he
          simp only [Spec.listPush, hgd, Spec.er] at he
          cases he
          simp [Spec.listPopBackPushFront, hg, hx, hd, Spec.er]

theorem listPopBackPushFront_refines {db : DB} (hw : db.LWF) {now : Int} {s d : Bytes}
    (hns : staleKey db now d = false)
    (hsp : ∀ v, (listPop db s false now).out = .ok v →
      pushSpacious (listPop db s false now).db d true now = true) :
    Refines now (update (fun y => listPopBackPushFront y s d now) db)
      (Spec.listPopBackPushFront (abs now db) s d) := by
  rcases listPop_cases hw now s false with ⟨hm, _, hnil⟩ |
    ⟨r, x, l', db1, hf, hl, hg, hm, hw2, hst, hs, hback⟩
  · have hspec : Spec.listPopBackPushFront (abs now db) s d = er .notFound (abs now db) := by
      unfold Spec.listPopBackPushFront
      cases hgs : get (abs now db) s with
      | none => rfl
      | some en =>
        obtain ⟨v, et⟩ := en
        cases v with
        | list l => rw [hnil l et hgs]; rfl
        | _ => rfl
    simp [Refines, update, listPopBackPushFront, hm, Res.err, hspec, Spec.er, purge_abs hw.wf.names]
  · obtain ⟨hx, hl'⟩ := hback rfl
    subst hl'
    have hlive : liveAt now r.etime = true := hl
    have ha1 : abs now db1 = put (abs now db) s ⟨.list (elems db r.id).dropLast, r.etime⟩ := by
      have := hst.abs_lwf hw hw2 now
      rw [delN_etime] at this
      rw [this]
      exact purge_put_live (sorted_abs hw.wf.names now) (purge_abs hw.wf.names now) s hlive
    have hns1 : staleKey db1 now d = false := by
      unfold staleKey at hns ⊢
      rw [hst.find]
      by_cases hsd : s = d
      · simp [hsd, KeyRow.live, delN_etime, hlive]
      · have hb : (s == d) = false := by simpa using hsd
        simpa [hb] using hns
    have hdb1 : (listPop db s false now).db = db1 := by rw [hm]
    have hsp := hsp (.bytes x) (by rw [hm])
    rw [hdb1] at hsp
    have hR2 := listPush_refines hw2 hns1 x true hsp
    unfold Refines at hR2
    rw [update_out, ha1] at hR2
    obtain ⟨hspecOk, hspecErr⟩ := spec_popPush (d := d) hg hx
    cases hpo : (listPush db1 d x true now).out with
    | ok v =>
      have hmodel : listPopBackPushFront db s d now
          = .ok (.bytes x) (listPush db1 d x true now).db := by
        simp [listPopBackPushFront, hm, hpo]
      rw [hpo] at hR2
      have hdb2 := update_db_ok (f := fun y => listPush y d x true now) hpo
      rw [hdb2] at hR2
      rw [hspecOk v hR2.1.symm]
      simp only [Refines, update, hmodel, Res.ok]
      exact ⟨trivial, hR2.2⟩
    | error e =>
      have hmodel : listPopBackPushFront db s d now
          = .err e (listPush db1 d x true now).db := by
        simp [listPopBackPushFront, hm, hpo]
      rw [hpo] at hR2
      rw [hspecErr e hR2.1.symm]
      simp [Refines, update, hmodel, Res.err, purge_abs hw.wf.names]

/-! ### every list operation keeps `DB.LWF` (deviation classes included) -/

theorem liveKeyT_some {db : DB} (hn : (db.keys.map (·.key)).Nodup) {k : Bytes} {ty now : Int}
    {r : KeyRow} (h : db.liveKeyT k ty now = some r) :
    db.findKey k = some r ∧ r.ty = ty ∧ r.live now = true := by
  rw [liveKeyT_eq hn] at h
  cases hf : db.findKey k with
  | none => simp [hf, Option.filter] at h
  | some r' =>
    rw [hf] at h
    simp only [Option.filter] at h
    split at h
    · rename_i hc
      cases h
      simp only [Bool.and_eq_true, beq_iff_eq] at hc
      exact ⟨rfl, hc.1, hc.2⟩
    · cases h

theorem update_lwf {f : DB → Res} {db : DB} (hw : db.LWF)
    (h : ∀ v, (f db).out = .ok v → (f db).db.LWF) : (update f db).db.LWF := by
  cases ho : (f db).out with
  | ok v => rw [update_db_ok ho]; exact h v ho
  | error e => rw [update_db_err ho]; exact hw

theorem listDeleteRows_lwf {db : DB} (hw : db.LWF) {k : Bytes} {ty now : Int} {r : KeyRow}
    (hk : db.liveKeyT k TList ty = some r) (S : List ListRow) (hnd : S.Nodup)
    (hsub : ∀ x ∈ S, x ∈ listRows db r.id) :
    (listDeleteRows db r.id (S.map (·.pos)) now).LWF := by
  obtain ⟨hf, ht, _⟩ := liveKeyT_some hw.wf.names hk
  exact (deleteRows_step hw hf ht S hnd hsub now).1

theorem listPop_lwf {db : DB} (hw : db.LWF) (k : Bytes) (front : Bool) (now : Int) :
    (listPop db k front now).db.LWF := by
  rcases listPop_cases hw now k front with ⟨hm, _, _⟩ | ⟨_, _, _, _, _, _, _, hm, hw2, _⟩
  · rw [hm]; exact hw
  · rw [hm]; exact hw2

theorem listDelete_lwf {db : DB} (hw : db.LWF) (k e : Bytes) (now : Int) :
    (listDelete db k e now).db.LWF := by
  unfold listDelete
  cases hk : db.liveKeyT k TList now with
  | none => exact hw
  | some r =>
    exact listDeleteRows_lwf hw hk _ ((hw.rows_sorted r.id).nodup.sublist List.filter_sublist)
      mem_rows_of_filter

theorem listDeleteN_lwf {db : DB} (hw : db.LWF) (k e : Bytes) (n : Int) (back : Bool) (now : Int) :
    (listDeleteN db k e n back now).db.LWF := by
  unfold listDeleteN
  split
  · exact hw
  · cases hk : db.liveKeyT k TList now with
    | none => exact hw
    | some r =>
      have hfn : ((listRows db r.id).filter (fun x => x.elem == e)).Nodup :=
        (hw.rows_sorted r.id).nodup.sublist List.filter_sublist
      simp only []
      apply listDeleteRows_lwf hw hk
      · apply List.Nodup.sublist (sqlLimit_sublist _ _ _)
        cases back
        · exact hfn
        · exact nodup_reverse' hfn
      · intro x hx
        have hx' := (sqlLimit_sublist _ _ _).subset hx
        cases back
        · exact mem_rows_of_filter x hx'
        · exact mem_rows_of_filter x (List.mem_reverse.1 hx')

theorem listTrim_lwf {db : DB} (hw : db.LWF) (k : Bytes) (a b : Int) (now : Int) :
    (listTrim db k a b now).db.LWF := by
  unfold listTrim
  cases hk : db.liveKeyT k TList now with
  | none => exact hw
  | some r =>
    simp only []
    split
    · exact hw
    · split
      · exact hw
      · exact listDeleteRows_lwf hw hk _ ((hw.rows_sorted r.id).nodup.sublist List.filter_sublist)
          mem_rows_of_filter

theorem listSet_lwf {db : DB} (hw : db.LWF) (k : Bytes) (i : Int) (e : Bytes) (now : Int) :
    (listSet db k i e now).db.LWF := by
  unfold listSet
  cases hk : db.liveKeyT k TList now with
  | none => exact hw
  | some r =>
    obtain ⟨hf, ht, _⟩ := liveKeyT_some hw.wf.names hk
    obtain ⟨ho, _⟩ := findKey_mem hf
    simp only []
    split
    · exact hw
    · rename_i row _
      have h2 := (listStore_old hw hf (updRow now r) rfl rfl ht
        (db.lists.map (setElemRow r.id row.pos e))
        (fun id' hne => filter_other_setElem _ hne _ _) (hw.listPos.setElem _ _ _)
        (by rw [filter_setElem]; exact hw.listLen r ho ht)).1
      have hdb : ({ listOnUpdate db r.id now with
            lists := (listOnUpdate db r.id now).lists.map (fun x =>
              if x.kid == r.id && x.pos == row.pos then { x with elem := e } else x) } : DB)
          = { db.updKey r.id (fun _ => updRow now r) with
              lists := db.lists.map (setElemRow r.id row.pos e) } := by
        have := updKey_const hw.wf.ids ho (updRow now)
        rw [← this]; rfl
      simp only [Res.ok]
      rw [hdb]; exact h2

theorem fresh_of_not_contains {L : List ListRow} {kid : Int} {p : Dyadic}
    (h : ((L.filter (fun x => x.kid == kid)).map (·.pos)).contains p = false) :
    ∀ x ∈ L, x.kid = kid → x.pos ≠ p := by
  intro x hx hk he
  rw [List.contains_eq_mem, decide_eq_false_iff_not] at h
  exact h (List.mem_map.2 ⟨x, List.mem_filter.2 ⟨hx, by simpa using hk⟩, he⟩)

theorem listPush_new {db : DB} {k : Bytes} (hf : db.findKey k = none) (e : Bytes) (front : Bool)
    (now : Int) :
    listPush db k e front now =
      if ((db.lists.filter (fun x => x.kid == db.nextKeyId)).map (·.pos)).contains
          (pushPos db.lists db.nextKeyId front) then
        .err .sqlUnique { db with keys := db.keys ++ [pushNew k now db.nextKeyId] }
      else .ok (.int 1) { db with
        keys := db.keys ++ [pushNew k now db.nextKeyId],
        lists := db.lists ++ [ListRow.mk db.nextKeyId (pushPos db.lists db.nextKeyId front) e] } := by
  rw [listPush_eq, listPushKey_eq,
    keyUpsert_new (ty := TList) (onNew := pushNew k now) (onOld := pushOld now) hf]
  rfl

theorem listPush_old {db : DB} {k : Bytes} {r : KeyRow} (hf : db.findKey k = some r) (ht : r.ty = TList)
    (e : Bytes) (front : Bool) (now : Int) :
    listPush db k e front now =
      if ((db.lists.filter (fun x => x.kid == r.id)).map (·.pos)).contains
          (pushPos db.lists r.id front) then
        .err .sqlUnique (db.updKey r.id (fun _ => pushOld now r))
      else .ok (match r.len.map (· + 1) with | some n => .int n | none => .nil)
        { db.updKey r.id (fun _ => pushOld now r) with
          lists := db.lists ++ [ListRow.mk r.id (pushPos db.lists r.id front) e] } := by
  rw [listPush_eq, listPushKey_eq,
    keyUpsert_old (onNew := pushNew k now) (onOld := pushOld now) hf ht]
  rfl

theorem listPush_other {db : DB} {k : Bytes} {r : KeyRow} (hf : db.findKey k = some r) (ht : r.ty ≠ TList)
    (e : Bytes) (front : Bool) (now : Int) :
    listPush db k e front now = .err .keyType db := by
  rw [listPush_eq, listPushKey_eq,
    keyUpsert_other (onNew := pushNew k now) (onOld := pushOld now) hf ht]

theorem listPush_lwf {db : DB} (hw : db.LWF) (k e : Bytes) (front : Bool) (now : Int) {v : Val}
    (hok : (listPush db k e front now).out = .ok v) : (listPush db k e front now).db.LWF := by
  cases hf : db.findKey k with
  | none =>
    have hnil := hw.no_rows_fresh
    rw [listPush_new hf] at hok ⊢
    by_cases hc' : ((db.lists.filter (fun x => x.kid == db.nextKeyId)).map (·.pos)).contains
        (pushPos db.lists db.nextKeyId front) = true
    · rw [if_pos hc'] at hok; simp [Res.err] at hok
    · rw [if_neg hc']
      have hc : ((db.lists.filter (fun x => x.kid == db.nextKeyId)).map (·.pos)).contains
        (pushPos db.lists db.nextKeyId front) = false := by simpa using hc'
      simp only [Res.ok]
      exact (listStore_new hw hf (pushNew k now db.nextKeyId) rfl rfl rfl
        (db.lists ++ [ListRow.mk db.nextKeyId (pushPos db.lists db.nextKeyId front) e])
        (fun id' hne => filter_other_append _ hne _ _)
        (hw.listPos.append e (fresh_of_not_contains hc))
        (by
          show some (1 : Int) = some ((((db.lists ++
            [(ListRow.mk db.nextKeyId (pushPos db.lists db.nextKeyId front) e)]).filter
              (fun x => x.kid == db.nextKeyId)).length : Nat) : Int)
          rw [filter_self_append_length, hnil]; rfl)).1
  | some r =>
    by_cases ht : r.ty = TList
    · obtain ⟨ho, _⟩ := findKey_mem hf
      rw [listPush_old hf ht] at hok ⊢
      by_cases hc' : ((db.lists.filter (fun x => x.kid == r.id)).map (·.pos)).contains
          (pushPos db.lists r.id front) = true
      · rw [if_pos hc'] at hok; simp [Res.err] at hok
      · rw [if_neg hc']
        have hc : ((db.lists.filter (fun x => x.kid == r.id)).map (·.pos)).contains
          (pushPos db.lists r.id front) = false := by simpa using hc'
        simp only [Res.ok]
        exact (listStore_old hw hf (pushOld now r) rfl rfl ht
          (db.lists ++ [ListRow.mk r.id (pushPos db.lists r.id front) e])
          (fun id' hne => filter_other_append _ hne _ _)
          (hw.listPos.append e (fresh_of_not_contains hc))
          (by
            rw [filter_self_append_length]
            show r.len.map (· + 1) = _
            rw [hw.listLen r ho ht]; simp)).1
    · rw [listPush_other hf ht] at hok
      simp [Res.err] at hok

theorem listInsert_lwf {db : DB} (hw : db.LWF) (k p e : Bytes) (after : Bool) (now : Int) :
    (listInsert db k p e after now).db.LWF := by
  rw [listInsert_eq]
  cases hk : db.liveKeyT k TList now with
  | none => exact hw
  | some r =>
    obtain ⟨hf, ht, _⟩ := liveKeyT_some hw.wf.names hk
    obtain ⟨ho, _⟩ := findKey_mem hf
    simp only []
    cases insertPos (listRows db r.id) p after with
    | none => exact hw
    | some np =>
      simp only []
      split
      · exact hw
      · rename_i hc
        have hfresh : ∀ y ∈ db.lists, y.kid = r.id → y.pos ≠ np := by
          intro y hy hk' he
          apply hc
          rw [List.contains_eq_mem, decide_eq_true_eq]
          exact List.mem_map.2 ⟨y, mem_rowsOf.2 ⟨hy, hk'⟩, he⟩
        have h2 := (listStore_old hw hf (insKey now r) rfl rfl ht
          (db.lists ++ [{ kid := r.id, pos := np, elem := e }])
          (fun id' hne => filter_other_append _ hne _ _) (hw.listPos.append e hfresh)
          (by
            rw [filter_self_append_length]
            show r.len.map (· + 1) = _
            rw [hw.listLen r ho ht]; simp)).1
        have hdb : (({ db with lists := db.lists ++ [{ kid := r.id, pos := np, elem := e }] } : DB).updKey
              r.id (insKey now))
            = { db.updKey r.id (fun _ => insKey now r) with
                lists := db.lists ++ [{ kid := r.id, pos := np, elem := e }] } := by
          have := updKey_const hw.wf.ids ho (insKey now)
          rw [← this]; rfl
        simp only [Res.ok]
        rw [hdb]; exact h2

theorem listPopBackPushFront_lwf {db : DB} (hw : db.LWF) (s d : Bytes) (now : Int) {v : Val}
    (hok : (listPopBackPushFront db s d now).out = .ok v) :
    (listPopBackPushFront db s d now).db.LWF := by
  have hw1 := listPop_lwf hw s false now
  unfold listPopBackPushFront at hok ⊢
  simp only [] at hok ⊢
  split
  · exact hw1
  · rename_i el _
    cases hpo : (listPush (listPop db s false now).db d el true now).out with
    | ok v' => simp only [Res.ok]; exact listPush_lwf hw1 d el true now hpo
    | error e =>
      rename_i heq
      simp [heq, hpo, Res.err] at hok
  · exact hw1

end Redka.Model
