/-
  `internal/rlist` against the abstract keyspace: the refinement of each list operation.
-/
import RedkaModel.Proofs.ListRows
import RedkaModel.Proofs.Str
import RedkaModel.Props.C02idx

namespace Redka.Model

open Redka Redka.Spec Redka.DB Redka.ListOrd Redka.Scan Redka.Proofs.Index

/-- the elements of the list with key id `kid`, in order -/
def elems (db : DB) (kid : Int) : List Bytes := (listRows db kid).map (·.elem)

theorem length_elems (db : DB) (kid : Int) : (elems db kid).length = (listRows db kid).length :=
  List.length_map _

/-! ### what is stored under a name, as the list repository sees it -/

/-- The four things a name can be at `now`, each with what the model's typed lookup
(`sqlInsertKey` and friends: `… where key = ? and type = 2 and (etime is null or etime > ?)`) and
the abstraction make of it. -/
inductive LHolder (now : Int) (db : DB) (k : Bytes) : Prop
  | absent (h : db.findKey k = none) (hg : get (abs now db) k = none)
      (hk : db.liveKeyT k TList now = none)
  | stale (r : KeyRow) (h : db.findKey k = some r) (hl : r.live now = false)
      (hg : get (abs now db) k = none) (hk : db.liveKeyT k TList now = none)
  | list (r : KeyRow) (h : db.findKey k = some r) (hl : r.live now = true) (ht : r.ty = TList)
      (hg : get (abs now db) k = some ⟨.list (elems db r.id), r.etime⟩)
      (hk : db.liveKeyT k TList now = some r)
  | other (r : KeyRow) (v : SVal) (h : db.findKey k = some r) (hl : r.live now = true)
      (ht : r.ty ≠ TList) (hg : get (abs now db) k = some ⟨v, r.etime⟩) (hv : ∀ l, v ≠ .list l)
      (hk : db.liveKeyT k TList now = none)

theorem lholder {db : DB} (hw : db.WF) (now : Int) (k : Bytes) : LHolder now db k := by
  have hga := get_abs hw.names now k
  have hka := liveKeyT_eq hw.names k TList now
  cases hf : db.findKey k with
  | none =>
    rw [hf] at hga hka
    exact .absent hf hga hka
  | some r =>
    rw [hf] at hga hka
    obtain ⟨hm, _⟩ := findKey_mem hf
    cases hl : r.live now with
    | false =>
      refine .stale r hf hl ?_ ?_
      · rw [hga]; simp [rowEntry, hl]
      · rw [hka]; simp [Option.filter, hl]
    | true =>
      by_cases ht : r.ty = TList
      · refine .list r hf hl ht ?_ ?_
        · rw [hga]; simp [rowEntry, hl, absVal_list ht, elems]
        · rw [hka]; simp [Option.filter, hl, ht]
      · obtain ⟨v, hv, hns⟩ := absVal_nonlist hw hm ht
        refine .other r v hf hl ht ?_ hns ?_
        · rw [hga]; simp [rowEntry, hl, hv]
        · rw [hka]; simp [Option.filter, ht]

theorem listAt_of_get_list {s : State} {k : Bytes} {l : List Bytes} {et : Option Int}
    (h : get s k = some ⟨.list l, et⟩) : listAt s k = l := by
  simp [listAt, h]

theorem listAt_of_get_none {s : State} {k : Bytes} (h : get s k = none) : listAt s k = [] := by
  simp [listAt, h]

theorem listAt_of_get_other {s : State} {k : Bytes} {v : SVal} {et : Option Int}
    (h : get s k = some ⟨v, et⟩) (hv : ∀ l, v ≠ .list l) : listAt s k = [] := by
  unfold listAt
  rw [h]
  cases v <;> first | rfl | exact absurd rfl (hv _)

/-! ### index rules and `map` -/

theorem lindex_map {α β : Type} (f : α → β) (l : List α) (i : Int) :
    Spec.lindex (l.map f) i = (Spec.lindex l i).map f := by
  unfold Spec.lindex
  rw [List.length_map]
  cases Spec.lindexPos l.length i with
  | none => rfl
  | some j => simp [List.getElem?_map]

theorem lindex_nil {α : Type} (i : Int) : Spec.lindex ([] : List α) i = none := by
  unfold Spec.lindex
  cases Spec.lindexPos ([] : List α).length i <;> rfl

theorem sqlLimit_map {α β : Type} (f : α → β) (s c : Int) (l : List α) :
    sqlLimit s c (l.map f) = (sqlLimit s c l).map f := by
  unfold sqlLimit
  simp only []
  split
  · rw [List.map_drop]
  · rw [List.map_take, List.map_drop]

theorem lrange_map {α β : Type} (f : α → β) (l : List α) (a b : Int) :
    Spec.lrange (l.map f) a b = (Spec.lrange l a b).map f := by
  unfold Spec.lrange
  simp only [List.length_map]
  split
  · rfl
  · rw [List.map_take, List.map_drop]

theorem lrange_nil {α : Type} (a b : Int) : Spec.lrange ([] : List α) a b = [] := by
  unfold Spec.lrange
  simp only []
  split <;> simp

/-! ### the reads -/

theorem listLen_refines {db : DB} (hw : db.LWF) (now : Int) (k : Bytes) :
    Refines now (listLen db k now) (Spec.listLen (abs now db) k) := by
  unfold Refines
  rcases lholder hw.wf now k with ⟨_, hg, hk⟩ | ⟨_, _, _, hg, hk⟩ | ⟨r, h, _, ht, hg, hk⟩ |
    ⟨_, v, _, _, _, hg, hv, hk⟩
  · simp [listLen, Spec.listLen, hk, listAt_of_get_none hg, Res.ok, Spec.ok, purge_abs hw.wf.names]
  · simp [listLen, Spec.listLen, hk, listAt_of_get_none hg, Res.ok, Spec.ok, purge_abs hw.wf.names]
  · have hlen := hw.len_eq (findKey_mem h).1 ht
    simp [listLen, Spec.listLen, hk, hlen, listAt_of_get_list hg, length_elems, Res.ok, Spec.ok,
      purge_abs hw.wf.names]
  · simp [listLen, Spec.listLen, hk, listAt_of_get_other hg hv, Res.ok, Spec.ok,
      purge_abs hw.wf.names]

theorem listGet_refines {db : DB} (hw : db.LWF) (now : Int) (k : Bytes) (i : Int) :
    Refines now (listGet db k i now) (Spec.listGet (abs now db) k i) := by
  unfold Refines
  rcases lholder hw.wf now k with ⟨_, hg, hk⟩ | ⟨_, _, _, hg, hk⟩ | ⟨r, h, _, ht, hg, hk⟩ |
    ⟨_, v, _, _, _, hg, hv, hk⟩
  · simp [listGet, Spec.listGet, hk, listAt_of_get_none hg, lindex_nil, Res.err, Spec.er,
      purge_abs hw.wf.names]
  · simp [listGet, Spec.listGet, hk, listAt_of_get_none hg, lindex_nil, Res.err, Spec.er,
      purge_abs hw.wf.names]
  · have hidx : Spec.lindex (elems db r.id) i = (listRowAt db r.id i).map (·.elem) := by
      rw [listRowAt_eq, Redka.Props.C02.index_refines, elems, lindex_map]
    simp only [listGet, Spec.listGet, hk, listAt_of_get_list hg, hidx]
    cases listRowAt db r.id i with
    | none => simp [Res.err, Spec.er, purge_abs hw.wf.names]
    | some row => simp [Res.ok, Spec.ok, purge_abs hw.wf.names]
  · simp [listGet, Spec.listGet, hk, listAt_of_get_other hg hv, lindex_nil, Res.err, Spec.er,
      purge_abs hw.wf.names]

/-- D02: the key is missing (or not a live list) and a bound is negative, so the `bounds` CTE
yields `LIMIT NULL` -/
def rangeMissingNeg (a b : Int) : Bool := !rangePrecheck a b && (decide (a < 0) || decide (b < 0))

theorem listRange_missing {db : DB} {now : Int} {k : Bytes} {a b : Int}
    (hk : db.liveKeyT k TList now = none) (hd : rangeMissingNeg a b = false) :
    listRange db k a b now = .ok (.list []) db := by
  unfold listRange
  split
  · rfl
  · rename_i hp
    have hp' : rangePrecheck a b = false := by simpa using hp
    simp only [hk, Option.bind_none]
    have hnn : ¬ (a < 0 ∨ b < 0) := by
      simpa [rangeMissingNeg, hp'] using hd
    have ha : ¬ a < 0 := fun h => hnn (Or.inl h)
    have hb : ¬ b < 0 := fun h => hnn (Or.inr h)
    simp [rangeWindow, bound, ha, hb, sqlLimit, Res.ok]

theorem listRange_refines {db : DB} (hw : db.LWF) (now : Int) (k : Bytes) (a b : Int)
    (hd1 : ∀ r, db.liveKeyT k TList now = some r →
      rangeDeviates (listRows db r.id).length a b = false)
    (hd2 : db.liveKeyT k TList now = none → rangeMissingNeg a b = false) :
    Refines now (listRange db k a b now) (Spec.listRange (abs now db) k a b) := by
  unfold Refines
  rcases lholder hw.wf now k with ⟨_, hg, hk⟩ | ⟨_, _, _, hg, hk⟩ | ⟨r, h, _, ht, hg, hk⟩ |
    ⟨_, v, _, _, _, hg, hv, hk⟩
  · simp [listRange_missing hk (hd2 hk), Spec.listRange, listAt_of_get_none hg, lrange_nil,
      Spec.bytesList, Res.ok, Spec.ok, purge_abs hw.wf.names]
  · simp [listRange_missing hk (hd2 hk), Spec.listRange, listAt_of_get_none hg, lrange_nil,
      Spec.bytesList, Res.ok, Spec.ok, purge_abs hw.wf.names]
  · have hlen := hw.len_eq (findKey_mem h).1 ht
    have hdev := hd1 r hk
    have hmr := Redka.Props.C02.range_refines_partial (listRows db r.id) a b hdev
    have hm : listRange db k a b now
        = .ok (.list ((modelRange (listRows db r.id) a b).map (fun r => .bytes r.elem))) db := by
      unfold listRange modelRange
      split
      · rfl
      · simp only [hk, Option.bind_some, hlen]
        rw [rangeWindow_some]
    rw [hm, hmr]
    simp [Spec.listRange, listAt_of_get_list hg, elems, lrange_map, Spec.bytesList, Res.ok, Spec.ok,
      purge_abs hw.wf.names]
  · simp [listRange_missing hk (hd2 hk), Spec.listRange, listAt_of_get_other hg hv, lrange_nil,
      Spec.bytesList, Res.ok, Spec.ok, purge_abs hw.wf.names]

/-! ### the generic write: an existing or a fresh list key gets a new table of rows -/

/-- An existing list key is rewritten: its key row becomes `r2` (same id, name, type) and `rlist`
becomes `L'`, which differs from the old table only in the rows of this key. -/
theorem listStore_old {db : DB} (hw : db.LWF) {k : Bytes} {r : KeyRow} (hf : db.findKey k = some r)
    (r2 : KeyRow) (hid : r2.id = r.id) (hkey : r2.key = r.key) (hty : r2.ty = TList)
    (L' : List ListRow)
    (hoth : ∀ id', id' ≠ r.id →
      L'.filter (fun x => x.kid == id') = db.lists.filter (fun x => x.kid == id'))
    (hpos : PosNodup L')
    (hlen : r2.len = some (((L'.filter (fun x => x.kid == r.id)).length : Nat) : Int)) :
    ({ db.updKey r.id (fun _ => r2) with lists := L' } : DB).LWF ∧
    Stored db { db.updKey r.id (fun _ => r2) with lists := L' } k r2
      (.list ((rowsOf L' r.id).map (·.elem))) := by
  obtain ⟨ho, hok⟩ := findKey_mem hf
  have hwf := hw.wf
  have hkeys : ({ db.updKey r.id (fun _ => r2) with lists := L' } : DB).keys
      = (db.updKey r.id (fun _ => r2)).keys := rfl
  have hne_id : ∀ r' ∈ db.keys, r' ≠ r → r'.id ≠ r.id :=
    fun r' hr' hne he => hne (id_inj hwf.ids hr' ho he)
  refine ⟨⟨⟨?_, ?_, ?_, ?_, hwf.strKids⟩, ?_, hpos, ?_⟩, ⟨?_, ?_, ?_⟩⟩
  · rw [hkeys, updKey_names hwf.ids ho hkey]; exact hwf.names
  · rw [hkeys, updKey_ids hwf.ids ho hid]; exact hwf.ids
  · intro x hx
    rcases mem_updKey hwf.ids ho hx with hx | ⟨hx, _⟩
    · rw [hx, hty]; decide
    · exact hwf.tyOk x hx
  · intro x hx hxt
    rcases mem_updKey hwf.ids ho hx with hx | ⟨hx, _⟩
    · rw [hx, hty] at hxt; cases hxt
    · exact hwf.strRow x hx hxt
  · intro x hx hxt
    rcases mem_updKey hwf.ids ho hx with hx | ⟨hx, hxne⟩
    · rw [hx, hid]; exact hlen
    · show x.len = some (((L'.filter (fun y => y.kid == x.id)).length : Nat) : Int)
      rw [hoth x.id (hne_id x hx hxne)]
      exact hw.listLen x hx hxt
  · intro x hx
    by_cases hxk : x.kid = r.id
    · refine ⟨r2, ?_, by rw [hid, hxk]⟩
      rw [hkeys, updKey_keys hwf.ids ho]
      exact List.mem_map.2 ⟨r, ho, by simp⟩
    · have hx' : x ∈ L'.filter (fun y => y.kid == x.kid) := List.mem_filter.2 ⟨hx, by simp⟩
      rw [hoth x.kid hxk] at hx'
      obtain ⟨r', hr', hrid⟩ := hw.listOwner x (List.mem_filter.1 hx').1
      refine ⟨r', ?_, hrid⟩
      rw [hkeys, updKey_keys hwf.ids ho]
      refine List.mem_map.2 ⟨r', hr', ?_⟩
      have : r' ≠ r := fun he => hxk (by rw [← hrid, he])
      simp [this]
  · intro k'
    show (db.updKey r.id (fun _ => r2)).findKey k' = _
    rw [← hok]; exact findKey_updKey hwf.names hwf.ids ho hkey k'
  · rw [absVal_list hty, hid]; rfl
  · intro r' hr' hne
    have hne' : r' ≠ r := fun he => hne (by rw [he, hok])
    apply absVal_congr <;> try rfl
    exact hoth r'.id (hne_id r' hr' hne')

/-- A fresh list key is created with the rows `L'` adds for it. -/
theorem listStore_new {db : DB} (hw : db.LWF) {k : Bytes} (hf : db.findKey k = none)
    (r2 : KeyRow) (hid : r2.id = db.nextKeyId) (hkey : r2.key = k) (hty : r2.ty = TList)
    (L' : List ListRow)
    (hoth : ∀ id', id' ≠ r2.id →
      L'.filter (fun x => x.kid == id') = db.lists.filter (fun x => x.kid == id'))
    (hpos : PosNodup L')
    (hlen : r2.len = some (((L'.filter (fun x => x.kid == r2.id)).length : Nat) : Int)) :
    ({ db with keys := db.keys ++ [r2], lists := L' } : DB).LWF ∧
    Stored db { db with keys := db.keys ++ [r2], lists := L' } k r2
      (.list ((rowsOf L' r2.id).map (·.elem))) := by
  have hwf := hw.wf
  have hnone : db.findKey r2.key = none := by rw [hkey]; exact hf
  have hne_id : ∀ r' ∈ db.keys, r'.id ≠ r2.id := by
    intro r' hr'; rw [hid]; exact nextKeyId_fresh db r' hr'
  refine ⟨⟨⟨names_append hwf.names hnone, ids_append hwf.ids hid, ?_, ?_, hwf.strKids⟩, ?_, hpos, ?_⟩,
    ⟨?_, ?_, ?_⟩⟩
  · intro x hx
    rcases List.mem_append.1 hx with hx | hx
    · exact hwf.tyOk x hx
    · have : x = r2 := by simpa using hx
      rw [this, hty]; decide
  · intro x hx hxt
    rcases List.mem_append.1 hx with hx | hx
    · exact hwf.strRow x hx hxt
    · have : x = r2 := by simpa using hx
      rw [this, hty] at hxt; cases hxt
  · intro x hx hxt
    rcases List.mem_append.1 hx with hx | hx
    · show x.len = some (((L'.filter (fun y => y.kid == x.id)).length : Nat) : Int)
      rw [hoth x.id (hne_id x hx)]
      exact hw.listLen x hx hxt
    · have : x = r2 := by simpa using hx
      rw [this]; exact hlen
  · intro x hx
    by_cases hxk : x.kid = r2.id
    · exact ⟨r2, by simp, hxk.symm⟩
    · have hx' : x ∈ L'.filter (fun y => y.kid == x.kid) := List.mem_filter.2 ⟨hx, by simp⟩
      rw [hoth x.kid hxk] at hx'
      obtain ⟨r', hr', hrid⟩ := hw.listOwner x (List.mem_filter.1 hx').1
      exact ⟨r', List.mem_append_left _ hr', hrid⟩
  · intro k'
    show ({ db with keys := db.keys ++ [r2] } : DB).findKey k' = _
    rw [← hkey]; exact findKey_append hnone k'
  · rw [absVal_list hty]; rfl
  · intro r' hr' _
    apply absVal_congr <;> try rfl
    exact hoth r'.id (hne_id r' hr')

/-- What a list write does to the abstract keyspace. -/
theorem _root_.Redka.Spec.Stored.abs_lwf {db db2 : DB} {k : Bytes} {r : KeyRow} {v : SVal} (hw : db.LWF) (hw2 : db2.LWF)
    (h : Stored db db2 k r v) (now : Int) :
    abs now db2 = purge now (put (abs now db) k ⟨v, r.etime⟩) :=
  h.abs hw.wf.names hw2.wf.names now

/-! ### deleting rows: `listDeleteRows` in closed form -/

/-- trigger `rlist_on_delete`, fired once -/
def delKey (now : Int) (o : KeyRow) : KeyRow :=
  { o with version := o.version + 1, mtime := now, len := o.len.map (· - 1) }

/-- … fired `n` times -/
def delN (now : Int) : Nat → KeyRow → KeyRow
  | 0, o => o
  | n + 1, o => delN now n (delKey now o)

theorem delN_id (now : Int) : ∀ (n : Nat) (o : KeyRow), (delN now n o).id = o.id
  | 0, _ => rfl
  | n + 1, o => by rw [delN, delN_id now n]; rfl

theorem delN_key (now : Int) : ∀ (n : Nat) (o : KeyRow), (delN now n o).key = o.key
  | 0, _ => rfl
  | n + 1, o => by rw [delN, delN_key now n]; rfl

theorem delN_ty (now : Int) : ∀ (n : Nat) (o : KeyRow), (delN now n o).ty = o.ty
  | 0, _ => rfl
  | n + 1, o => by rw [delN, delN_ty now n]; rfl

theorem delN_etime (now : Int) : ∀ (n : Nat) (o : KeyRow), (delN now n o).etime = o.etime
  | 0, _ => rfl
  | n + 1, o => by rw [delN, delN_etime now n]; rfl

theorem delN_len (now : Int) : ∀ (n : Nat) (o : KeyRow),
    (delN now n o).len = o.len.map (· - (n : Int))
  | 0, o => by cases h : o.len <;> simp [delN, h]
  | n + 1, o => by
    rw [delN, delN_len now n]
    cases h : o.len <;> simp [delKey, h]
    omega

theorem updKey_updKey (db : DB) (id : Int) (f g : KeyRow → KeyRow) (hf : ∀ o, (f o).id = o.id) :
    (db.updKey id f).updKey id g = db.updKey id (fun o => g (f o)) := by
  unfold updKey
  simp only [List.map_map]
  congr 1
  apply List.map_congr_left
  intro x _
  simp only [Function.comp]
  by_cases h : x.id = id
  · simp [h, hf]
  · simp [h]

theorem foldl_onDelete (kid now : Int) : ∀ (V : List Dyadic) (db : DB),
    V.foldl (fun d _ => listOnDelete d kid now) db = db.updKey kid (delN now V.length)
  | [], db => by
    show db = db.updKey kid (fun o => o)
    simp [updKey]
  | _ :: V, db => by
    rw [List.foldl_cons, foldl_onDelete kid now V]
    show (db.updKey kid (delKey now)).updKey kid (delN now V.length) = _
    exact updKey_updKey db kid (delKey now) (delN now V.length) (fun _ => rfl)

theorem listDeleteRows_eq (db : DB) (kid : Int) (V : List Dyadic) (now : Int) :
    listDeleteRows db kid V now
      = { db.updKey kid (delN now V.length) with
          lists := db.lists.filter (fun r => !(r.kid == kid && V.contains r.pos)) } := by
  unfold listDeleteRows
  simp only []
  rw [foldl_onDelete]
  rfl

theorem filter_pos_victims {rows S : List ListRow} (hs : PosSorted rows) (hsub : ∀ x ∈ S, x ∈ rows) :
    rows.filter (fun x => !(S.map (·.pos)).contains x.pos) = rows.filter (fun x => !S.contains x) := by
  apply List.filter_congr
  intro x hx
  congr 1
  rw [Bool.eq_iff_iff]
  simp only [List.contains_eq_mem, decide_eq_true_eq, List.mem_map]
  constructor
  · rintro ⟨y, hy, hp⟩
    rw [← hs.pos_inj y (hsub y hy) x hx hp]; exact hy
  · intro h; exact ⟨x, h, rfl⟩

/-- Deleting the rows `S` of the list stored at `k`: the tables stay well-formed and the name now
stands for the list without those rows. -/
theorem deleteRows_step {db : DB} (hw : db.LWF) {k : Bytes} {r : KeyRow} (hf : db.findKey k = some r)
    (ht : r.ty = TList) (S : List ListRow) (hnd : S.Nodup) (hsub : ∀ x ∈ S, x ∈ listRows db r.id)
    (now : Int) :
    (listDeleteRows db r.id (S.map (·.pos)) now).LWF ∧
    Stored db (listDeleteRows db r.id (S.map (·.pos)) now) k (delN now S.length r)
      (.list (((listRows db r.id).filter (fun x => !S.contains x)).map (·.elem))) := by
  obtain ⟨ho, _⟩ := findKey_mem hf
  have hsorted := hw.rows_sorted r.id
  have hrows : rowsOf (db.lists.filter (fun x => !(x.kid == r.id && (S.map (·.pos)).contains x.pos))) r.id
      = (listRows db r.id).filter (fun x => !S.contains x) := by
    rw [rowsOf_delete hw.listPos, ← listRows_eq_rowsOf, filter_pos_victims hsorted hsub]
  rw [listDeleteRows_eq, List.length_map, updKey_const hw.wf.ids ho, ← hrows]
  apply listStore_old hw hf _ (delN_id _ _ _) (delN_key _ _ _) (by rw [delN_ty, ht])
  · intro id' hne; exact filter_other_delete _ hne _
  · exact hw.listPos.filter _
  · rw [delN_len, hw.len_eq ho ht, ← length_rowsOf, hrows]
    have := length_filter_not_mem hsorted.nodup hnd hsub
    simp only [Option.map_some, Option.some.injEq]
    omega

/-! ### pop -/

theorem listPop_refines {db : DB} (hw : db.LWF) (now : Int) (k : Bytes) (front : Bool) :
    Refines now (update (fun d => listPop d k front now) db) (Spec.listPop (abs now db) k front) := by
  unfold Refines
  rcases lholder hw.wf now k with ⟨_, hg, hk⟩ | ⟨_, _, _, hg, hk⟩ | ⟨r, h, _, ht, hg, hk⟩ |
    ⟨_, v, _, _, _, hg, hv, hk⟩
  · simp [update, listPop, hk, Res.err, Spec.listPop, hg, Spec.er, purge_abs hw.wf.names]
  · simp [update, listPop, hk, Res.err, Spec.listPop, hg, Spec.er, purge_abs hw.wf.names]
  · have hsorted := hw.rows_sorted r.id
    cases front with
    | true =>
      cases hrows : listRows db r.id with
      | nil =>
        have hel : elems db r.id = [] := by simp [elems, hrows]
        simp [update, listPop, hk, hrows, Res.err, Spec.listPop, hg, hel, Spec.er,
          purge_abs hw.wf.names]
      | cons row xs =>
        have hel : elems db r.id = row.elem :: xs.map (·.elem) := by simp [elems, hrows]
        obtain ⟨hw2, hst⟩ := deleteRows_step hw h ht [row] (by simp)
          (by intro x hx; rw [hrows]; simp at hx; simp [hx]) now
        have ha := hst.abs_lwf hw hw2 now
        rw [hrows, filter_not_head (hrows ▸ hsorted.nodup), delN_etime] at ha
        have ha' : abs now (listDeleteRows db r.id [row.pos] now)
            = purge now (put (abs now db) k ⟨.list (xs.map (·.elem)), r.etime⟩) := ha
        simp [update, listPop, hk, hrows, Res.ok, Spec.listPop, hg, hel, Spec.ok, ha']
    | false =>
      cases hlast : (listRows db r.id).getLast? with
      | none =>
        have hrows : listRows db r.id = [] := List.getLast?_eq_none_iff.1 hlast
        have hel : elems db r.id = [] := by simp [elems, hrows]
        simp [update, listPop, hk, hlast, Res.err, Spec.listPop, hg, hel, Spec.er,
          purge_abs hw.wf.names]
      | some row =>
        obtain ⟨ys, hrows⟩ := List.getLast?_eq_some_iff.1 hlast
        have hel : elems db r.id = ys.map (·.elem) ++ [row.elem] := by simp [elems, hrows]
        obtain ⟨hw2, hst⟩ := deleteRows_step hw h ht [row] (by simp)
          (by intro x hx; rw [hrows]; simp at hx; simp [hx]) now
        have ha := hst.abs_lwf hw hw2 now
        rw [hrows, filter_not_last (hrows ▸ hsorted.nodup), delN_etime] at ha
        have ha' : abs now (listDeleteRows db r.id [row.pos] now)
            = purge now (put (abs now db) k ⟨.list (ys.map (·.elem)), r.etime⟩) := ha
        simp [update, listPop, hk, hlast, Res.ok, Spec.listPop, hg, hel, Spec.ok, ha']
  · cases v <;> first | exact absurd rfl (hv _) |
      simp [update, listPop, hk, Res.err, Spec.listPop, hg, Spec.er, purge_abs hw.wf.names]

/-! ### removing occurrences and trimming: one core lemma -/

/-- Deleting the rows `S` of the visible list at `k` against a specification step that shortens
the list to `l'` and reports the difference in length. -/
theorem delete_core {db : DB} (hw : db.LWF) {now : Int} {k : Bytes} {r : KeyRow}
    (h : db.findKey k = some r) (ht : r.ty = TList)
    (hg : get (abs now db) k = some ⟨.list (elems db r.id), r.etime⟩)
    (S : List ListRow) (hnd : S.Nodup) (hsub : ∀ x ∈ S, x ∈ listRows db r.id) (l' : List Bytes)
    (hl' : ((listRows db r.id).filter (fun x => !S.contains x)).map (·.elem) = l') :
    Refines now ⟨.ok (.int S.length), listDeleteRows db r.id (S.map (·.pos)) now⟩
      (Spec.ok (.int (((elems db r.id).length : Int) - l'.length))
        (if l'.length == (elems db r.id).length then abs now db
         else put (abs now db) k ⟨.list l', r.etime⟩)) := by
  obtain ⟨hw2, hst⟩ := deleteRows_step hw h ht S hnd hsub now
  have ha := hst.abs_lwf hw hw2 now
  rw [hl', delN_etime] at ha
  have hcount := length_filter_not_mem (hw.rows_sorted r.id).nodup hnd hsub
  have hlen' : l'.length + S.length = (elems db r.id).length := by
    rw [← hl', List.length_map, length_elems]; exact hcount
  refine ⟨?_, ?_⟩
  · simp only [Spec.ok]
    congr 2
    omega
  · simp only [Spec.ok]
    rw [ha]
    split
    · rename_i heq
      have heq : l'.length = (elems db r.id).length := by simpa using heq
      have hall : (listRows db r.id).filter (fun x => !S.contains x) = listRows db r.id := by
        apply List.filter_eq_self.2
        apply List.length_filter_eq_length_iff.1
        have := congrArg List.length hl'
        rw [List.length_map] at this
        rw [this, heq, length_elems]
      have hl'e : l' = elems db r.id := by rw [← hl', hall]; rfl
      rw [hl'e, put_same (sorted_abs hw.wf.names now) hg]
    · rfl

theorem mem_rows_of_filter {rows : List ListRow} {q : ListRow → Bool} :
    ∀ x ∈ rows.filter q, x ∈ rows := fun _ hx => (List.mem_filter.1 hx).1

theorem listDelete_refines {db : DB} (hw : db.LWF) (now : Int) (k e : Bytes) :
    Refines now (update (fun d => listDelete d k e now) db) (Spec.listDeleteAll (abs now db) k e) := by
  rcases lholder hw.wf now k with ⟨_, hg, hk⟩ | ⟨_, _, _, hg, hk⟩ | ⟨r, h, _, ht, hg, hk⟩ |
    ⟨_, v, _, _, _, hg, hv, hk⟩
  · simp [Refines, update, listDelete, hk, Res.ok, Spec.listDeleteAll, hg, Spec.ok,
      purge_abs hw.wf.names]
  · simp [Refines, update, listDelete, hk, Res.ok, Spec.listDeleteAll, hg, Spec.ok,
      purge_abs hw.wf.names]
  · have hsorted := hw.rows_sorted r.id
    have hcore := delete_core hw h ht hg ((listRows db r.id).filter (fun x => x.elem == e))
      (hsorted.nodup.sublist List.filter_sublist) mem_rows_of_filter
      ((elems db r.id).filter (fun x => !(x == e)))
      (by rw [filter_not_filter, elems, List.filter_map]; rfl)
    simp only [update, listDelete, hk, Res.ok, Spec.listDeleteAll, hg, List.length_map]
    exact hcore
  · cases v <;> first | exact absurd rfl (hv _) |
      simp [Refines, update, listDelete, hk, Res.ok, Spec.listDeleteAll, hg, Spec.ok,
        purge_abs hw.wf.names]

theorem sqlLimit_zero_pos {α : Type} {n : Int} (hn : ¬ n ≤ 0) (l : List α) :
    sqlLimit 0 n l = l.take n.toNat := by
  have : ¬ n < 0 := by omega
  simp [sqlLimit, this]

theorem listDeleteN_refines {db : DB} (hw : db.LWF) (now : Int) (k e : Bytes) (n : Int) (back : Bool) :
    Refines now (update (fun d => listDeleteN d k e n back now) db)
      (Spec.listDeleteN (abs now db) k e n back) := by
  by_cases hn : n ≤ 0
  · simp [Refines, update, listDeleteN, hn, Res.ok, Spec.listDeleteN, Spec.ok, purge_abs hw.wf.names]
  rcases lholder hw.wf now k with ⟨_, hg, hk⟩ | ⟨_, _, _, hg, hk⟩ | ⟨r, h, _, ht, hg, hk⟩ |
    ⟨_, v, _, _, _, hg, hv, hk⟩
  · simp [Refines, update, listDeleteN, hn, hk, Res.ok, Spec.listDeleteN, hg, Spec.ok,
      purge_abs hw.wf.names]
  · simp [Refines, update, listDeleteN, hn, hk, Res.ok, Spec.listDeleteN, hg, Spec.ok,
      purge_abs hw.wf.names]
  · have hsorted := hw.rows_sorted r.id
    have hfn : ((listRows db r.id).filter (fun x => x.elem == e)).Nodup :=
      hsorted.nodup.sublist List.filter_sublist
    cases back with
    | false =>
      have hcore := delete_core hw h ht hg (((listRows db r.id).filter (fun x => x.elem == e)).take n.toNat)
        (hfn.sublist (List.take_sublist _ _))
        (fun x hx => mem_rows_of_filter x (List.mem_of_mem_take hx))
        (Spec.removeFirstN e n.toNat (elems db r.id))
        (removeFirstN_rows (·.elem) e _ _ hsorted.nodup)
      simp only [update, listDeleteN, hn, if_false, hk, Res.ok, Spec.listDeleteN, hg,
        Bool.false_eq_true, sqlLimit_zero_pos hn, List.length_map]
      exact hcore
    | true =>
      have hcore := delete_core hw h ht hg
        (((listRows db r.id).filter (fun x => x.elem == e)).reverse.take n.toNat)
        ((nodup_reverse' hfn).sublist (List.take_sublist _ _))
        (fun x hx => mem_rows_of_filter x (List.mem_reverse.1 (List.mem_of_mem_take hx)))
        (Spec.removeLastN e n.toNat (elems db r.id))
        (removeLastN_rows (·.elem) e _ _ hsorted.nodup)
      simp only [update, listDeleteN, hn, if_false, hk, Res.ok, Spec.listDeleteN, hg,
        if_true, sqlLimit_zero_pos hn, List.length_map]
      exact hcore
  · cases v <;> first | exact absurd rfl (hv _) |
      simp [Refines, update, listDeleteN, hn, hk, Res.ok, Spec.listDeleteN, hg, Spec.ok,
        purge_abs hw.wf.names]

/-! ### trim -/

theorem sqlLimit_sublist {α : Type} (s c : Int) (l : List α) : (sqlLimit s c l).Sublist l := by
  unfold sqlLimit
  simp only []
  split
  · exact List.drop_sublist _ _
  · exact (List.take_sublist _ _).trans (List.drop_sublist _ _)

theorem modelTrimKeep_sublist {α : Type} (l : List α) (a b : Int) : (modelTrimKeep l a b).Sublist l := by
  rw [modelTrimKeep_eq]; exact sqlLimit_sublist _ _ _

theorem modelTrimKeep_map {α β : Type} (f : α → β) (l : List α) (a b : Int) :
    modelTrimKeep (l.map f) a b = (modelTrimKeep l a b).map f := by
  rw [modelTrimKeep_eq, modelTrimKeep_eq, List.length_map, sqlLimit_map]

theorem listTrim_refines {db : DB} (hw : db.LWF) (now : Int) (k : Bytes) (a b : Int)
    (hd : ∀ r, db.liveKeyT k TList now = some r → (listRows db r.id).length > 0 →
      trimDeviates (listRows db r.id).length a b = false) :
    Refines now (update (fun d => listTrim d k a b now) db) (Spec.listTrim (abs now db) k a b) := by
  rcases lholder hw.wf now k with ⟨_, hg, hk⟩ | ⟨_, _, _, hg, hk⟩ | ⟨r, h, _, ht, hg, hk⟩ |
    ⟨_, v, _, _, _, hg, hv, hk⟩
  · simp [Refines, update, listTrim, hk, Res.ok, Spec.listTrim, hg, Spec.ok, purge_abs hw.wf.names]
  · simp [Refines, update, listTrim, hk, Res.ok, Spec.listTrim, hg, Spec.ok, purge_abs hw.wf.names]
  · have hsorted := hw.rows_sorted r.id
    have hlen := hw.len_eq (findKey_mem h).1 ht
    cases hrows : listRows db r.id with
    | nil =>
      have hel : elems db r.id = [] := by simp [elems, hrows]
      simp [Refines, update, listTrim, hk, hrows, Res.ok, Spec.listTrim, hg, hel, Spec.ok,
        Spec.ltrim, lrange_nil, purge_abs hw.wf.names]
    | cons row xs =>
      have hpos : (listRows db r.id).length > 0 := by rw [hrows]; simp
      have hdev := hd r hk hpos
      have hkeep_sub := modelTrimKeep_sublist (listRows db r.id) a b
      have hwin : rangeWindow r.len a b (listRows db r.id) = some (modelTrimKeep (listRows db r.id) a b) := by
        rw [hlen, rangeWindow_some, modelTrimKeep_eq]
      have hS : (listRows db r.id).filter
            (fun x => !((modelTrimKeep (listRows db r.id) a b).map (·.pos)).contains x.pos)
          = (listRows db r.id).filter (fun x => !(modelTrimKeep (listRows db r.id) a b).contains x) :=
        filter_pos_victims hsorted (fun x hx => hkeep_sub.subset hx)
      have hcore := delete_core hw h ht hg
        ((listRows db r.id).filter (fun x => !(modelTrimKeep (listRows db r.id) a b).contains x))
        (hsorted.nodup.sublist List.filter_sublist) mem_rows_of_filter
        (Spec.ltrim (elems db r.id) a b)
        (by
          rw [filter_not_filter]
          simp only [Bool.not_not]
          rw [filter_mem_sublist hkeep_sub hsorted.nodup, ← modelTrimKeep_map,
            Redka.Props.C02.trim_refines_partial _ a b (by rw [List.length_map]; exact hdev)]
          rfl)
      have hne : (listRows db r.id).isEmpty = false := by rw [hrows]; rfl
      simp only [update, listTrim, hk, hne, Bool.false_eq_true, if_false, hwin, hS, Res.ok,
        Spec.listTrim, hg, List.length_map]
      exact hcore
  · cases v <;> first | exact absurd rfl (hv _) |
      simp [Refines, update, listTrim, hk, Res.ok, Spec.listTrim, hg, Spec.ok, purge_abs hw.wf.names]

/-! ### set by index -/

/-- trigger `rlist_on_update` -/
def updRow (now : Int) (o : KeyRow) : KeyRow := { o with version := o.version + 1, mtime := now }

theorem map_setElem_eq_set (e : Bytes) (row : ListRow) : ∀ (rows : List ListRow) (j : Nat),
    rows[j]? = some row → PosSorted rows →
    (rows.map (fun x => if x.pos == row.pos then { x with elem := e } else x)).map (·.elem)
      = (rows.map (·.elem)).set j e
  | [], _, h, _ => by simp at h
  | x :: xs, 0, h, hs => by
    have hx : x = row := by simpa using h
    subst hx
    have hs' := List.pairwise_cons.1 hs
    simp only [List.map_cons, List.set_cons_zero, beq_self_eq_true, if_true]
    congr 1
    rw [List.map_map]
    apply List.map_congr_left
    intro y hy
    have : ¬ y.pos = x.pos := fun he => dy_lt_irrefl _ (he ▸ of_decide_eq_true (hs'.1 y hy))
    simp [this]
  | x :: xs, j + 1, h, hs => by
    have hs' := List.pairwise_cons.1 hs
    have h' : xs[j]? = some row := by simpa using h
    have hmem : row ∈ xs := List.mem_of_getElem? h'
    have : ¬ x.pos = row.pos := dy_ne_of_lt (of_decide_eq_true (hs'.1 row hmem))
    have hb : (x.pos == row.pos) = false := by simpa using this
    simp only [List.map_cons, List.set_cons_succ, hb, Bool.false_eq_true, if_false]
    rw [map_setElem_eq_set e row xs j h' hs'.2]

theorem lindexPos_lt {n : Nat} {i : Int} {j : Nat} (h : Spec.lindexPos n i = some j) : j < n := by
  unfold Spec.lindexPos at h
  simp only [] at h
  split at h
  · cases h
  · rename_i hc
    simp only [Option.some.injEq] at h
    omega

theorem listSet_refines {db : DB} (hw : db.LWF) (now : Int) (k : Bytes) (i : Int) (e : Bytes) :
    Refines now (update (fun d => listSet d k i e now) db) (Spec.listSet (abs now db) k i e) := by
  rcases lholder hw.wf now k with ⟨_, hg, hk⟩ | ⟨_, _, _, hg, hk⟩ | ⟨r, h, _, ht, hg, hk⟩ |
    ⟨_, v, _, _, _, hg, hv, hk⟩
  · simp [Refines, update, listSet, hk, Res.err, Spec.listSet, hg, Spec.er, purge_abs hw.wf.names]
  · simp [Refines, update, listSet, hk, Res.err, Spec.listSet, hg, Spec.er, purge_abs hw.wf.names]
  · obtain ⟨ho, _⟩ := findKey_mem h
    have hsorted := hw.rows_sorted r.id
    have hlen := hw.len_eq ho ht
    have hrow : listRowAt db r.id i
        = (Spec.lindexPos (listRows db r.id).length i).bind (fun j => (listRows db r.id)[j]?) := by
      rw [listRowAt_eq, modelIndex_eq_pos, modelIndexPos_eq]
    have hspec : Spec.lset (elems db r.id) i e
        = (Spec.lindexPos (listRows db r.id).length i).map (fun j => (elems db r.id).set j e) := by
      rw [lset_eq_map, length_elems]
    cases hp : Spec.lindexPos (listRows db r.id).length i with
    | none =>
      rw [hp] at hrow hspec
      simp [Refines, update, listSet, hk, hrow, Res.err, Spec.listSet, hg, hspec, Spec.er,
        purge_abs hw.wf.names]
    | some j =>
      rw [hp] at hrow hspec
      have hj := lindexPos_lt hp
      have hget : (listRows db r.id)[j]? = some (listRows db r.id)[j] := List.getElem?_eq_getElem hj
      simp only [Option.bind_some, hget] at hrow
      simp only [Option.map_some] at hspec
      generalize hrowdef : (listRows db r.id)[j] = row at hrow hget
      obtain ⟨hw2, hst⟩ := listStore_old hw h (updRow now r) rfl rfl ht
        (db.lists.map (setElemRow r.id row.pos e))
        (fun id' hne => filter_other_setElem _ hne _ _) (hw.listPos.setElem _ _ _)
        (by rw [filter_setElem]; exact hw.listLen r ho ht)
      have ha := hst.abs_lwf hw hw2 now
      rw [rowsOf_setElem, ← listRows_eq_rowsOf, map_setElem_eq_set e row _ j hget hsorted] at ha
      have hdb : ({ listOnUpdate db r.id now with
            lists := (listOnUpdate db r.id now).lists.map (fun x =>
              if x.kid == r.id && x.pos == row.pos then { x with elem := e } else x) } : DB)
          = { db.updKey r.id (fun _ => updRow now r) with
              lists := db.lists.map (setElemRow r.id row.pos e) } := by
        have := updKey_const hw.wf.ids ho (updRow now)
        rw [← this]; rfl
      simp only [Refines, update, listSet, hk, hrow, Res.ok, hdb, Spec.listSet, hg, hspec, Spec.ok]
      exact ⟨trivial, ha⟩
  · cases v <;> first | exact absurd rfl (hv _) |
      simp [Refines, update, listSet, hk, Res.err, Spec.listSet, hg, Spec.er, purge_abs hw.wf.names]

/-! ### push -/

/-- the position `sqlPushBack` / `sqlPushFront` computes for a new element of list `kid` -/
def pushPos (L : List ListRow) (kid : Int) (front : Bool) : Dyadic :=
  let ps := (L.filter (fun x => x.kid == kid)).map (·.pos)
  if front then (match dyMin ps with | none => 0 | some m => round53 (m - 1))
  else (match dyMax ps with | none => 0 | some m => round53 (m + 1))

def pushNew (k : Bytes) (now : Int) (id : Int) : KeyRow :=
  { id := id, key := k, ty := TList, version := 1, etime := none, mtime := now, len := some 1 }

def pushOld (now : Int) (o : KeyRow) : KeyRow :=
  { o with version := o.version + 1, mtime := now, len := o.len.map (· + 1) }

theorem pushNew_id (k : Bytes) (now id : Int) : (pushNew k now id).id = id := rfl
theorem pushNew_len (k : Bytes) (now id : Int) : (pushNew k now id).len = some 1 := rfl
theorem pushOld_id (now : Int) (o : KeyRow) : (pushOld now o).id = o.id := rfl

theorem updKey_lists (db : DB) (id : Int) (f : KeyRow → KeyRow) : (db.updKey id f).lists = db.lists := rfl

theorem listPushKey_eq (db : DB) (k : Bytes) (now : Int) :
    listPushKey db k now = keyUpsert db k TList (pushNew k now) (pushOld now) := rfl

theorem listPush_eq (db : DB) (k e : Bytes) (front : Bool) (now : Int) :
    listPush db k e front now =
      match listPushKey db k now with
      | .error er => .err er db
      | .ok (db1, r) =>
        if ((db1.lists.filter (fun x => x.kid == r.id)).map (·.pos)).contains
            (pushPos db1.lists r.id front) then .err .sqlUnique db1
        else
          .ok (match r.len with | some n => .int n | none => .nil)
            { db1 with lists := db1.lists ++
                [{ kid := r.id, pos := pushPos db1.lists r.id front, elem := e }] } := rfl

/-- the new position is beyond the end it is pushed to: greater than every position of the list
for a push to the back, smaller for a push to the front -/
def pushRoom (L : List ListRow) (kid : Int) (front : Bool) : Bool :=
  (L.filter (fun x => x.kid == kid)).all (fun x =>
    if front then decide (pushPos L kid front < x.pos) else decide (x.pos < pushPos L kid front))

/-- `Spacious` for a push, judged on the tables as `sqlPush` leaves them -/
def pushSpacious (db : DB) (k : Bytes) (front : Bool) (now : Int) : Bool :=
  match listPushKey db k now with
  | .error _ => true
  | .ok (db1, r) => pushRoom db1.lists r.id front

theorem rowsOf_nil_of_filter {L : List ListRow} {kid : Int}
    (h : L.filter (fun x => x.kid == kid) = []) : rowsOf L kid = [] := by
  unfold rowsOf; rw [h]; rfl

theorem listPush_refines {db : DB} (hw : db.LWF) {now : Int} {k : Bytes}
    (hns : staleKey db now k = false) (e : Bytes) (front : Bool)
    (hsp : pushSpacious db k front now = true) :
    Refines now (update (fun d => listPush d k e front now) db)
      (Spec.listPush (abs now db) k e front) := by
  rcases lholder hw.wf now k with ⟨h, hg, _⟩ | ⟨_, h, hl, _, _⟩ | ⟨r, h, _, ht, hg, _⟩ |
    ⟨r, v, h, _, ht, hg, hv, _⟩
  · -- a fresh key
    have hup := keyUpsert_new (ty := TList) (onNew := pushNew k now) (onOld := pushOld now) h
    have hnil := hw.no_rows_fresh
    have hpp : pushPos db.lists db.nextKeyId front = 0 := by
      unfold pushPos; simp only [hnil, List.map_nil, dyMin, dyMax]; cases front <;> rfl
    obtain ⟨hw2, hst⟩ := listStore_new hw h (pushNew k now db.nextKeyId) rfl rfl rfl
      (db.lists ++ [{ kid := db.nextKeyId, pos := 0, elem := e }])
      (fun id' hne => filter_other_append _ hne _ _)
      (hw.listPos.append e (by
        intro x hx hk
        have : x ∈ db.lists.filter (fun y => y.kid == db.nextKeyId) :=
          List.mem_filter.2 ⟨hx, by simpa using hk⟩
        rw [hnil] at this; cases this))
      (by
        show some (1 : Int) = some ((((db.lists ++ [({ kid := db.nextKeyId, pos := 0, elem := e } : ListRow)]).filter
          (fun x => x.kid == db.nextKeyId)).length : Nat) : Int)
        rw [filter_self_append_length, hnil]; rfl)
    have ha := hst.abs_lwf hw hw2 now
    have hrows : rowsOf (db.lists ++ [({ kid := db.nextKeyId, pos := 0, elem := e } : ListRow)])
        (pushNew k now db.nextKeyId).id = [{ kid := db.nextKeyId, pos := 0, elem := e }] := by
      have hsplit : rowsOf db.lists db.nextKeyId = [] ++ [] := rowsOf_nil_of_filter hnil
      exact rowsOf_insert (hw.listPos.append e (by
          intro x hx hk
          have : x ∈ db.lists.filter (fun y => y.kid == db.nextKeyId) :=
            List.mem_filter.2 ⟨hx, by simpa using hk⟩
          rw [hnil] at this; cases this)) hsplit List.Pairwise.nil
        (by intro x hx; cases hx) (by intro x hx; cases hx)
    rw [hrows] at ha
    simp only [Refines, update, listPush_eq, listPushKey_eq, hup, pushNew_id, pushNew_len, hnil, hpp,
      List.map_nil, List.contains_nil, Bool.false_eq_true, if_false, Res.ok, Spec.listPush, hg, Spec.ok]
    exact ⟨trivial, ha⟩
  · exact (Holder.not_stale hns h hl).elim
  · -- an existing list
    obtain ⟨ho, _⟩ := findKey_mem h
    have hup := keyUpsert_old (onNew := pushNew k now) (onOld := pushOld now) h ht
    have hsorted := hw.rows_sorted r.id
    have hlen := hw.len_eq ho ht
    have hroom : pushRoom db.lists r.id front = true := by
      have := hsp
      simp only [pushSpacious, listPushKey_eq, hup] at this
      exact this
    unfold pushRoom at hroom
    generalize hp : pushPos db.lists r.id front = p at hroom
    have hroom' : ∀ x ∈ listRows db r.id,
        if front then p < x.pos else x.pos < p := by
      intro x hx
      have hx' : x ∈ db.lists.filter (fun y => y.kid == r.id) := by
        have := (mem_rowsOf.1 hx); exact List.mem_filter.2 ⟨this.1, by simpa using this.2⟩
      have := List.all_eq_true.1 hroom x hx'
      cases front <;> simpa using this
    have hfresh : ∀ x ∈ db.lists, x.kid = r.id → x.pos ≠ p := by
      intro x hx hk he
      have := hroom' x (mem_rowsOf.2 ⟨hx, hk⟩)
      cases front <;> simp [he] at this <;> exact dy_lt_irrefl _ this
    have hnc : ((db.lists.filter (fun x => x.kid == r.id)).map (·.pos)).contains p = false := by
      rw [List.contains_eq_mem, decide_eq_false_iff_not, List.mem_map]
      rintro ⟨x, hx, hxp⟩
      have := List.mem_filter.1 hx
      exact hfresh x this.1 (by simpa using this.2) hxp
    have hpn := hw.listPos.append e hfresh
    obtain ⟨hw2, hst⟩ := listStore_old hw h (pushOld now r) rfl rfl ht
      (db.lists ++ [{ kid := r.id, pos := p, elem := e }])
      (fun id' hne => filter_other_append _ hne _ _) hpn
      (by
        rw [filter_self_append_length]
        show r.len.map (· + 1) = _
        rw [hw.listLen r ho ht]; simp)
    have ha := hst.abs_lwf hw hw2 now
    have hout : (pushOld now r).len = some (((elems db r.id).length + 1 : Nat) : Int) := by
      show r.len.map (· + 1) = _
      rw [hlen, length_elems]; simp
    cases front with
    | false =>
      have hrows : rowsOf (db.lists ++ [({ kid := r.id, pos := p, elem := e } : ListRow)]) r.id
          = listRows db r.id ++ [{ kid := r.id, pos := p, elem := e }] := by
        have hsplit : rowsOf db.lists r.id = listRows db r.id ++ [] := by simp [listRows_eq_rowsOf]
        exact rowsOf_insert hpn hsplit (by simpa using hsorted)
          (by intro x hx; simpa using hroom' x hx) (by intro x hx; cases hx)
      rw [hrows] at ha
      simp only [Refines, update, listPush_eq, listPushKey_eq, hup, pushOld_id, updKey_lists, hp, hnc,
        Bool.false_eq_true, if_false, Res.ok, hout, Spec.listPush, hg, Spec.ok]
      refine ⟨by simp, ?_⟩
      rw [ha]; simp [elems, pushOld]
    | true =>
      have hrows : rowsOf (db.lists ++ [({ kid := r.id, pos := p, elem := e } : ListRow)]) r.id
          = { kid := r.id, pos := p, elem := e } :: listRows db r.id := by
        have hsplit : rowsOf db.lists r.id = [] ++ listRows db r.id := by simp [listRows_eq_rowsOf]
        exact rowsOf_insert hpn hsplit (by simpa using hsorted)
          (by intro x hx; cases hx) (by intro x hx; simpa using hroom' x hx)
      rw [hrows] at ha
      simp only [Refines, update, listPush_eq, listPushKey_eq, hup, pushOld_id, updKey_lists, hp, hnc,
        Bool.false_eq_true, if_false, Res.ok, hout, Spec.listPush, hg, Spec.ok]
      refine ⟨by simp, ?_⟩
      rw [ha]; simp [elems, pushOld]
  · have hup := keyUpsert_other (onNew := pushNew k now) (onOld := pushOld now) h ht
    cases v <;> first | exact absurd rfl (hv _) |
      simp [Refines, update, listPush_eq, listPushKey_eq, hup, Res.err, Spec.listPush, hg, Spec.er,
        purge_abs hw.wf.names]

end Redka.Model
