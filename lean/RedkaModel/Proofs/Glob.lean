/-
  Helper lemmas for property C18: on 7-bit text without NUL, the model of SQLite's GLOB
  (`Redka.Glob.sqliteGlob`) and the reference matcher (`Redka.Spec.globSpec`) agree on every
  well-formed pattern in which no class starts with `!`.

  Route: (a) `cstr` and `decode` are the identity on such text; (b) the fuelled parser `parsePatF`
  yields the image of the spec's elements (`tokOf`); (c) `matchToks` on that image is `matchElems`.
-/
import RedkaModel.Sql.Glob
import RedkaModel.Spec.Glob

namespace Redka.Glob
open Redka.Spec

/-! ### bytes as code points -/

/-- the code points of 7-bit text: the bytes themselves -/
abbrev N (b : Bytes) : List Nat := b.map UInt8.toNat

theorem cstr_of_pos (b : Bytes) (h : ∀ c ∈ b, 0 < c.toNat) : cstr b = b := by
  induction b with
  | nil => rfl
  | cons c b ih =>
    have hc : (c == 0) = false := by
      have := h c (by simp)
      rw [beq_eq_false_iff_ne]; intro e; subst e; simp at this
    simp only [cstr, hc]
    rw [ih (fun x hx => h x (by simp [hx]))]
    simp

theorem decode_of_lt (b : Bytes) (h : ∀ c ∈ b, c.toNat < 0xc0) : decode b = N b := by
  induction b with
  | nil => simp [decode]
  | cons c b ih =>
    have hc := h c (by simp)
    rw [decode]
    simp only [hc, if_true]
    rw [ih (fun x hx => h x (by simp [hx]))]
    simp

theorem cstr_ascii {b : Bytes} (h : Ascii b) : cstr b = b := cstr_of_pos b (fun c hc => (h c hc).1)
theorem decode_ascii {b : Bytes} (h : Ascii b) : decode b = N b :=
  decode_of_lt b (fun c hc => by have := (h c hc).2; omega)


/-! ### the model's image of the spec's pattern elements -/

/-- a spec range `lo-hi` is, for SQLite, the listed byte `lo` followed by the range -/
def itemsOf : Member → List Item
  | .one c => [.one c.toNat]
  | .range lo hi => [.one lo.toNat, .range lo.toNat hi.toNat]

def tokOf : Elem → Tok
  | .star => .star
  | .any => .any
  | .lit c => .lit c.toNat
  | .cls mark ms => .cls mark.isSome (ms.flatMap itemsOf)

def convCls (r : List Member × Bytes) : List Item × List Nat := (r.1.flatMap itemsOf, N r.2)

/-- the text continues a range: `-` followed by something other than `]` -/
def StartsRange (p : Bytes) : Prop := ∃ hi p', p = cDash :: hi :: p' ∧ hi ≠ cClose

theorem toNat_eq_iff (c : UInt8) (k : Nat) (hk : k < 256) : c.toNat = k ↔ c = UInt8.ofNat k := by
  constructor
  · intro h; apply UInt8.toNat_inj.mp; rw [h]; simp; omega
  · intro h; subst h; simp; omega

theorem cClose_toNat : (cClose : UInt8).toNat = 93 := by decide
theorem cDash_toNat : (cDash : UInt8).toNat = 45 := by decide

theorem members_close (p : Bytes) : members (cClose :: p) = some ([], p) := by
  simp [members]

theorem members_one (c : UInt8) (q : Bytes) (hc : c ≠ cClose) (hq : ¬ StartsRange q) :
    members (c :: q) = (members q).map fun r => (.one c :: r.1, r.2) := by
  rw [members]
  simp only [hc, if_false]
  split
  · rename_i d hi p'
    have : ¬ (d = cDash ∧ hi ≠ cClose) := by
      rintro ⟨rfl, h⟩; exact hq ⟨hi, p', rfl, h⟩
    simp only [this, if_false]
  · rfl

theorem members_range (c hi : UInt8) (p' : Bytes) (hc : c ≠ cClose) (hh : hi ≠ cClose) :
    members (c :: cDash :: hi :: p') = (members p').map fun r => (.range c hi :: r.1, r.2) := by
  rw [members]
  simp [hc, hh]


theorem classLoop_close (p : List Nat) (prior : Nat) : classLoop (cRB :: p) prior = some ([], p) := by
  rw [classLoop.eq_def]; simp

theorem classLoop_one (c : Nat) (q : List Nat) (prior : Nat) (hc : c ≠ cRB)
    (h : ¬ (c = cDASH ∧ 0 < prior)) :
    classLoop (c :: q) prior = (classLoop q c).map fun r => (.one c :: r.1, r.2) := by
  rw [classLoop.eq_def]
  have : (c == cDASH && decide (prior > 0)) = false := by
    simp only [Bool.and_eq_false_iff, beq_eq_false_iff_ne, decide_eq_false_iff_not]
    by_cases e : c = cDASH
    · right; exact fun hp => h ⟨e, hp⟩
    · left; exact e
  simp [hc, this]

theorem classLoop_range (hi : Nat) (p' : List Nat) (prior : Nat) (hp : 0 < prior) (hh : hi ≠ cRB) :
    classLoop (cDASH :: hi :: p') prior
      = (classLoop p' 0).map fun r => (.range prior hi :: r.1, r.2) := by
  rw [classLoop.eq_def]
  simp only [cRB] at hh
  simp [hp, hh, cDASH, cRB]

theorem classLoop_dash_last (q : List Nat) (prior : Nat) (hp : 0 < prior)
    (hq : q = [] ∨ ∃ q', q = cRB :: q') :
    classLoop (cDASH :: q) prior = (classLoop q cDASH).map fun r => (.one cDASH :: r.1, r.2) := by
  rw [classLoop.eq_def]
  rcases hq with rfl | ⟨q', rfl⟩
  · simp [hp, cDASH, cRB, classLoop]
  · simp [hp, cDASH, cRB]

theorem classLoop_members (n : Nat) : ∀ p : Bytes, p.length ≤ n → (∀ c ∈ p, 0 < c.toNat) →
    classLoop (N p) 0 = (members p).map convCls ∧
    ∀ prior, 0 < prior → ¬ StartsRange p → classLoop (N p) prior = (members p).map convCls := by
  induction n with
  | zero =>
    intro p hp _
    have : p = [] := List.eq_nil_of_length_eq_zero (by omega)
    subst this
    simp [classLoop, members]
  | succ n ih =>
    intro p hlen hpos
    match p, hlen, hpos with
    | [], _, _ => simp [classLoop, members]
    | c :: q, hlen, hpos =>
      have hlenq : q.length ≤ n := by simpa using hlen
      have hposq : ∀ x ∈ q, 0 < x.toNat := fun x hx => hpos x (by simp [hx])
      have hcpos : 0 < c.toNat := hpos c (by simp)
      by_cases hc : c = cClose
      · subst hc
        have : N (cClose :: q) = cRB :: N q := by simp [cRB, cClose_toNat]
        simp only [this, classLoop_close, members_close]
        simp [convCls]
      · have hcn : c.toNat ≠ cRB := by
          intro e; apply hc; exact (toNat_eq_iff c 93 (by omega)).mp e
        -- the common step: `c` is a listed byte and the loop continues with `prior = c`
        have step : (classLoop (N q) c.toNat).map (fun r => (Item.one c.toNat :: r.1, r.2))
            = (members (c :: q)).map convCls := by
          by_cases hs : StartsRange q
          · obtain ⟨hi, p', rfl, hh⟩ := hs
            have hhn : hi.toNat ≠ cRB := by
              intro e; apply hh; exact (toNat_eq_iff hi 93 (by omega)).mp e
            have e1 : N (cDash :: hi :: p') = cDASH :: hi.toNat :: N p' := by simp [cDASH, cDash_toNat]
            rw [e1, classLoop_range _ _ _ hcpos hhn, members_range _ _ _ hc hh]
            rw [(ih p' (by simp at hlenq; omega) (fun x hx => hposq x (by simp [hx]))).1]
            cases members p' <;> simp [convCls, itemsOf]
          · rw [members_one _ _ hc hs, (ih q hlenq hposq).2 _ hcpos hs]
            cases members q <;> simp [convCls, itemsOf]
        have e0 : N (c :: q) = c.toNat :: N q := by simp
        refine ⟨?_, ?_⟩
        · rw [e0, classLoop_one _ _ _ hcn (by omega)]; exact step
        · intro prior hprior hns
          by_cases hd : c = cDash
          · subst hd
            have hq : q = [] ∨ ∃ q', q = cClose :: q' := by
              rcases q with _ | ⟨hi, p'⟩
              · exact Or.inl rfl
              · right
                by_cases hh : hi = cClose
                · exact ⟨p', by rw [hh]⟩
                · exact absurd ⟨hi, p', rfl, hh⟩ hns
            have hq' : N q = [] ∨ ∃ q', N q = cRB :: q' := by
              rcases hq with rfl | ⟨q', rfl⟩
              · exact Or.inl rfl
              · exact Or.inr ⟨N q', by simp [cRB, cClose_toNat]⟩
            have e1 : N (cDash :: q) = cDASH :: N q := by simp [cDASH, cDash_toNat]
            rw [e1, classLoop_dash_last _ _ hprior hq']
            have : cDASH = (cDash : UInt8).toNat := by simp [cDASH, cDash_toNat]
            rw [this]; exact step
          · have hdn : c.toNat ≠ cDASH := by
              intro e; apply hd; exact (toNat_eq_iff c 45 (by omega)).mp e
            rw [e0, classLoop_one _ _ _ hcn (fun h => hdn h.1)]; exact step


theorem classLoop_members0 (p : Bytes) (hpos : ∀ c ∈ p, 0 < c.toNat) :
    classLoop (N p) 0 = (members p).map convCls :=
  (classLoop_members p.length p (Nat.le_refl _) hpos).1

/-- after the optional `^`: an optional leading `]`, then the loop -/
def classTail (inv : Bool) (p : List Nat) : Option (Tok × List Nat) :=
  let (first, p) : List Item × List Nat := match p with
    | x :: r => if x == cRB then ([.one cRB], r) else ([], x :: r)
    | [] => ([], [])
  match classLoop p 0 with
  | none => none
  | some (items, rest) => some (.cls inv (first ++ items), rest)

theorem parseClass_eq (p : List Nat) :
    parseClass p = match p with
      | x :: r => if x == cCARET then classTail true r else classTail false (x :: r)
      | [] => classTail false [] := by
  unfold parseClass classTail
  rcases p with _ | ⟨x, r⟩
  · rfl
  · by_cases h : (x == cCARET) = true <;> simp only [h] <;> rfl

def specTail (mark : Option UInt8) (p : Bytes) : Option (Elem × Bytes) :=
  let (lead, p) : List Member × Bytes := match p with
    | c :: r => if c = cClose then ([.one cClose], r) else ([], p)
    | [] => ([], [])
  (members p).map fun (ms, rest) => (.cls mark (lead ++ ms), rest)

theorem readClass_eq (p : Bytes) :
    readClass p = match p with
      | c :: r => if c = cCaret ∨ c = cBang then specTail (some c) r else specTail none (c :: r)
      | [] => specTail none [] := by
  unfold readClass specTail
  rcases p with _ | ⟨x, r⟩
  · rfl
  · by_cases h : x = cCaret ∨ x = cBang <;> simp only [h] <;> rfl

theorem classTail_specTail (mark : Option UInt8) (p : Bytes) (hpos : ∀ c ∈ p, 0 < c.toNat) :
    classTail mark.isSome (N p) = (specTail mark p).map fun r => (tokOf r.1, N r.2) := by
  unfold classTail specTail
  rcases p with _ | ⟨x, r⟩
  · simp [classLoop, members]
  · by_cases hx : x = cClose
    · subst hx
      have hr : ∀ c ∈ r, 0 < c.toNat := fun c hc => hpos c (by simp [hc])
      have : N (cClose :: r) = cRB :: N r := by simp [cRB, cClose_toNat]
      rw [this]
      simp only [beq_self_eq_true, if_true]
      rw [classLoop_members0 r hr]
      cases members r <;> simp [convCls, tokOf, itemsOf, cRB, cClose_toNat]
    · have hxn : (x.toNat == cRB) = false := by
        rw [beq_eq_false_iff_ne]; intro e; exact hx ((toNat_eq_iff x 93 (by omega)).mp e)
      have : N (x :: r) = x.toNat :: N r := by simp
      rw [this]
      simp only [hxn, hx, if_false, Bool.false_eq_true]
      rw [← this, classLoop_members0 _ hpos]
      cases members (x :: r) <;> simp [convCls, tokOf]

theorem parseClass_readClass (p : Bytes) (hpos : ∀ c ∈ p, 0 < c.toNat)
    (hb : p.head? ≠ some cBang) :
    parseClass (N p) = (readClass p).map fun r => (tokOf r.1, N r.2) := by
  rw [parseClass_eq, readClass_eq]
  rcases p with _ | ⟨x, r⟩
  · exact classTail_specTail none [] hpos
  · have hxb : x ≠ cBang := by simpa using hb
    have hr : ∀ c ∈ r, 0 < c.toNat := fun c hc => hpos c (by simp [hc])
    have : N (x :: r) = x.toNat :: N r := by simp
    rw [this]
    by_cases hx : x = cCaret
    · subst hx
      have : ((cCaret : UInt8).toNat == cCARET) = true := by decide
      simp only [this, if_true, true_or]
      exact classTail_specTail (some cCaret) r hr
    · have hxn : (x.toNat == cCARET) = false := by
        rw [beq_eq_false_iff_ne]; intro e; exact hx ((toNat_eq_iff x 94 (by omega)).mp e)
      simp only [hxn, hx, hxb, or_self, if_false, Bool.false_eq_true]
      rw [← this]
      exact classTail_specTail none (x :: r) hpos


/-! ### the text after a class is a proper suffix; `lex` without the skip counter -/

theorem members_suffix (n : Nat) : ∀ p : Bytes, p.length ≤ n → ∀ ms rest,
    members p = some (ms, rest) → ∃ t, p = t ++ rest ∧ t ≠ [] := by
  induction n with
  | zero =>
    intro p hp ms rest h
    have : p = [] := List.eq_nil_of_length_eq_zero (by omega)
    subst this; simp [members] at h
  | succ n ih =>
    intro p hlen ms rest h
    rcases p with _ | ⟨c, q⟩
    · simp [members] at h
    · have hlenq : q.length ≤ n := by simpa using hlen
      by_cases hc : c = cClose
      · subst hc
        rw [members_close] at h
        simp only [Option.some.injEq, Prod.mk.injEq] at h
        exact ⟨[cClose], by simp [h.2], by simp⟩
      · by_cases hs : StartsRange q
        · obtain ⟨hi, p', rfl, hh⟩ := hs
          rw [members_range _ _ _ hc hh] at h
          cases hm : members p' with
          | none => simp [hm] at h
          | some r =>
            simp only [hm, Option.map_some, Option.some.injEq, Prod.mk.injEq] at h
            obtain ⟨t, ht, _⟩ := ih p' (by simp at hlenq; omega) r.1 r.2 hm
            exact ⟨c :: cDash :: hi :: t, by rw [← h.2]; simp [← ht], by simp⟩
        · rw [members_one _ _ hc hs] at h
          cases hm : members q with
          | none => simp [hm] at h
          | some r =>
            simp only [hm, Option.map_some, Option.some.injEq, Prod.mk.injEq] at h
            obtain ⟨t, ht, _⟩ := ih q hlenq r.1 r.2 hm
            exact ⟨c :: t, by rw [← h.2]; simp [← ht], by simp⟩

theorem specTail_suffix (mark : Option UInt8) (p : Bytes) (e : Elem) (rest : Bytes)
    (h : specTail mark p = some (e, rest)) : ∃ t, p = t ++ rest ∧ t ≠ [] := by
  unfold specTail at h
  rcases p with _ | ⟨x, r⟩
  · simp [members] at h
  · by_cases hx : x = cClose
    · simp only [hx, if_true] at h
      cases hm : members r with
      | none => simp [hm] at h
      | some m =>
        simp only [hm, Option.map_some, Option.some.injEq, Prod.mk.injEq] at h
        obtain ⟨t, ht, _⟩ := members_suffix _ r (Nat.le_refl _) m.1 m.2 hm
        exact ⟨x :: t, by rw [← h.2]; simp [← ht], by simp⟩
    · simp only [hx, if_false] at h
      cases hm : members (x :: r) with
      | none => simp [hm] at h
      | some m =>
        simp only [hm, Option.map_some, Option.some.injEq, Prod.mk.injEq] at h
        obtain ⟨t, ht, hne⟩ := members_suffix _ (x :: r) (Nat.le_refl _) m.1 m.2 hm
        exact ⟨t, by rw [← h.2]; exact ht, hne⟩

theorem readClass_suffix (p : Bytes) (e : Elem) (rest : Bytes)
    (h : readClass p = some (e, rest)) : ∃ t, p = t ++ rest := by
  rw [readClass_eq] at h
  rcases p with _ | ⟨x, r⟩
  · obtain ⟨t, ht, _⟩ := specTail_suffix _ _ _ _ h; exact ⟨t, ht⟩
  · by_cases hx : x = cCaret ∨ x = cBang
    · simp only [hx, if_true] at h
      obtain ⟨t, ht, _⟩ := specTail_suffix _ _ _ _ h
      exact ⟨x :: t, by simp [← ht]⟩
    · simp only [hx, if_false] at h
      obtain ⟨t, ht, _⟩ := specTail_suffix _ _ _ _ h; exact ⟨t, ht⟩

theorem lex_skip (p : Bytes) : ∀ k, lex p k = lex (p.drop k) 0 := by
  induction p with
  | nil => intro k; simp [lex]
  | cons c p ih =>
    intro k
    cases k with
    | zero => rfl
    | succ k => simp only [lex, List.drop_succ_cons]; exact ih k

theorem lex_nil : lex [] 0 = some [] := rfl

theorem cQuest_ne_cStar : (cQuest : UInt8) ≠ cStar := by decide
theorem cOpen_ne_cStar : (cOpen : UInt8) ≠ cStar := by decide
theorem cOpen_ne_cQuest : (cOpen : UInt8) ≠ cQuest := by decide

theorem lex_star (p : Bytes) : lex (cStar :: p) 0 = (lex p 0).map (.star :: ·) := by
  simp [lex]

theorem lex_quest (p : Bytes) : lex (cQuest :: p) 0 = (lex p 0).map (.any :: ·) := by
  simp [lex, cQuest_ne_cStar]

theorem lex_lit (c : UInt8) (p : Bytes) (h1 : c ≠ cStar) (h2 : c ≠ cQuest) (h3 : c ≠ cOpen) :
    lex (c :: p) 0 = (lex p 0).map (.lit c :: ·) := by
  simp [lex, h1, h2, h3]

theorem lex_open_none (p : Bytes) (h : readClass p = none) : lex (cOpen :: p) 0 = none := by
  simp [lex, h, cOpen_ne_cStar, cOpen_ne_cQuest]

theorem lex_open (p : Bytes) (e : Elem) (rest : Bytes) (h : readClass p = some (e, rest)) :
    lex (cOpen :: p) 0 = (lex rest 0).map (e :: ·) := by
  obtain ⟨t, rfl⟩ := readClass_suffix p e rest h
  simp [lex, h, lex_skip (t ++ rest), cOpen_ne_cStar, cOpen_ne_cQuest]


/-! ### the pattern parsers agree -/

theorem specTail_mark (mark : Option UInt8) (p : Bytes) (e : Elem) (rest : Bytes)
    (h : specTail mark p = some (e, rest)) : ∃ ms, e = .cls mark ms := by
  unfold specTail at h
  split at h
  rename_i lead p' _
  cases hm : members p' with
  | none => simp [hm] at h
  | some m =>
    simp only [hm, Option.map_some, Option.some.injEq, Prod.mk.injEq] at h
    exact ⟨_, h.1.symm⟩

theorem readClass_noBang (p : Bytes) (e : Elem) (rest : Bytes)
    (h : readClass p = some (e, rest)) (hb : e.bangNegated = false) : p.head? ≠ some cBang := by
  rcases p with _ | ⟨x, r⟩
  · simp
  · intro hx
    have hx : x = cBang := by simpa using hx
    subst hx
    rw [readClass_eq] at h
    simp only [or_true, if_true] at h
    obtain ⟨ms, rfl⟩ := specTail_mark _ _ _ _ h
    simp [Elem.bangNegated] at hb

theorem beq_toNat_false (c : UInt8) (k : Nat) (hk : k < 256) (h : c ≠ UInt8.ofNat k) :
    (c.toNat == k) = false := by
  rw [beq_eq_false_iff_ne]; intro e; exact h ((toNat_eq_iff c k hk).mp e)

theorem parsePatF_lex (f : Nat) : ∀ (p : Bytes) (es : List Elem), p.length ≤ f →
    (∀ c ∈ p, 0 < c.toNat) → lex p 0 = some es → (∀ e ∈ es, e.bangNegated = false) →
    parsePatF f (N p) = some (es.map tokOf) := by
  induction f with
  | zero =>
    intro p es hlen _ hl _
    have : p = [] := List.eq_nil_of_length_eq_zero (by omega)
    subst this
    simp only [lex_nil, Option.some.injEq] at hl
    subst hl; rfl
  | succ f ih =>
    intro p es hlen hpos hl hb
    rcases p with _ | ⟨c, q⟩
    · simp only [lex_nil, Option.some.injEq] at hl
      subst hl; rfl
    · have hlenq : q.length ≤ f := by simpa using hlen
      have hposq : ∀ x ∈ q, 0 < x.toNat := fun x hx => hpos x (by simp [hx])
      have e0 : N (c :: q) = c.toNat :: N q := by simp
      rw [e0]
      by_cases h1 : c = cStar
      · subst h1
        rw [lex_star] at hl
        cases hq : lex q 0 with
        | none => simp [hq] at hl
        | some es' =>
          simp only [hq, Option.map_some, Option.some.injEq] at hl
          subst hl
          have := ih q es' hlenq hposq hq (fun e he => hb e (by simp [he]))
          have hc : ((cStar : UInt8).toNat == cSTAR) = true := by decide
          simp [parsePatF, hc, this, tokOf]
      · have n1 := beq_toNat_false c 42 (by omega) h1
        by_cases h2 : c = cQuest
        · subst h2
          rw [lex_quest] at hl
          cases hq : lex q 0 with
          | none => simp [hq] at hl
          | some es' =>
            simp only [hq, Option.map_some, Option.some.injEq] at hl
            subst hl
            have := ih q es' hlenq hposq hq (fun e he => hb e (by simp [he]))
            have hc : ((cQuest : UInt8).toNat == cQM) = true := by decide
            simp [parsePatF, cSTAR, n1, hc, this, tokOf]
        · have n2 := beq_toNat_false c 63 (by omega) h2
          by_cases h3 : c = cOpen
          · subst h3
            have hc : ((cOpen : UInt8).toNat == cLB) = true := by decide
            cases hr : readClass q with
            | none => rw [lex_open_none q hr] at hl; simp at hl
            | some r =>
              obtain ⟨e, rest⟩ := r
              rw [lex_open q e rest hr] at hl
              cases hq : lex rest 0 with
              | none => simp [hq] at hl
              | some es' =>
                simp only [hq, Option.map_some, Option.some.injEq] at hl
                subst hl
                obtain ⟨t, ht⟩ := readClass_suffix q e rest hr
                have hlenr : rest.length ≤ f := by
                  have : q.length = t.length + rest.length := by rw [ht]; simp
                  omega
                have hposr : ∀ x ∈ rest, 0 < x.toNat := fun x hx => hposq x (by rw [ht]; simp [hx])
                have := ih rest es' hlenr hposr hq (fun e he => hb e (by simp [he]))
                have hnb := readClass_noBang q e rest hr (hb e (by simp))
                have hpc := parseClass_readClass q hposq hnb
                rw [hr] at hpc
                simp only [Option.map_some] at hpc
                simp [parsePatF, cSTAR, cQM, n1, n2, hc, hpc, this]
          · have n3 := beq_toNat_false c 91 (by omega) h3
            rw [lex_lit c q h1 h2 h3] at hl
            cases hq : lex q 0 with
            | none => simp [hq] at hl
            | some es' =>
              simp only [hq, Option.map_some, Option.some.injEq] at hl
              subst hl
              have := ih q es' hlenq hposq hq (fun e he => hb e (by simp [he]))
              simp [parsePatF, cSTAR, cQM, cLB, n1, n2, n3, this, tokOf]

theorem parsePat_lex (p : Bytes) (es : List Elem) (hpos : ∀ c ∈ p, 0 < c.toNat)
    (hl : lex p 0 = some es) (hb : ∀ e ∈ es, e.bangNegated = false) :
    parsePat (N p) = some (es.map tokOf) := by
  unfold parsePat
  exact parsePatF_lex _ p es (by simp) hpos hl hb


/-! ### the matchers agree -/

theorem matchToks_star (ts : List Tok) (s : Bytes) :
    matchToks (.star :: ts) (N s) = (suffixes s).any fun s' => matchToks ts (N s') := by
  induction s with
  | nil => simp [matchToks, suffixes]
  | cons c s ih =>
    have : N (c :: s) = c.toNat :: N s := by simp
    rw [this, matchToks, ih]
    simp [suffixes]

theorem hit_itemsOf (c : UInt8) (m : Member) (h : m.ordered = true) :
    (itemsOf m).any (Item.hit c.toNat) = m.has c := by
  cases m with
  | one x =>
    simp only [itemsOf, List.any_cons, List.any_nil, Bool.or_false, Item.hit, Member.has]
    rw [Bool.eq_iff_iff]; simp [UInt8.toNat_inj]
  | range lo hi =>
    simp only [Member.ordered, decide_eq_true_eq, UInt8.le_iff_toNat_le] at h
    simp only [itemsOf, List.any_cons, List.any_nil, Bool.or_false, Item.hit, Member.has]
    rw [Bool.eq_iff_iff]
    simp only [Bool.or_eq_true, beq_iff_eq, Bool.and_eq_true, decide_eq_true_eq,
      UInt8.le_iff_toNat_le]
    omega

theorem hit_flatMap (c : UInt8) (ms : List Member) (h : ms.all Member.ordered = true) :
    (ms.flatMap itemsOf).any (Item.hit c.toNat) = ms.any (·.has c) := by
  induction ms with
  | nil => rfl
  | cons m ms ih =>
    simp only [List.all_cons, Bool.and_eq_true] at h
    simp [List.flatMap_cons, List.any_append, hit_itemsOf c m h.1, ih h.2]

theorem matchToks_matchElems (es : List Elem) (h : es.all Elem.ordered = true) :
    ∀ s : Bytes, matchToks (es.map tokOf) (N s) = matchElems es s := by
  induction es with
  | nil => intro s; cases s <;> simp [matchToks, matchElems]
  | cons e es ih =>
    simp only [List.all_cons, Bool.and_eq_true] at h
    have ih := ih h.2
    intro s
    cases e with
    | star =>
      simp only [List.map_cons, tokOf, matchToks_star, matchElems]
      congr 1; funext s'; exact ih s'
    | any =>
      cases s with
      | nil => simp [tokOf, matchToks, matchElems]
      | cons c s => simp [tokOf, matchToks, matchElems, ih s]
    | lit x =>
      cases s with
      | nil => simp [tokOf, matchToks, matchElems]
      | cons c s =>
        simp only [List.map_cons, tokOf, matchToks, matchElems, ih s]
        congr 1
        rw [Bool.eq_iff_iff]; simp only [beq_iff_eq, UInt8.toNat_inj]; exact eq_comm
    | cls mark ms =>
      cases s with
      | nil => simp [tokOf, matchToks, matchElems]
      | cons c s =>
        simp only [List.map_cons, tokOf, matchToks, matchElems, ih s]
        rw [hit_flatMap c ms h.1]


/-! ### SQLite's GLOB on 7-bit text -/

theorem sqliteGlob_ascii {p s : Bytes} (hp : Ascii p) (hs : Ascii s) :
    sqliteGlob p s = match parsePat (N p) with
      | none => false
      | some ts => matchToks ts (N s) := by
  unfold sqliteGlob
  rw [cstr_ascii hp, cstr_ascii hs, decode_ascii hp, decode_ascii hs]
  rfl

theorem sqliteGlob_eq_globSpec {p s : Bytes} (hp : Ascii p) (hs : Ascii s)
    (hw : WellFormed p) (hb : NoBangClass p) : sqliteGlob p s = globSpec p s := by
  rw [sqliteGlob_ascii hp hs]
  unfold globSpec
  unfold WellFormed wellFormed at hw
  unfold NoBangClass noBangClass at hb
  cases hl : lex p 0 with
  | none => simp [hl] at hw
  | some es =>
    simp only [hl] at hw hb ⊢
    have hb' : ∀ e ∈ es, e.bangNegated = false := by
      intro e he
      have := List.all_eq_true.mp hb e he
      simpa using this
    rw [parsePat_lex p es (fun c hc => (hp c hc).1) hl hb']
    exact matchToks_matchElems es hw s

/-! ### patterns without metacharacters, and `*` -/

theorem lex_noMeta (s : Bytes) (h : NoMeta s) : lex s 0 = some (s.map .lit) := by
  induction s with
  | nil => rfl
  | cons c s ih =>
    have hc := h c (by simp)
    rw [lex_lit c s hc.1 hc.2.1 hc.2.2, ih (fun x hx => h x (by simp [hx]))]
    rfl

theorem matchElems_lits (s : Bytes) : ∀ t : Bytes, matchElems (s.map .lit) t = true ↔ t = s := by
  induction s with
  | nil => intro t; cases t <;> simp [matchElems]
  | cons c s ih =>
    intro t
    cases t with
    | nil => simp [matchElems]
    | cons d t => simp [matchElems, ih t]

theorem wellFormed_noMeta (s : Bytes) (h : NoMeta s) : WellFormed s := by
  unfold WellFormed wellFormed
  rw [lex_noMeta s h]
  simp [Elem.ordered]

theorem noBangClass_noMeta (s : Bytes) (h : NoMeta s) : NoBangClass s := by
  unfold NoBangClass noBangClass
  rw [lex_noMeta s h]
  simp [Elem.bangNegated]

theorem globSpec_noMeta (s t : Bytes) (h : NoMeta s) : globSpec s t = true ↔ t = s := by
  unfold globSpec
  rw [lex_noMeta s h]
  exact matchElems_lits s t

theorem matchToks_star_nil (s : List Nat) : matchToks [.star] s = true := by
  induction s with
  | nil => simp [matchToks]
  | cons c s ih => rw [matchToks, ih]; simp

theorem sqliteGlob_star (s : Bytes) : sqliteGlob [42] s = true := by
  have : parsePat (decode (cstr [42])) = some [.star] := by
    simp [cstr, decode, parsePat, parsePatF, cSTAR]
  unfold sqliteGlob
  rw [this]
  exact matchToks_star_nil _

/-! ### evaluating the model on closed terms

The model's `decode`, `classLoop` and `matchToks` are defined by well-founded recursion, which
`decide` cannot unfold. Two kernel-only ways around it. -/

/-- closes `sqliteGlob p s = b` for closed 7-bit `p`, `s` with no class starting with `!`:
go through the agreement theorem, then evaluate the structurally recursive `globSpec` -/
macro "glob_eval" : tactic =>
  `(tactic| (rw [Redka.Glob.sqliteGlob_eq_globSpec (by decide +kernel) (by decide +kernel)
      (by decide +kernel) (by decide +kernel)]; decide +kernel))

/-- closes `sqliteGlob [..] [..] = b` for explicit byte lists by unfolding the model's equations -/
macro "glob_unfold" : tactic =>
  `(tactic| simp [Redka.Glob.sqliteGlob, Redka.Glob.cstr, Redka.Glob.decode, Redka.Glob.parsePat,
      Redka.Glob.parsePatF, Redka.Glob.parseClass, Redka.Glob.classLoop, Redka.Glob.matchToks,
      Redka.Glob.Item.hit, Redka.Glob.cSTAR, Redka.Glob.cQM, Redka.Glob.cLB, Redka.Glob.cRB,
      Redka.Glob.cCARET, Redka.Glob.cDASH])

end Redka.Glob
