/-
  C11 — no repository method changes the connection flag `foreign_keys` (`fk_preserved`).
-/
import RedkaModel.Proofs.InvKey

namespace Redka.InvP

open Redka Redka.Model

theorem keyUpsert_fk {db : DB} {k : Bytes} {ty : Int} {onNew : Int → KeyRow}
    {onOld : KeyRow → KeyRow} {db' : DB} {r : KeyRow}
    (h : keyUpsert db k ty onNew onOld = .ok (db', r)) : db'.fk = db.fk := by
  rcases keyUpsert_cases h with ⟨_, _, e⟩ | ⟨_, _, _, _, e⟩ <;> rw [e] <;> rfl

/-! ### keys -/

theorem keyDelete_fk (db : DB) (ks : List Bytes) (now : Int) : (keyDelete db ks now).db.fk = db.fk :=
  deleteKeysWhere_fk db _

theorem keyDeleteAll_fk (db : DB) (b : Bool) : (keyDeleteAll db b).db.fk = db.fk := by
  unfold keyDeleteAll; cases b <;> exact deleteKeysWhere_fk db _

theorem keyDeleteExpired_fk (db : DB) (n now : Int) : (keyDeleteExpired db n now).db.fk = db.fk :=
  deleteKeysWhere_fk db _

theorem keyExpireAt_fk (db : DB) (k : Bytes) (a now : Int) : (keyExpireAt db k a now).db.fk = db.fk := by
  unfold keyExpireAt; split <;> rfl

theorem keyPersist_fk (db : DB) (k : Bytes) (now : Int) : (keyPersist db k now).db.fk = db.fk := by
  unfold keyPersist; split <;> rfl

theorem renameStmt_fk (db : DB) (k nk : Bytes) (now : Int) : (renameStmt db k nk now).fk = db.fk := by
  unfold renameStmt
  split
  · rfl
  · exact deleteKeysWhere_fk db _

theorem keyRename_fk (db : DB) (k nk : Bytes) (now : Int) : (keyRename db k nk now).db.fk = db.fk := by
  unfold keyRename
  repeat' split
  all_goals first | rfl | exact renameStmt_fk db k nk now

theorem keyRenameNX_fk (db : DB) (k nk : Bytes) (now : Int) : (keyRenameNX db k nk now).db.fk = db.fk := by
  unfold keyRenameNX
  repeat' split
  all_goals first | rfl | exact renameStmt_fk db k nk now

/-! ### strings -/

theorem strSet2_fk {db : DB} {k v : Bytes} {db' : DB} (h : strSet2 db k v = .ok db') : db'.fk = db.fk := by
  unfold strSet2 at h
  split at h
  · cases h
  · split at h <;> (simp only [Except.ok.injEq] at h; rw [← h])

theorem strUpsertSet_fk (db : DB) (k v : Bytes) (onNew : Int → KeyRow) (onOld : KeyRow → KeyRow) :
    (match keyUpsert db k TString onNew onOld with
      | .error e => ((.error e : Except Err DB), db)
      | .ok (db1, _) =>
        match strSet2 db1 k v with
        | .error e => (.error e, db1)
        | .ok db2 => (.ok db2, db2)).2.fk = db.fk := by
  split
  · rfl
  · rename_i db1 r he
    have h1 := keyUpsert_fk he
    split
    · exact h1
    · rename_i db2 h2; exact (strSet2_fk h2).trans h1

theorem strSetTx_fk (db : DB) (k v : Bytes) (et : Option Int) (now : Int) :
    (strSetTx db k v et now).2.fk = db.fk := strUpsertSet_fk db k v _ _

theorem strUpdateTx_fk (db : DB) (k v : Bytes) (now : Int) :
    (strUpdateTx db k v now).2.fk = db.fk := strUpsertSet_fk db k v _ _

theorem strSet_fk (db : DB) (k v : Bytes) (et : Option Int) (now : Int) :
    (strSet db k v et now).db.fk = db.fk := by
  unfold strSet
  have := strSetTx_fk db k v et now
  split <;> (rename_i he; rw [he] at this; exact this)

theorem strIncr_fk (db : DB) (k : Bytes) (d now : Int) : (strIncr db k d now).db.fk = db.fk := by
  unfold strIncr
  simp only
  split
  · rfl
  · rename_i n _
    have := strUpdateTx_fk db k (itoa (wrap64 (n + d))) now
    split <;> (rename_i he; rw [he] at this; exact this)

theorem strIncrFloat_fk (db : DB) (k : Bytes) (d : Dyadic) (now : Int) : (strIncrFloat db k d now).db.fk = db.fk := by
  unfold strIncrFloat
  simp only
  split
  · rfl
  · rfl
  · split
    · split <;> rfl
    · rename_i txt _
      have := strUpdateTx_fk db k txt now
      split <;> (rename_i he; rw [he] at this; exact this)

theorem strSetMany_fk (items : List (Bytes × Bytes)) (now : Int) :
    ∀ db : DB, (strSetMany db items now).db.fk = db.fk := by
  induction items with
  | nil => intro db; rfl
  | cons p rest ih =>
    intro db
    obtain ⟨k, v⟩ := p
    unfold strSetMany
    have := strSetTx_fk db k v none now
    split
    · rename_i he; rw [he] at this; exact this
    · rename_i he; rw [he] at this; exact (ih _).trans this

theorem strSetWith_fk (db : DB) (k v : Bytes) (o : SetOpts) (now : Int) :
    (strSetWith db k v o now).db.fk = db.fk := by
  unfold strSetWith
  simp only
  split
  · rfl
  · split
    · rfl
    · have h1 := strUpdateTx_fk db k v now
      have h2 := strSetTx_fk db k v (if o.ttl > 0 then some (now + o.ttl) else o.atMs) now
      split <;> rename_i he <;> split at he <;> first
        | (rw [he] at h1; exact h1)
        | (rw [he] at h2; exact h2)

/-! ### sets -/

theorem setInsertRow_fk {db : DB} {kid : Int} {e : Bytes} {db' : DB}
    (h : setInsertRow db kid e = some db') : db'.fk = db.fk := by
  unfold setInsertRow at h
  split at h
  · cases h
  · simp only [Option.some.injEq] at h; rw [← h]; rfl

theorem setAddElems_fk (kid : Int) (es : List Bytes) :
    ∀ (db : DB) (n : Int), (setAddElems db kid es n).1.fk = db.fk := by
  induction es with
  | nil => intro db n; rfl
  | cons e es ih =>
    intro db n
    unfold setAddElems
    split
    · exact ih db n
    · rename_i db' he; exact (ih db' (n + 1)).trans (setInsertRow_fk he)

theorem setAdd_fk (db : DB) (k : Bytes) (es : List Bytes) (now : Int) :
    (setAdd db k es now).db.fk = db.fk := by
  unfold setAdd
  split
  · rfl
  · rename_i db1 r he
    exact (setAddElems_fk r.id es db1 0).trans (keyUpsert_fk he)

theorem setUpdKeyAfterDelete_fk (db : DB) (k : Bytes) (n now : Int) :
    (setUpdKeyAfterDelete db k n now).fk = db.fk := by
  unfold setUpdKeyAfterDelete; split <;> rfl

theorem setDelete_fk (db : DB) (k : Bytes) (es : List Bytes) (now : Int) :
    (setDelete db k es now).db.fk = db.fk := by
  unfold setDelete
  split
  · rfl
  · simp only
    split
    · rfl
    · exact setUpdKeyAfterDelete_fk _ _ _ _

theorem setDeleteKey_fk (db : DB) (k : Bytes) (now : Int) : (setDeleteKey db k now).fk = db.fk := by
  unfold setDeleteKey; split <;> rfl

theorem setInsertAll_fk (kid : Int) (es : List Bytes) :
    ∀ (db : DB) (n : Int) {db3 : DB} {m : Int}, setInsertAll db kid es n = .ok (db3, m) → db3.fk = db.fk := by
  induction es with
  | nil =>
    intro db n db3 m he
    simp only [setInsertAll, Except.ok.injEq, Prod.mk.injEq] at he
    rw [← he.1]
  | cons e es ih =>
    intro db n db3 m he
    unfold setInsertAll at he
    split at he
    · cases he
    · rename_i db' hi; exact (ih db' (n + 1) he).trans (setInsertRow_fk hi)

theorem setStore_fk (db : DB) (d : Bytes) (ks : List Bytes) (now : Int) (compute : DB → List Bytes) :
    (setStore db d ks now compute).db.fk = db.fk := by
  unfold setStore
  split
  · rfl
  · have h1 := setDeleteKey_fk db d now
    simp only
    split
    · exact h1
    · rename_i db2 r he
      have h2 := (keyUpsert_fk he).trans h1
      split
      · exact h2
      · rename_i db3 n hi; exact (setInsertAll_fk _ _ _ _ hi).trans h2

theorem setMove_fk (db : DB) (s d e : Bytes) (now : Int) : (setMove db s d e now).db.fk = db.fk := by
  unfold setMove
  have h1 := setDelete_fk db s [e] now
  have h2 := (setAdd_fk (setDelete db s [e] now).db d [e] now).trans h1
  simp only
  split
  · exact h1
  · split
    · exact h1
    · split <;> exact h2
  · exact h1

theorem setPop_fk (db : DB) (k : Bytes) (o : Option Bytes) (now : Int) :
    (setPop db k o now).db.fk = db.fk := by
  unfold setPop
  split
  · split <;> rfl
  · simp only
    split
    · split <;> rfl
    · split
      · exact setUpdKeyAfterDelete_fk _ _ _ _
      · rfl

/-! ### hashes -/

theorem hashSetRow_fk (db : DB) (kid : Int) (f v : Bytes) : (hashSetRow db kid f v).fk = db.fk := by
  unfold hashSetRow; split <;> rfl

theorem hashSetTx_fk {db : DB} {k f v : Bytes} {now : Int} {d : DB}
    (h : hashSetTx db k f v now = .ok d) : d.fk = db.fk := by
  unfold hashSetTx at h
  split at h
  · cases h
  · rename_i db1 r he
    simp only [Except.ok.injEq] at h
    rw [← h]; exact (hashSetRow_fk _ _ _ _).trans (keyUpsert_fk he)

theorem hashSet_fk (db : DB) (k f v : Bytes) (now : Int) : (hashSet db k f v now).db.fk = db.fk := by
  unfold hashSet
  simp only
  split
  · rfl
  · rename_i d he; exact hashSetTx_fk he

theorem hashSetManyLoop_fk (k : Bytes) (now : Int) (items : List (Bytes × Bytes)) :
    ∀ db : DB, (hashSetManyLoop db k now items).2.fk = db.fk := by
  induction items with
  | nil => intro db; rfl
  | cons p rest ih =>
    intro db
    obtain ⟨f, v⟩ := p
    unfold hashSetManyLoop
    split
    · rfl
    · rename_i d he; exact (ih d).trans (hashSetTx_fk he)

theorem hashSetMany_fk (db : DB) (k : Bytes) (items : List (Bytes × Bytes)) (now : Int) :
    (hashSetMany db k items now).db.fk = db.fk := by
  unfold hashSetMany
  have := hashSetManyLoop_fk k now items db
  simp only
  split <;> (rename_i he; rw [he] at this; exact this)

theorem hashSetNotExists_fk (db : DB) (k f v : Bytes) (now : Int) :
    (hashSetNotExists db k f v now).db.fk = db.fk := by
  unfold hashSetNotExists
  split
  · rfl
  · split
    · rfl
    · rename_i d he; exact hashSetTx_fk he

theorem hashIncr_fk (db : DB) (k f : Bytes) (d now : Int) : (hashIncr db k f d now).db.fk = db.fk := by
  unfold hashIncr
  simp only
  split
  · rfl
  · split
    · rfl
    · rename_i dd he; exact hashSetTx_fk he

theorem hashIncrFloat_fk (db : DB) (k f : Bytes) (d : Dyadic) (now : Int) : (hashIncrFloat db k f d now).db.fk = db.fk := by
  unfold hashIncrFloat
  simp only
  split
  · rfl
  · rfl
  · split
    · split <;> rfl
    · split
      · rfl
      · rename_i dd he; exact hashSetTx_fk he

theorem hashDelete_fk (db : DB) (k : Bytes) (fs : List Bytes) (now : Int) :
    (hashDelete db k fs now).db.fk = db.fk := by
  unfold hashDelete
  split
  · rfl
  · simp only
    split <;> rfl

/-! ### sorted sets -/

theorem zInsertNew_fk (db : DB) (kid : Int) (e : Bytes) (s : Score) : (zInsertNew db kid e s).fk = db.fk := rfl

theorem zSetRow_fk (db : DB) (kid : Int) (e : Bytes) (s : Score) : (zSetRow db kid e s).fk = db.fk := by
  unfold zSetRow; split <;> rfl

theorem zAddTx_fk {db : DB} {k e : Bytes} {s : Score} {now : Int} {d : DB}
    (h : zAddTx db k e s now = .ok d) : d.fk = db.fk := by
  unfold zAddTx at h
  split at h
  · cases h
  · rename_i db1 r he
    simp only [Except.ok.injEq] at h
    rw [← h]; exact (zSetRow_fk _ _ _ _).trans (keyUpsert_fk he)

theorem zAdd_fk (db : DB) (k e : Bytes) (s : Score) (now : Int) : (zAdd db k e s now).db.fk = db.fk := by
  unfold zAdd
  simp only
  split
  · rfl
  · rename_i d he; exact zAddTx_fk he

theorem zAddManyLoop_fk (k : Bytes) (now : Int) (items : List (Bytes × Score)) :
    ∀ db : DB, (zAddManyLoop db k now items).2.fk = db.fk := by
  induction items with
  | nil => intro db; rfl
  | cons p rest ih =>
    intro db
    obtain ⟨e, s⟩ := p
    unfold zAddManyLoop
    split
    · rfl
    · rename_i d he; exact (ih d).trans (zAddTx_fk he)

theorem zAddMany_fk (db : DB) (k : Bytes) (items : List (Bytes × Score)) (now : Int) :
    (zAddMany db k items now).db.fk = db.fk := by
  unfold zAddMany
  have := zAddManyLoop_fk k now items db
  simp only
  split <;> (rename_i he; rw [he] at this; exact this)

theorem zIncr_fk (db : DB) (k e : Bytes) (d : Score) (now : Int) : (zIncr db k e d now).db.fk = db.fk := by
  unfold zIncr
  split
  · rfl
  · rename_i db1 r he
    have h1 := keyUpsert_fk he
    split
    · exact h1
    · split
      · exact h1
      · exact (zSetRow_fk _ _ _ _).trans h1

theorem zDeleteWhere_fk (db : DB) (k : Bytes) (vs : List Bytes) (now : Int) :
    (zDeleteWhere db k vs now).db.fk = db.fk := by
  unfold zDeleteWhere
  split
  · rfl
  · simp only
    split
    · rfl
    · unfold zUpdKeyAfterDelete; split <;> rfl

theorem zDeleteRank_fk (db : DB) (k : Bytes) (a b now : Int) : (zDeleteRank db k a b now).db.fk = db.fk := by
  unfold zDeleteRank
  split
  · rfl
  · split
    · rfl
    · exact zDeleteWhere_fk _ _ _ _

theorem zDeleteAll_fk (db : DB) (k : Bytes) (now : Int) : (zDeleteAll db k now).fk = db.fk := by
  unfold zDeleteAll; split <;> rfl

theorem zInsertAll_fk (kid : Int) (items : List (Bytes × Option Score)) :
    ∀ (db : DB) (n : Int) {db3 : DB} {m : Int}, zInsertAll db kid items n = .ok (db3, m) → db3.fk = db.fk := by
  induction items with
  | nil =>
    intro db n db3 m he
    simp only [zInsertAll, Except.ok.injEq, Prod.mk.injEq] at he
    rw [← he.1]
  | cons p rest ih =>
    intro db n db3 m he
    obtain ⟨e, s⟩ := p
    unfold zInsertAll at he
    split at he
    · cases he
    · split at he
      · cases he
      · exact (ih _ (n + 1) he).trans (zInsertNew_fk _ _ _ _)

theorem zCombineStore_fk (db : DB) (d : Bytes) (ks : List Bytes) (agg : Agg) (inter : Bool) (now : Int) :
    (zCombineStore db d ks agg inter now).db.fk = db.fk := by
  unfold zCombineStore
  have h1 := zDeleteAll_fk db d now
  simp only
  split
  · exact h1
  · rename_i db2 r he
    have h2 := (keyUpsert_fk he).trans h1
    split
    · exact h2
    · rename_i db3 n hi; exact (zInsertAll_fk _ _ _ _ hi).trans h2

/-! ### lists -/

theorem listOnDelete_fold_fk (kid now : Int) (vs : List Dyadic) :
    ∀ db : DB, (vs.foldl (fun d _ => listOnDelete d kid now) db).fk = db.fk := by
  induction vs with
  | nil => intro db; rfl
  | cons v vs ih => intro db; rw [List.foldl_cons]; exact ih _

theorem listDeleteRows_fk (db : DB) (kid : Int) (vs : List Dyadic) (now : Int) :
    (listDeleteRows db kid vs now).fk = db.fk := by
  unfold listDeleteRows
  exact listOnDelete_fold_fk kid now vs _

theorem listPush_fk (db : DB) (k e : Bytes) (front : Bool) (now : Int) :
    (listPush db k e front now).db.fk = db.fk := by
  unfold listPush
  cases hk : listPushKey db k now with
  | error er => rfl
  | ok p =>
    obtain ⟨db1, r⟩ := p
    have h1 : db1.fk = db.fk := keyUpsert_fk hk
    simp only
    generalize (if front = true then
        (match dyMin ((db1.lists.filter (fun x => x.kid == r.id)).map (·.pos)) with
          | none => (0 : Dyadic) | some m => round53 (m - 1))
      else _) = pos
    split <;> exact h1

theorem listPop_fk (db : DB) (k : Bytes) (front : Bool) (now : Int) :
    (listPop db k front now).db.fk = db.fk := by
  unfold listPop
  split
  · rfl
  · simp only
    split
    · rfl
    · exact listDeleteRows_fk _ _ _ _

theorem listPopBackPushFront_fk (db : DB) (s d : Bytes) (now : Int) :
    (listPopBackPushFront db s d now).db.fk = db.fk := by
  unfold listPopBackPushFront
  have h1 := listPop_fk db s false now
  generalize listPop db s false now = r at h1 ⊢
  simp only
  split
  · exact h1
  · rename_i el _
    have h2 := (listPush_fk r.db d el true now).trans h1
    split <;> exact h2
  · exact h1

theorem listDelete_fk (db : DB) (k e : Bytes) (now : Int) : (listDelete db k e now).db.fk = db.fk := by
  unfold listDelete
  split
  · rfl
  · exact listDeleteRows_fk _ _ _ _

theorem listDeleteN_fk (db : DB) (k e : Bytes) (n : Int) (back : Bool) (now : Int) :
    (listDeleteN db k e n back now).db.fk = db.fk := by
  unfold listDeleteN
  split
  · rfl
  · split
    · rfl
    · exact listDeleteRows_fk _ _ _ _

theorem listSet_fk (db : DB) (k : Bytes) (i : Int) (e : Bytes) (now : Int) :
    (listSet db k i e now).db.fk = db.fk := by
  unfold listSet
  split
  · rfl
  · split <;> rfl

theorem listTrim_fk (db : DB) (k : Bytes) (a b now : Int) : (listTrim db k a b now).db.fk = db.fk := by
  unfold listTrim
  split
  · rfl
  · simp only
    split
    · rfl
    · split
      · rfl
      · exact listDeleteRows_fk _ _ _ _

theorem listInsert_fk (db : DB) (k p e : Bytes) (after : Bool) (now : Int) :
    (listInsert db k p e after now).db.fk = db.fk := by
  generalize hres : listInsert db k p e after now = res
  unfold listInsert at hres
  split at hres
  · subst hres; rfl
  · rename_i r0 hl
    simp only at hres
    split at hres
    · subst hres; rfl
    · rename_i pv _
      generalize (if after = true then
          (match dyMin (((listRows db r0.id).filter (fun x => decide (pv < x.pos))).map (·.pos)) with
            | none => round53 (pv + 1) | some nx => mid53 pv nx)
        else _) = newpos at hres
      split at hres <;> (subst hres; rfl)

end Redka.InvP
