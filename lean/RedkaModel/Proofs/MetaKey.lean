/-
  C19 — the key repository: deletions and renames are `Eff` steps, the expiry commands are
  `ExpStep`s (version bumped, modification time kept, value untouched).
-/
import RedkaModel.Proofs.MetaEff
import RedkaModel.Proofs.InvKey

namespace Redka.MetaProofs

open Redka Redka.Model Redka.InvP

variable {db : DB}

/-! ### deleting key rows -/

/-- `delete from rkey where p` (cascade on or off): the surviving rows and their children are
exactly as before -/
theorem deleteKeysWhere_sub {δ : Int → Int} (h : WFd δ db) (p : KeyRow → Bool) :
    ∀ r' ∈ (db.deleteKeysWhere p).1.keys, r' ∈ db.keys ∧ p r' = false ∧
      ChildEq db (db.deleteKeysWhere p).1 r'.id := by
  intro r' hr'
  rw [deleteKeysWhere_keys] at hr'
  obtain ⟨hr, hp⟩ := List.mem_filter.1 hr'
  have hp : p r' = false := by simpa using hp
  refine ⟨hr, hp, ?_⟩
  unfold DB.deleteKeysWhere DB.cascade
  cases db.fk
  · exact ChildEq.of_tables rfl rfl rfl rfl rfl
  · have hc : ((db.keys.filter p).map (·.id)).contains r'.id = false := by
      rw [contains_deleted_ids h p hr, hp]
    have keepc : ∀ {α} (kidf : α → Int) (l : List α),
        l.filter (fun x => kidf x == r'.id) =
        (l.filter (fun x => !((db.keys.filter p).map (·.id)).contains (kidf x))).filter
          (fun x => kidf x == r'.id) := by
      intro α kidf l
      refine (filter_kid_filter_other kidf _ l r'.id (fun x _ e => ?_)).symm
      rw [e, hc]; rfl
    exact ⟨keepc (·.kid) db.strs, keepc (·.kid) db.lists, keepc (·.kid) db.sets,
      keepc (·.kid) db.hashes, keepc (·.kid) db.zsets⟩

theorem deleteKeysWhere_eff {δ : Int → Int} (h : WFd δ db) (p : KeyRow → Bool) (now : Int) :
    Eff now db (db.deleteKeysWhere p).1 := fun r' hr' =>
  .inl ⟨(deleteKeysWhere_sub h p r' hr').1, (deleteKeysWhere_sub h p r' hr').2.2⟩

theorem keyDelete_eff (h : WF db) (ks : List Bytes) (now : Int) :
    Eff now db (keyDelete db ks now).db := deleteKeysWhere_eff h _ now

theorem keyDeleteAll_eff (h : WF db) (inTx : Bool) (now : Int) :
    Eff now db (keyDeleteAll db inTx).db := by
  unfold keyDeleteAll
  cases inTx <;> exact deleteKeysWhere_eff h _ now

theorem keyDeleteExpired_eff (h : WF db) (n now : Int) :
    Eff now db (keyDeleteExpired db n now).db := deleteKeysWhere_eff h _ now

/-! ### rename -/

theorem renameStmt_eff (h : WF db) (k nk : Bytes) (now : Int) :
    Eff now db (renameStmt db k nk now) := by
  unfold renameStmt
  split
  · exact Eff.refl _ _
  · rename_i r hlk
    show Eff now db (DB.updKey (db.deleteKeysWhere (fun x => x.key == nk && x.id != r.id)).1 r.id _)
    have hsub := deleteKeysWhere_sub h (fun x => x.key == nk && x.id != r.id)
    generalize (db.deleteKeysWhere (fun x => x.key == nk && x.id != r.id)).1 = db1 at hsub
    intro r'' hr''
    obtain ⟨r', hr', ⟨hi, e⟩ | ⟨hi, e⟩⟩ := mem_updKey hr''
    · obtain ⟨ha, _, _⟩ := hsub r' hr'
      refine .inr ⟨by rw [e], .inl ⟨r', ha, by rw [e], by rw [e], by rw [e]; show r'.version < r'.version + 1; omega⟩⟩
    · obtain ⟨ha, _, hc⟩ := hsub r' hr'
      subst e
      exact .inl ⟨ha, hc.trans (ChildEq.of_tables rfl rfl rfl rfl rfl)⟩

theorem keyRename_eff (h : WF db) (k nk : Bytes) (now : Int) :
    Eff now db (keyRename db k nk now).db := by
  unfold keyRename
  repeat' split
  all_goals first | exact Eff.refl _ _ | exact renameStmt_eff h k nk now

theorem keyRenameNX_eff (h : WF db) (k nk : Bytes) (now : Int) :
    Eff now db (keyRenameNX db k nk now).db := by
  unfold keyRenameNX
  repeat' split
  all_goals first | exact Eff.refl _ _ | exact renameStmt_eff h k nk now

/-! ### the expiry commands -/

/-- every row is a row of the pre-state, possibly with a larger version and another expiry;
no child table changes -/
structure ExpStep (a b : DB) : Prop where
  keys : ∀ r' ∈ b.keys, ∃ r ∈ a.keys,
    r' = r ∨ (r' = { r with version := r'.version, etime := r'.etime } ∧ r.version < r'.version)
  child : ∀ i, ChildEq a b i

theorem ExpStep.refl (a : DB) : ExpStep a a :=
  ⟨fun r hr => ⟨r, hr, .inl rfl⟩, fun i => ChildEq.refl a i⟩

theorem ExpStep.mono {now : Int} {a b : DB} (h : ExpStep a b) (hm : MonoClock now a) :
    MonoClock now b := by
  intro r' hr'
  obtain ⟨r, hr, e | ⟨e, _⟩⟩ := h.keys r' hr'
  · rw [e]; exact hm r hr
  · rw [e]; exact hm r hr

theorem ExpStep.plain {now : Int} {a b : DB} (h : ExpStep a b)
    (hu : a.keys.Pairwise (fun x y => x.id ≠ y.id)) :
    ∀ r' ∈ b.keys, PlainRowM now a b r' := by
  intro r' hr'
  unfold PlainRowM
  obtain ⟨r, hr, e | ⟨e, hv⟩⟩ := h.keys r' hr'
  · subst e
    rw [rowAt_of_mem hu hr]
    have : Spec.absVal a r' = Spec.absVal b r' := absVal_congr (h.child _)
    exact ⟨Int.le_refl _, fun _ => Int.le_refl _, rfl,
      fun h => by rcases h with h | h <;> exact absurd (by first | exact this | rfl) h,
      fun h => absurd this h⟩
  · have hid : r'.id = r.id := by rw [e]
    have hkey : r'.key = r.key := by rw [e]
    have hty : r'.ty = r.ty := by rw [e]
    have hmt : r'.mtime = r.mtime := by rw [e]
    rw [hid, hkey, rowAt_of_mem hu hr]
    have : Spec.absVal a r = Spec.absVal b r' :=
      (absVal_congr (h.child _)).trans (absVal_row hid hty).symm
    exact ⟨by omega, fun _ => by omega, hty.symm, fun _ => hv, fun h => absurd this h⟩

theorem expUpd_step (i : Int) (f : KeyRow → KeyRow)
    (hf : ∀ o, f o = { o with version := (f o).version, etime := (f o).etime } ∧
      o.version < (f o).version) : ExpStep db (db.updKey i f) := by
  refine ⟨fun r' hr' => ?_, fun i => ChildEq.of_tables rfl rfl rfl rfl rfl⟩
  obtain ⟨r, hr, ⟨_, e⟩ | ⟨_, e⟩⟩ := mem_updKey hr'
  · refine ⟨r, hr, .inr ?_⟩
    rw [e]; exact hf r
  · exact ⟨r, hr, .inl e⟩

theorem keyExpireAt_step (k : Bytes) (at_ now : Int) : ExpStep db (keyExpireAt db k at_ now).db := by
  unfold keyExpireAt
  split
  · exact ExpStep.refl _
  · exact expUpd_step _ _ (fun o => ⟨rfl, by show o.version < o.version + 1; omega⟩)

theorem keyExpire_step (k : Bytes) (ttl now : Int) : ExpStep db (keyExpire db k ttl now).db :=
  keyExpireAt_step k _ now

theorem keyPersist_step (k : Bytes) (now : Int) : ExpStep db (keyPersist db k now).db := by
  unfold keyPersist
  split
  · exact ExpStep.refl _
  · exact expUpd_step _ _ (fun o => ⟨rfl, by show o.version < o.version + 1; omega⟩)

end Redka.MetaProofs
