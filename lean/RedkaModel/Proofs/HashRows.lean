/-
  The `rhash` table as a list of rows: what the rows of one key id stand for (`hview`, the
  field-to-value map in field order), the pointwise reading of that map (`hfind`), and what the
  two statements that change the table — the upsert `sqlSet2` (`hashPut`) and the delete of
  `sqlDelete` (`hashDel`) — do to both. Everything here is independent of `rkey`.
-/
import RedkaModel.Proofs.Abs
import RedkaModel.Model.Hash

namespace Redka.HashRef

open Redka Redka.Model Redka.Spec Redka.Scan

/-! ### small list facts -/

set_option linter.unusedSimpArgs false in
theorem length_filter_split {α : Type} (p c : α → Bool) : ∀ (l : List α),
    (l.filter p).length
      = (l.filter (fun x => p x && c x)).length
        + ((l.filter (fun x => !(p x && c x))).filter p).length
  | [] => rfl
  | x :: l => by
    have ih := length_filter_split p c l
    simp only [List.filter_cons]
    cases hp : p x <;> cases hc : c x <;>
      simp only [hp, hc, Bool.and_self, Bool.and_true, Bool.and_false, Bool.false_and, Bool.not_true,
        Bool.not_false, Bool.false_eq_true, ↓reduceIte, List.filter_cons, List.length_cons] <;> omega

theorem length_filter_add_not {α : Type} (p : α → Bool) : ∀ (l : List α),
    l.length = (l.filter p).length + (l.filter (fun x => !p x)).length
  | [] => rfl
  | x :: l => by
    have ih := length_filter_add_not p l
    cases hp : p x <;> simp [hp] <;> omega

theorem find?_congr' {α : Type} {p q : α → Bool} : ∀ (l : List α), (∀ x ∈ l, p x = q x) →
    l.find? p = l.find? q
  | [], _ => rfl
  | x :: l, h => by
    rw [List.find?_cons, List.find?_cons, h x (by simp),
      find?_congr' l (fun y hy => h y (List.mem_cons_of_mem _ hy))]

/-- two lists without repetitions meet in as many elements, whichever of them is filtered -/
theorem length_inter_comm {α : Type} [BEq α] [LawfulBEq α] {a b : List α} (ha : a.Nodup) (hb : b.Nodup) :
    (a.filter (fun x => b.contains x)).length = (b.filter (fun x => a.contains x)).length := by
  apply List.Perm.length_eq
  rw [List.perm_ext_iff_of_nodup (ha.filter _) (hb.filter _)]
  intro x
  simp only [List.mem_filter, List.contains_iff_mem]
  exact ⟨fun h => ⟨h.2, h.1⟩, fun h => ⟨h.2, h.1⟩⟩

/-! ### the rows of one key as a field map -/

/-- the unique index on `(kid, field)` -/
def PairNodup (hs : List HashRow) : Prop := (hs.map (fun r => (r.kid, r.field))).Nodup

/-- `select value from rhash where kid = ? and field = ?` -/
def hfind (hs : List HashRow) (id : Int) (f : Bytes) : Option Bytes :=
  (hs.find? (fun x => x.kid == id && x.field == f)).map (·.value)

/-- the fields and values of one key id in field order: what `absVal` reads for a hash key -/
def hview (hs : List HashRow) (id : Int) : List (Bytes × Bytes) :=
  (sortBy (fun a b => bytesLt a.field b.field) (hs.filter (fun r => r.kid == id))).map
    (fun h => (h.field, h.value))

theorem hashRows_view (db : DB) (id : Int) :
    (hashRows db id).map (fun h => (h.field, h.value)) = hview db.hashes id := rfl

theorem fields_nodup {hs : List HashRow} (h : PairNodup hs) (id : Int) :
    ((hs.filter (fun r => r.kid == id)).map (·.field)).Nodup := by
  unfold PairNodup List.Nodup at h
  unfold List.Nodup
  rw [List.pairwise_map] at h ⊢
  refine List.Pairwise.imp_of_mem ?_ (List.Pairwise.filter _ h)
  intro a b ha hb hab heq
  have ha := (List.mem_filter.1 ha).2
  have hb := (List.mem_filter.1 hb).2
  simp only [beq_iff_eq] at ha hb
  exact hab (by rw [ha, hb, heq])

theorem hview_sorted {hs : List HashRow} (h : PairNodup hs) (id : Int) : Sorted (hview hs id) := by
  unfold hview Sorted
  rw [List.pairwise_map]
  exact pairwise_sortBy (fun r : HashRow => r.field) strictTotal_bytes _ (fields_nodup h id)

theorem mem_hview {hs : List HashRow} {id : Int} {f v : Bytes} :
    (f, v) ∈ hview hs id ↔ ∃ x ∈ hs, x.kid = id ∧ x.field = f ∧ x.value = v := by
  simp only [hview, List.mem_map, mem_sortBy, List.mem_filter, beq_iff_eq, Prod.mk.injEq]
  constructor
  · rintro ⟨x, ⟨hx, hk⟩, hf, hv⟩; exact ⟨x, hx, hk, hf, hv⟩
  · rintro ⟨x, hx, hk, hf, hv⟩; exact ⟨x, ⟨hx, hk⟩, hf, hv⟩

theorem length_hview (hs : List HashRow) (id : Int) :
    (hview hs id).length = (hs.filter (fun r => r.kid == id)).length := by
  simp [hview, length_sortBy]

theorem pair_inj {hs : List HashRow} (h : PairNodup hs) {a b : HashRow} (ha : a ∈ hs) (hb : b ∈ hs)
    (hk : a.kid = b.kid) (hf : a.field = b.field) : a = b :=
  inj_of_nodup_map (fun r : HashRow => (r.kid, r.field)) hs h a ha b hb (by simp [hk, hf])

/-- the map read pointwise is the indexed lookup -/
theorem aget_hview {hs : List HashRow} (h : PairNodup hs) (id : Int) (f : Bytes) :
    aget (hview hs id) f = hfind hs id f := by
  apply Option.ext
  intro v
  rw [aget_eq_some_iff (hview_sorted h id).nodup_keys, mem_hview]
  unfold hfind
  constructor
  · rintro ⟨x, hx, hk, hf, hv⟩
    cases hfd : hs.find? (fun x => x.kid == id && x.field == f) with
    | none =>
      rw [List.find?_eq_none] at hfd
      exact absurd (by simp [hk, hf]) (hfd x hx)
    | some y =>
      have hy := List.mem_of_find?_eq_some hfd
      have hp := List.find?_some hfd
      simp only [Bool.and_eq_true, beq_iff_eq] at hp
      have : y = x := pair_inj h hy hx (by rw [hp.1, hk]) (by rw [hp.2, hf])
      simp [this, hv]
  · intro hm
    cases hfd : hs.find? (fun x => x.kid == id && x.field == f) with
    | none => simp [hfd] at hm
    | some y =>
      have hy := List.mem_of_find?_eq_some hfd
      have hp := List.find?_some hfd
      simp only [Bool.and_eq_true, beq_iff_eq] at hp
      simp only [hfd, Option.map_some, Option.some.injEq] at hm
      exact ⟨y, hy, hp.1, hp.2, hm⟩

/-- the field map of a key id is determined by the indexed lookups -/
theorem hview_ext {hs : List HashRow} (h : PairNodup hs) (id : Int) {H : List (Bytes × Bytes)}
    (hH : Sorted H) (hp : ∀ f, hfind hs id f = aget H f) : hview hs id = H :=
  sorted_ext (hview_sorted h id) hH (fun f => by rw [aget_hview h, hp])

theorem hview_congr {hs hs' : List HashRow} {id : Int}
    (h : hs'.filter (fun r => r.kid == id) = hs.filter (fun r => r.kid == id)) :
    hview hs' id = hview hs id := by
  unfold hview; rw [h]

/-- no row, no field -/
theorem hview_nil_of_no_rows {hs : List HashRow} {id : Int} (h : ∀ x ∈ hs, x.kid ≠ id) :
    hview hs id = [] := by
  have : hs.filter (fun r => r.kid == id) = [] := by
    rw [List.filter_eq_nil_iff]
    intro x hx; simpa using h x hx
  simp [hview, this, sortBy]

/-- `count(field)` over a list of fields, for one field: zero exactly when the lookup fails -/
theorem count_one_eq_zero (hs : List HashRow) (id : Int) (f : Bytes) :
    (hs.filter (fun x => x.kid == id && [f].contains x.field)).length = 0 ↔ hfind hs id f = none := by
  unfold hfind
  rw [List.length_eq_zero_iff, List.filter_eq_nil_iff, Option.map_eq_none_iff, List.find?_eq_none]
  constructor <;> intro h x hx <;> simpa using h x hx

/-! ### `sqlSet2`: insert … on conflict (kid, field) do update set value -/

def hashPut (hs : List HashRow) (rid kid : Int) (f v : Bytes) : List HashRow :=
  if hs.any (fun r => r.kid == kid && r.field == f) then
    hs.map (fun r => if r.kid == kid && r.field == f then { r with value := v } else r)
  else hs ++ [{ rowid := rid, kid := kid, field := f, value := v }]

/-- the `do update` assignment -/
def putVal (kid : Int) (f v : Bytes) (r : HashRow) : HashRow :=
  if r.kid == kid && r.field == f then { r with value := v } else r

theorem putVal_kid (kid : Int) (f v : Bytes) (r : HashRow) : (putVal kid f v r).kid = r.kid := by
  unfold putVal; split <;> rfl

theorem putVal_field (kid : Int) (f v : Bytes) (r : HashRow) : (putVal kid f v r).field = r.field := by
  unfold putVal; split <;> rfl

theorem hashPut_eq (hs : List HashRow) (rid kid : Int) (f v : Bytes) :
    hashPut hs rid kid f v
      = if hs.any (fun r => r.kid == kid && r.field == f) then hs.map (putVal kid f v)
        else hs ++ [{ rowid := rid, kid := kid, field := f, value := v }] := rfl

theorem any_iff_hfind (hs : List HashRow) (kid : Int) (f : Bytes) :
    hs.any (fun r => r.kid == kid && r.field == f) = (hfind hs kid f).isSome := by
  unfold hfind
  rw [Option.isSome_map, Bool.eq_iff_iff, List.any_eq_true, List.find?_isSome]

theorem hfind_hashPut (hs : List HashRow) (rid kid : Int) (f v : Bytes) (id' : Int) (f' : Bytes) :
    hfind (hashPut hs rid kid f v) id' f'
      = if kid = id' ∧ f = f' then some v else hfind hs id' f' := by
  rw [hashPut_eq]
  unfold hfind
  split
  · rename_i hany
    rw [List.find?_map]
    have hpc : ((fun x : HashRow => x.kid == id' && x.field == f') ∘ putVal kid f v)
        = (fun x => x.kid == id' && x.field == f') := by
      funext x; simp only [Function.comp, putVal_kid, putVal_field]
    rw [hpc]
    by_cases hc : kid = id' ∧ f = f'
    · obtain ⟨rfl, rfl⟩ := hc
      rw [if_pos ⟨rfl, rfl⟩]
      cases hfd : hs.find? (fun x => x.kid == kid && x.field == f) with
      | none =>
        obtain ⟨x, hx, hp⟩ := List.any_eq_true.1 hany
        rw [List.find?_eq_none] at hfd
        exact absurd hp (hfd x hx)
      | some y =>
        have hp := List.find?_some hfd
        simp [putVal, hp]
    · rw [if_neg hc]
      cases hfd : hs.find? (fun x => x.kid == id' && x.field == f') with
      | none => rfl
      | some y =>
        have hp := List.find?_some hfd
        simp only [Bool.and_eq_true, beq_iff_eq] at hp
        have : ¬ (y.kid = kid ∧ y.field = f) := fun h => hc ⟨h.1 ▸ hp.1, h.2 ▸ hp.2⟩
        simp [putVal, this]
  · rename_i hany
    rw [List.find?_append]
    by_cases hc : kid = id' ∧ f = f'
    · obtain ⟨rfl, rfl⟩ := hc
      have : hs.find? (fun x => x.kid == kid && x.field == f) = none := by
        rw [List.find?_eq_none]
        intro x hx hp
        exact hany (List.any_eq_true.2 ⟨x, hx, hp⟩)
      simp [this]
    · rw [if_neg hc]
      have : (((⟨rid, kid, f, v⟩ : HashRow).kid == id' && (⟨rid, kid, f, v⟩ : HashRow).field == f'))
          = false := by
        simpa using hc
      simp [this]

theorem pairs_hashPut {hs : List HashRow} (h : PairNodup hs) (rid kid : Int) (f v : Bytes) :
    PairNodup (hashPut hs rid kid f v) := by
  rw [hashPut_eq]
  unfold PairNodup at h ⊢
  split
  · rw [List.map_map]
    have : (fun r : HashRow => (r.kid, r.field)) ∘ putVal kid f v = (fun r => (r.kid, r.field)) := by
      funext r; simp only [Function.comp, putVal_kid, putVal_field]
    rw [this]; exact h
  · rename_i hany
    rw [List.map_append, List.nodup_append]
    refine ⟨h, by simp, ?_⟩
    intro a ha b hb
    simp only [List.map_cons, List.map_nil, List.mem_singleton] at hb
    obtain ⟨x, hx, rfl⟩ := List.mem_map.1 ha
    intro he
    rw [hb] at he
    simp only [Prod.mk.injEq] at he
    exact hany (List.any_eq_true.2 ⟨x, hx, by simp [he.1, he.2]⟩)

theorem filter_hashPut_other (hs : List HashRow) (rid : Int) {kid id' : Int} (hne : id' ≠ kid)
    (f v : Bytes) :
    (hashPut hs rid kid f v).filter (fun r => r.kid == id') = hs.filter (fun r => r.kid == id') := by
  rw [hashPut_eq]
  split
  · rw [List.filter_map]
    have hpc : ((fun r : HashRow => r.kid == id') ∘ putVal kid f v) = (fun r => r.kid == id') := by
      funext x; simp only [Function.comp, putVal_kid]
    rw [hpc]
    conv => rhs; rw [← List.map_id (hs.filter (fun r => r.kid == id'))]
    apply List.map_congr_left
    intro x hx
    have hk := (List.mem_filter.1 hx).2
    simp only [beq_iff_eq] at hk
    have : ¬ x.kid = kid := by rw [hk]; exact hne
    simp [putVal, this]
  · rw [List.filter_append]
    have : (kid == id') = false := by simpa using fun h : kid = id' => hne h.symm
    simp [this]

theorem length_filter_hashPut_self (hs : List HashRow) (rid kid : Int) (f v : Bytes) :
    ((hashPut hs rid kid f v).filter (fun r => r.kid == kid)).length
      = (hs.filter (fun r => r.kid == kid)).length
        + (if hs.any (fun r => r.kid == kid && r.field == f) then 0 else 1) := by
  rw [hashPut_eq]
  split
  · rw [List.filter_map, List.length_map]
    have hpc : ((fun r : HashRow => r.kid == kid) ∘ putVal kid f v) = (fun r => r.kid == kid) := by
      funext x; simp only [Function.comp, putVal_kid]
    rw [hpc]; rfl
  · rw [List.filter_append]
    simp

theorem kid_of_mem_hashPut {hs : List HashRow} {rid kid : Int} {f v : Bytes} {x : HashRow}
    (hx : x ∈ hashPut hs rid kid f v) : x.kid = kid ∨ ∃ y ∈ hs, y.kid = x.kid := by
  rw [hashPut_eq] at hx
  split at hx
  · obtain ⟨y, hy, rfl⟩ := List.mem_map.1 hx
    exact Or.inr ⟨y, hy, (putVal_kid kid f v y).symm⟩
  · rcases List.mem_append.1 hx with hx | hx
    · exact Or.inr ⟨x, hx, rfl⟩
    · have : x = ⟨rid, kid, f, v⟩ := by simpa using hx
      exact Or.inl (by rw [this])

/-- the upsert on the field map: `aput` -/
theorem hview_hashPut {hs : List HashRow} (h : PairNodup hs) (rid kid : Int) (f v : Bytes) :
    hview (hashPut hs rid kid f v) kid = aput (hview hs kid) f v := by
  apply hview_ext (pairs_hashPut h rid kid f v) kid ((hview_sorted h kid).aput f v)
  intro f'
  rw [hfind_hashPut, aget_aput, aget_hview h]
  by_cases hf : f = f'
  · simp [hf]
  · have : (f == f') = false := by simpa using hf
    simp [hf, this]

/-! ### `sqlDelete`: delete from rhash where kid = ? and field in (…) -/

def hashDel (hs : List HashRow) (id : Int) (fs : List Bytes) : List HashRow :=
  hs.filter (fun x => !(x.kid == id && fs.contains x.field))

theorem hfind_hashDel (hs : List HashRow) (id : Int) (fs : List Bytes) (id' : Int) (f' : Bytes) :
    hfind (hashDel hs id fs) id' f'
      = if id = id' ∧ fs.contains f' = true then none else hfind hs id' f' := by
  unfold hfind hashDel
  rw [find?_filter']
  by_cases hc : id = id' ∧ fs.contains f' = true
  · rw [if_pos hc]
    obtain ⟨rfl, hcf⟩ := hc
    have : hs.find? (fun a => (a.kid == id && a.field == f') && !(a.kid == id && fs.contains a.field))
        = none := by
      rw [List.find?_eq_none]
      intro x _ hp
      simp only [Bool.and_eq_true, beq_iff_eq, Bool.not_eq_true', Bool.and_eq_false_iff,
        beq_eq_false_iff_ne] at hp
      obtain ⟨⟨hk, hf⟩, hn⟩ := hp
      rcases hn with hn | hn
      · exact hn hk
      · rw [hf, hcf] at hn; cases hn
    rw [this]; rfl
  · rw [if_neg hc]
    congr 1
    apply find?_congr'
    intro x _
    by_cases hp : x.kid = id' ∧ x.field = f'
    · obtain ⟨hk, hf⟩ := hp
      have : ¬ (x.kid = id ∧ fs.contains x.field = true) := by
        rintro ⟨h1, h2⟩
        exact hc ⟨h1 ▸ hk, hf ▸ h2⟩
      simp only [hk, hf, beq_self_eq_true, Bool.and_self, Bool.true_and, Bool.not_eq_true',
        Bool.and_eq_false_iff, beq_eq_false_iff_ne]
      by_cases h1 : id' = id
      · right
        cases h2 : fs.contains f' with
        | false => rfl
        | true => exact absurd ⟨hk ▸ h1, hf ▸ h2⟩ this
      · left; exact h1
    · have : (x.kid == id' && x.field == f') = false := by simpa using hp
      simp [this]

theorem pairs_hashDel {hs : List HashRow} (h : PairNodup hs) (id : Int) (fs : List Bytes) :
    PairNodup (hashDel hs id fs) :=
  List.Nodup.sublist (List.Sublist.map _ List.filter_sublist) h

theorem filter_hashDel_other (hs : List HashRow) {id id' : Int} (hne : id' ≠ id) (fs : List Bytes) :
    (hashDel hs id fs).filter (fun r => r.kid == id') = hs.filter (fun r => r.kid == id') := by
  unfold hashDel
  rw [List.filter_filter]
  apply List.filter_congr
  intro x _
  by_cases hk : x.kid = id'
  · simp [hk, hne]
  · simp [hk]

theorem length_filter_hashDel (hs : List HashRow) (id : Int) (fs : List Bytes) :
    (hs.filter (fun r => r.kid == id)).length
      = (hs.filter (fun x => x.kid == id && fs.contains x.field)).length
        + ((hashDel hs id fs).filter (fun r => r.kid == id)).length :=
  length_filter_split (fun r : HashRow => r.kid == id) (fun r => fs.contains r.field) hs

theorem mem_hashDel {hs : List HashRow} {id : Int} {fs : List Bytes} {x : HashRow}
    (hx : x ∈ hashDel hs id fs) : x ∈ hs := (List.mem_filter.1 hx).1

/-- the delete on the field map: drop the listed fields -/
theorem hview_hashDel {hs : List HashRow} (h : PairNodup hs) (id : Int) (fs : List Bytes) :
    hview (hashDel hs id fs) id = (hview hs id).filter (fun p => !fs.contains p.1) := by
  apply hview_ext (pairs_hashDel h id fs) id ((hview_sorted h id).filter _)
  intro f'
  rw [hfind_hashDel, aget_filter (hview_sorted h id), aget_hview h]
  cases hfd : hfind hs id f' with
  | none => simp
  | some v => by_cases hc : f' ∈ fs <;> simp [hc]

/-! ### counting the fields of a key that occur in a list -/

/-- with distinct fields asked for, as many rows match as asked-for fields are present -/
theorem count_listed {hs : List HashRow} (h : PairNodup hs) (id : Int) {fs : List Bytes}
    (hfs : fs.Nodup) :
    (hs.filter (fun x => x.kid == id && fs.contains x.field)).length
      = (fs.filter (fun f => (hfind hs id f).isSome)).length := by
  have h1 : (hs.filter (fun x => x.kid == id && fs.contains x.field)).length
      = (((hs.filter (fun r => r.kid == id)).map (·.field)).filter (fun f => fs.contains f)).length := by
    rw [List.filter_map, List.length_map, List.filter_filter]
    congr 2
    funext x
    simp only [Function.comp, Bool.and_comm]
  rw [h1, length_inter_comm (fields_nodup h id) hfs]
  congr 1
  apply List.filter_congr
  intro f _
  rw [← aget_hview h]
  cases hg : aget (hview hs id) f with
  | none =>
    simp only [Option.isSome_none]
    rw [aget_eq_none_iff] at hg
    apply Bool.eq_false_iff.2
    intro hc
    obtain ⟨x, hx, hxf⟩ := List.mem_map.1 (List.contains_iff_mem.1 hc)
    have hx' := List.mem_filter.1 hx
    have hk : x.kid = id := by simpa using hx'.2
    exact hg (x.field, x.value) (mem_hview.2 ⟨x, hx'.1, hk, rfl, rfl⟩) hxf
  | some v =>
    simp only [Option.isSome_some]
    obtain ⟨x, hx, hk, hf, _⟩ := mem_hview.1 (mem_of_aget_eq_some hg)
    apply List.contains_iff_mem.2
    exact List.mem_map.2 ⟨x, List.mem_filter.2 ⟨hx, by simp [hk]⟩, hf⟩

end Redka.HashRef
