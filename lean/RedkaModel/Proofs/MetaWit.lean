/-
  C19 — the concrete databases used by the witnesses and non-vacuity examples of `Props/C19`.
-/
import RedkaModel.Proofs.MetaHist

namespace Redka.MetaProofs

open Redka

/-- a string key `s` with a TTL, a two-element list `l`, a one-member set `t` -/
def sample : DB :=
  { keys := [{ id := 1, key := [115], ty := TString, version := 3, etime := some 100, mtime := 5, len := none },
             { id := 2, key := [108], ty := TList, version := 2, etime := none, mtime := 4, len := some 2 },
             { id := 3, key := [116], ty := TSet, version := 7, etime := none, mtime := 3, len := some 1 }],
    strs := [{ kid := 1, value := [118] }],
    lists := [{ kid := 2, pos := 0, elem := [97] }, { kid := 2, pos := 1, elem := [98] }],
    sets := [{ rowid := 1, kid := 3, elem := [120] }] }

/-- K2: the set `t` expired at 1 and carries a negative version; `u` is a live set -/
def staleNeg : DB :=
  { keys := [{ id := 1, key := [116], ty := TSet, version := -1, etime := some 1, mtime := 0, len := some 0 },
             { id := 2, key := [117], ty := TSet, version := 1, etime := none, mtime := 0, len := some 1 }],
    sets := [{ rowid := 1, kid := 2, elem := [120] }] }

/-- D05 flavour of a store: the set `t` expired at 1 with version 4 -/
def staleDest : DB :=
  { keys := [{ id := 1, key := [116], ty := TSet, version := 4, etime := some 1, mtime := 0, len := some 0 },
             { id := 2, key := [117], ty := TSet, version := 1, etime := none, mtime := 0, len := some 1 }],
    sets := [{ rowid := 1, kid := 2, elem := [120] }] }

/-- K3: `a` holds `m ↦ +inf`, `b` holds `m ↦ -inf`; the destination `z` is a live sorted set with
version 2 -/
def infDb : DB :=
  { keys := [{ id := 1, key := [97], ty := TZSet, version := 1, etime := none, mtime := 0, len := some 1 },
             { id := 2, key := [98], ty := TZSet, version := 1, etime := none, mtime := 0, len := some 1 },
             { id := 3, key := [122], ty := TZSet, version := 2, etime := none, mtime := 0, len := some 1 }],
    zsets := [{ rowid := 1, kid := 1, elem := [109], score := .posInf },
              { rowid := 2, kid := 2, elem := [109], score := .negInf },
              { rowid := 3, kid := 3, elem := [113], score := .posInf }] }

/-- a stored modification time ahead of the clock -/
def aheadDb : DB :=
  { keys := [{ id := 1, key := [115], ty := TString, version := 3, etime := none, mtime := 100, len := none }],
    strs := [{ kid := 1, value := [118] }] }

/-- `Survives` is decidable (it quantifies over the steps of a given history only) -/
def decSurvives (i : Int) (k : Bytes) : ∀ (ops : List (Op × Int)) (db : DB), Decidable (Survives i k ops db)
  | [], db => inferInstanceAs (Decidable ((rowAt db i k).isSome = true))
  | p :: ps, db =>
    have := decSurvives i k ps (Model.dbRun p.1 p.2 db).db
    inferInstanceAs (Decidable ((rowAt db i k).isSome = true ∧ Spec.storeDest p.1 ≠ some k ∧
      Survives i k ps (Model.dbRun p.1 p.2 db).db))

instance (i : Int) (k : Bytes) (ops : List (Op × Int)) (db : DB) : Decidable (Survives i k ops db) :=
  decSurvives i k ops db

instance (ops : List (Op × Int)) (db : DB) : Decidable (Clocked ops db) :=
  inferInstanceAs (Decidable ((∀ p ∈ ops, MonoClock p.2 db) ∧ ops.Pairwise (fun p q => p.2 ≤ q.2)))

/-- `SET s w` at 10, `EXPIREAT s 200` at 11, `GET s` at 12, `RPUSH l c` at 12 -/
def history : List (Op × Int) :=
  [(.strSet [115] [119], 10), (.keyExpireAt [115] 200, 11), (.strGet [115], 12), (.listPushBack [108] [99], 12)]

end Redka.MetaProofs
