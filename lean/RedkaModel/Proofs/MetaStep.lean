/-
  C19 — assembly: every repository method, at `Tx` and at `DB` level, satisfies the judgement
  `Spec.metaOK` outside the classifiers `KnownMeta` / `KnownMetaTx`.
-/
import RedkaModel.Proofs.MetaStr
import RedkaModel.Proofs.MetaKey
import RedkaModel.Proofs.MetaList
import RedkaModel.Proofs.MetaSet
import RedkaModel.Proofs.MetaHash
import RedkaModel.Proofs.MetaZSet
import RedkaModel.Proofs.MetaStore
import RedkaModel.Proofs.NoTrace

namespace Redka.MetaProofs

open Redka Redka.Model Redka.Spec Redka.InvP

/-- the constructors of `Op` for which the metadata rules are proved: all of them -/
def Covered : Op → Bool
  | _ => true

/-- the child table of the storing family -/
def storeTy : Op → Int
  | .zInterStore .. | .zUnionStore .. => TZSet
  | _ => TSet

/-- a set store with an empty source list: the method returns `(0, nil)` at once -/
def emptyStore : Op → Bool
  | .setDiffStore _ [] | .setInterStore _ [] | .setUnionStore _ [] => true
  | _ => false

/-- The narrowest classifier of the `DB`-level steps on which `Spec.metaOK` is false. Both classes
concern the clause "the destination of a successful store starts a new history (version ≥ 1,
mtime = now)" and neither is reachable by the driver:
 * K1 — a set store with an empty source list succeeds without touching anything, so a
   destination row that is not already fresh stays so (the driver never judges it: the outcome is
   `nothingToDo`, hence traceless);
 * K2 — the destination name is held by a stored row whose expiry has passed (D05: the reset
   phase skips it, the upsert bumps it) and whose version is negative, so that `version + 1 < 1`
   (versions start at 1 and only grow: unreachable from the empty database). -/
def KnownMeta (op : Op) (now : Int) (db : DB) : Bool :=
  match storeDest op with
  | none => false
  | some d =>
    !isErr (Model.dbRun op now db).out &&
    (match db.findKey d with
     | none => false
     | some r =>
       if emptyStore op then !(decide (1 ≤ r.version) && r.mtime == now)
       else !r.live now && decide (r.version < 0))

/-- K3 — inside a caller-managed transaction, a store that fails after the reset phase (the bulk
insert hits `NOT NULL`/`UNIQUE`, e.g. `ZUNIONSTORE` summing `+inf` and `-inf`) leaves the live
destination emptied with version 1: its version went backwards (was ≥ 2), or did not grow
although its value changed (was 1 and non-empty). At `DB` level the wrapper rolls back. -/
def KnownStoreErr (op : Op) (now : Int) (db : DB) : Bool :=
  match storeDest op with
  | none => false
  | some d =>
    isErr (Model.tx true op now db).out &&
    (match db.liveKeyT d (storeTy op) now with
     | none => false
     | some r => decide (2 ≤ r.version) || (decide (r.version = 1) && destHasChildren db (storeTy op) r.id))

def KnownMetaTx (op : Op) (now : Int) (db : DB) : Bool :=
  KnownMeta op now db || KnownStoreErr op now db

/-! ### the summary of one step -/

inductive Sum (now : Int) (op : Op) (db : DB) (res : Res) : Prop
  | eff (h : Eff now db res.db) (hs : storeDest op = none ∨ isErr res.out = true)
  | exp (h : ExpStep db res.db) (hs : storeDest op = none)
  | store (d : Bytes) (hd : storeDest op = some d)
      (h : StoreSum now d (storeTy op) db res (emptyStore op = true))

theorem StoreSum.congr {now : Int} {d : Bytes} {ty : Int} {db : DB} {res : Res} {E E' : Prop}
    (h : StoreSum now d ty db res E) (he : E ↔ E') : StoreSum now d ty db res E' := by
  rcases h with ⟨h1, h2⟩ | ⟨h1, h2⟩
  · exact .inl ⟨h1, h2.imp id he.1⟩
  · exact .inr ⟨fun e => h1 (he.2 e), h2⟩

theorem tx_sum (b : Bool) (op : Op) (now : Int) (db : DB) (h : WF db) :
    Sum now op db (Model.tx b op now db) := by
  cases op with
  | strIncr k d => exact .eff (strIncr_eff h k d now) (.inl rfl)
  | strIncrFloat k d => exact .eff (strIncrFloat_eff h k d now) (.inl rfl)
  | strSet k v => exact .eff (strSet_eff h k v none now) (.inl rfl)
  | strSetExpires k v ttl => exact .eff (strSet_eff h k v _ now) (.inl rfl)
  | strSetMany items => exact .eff (strSetMany_eff items now h) (.inl rfl)
  | strSetWith k v o => exact .eff (strSetWith_eff h k v o now) (.inl rfl)
  | keyDelete ks => exact .eff (keyDelete_eff h ks now) (.inl rfl)
  | keyDeleteAll => exact .eff (keyDeleteAll_eff h b now) (.inl rfl)
  | keyDeleteExpired n => exact .eff (keyDeleteExpired_eff h n now) (.inl rfl)
  | keyExpire k ttl => exact .exp (keyExpire_step k ttl now) rfl
  | keyExpireAt k t => exact .exp (keyExpireAt_step k t now) rfl
  | keyPersist k => exact .exp (keyPersist_step k now) rfl
  | keyRename k nk => exact .eff (keyRename_eff h k nk now) (.inl rfl)
  | keyRenameNX k nk => exact .eff (keyRenameNX_eff h k nk now) (.inl rfl)
  | listDelete k e => exact .eff (listDelete_eff k e now) (.inl rfl)
  | listDeleteBack k e n => exact .eff (listDeleteN_eff k e n true now) (.inl rfl)
  | listDeleteFront k e n => exact .eff (listDeleteN_eff k e n false now) (.inl rfl)
  | listInsertAfter k p e => exact .eff (listInsert_eff k p e true now) (.inl rfl)
  | listInsertBefore k p e => exact .eff (listInsert_eff k p e false now) (.inl rfl)
  | listPopBack k => exact .eff (listPop_eff k false now).1 (.inl rfl)
  | listPopFront k => exact .eff (listPop_eff k true now).1 (.inl rfl)
  | listPopBackPushFront s d => exact .eff (listPopBackPushFront_eff s d now) (.inl rfl)
  | listPushBack k e => exact .eff (listPush_eff k e false now) (.inl rfl)
  | listPushFront k e => exact .eff (listPush_eff k e true now) (.inl rfl)
  | listSet k i e => exact .eff (listSet_eff k i e now) (.inl rfl)
  | listTrim k a b => exact .eff (listTrim_eff k a b now) (.inl rfl)
  | setAdd k es => exact .eff (setAdd_eff k es now).1 (.inl rfl)
  | setDelete k es => exact .eff (setDelete_eff k es now).1 (.inl rfl)
  | setDiffStore d ks =>
    exact .store d rfl ((setStore_sum h d ks now _).congr (by cases ks <;> simp [emptyStore]))
  | setInterStore d ks =>
    exact .store d rfl ((setStore_sum h d ks now _).congr (by cases ks <;> simp [emptyStore]))
  | setUnionStore d ks =>
    exact .store d rfl ((setStore_sum h d ks now _).congr (by cases ks <;> simp [emptyStore]))
  | setMove s d e => exact .eff (setMove_eff h s d e now) (.inl rfl)
  | setPop k o => exact .eff (setPop_eff k o now) (.inl rfl)
  | hashDelete k fs => exact .eff (hashDelete_eff k fs now) (.inl rfl)
  | hashIncr k f d => exact .eff (hashIncr_eff k f d now) (.inl rfl)
  | hashIncrFloat k f d => exact .eff (hashIncrFloat_eff k f d now) (.inl rfl)
  | hashSet k f v => exact .eff (hashSet_eff k f v now) (.inl rfl)
  | hashSetMany k items => exact .eff (hashSetMany_eff k items now) (.inl rfl)
  | hashSetNotExists k f v => exact .eff (hashSetNotExists_eff k f v now) (.inl rfl)
  | zAdd k e s => exact .eff (zAdd_eff k e s now) (.inl rfl)
  | zAddMany k items => exact .eff (zAddMany_eff k items now) (.inl rfl)
  | zDelete k es => exact .eff (zDelete_eff k es now) (.inl rfl)
  | zDeleteRank k a b => exact .eff (zDeleteRank_eff k a b now) (.inl rfl)
  | zDeleteScore k lo hi => exact .eff (zDeleteScore_eff k lo hi now) (.inl rfl)
  | zIncr k e d => exact .eff (zIncr_eff k e d now) (.inl rfl)
  | zInterStore d ks agg =>
    exact .store d rfl ((zCombineStore_sum h d ks agg true now).congr (by simp [emptyStore]))
  | zUnionStore d ks agg =>
    exact .store d rfl ((zCombineStore_sum h d ks agg false now).congr (by simp [emptyStore]))
  | _ =>
    refine .eff ?_ (.inl rfl)
    rw [Proofs.NoTrace.read_notrace b _ now db rfl]
    exact Eff.refl _ _


/-! ### from the summary to the judgement -/

theorem Sum.mono {now : Int} {op : Op} {db : DB} {res : Res} (hs : Sum now op db res)
    (hm : MonoClock now db) : MonoClock now res.db := by
  cases hs with
  | eff h _ => exact h.mono hm
  | exp h _ => exact h.mono hm
  | store d hd h =>
    rcases h with ⟨hdb, _⟩ | ⟨_, _, hall⟩
    · rw [hdb]; exact hm
    · intro r' hr'
      by_cases hk : r'.key = d
      · have := ((hall r' hr').2 hk).1; omega
      · exact hm r' ((hall r' hr').1 hk).1

/-- every row that is not named like the destination of a store meets the requirement of a
continued history — no classifier is needed for these rows -/
theorem Sum.plain {now : Int} {op : Op} {db : DB} {res : Res} (hs : Sum now op db res)
    (h : WF db) :
    ∀ r' ∈ res.db.keys, storeDest op ≠ some r'.key → PlainRowM now db res.db r' := by
  intro r' hr' hne
  cases hs with
  | eff he _ => exact he.plain h.uId r' hr'
  | exp he _ => exact he.plain h.uId r' hr'
  | store d hd hst =>
    rcases hst with ⟨hdb, _⟩ | ⟨_, _, hall⟩
    · rw [hdb] at hr' ⊢
      exact plain_of_mem h.uId hr' (ChildEq.refl _ _)
    · have hk : r'.key ≠ d := fun e => hne (by rw [hd, e])
      obtain ⟨hmem, hc⟩ := (hall r' hr').1 hk
      exact plain_of_mem h.uId hmem hc

/-- the classifier conditions, as propositions -/
structure Unclassified (op : Op) (now : Int) (db : DB) (res : Res) : Prop where
  k12 : ∀ d, storeDest op = some d → isErr res.out = false → ∀ r, db.findKey d = some r →
    (emptyStore op = true → FreshRow now r) ∧
    (emptyStore op = false → r.live now = false → 0 ≤ r.version)
  k3 : ∀ d, storeDest op = some d → isErr res.out = true → ∀ r,
    db.liveKeyT d (storeTy op) now = some r →
    r.version ≤ 1 ∧ (r.version = 1 → destHasChildren db (storeTy op) r.id = false)

/-- steps that are not successful stores need no classifier at all -/
theorem rowOK_of_plain {now : Int} {op : Op} {db : DB} {res : Res}
    (hs : storeDest op = none ∨ isErr res.out = true)
    (hp : ∀ r' ∈ res.db.keys, PlainRow now db res.db r') :
    ∀ r' ∈ res.db.keys, RowOK op now db res.db res.out r' := by
  intro r' hr'
  unfold RowOK
  have hcond : ¬ (isErr res.out = false ∧ storeDest op = some r'.key) := by
    rintro ⟨hE, hd⟩
    rcases hs with hs | hs
    · rw [hs] at hd; cases hd
    · rw [hs] at hE; cases hE
  rw [if_neg hcond]
  exact hp r' hr'

theorem Sum.rowOK {now : Int} {op : Op} {db : DB} {res : Res} (hs : Sum now op db res)
    (h : WF db) (hm : MonoClock now db) (hu : Unclassified op now db res) :
    ∀ r' ∈ res.db.keys, RowOK op now db res.db res.out r' := by
  intro r' hr'
  unfold RowOK
  by_cases hcond : isErr res.out = false ∧ storeDest op = some r'.key
  · rw [if_pos hcond]
    obtain ⟨hE, hd'⟩ := hcond
    cases hs with
    | eff _ hs' =>
      rcases hs' with hs' | hs'
      · rw [hs'] at hd'; cases hd'
      · rw [hs'] at hE; cases hE
    | exp _ hs' => rw [hs'] at hd'; cases hd'
    | store d hd hst =>
      have hk : r'.key = d := by rw [hd] at hd'; exact (Option.some.inj hd').symm
      rcases hst with ⟨hdb, hor⟩ | ⟨hnE, _, hall⟩
      · rcases hor with hor | hor
        · rw [hor.1] at hE; cases hE
        · rw [hdb] at hr'
          have hf : db.findKey d = some r' := hk ▸ findKey_of_mem h hr'
          exact (hu.k12 d hd hE r' hf).1 hor
      · obtain ⟨hmt, hcase⟩ := (hall r' hr').2 hk
        have hne : emptyStore op = false := by
          cases he : emptyStore op
          · rfl
          · exact absurd he hnE
        cases hcase with
        | new _ hv => exact ⟨by omega, hmt⟩
        | stale r hr hkr hid hty hv hlive =>
          have hf : db.findKey d = some r := hkr ▸ findKey_of_mem h hr
          have := (hu.k12 d hd hE r hf).2 hne hlive
          exact ⟨by omega, hmt⟩
        | live r0 hl hsm _ => exact ⟨by rw [hsm.version]; exact Int.le_refl _, hmt⟩
  · rw [if_neg hcond]
    by_cases hne : storeDest op = some r'.key
    · -- the destination row of a store that reported an error
      have hE : isErr res.out = true := by
        cases he : isErr res.out
        · exact absurd ⟨he, hne⟩ hcond
        · rfl
      cases hs with
      | eff he _ => exact (he.plain h.uId r' hr').plain hm
      | exp he _ => exact (he.plain h.uId r' hr').plain hm
      | store d hd hst =>
        have hk : r'.key = d := by rw [hd] at hne; exact (Option.some.inj hne).symm
        rcases hst with ⟨hdb, _⟩ | ⟨_, _, hall⟩
        · rw [hdb] at hr' ⊢
          exact (plain_of_mem h.uId hr' (ChildEq.refl _ _)).plain hm
        · obtain ⟨hmt, hcase⟩ := (hall r' hr').2 hk
          cases hcase with
          | new hfree hv =>
            exact (plain_of_bumped h.uId ⟨hmt, .inr ⟨fun r hr => (hfree r hr).2, by omega⟩⟩).plain hm
          | stale r hr hkr hid hty hv hlive =>
            exact (plain_of_bumped h.uId ⟨hmt, .inl ⟨r, hr, hid.symm, hty.symm, by omega⟩⟩).plain hm
          | live r0 hl hsm hval =>
            obtain ⟨hr0, hk0, _⟩ := liveKeyT_some hl
            obtain ⟨hv1, hv2⟩ := hu.k3 d hd hE r0 hl
            rw [hE] at hval
            unfold PlainRow
            have hid : r'.id = r0.id := hsm.id
            have hkey : r'.key = r0.key := hsm.key
            rw [hid, hkey, rowAt_of_mem h.uId hr0]
            have hver : r'.version = 1 := hsm.version
            have hmt0 := hm r0 hr0
            refine ⟨by omega, by omega, hsm.ty.symm, fun hch => ?_, fun _ => hmt⟩
            rcases hch with hch | hch
            · have : r0.version ≠ 1 := fun e1 => hch (hval rfl (hv2 e1))
              omega
            · exact absurd hsm.etime.symm hch
    · exact (hs.plain h r' hr' hne).plain hm


/-! ### the classifiers as propositions -/

theorem update_out (f : DB → Res) (db : DB) : (update f db).out = (f db).out := by
  unfold update
  dsimp only
  split <;> rfl

theorem store_is_update {op : Op} {d : Bytes} (h : storeDest op = some d) : wrapOf op = .update := by
  cases op <;> first | rfl | cases h

theorem dbRun_out_store {op : Op} {d : Bytes} (h : storeDest op = some d) (now : Int) (db : DB) :
    (Model.dbRun op now db).out = (Model.tx true op now db).out := by
  unfold Model.dbRun
  rw [store_is_update h]
  exact update_out _ _

theorem k12_of_known {op : Op} {now : Int} {db : DB} {out : Out}
    (ho : ∀ d, storeDest op = some d → out = (Model.dbRun op now db).out)
    (hk : KnownMeta op now db = false) :
    ∀ d, storeDest op = some d → isErr out = false → ∀ r, db.findKey d = some r →
    (emptyStore op = true → FreshRow now r) ∧
    (emptyStore op = false → r.live now = false → 0 ≤ r.version) := by
  intro d hd hE r hf
  unfold KnownMeta at hk
  rw [hd] at hk
  simp only [← ho d hd, hE, hf, Bool.not_false, Bool.true_and] at hk
  refine ⟨fun he => ?_, fun he hl => ?_⟩
  · simp only [he, if_true, Bool.not_eq_false', Bool.and_eq_true, decide_eq_true_eq, beq_iff_eq] at hk
    exact hk
  · simp only [he, Bool.false_eq_true, if_false, hl, Bool.not_false, Bool.true_and,
      decide_eq_false_iff_not] at hk
    omega

theorem unclassified_tx {op : Op} {now : Int} {db : DB} (hk : KnownMetaTx op now db = false) :
    Unclassified op now db (Model.tx true op now db) := by
  unfold KnownMetaTx at hk
  rw [Bool.or_eq_false_iff] at hk
  refine ⟨k12_of_known (fun d hd => (dbRun_out_store hd now db).symm) hk.1, ?_⟩
  intro d hd hE r hl
  have hk := hk.2
  unfold KnownStoreErr at hk
  rw [hd] at hk
  simp only [hE, hl, Bool.true_and, Bool.or_eq_false_iff, decide_eq_false_iff_not,
    Bool.and_eq_false_iff] at hk
  refine ⟨by omega, fun e1 => ?_⟩
  rcases hk.2 with h2 | h2
  · exact absurd e1 h2
  · exact h2

/-! ### the `DB`-level summary -/

theorem db_sum (op : Op) (now : Int) (db : DB) (h : WF db) :
    Sum now op db (Model.dbRun op now db) := by
  by_cases hu : wrapOf op = .update
  · have hrun : Model.dbRun op now db = update (Model.tx true op now) db := by
      unfold Model.dbRun; rw [hu]
    cases ho : (Model.tx true op now db).out with
    | ok v =>
      have : Model.dbRun op now db = Model.tx true op now db := by
        rw [hrun]; unfold update; simp only [ho]
      rw [this]; exact tx_sum true op now db h
    | error e =>
      have : Model.dbRun op now db = { Model.tx true op now db with db := db } := by
        rw [hrun]; unfold update; simp only [ho]
      rw [this]
      refine .eff (Eff.refl _ _) (.inr ?_)
      show isErr (Model.tx true op now db).out = true
      rw [ho]; rfl
  · have hrun : Model.dbRun op now db = Model.tx false op now db := by
      unfold Model.dbRun
      cases hwo : wrapOf op <;> first | rfl | exact absurd hwo hu
    rw [hrun]; exact tx_sum false op now db h

/-- the row with id `i` and name `k` before and after one `DB`-level call that is not a store
into `k`: the requirement of a continued history, no classifier, no clock assumption -/
theorem step_cont {op : Op} {now : Int} {db : DB} (h : db.Inv) {i : Int} {k : Bytes} {r r' : KeyRow}
    (hs : storeDest op ≠ some k) (hr : rowAt db i k = some r)
    (hr' : rowAt (Model.dbRun op now db).db i k = some r') :
    ContRowM now db (Model.dbRun op now db).db r r' := by
  obtain ⟨hm', hi', hk'⟩ := rowAt_some hr'
  have hp := (db_sum op now db (WF.of_inv h)).plain (WF.of_inv h) r' hm' (by rw [hk']; exact hs)
  unfold PlainRowM at hp
  rw [hi', hk', hr] at hp
  exact hp

/-- the same inside a caller-managed transaction -/
theorem step_cont_tx {op : Op} {now : Int} {db : DB} (h : db.Inv) {i : Int} {k : Bytes} {r r' : KeyRow}
    (hs : storeDest op ≠ some k) (hr : rowAt db i k = some r)
    (hr' : rowAt (Model.tx true op now db).db i k = some r') :
    ContRowM now db (Model.tx true op now db).db r r' := by
  obtain ⟨hm', hi', hk'⟩ := rowAt_some hr'
  have hp := (tx_sum true op now db (WF.of_inv h)).plain (WF.of_inv h) r' hm' (by rw [hk']; exact hs)
  unfold PlainRowM at hp
  rw [hi', hk', hr] at hp
  exact hp

/-- a `DB`-level step keeps the clock assumption -/
theorem db_mono (op : Op) (now : Int) (db : DB) (h : db.Inv) (hm : MonoClock now db) :
    MonoClock now (Model.dbRun op now db).db := (db_sum op now db (WF.of_inv h)).mono hm

theorem tx_mono (op : Op) (now : Int) (db : DB) (h : db.Inv) (hm : MonoClock now db) :
    MonoClock now (Model.tx true op now db).db := (tx_sum true op now db (WF.of_inv h)).mono hm

/-! ### the two main theorems -/

theorem metaOK_tx (op : Op) (now : Int) (db : DB) (h : db.Inv) (hm : MonoClock now db)
    (hk : KnownMetaTx op now db = false) :
    metaOK op now db (Model.tx true op now db).db (Model.tx true op now db).out = true := by
  rw [metaOK_iff]
  exact (tx_sum true op now db (WF.of_inv h)).rowOK (WF.of_inv h) hm (unclassified_tx hk)

theorem not_update_no_store {op : Op} (h : wrapOf op ≠ .update) : storeDest op = none := by
  cases op <;> first | rfl | exact absurd rfl h

theorem metaOK_db (op : Op) (now : Int) (db : DB) (h : db.Inv) (hm : MonoClock now db)
    (hk : KnownMeta op now db = false) :
    metaOK op now db (Model.dbRun op now db).db (Model.dbRun op now db).out = true := by
  rw [metaOK_iff]
  have hw := WF.of_inv h
  by_cases hu : wrapOf op = .update
  · have hrun : Model.dbRun op now db = update (Model.tx true op now) db := by
      unfold Model.dbRun; rw [hu]
    cases ho : (Model.tx true op now db).out with
    | ok v =>
      have : Model.dbRun op now db = Model.tx true op now db := by
        rw [hrun]; unfold update; simp only [ho]
      rw [this]
      refine (tx_sum true op now db hw).rowOK hw hm ⟨k12_of_known (fun d hd => ?_) hk, ?_⟩
      · rw [this]
      · intro d _ hE; rw [ho] at hE; cases hE
    | error e =>
      have : Model.dbRun op now db = { Model.tx true op now db with db := db } := by
        rw [hrun]; unfold update; simp only [ho]
      rw [this]
      refine rowOK_of_plain (.inr ?_) (fun r' hr' => (plain_of_mem hw.uId hr' (ChildEq.refl _ _)).plain hm)
      show isErr (Model.tx true op now db).out = true
      rw [ho]; rfl
  · have hrun : Model.dbRun op now db = Model.tx false op now db := by
      unfold Model.dbRun
      cases hwo : wrapOf op <;> first | rfl | exact absurd hwo hu
    rw [hrun]
    have hs := not_update_no_store hu
    exact rowOK_of_plain (.inl hs) (fun r' hr' => ((tx_sum false op now db hw).plain hw r' hr'
      (by rw [hs]; exact fun e => by cases e)).plain hm)

end Redka.MetaProofs
