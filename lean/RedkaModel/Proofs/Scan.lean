/-
  Lemmas about the abstract cursor iteration of `Model/Scan.lean`.
-/
import RedkaModel.Model.Scan

namespace Redka.Scan

open Redka

variable {α : Type}

/-! ### `maxD` -/

theorem le_maxD (d : Int) : ∀ (l : List Int), ∀ x ∈ l, x ≤ maxD d l
  | [], _, h => by cases h
  | y :: ys, x, h => by
    simp only [maxD]
    rcases List.mem_cons.1 h with rfl | h
    · split <;> omega
    · have := le_maxD d ys x h
      split <;> omega

theorem default_le_maxD (d : Int) : ∀ (l : List Int), d ≤ maxD d l
  | [] => by simp [maxD]
  | y :: ys => by
    have := default_le_maxD d ys
    simp only [maxD]
    split <;> omega

theorem maxD_eq_or_mem (d : Int) : ∀ (l : List Int), maxD d l = d ∨ maxD d l ∈ l
  | [] => by simp [maxD]
  | y :: ys => by
    simp only [maxD]
    split
    · simp
    · rcases maxD_eq_or_mem d ys with h | h
      · exact Or.inl h
      · exact Or.inr (List.mem_cons_of_mem _ h)

/-! ### `limit` -/

theorem limit_split {β : Type} (count : Option Nat) (l : List β) :
    ∃ rest, l = limit count l ++ rest := by
  cases count with
  | none => exact ⟨[], by simp [limit]⟩
  | some n => exact ⟨l.drop n, by simp [limit]⟩

theorem limit_ne_nil {β : Type} {count : Option Nat} (hc : count ≠ some 0) {l : List β}
    (hl : l ≠ []) : limit count l ≠ [] := by
  cases count with
  | none => simpa [limit] using hl
  | some n =>
    cases n with
    | zero => exact absurd rfl hc
    | succ n =>
      cases l with
      | nil => exact absurd rfl hl
      | cons x xs => simp [limit]

theorem limit_eq_nil_iff {β : Type} {count : Option Nat} (hc : count ≠ some 0) {l : List β} :
    limit count l = [] ↔ l = [] := by
  constructor
  · intro h
    apply Classical.byContradiction
    intro hl
    exact limit_ne_nil hc hl h
  · rintro rfl
    cases count <;> simp [limit]

theorem limit_sublist {β : Type} (count : Option Nat) (l : List β) : (limit count l).Sublist l := by
  cases count with
  | none => exact List.Sublist.refl _
  | some n => exact List.take_sublist _ _

theorem limit_map {β γ : Type} (f : β → γ) (count : Option Nat) (l : List β) :
    limit count (l.map f) = (limit count l).map f := by
  cases count with
  | none => rfl
  | some n => simp [limit, List.map_take]

/-- "no limit" is the same as a limit no smaller than the table -/
theorem limit_none_eq {β : Type} (l : List β) (n : Nat) (h : l.length ≤ n) :
    limit none l = limit (some n) l := by
  simp [limit, List.take_of_length_le h]

/-! ### the `where` clause -/

theorem sel_iff (p : α → Bool) (c : Int) (r : Row α) :
    sel p c r = true ↔ c < r.id ∧ p r.val = true := by
  simp [sel]

theorem filter_sel_of_le (rows : List (Row α)) (p : α → Bool) {c c' : Int} (h : c ≤ c') :
    rows.filter (sel p c') = (rows.filter (sel p c)).filter (fun r => decide (c' < r.id)) := by
  rw [List.filter_filter]
  apply List.filter_congr
  intro r _
  by_cases h1 : c' < r.id
  · have : c < r.id := by omega
    simp [sel, h1, this]
  · simp [sel, h1]

theorem filter_sel_zero (rows : List (Row α)) (p : α → Bool) (hpos : ∀ r ∈ rows, 0 < r.id) :
    rows.filter (sel p 0) = rows.filter (fun r => p r.val) := by
  apply List.filter_congr
  intro r hr
  simp [sel, hpos r hr]

theorem mem_page {rows : List (Row α)} {p : α → Bool} {c : Int} {count : Option Nat} {r : Row α}
    (h : r ∈ page rows p c count) : r ∈ rows ∧ c < r.id ∧ p r.val = true := by
  have h1 := (limit_sublist count _).subset h
  have h2 := List.mem_filter.1 h1
  exact ⟨h2.1, (sel_iff p c r).1 h2.2⟩

/-- An empty page means exactly that nothing selectable is left (any row order). -/
theorem page_eq_nil_iff (rows : List (Row α)) (p : α → Bool) (c : Int) {count : Option Nat}
    (hc : count ≠ some 0) :
    page rows p c count = [] ↔ ∀ r ∈ rows, r.id > c → p r.val = false := by
  unfold page
  rw [limit_eq_nil_iff hc, List.filter_eq_nil_iff]
  constructor
  · intro h r hr hid
    have := h r hr
    rw [sel_iff] at this
    cases hp : p r.val with
    | false => rfl
    | true => exact absurd ⟨hid, hp⟩ this
  · intro h r hr hs
    rw [sel_iff] at hs
    have := h r hr hs.1
    rw [hs.2] at this
    cases this

/-! ### the cursor handed back -/

theorem nextCursorLast_eq {pg : List (Row α)} (h : pg ≠ []) :
    nextCursorLast pg = (pg.getLast h).id := by
  simp [nextCursorLast, List.getLast?_eq_some_getLast h]

/-- Any row order: the new cursor is beyond the old one and covers at least one row of the page. -/
theorem next_progress (rule : CursorRule) {pg : List (Row α)} {c : Int} (hne : pg ≠ [])
    (hgt : ∀ a ∈ pg, c < a.id) :
    c < rule.next pg ∧ ∃ a ∈ pg, a.id ≤ rule.next pg := by
  cases rule with
  | last =>
    simp only [CursorRule.next, nextCursorLast_eq hne]
    have hm := List.getLast_mem hne
    exact ⟨hgt _ hm, _, hm, Int.le_refl _⟩
  | max =>
    simp only [CursorRule.next, nextCursorMax]
    cases pg with
    | nil => exact absurd rfl hne
    | cons a t =>
      have h1 : a.id ≤ maxD 0 ((a :: t).map (·.id)) := le_maxD 0 _ _ (by simp)
      have h2 := hgt a (by simp)
      exact ⟨by omega, a, by simp, h1⟩

theorem le_getLast_of_pairwise {pg : List (Row α)} (hne : pg ≠ [])
    (hs : pg.Pairwise (fun a b => a.id < b.id)) : ∀ a ∈ pg, a.id ≤ (pg.getLast hne).id := by
  intro a ha
  have hsplit := List.dropLast_concat_getLast hne
  rw [← hsplit] at ha hs
  rcases List.mem_append.1 ha with h | h
  · have := (List.pairwise_append.1 hs).2.2 a h (pg.getLast hne) (by simp)
    omega
  · simp at h
    rw [h]
    exact Int.le_refl _

/-- Id-sorted page with positive ids: both rules hand back the largest id of the page, which is the
id of one of its rows. -/
theorem next_sorted (rule : CursorRule) {pg : List (Row α)} (hne : pg ≠ [])
    (hs : pg.Pairwise (fun a b => a.id < b.id)) (hpos : ∀ a ∈ pg, 0 < a.id) :
    (∀ a ∈ pg, a.id ≤ rule.next pg) ∧ ∃ a ∈ pg, a.id = rule.next pg := by
  cases rule with
  | last =>
    simp only [CursorRule.next, nextCursorLast_eq hne]
    exact ⟨le_getLast_of_pairwise hne hs, _, List.getLast_mem hne, rfl⟩
  | max =>
    simp only [CursorRule.next, nextCursorMax]
    have hub : ∀ a ∈ pg, a.id ≤ maxD 0 (pg.map (·.id)) :=
      fun a ha => le_maxD 0 _ _ (List.mem_map.2 ⟨a, ha, rfl⟩)
    refine ⟨hub, ?_⟩
    rcases maxD_eq_or_mem 0 (pg.map (·.id)) with h | h
    · cases pg with
      | nil => exact absurd rfl hne
      | cons a t =>
        have := hub a (by simp)
        have := hpos a (by simp)
        omega
    · obtain ⟨a, ha, hid⟩ := List.mem_map.1 h
      exact ⟨a, ha, hid⟩

/-- On an id-sorted page with positive ids the two cursor rules agree. -/
theorem nextCursorMax_eq_last {pg : List (Row α)}
    (hs : pg.Pairwise (fun a b => a.id < b.id)) (hpos : ∀ a ∈ pg, 0 < a.id) :
    nextCursorMax pg = nextCursorLast pg := by
  by_cases hne : pg = []
  · subst hne; rfl
  · have h1 := next_sorted .max hne hs hpos
    have h2 := next_sorted .last hne hs hpos
    simp only [CursorRule.next] at h1 h2
    obtain ⟨a, ha, hae⟩ := h1.2
    obtain ⟨b, hb, hbe⟩ := h2.2
    have := h1.1 b hb
    have := h2.1 a ha
    omega

/-- The cursor `0` is handed back only together with an empty page (ids positive). -/
theorem next_eq_zero_iff (rule : CursorRule) {pg : List (Row α)} (hpos : ∀ a ∈ pg, 0 < a.id) :
    rule.next pg = 0 ↔ pg = [] := by
  constructor
  · intro h
    apply Classical.byContradiction
    intro hne
    have := (next_progress rule (c := 0) hne hpos).1
    omega
  · rintro rfl
    cases rule <;> rfl

/-! ### termination, for any row order and either rule -/

theorem length_filter_lt {β : Type} {q q' : β → Bool} (himp : ∀ x, q' x = true → q x = true) :
    ∀ {l : List β} {x : β}, x ∈ l → q x = true → q' x = false →
      (l.filter q').length < (l.filter q).length
  | y :: ys, x, hx, hq, hq' => by
    have hle : (ys.filter q').length ≤ (ys.filter q).length := by
      have : ys.filter q' = (ys.filter q).filter q' := by
        rw [List.filter_filter]
        apply List.filter_congr
        intro z _
        cases h : q' z with
        | false => simp
        | true => simp [himp z h]
      rw [this]
      exact List.length_filter_le _ _
    rcases List.mem_cons.1 hx with rfl | hx
    · simp [hq, hq']
      omega
    · have ih := length_filter_lt himp hx hq hq'
      cases h' : q' y with
      | false =>
        cases h : q y <;> simp [h, h'] <;> omega
      | true =>
        simp [himp y h', h']
        omega

/-- Every non-empty page strictly shrinks the set of rows the next call can select. -/
theorem sel_count_decreases (rule : CursorRule) (rows : List (Row α)) (p : α → Bool) (c : Int)
    (count : Option Nat) (hne : page rows p c count ≠ []) :
    (rows.filter (sel p (rule.next (page rows p c count)))).length
      < (rows.filter (sel p c)).length := by
  obtain ⟨hlt, a, ha, hle⟩ := next_progress rule (c := c) hne (fun a ha => (mem_page ha).2.1)
  have hma := mem_page ha
  have hsel : sel p c a = true := by rw [sel_iff]; exact ⟨hma.2.1, hma.2.2⟩
  have hnsel : sel p (rule.next (page rows p c count)) a = false := by
    cases h : sel p (rule.next (page rows p c count)) a with
    | false => rfl
    | true => rw [sel_iff] at h; omega
  refine length_filter_lt ?_ hma.1 hsel hnsel
  intro x hx
  rw [sel_iff] at hx ⊢
  exact ⟨by omega, hx.2⟩

/-- More fuel than selectable rows never changes the result. -/
theorem iterateFrom_fuel (rule : CursorRule) (rows : List (Row α)) (p : α → Bool)
    (count : Option Nat) :
    ∀ (f1 f2 : Nat) (c : Int), (rows.filter (sel p c)).length < f1 →
      (rows.filter (sel p c)).length < f2 →
      iterateFrom rule rows p count f1 c = iterateFrom rule rows p count f2 c := by
  intro f1
  induction f1 with
  | zero => intro f2 c h; omega
  | succ f1 ih =>
    intro f2 c h1 h2
    cases f2 with
    | zero => omega
    | succ f2 =>
      simp only [iterateFrom]
      by_cases he : (page rows p c count).isEmpty = true
      · simp [he]
      · simp only [he]
        have hne : page rows p c count ≠ [] := by simpa using he
        have := sel_count_decreases rule rows p c count hne
        rw [ih f2 _ (by omega) (by omega)]

theorem length_filter_sel_le (rows : List (Row α)) (p : α → Bool) (c : Int) :
    (rows.filter (sel p c)).length < rows.length + 1 :=
  Nat.lt_succ_of_le (List.length_filter_le _ _)

theorem iterate_eq_of_fuel (rule : CursorRule) (rows : List (Row α)) (p : α → Bool)
    (count : Option Nat) (f : Nat) (h : (rows.filter (sel p 0)).length < f) :
    iterate rule rows p count = iterateFrom rule rows p count f 0 :=
  iterateFrom_fuel rule rows p count _ _ 0 (length_filter_sel_le rows p 0) h

theorem flatten_pagesFrom (rule : CursorRule) (rows : List (Row α)) (p : α → Bool)
    (count : Option Nat) : ∀ (f : Nat) (c : Int),
      (pagesFrom rule rows p count f c).flatten = iterateFrom rule rows p count f c := by
  intro f
  induction f with
  | zero => intro c; rfl
  | succ f ih =>
    intro c
    simp only [pagesFrom, iterateFrom]
    by_cases he : (page rows p c count).isEmpty = true
    · simp only [he, if_true]
      have : page rows p c count = [] := by simpa using he
      simp [this]
    · simp [he, ih]

/-- With enough fuel the loop always reaches an empty page: that page is the last one. -/
theorem pagesFrom_getLast (rule : CursorRule) (rows : List (Row α)) (p : α → Bool)
    (count : Option Nat) : ∀ (f : Nat) (c : Int), (rows.filter (sel p c)).length < f →
      (pagesFrom rule rows p count f c).getLast? = some [] := by
  intro f
  induction f with
  | zero => intro c h; omega
  | succ f ih =>
    intro c h
    simp only [pagesFrom]
    by_cases he : (page rows p c count).isEmpty = true
    · have : page rows p c count = [] := by simpa using he
      simp [this]
    · simp only [he]
      have hne : page rows p c count ≠ [] := by simpa using he
      have hd := sel_count_decreases rule rows p c count hne
      have := ih (rule.next (page rows p c count)) (by omega)
      simp only [Bool.false_eq_true, if_false]
      rw [List.getLast?_cons, this]
      rfl

/-- Every page before the last one is non-empty. -/
theorem pagesFrom_dropLast_ne_nil (rule : CursorRule) (rows : List (Row α)) (p : α → Bool)
    (count : Option Nat) : ∀ (f : Nat) (c : Int),
      ∀ pg ∈ (pagesFrom rule rows p count f c).dropLast, pg ≠ [] := by
  intro f
  induction f with
  | zero => intro c pg h; simp [pagesFrom] at h
  | succ f ih =>
    intro c pg h
    simp only [pagesFrom] at h
    by_cases he : (page rows p c count).isEmpty = true
    · simp [he] at h
    · simp only [he] at h
      have hne : page rows p c count ≠ [] := by simpa using he
      cases hrest : pagesFrom rule rows p count f (rule.next (page rows p c count)) with
      | nil => simp [hrest] at h
      | cons q qs =>
        rw [hrest] at h
        simp only [Bool.false_eq_true, if_false, List.dropLast_cons_cons] at h
        rcases List.mem_cons.1 h with rfl | h
        · exact hne
        · exact ih _ pg (by rw [hrest]; exact h)

/-! ### soundness, and "at most once" for the max rule — any row order -/

theorem mem_iterateFrom (rule : CursorRule) (rows : List (Row α)) (p : α → Bool)
    (count : Option Nat) : ∀ (f : Nat) (c : Int) (r : Row α),
      r ∈ iterateFrom rule rows p count f c → r ∈ rows ∧ c < r.id ∧ p r.val = true := by
  intro f
  induction f with
  | zero => intro c r h; simp [iterateFrom] at h
  | succ f ih =>
    intro c r h
    simp only [iterateFrom] at h
    by_cases he : (page rows p c count).isEmpty = true
    · simp [he] at h
    · simp only [he, Bool.false_eq_true, if_false] at h
      have hne : page rows p c count ≠ [] := by simpa using he
      rcases List.mem_append.1 h with h | h
      · exact mem_page h
      · have := ih _ r h
        have hp := (next_progress rule (c := c) hne (fun a ha => (mem_page ha).2.1)).1
        exact ⟨this.1, by omega, this.2.2⟩

theorem iterateFrom_max_nodup (rows : List (Row α)) (p : α → Bool) (count : Option Nat)
    (hnd : (rows.map (·.id)).Nodup) : ∀ (f : Nat) (c : Int),
      ((iterateFrom .max rows p count f c).map (·.id)).Nodup := by
  intro f
  induction f with
  | zero => intro c; simp [iterateFrom]
  | succ f ih =>
    intro c
    simp only [iterateFrom]
    by_cases he : (page rows p c count).isEmpty = true
    · simp [he]
    · simp only [he, Bool.false_eq_true, if_false, List.map_append]
      rw [List.nodup_append]
      refine ⟨?_, ih _, ?_⟩
      · have hsub : (page rows p c count).Sublist rows :=
          (limit_sublist count _).trans List.filter_sublist
        exact (hsub.map _).nodup hnd
      · intro a ha b hb
        obtain ⟨r, hr, rfl⟩ := List.mem_map.1 ha
        obtain ⟨s, hs, rfl⟩ := List.mem_map.1 hb
        have h1 : r.id ≤ maxD 0 ((page rows p c count).map (·.id)) :=
          le_maxD 0 _ _ (List.mem_map.2 ⟨r, hr, rfl⟩)
        have h2 := (mem_iterateFrom .max rows p count f _ s hs).2.1
        simp only [CursorRule.next, nextCursorMax] at h2
        omega

/-! ### completeness when the selectable rows come in id order -/

/-- The heart of the matter: if the rows the statement can select come in increasing id order,
the cursor handed back (either rule) makes the next call select exactly what this page left over. -/
theorem sorted_step (rule : CursorRule) (rows : List (Row α)) (p : α → Bool) {c : Int}
    (hc0 : 0 ≤ c) (count : Option Nat)
    (hs : (rows.filter (sel p c)).Pairwise (fun a b => a.id < b.id))
    (hne : page rows p c count ≠ []) :
    page rows p c count ++ rows.filter (sel p (rule.next (page rows p c count)))
      = rows.filter (sel p c) := by
  obtain ⟨rest, hF⟩ := limit_split count (rows.filter (sel p c))
  have hpage : page rows p c count = limit count (rows.filter (sel p c)) := rfl
  rw [← hpage] at hF
  generalize page rows p c count = pg at hF hne
  rw [hF] at hs
  have hps := List.pairwise_append.1 hs
  have hmem : ∀ a ∈ pg, c < a.id := by
    intro a ha
    have : a ∈ rows.filter (sel p c) := by rw [hF]; exact List.mem_append_left _ ha
    exact ((sel_iff p c a).1 (List.mem_filter.1 this).2).1
  obtain ⟨hub, a, ha, hae⟩ := next_sorted rule hne hps.1 (fun a ha => by have := hmem a ha; omega)
  have hle : c ≤ rule.next pg := by have := hmem a ha; omega
  rw [filter_sel_of_le rows p hle, hF, List.filter_append]
  have h1 : pg.filter (fun r => decide (rule.next pg < r.id)) = [] := by
    rw [List.filter_eq_nil_iff]
    intro x hx
    have := hub x hx
    simp; omega
  have h2 : rest.filter (fun r => decide (rule.next pg < r.id)) = rest := by
    rw [List.filter_eq_self]
    intro x hx
    have := hps.2.2 a ha x hx
    simp; omega
  rw [h1, h2, List.nil_append]

theorem iterateFrom_sorted (rule : CursorRule) (rows : List (Row α)) (p : α → Bool)
    {count : Option Nat} (hc : count ≠ some 0) : ∀ (f : Nat) (c : Int), 0 ≤ c →
      (rows.filter (sel p c)).Pairwise (fun a b => a.id < b.id) →
      (rows.filter (sel p c)).length < f →
      iterateFrom rule rows p count f c = rows.filter (sel p c) := by
  intro f
  induction f with
  | zero => intro c _ _ h; omega
  | succ f ih =>
    intro c hc0 hs hlen
    simp only [iterateFrom]
    by_cases he : (page rows p c count).isEmpty = true
    · have hnil : page rows p c count = [] := by simpa using he
      simp only [he, if_true]
      exact ((limit_eq_nil_iff hc).1 hnil).symm
    · simp only [he, Bool.false_eq_true, if_false]
      have hne : page rows p c count ≠ [] := by simpa using he
      have hprog := (next_progress rule (c := c) hne (fun a ha => (mem_page ha).2.1)).1
      have hdec := sel_count_decreases rule rows p c count hne
      have hs' : (rows.filter (sel p (rule.next (page rows p c count)))).Pairwise
          (fun a b => a.id < b.id) := by
        rw [filter_sel_of_le rows p (Int.le_of_lt hprog)]
        exact hs.filter _
      rw [ih _ (by omega) hs' (by omega)]
      exact sorted_step rule rows p hc0 count hs hne

/-- Completeness needs only the MATCHING rows to come in id order. -/
theorem iterate_sorted_matching (rule : CursorRule) (rows : List (Row α)) (p : α → Bool)
    {count : Option Nat} (hc : count ≠ some 0)
    (hs : (rows.filter (fun r => p r.val)).Pairwise (fun a b => a.id < b.id))
    (hpos : ∀ r ∈ rows, 0 < r.id) :
    iterate rule rows p count = rows.filter (fun r => p r.val) := by
  have h0 := filter_sel_zero rows p hpos
  unfold iterate
  rw [iterateFrom_sorted rule rows p hc _ 0 (Int.le_refl 0) (by rw [h0]; exact hs)
    (length_filter_sel_le rows p 0), h0]

theorem iterate_sorted (rule : CursorRule) (rows : List (Row α)) (p : α → Bool)
    {count : Option Nat} (hc : count ≠ some 0) (hs : SortedById rows) :
    iterate rule rows p count = rows.filter (fun r => p r.val) :=
  iterate_sorted_matching rule rows p hc (hs.1.filter _) hs.2

/-! ### page size 1: completeness forces id order -/

theorem next_singleton (rule : CursorRule) (x : Row α) (hx : 0 < x.id) :
    rule.next [x] = x.id := by
  cases rule with
  | last => rfl
  | max =>
    simp only [CursorRule.next, nextCursorMax, List.map]
    have h1 := le_maxD 0 [x.id] x.id (by simp)
    rcases maxD_eq_or_mem 0 [x.id] with h | h
    · omega
    · simpa using h

theorem filter_sel_after_head (rows : List (Row α)) (p : α → Bool) {c : Int} {x : Row α}
    {t : List (Row α)} (hF : rows.filter (sel p c) = x :: t) :
    c < x.id ∧ rows.filter (sel p x.id) = t.filter (fun r => decide (x.id < r.id)) := by
  have hx : x ∈ rows.filter (sel p c) := by rw [hF]; simp
  have hcx := ((sel_iff p c x).1 (List.mem_filter.1 hx).2).1
  refine ⟨hcx, ?_⟩
  rw [filter_sel_of_le rows p (Int.le_of_lt hcx), hF]
  simp

theorem iterateFrom_one_nil (rule : CursorRule) (rows : List (Row α)) (p : α → Bool) (f : Nat)
    {c : Int} (hF : rows.filter (sel p c) = []) :
    iterateFrom rule rows p (some 1) (f + 1) c = [] := by
  have hpg : page rows p c (some 1) = [] := by simp [page, limit, hF]
  simp [iterateFrom, hpg]

theorem iterateFrom_one_cons (rule : CursorRule) (rows : List (Row α)) (p : α → Bool) (f : Nat)
    {c : Int} (hc0 : 0 ≤ c) {x : Row α} {t : List (Row α)} (hF : rows.filter (sel p c) = x :: t) :
    iterateFrom rule rows p (some 1) (f + 1) c = x :: iterateFrom rule rows p (some 1) f x.id := by
  have hpg : page rows p c (some 1) = [x] := by simp [page, limit, hF]
  have hcx := (filter_sel_after_head rows p hF).1
  simp [iterateFrom, hpg, next_singleton rule x (by omega)]

theorem iterateFrom_one_length_le (rule : CursorRule) (rows : List (Row α)) (p : α → Bool) :
    ∀ (f : Nat) (c : Int), 0 ≤ c →
      (iterateFrom rule rows p (some 1) f c).length ≤ (rows.filter (sel p c)).length := by
  intro f
  induction f with
  | zero => intro c _; simp [iterateFrom]
  | succ f ih =>
    intro c hc0
    cases hF : rows.filter (sel p c) with
    | nil => simp [iterateFrom_one_nil rule rows p f hF]
    | cons x t =>
      obtain ⟨hcx, hnext⟩ := filter_sel_after_head rows p hF
      rw [iterateFrom_one_cons rule rows p f hc0 hF]
      have h1 := ih x.id (by omega)
      rw [hnext] at h1
      have h2 := List.length_filter_le (fun r => decide (x.id < r.id)) t
      simp only [List.length_cons]
      omega

theorem iterateFrom_one_sorted_of_length (rule : CursorRule) (rows : List (Row α)) (p : α → Bool) :
    ∀ (f : Nat) (c : Int), 0 ≤ c →
      (iterateFrom rule rows p (some 1) f c).length = (rows.filter (sel p c)).length →
      (rows.filter (sel p c)).Pairwise (fun a b => a.id < b.id) := by
  intro f
  induction f with
  | zero =>
    intro c _ h
    simp only [iterateFrom, List.length_nil] at h
    have : rows.filter (sel p c) = [] := List.length_eq_zero_iff.1 h.symm
    rw [this]; exact List.Pairwise.nil
  | succ f ih =>
    intro c hc0 h
    cases hF : rows.filter (sel p c) with
    | nil => exact List.Pairwise.nil
    | cons x t =>
      obtain ⟨hcx, hnext⟩ := filter_sel_after_head rows p hF
      rw [iterateFrom_one_cons rule rows p f hc0 hF, hF] at h
      simp only [List.length_cons] at h
      have h1 := iterateFrom_one_length_le rule rows p f x.id (by omega)
      rw [hnext] at h1
      have h2 := List.length_filter_le (fun r => decide (x.id < r.id)) t
      have hlen : (t.filter (fun r => decide (x.id < r.id))).length = t.length := by omega
      have hfull : t.filter (fun r => decide (x.id < r.id)) = t :=
        List.filter_sublist.eq_of_length hlen
      have hsorted := ih x.id (by omega) (by rw [hnext, hlen]; omega)
      rw [hnext, hfull] at hsorted
      refine List.Pairwise.cons ?_ hsorted
      intro b hb
      have := (List.filter_eq_self.1 hfull) b hb
      simpa using this

end Redka.Scan
