/-
  Proofs for property C15: the model of the handler chain (`Wire.handle`) refines the reference
  MULTI/EXEC machine (`Spec.Multi.refStep`) on every request and on every request sequence.
  Core Lean only.
-/
import RedkaModel.Spec.Multi
import RedkaModel.Model.Wire.Server
import RedkaModel.Model.Sched

namespace Redka.MultiProofs

open Redka Redka.Wire Redka.Spec.Multi

/-! ### abstraction and invariant -/

/-- the reference phase of a connection state -/
def phaseOf (st : ConnState) : Phase := if st.inMulti then .queuing st.cmds else .idle

/-- the connection state of a phase -/
def ofPhase : Phase → ConnState
  | .idle => {}
  | .queuing q => { inMulti := true, cmds := q }

/-- between two requests the command slice is empty unless the connection is in MULTI -/
def WFConn (st : ConnState) : Prop := st.inMulti = false → st.cmds = []

instance (st : ConnState) : Decidable (WFConn st) := by unfold WFConn; infer_instance

theorem phaseOf_ofPhase (ph : Phase) : phaseOf (ofPhase ph) = ph := by
  cases ph <;> simp [phaseOf, ofPhase]

theorem wf_ofPhase (ph : Phase) : WFConn (ofPhase ph) := by
  cases ph <;> simp [WFConn, ofPhase]

theorem ofPhase_phaseOf {st : ConnState} (h : WFConn st) : ofPhase (phaseOf st) = st := by
  cases st with
  | mk im cmds =>
    cases im
    · have : cmds = [] := h rfl
      simp [phaseOf, ofPhase, this]
    · simp [phaseOf, ofPhase]

/-! ### state helpers -/

theorem pop_push (s : ConnState) (c : ParsedCmd) : (s.push c).pop = (s, some c) := by
  simp [ConnState.push, ConnState.pop]

theorem oracle_nil (pos : Nat) : oracleAt [] pos = none := by simp [oracleAt]

theorem plainErr_eq (e : RErr) : plainErr e = errTok e := rfl


/-! ### the loop of `handleMulti` against the reference block -/

def segToks (l : List Seg) : List Token := l.flatMap (·.toks)

theorem runBlock_length (now : Int) (q : List ParsedCmd) (db : DB) :
    (runBlock now q db).replies.length = q.length := by
  induction q generalizing db with
  | nil => simp [runBlock]
  | cons c cs ih => simp [runBlock, ih]

/-- whatever the class, as long as no command leaves the model's domain the loop of `handleMulti` IS the
reference block: same tables, same replies — all of them —, and it reports a failure exactly when the
reference block is not ok -/
theorem runQueue_block (now : Int) (q : List ParsedCmd) (db : DB) (pos : Nat)
    (h : blockClass now q db ≠ .ood) :
    (runQueue q now db [] pos).ood = false ∧
    (runQueue q now db [] pos).db = (runBlock now q db).db ∧
    segToks (runQueue q now db [] pos).segs = (runBlock now q db).replies.flatten ∧
    (runQueue q now db [] pos).failed = !(runBlock now q db).ok ∧
    ((runBlock now q db).ok = true ↔ blockClass now q db = .clean) := by
  induction q generalizing db pos with
  | nil => simp [runQueue, runBlock, segToks, blockClass]
  | cons c cs ih =>
    simp only [blockClass] at h ⊢
    cases h1 : (run c (Model.tx true) now db none).ood with
    | true => simp [h1] at h
    | false =>
      simp only [h1, Bool.false_eq_true, if_false] at h ⊢
      have hne : blockClass now cs (run c (Model.tx true) now db none).db ≠ .ood := by
        intro he; rw [he] at h; exact h rfl
      have ih' := ih (run c (Model.tx true) now db none).db
        (pos + (run c (Model.tx true) now db none).toks.length) hne
      simp only [runQueue, oracle_nil, runBlock, h1, Bool.false_eq_true, if_false]
      simp only [segToks] at ih' ⊢
      refine ⟨ih'.1, ih'.2.1, by simp [ih'.2.2.1], ?_, ?_⟩
      · rw [ih'.2.2.2.1]
        cases (run c (Model.tx true) now db none).failed <;> cases (runBlock now cs (run c (Model.tx true) now db none).db).ok <;> rfl
      · cases hb : blockClass now cs (run c (Model.tx true) now db none).db with
        | ood => exact absurd hb hne
        | fails =>
          have : (runBlock now cs (run c (Model.tx true) now db none).db).ok = false := by
            cases hok : (runBlock now cs (run c (Model.tx true) now db none).db).ok with
            | false => rfl
            | true => have := ih'.2.2.2.2.1 hok; rw [hb] at this; cases this
          simp [this]
        | clean =>
          have : (runBlock now cs (run c (Model.tx true) now db none).db).ok = true := ih'.2.2.2.2.2 hb
          cases hf : (run c (Model.tx true) now db none).failed <;> simp [this]

theorem runQueue_clean (now : Int) (q : List ParsedCmd) (db : DB) (pos : Nat)
    (h : blockClass now q db = .clean) :
    (runQueue q now db [] pos).failed = false ∧ (runQueue q now db [] pos).ood = false ∧
    (runQueue q now db [] pos).db = (runBlock now q db).db ∧
    segToks (runQueue q now db [] pos).segs = (runBlock now q db).replies.flatten ∧
    (runBlock now q db).ok = true := by
  have hb := runQueue_block now q db pos (by rw [h]; decide)
  have hok : (runBlock now q db).ok = true := hb.2.2.2.2.2 h
  exact ⟨by rw [hb.2.2.2.1, hok]; rfl, hb.1, hb.2.1, hb.2.2.1, hok⟩

/-- a block with a failing command (D12, repaired): the loop reports the failure, and the replies are ALL the
replies of the reference block -/
theorem runQueue_fails (now : Int) (q : List ParsedCmd) (db : DB) (pos : Nat)
    (h : blockClass now q db = .fails) :
    (runQueue q now db [] pos).failed = true ∧ (runQueue q now db [] pos).ood = false ∧
    (runBlock now q db).ok = false ∧
    segToks (runQueue q now db [] pos).segs = (runBlock now q db).replies.flatten := by
  have hb := runQueue_block now q db pos (by rw [h]; decide)
  have hok : (runBlock now q db).ok = false := by
    cases hk : (runBlock now q db).ok with
    | false => rfl
    | true => have := hb.2.2.2.2.1 hk; rw [h] at this; cases this
  exact ⟨by rw [hb.2.2.2.1, hok]; rfl, hb.1, hok, hb.2.2.1⟩


/-! ### `handle`, case by case -/

theorem isName_eq (n : Bytes) (s : String) : isName n s = named n s := rfl

/-- the three results of the chain after a successful parse -/
def stage (st : ConnState) (db : DB) (now : Int) (pc : ParsedCmd) : ConnState × DB × List Token :=
  let o := multiStage (st.push pc) pc.name db now []
  (o.st, o.db, o.toks)

theorem handle_ok {req : List Bytes} {pc : ParsedCmd} (h : parse req = .ok pc) (st : ConnState) (db : DB)
    (now : Int) : handle st db now req = stage st db now pc := by
  simp [handle, handleX, h, afterParse, stage]

theorem handle_error {req : List Bytes} {e : RErr} (h : parse req = .error e) (st : ConnState) (db : DB)
    (now : Int) : handle st db now req = (st, db, [.err (errorText (asciiBytes e.text) [])]) := by
  simp [handle, handleX, h, Out.toks]

theorem handle_out_of_scope {req : List Bytes} (h : classify req = none) (st : ConnState) (db : DB)
    (now : Int) : handle st db now req = (st, db, []) := by
  unfold classify at h
  cases hp : parse req <;> simp_all [handle, handleX, Out.toks]

@[simp] theorem push_inMulti (st : ConnState) (pc : ParsedCmd) : (st.push pc).inMulti = st.inMulti := rfl

theorem stage_idle_multi (st : ConnState) (db : DB) (now : Int) (pc : ParsedCmd) (hs : st.inMulti = false)
    (h : named pc.name "multi" = true) :
    stage st db now pc = ({ st with inMulti := true }, db, [okTok]) := by
  simp [stage, multiStage, isName_eq, h, hs, pop_push, Out.toks]

theorem stage_idle_exec (st : ConnState) (db : DB) (now : Int) (pc : ParsedCmd) (hs : st.inMulti = false)
    (h1 : named pc.name "multi" = false) (h : named pc.name "exec" = true) :
    stage st db now pc = (st, db, [errTok .notInMulti]) := by
  simp [stage, multiStage, isName_eq, h, h1, hs, pop_push, Out.toks, plainErr_eq]

theorem stage_idle_discard (st : ConnState) (db : DB) (now : Int) (pc : ParsedCmd) (hs : st.inMulti = false)
    (h1 : named pc.name "multi" = false) (h2 : named pc.name "exec" = false)
    (h : named pc.name "discard" = true) :
    stage st db now pc = (st, db, [errTok .notInMulti]) := by
  simp [stage, multiStage, isName_eq, h, h1, h2, hs, pop_push, Out.toks, plainErr_eq]

theorem stage_idle_cmd (st : ConnState) (db : DB) (now : Int) (pc : ParsedCmd) (hs : st.inMulti = false)
    (h1 : named pc.name "multi" = false) (h2 : named pc.name "exec" = false)
    (h3 : named pc.name "discard" = false) :
    stage st db now pc = (st.clear, (run pc Model.dbRun now db none).db, (run pc Model.dbRun now db none).toks) := by
  simp [stage, multiStage, isName_eq, h1, h2, h3, hs, pop_push, Out.toks, handleNext, handleSingle, oracle_nil]

theorem stage_multi_multi (st : ConnState) (db : DB) (now : Int) (pc : ParsedCmd) (hs : st.inMulti = true)
    (h : named pc.name "multi" = true) :
    stage st db now pc = (st, db, [errTok .nestedMulti]) := by
  simp [stage, multiStage, isName_eq, h, hs, pop_push, Out.toks, plainErr_eq]

theorem stage_multi_exec (st : ConnState) (db : DB) (now : Int) (pc : ParsedCmd) (hs : st.inMulti = true)
    (h1 : named pc.name "multi" = false) (h : named pc.name "exec" = true) :
    stage st db now pc =
      ({}, (if (runQueue st.cmds now db [] 1).failed then db else (runQueue st.cmds now db [] 1).db),
        .arrayHdr st.cmds.length :: segToks (runQueue st.cmds now db [] 1).segs) := by
  simp [stage, multiStage, isName_eq, h, h1, hs, pop_push, Out.toks, handleNext, handleMulti, segToks,
    ConnState.clear]

theorem stage_multi_discard (st : ConnState) (db : DB) (now : Int) (pc : ParsedCmd) (hs : st.inMulti = true)
    (h1 : named pc.name "multi" = false) (h2 : named pc.name "exec" = false)
    (h : named pc.name "discard" = true) :
    stage st db now pc = ({}, db, [okTok]) := by
  simp [stage, multiStage, isName_eq, h, h1, h2, hs, Out.toks, ConnState.clear]

theorem stage_multi_cmd (st : ConnState) (db : DB) (now : Int) (pc : ParsedCmd) (hs : st.inMulti = true)
    (h1 : named pc.name "multi" = false) (h2 : named pc.name "exec" = false)
    (h3 : named pc.name "discard" = false) :
    stage st db now pc = (st.push pc, db, [queuedTok]) := by
  simp [stage, multiStage, isName_eq, h1, h2, h3, hs, Out.toks, queuedTok]


/-! ### one step -/

/-- the implementation's step seen through the abstraction -/
def implStep (st : ConnState) (db : DB) (now : Int) (req : List Bytes) : Phase × DB × List Token :=
  let r := handle st db now req
  (phaseOf r.1, r.2.1, r.2.2)

/-- what `handle` does on a well-formed state, per class of the step -/
def StepSpec (st : ConnState) (db : DB) (now : Int) (req : List Bytes) (r : Req) : Prop :=
  match stepClass (phaseOf st) db now r with
  | .clean => implStep st db now req = refStep (phaseOf st) db now r
  | .fails => implStep st db now req = refStep (phaseOf st) db now r ∧
      ∃ q, phaseOf st = .queuing q ∧ r = .exec ∧
        handle st db now req = ({}, db, .arrayHdr q.length :: (runBlock now q db).replies.flatten) ∧
        (runBlock now q db).ok = false
  | .ood => (handle st db now req).1 = {}

theorem phase_idle {st : ConnState} (h : st.inMulti = false) : phaseOf st = .idle := by
  simp [phaseOf, h]

theorem phase_queuing {st : ConnState} (h : st.inMulti = true) : phaseOf st = .queuing st.cmds := by
  simp [phaseOf, h]

theorem step_spec (st : ConnState) (db : DB) (now : Int) (req : List Bytes) (r : Req)
    (hw : WFConn st) (hc : classify req = some r) :
    WFConn (handle st db now req).1 ∧ StepSpec st db now req r := by
  unfold classify at hc
  cases hp : parse req with
  | error e =>
    simp only [hp, Option.some.injEq] at hc
    subst hc
    simp [StepSpec, stepClass, implStep, handle_error hp, refStep, hw]
  | panic => simp [hp] at hc
  | outOfDomain => simp [hp] at hc
  | unsupported t => simp [hp] at hc
  | ok pc =>
    simp only [hp, Option.some.injEq] at hc
    rw [show handle st db now req = stage st db now pc from handle_ok hp st db now]
    unfold StepSpec implStep
    rw [show handle st db now req = stage st db now pc from handle_ok hp st db now]
    cases hs : st.inMulti with
    | false =>
      have hcm : st.cmds = [] := hw hs
      have hst : st = {} := by cases st; simp_all
      rw [phase_idle hs]
      cases h1 : named pc.name "multi" with
      | true =>
        simp only [h1, if_true] at hc; subst hc
        simp [stepClass, stage_idle_multi st db now pc hs h1, refStep, phaseOf, WFConn, hcm]
      | false =>
        cases h2 : named pc.name "exec" with
        | true =>
          simp [h1, h2] at hc; subst hc
          simp [stepClass, stage_idle_exec st db now pc hs h1 h2, refStep, phaseOf, hw, hs]
        | false =>
          cases h3 : named pc.name "discard" with
          | true =>
            simp [h1, h2, h3] at hc; subst hc
            simp [stepClass, stage_idle_discard st db now pc hs h1 h2 h3, refStep, phaseOf, hw, hs]
          | false =>
            simp [h1, h2, h3] at hc; subst hc
            simp [stepClass, stage_idle_cmd st db now pc hs h1 h2 h3, refStep, phaseOf, WFConn,
              ConnState.clear, hs]
    | true =>
      rw [phase_queuing hs]
      cases h1 : named pc.name "multi" with
      | true =>
        simp only [h1, if_true] at hc; subst hc
        simp [stepClass, stage_multi_multi st db now pc hs h1, refStep, phaseOf, hw, hs]
      | false =>
        cases h2 : named pc.name "exec" with
        | true =>
          simp [h1, h2] at hc; subst hc
          rw [stage_multi_exec st db now pc hs h1 h2]
          refine ⟨by simp [WFConn], ?_⟩
          simp only [stepClass]
          cases hb : blockClass now st.cmds db with
          | clean =>
            have := runQueue_clean now st.cmds db 1 hb
            simp [refStep, phaseOf, this.1, this.2.2.1, this.2.2.2.1, this.2.2.2.2]
          | fails =>
            have := runQueue_fails now st.cmds db 1 hb
            simp [implStep, refStep, phaseOf, this.1, this.2.2.1, this.2.2.2]
          | ood => simp
        | false =>
          cases h3 : named pc.name "discard" with
          | true =>
            simp [h1, h2, h3] at hc; subst hc
            simp [stepClass, stage_multi_discard st db now pc hs h1 h2 h3, refStep, phaseOf, WFConn]
          | false =>
            simp [h1, h2, h3] at hc; subst hc
            simp [stepClass, stage_multi_cmd st db now pc hs h1 h2 h3, refStep, phaseOf, WFConn,
              ConnState.push, hs]


theorem take_flatten_prefix {α : Type} (l : List (List α)) (k : Nat) : (l.take k).flatten <+: l.flatten := by
  refine ⟨(l.drop k).flatten, ?_⟩
  rw [← List.flatten_append, List.take_append_drop]

theorem handle_preserves_wfconn (st : ConnState) (db : DB) (now : Int) (req : List Bytes) (hw : WFConn st) :
    WFConn (handle st db now req).1 := by
  cases hc : classify req with
  | none => rw [handle_out_of_scope hc]; exact hw
  | some r => exact (step_spec st db now req r hw hc).1

/-- the refinement relation holds on every in-scope step -/
theorem step_refines (st : ConnState) (db : DB) (now : Int) (req : List Bytes) (r : Req)
    (hw : WFConn st) (hc : classify req = some r) :
    Refines (stepClass (phaseOf st) db now r) (implStep st db now req) (refStep (phaseOf st) db now r) := by
  have h := (step_spec st db now req r hw hc).2
  unfold StepSpec at h
  unfold Refines
  cases hcl : stepClass (phaseOf st) db now r with
  | clean => simpa [hcl] using h
  | fails =>
    simp only [hcl] at h
    exact h.1
  | ood =>
    simp only [hcl] at h
    cases r <;> simp [stepClass] at hcl
    cases hph : phaseOf st with
    | idle => simp [hph] at hcl
    | queuing q => simp [implStep, h, refStep, phaseOf]

/-! ### sequences -/

/-- the handler chain folded over a sequence of timed requests: final connection state, final
tables, the tokens written per request -/
def implRun (st : ConnState) (db : DB) : List (Int × List Bytes) → ConnState × DB × List (List Token)
  | [] => (st, db, [])
  | (now, req) :: rest =>
    let s := handle st db now req
    let t := implRun s.1 s.2.1 rest
    (t.1, t.2.1, s.2.2 :: t.2.2)

theorem run_refines (reqs : List (Int × List Bytes)) (as : List (Int × Req)) (st : ConnState) (db : DB)
    (hw : WFConn st) (hc : classifyAll reqs = some as) (hd : InDomainRun (phaseOf st) db as) :
    WFConn (implRun st db reqs).1 ∧
    phaseOf (implRun st db reqs).1 = (refRun (phaseOf st) db as).1 ∧
    (implRun st db reqs).2.1 = (refRun (phaseOf st) db as).2.1 ∧
    RepliesRefine (runClasses (phaseOf st) db as) (implRun st db reqs).2.2 (refRun (phaseOf st) db as).2.2 := by
  induction reqs generalizing as st db with
  | nil =>
    simp only [classifyAll, Option.some.injEq] at hc
    subst hc
    simp [implRun, refRun, runClasses, RepliesRefine, hw]
  | cons hd' rest ih =>
    obtain ⟨now, req⟩ := hd'
    simp only [classifyAll] at hc
    split at hc
    · rename_i a as' hca hcr
      simp only [Option.some.injEq] at hc
      subst hc
      have hstep := step_refines st db now req a hw hca
      have hw1 := handle_preserves_wfconn st db now req hw
      have hne : stepClass (phaseOf st) db now a ≠ .ood := hd _ (by simp [runClasses])
      have hpd : phaseOf (handle st db now req).1 = (refStep (phaseOf st) db now a).1 ∧
          (handle st db now req).2.1 = (refStep (phaseOf st) db now a).2.1 := by
        unfold Refines at hstep
        cases hcl : stepClass (phaseOf st) db now a with
        | clean => simp only [hcl] at hstep; simp [← hstep, implStep]
        | fails => simp only [hcl] at hstep; simp [← hstep, implStep]
        | ood => exact absurd hcl hne
      have hd1 : InDomainRun (phaseOf (handle st db now req).1) (handle st db now req).2.1 as' := by
        intro c hcm
        rw [hpd.1, hpd.2] at hcm
        exact hd c (by simp [runClasses, hcm])
      have ih' := ih as' (handle st db now req).1 (handle st db now req).2.1 hw1 hcr hd1
      simp only [implRun, refRun, runClasses, RepliesRefine]
      rw [← hpd.1, ← hpd.2]
      refine ⟨ih'.1, ih'.2.1, ih'.2.2.1, ?_, ih'.2.2.2⟩
      unfold Refines at hstep
      cases hcl : stepClass (phaseOf st) db now a with
      | clean => simp only [hcl] at hstep; simp [← hstep, implStep]
      | fails => simp only [hcl] at hstep; simp [← hstep, implStep]
      | ood => trivial
    · cases hc

theorem repliesRefine_clean (cs : List StepClass) (is rs : List (List Token)) (h : ∀ c ∈ cs, c = .clean)
    (hr : RepliesRefine cs is rs) : is = rs := by
  induction cs generalizing is rs with
  | nil => cases is <;> cases rs <;> simp_all [RepliesRefine]
  | cons c cs ih =>
    cases is with
    | nil => simp [RepliesRefine] at hr
    | cons i is =>
      cases rs with
      | nil => simp [RepliesRefine] at hr
      | cons r rs =>
        simp only [RepliesRefine] at hr
        have hc : c = .clean := h c (by simp)
        subst hc
        simp only at hr
        rw [hr.1, ih is rs (fun c hc => h c (by simp [hc])) hr.2]

theorem repliesRefine_indomain (cs : List StepClass) (is rs : List (List Token)) (h : ∀ c ∈ cs, c ≠ .ood)
    (hr : RepliesRefine cs is rs) : is = rs := by
  induction cs generalizing is rs with
  | nil => cases is <;> cases rs <;> simp_all [RepliesRefine]
  | cons c cs ih =>
    cases is with
    | nil => simp [RepliesRefine] at hr
    | cons i is =>
      cases rs with
      | nil => simp [RepliesRefine] at hr
      | cons r rs =>
        simp only [RepliesRefine] at hr
        have hc : c ≠ .ood := h c (by simp)
        have hi : i = r := by
          cases c with
          | clean => exact hr.1
          | fails => exact hr.1
          | ood => exact absurd rfl hc
        rw [hi, ih is rs (fun c hc => h c (by simp [hc])) hr.2]

/-- failing blocks allowed: the whole run is the reference run as long as no block leaves the domain -/
theorem run_refines_indomain (reqs : List (Int × List Bytes)) (as : List (Int × Req)) (st : ConnState) (db : DB)
    (hw : WFConn st) (hc : classifyAll reqs = some as) (hd : InDomainRun (phaseOf st) db as) :
    (phaseOf (implRun st db reqs).1, (implRun st db reqs).2.1, (implRun st db reqs).2.2)
      = refRun (phaseOf st) db as := by
  have h := run_refines reqs as st db hw hc hd
  rw [h.2.1, h.2.2.1, repliesRefine_indomain _ _ _ hd h.2.2.2]

theorem run_refines_clean (reqs : List (Int × List Bytes)) (as : List (Int × Req)) (st : ConnState) (db : DB)
    (hw : WFConn st) (hc : classifyAll reqs = some as) (hcl : CleanRun (phaseOf st) db as) :
    (phaseOf (implRun st db reqs).1, (implRun st db reqs).2.1, (implRun st db reqs).2.2)
      = refRun (phaseOf st) db as := by
  have hd : InDomainRun (phaseOf st) db as := fun c hc => by rw [hcl c hc]; decide
  have h := run_refines reqs as st db hw hc hd
  rw [h.2.1, h.2.2.1, repliesRefine_clean _ _ _ hcl h.2.2.2]


/-! ### the phase is a function of the connection's own requests -/

/-- the phase transition: it does not look at the tables, the clock or any other connection -/
def phaseStep (ph : Phase) : Req → Phase
  | .unparsable _ => ph
  | .multi => match ph with | .idle => .queuing [] | .queuing _ => ph
  | .exec => .idle
  | .discard => .idle
  | .cmd c => match ph with | .idle => .idle | .queuing q => .queuing (q ++ [c])

/-- … on raw requests; one outside the model's domain leaves the state alone -/
def phaseStepRaw (ph : Phase) (req : List Bytes) : Phase :=
  match classify req with
  | some r => phaseStep ph r
  | none => ph

theorem refStep_phase (ph : Phase) (db : DB) (now : Int) (r : Req) : (refStep ph db now r).1 = phaseStep ph r := by
  cases r <;> cases ph <;> rfl

theorem handle_phase (st : ConnState) (db : DB) (now : Int) (req : List Bytes) (hw : WFConn st) :
    phaseOf (handle st db now req).1 = phaseStepRaw (phaseOf st) req := by
  unfold phaseStepRaw
  cases hc : classify req with
  | none => simp [handle_out_of_scope hc]
  | some r =>
    have h := (step_spec st db now req r hw hc).2
    unfold StepSpec at h
    cases hcl : stepClass (phaseOf st) db now r with
    | clean => simp only [hcl] at h; simp [← refStep_phase (phaseOf st) db now r, ← h, implStep]
    | fails => simp only [hcl] at h; simp [← refStep_phase (phaseOf st) db now r, ← h.1, implStep]
    | ood =>
      simp only [hcl] at h
      cases r <;> simp [stepClass] at hcl
      simp [h, phaseStep, phaseOf]

/-! ### two connections on one database -/

/-- Two connections served by the same process on the same tables, one request at a time
(`conn = false`: the first connection, `true`: the second). Each has its OWN `connState`
(`conn.Context()`), the tables are shared. -/
def handle2 (sts : ConnState × ConnState) (db : DB) (now : Int) (conn : Bool) (req : List Bytes) :
    (ConnState × ConnState) × DB × List Token :=
  if conn then
    let r := handle sts.2 db now req
    ((sts.1, r.1), r.2.1, r.2.2)
  else
    let r := handle sts.1 db now req
    ((r.1, sts.2), r.2.1, r.2.2)

/-- an interleaving of the two connections' requests -/
def run2 (sts : ConnState × ConnState) (db : DB) :
    List (Bool × Int × List Bytes) → (ConnState × ConnState) × DB × List (List Token)
  | [] => (sts, db, [])
  | (conn, now, req) :: rest =>
    let s := handle2 sts db now conn req
    let t := run2 s.1 s.2.1 rest
    (t.1, t.2.1, s.2.2 :: t.2.2)

/-- the requests of one of the two connections -/
def ownReqs (conn : Bool) (l : List (Bool × Int × List Bytes)) : List (List Bytes) :=
  (l.filter (fun r => r.1 == conn)).map (fun r => r.2.2)

theorem run2_phases (l : List (Bool × Int × List Bytes)) (a b : ConnState) (db : DB)
    (ha : WFConn a) (hb : WFConn b) :
    WFConn (run2 (a, b) db l).1.1 ∧ WFConn (run2 (a, b) db l).1.2 ∧
    phaseOf (run2 (a, b) db l).1.1 = (ownReqs false l).foldl phaseStepRaw (phaseOf a) ∧
    phaseOf (run2 (a, b) db l).1.2 = (ownReqs true l).foldl phaseStepRaw (phaseOf b) := by
  induction l generalizing a b db with
  | nil => simp [run2, ownReqs, ha, hb]
  | cons x rest ih =>
    obtain ⟨conn, now, req⟩ := x
    cases conn with
    | false =>
      have ih' := ih (handle a db now req).1 b (handle a db now req).2.1
        (handle_preserves_wfconn a db now req ha) hb
      simp only [run2, handle2, ownReqs] at ih' ⊢
      simp [ih', handle_phase a db now req ha]
    | true =>
      have ih' := ih a (handle b db now req).1 (handle b db now req).2.1 ha
        (handle_preserves_wfconn b db now req hb)
      simp only [run2, handle2, ownReqs] at ih' ⊢
      simp [ih', handle_phase b db now req hb]

theorem foldl_phaseStep_cmds (q cs : List ParsedCmd) :
    (cs.map Req.cmd).foldl phaseStep (.queuing q) = .queuing (q ++ cs) := by
  induction cs generalizing q with
  | nil => simp
  | cons c cs ih => simp [phaseStep, ih]

/-! ### `handleMulti` is an `Update` -/

/-- the callback handed to `db.Update` by `handleMulti`, as a function of the transaction's
tables; which error it returns is not recorded by the command model, only that it returns one -/
def execBody (q : List ParsedCmd) (now : Int) (db : DB) : Res :=
  let r := runQueue q now db [] 1
  ⟨if r.failed then .error .notAllowed else .ok .nil, r.db⟩

theorem handleMulti_is_update (st : ConnState) (db : DB) (now : Int) :
    (handleMulti st db now [] 1).db = (update (execBody st.cmds now) db).db := by
  simp only [handleMulti, update, execBody]
  cases (runQueue st.cmds now db [] 1).failed <;> simp

/-- A queued command that, on these tables, does exactly what ONE repository operation does as a
method of the transaction: same tables afterwards, inside the command model's domain, and `Run`
returns an error exactly when the operation does. -/
def OpLike (c : ParsedCmd) (op : Op) (now : Int) (db : DB) : Prop :=
  (run c (Model.tx true) now db none).ood = false ∧
  (run c (Model.tx true) now db none).db = (Model.tx true op now db).db ∧
  (run c (Model.tx true) now db none).failed =
    (match (Model.tx true op now db).out with | .error _ => true | .ok _ => false)

instance (c : ParsedCmd) (op : Op) (now : Int) (db : DB) : Decidable (OpLike c op now db) := by
  unfold OpLike; infer_instance

/-- … for every command of a queue, each on the tables its predecessors leave -/
def OpLikeAlong (now : Int) : List ParsedCmd → List Op → DB → Prop
  | [], [], _ => True
  | c :: cs, o :: os, db => OpLike c o now db ∧ OpLikeAlong now cs os (Model.tx true o now db).db
  | _, _, _ => False

instance decOpLikeAlong (now : Int) :
    (q : List ParsedCmd) → (ops : List Op) → (db : DB) → Decidable (OpLikeAlong now q ops db)
  | [], [], _ => by unfold OpLikeAlong; infer_instance
  | c :: cs, o :: os, db => by
    unfold OpLikeAlong; exact @instDecidableAnd _ _ _ (decOpLikeAlong now cs os _)
  | [], _ :: _, _ => by unfold OpLikeAlong; infer_instance
  | _ :: _, [], _ => by unfold OpLikeAlong; infer_instance

theorem runQueue_is_runOps (now : Int) (q : List ParsedCmd) (ops : List Op) (db : DB) (pos : Nat)
    (h : OpLikeAlong now q ops db) :
    (runQueue q now db [] pos).failed = (Model.runOps true now ops db).1.isSome ∧
    ((Model.runOps true now ops db).1 = none →
      (runQueue q now db [] pos).db = (Model.runOps true now ops db).2) := by
  induction q generalizing ops db pos with
  | nil =>
    cases ops with
    | nil => simp [runQueue, Model.runOps]
    | cons o os => simp [OpLikeAlong] at h
  | cons c cs ih =>
    cases ops with
    | nil => simp [OpLikeAlong] at h
    | cons o os =>
      simp only [OpLikeAlong, OpLike] at h
      obtain ⟨⟨h1, h2, h3⟩, h4⟩ := h
      simp only [runQueue, oracle_nil, Model.runOps, h1]
      cases ho : (Model.tx true o now db).out with
      | error e =>
        -- the loop goes on after the failing command (its later replies are written), the block job stops:
        -- both report the failure, and the tables of a failed block are rolled back on both sides
        simp only [ho] at h3
        simp [h3]
      | ok v =>
        simp only [ho] at h3
        have ih' := ih os (Model.tx true o now db).db
          (pos + (run c (Model.tx true) now db none).toks.length) h4
        simp [h3, h2, ih'.1]
        intro hn
        exact ih'.2 hn

/-- On such a queue the effect of `handleMulti` on the tables is the effect of the concurrency
model's block job `Sched.Job.block true ops` executed alone, and it fails exactly when the job does. -/
theorem handleMulti_is_block (st : ConnState) (ops : List Op) (db : DB) (now : Int)
    (h : OpLikeAlong now st.cmds ops db) :
    (handleMulti st db now [] 1).db = (Sched.Job.seq (.block true ops) now db).db ∧
    ((runQueue st.cmds now db [] 1).failed = false ↔ ∃ v, (Sched.Job.seq (.block true ops) now db).out = .ok v) := by
  have hq := runQueue_is_runOps now st.cmds ops db 1 h
  simp only [handleMulti, Sched.Job.seq, Sched.Job.txBody, update, hq.1]
  cases hr : (Model.runOps true now ops db).1 with
  | none => simp [hq.2 hr]
  | some e => simp


/-! ### the classifier on the implementation side -/

/-- the former CLASSIFIER OF D12 (repaired; no theorem carries it as a hypothesis any more): the request is
EXEC, the connection is in MULTI, and some queued command's `Run` returns an error (all commands of the block
being inside the command model's domain). -/
def BlockFails (st : ConnState) (db : DB) (now : Int) (req : List Bytes) : Prop :=
  st.inMulti = true ∧ classify req = some .exec ∧ blockClass now st.cmds db = .fails

/-- outside the wire model's domain: the request itself (non-ASCII name, number outside the parser
model, empty request, unknown grammar — never a panic since the repair of D11), or an
EXEC whose block meets a command outside the command model's numeric domain before any failure -/
def OutOfDomain (st : ConnState) (db : DB) (now : Int) (req : List Bytes) : Prop :=
  classify req = none ∨ (st.inMulti = true ∧ classify req = some .exec ∧ blockClass now st.cmds db = .ood)

instance (st : ConnState) (db : DB) (now : Int) (req : List Bytes) : Decidable (BlockFails st db now req) := by
  unfold BlockFails; infer_instance

instance (st : ConnState) (db : DB) (now : Int) (req : List Bytes) : Decidable (OutOfDomain st db now req) := by
  unfold OutOfDomain; infer_instance

theorem stepClass_fails_iff (st : ConnState) (db : DB) (now : Int) (req : List Bytes) (r : Req)
    (hc : classify req = some r) :
    stepClass (phaseOf st) db now r = .fails ↔ BlockFails st db now req := by
  unfold BlockFails
  cases r <;> cases hs : st.inMulti <;> simp [stepClass, phaseOf, hs, hc]

theorem stepClass_ood_iff (st : ConnState) (db : DB) (now : Int) (req : List Bytes) (r : Req)
    (hc : classify req = some r) :
    stepClass (phaseOf st) db now r = .ood ↔ OutOfDomain st db now req := by
  unfold OutOfDomain
  cases r <;> cases hs : st.inMulti <;> simp [stepClass, phaseOf, hs, hc]

theorem stepClass_clean_of (st : ConnState) (db : DB) (now : Int) (req : List Bytes) (r : Req)
    (hc : classify req = some r) (hf : ¬ BlockFails st db now req) (ho : ¬ OutOfDomain st db now req) :
    stepClass (phaseOf st) db now r = .clean := by
  cases h : stepClass (phaseOf st) db now r with
  | clean => rfl
  | fails => exact absurd ((stepClass_fails_iff st db now req r hc).mp h) hf
  | ood => exact absurd ((stepClass_ood_iff st db now req r hc).mp h) ho

/-! ### inverting `classify` -/

theorem classify_multi {req : List Bytes} (h : classify req = some .multi) :
    ∃ pc, parse req = .ok pc ∧ named pc.name "multi" = true := by
  unfold classify at h
  cases hp : parse req <;> simp [hp] at h
  rename_i pc
  refine ⟨pc, rfl, ?_⟩
  cases h1 : named pc.name "multi"
  · exfalso; revert h; simp only [h1]; split <;> (try split) <;> simp
  · rfl

theorem classify_exec {req : List Bytes} (h : classify req = some .exec) :
    ∃ pc, parse req = .ok pc ∧ named pc.name "multi" = false ∧ named pc.name "exec" = true := by
  unfold classify at h
  cases hp : parse req <;> simp [hp] at h
  rename_i pc
  refine ⟨pc, rfl, ?_⟩
  cases h1 : named pc.name "multi" <;> cases h2 : named pc.name "exec" <;> simp [h1, h2] at h ⊢
  revert h; split <;> simp

theorem classify_discard {req : List Bytes} (h : classify req = some .discard) :
    ∃ pc, parse req = .ok pc ∧ named pc.name "multi" = false ∧ named pc.name "exec" = false ∧
      named pc.name "discard" = true := by
  unfold classify at h
  cases hp : parse req <;> simp [hp] at h
  rename_i pc
  refine ⟨pc, rfl, ?_⟩
  cases h1 : named pc.name "multi" <;> cases h2 : named pc.name "exec" <;>
    cases h3 : named pc.name "discard" <;> simp [h1, h2, h3] at h ⊢

theorem classify_cmd {req : List Bytes} {c : ParsedCmd} (h : classify req = some (.cmd c)) :
    parse req = .ok c ∧ named c.name "multi" = false ∧ named c.name "exec" = false ∧
      named c.name "discard" = false := by
  unfold classify at h
  cases hp : parse req <;> simp [hp] at h
  rename_i pc
  cases h1 : named pc.name "multi" <;> cases h2 : named pc.name "exec" <;>
    cases h3 : named pc.name "discard" <;> simp [h1, h2, h3] at h
  subst h
  exact ⟨rfl, h1, h2, h3⟩

theorem classify_unparsable {req : List Bytes} {e : RErr} (h : classify req = some (.unparsable e)) :
    parse req = .error e := by
  unfold classify at h
  cases hp : parse req <;> simp [hp] at h
  · rename_i pc
    revert h; split <;> (try split) <;> (try split) <;> simp
  · rw [h]

/-! ### the replies of a block, one by one -/

/-- the tables after the commands `cs`, each run as a method of the same transaction -/
def blockDb (now : Int) (cs : List ParsedCmd) (db : DB) : DB :=
  cs.foldl (fun d c => (run c (Model.tx true) now d none).db) db

theorem runBlock_db (now : Int) (q : List ParsedCmd) (db : DB) : (runBlock now q db).db = blockDb now q db := by
  induction q generalizing db with
  | nil => simp [runBlock, blockDb]
  | cons c cs ih => simp [runBlock, blockDb, ih]

theorem runBlock_reply (now : Int) (q : List ParsedCmd) (db : DB) (i : Nat) :
    (runBlock now q db).replies[i]? =
      q[i]?.map (fun c => (run c (Model.tx true) now (blockDb now (q.take i) db) none).toks) := by
  induction q generalizing db i with
  | nil => simp [runBlock]
  | cons c cs ih =>
    cases i with
    | zero => simp [runBlock, blockDb]
    | succ i => simp [runBlock, blockDb, ih]

/-- when the failing command is not the last one the reply is shorter than the reference's exactly
by the replies of the commands after it -/
theorem short_reply_iff {α : Type} (hdr : α) (l : List (List α)) (k : Nat) :
    hdr :: (l.take k).flatten ≠ hdr :: l.flatten ↔ (l.drop k).flatten ≠ [] := by
  have : l.flatten = (l.take k).flatten ++ (l.drop k).flatten := by
    rw [← List.flatten_append, List.take_append_drop]
  rw [this]
  simp


/-! ### every command inside the model's domain writes something -/

theorem call_toks (c : ParsedCmd) (r : Runner) (op : Op) (now : Int) (db : DB)
    (onOk : Val → Option (List Token)) (onErr : Err → Option (List Token × Bool)) (bag : Nat)
    (h1 : ∀ v t, onOk v = some t → t ≠ []) (h2 : ∀ e t f, onErr e = some (t, f) → t ≠ [])
    (h : (call c r op now db onOk onErr bag).ood = false) : (call c r op now db onOk onErr bag).toks ≠ [] := by
  simp only [call] at h ⊢
  cases hr : (r op now db).out with
  | error e =>
    simp only [hr] at h ⊢
    by_cases he : e = .outOfDomain
    · subst he; simp [RunRes.outOfDomain] at h
    · have key : ∀ (x : RunRes), x.ood = false → x.toks ≠ [] →
          True := fun _ _ _ => trivial
      cases hoe : onErr e with
      | some p =>
        obtain ⟨t, f⟩ := p
        have := h2 e t f hoe
        cases e <;> simp_all
      | none =>
        cases hm : errMsg e op with
        | none => cases e <;> simp_all [RunRes.outOfDomain]
        | some m => cases e <;> simp_all
  | ok v =>
    simp only [hr] at h ⊢
    split at h
    · rename_i heq; simp_all; exact h1 _ _ heq
    · simp [RunRes.outOfDomain] at h


theorem asInt_ne : ∀ v t, asInt v = some t → t ≠ [] := by
  intro v t h; cases v <;> simp [asInt] at h; subst h; simp
theorem asBool_ne : ∀ v t, asBool v = some t → t ≠ [] := by
  intro v t h; cases v <;> simp [asBool] at h; subst h; simp
theorem asOK_ne : ∀ v t, asOK v = some t → t ≠ [] := by
  intro v t h; simp [asOK] at h; subst h; simp
theorem asBulk_ne : ∀ v t, asBulk v = some t → t ≠ [] := by
  intro v t h; simp [asBulk] at h; obtain ⟨a, _, rfl⟩ := h; simp
theorem asFloat_ne : ∀ v t, asFloat v = some t → t ≠ [] := by
  intro v t h; cases v <;> simp [asFloat] at h; obtain ⟨a, _, rfl⟩ := h; simp
theorem arrayOfBulks_ne : ∀ v t, arrayOfBulks v = some t → t ≠ [] := by
  intro v t h; cases v <;> simp [arrayOfBulks] at h; obtain ⟨a, _, rfl⟩ := h; simp
theorem writeItems_ne (w : Bool) : ∀ v t, writeItems w v = some t → t ≠ [] := by
  intro v t h; cases v <;> simp [writeItems] at h
  split at h
  · cases h
  · split at h
    · simp at h; obtain ⟨a, _, rfl⟩ := h; simp
    · simp at h; subst h; simp
theorem onNotFound_ne (l : List Token) (hl : l ≠ []) : ∀ e t f, onNotFound l e = some (t, f) → t ≠ [] := by
  intro e t f h; cases e <;> simp [onNotFound] at h; rw [← h.1]; exact hl
theorem none_ne : ∀ (e : Err) (t : List Token) (f : Bool), (fun _ => (none : Option (List Token × Bool))) e = some (t, f) → t ≠ [] := by
  intro e t f h; simp at h
theorem scanReply_ne (g) : ∀ v t, scanReply v g = some t → t ≠ [] := by
  intro v t h
  unfold scanReply at h
  split at h
  · simp at h; obtain ⟨a, w, _, rfl⟩ := h; simp
  · cases h


macro "c15_side1" : tactic => `(tactic|
  (intro v t hh ht; subst ht; (repeat' (split at hh)) <;>
    first | (cases hh; done) | (simp [asBulk, floatTok, boolInt] at hh; done)))
macro "c15_side2" : tactic => `(tactic|
  (intro e t f hh ht; subst ht; (repeat' (split at hh)) <;>
    first | (cases hh; done) | (simp [onNotFound] at hh; done)))
macro "c15_sides" : tactic => `(tactic|
  first | exact asInt_ne | exact asBool_ne | exact asOK_ne | exact asBulk_ne | exact asFloat_ne
              | exact arrayOfBulks_ne | exact writeItems_ne _ | exact none_ne | exact scanReply_ne _
              | exact onNotFound_ne _ (by simp) | (intro v t hh; simp at hh; subst hh; simp; done) | c15_side1 | c15_side2)

theorem run_toks_ne_nil (c : ParsedCmd) (r : Runner) (now : Int) (db : DB) (o : Option Bytes)
    (h : (run c r now db o).ood = false) : (run c r now db o).toks ≠ [] := by
  unfold run at h ⊢
  split at h
  all_goals first
    | (simp; done)
    | (refine call_toks _ _ _ _ _ _ _ _ ?_ ?_ h <;> c15_sides)
    | (revert h; (repeat' split) <;> intro h <;> first
        | (simp [RunRes.outOfDomain] at h; done)
        | (simp; done)
        | (refine call_toks _ _ _ _ _ _ _ _ ?_ ?_ h <;> c15_sides))
    | skip
  · revert h; split <;> intro h
    · exact call_toks _ _ _ _ _ _ _ _ asOK_ne none_ne h
    · refine call_toks _ _ _ _ _ _ _ _ ?_ none_ne h
      intro v t hh ht; subst ht
      split at hh
      · (repeat' (split at hh)) <;> (try simp [asBulk] at hh) <;> (split at hh <;> simp at hh)
      · cases hh

/-- a reply of the block that is not empty makes the rest of the replies non-empty -/
theorem drop_flatten_ne_nil {α : Type} (l : List (List α)) (k : Nat) (x : List α) (hk : l[k]? = some x)
    (hx : x ≠ []) : (l.drop k).flatten ≠ [] := by
  have hlt : k < l.length := by
    cases h : l[k]? with
    | none => simp [h] at hk
    | some y => exact (List.getElem?_eq_some_iff.mp h).1
  rw [List.drop_eq_getElem_cons hlt]
  have : l[k] = x := by
    have := List.getElem?_eq_getElem hlt
    rw [this] at hk; exact Option.some.inj hk
  simp [this, hx]

end Redka.MultiProofs
