/-
  `internal/rzset` against the abstract keyspace, part 2: the writes.

  Every write of the repository is a composition of a few table primitives (key upsert, score
  upsert with the `len + 1` trigger, row deletion with the `len - n` update). For each primitive:
  it keeps `DB.ZWF`, and what it does to the abstraction. Bookkeeping columns of `rkey` (version,
  mtime, len) are invisible to the abstraction (`abs_meta_congr`).
-/
import RedkaModel.Proofs.ZSetRef

namespace Redka.ZSetRef

open Redka Redka.Scan Redka.Spec Redka.Model Redka.DB

/-! ### columns of `rkey` the abstraction can see -/

def metaOf (r : KeyRow) : Int × Bytes × Int × Option Int := (r.id, r.key, r.ty, r.etime)

theorem metaOf_eq {a b : KeyRow} (h : metaOf a = metaOf b) :
    a.id = b.id ∧ a.key = b.key ∧ a.ty = b.ty ∧ a.etime = b.etime := by
  simp only [metaOf, Prod.mk.injEq] at h
  exact h

theorem absVal_meta {db db' : DB} {r r' : KeyRow} (hid : r'.id = r.id) (hty : r'.ty = r.ty)
    (hs : db'.strs = db.strs) (hl : db'.lists = db.lists) (hse : db'.sets = db.sets)
    (hh : db'.hashes = db.hashes) (hz : db'.zsets = db.zsets) : absVal db' r' = absVal db r := by
  unfold absVal Model.listRows Model.setRows Model.hashRows
  rw [hid, hty, hs, hl, hse, hh, hz]

theorem filterMap_congr_map {α β γ : Type} {f : α → γ} {F F' : α → Option β} :
    ∀ (l l' : List α), l'.map f = l.map f → (∀ a b, f b = f a → F' b = F a) →
      l'.filterMap F' = l.filterMap F
  | [], [], _, _ => rfl
  | [], _ :: _, h, _ => by simp at h
  | _ :: _, [], h, _ => by simp at h
  | a :: l, b :: l', h, hF => by
    simp only [List.map_cons, List.cons.injEq] at h
    rw [List.filterMap_cons, List.filterMap_cons, hF a b h.1, filterMap_congr_map l l' h.2 hF]

theorem mem_of_map_eq {α γ : Type} {f : α → γ} : ∀ {l l' : List α}, l'.map f = l.map f →
    ∀ x ∈ l', ∃ y ∈ l, f x = f y
  | [], [], _, _, hx => by cases hx
  | [], _ :: _, h, _, _ => by simp at h
  | _ :: _, [], h, _, _ => by simp at h
  | a :: l, b :: l', h, x, hx => by
    simp only [List.map_cons, List.cons.injEq] at h
    rcases List.mem_cons.1 hx with rfl | hx
    · exact ⟨a, by simp, h.1⟩
    · obtain ⟨y, hy, he⟩ := mem_of_map_eq h.2 x hx
      exact ⟨y, List.mem_cons_of_mem _ hy, he⟩

theorem names_of_meta {l l' : List KeyRow} (h : l'.map metaOf = l.map metaOf) :
    l'.map (·.key) = l.map (·.key) := by
  have := congrArg (List.map (fun m : Int × Bytes × Int × Option Int => m.2.1)) h
  simpa [List.map_map, Function.comp_def, metaOf] using this

theorem ids_of_meta {l l' : List KeyRow} (h : l'.map metaOf = l.map metaOf) :
    l'.map (·.id) = l.map (·.id) := by
  have := congrArg (List.map (fun m : Int × Bytes × Int × Option Int => m.1)) h
  simpa [List.map_map, Function.comp_def, metaOf] using this

/-- the other five tables are the same -/
structure SameButZ (db db' : DB) : Prop where
  strs : db'.strs = db.strs
  lists : db'.lists = db.lists
  sets : db'.sets = db.sets
  hashes : db'.hashes = db.hashes

/-- version, mtime and len of key rows do not show in the abstraction -/
theorem abs_meta_congr {db db' : DB} (hk : db'.keys.map metaOf = db.keys.map metaOf)
    (ht : SameButZ db db') (hz : db'.zsets = db.zsets) (now : Int) : abs now db' = abs now db := by
  rw [abs_eq, abs_eq]
  congr 1
  apply filterMap_congr_map (f := metaOf) _ _ hk
  intro a b hab
  obtain ⟨h1, h2, h3, h4⟩ := metaOf_eq hab
  have hv : absVal db' b = absVal db a := absVal_meta h1 h3 ht.strs ht.lists ht.sets ht.hashes hz
  have he : rowEntry now db' b = rowEntry now db a := by
    unfold rowEntry KeyRow.live
    rw [h4, hv]
  rw [he, h2]

theorem updKey_meta {db : DB} {id : Int} {f : KeyRow → KeyRow}
    (hf : ∀ o ∈ db.keys, o.id = id → metaOf (f o) = metaOf o) :
    (db.updKey id f).keys.map metaOf = db.keys.map metaOf := by
  unfold updKey
  simp only [List.map_map]
  apply List.map_congr_left
  intro o ho
  simp only [Function.comp]
  split
  · rename_i h; exact hf o ho (by simpa using h)
  · rfl

theorem mem_updKey_keys {db : DB} {id : Int} {f : KeyRow → KeyRow} {x : KeyRow}
    (hx : x ∈ (db.updKey id f).keys) :
    ∃ y ∈ db.keys, x = if y.id == id then f y else y := by
  unfold updKey at hx
  obtain ⟨y, hy, rfl⟩ := List.mem_map.1 hx
  exact ⟨y, hy, rfl⟩

/-! ### a change of the rows of one sorted set -/

def zCountOf (zs : List ZRow) (id : Int) : Nat := (zs.filter (fun z => z.kid == id)).length

/-- Replace the `rzset` table and update the key row `id`: `DB.ZWF` is kept when the new table is
still unique on `(kid, elem)`, adds rows only under `id`, leaves the row counts of the other keys
alone, and the update sets `len` to the new row count while keeping the visible columns. -/
theorem zwf_rows_update {db : DB} (hz : db.ZWF) {id : Int} {zs' : List ZRow} {f : KeyRow → KeyRow}
    (hown : ∃ r ∈ db.keys, r.id = id)
    (hu : (zs'.map (fun r => (r.kid, r.elem))).Nodup)
    (hmem : ∀ z ∈ zs', z ∈ db.zsets ∨ z.kid = id)
    (hcnt : ∀ id', id' ≠ id → zCountOf zs' id' = zCountOf db.zsets id')
    (hf : ∀ o ∈ db.keys, o.id = id → metaOf (f o) = metaOf o ∧
      (o.ty = TZSet → (f o).len = some (zCountOf zs' id : Int))) :
    (({ db with zsets := zs' } : DB).updKey id f).ZWF := by
  have hmeta : (({ db with zsets := zs' } : DB).updKey id f).keys.map metaOf = db.keys.map metaOf :=
    updKey_meta (db := { db with zsets := zs' }) (fun o ho hid => (hf o ho hid).1)
  have hback : ∀ x ∈ (({ db with zsets := zs' } : DB).updKey id f).keys,
      ∃ y ∈ db.keys, (x = if y.id == id then f y else y) ∧ metaOf x = metaOf y := by
    intro x hx
    obtain ⟨y, hy, rfl⟩ := mem_updKey_keys hx
    refine ⟨y, hy, rfl, ?_⟩
    split
    · rename_i h; exact (hf y hy (by simpa using h)).1
    · rfl
  refine { names := ?_, ids := ?_, tyOk := ?_, strRow := ?_, strKids := hz.strKids,
           zuniq := hu, zown := ?_, zlen := ?_ }
  · rw [names_of_meta hmeta]; exact hz.names
  · rw [ids_of_meta hmeta]; exact hz.ids
  · intro x hx
    obtain ⟨y, hy, _, hm⟩ := hback x hx
    rw [(metaOf_eq hm).2.2.1]; exact hz.tyOk y hy
  · intro x hx hty
    obtain ⟨y, hy, _, hm⟩ := hback x hx
    obtain ⟨s, hs, hk⟩ := hz.strRow y hy (by rw [← (metaOf_eq hm).2.2.1]; exact hty)
    exact ⟨s, hs, by rw [hk, (metaOf_eq hm).1]⟩
  · intro z hzm
    have hkid : ∃ r ∈ db.keys, r.id = z.kid := by
      rcases hmem z hzm with h | h
      · exact hz.zown z h
      · rw [h]; exact hown
    obtain ⟨r, hr, hrid⟩ := hkid
    refine ⟨if r.id == id then f r else r, ?_, ?_⟩
    · unfold updKey; exact List.mem_map.2 ⟨r, hr, rfl⟩
    · split
      · rename_i h; rw [(metaOf_eq (hf r hr (by simpa using h)).1).1]; exact hrid
      · exact hrid
  · intro x hx hty
    obtain ⟨y, hy, hxy, hm⟩ := hback x hx
    have hyty : y.ty = TZSet := by rw [← (metaOf_eq hm).2.2.1]; exact hty
    have hxid : x.id = y.id := (metaOf_eq hm).1
    show x.len = some ((zCountOf zs' x.id : Nat) : Int)
    by_cases hid : y.id = id
    · have : x = f y := by simpa [hid] using hxy
      rw [this, (hf y hy hid).2 hyty, ← this, hxid, hid]
    · have : x = y := by simpa [hid] using hxy
      rw [this, hz.zlen y hy hyty, hcnt y.id hid]
      rfl

/-- an update of `rkey` that keeps the visible columns and `len` keeps `DB.ZWF` -/
theorem zwf_updKey_keep {db : DB} (hz : db.ZWF) {id : Int} {f : KeyRow → KeyRow}
    (hf : ∀ o ∈ db.keys, o.id = id → metaOf (f o) = metaOf o ∧ (f o).len = o.len) :
    (db.updKey id f).ZWF := by
  by_cases hown : ∃ r ∈ db.keys, r.id = id
  · refine zwf_rows_update (zs' := db.zsets) hz hown hz.zuniq (fun z h => Or.inl h) (fun _ _ => rfl) ?_
    intro o ho hid
    refine ⟨(hf o ho hid).1, fun hty => ?_⟩
    rw [(hf o ho hid).2, hz.zlen o ho hty, hid]
    rfl
  · have : db.updKey id f = db := by
      unfold updKey
      have : db.keys.map (fun r => if r.id == id then f r else r) = db.keys := by
        conv => rhs; rw [← List.map_id db.keys]
        apply List.map_congr_left
        intro r hr
        have : ¬ r.id = id := fun h => hown ⟨r, hr, h⟩
        simp [this]
      rw [this]
    rw [this]; exact hz

/-- the abstraction after the rows of the sorted set `r` were replaced (and bookkeeping columns
of `rkey` were touched): `r`'s name now maps to the new member-to-score map, nothing else moved -/
theorem abs_zrows {db db' : DB} (hz : db.ZWF) {r : KeyRow} (hr : r ∈ db.keys) (hty : r.ty = TZSet)
    (hk : db'.keys.map metaOf = db.keys.map metaOf) (ht : SameButZ db db')
    (hframe : ∀ id', id' ≠ r.id →
      db'.zsets.filter (fun z => z.kid == id') = db.zsets.filter (fun z => z.kid == id'))
    (now : Int) :
    abs now db' = purge now (put (abs now db) r.key ⟨.zset (zAssoc db' r.id), r.etime⟩) := by
  have hn' : (db'.keys.map (·.key)).Nodup := by rw [names_of_meta hk]; exact hz.names
  -- forget the bookkeeping columns
  have h1 : abs now db' = abs now ({ db with zsets := db'.zsets } : DB) := by
    exact abs_meta_congr (db := { db with zsets := db'.zsets }) hk
      ⟨ht.strs, ht.lists, ht.sets, ht.hashes⟩ rfl now
  rw [h1]
  have hn2 : ((({ db with zsets := db'.zsets } : DB)).keys.map (·.key)).Nodup := hz.names
  have hs := ((sorted_abs hz.names now).put r.key ⟨.zset (zAssoc db' r.id), r.etime⟩).purge now
  apply abs_ext hn2 hs
  intro k'
  rw [get_purge ((sorted_abs hz.names now).put r.key _), get_put]
  show (db.findKey k').bind (rowEntry now _) = _
  by_cases hkk : r.key = k'
  · subst hkk
    rw [findKey_of_mem hz.names hr]
    have hv : absVal ({ db with zsets := db'.zsets } : DB) r = some (.zset (zAssoc db' r.id)) :=
      absVal_zset (db := { db with zsets := db'.zsets }) hty
    simp only [beq_self_eq_true, if_true, Option.bind_some, rowEntry, hv, Option.map_some]
    rfl
  · have : (r.key == k') = false := by simpa using hkk
    simp only [this, Bool.false_eq_true, if_false]
    rw [← get_purge (sorted_abs hz.names now), purge_abs hz.names, get_abs hz.names]
    cases hf : db.findKey k' with
    | none => rfl
    | some r' =>
      obtain ⟨hm, hmk⟩ := findKey_mem hf
      have hne : r'.id ≠ r.id := fun he => hkk (by rw [← id_inj hz.ids hm hr he, hmk])
      simp only [Option.bind_some, rowEntry]
      rw [absVal_congr (db := db) (db' := { db with zsets := db'.zsets }) rfl rfl rfl rfl
        (hframe r'.id hne)]

/-! ### `put` twice -/

theorem put_put (s : State) (hs : Sorted s) (k : Bytes) (e1 e2 : Entry) :
    put (put s k e1) k e2 = put s k e2 := by
  apply sorted_ext ((hs.put k e1).put k e2) (hs.put k e2)
  intro k'
  have h1 := get_put (put s k e1) k e2 k'
  have h2 := get_put s k e1 k'
  have h3 := get_put s k e2 k'
  unfold Spec.get at h1 h2 h3
  rw [h1, h2, h3]
  split <;> rfl

theorem get_put_self (s : State) (k : Bytes) (e : Entry) : Spec.get (put s k e) k = some e := by
  rw [get_put]; simp

theorem zsetAt_put_self (s : State) (k : Bytes) (z : List (Bytes × Score)) (et : Option Int) :
    zsetAt (put s k ⟨.zset z, et⟩) k = z := by
  unfold zsetAt; rw [get_put_self]

/-- two strictly sorted association lists with the same pairs are the same list -/
theorem sorted_mem_ext {β : Type} {a b : List (Bytes × β)} (ha : Sorted a) (hb : Sorted b)
    (h : ∀ p, p ∈ a ↔ p ∈ b) : a = b := by
  apply sorted_ext ha hb
  intro k
  apply Option.ext
  intro v
  rw [aget_eq_some_iff ha.nodup_keys, aget_eq_some_iff hb.nodup_keys, h]

theorem mem_aput_iff {β : Type} {m : List (Bytes × β)} (hm : Sorted m) (k : Bytes) (v : β)
    (p : Bytes × β) : p ∈ aput m k v ↔ p = (k, v) ∨ (p ∈ m ∧ p.1 ≠ k) := by
  obtain ⟨k', v'⟩ := p
  rw [← aget_eq_some_iff (hm.aput k v).nodup_keys, aget_aput, ← aget_eq_some_iff hm.nodup_keys]
  by_cases hk : k = k'
  · subst hk
    simp only [beq_self_eq_true, if_true, Option.some.injEq, Prod.mk.injEq, true_and, ne_eq,
      not_true_eq_false, and_false, or_false]
    exact ⟨fun h => h.symm, fun h => h.symm⟩
  · have : (k == k') = false := by simpa using hk
    simp only [this, Bool.false_eq_true, if_false, Prod.mk.injEq, ne_eq]
    constructor
    · intro h; exact Or.inr ⟨h, fun he => hk he.symm⟩
    · rintro (⟨he, _⟩ | ⟨h, _⟩)
      · exact absurd he.symm hk
      · exact h

/-! ### the key upsert `sqlAdd1` -/

def zNewKey (k : Bytes) (now id : Int) : KeyRow :=
  { id := id, key := k, ty := TZSet, version := 1, etime := none, mtime := now, len := some 0 }

def zOldKey (now : Int) (o : KeyRow) : KeyRow := { o with version := o.version + 1, mtime := now }

theorem zAddKey_eq (db : DB) (k : Bytes) (now : Int) :
    zAddKey db k now = keyUpsert db k TZSet (zNewKey k now) (zOldKey now) := rfl

/-- no row of `rzset` carries the next key id -/
theorem zKidRows_fresh {db : DB} (hz : db.ZWF) :
    db.zsets.filter (fun z => z.kid == db.nextKeyId) = [] := by
  rw [List.filter_eq_nil_iff]
  intro z hzm hk
  obtain ⟨r, hr, hrid⟩ := hz.zown z hzm
  have : z.kid = db.nextKeyId := by simpa using hk
  exact nextKeyId_fresh db r hr (by rw [hrid, this])

theorem zAssoc_of_filter_nil {db : DB} {id : Int}
    (h : db.zsets.filter (fun z => z.kid == id) = []) : zAssoc db id = [] := by
  unfold zAssoc zKidRows; rw [h]; rfl

theorem zwf_append_key {db : DB} (hz : db.ZWF) {k : Bytes} (h : db.findKey k = none) (now : Int) :
    ({ db with keys := db.keys ++ [zNewKey k now db.nextKeyId] } : DB).ZWF := by
  have hnone : db.findKey (zNewKey k now db.nextKeyId).key = none := h
  refine { names := names_append hz.names hnone, ids := ids_append hz.ids rfl, tyOk := ?_,
           strRow := ?_, strKids := hz.strKids, zuniq := hz.zuniq, zown := ?_, zlen := ?_ }
  · intro x hx
    rcases List.mem_append.1 hx with hx | hx
    · exact hz.tyOk x hx
    · have : x = zNewKey k now db.nextKeyId := by simpa using hx
      rw [this]
      show (1 : Int) ≤ 5 ∧ (5 : Int) ≤ 5
      decide
  · intro x hx hty
    rcases List.mem_append.1 hx with hx | hx
    · exact hz.strRow x hx hty
    · have : x = zNewKey k now db.nextKeyId := by simpa using hx
      rw [this] at hty; cases hty
  · intro z hzm
    obtain ⟨r, hr, hrid⟩ := hz.zown z hzm
    exact ⟨r, List.mem_append_left _ hr, hrid⟩
  · intro x hx hty
    rcases List.mem_append.1 hx with hx | hx
    · exact hz.zlen x hx hty
    · have : x = zNewKey k now db.nextKeyId := by simpa using hx
      rw [this]
      show some (0 : Int) = some ((db.zsets.filter (fun z => z.kid == db.nextKeyId)).length : Int)
      rw [zKidRows_fresh hz]; rfl

/-- a fresh, empty sorted set under a free name -/
theorem abs_append_key {db : DB} (hz : db.ZWF) {k : Bytes} (h : db.findKey k = none) (now : Int) :
    abs now ({ db with keys := db.keys ++ [zNewKey k now db.nextKeyId] } : DB)
      = put (abs now db) k ⟨.zset [], none⟩ := by
  have hz1 := zwf_append_key hz h now
  apply abs_ext hz1.names ((sorted_abs hz.names now).put k _)
  intro k'
  rw [get_put, get_abs hz.names]
  have hnone : db.findKey (zNewKey k now db.nextKeyId).key = none := h
  rw [findKey_append hnone k']
  show Option.bind (if k == k' then _ else _) _ = _
  by_cases hk : k = k'
  · subst hk
    have hv : absVal ({ db with keys := db.keys ++ [zNewKey k now db.nextKeyId] } : DB)
        (zNewKey k now db.nextKeyId) = some (.zset []) := by
      rw [absVal_zset rfl]
      show some (SVal.zset (zAssoc _ db.nextKeyId)) = _
      have hnil : db.zsets.filter (fun z => z.kid == db.nextKeyId) = [] := zKidRows_fresh hz
      rw [zAssoc_of_filter_nil (db := { db with keys := db.keys ++ [zNewKey k now db.nextKeyId] })
        hnil]
    simp only [beq_self_eq_true, if_true, Option.bind_some, rowEntry, hv, Option.map_some]
    rfl
  · have : (k == k') = false := by simpa using hk
    simp only [this, Bool.false_eq_true, if_false]
    rfl

theorem zAddKey_new {db : DB} {k : Bytes} (h : db.findKey k = none) (now : Int) :
    zAddKey db k now = .ok ({ db with keys := db.keys ++ [zNewKey k now db.nextKeyId] },
      zNewKey k now db.nextKeyId) := by
  rw [zAddKey_eq, keyUpsert_new h]

theorem zOldKey_meta (now : Int) (o : KeyRow) : metaOf (zOldKey now o) = metaOf o := rfl

theorem zwf_upsert_old {db : DB} (hz : db.ZWF) {old : KeyRow} (ho : old ∈ db.keys) (now : Int) :
    (db.updKey old.id (fun _ => zOldKey now old)).ZWF := by
  apply zwf_updKey_keep hz
  intro o hom hid
  rw [id_inj hz.ids hom ho hid]
  exact ⟨rfl, rfl⟩

theorem meta_upsert_old {db : DB} (hz : db.ZWF) {old : KeyRow} (ho : old ∈ db.keys) (now : Int) :
    (db.updKey old.id (fun _ => zOldKey now old)).keys.map metaOf = db.keys.map metaOf := by
  apply updKey_meta
  intro o hom hid
  rw [id_inj hz.ids hom ho hid]
  rfl

theorem abs_upsert_old {db : DB} (hz : db.ZWF) {old : KeyRow} (ho : old ∈ db.keys) (now : Int) :
    abs now (db.updKey old.id (fun _ => zOldKey now old)) = abs now db :=
  abs_meta_congr (meta_upsert_old hz ho now) ⟨rfl, rfl, rfl, rfl⟩ rfl now

theorem mem_upsert_old {db : DB} {old : KeyRow} (ho : old ∈ db.keys) (now : Int) :
    zOldKey now old ∈ (db.updKey old.id (fun _ => zOldKey now old)).keys := by
  unfold updKey
  exact List.mem_map.2 ⟨old, ho, by simp⟩

/-! ### the score upsert `sqlAdd2` with the `rzset_on_insert` trigger -/

def zHas (zs : List ZRow) (id : Int) (e : Bytes) : Bool := zs.any (fun r => r.kid == id && r.elem == e)

def zBump (zs : List ZRow) (id : Int) (e : Bytes) (s : Score) : List ZRow :=
  zs.map (fun r => if r.kid == id && r.elem == e then { r with score := s } else r)

def zNewRow (zs : List ZRow) (id : Int) (e : Bytes) (s : Score) : ZRow :=
  { rowid := maxD 0 (zs.map (·.rowid)) + 1, kid := id, elem := e, score := s }

def lenPlus (o : KeyRow) : KeyRow := { o with len := o.len.map (· + 1) }

theorem zInsertNew_eq (db : DB) (id : Int) (e : Bytes) (s : Score) :
    zInsertNew db id e s
      = ({ db with zsets := db.zsets ++ [zNewRow db.zsets id e s] } : DB).updKey id lenPlus := rfl

theorem zSetRow_hit {db : DB} {id : Int} {e : Bytes} (h : zHas db.zsets id e = true) (s : Score) :
    zSetRow db id e s = { db with zsets := zBump db.zsets id e s } := by
  unfold zSetRow; unfold zHas at h; rw [if_pos h]; rfl

theorem zSetRow_miss {db : DB} {id : Int} {e : Bytes} (h : zHas db.zsets id e = false) (s : Score) :
    zSetRow db id e s = zInsertNew db id e s := by
  unfold zSetRow; unfold zHas at h; rw [if_neg (by simp [h])]

theorem zHas_iff_zFind (db : DB) (id : Int) (e : Bytes) :
    zHas db.zsets id e = (zFind db id e).isSome := by
  unfold zHas zFind
  rw [Bool.eq_iff_iff, List.any_eq_true, List.find?_isSome]

theorem filter_map_fix {α : Type} (g : α → α) (p : α → Bool) : ∀ (l : List α),
    (∀ x ∈ l, p (g x) = p x ∧ (p x = true → g x = x)) → (l.map g).filter p = l.filter p
  | [], _ => rfl
  | x :: l, h => by
    have hx := h x (by simp)
    have ih := filter_map_fix g p l (fun y hy => h y (List.mem_cons_of_mem _ hy))
    rw [List.map_cons, List.filter_cons, List.filter_cons, hx.1, ih]
    cases hp : p x with
    | true => simp [hx.2 hp]
    | false => simp

theorem filter_kid_zBump (zs : List ZRow) (id : Int) (e : Bytes) (s : Score) {id' : Int}
    (hne : id' ≠ id) :
    (zBump zs id e s).filter (fun z => z.kid == id') = zs.filter (fun z => z.kid == id') := by
  apply filter_map_fix
  intro x _
  constructor
  · split <;> rfl
  · intro hp
    have hk : x.kid = id' := by simpa using hp
    have : ¬ x.kid = id := fun h => hne (by rw [← hk, h])
    simp [this]

theorem zCountOf_zBump (zs : List ZRow) (id : Int) (e : Bytes) (s : Score) (id' : Int) :
    zCountOf (zBump zs id e s) id' = zCountOf zs id' := by
  unfold zCountOf zBump
  rw [List.filter_map, List.length_map]
  congr 2
  funext r
  simp only [Function.comp]
  split <;> rfl

theorem filter_kid_append_ne (zs : List ZRow) (row : ZRow) {id' : Int} (hne : row.kid ≠ id') :
    (zs ++ [row]).filter (fun z => z.kid == id') = zs.filter (fun z => z.kid == id') := by
  rw [List.filter_append]
  have : [row].filter (fun z => z.kid == id') = [] := by simp [hne]
  rw [this, List.append_nil]

theorem zCountOf_append_self (zs : List ZRow) (row : ZRow) :
    zCountOf (zs ++ [row]) row.kid = zCountOf zs row.kid + 1 := by
  unfold zCountOf
  rw [List.filter_append]
  simp

theorem zwf_zBump {db : DB} (hz : db.ZWF) (id : Int) (e : Bytes) (s : Score) :
    ({ db with zsets := zBump db.zsets id e s } : DB).ZWF := by
  have hmap : (zBump db.zsets id e s).map (fun r => (r.kid, r.elem))
      = db.zsets.map (fun r => (r.kid, r.elem)) := by
    unfold zBump
    rw [List.map_map]
    apply List.map_congr_left
    intro r _
    simp only [Function.comp]
    split <;> rfl
  refine { names := hz.names, ids := hz.ids, tyOk := hz.tyOk, strRow := hz.strRow,
           strKids := hz.strKids, zuniq := ?_, zown := ?_, zlen := ?_ }
  · show ((zBump db.zsets id e s).map _).Nodup
    rw [hmap]; exact hz.zuniq
  · intro z hzm
    obtain ⟨y, hy, rfl⟩ := List.mem_map.1 hzm
    obtain ⟨r, hr, hrid⟩ := hz.zown y hy
    refine ⟨r, hr, ?_⟩
    rw [hrid]; split <;> rfl
  · intro r hr hty
    have := hz.zlen r hr hty
    rw [this]
    show _ = some ((zCountOf (zBump db.zsets id e s) r.id : Nat) : Int)
    rw [zCountOf_zBump]; rfl

theorem zwf_zInsertNew {db : DB} (hz : db.ZWF) {id : Int} (hown : ∃ r ∈ db.keys, r.id = id)
    {e : Bytes} (hno : zHas db.zsets id e = false) (s : Score) : (zInsertNew db id e s).ZWF := by
  rw [zInsertNew_eq]
  apply zwf_rows_update hz hown
  · rw [List.map_append, List.nodup_append]
    refine ⟨hz.zuniq, by simp, ?_⟩
    intro a ha b hb
    simp only [List.map_cons, List.map_nil, List.mem_singleton] at hb
    obtain ⟨x, hx, rfl⟩ := List.mem_map.1 ha
    rw [hb]
    intro heq
    simp only [zNewRow, Prod.mk.injEq] at heq
    unfold zHas at hno
    rw [List.any_eq_false] at hno
    exact hno x hx (by simp [heq.1, heq.2])
  · intro z hzm
    rcases List.mem_append.1 hzm with h | h
    · exact Or.inl h
    · have : z = zNewRow db.zsets id e s := by simpa using h
      exact Or.inr (by rw [this]; rfl)
  · intro id' hne
    unfold zCountOf
    rw [filter_kid_append_ne]
    exact fun h => hne h.symm
  · intro o ho hid
    refine ⟨rfl, fun hty => ?_⟩
    have := hz.zlen o ho hty
    have hc := zCountOf_append_self db.zsets (zNewRow db.zsets id e s)
    have hk : (zNewRow db.zsets id e s).kid = id := rfl
    rw [hk] at hc
    rw [hc]
    show o.len.map (· + 1) = _
    rw [this, hid]
    simp [zCountOf]

theorem zwf_zSetRow {db : DB} (hz : db.ZWF) {id : Int} (hown : ∃ r ∈ db.keys, r.id = id)
    (e : Bytes) (s : Score) : (zSetRow db id e s).ZWF := by
  cases h : zHas db.zsets id e with
  | true => rw [zSetRow_hit h]; exact zwf_zBump hz id e s
  | false => rw [zSetRow_miss h]; exact zwf_zInsertNew hz hown h s

/-- the pairs under each key id after the score upsert -/
theorem mem_zSetRow {db : DB} (id : Int) (e : Bytes) (s : Score) (id' : Int) (p : Bytes × Score) :
    (∃ z ∈ (zSetRow db id e s).zsets, z.kid = id' ∧ zPair z = p) ↔
      (id' = id ∧ p = (e, s)) ∨
      (∃ z ∈ db.zsets, z.kid = id' ∧ zPair z = p ∧ ¬ (id' = id ∧ p.1 = e)) := by
  cases h : zHas db.zsets id e with
  | true =>
    rw [zSetRow_hit h]
    show (∃ z ∈ zBump db.zsets id e s, _) ↔ _
    unfold zHas at h
    obtain ⟨w, hw, hwc⟩ := List.any_eq_true.1 h
    simp only [Bool.and_eq_true, beq_iff_eq] at hwc
    constructor
    · rintro ⟨z, hzm, hk, hp⟩
      obtain ⟨y, hy, rfl⟩ := List.mem_map.1 hzm
      by_cases hc : y.kid = id ∧ y.elem = e
      · left
        simp only [hc.1, hc.2, beq_self_eq_true, Bool.and_self, if_true] at hk hp
        exact ⟨hk.symm, by rw [← hp]; simp [zPair]⟩
      · right
        have hc' : ¬ ((y.kid == id && y.elem == e) = true) := by simpa using hc
        rw [if_neg hc'] at hk hp
        refine ⟨y, hy, hk, hp, ?_⟩
        rintro ⟨h1, h2⟩
        exact hc ⟨by rw [hk, h1], by rw [← h2, ← hp]; rfl⟩
    · rintro (⟨h1, h2⟩ | ⟨z, hzm, hk, hp, hn⟩)
      · refine ⟨_, List.mem_map.2 ⟨w, hw, rfl⟩, ?_⟩
        simp only [hwc.1, hwc.2, beq_self_eq_true, Bool.and_self, if_true]
        exact ⟨h1.symm, by rw [h2]; simp [zPair]⟩
      · refine ⟨_, List.mem_map.2 ⟨z, hzm, rfl⟩, ?_⟩
        have hc' : ¬ ((z.kid == id && z.elem == e) = true) := by
          simp only [Bool.and_eq_true, beq_iff_eq]
          rintro ⟨h1, h2⟩
          exact hn ⟨by rw [← hk, h1], by rw [← hp]; exact h2⟩
        rw [if_neg hc']
        exact ⟨hk, hp⟩
  | false =>
    rw [zSetRow_miss h, zInsertNew_eq]
    show (∃ z ∈ db.zsets ++ [zNewRow db.zsets id e s], _) ↔ _
    unfold zHas at h
    rw [List.any_eq_false] at h
    constructor
    · rintro ⟨z, hzm, hk, hp⟩
      rcases List.mem_append.1 hzm with hm | hm
      · right
        refine ⟨z, hm, hk, hp, ?_⟩
        rintro ⟨h1, h2⟩
        have := h z hm
        apply this
        simp only [Bool.and_eq_true, beq_iff_eq]
        exact ⟨by rw [hk, h1], by rw [← h2, ← hp]; rfl⟩
      · left
        have : z = zNewRow db.zsets id e s := by simpa using hm
        subst this
        exact ⟨hk.symm, hp.symm⟩
    · rintro (⟨h1, h2⟩ | ⟨z, hzm, hk, hp, _⟩)
      · exact ⟨zNewRow db.zsets id e s, by simp, h1.symm, h2.symm⟩
      · exact ⟨z, List.mem_append_left _ hzm, hk, hp⟩

theorem zAssoc_zSetRow {db : DB} (hz : db.ZWF) {id : Int} (hown : ∃ r ∈ db.keys, r.id = id)
    (e : Bytes) (s : Score) :
    zAssoc (zSetRow db id e s) id = aput (zAssoc db id) e s := by
  have hz' := zwf_zSetRow hz hown e s
  have hso := sorted_zAssoc hz.zuniq id
  apply sorted_mem_ext (sorted_zAssoc hz'.zuniq id) (hso.aput e s)
  intro p
  rw [mem_zAssoc, mem_zSetRow, mem_aput_iff hso, mem_zAssoc]
  constructor
  · rintro (⟨_, h⟩ | ⟨z, hzm, hk, hp, hn⟩)
    · exact Or.inl h
    · exact Or.inr ⟨⟨z, hzm, hk, hp⟩, fun he => hn ⟨rfl, he⟩⟩
  · rintro (h | ⟨⟨z, hzm, hk, hp⟩, hn⟩)
    · exact Or.inl ⟨rfl, h⟩
    · exact Or.inr ⟨z, hzm, hk, hp, fun hc => hn hc.2⟩

theorem filter_kid_zSetRow (db : DB) (id : Int) (e : Bytes) (s : Score) {id' : Int} (hne : id' ≠ id) :
    (zSetRow db id e s).zsets.filter (fun z => z.kid == id')
      = db.zsets.filter (fun z => z.kid == id') := by
  cases h : zHas db.zsets id e with
  | true => rw [zSetRow_hit h]; exact filter_kid_zBump db.zsets id e s hne
  | false =>
    rw [zSetRow_miss h, zInsertNew_eq]
    exact filter_kid_append_ne db.zsets _ (fun h => hne h.symm)

theorem meta_zSetRow (db : DB) (id : Int) (e : Bytes) (s : Score) :
    (zSetRow db id e s).keys.map metaOf = db.keys.map metaOf := by
  cases h : zHas db.zsets id e with
  | true => rw [zSetRow_hit h]
  | false =>
    rw [zSetRow_miss h, zInsertNew_eq]
    exact updKey_meta (db := { db with zsets := _ }) (fun _ _ _ => rfl)

theorem sameButZ_zSetRow (db : DB) (id : Int) (e : Bytes) (s : Score) :
    SameButZ db (zSetRow db id e s) := by
  cases h : zHas db.zsets id e with
  | true => rw [zSetRow_hit h]; exact ⟨rfl, rfl, rfl, rfl⟩
  | false => rw [zSetRow_miss h, zInsertNew_eq]; exact ⟨rfl, rfl, rfl, rfl⟩

/-- what the score upsert does to the keyspace: the member `e` of the sorted set `r` now has score
`s`, nothing else moved -/
theorem abs_zSetRow {db : DB} (hz : db.ZWF) {r : KeyRow} (hr : r ∈ db.keys) (hty : r.ty = TZSet)
    (e : Bytes) (s : Score) (now : Int) :
    abs now (zSetRow db r.id e s)
      = purge now (put (abs now db) r.key ⟨.zset (aput (zAssoc db r.id) e s), r.etime⟩) := by
  rw [abs_zrows hz hr hty (meta_zSetRow db r.id e s) (sameButZ_zSetRow db r.id e s)
    (fun id' hne => filter_kid_zSetRow db r.id e s hne) now,
    zAssoc_zSetRow hz ⟨r, hr, rfl⟩]

/-! ### what is stored under a name -/

/-- The four things a name can be at `now`, each with what the guarded lookup of `rzset` and the
abstraction make of it. -/
inductive ZHolder (now : Int) (db : DB) (k : Bytes) : Prop
  | absent (h : db.findKey k = none) (hg : Spec.get (abs now db) k = none)
      (hl : db.liveKeyT k TZSet now = none)
  | stale (r : KeyRow) (h : db.findKey k = some r) (hlv : r.live now = false)
      (hg : Spec.get (abs now db) k = none) (hl : db.liveKeyT k TZSet now = none)
  | zset (r : KeyRow) (h : db.findKey k = some r) (hlv : r.live now = true) (ht : r.ty = TZSet)
      (hg : Spec.get (abs now db) k = some ⟨.zset (zAssoc db r.id), r.etime⟩)
      (hl : db.liveKeyT k TZSet now = some r)
  | other (r : KeyRow) (v : SVal) (h : db.findKey k = some r) (hlv : r.live now = true)
      (ht : r.ty ≠ TZSet) (hg : Spec.get (abs now db) k = some ⟨v, r.etime⟩)
      (hv : ∀ z, v ≠ .zset z) (hl : db.liveKeyT k TZSet now = none)

theorem zholder {db : DB} (hw : db.WF) (now : Int) (k : Bytes) : ZHolder now db k := by
  have hga := get_abs hw.names now k
  have hla := liveKeyT_eq hw.names k TZSet now
  cases hf : db.findKey k with
  | none =>
    rw [hf] at hga hla
    exact .absent hf hga hla
  | some r =>
    rw [hf] at hga hla
    obtain ⟨hm, _⟩ := findKey_mem hf
    cases hlv : r.live now with
    | false =>
      refine .stale r hf hlv ?_ ?_
      · rw [hga]; simp [rowEntry, hlv]
      · rw [hla]; simp [Option.filter, hlv]
    | true =>
      by_cases ht : r.ty = TZSet
      · refine .zset r hf hlv ht ?_ ?_
        · rw [hga]; simp [rowEntry, hlv, absVal_zset ht]
        · rw [hla]; simp [Option.filter, hlv, ht]
      · have hl : db.liveKeyT k TZSet now = none := by
          rw [hla]; simp [Option.filter, ht]
        by_cases hs : r.ty = TString
        · obtain ⟨s, hs', hk⟩ := hw.strRow r hm hs
          cases hfs : db.strs.find? (fun s => s.kid == r.id) with
          | none =>
            rw [List.find?_eq_none] at hfs
            exact absurd (by simp [hk]) (hfs s hs')
          | some s' =>
            refine .other r (.str s'.value) hf hlv ht ?_ (fun _ h => by cases h) hl
            rw [hga]; simp [rowEntry, hlv, absVal_str hs, hfs]
        · have : r.ty = 2 ∨ r.ty = 3 ∨ r.ty = 4 := by
            have := hw.tyOk r hm
            simp only [TString, TZSet] at hs ht
            omega
          rcases this with h | h | h
          · refine .other r (.list ((listRows db r.id).map (·.elem))) hf hlv ht ?_
              (fun _ h => by cases h) hl
            rw [hga]; simp [rowEntry, hlv, absVal, h, TString, TList]
          · refine .other r (.set ((setRows db r.id).map (·.elem))) hf hlv ht ?_
              (fun _ h => by cases h) hl
            rw [hga]; simp [rowEntry, hlv, absVal, h, TString, TList, TSet]
          · refine .other r (.hash ((hashRows db r.id).map (fun h => (h.field, h.value)))) hf hlv ht ?_
              (fun _ h => by cases h) hl
            rw [hga]; simp [rowEntry, hlv, absVal, h, TString, TList, TSet, THash]

theorem not_stale {now : Int} {db : DB} {k : Bytes} {r : KeyRow}
    (hns : staleKey db now k = false) (h : db.findKey k = some r) (hl : r.live now = false) : False := by
  simp [staleKey, h, hl] at hns

theorem put_get_self {s : State} (hs : Sorted s) {k : Bytes} {e : Entry}
    (h : Spec.get s k = some e) : put s k e = s := by
  apply sorted_ext (hs.put k e) hs
  intro k'
  have h1 := get_put s k e k'
  unfold Spec.get at h1 h
  rw [h1]
  by_cases hk : k = k'
  · subst hk; simp [h]
  · simp [hk]

/-! ### key upsert followed by score upserts -/

/-- After `sqlAdd1` on a name that is free or a live sorted set: the tables `db1`, the key row
`r`, and what any following score upsert under `r` does. `z`, `et` are the member-to-score map
and the expiry the name had before (`[]`, `none` for a free name). -/
structure Upserted (now : Int) (db : DB) (k : Bytes) (z : List (Bytes × Score)) (et : Option Int)
    (db1 : DB) (r : KeyRow) : Prop where
  key : zAddKey db k now = .ok (db1, r)
  live : liveAt now et = true
  wf1 : db1.ZWF
  mem : r ∈ db1.keys
  ty : r.ty = TZSet
  rkey : r.key = k
  retime : r.etime = et
  assoc : zAssoc db1 r.id = z
  base : abs now db1 = put (abs now db) k ⟨.zset z, et⟩
  look : ∀ e, (zFind db1 r.id e).map (·.score) = aget z e
  wf : ∀ e s, (zSetRow db1 r.id e s).ZWF
  eff : ∀ e s, abs now (zSetRow db1 r.id e s) = put (abs now db) k ⟨.zset (aput z e s), et⟩

theorem upsert_absent {db : DB} (hz : db.ZWF) {now : Int} {k : Bytes} (h : db.findKey k = none) :
    ∃ db1 r, Upserted now db k [] none db1 r := by
  let r0 := zNewKey k now db.nextKeyId
  let db1 : DB := { db with keys := db.keys ++ [r0] }
  have hz1 : db1.ZWF := zwf_append_key hz h now
  have hr0 : r0 ∈ db1.keys := List.mem_append_right _ (by simp)
  have hnil : db1.zsets.filter (fun z => z.kid == r0.id) = [] := zKidRows_fresh hz
  have hA : zAssoc db1 r0.id = [] := zAssoc_of_filter_nil hnil
  refine ⟨db1, r0, zAddKey_new h now, rfl, hz1, hr0, rfl, rfl, rfl, hA, abs_append_key hz h now, ?_,
    fun e s => zwf_zSetRow hz1 ⟨r0, hr0, rfl⟩ e s, ?_⟩
  · intro e
    rw [← aget_zAssoc hz1.zuniq, hA]
  · intro e s
    have hput := purge_put_live (sorted_abs hz.names now) (purge_abs hz.names now) k
      (e := ⟨.zset (aput [] e s), none⟩) rfl
    rw [abs_zSetRow hz1 hr0 rfl e s now, hA, abs_append_key hz h now]
    show purge now (put (put (abs now db) k _) k _) = _
    rw [put_put _ (sorted_abs hz.names now)]
    exact hput

theorem upsert_zset {db : DB} (hz : db.ZWF) {now : Int} {k : Bytes} {old : KeyRow}
    (h : db.findKey k = some old) (ht : old.ty = TZSet) (hlv : old.live now = true) :
    ∃ db1 r, Upserted now db k (zAssoc db old.id) old.etime db1 r := by
  obtain ⟨ho, hok⟩ := findKey_mem h
  let r1 := zOldKey now old
  let db1 : DB := db.updKey old.id (fun _ => r1)
  have hz1 : db1.ZWF := zwf_upsert_old hz ho now
  have hr1 : r1 ∈ db1.keys := mem_upsert_old ho now
  have hty1 : r1.ty = TZSet := ht
  have hg : Spec.get (abs now db) k = some ⟨.zset (zAssoc db old.id), old.etime⟩ := by
    rw [get_abs hz.names, h]; simp [rowEntry, hlv, absVal_zset ht]
  refine ⟨db1, r1, ?_, hlv, hz1, hr1, hty1, hok, rfl, rfl, ?_, ?_,
    fun e s => zwf_zSetRow hz1 ⟨r1, hr1, rfl⟩ e s, ?_⟩
  · rw [zAddKey_eq, keyUpsert_old h ht]
  · rw [abs_upsert_old hz ho now]
    exact (put_get_self (sorted_abs hz.names now) hg).symm
  · intro e
    exact (aget_zAssoc hz.zuniq old.id e).symm
  · intro e s
    have hlive : liveAt now old.etime = true := hlv
    have hput := purge_put_live (sorted_abs hz.names now) (purge_abs hz.names now) k
      (e := ⟨.zset (aput (zAssoc db old.id) e s), old.etime⟩) hlive
    rw [abs_zSetRow hz1 hr1 hty1 e s now, abs_upsert_old hz ho now]
    show purge now (put (abs now db) old.key ⟨.zset (aput (zAssoc db old.id) e s), old.etime⟩) = _
    rw [hok]
    exact hput

theorem upsert_other {db : DB} {now : Int} {k : Bytes} {old : KeyRow}
    (h : db.findKey k = some old) (ht : old.ty ≠ TZSet) : zAddKey db k now = .error .keyType := by
  rw [zAddKey_eq, keyUpsert_other h ht]

/-- the three outcomes of `sqlAdd1`, keyed on what the keyspace shows under the name -/
theorem upsert_cases {db : DB} (hz : db.ZWF) {now : Int} {k : Bytes}
    (hns : staleKey db now k = false) :
    (Spec.get (abs now db) k = none ∧ ∃ db1 r, Upserted now db k [] none db1 r) ∨
    (∃ z et, Spec.get (abs now db) k = some ⟨.zset z, et⟩ ∧ ∃ db1 r, Upserted now db k z et db1 r) ∨
    (∃ v et, Spec.get (abs now db) k = some ⟨v, et⟩ ∧ (∀ z, v ≠ .zset z) ∧
      zAddKey db k now = .error .keyType) := by
  rcases zholder hz.toWF now k with ⟨h, hg, _⟩ | ⟨_, h, hlv, _, _⟩ | ⟨r, h, hlv, ht, hg, _⟩ |
    ⟨r, v, h, _, ht, hg, hv, _⟩
  · exact Or.inl ⟨hg, upsert_absent hz h⟩
  · exact (not_stale hns h hlv).elim
  · exact Or.inr (Or.inl ⟨_, _, hg, upsert_zset hz h ht hlv⟩)
  · exact Or.inr (Or.inr ⟨v, _, hg, hv, upsert_other h ht⟩)

theorem zAddTx_of_upserted {now : Int} {db : DB} {k : Bytes} {z : List (Bytes × Score)}
    {et : Option Int} {db1 : DB} {r : KeyRow} (hu : Upserted now db k z et db1 r) (e : Bytes) (s : Score) :
    zAddTx db k e s now = .ok (zSetRow db1 r.id e s) := by
  simp [zAddTx, hu.key]

/-! ### counting -/

theorem length_filter_add_not {α : Type} (q : α → Bool) : ∀ (l : List α),
    (l.filter q).length + (l.filter (fun x => !q x)).length = l.length
  | [] => rfl
  | x :: l => by
    have ih := length_filter_add_not q l
    rw [List.filter_cons, List.filter_cons]
    cases q x <;> simp <;> omega

/-- two duplicate-free lists: as many of the first occur in the second as of the second in the
first -/
theorem inter_count : ∀ (A B : List Bytes), A.Nodup → B.Nodup →
    (B.filter (fun b => A.contains b)).length = (A.filter (fun a => B.contains a)).length
  | [], B, _, _ => by simp
  | a :: A, B, hA, hB => by
    have hA' := List.nodup_cons.1 hA
    have ih := inter_count A B hA'.2 hB
    have key : ∀ (B : List Bytes), B.Nodup →
        (B.filter (fun b => (a :: A).contains b)).length
          = (if B.contains a then 1 else 0) + (B.filter (fun b => A.contains b)).length := by
      intro B
      induction B with
      | nil => intro _; simp
      | cons b B ihB =>
        intro hB
        have hB' := List.nodup_cons.1 hB
        have ih' := ihB hB'.2
        rw [List.filter_cons, List.filter_cons]
        by_cases hba : b = a
        · subst hba
          have h1 : (b :: A).contains b = true := by simp
          have h2 : A.contains b = false := by simpa using hA'.1
          have h3 : B.contains b = false := by simpa using hB'.1
          have h4 : (b :: B).contains b = true := by simp
          rw [h3] at ih'
          simp only [h1, h2, h4, if_true, Bool.false_eq_true, if_false, List.length_cons]
          simp only [Bool.false_eq_true, if_false] at ih'
          omega
        · have h1 : (a :: A).contains b = A.contains b := by
            simp [hba]
          have h4 : (b :: B).contains a = B.contains a := by
            have : ¬ a = b := fun h => hba h.symm
            simp [this]
          rw [h1, h4]
          cases hc : A.contains b <;>
            simp only [if_true, if_false, Bool.false_eq_true, List.length_cons] <;> omega
    rw [key B hB, ih, List.filter_cons]
    cases h : B.contains a <;>
      simp only [if_true, if_false, Bool.false_eq_true, List.length_cons] <;> omega

theorem aget_isSome_eq {β : Type} (z : List (Bytes × β)) (x : Bytes) :
    (aget z x).isSome = (z.map (·.1)).contains x := by
  unfold aget
  rw [Option.isSome_map, Bool.eq_iff_iff, List.find?_isSome, List.contains_iff_mem, List.mem_map]
  constructor
  · rintro ⟨p, hp, h⟩; exact ⟨p, hp, by simpa using h⟩
  · rintro ⟨p, hp, h⟩; exact ⟨p, hp, by simpa using h⟩

/-- `len(items) - count` is the number of new members, for an item list without repeated members -/
theorem count_created {z : List (Bytes × Score)} (hs : Sorted z) {items : List (Bytes × Score)}
    (hnd : (items.map (·.1)).Nodup) :
    (items.length : Int) - ((z.filter (fun p => (items.map (·.1)).contains p.1)).length : Int)
      = ((items.filter (fun p => (aget z p.1).isNone)).length : Int) := by
  have h1 := length_filter_add_not (fun p : Bytes × Score => (aget z p.1).isNone) items
  have h2 : (items.filter (fun p => !(aget z p.1).isNone)).length
      = ((items.map (·.1)).filter (fun a => (z.map (·.1)).contains a)).length := by
    rw [List.filter_map, List.length_map]
    congr 2
    funext p
    simp only [Function.comp, ← aget_isSome_eq]
    cases aget z p.1 <;> rfl
  have h3 : (z.filter (fun p => (items.map (·.1)).contains p.1)).length
      = ((z.map (·.1)).filter (fun b => (items.map (·.1)).contains b)).length := by
    rw [List.filter_map, List.length_map]; rfl
  have h4 := inter_count (items.map (·.1)) (z.map (·.1)) hnd hs.nodup_keys
  omega

theorem zCountElems_eq {db : DB} (hz : db.ZWF) (now : Int) (k : Bytes) (es : List Bytes) :
    zCountElems db k es now
      = (((zsetAt (abs now db) k).filter (fun p => es.contains p.1)).length : Int) := by
  unfold zCountElems
  have h1 : ((zLiveRows db k now).filter (fun x => es.contains x.elem)).length
      = (((zLiveRows db k now).map zPair).filter (fun p => es.contains p.1)).length := by
    rw [← filter_proj, List.length_map]; rfl
  rw [h1, zLiveRows_proj hz]
  have := ((perm_sortBy Spec.zLt (zsetAt (abs now db) k)).filter (fun p => es.contains p.1)).length_eq
  unfold zsorted
  rw [this]

theorem zsetAt_of_get {s : State} {k : Bytes} {z : List (Bytes × Score)} {et : Option Int}
    (h : Spec.get s k = some ⟨.zset z, et⟩) : zsetAt s k = z := by
  unfold zsetAt; rw [h]

theorem zsetAt_of_get_none {s : State} {k : Bytes} (h : Spec.get s k = none) : zsetAt s k = [] := by
  unfold zsetAt; rw [h]

/-! ### `Add`, `Incr`, `AddMany` -/

theorem refines_put {db d : DB} (hw : db.WF) {now : Int} {o : Out} {k : Bytes} {e : Entry}
    (hl : liveAt now e.etime = true) (ha : abs now d = put (abs now db) k e) :
    Refines now ⟨o, d⟩ ⟨o, put (abs now db) k e⟩ :=
  ⟨rfl, by
    show abs now d = purge now (put (abs now db) k e)
    rw [purge_put_live (sorted_abs hw.names now) (purge_abs hw.names now) k hl]; exact ha⟩

theorem refines_same {db : DB} (hw : db.WF) {now : Int} (o : Out) :
    Refines now ⟨o, db⟩ ⟨o, abs now db⟩ :=
  ⟨rfl, (purge_abs hw.names now).symm⟩

theorem count_one_eq {z : List (Bytes × Score)} (e : Bytes) :
    ((((z.filter (fun p => [e].contains p.1)).length : Nat) : Int) == 0) = (aget z e).isNone := by
  rw [Bool.eq_iff_iff]
  simp only [beq_iff_eq, Option.isNone_iff_eq_none, aget_eq_none_iff]
  constructor
  · intro h p hp hpe
    have h0 : (z.filter (fun p => [e].contains p.1)).length = 0 := by omega
    have := List.eq_nil_of_length_eq_zero h0
    rw [List.filter_eq_nil_iff] at this
    exact this p hp (by simp [hpe])
  · intro h
    have : z.filter (fun p => [e].contains p.1) = [] := by
      rw [List.filter_eq_nil_iff]
      intro p hp hc
      exact h p hp (by simpa using hc)
    rw [this]; rfl

theorem zAdd_refines {db : DB} (hz : db.ZWF) {now : Int} {k : Bytes}
    (hns : staleKey db now k = false) (e : Bytes) (s : Score) :
    Refines now (update (fun d => Model.zAdd d k e s now) db) (Spec.zAdd (abs now db) k e s) := by
  have hc := zCountElems_eq hz now k [e]
  rcases upsert_cases hz hns with ⟨hg, db1, r, hu⟩ | ⟨z, et, hg, db1, r, hu⟩ | ⟨v, et, hg, hv, hk⟩
  · have hm : update (fun d => Model.zAdd d k e s now) db = ⟨.ok (.bool true), zSetRow db1 r.id e s⟩ := by
      rw [zsetAt_of_get_none hg] at hc
      simp [update, Model.zAdd, zAddTx_of_upserted hu, hc, Res.ok]
    rw [hm]
    simp only [Spec.zAdd, hg, Spec.ok]
    exact refines_put hz.toWF hu.live (hu.eff e s)
  · have hm : update (fun d => Model.zAdd d k e s now) db
        = ⟨.ok (.bool (aget z e).isNone), zSetRow db1 r.id e s⟩ := by
      rw [zsetAt_of_get hg] at hc
      have hc' : (zCountElems db k [e] now == 0) = (aget z e).isNone := by
        rw [hc]; exact count_one_eq e
      simp [update, Model.zAdd, zAddTx_of_upserted hu, hc', Res.ok]
    rw [hm]
    simp only [Spec.zAdd, hg, Spec.ok]
    exact refines_put hz.toWF hu.live (hu.eff e s)
  · have hm : update (fun d => Model.zAdd d k e s now) db = ⟨.error .keyType, db⟩ := by
      simp [update, Model.zAdd, zAddTx, hk, Res.err]
    rw [hm]
    cases v <;> first | exact absurd rfl (hv _) |
      (simp only [Spec.zAdd, hg, Spec.er]; exact refines_same hz.toWF _)

theorem zIncr_model {now : Int} {db : DB} {k : Bytes} {z : List (Bytes × Score)}
    {et : Option Int} {db1 : DB} {r : KeyRow} (hu : Upserted now db k z et db1 r) (e : Bytes) (d : Score) :
    Model.zIncr db k e d now =
      match aget z e with
      | none => .ok (.score d) (zSetRow db1 r.id e d)
      | some old =>
        match scoreAdd old d with
        | none => .err .sqlNotNull db1
        | some s => .ok (.score s) (zSetRow db1 r.id e s) := by
  have hl := hu.look e
  unfold Model.zIncr
  rw [hu.key]
  show (match zFind db1 r.id e with | none => _ | some row => _) = _
  cases hf : zFind db1 r.id e with
  | none =>
    rw [hf] at hl
    rw [← hl]
    have : zHas db1.zsets r.id e = false := by rw [zHas_iff_zFind, hf]; rfl
    simp only [Option.map_none]
    rw [zSetRow_miss this]
  | some row =>
    rw [hf] at hl
    rw [← hl]
    rfl

theorem zIncr_refines {db : DB} (hz : db.ZWF) {now : Int} {k : Bytes}
    (hns : staleKey db now k = false) (e : Bytes) (d : Score)
    (hnan : ∀ old, aget (zsetAt (abs now db) k) e = some old → Score.add old d ≠ none) :
    Refines now (update (fun x => Model.zIncr x k e d now) db) (Spec.zIncr (abs now db) k e d) := by
  rcases upsert_cases hz hns with ⟨hg, db1, r, hu⟩ | ⟨z, et, hg, db1, r, hu⟩ | ⟨v, et, hg, hv, hk⟩
  · have hm : update (fun x => Model.zIncr x k e d now) db = ⟨.ok (.score d), zSetRow db1 r.id e d⟩ := by
      simp [update, zIncr_model hu, aget_nil, Res.ok]
    rw [hm]
    simp only [Spec.zIncr, hg, Spec.ok]
    exact refines_put hz.toWF hu.live (hu.eff e d)
  · rw [zsetAt_of_get hg] at hnan
    cases ha : aget z e with
    | none =>
      have hm : update (fun x => Model.zIncr x k e d now) db = ⟨.ok (.score d), zSetRow db1 r.id e d⟩ := by
        simp [update, zIncr_model hu, ha, Res.ok]
      rw [hm]
      simp only [Spec.zIncr, hg, ha, Spec.ok]
      exact refines_put hz.toWF hu.live (hu.eff e d)
    | some old =>
      have hne := hnan old ha
      cases hadd : Score.add old d with
      | none => exact absurd hadd hne
      | some t =>
        cases t with
        | fin x =>
          have hm : update (fun x => Model.zIncr x k e d now) db
              = ⟨.ok (.score (.fin (round53 x))), zSetRow db1 r.id e (.fin (round53 x))⟩ := by
            simp [update, zIncr_model hu, ha, scoreAdd, hadd, Res.ok]
          rw [hm]
          simp only [Spec.zIncr, hg, ha, hadd, Spec.ok]
          exact refines_put hz.toWF hu.live (hu.eff e _)
        | negInf =>
          have hm : update (fun x => Model.zIncr x k e d now) db
              = ⟨.ok (.score .negInf), zSetRow db1 r.id e .negInf⟩ := by
            simp [update, zIncr_model hu, ha, scoreAdd, hadd, Res.ok]
          rw [hm]
          simp only [Spec.zIncr, hg, ha, hadd, Spec.ok]
          exact refines_put hz.toWF hu.live (hu.eff e _)
        | posInf =>
          have hm : update (fun x => Model.zIncr x k e d now) db
              = ⟨.ok (.score .posInf), zSetRow db1 r.id e .posInf⟩ := by
            simp [update, zIncr_model hu, ha, scoreAdd, hadd, Res.ok]
          rw [hm]
          simp only [Spec.zIncr, hg, ha, hadd, Spec.ok]
          exact refines_put hz.toWF hu.live (hu.eff e _)
  · have hm : update (fun x => Model.zIncr x k e d now) db = ⟨.error .keyType, db⟩ := by
      simp [update, Model.zIncr, hk, Res.err]
    rw [hm]
    cases v <;> first | exact absurd rfl (hv _) |
      (simp only [Spec.zIncr, hg, Spec.er]; exact refines_same hz.toWF _)

theorem zAddManyLoop_ok (now : Int) (k : Bytes) : ∀ (items : List (Bytes × Score)) (db : DB), db.ZWF →
    ∀ z et, Spec.get (abs now db) k = some ⟨.zset z, et⟩ →
    ∃ db', zAddManyLoop db k now items = (.ok db', db') ∧ db'.ZWF ∧
      abs now db' = put (abs now db) k ⟨.zset (items.foldl (fun acc p => aput acc p.1 p.2) z), et⟩
  | [], db, hz, z, et, hg => ⟨db, rfl, hz, (put_get_self (sorted_abs hz.names now) hg).symm⟩
  | (e, s) :: rest, db, hz, z, et, hg => by
    have hns := (get_abs_live hz.toWF hg).2
    rcases upsert_cases hz hns with ⟨hg', _⟩ | ⟨z', et', hg', db1, r, hu⟩ | ⟨v, et', hg', hv, _⟩
    · rw [hg] at hg'; cases hg'
    · rw [hg] at hg'; cases hg'
      have hz2 := hu.wf e s
      have ha2 := hu.eff e s
      have hg2 : Spec.get (abs now (zSetRow db1 r.id e s)) k = some ⟨.zset (aput z e s), et⟩ := by
        rw [ha2, get_put_self]
      obtain ⟨db', hl, hz', ha'⟩ := zAddManyLoop_ok now k rest _ hz2 _ _ hg2
      refine ⟨db', ?_, hz', ?_⟩
      · simp [zAddManyLoop, zAddTx_of_upserted hu, hl]
      · rw [ha', ha2, put_put _ (sorted_abs hz.names now)]; rfl
    · rw [hg] at hg'; cases hg'; exact absurd rfl (hv _)

theorem zAddMany_refines {db : DB} (hz : db.ZWF) {now : Int} {k : Bytes}
    (hns : staleKey db now k = false) (items : List (Bytes × Score))
    (hnd : (items.map (·.1)).Nodup) :
    Refines now (update (fun d => Model.zAddMany d k items now) db)
      (Spec.zAddMany (abs now db) k items) := by
  have hc := zCountElems_eq hz now k (items.map (·.1))
  cases items with
  | nil =>
    have hc0 : zCountElems db k [] now = 0 := by rw [zCountElems_eq hz]; simp
    have hm : update (fun d => Model.zAddMany d k [] now) db = ⟨.ok (.int 0), db⟩ := by
      simp [update, Model.zAddMany, zAddManyLoop, hc0, Res.ok]
    rw [hm]
    exact refines_same hz.toWF _
  | cons it rest =>
    obtain ⟨e, s⟩ := it
    have hne : ((e, s) :: rest).isEmpty = false := rfl
    rcases upsert_cases hz hns with ⟨hg, db1, r, hu⟩ | ⟨z, et, hg, db1, r, hu⟩ | ⟨v, et, hg, hv, hk⟩
    · have ha2 := hu.eff e s
      have hg2 : Spec.get (abs now (zSetRow db1 r.id e s)) k = some ⟨.zset (aput [] e s), none⟩ := by
        rw [ha2, get_put_self]
      obtain ⟨db', hl, _, ha'⟩ := zAddManyLoop_ok now k rest _ (hu.wf e s) _ _ hg2
      rw [zsetAt_of_get_none hg] at hc
      have hc1 : zCountElems db k (List.map (fun x => x.fst) ((e, s) :: rest)) now = 0 := by
        rw [hc]; rfl
      have hm : update (fun d => Model.zAddMany d k ((e, s) :: rest) now) db
          = ⟨.ok (.int (((e, s) :: rest).length : Nat)), db'⟩ := by
        simp only [update, Model.zAddMany, zAddManyLoop, zAddTx_of_upserted hu, hl, hc1, Res.ok]
        simp
      rw [hm]
      simp only [Spec.zAddMany, hne, Bool.false_eq_true, if_false, hg, Spec.ok]
      apply refines_put hz.toWF (e := ⟨.zset _, none⟩) rfl
      rw [ha', ha2, put_put _ (sorted_abs hz.names now)]
      rfl
    · obtain ⟨db', hl, _, ha'⟩ := zAddManyLoop_ok now k ((e, s) :: rest) db hz z et hg
      rw [zsetAt_of_get hg] at hc
      have hs : Sorted z := by
        have := sorted_zsetAt_abs hz now k
        rwa [zsetAt_of_get hg] at this
      have hcc := count_created hs hnd
      have hm : update (fun d => Model.zAddMany d k ((e, s) :: rest) now) db
          = ⟨.ok (.int ((((e, s) :: rest).filter (fun p => (aget z p.1).isNone)).length : Nat)), db'⟩ := by
        simp only [update, Model.zAddMany, hl, hc, Res.ok]
        rw [hcc]
      rw [hm]
      simp only [Spec.zAddMany, hne, Bool.false_eq_true, if_false, hg, Spec.ok]
      exact refines_put hz.toWF (e := ⟨.zset _, et⟩) hu.live ha'
    · have hm : update (fun d => Model.zAddMany d k ((e, s) :: rest) now) db = ⟨.error .keyType, db⟩ := by
        simp [update, Model.zAddMany, zAddManyLoop, zAddTx, hk, Res.err]
      rw [hm]
      cases v <;> first | exact absurd rfl (hv _) |
        (simp only [Spec.zAddMany, hne, Bool.false_eq_true, if_false, hg, Spec.er]
         exact refines_same hz.toWF _)

/-! ### deletion -/

def delUpd (n now : Int) (o : KeyRow) : KeyRow :=
  { o with version := o.version + 1, mtime := now, len := o.len.map (· - n) }

/-- the rows `delete from rzset where kid = ? and elem in (…)` removes -/
def zVictim (id : Int) (victims : List Bytes) (x : ZRow) : Bool := x.kid == id && victims.contains x.elem

theorem zDeleteWhere_some {db : DB} {k : Bytes} {now : Int} {r : KeyRow}
    (hl : db.liveKeyT k TZSet now = some r) (victims : List Bytes) :
    zDeleteWhere db k victims now =
      if (((db.zsets.filter (zVictim r.id victims)).length : Nat) : Int) == 0 then .ok (.int 0) db
      else .ok (.int ((db.zsets.filter (zVictim r.id victims)).length : Nat))
        ((({ db with zsets := db.zsets.filter (fun x => !zVictim r.id victims x) } : DB)).updKey r.id
          (delUpd ((db.zsets.filter (zVictim r.id victims)).length : Nat) now)) := by
  have hl' : ∀ zs, ({ db with zsets := zs } : DB).liveKeyT k TZSet now = some r := fun _ => hl
  simp only [zDeleteWhere, hl, zUpdKeyAfterDelete, hl']
  rfl

theorem zDeleteWhere_none {db : DB} {k : Bytes} {now : Int}
    (hl : db.liveKeyT k TZSet now = none) (victims : List Bytes) :
    zDeleteWhere db k victims now = .ok (.int 0) db := by
  simp only [zDeleteWhere, hl]

theorem zCount_split (zs : List ZRow) (id : Int) (victims : List Bytes) :
    zCountOf zs id = (zs.filter (zVictim id victims)).length
      + zCountOf (zs.filter (fun x => !zVictim id victims x)) id := by
  have h := length_filter_add_not (fun x : ZRow => victims.contains x.elem)
    (zs.filter (fun z => z.kid == id))
  unfold zCountOf
  rw [List.filter_filter, List.filter_filter] at h
  rw [List.filter_filter, ← h]
  congr 2
  · congr 1
    funext x
    simp only [zVictim]
    rw [Bool.and_comm]
  · congr 1
    funext x
    simp only [zVictim]
    cases x.kid == id <;> simp

theorem filter_kid_delete (zs : List ZRow) (id : Int) (victims : List Bytes) {id' : Int}
    (hne : id' ≠ id) :
    (zs.filter (fun x => !zVictim id victims x)).filter (fun z => z.kid == id')
      = zs.filter (fun z => z.kid == id') := by
  rw [List.filter_filter]
  apply List.filter_congr
  intro x _
  by_cases hk : x.kid = id'
  · have : ¬ x.kid = id := fun h => hne (by rw [← hk, h])
    simp [zVictim, hk]
    exact Or.inl hne
  · simp [hk]

theorem zwf_delete {db : DB} (hz : db.ZWF) {r : KeyRow} (hr : r ∈ db.keys) (victims : List Bytes)
    (now : Int) :
    ((({ db with zsets := db.zsets.filter (fun x => !zVictim r.id victims x) } : DB)).updKey r.id
      (delUpd ((db.zsets.filter (zVictim r.id victims)).length : Nat) now)).ZWF := by
  apply zwf_rows_update hz ⟨r, hr, rfl⟩
  · exact List.Nodup.sublist (List.Sublist.map _ List.filter_sublist) hz.zuniq
  · intro z hzm; exact Or.inl (List.mem_filter.1 hzm).1
  · intro id' hne
    unfold zCountOf
    rw [filter_kid_delete db.zsets r.id victims hne]
  · intro o ho hid
    refine ⟨rfl, fun hty => ?_⟩
    have h1 := hz.zlen o ho hty
    have h2 := zCount_split db.zsets r.id victims
    show o.len.map (· - _) = _
    rw [h1, hid]
    simp only [Option.map_some, Option.some.injEq]
    unfold zCountOf at h2 ⊢
    omega

theorem zAssoc_delete {db : DB} (hz : db.ZWF) (r : KeyRow) (victims : List Bytes)
    (f : KeyRow → KeyRow) :
    zAssoc ((({ db with zsets := db.zsets.filter (fun x => !zVictim r.id victims x) } : DB)).updKey r.id f)
        r.id
      = (zAssoc db r.id).filter (fun p => !victims.contains p.1) := by
  have hu' : ((db.zsets.filter (fun x => !zVictim r.id victims x)).map (fun r => (r.kid, r.elem))).Nodup :=
    List.Nodup.sublist (List.Sublist.map _ List.filter_sublist) hz.zuniq
  apply sorted_mem_ext
    (sorted_zAssoc (db := (({ db with zsets := db.zsets.filter (fun x => !zVictim r.id victims x) } : DB)).updKey r.id f)
      hu' r.id)
    ((sorted_zAssoc hz.zuniq r.id).filter _)
  intro p
  rw [mem_zAssoc, List.mem_filter, mem_zAssoc]
  show (∃ z ∈ db.zsets.filter (fun x => !zVictim r.id victims x), _) ↔ _
  constructor
  · rintro ⟨z, hzm, hk, hp⟩
    obtain ⟨h1, h2⟩ := List.mem_filter.1 hzm
    refine ⟨⟨z, h1, hk, hp⟩, ?_⟩
    rw [← hp]
    simpa [zVictim, hk, zPair] using h2
  · rintro ⟨⟨z, h1, hk, hp⟩, h2⟩
    refine ⟨z, List.mem_filter.2 ⟨h1, ?_⟩, hk, hp⟩
    rw [← hp] at h2
    simpa [zVictim, hk, zPair] using h2

theorem zDeleteWhere_refines {db : DB} (hz : db.ZWF) (now : Int) (k : Bytes) (victims : List Bytes) :
    Refines now (zDeleteWhere db k victims now) (Spec.zRemove (abs now db) k victims) := by
  rcases zholder hz.toWF now k with ⟨_, hg, hl⟩ | ⟨_, _, _, hg, hl⟩ | ⟨r, h, _, ht, hg, hl⟩ |
    ⟨r, v, _, _, _, hg, hv, hl⟩
  · rw [zDeleteWhere_none hl]
    simp only [Spec.zRemove, hg, Spec.ok]
    exact refines_same hz.toWF _
  · rw [zDeleteWhere_none hl]
    simp only [Spec.zRemove, hg, Spec.ok]
    exact refines_same hz.toWF _
  · obtain ⟨hr, hrk⟩ := findKey_mem h
    rw [zDeleteWhere_some hl]
    have hsplit := zCount_split db.zsets r.id victims
    have hA := zAssoc_delete hz r victims
      (delUpd ((db.zsets.filter (zVictim r.id victims)).length : Nat) now)
    have hlen1 := length_zAssoc db r.id
    have hlen2 : ((zAssoc db r.id).filter (fun p => !victims.contains p.1)).length
        = zCountOf (db.zsets.filter (fun x => !zVictim r.id victims x)) r.id := by
      rw [← hA, length_zAssoc]; rfl
    simp only [Spec.zRemove, hg, Spec.ok]
    unfold zCountOf at hsplit hlen2
    by_cases hn : (db.zsets.filter (zVictim r.id victims)).length = 0
    · have h1 : ((((db.zsets.filter (zVictim r.id victims)).length : Nat) : Int) == 0) = true := by
        simp [hn]
      have h2 : (((zAssoc db r.id).filter (fun p => !victims.contains p.1)).length
          == (zAssoc db r.id).length) = true := by
        rw [beq_iff_eq]; omega
      rw [if_pos h1, if_pos h2]
      have h3 : ((zAssoc db r.id).length : Int)
          - (((zAssoc db r.id).filter (fun p => !victims.contains p.1)).length : Int) = 0 := by omega
      rw [h3]
      exact refines_same hz.toWF _
    · have h1 : ¬ (((((db.zsets.filter (zVictim r.id victims)).length : Nat) : Int) == 0) = true) := by
        simp [hn]
      have h2 : ¬ ((((zAssoc db r.id).filter (fun p => !victims.contains p.1)).length
          == (zAssoc db r.id).length) = true) := by
        rw [beq_iff_eq]; omega
      rw [if_neg h1, if_neg h2]
      have h3 : ((zAssoc db r.id).length : Int)
          - (((zAssoc db r.id).filter (fun p => !victims.contains p.1)).length : Int)
          = (((db.zsets.filter (zVictim r.id victims)).length : Nat) : Int) := by omega
      rw [h3]
      refine ⟨rfl, ?_⟩
      generalize hdb' : ((({ db with zsets := db.zsets.filter (fun x => !zVictim r.id victims x) } : DB)).updKey
        r.id (delUpd ((db.zsets.filter (zVictim r.id victims)).length : Nat) now)) = db' at hA
      have hk' : db'.keys.map metaOf = db.keys.map metaOf := by
        rw [← hdb']
        exact updKey_meta
          (db := { db with zsets := db.zsets.filter (fun x => !zVictim r.id victims x) })
          (fun _ _ _ => rfl)
      have hst : SameButZ db db' := by rw [← hdb']; exact ⟨rfl, rfl, rfl, rfl⟩
      have hfr : ∀ id', id' ≠ r.id →
          db'.zsets.filter (fun z => z.kid == id') = db.zsets.filter (fun z => z.kid == id') := by
        intro id' hne
        rw [← hdb']
        exact filter_kid_delete db.zsets r.id victims hne
      show abs now db' = purge now (put (abs now db) k ⟨.zset _, r.etime⟩)
      rw [← hA, ← hrk]
      exact abs_zrows hz hr ht hk' hst hfr now
  · rw [zDeleteWhere_none hl]
    cases v <;> first | exact absurd rfl (hv _) |
      (simp only [Spec.zRemove, hg, Spec.ok]; exact refines_same hz.toWF _)

theorem zDeleteWhere_wf {db : DB} (hz : db.ZWF) (now : Int) (k : Bytes) (victims : List Bytes) :
    (zDeleteWhere db k victims now).db.ZWF := by
  cases hl : db.liveKeyT k TZSet now with
  | none => rw [zDeleteWhere_none hl]; exact hz
  | some r =>
    rw [zDeleteWhere_some hl]
    split
    · exact hz
    · exact zwf_delete hz (liveKeyT_some hl).1 victims now

theorem zRemove_congr (s : State) (k : Bytes) {v1 v2 : List Bytes}
    (h : ∀ x, v1.contains x = v2.contains x) : Spec.zRemove s k v1 = Spec.zRemove s k v2 := by
  have : (fun p : Bytes × Score => !v1.contains p.1) = (fun p => !v2.contains p.1) := by
    funext p; rw [h]
  unfold Spec.zRemove
  simp only [this]

theorem zRemove_nil (s : State) (k : Bytes) : Spec.zRemove s k [] = Spec.ok (.int 0) s := by
  unfold Spec.zRemove
  split
  · rename_i z et _
    have : z.filter (fun p => !([] : List Bytes).contains p.1) = z := by
      rw [List.filter_eq_self]; intro _ _; rfl
    rw [this]
    simp [Spec.ok]
  · rfl

theorem update_of_ok {f : DB → Res} {db : DB} {v : Val} (h : (f db).out = .ok v) :
    update f db = f db := by
  simp [update, h]

theorem zDeleteWhere_isOk (db : DB) (k : Bytes) (victims : List Bytes) (now : Int) :
    ∃ v, (zDeleteWhere db k victims now).out = .ok v := by
  cases hl : db.liveKeyT k TZSet now with
  | none => rw [zDeleteWhere_none hl]; exact ⟨_, rfl⟩
  | some r =>
    rw [zDeleteWhere_some hl]
    split <;> exact ⟨_, rfl⟩

theorem zDelete_refines {db : DB} (hz : db.ZWF) (now : Int) (k : Bytes) (es : List Bytes) :
    Refines now (update (fun d => Model.zDelete d k es now) db) (Spec.zRemove (abs now db) k es) := by
  obtain ⟨v, hv⟩ := zDeleteWhere_isOk db k es now
  rw [update_of_ok (f := fun d => Model.zDelete d k es now) hv]
  exact zDeleteWhere_refines hz now k es

theorem map_elem_proj (l : List ZRow) : l.map (·.elem) = (l.map zPair).map (·.1) := by
  rw [List.map_map]; rfl

/-- `DeleteWith.ByRank`, for every pair of ranks (D09 is repaired: an inverted range removes
nothing) -/
theorem zDeleteRank_refines {db : DB} (hz : db.ZWF) (now : Int) (k : Bytes) (a b : Int) :
    Refines now (update (fun d => Model.zDeleteRank d k a b now) db)
      (Spec.zRemove (abs now db) k
        ((rankSlice (zsorted (zsetAt (abs now db) k)) a b).map (·.1))) := by
  by_cases hneg : a < 0 ∨ b < 0 ∨ a > b
  · have hm : update (fun d => Model.zDeleteRank d k a b now) db = ⟨.ok (.int 0), db⟩ := by
      by_cases h1 : a < 0 ∨ b < 0
      · have h1' : (decide (a < 0) || decide (b < 0)) = true := by simpa using h1
        simp [update, Model.zDeleteRank, h1', Res.ok]
      · have h1' : (decide (a < 0) || decide (b < 0)) = false := by
          simp only [Bool.or_eq_false_iff, decide_eq_false_iff_not]; omega
        have hab : a > b := by omega
        simp [update, Model.zDeleteRank, h1', hab, Res.ok]
    have hs : rankSlice (zsorted (zsetAt (abs now db) k)) a b = [] := by
      unfold rankSlice; rw [if_pos hneg]
    rw [hm, hs, List.map_nil, zRemove_nil]
    exact refines_same hz.toWF _
  · have h1 : (decide (a < 0) || decide (b < 0)) = false := by
      simp only [Bool.or_eq_false_iff, decide_eq_false_iff_not]; omega
    have hab : ¬ a > b := by omega
    have hv : (sqlLimit a (b - a + 1) (zLiveRows db k now)).map (·.elem)
        = (rankSlice (zsorted (zsetAt (abs now db) k)) a b).map (·.1) := by
      have := Redka.Props.C02.rank_slice_refines_partial (zLiveRows db k now) a b (by omega) (by omega)
      rw [if_neg hab] at this
      rw [this, map_elem_proj, rankSlice_map, zLiveRows_proj hz]
    have hm : Model.zDeleteRank db k a b now
        = zDeleteWhere db k ((rankSlice (zsorted (zsetAt (abs now db) k)) a b).map (·.1)) now := by
      simp only [Model.zDeleteRank, h1, hab, Bool.false_eq_true, if_false, hv]
    obtain ⟨v, hvo⟩ := zDeleteWhere_isOk db k
      ((rankSlice (zsorted (zsetAt (abs now db) k)) a b).map (·.1)) now
    rw [update_of_ok (f := fun d => Model.zDeleteRank d k a b now)
      (show (Model.zDeleteRank db k a b now).out = .ok v by rw [hm]; exact hvo)]
    show Refines now (Model.zDeleteRank db k a b now) _
    rw [hm]
    exact zDeleteWhere_refines hz now k _

theorem zDeleteScore_refines {db : DB} (hz : db.ZWF) (now : Int) (k : Bytes) (lo hi : Score) :
    Refines now (update (fun d => Model.zDeleteScore d k lo hi now) db)
      (Spec.zRemove (abs now db) k
        (((zsetAt (abs now db) k).filter (fun p => Spec.between lo hi p.2)).map (·.1))) := by
  have hv : ∀ x, (((zLiveRows db k now).filter (fun x => Model.between lo hi x.score)).map (·.elem)).contains x
      = (((zsetAt (abs now db) k).filter (fun p => Spec.between lo hi p.2)).map (·.1)).contains x := by
    intro x
    have h1 : ((zLiveRows db k now).filter (fun x => Model.between lo hi x.score)).map (·.elem)
        = ((zsorted (zsetAt (abs now db) k)).filter (fun p => Spec.between lo hi p.2)).map (·.1) := by
      rw [map_elem_proj, ← zLiveRows_proj hz, ← filter_proj]; rfl
    rw [h1, Bool.eq_iff_iff, List.contains_iff_mem, List.contains_iff_mem]
    exact (((perm_sortBy Spec.zLt _).filter _).map _).mem_iff
  rw [← zRemove_congr _ _ hv]
  obtain ⟨v, hvo⟩ := zDeleteWhere_isOk db k
    (((zLiveRows db k now).filter (fun x => Model.between lo hi x.score)).map (·.elem)) now
  rw [update_of_ok (f := fun d => Model.zDeleteScore d k lo hi now) hvo]
  exact zDeleteWhere_refines hz now k _

/-! ### every write keeps `DB.ZWF` (all states, deviation classes included) -/

theorem upsert_wf {db : DB} (hz : db.ZWF) {k : Bytes} {now : Int} {db1 : DB} {r : KeyRow}
    (h : zAddKey db k now = .ok (db1, r)) : db1.ZWF ∧ r ∈ db1.keys := by
  cases hf : db.findKey k with
  | none =>
    rw [zAddKey_new hf now] at h
    cases h
    exact ⟨zwf_append_key hz hf now, List.mem_append_right _ (by simp)⟩
  | some old =>
    by_cases ht : old.ty = TZSet
    · rw [zAddKey_eq, keyUpsert_old hf ht] at h
      cases h
      exact ⟨zwf_upsert_old hz (findKey_mem hf).1 now, mem_upsert_old (findKey_mem hf).1 now⟩
    · rw [upsert_other hf ht] at h; cases h

theorem zAddTx_wf {db : DB} (hz : db.ZWF) {k e : Bytes} {s : Score} {now : Int} {d : DB}
    (h : zAddTx db k e s now = .ok d) : d.ZWF := by
  unfold zAddTx at h
  cases hk : zAddKey db k now with
  | error er => rw [hk] at h; cases h
  | ok p =>
    obtain ⟨db1, r⟩ := p
    rw [hk] at h
    cases h
    obtain ⟨hz1, hr⟩ := upsert_wf hz hk
    exact zwf_zSetRow hz1 ⟨r, hr, rfl⟩ e s

theorem update_zwf {f : DB → Res} {db : DB} (hz : db.ZWF) (h : ∀ v, (f db).out = .ok v → (f db).db.ZWF) :
    (update f db).db.ZWF := by
  unfold update
  simp only
  split
  · rename_i v hv; exact h v hv
  · exact hz

theorem zAdd_wf {db : DB} (hz : db.ZWF) (k e : Bytes) (s : Score) (now : Int) :
    (update (fun d => Model.zAdd d k e s now) db).db.ZWF := by
  apply update_zwf hz
  intro v hv
  unfold Model.zAdd at hv ⊢
  cases ht : zAddTx db k e s now with
  | error er => rw [ht] at hv; cases hv
  | ok d => exact zAddTx_wf hz ht

theorem zAddManyLoop_wf (k : Bytes) (now : Int) : ∀ (items : List (Bytes × Score)) (db : DB), db.ZWF →
    (zAddManyLoop db k now items).2.ZWF
  | [], _, hz => hz
  | (e, s) :: rest, db, hz => by
    unfold zAddManyLoop
    cases ht : zAddTx db k e s now with
    | error er => exact hz
    | ok d => exact zAddManyLoop_wf k now rest d (zAddTx_wf hz ht)

theorem zAddMany_wf {db : DB} (hz : db.ZWF) (k : Bytes) (items : List (Bytes × Score)) (now : Int) :
    (update (fun d => Model.zAddMany d k items now) db).db.ZWF := by
  apply update_zwf hz
  intro v _
  have := zAddManyLoop_wf k now items db hz
  unfold Model.zAddMany
  rcases h : zAddManyLoop db k now items with ⟨o, d⟩
  rw [h] at this
  cases o <;> exact this

theorem zIncr_wf {db : DB} (hz : db.ZWF) (k e : Bytes) (d : Score) (now : Int) :
    (update (fun x => Model.zIncr x k e d now) db).db.ZWF := by
  apply update_zwf hz
  intro v hv
  unfold Model.zIncr at hv ⊢
  cases hk : zAddKey db k now with
  | error er => rw [hk] at hv; cases hv
  | ok p =>
    obtain ⟨db1, r⟩ := p
    obtain ⟨hz1, hr⟩ := upsert_wf hz hk
    simp only [hk] at hv ⊢
    cases hf : db1.zsets.find? (fun x => x.kid == r.id && x.elem == e) with
    | none =>
      show (zInsertNew db1 r.id e d).ZWF
      have hno : zHas db1.zsets r.id e = false := by
        rw [zHas_iff_zFind]; unfold zFind; rw [hf]; rfl
      exact zwf_zInsertNew hz1 ⟨r, hr, rfl⟩ hno d
    | some row =>
      simp only [hf] at hv ⊢
      cases hs : scoreAdd row.score d with
      | none => rw [hs] at hv; cases hv
      | some s => exact zwf_zSetRow hz1 ⟨r, hr, rfl⟩ e s

theorem zDelete_wf {db : DB} (hz : db.ZWF) (k : Bytes) (es : List Bytes) (now : Int) :
    (update (fun d => Model.zDelete d k es now) db).db.ZWF :=
  update_zwf hz (fun _ _ => zDeleteWhere_wf hz now k es)

theorem zDeleteRank_wf {db : DB} (hz : db.ZWF) (k : Bytes) (a b : Int) (now : Int) :
    (update (fun d => Model.zDeleteRank d k a b now) db).db.ZWF := by
  apply update_zwf hz
  intro _ _
  unfold Model.zDeleteRank
  split
  · exact hz
  · split
    · exact hz
    · exact zDeleteWhere_wf hz now k _

theorem zDeleteScore_wf {db : DB} (hz : db.ZWF) (k : Bytes) (lo hi : Score) (now : Int) :
    (update (fun d => Model.zDeleteScore d k lo hi now) db).db.ZWF :=
  update_zwf hz (fun _ _ => zDeleteWhere_wf hz now k _)

end Redka.ZSetRef
