/-
  Sequential behaviour used by the corollaries of C08: a run of integer increments of one name adds
  up (whatever the order), and a one-element list / set gives its element to one popper only.
-/
import RedkaModel.Proofs.Sched
import RedkaModel.Proofs.Str
import RedkaModel.Props.C17

namespace Redka.Proofs.Sched

open Redka Redka.Model Redka.Spec Redka.Sched

/-! ### counters -/

/-- `k` is a counter standing at `n`: the name is not stored at all (and `n = 0`), or it holds the
text of `n` and never expires. (Tables well-formed in the sense of `DB.WF`, which C11's invariant
implies.) -/
def Counter (db : DB) (k : Bytes) (n : Int) : Prop :=
  db.WF ∧ ((db.findKey k = none ∧ n = 0) ∨
    ∃ b now, valueInt b = some n ∧ get (abs now db) k = some ⟨.str b, none⟩)

/-- a name without expiry looks the same at every clock value -/
theorem get_abs_any_now {db : DB} (hn : (db.keys.map (·.key)).Nodup) {now : Int} {k : Bytes} {v : SVal}
    (h : get (abs now db) k = some ⟨v, none⟩) (now' : Int) :
    get (abs now' db) k = some ⟨v, none⟩ := by
  rw [get_abs hn] at h ⊢
  cases hf : db.findKey k with
  | none => simp [hf] at h
  | some r =>
    rw [hf] at h
    simp only [Option.bind_some] at h ⊢
    obtain ⟨_, he, hv⟩ := rowEntry_live h
    unfold rowEntry
    have : r.live now' = true := by unfold KeyRow.live; rw [← he]; rfl
    rw [this, hv, ← he]; rfl

theorem inInt64_iff {i : Int} : inInt64 i = true ↔ minInt64 ≤ i ∧ i ≤ maxInt64 := by
  simp [inInt64]

/-- one increment of a counter, inside int64: returns the sum and leaves a counter standing at it -/
theorem counter_incr {db : DB} {k : Bytes} {n : Int} (hc : Counter db k n) (d now : Int)
    (hd : inInt64 d = true) (hnd : inInt64 (n + d) = true) :
    (Model.dbRun (.strIncr k d) now db).out = .ok (.int (n + d)) ∧
      Counter (Model.dbRun (.strIncr k d) now db).db k (n + d) := by
  obtain ⟨hw, hcase⟩ := hc
  have hrun : Model.dbRun (.strIncr k d) now db = update (fun x => strIncr x k d now) db := rfl
  have hw' : (Model.dbRun (.strIncr k d) now db).db.WF := by
    rw [hrun]; exact update_wf hw (strIncr_wf hw k d now)
  have hvi : valueInt (itoa (n + d)) = some (n + d) := by
    have := inInt64_iff.mp hnd
    exact Redka.Props.C17.valueInt_itoa _ this.1 this.2
  rcases hcase with ⟨hf, hn0⟩ | ⟨b, now0, hb, hg0⟩
  · subst hn0
    have hns : staleKey db now k = false := by simp [staleKey, hf]
    have hg : get (abs now db) k = none := by rw [get_abs hw.names, hf]; rfl
    have hraw : strGetRaw db k now = none := by
      rcases holder hw now k with ⟨_, _, hr⟩ | ⟨_, h, _, _, _⟩ | ⟨_, _, h, _, _, _, _⟩ | ⟨_, _, h, _, _, _, _, _⟩
      · exact hr
      all_goals (rw [hf] at h; cases h)
    have href := strIncr_refines hw hns d hd (by intro b' n' hb'; rw [hraw] at hb'; cases hb')
    unfold Refines at href
    rw [← hrun] at href
    simp only [Spec.strIncr, hg, Spec.ok] at href
    refine ⟨by rw [href.1]; simp, hw', .inr ⟨itoa (0 + d), now, hvi, ?_⟩⟩
    rw [href.2, get_purge ((sorted_abs hw.names now).put k _), get_put]
    simp [liveAt]
  · have hg := get_abs_any_now hw.names hg0 now
    obtain ⟨_, hns⟩ := get_abs_live hw hg
    have hraw := strGetRaw_of_get hw hg
    have href := strIncr_refines hw hns d hd (by
      intro b' n' hb' hn'
      rw [hraw] at hb'; cases hb'
      rw [hb] at hn'; cases hn'
      exact hnd)
    unfold Refines at href
    rw [← hrun] at href
    simp only [Spec.strIncr, hg, hb, Spec.ok] at href
    refine ⟨href.1, hw', .inr ⟨itoa (n + d), now, hvi, ?_⟩⟩
    rw [href.2, get_purge ((sorted_abs hw.names now).put k _), get_put]
    simp [liveAt]

/-- what a counter reads as -/
theorem counter_get {db : DB} {k : Bytes} {n : Int} (hc : Counter db k n) (now : Int) :
    (db.findKey k = none ∧ n = 0 ∧ (Model.dbRun (.strGet k) now db).out = .error .notFound) ∨
    ∃ b, valueInt b = some n ∧ (Model.dbRun (.strGet k) now db).out = .ok (.bytes b) := by
  obtain ⟨hw, hcase⟩ := hc
  have hrun : Model.dbRun (.strGet k) now db = Model.strGet db k now := rfl
  rcases hcase with ⟨hf, hn0⟩ | ⟨b, now0, hb, hg0⟩
  · refine .inl ⟨hf, hn0, ?_⟩
    have hraw : strGetRaw db k now = none := by
      rcases holder hw now k with ⟨_, _, hr⟩ | ⟨_, h, _, _, _⟩ | ⟨_, _, h, _, _, _, _⟩ | ⟨_, _, h, _, _, _, _, _⟩
      · exact hr
      all_goals (rw [hf] at h; cases h)
    rw [hrun]; simp [Model.strGet, hraw, Res.err]
  · refine .inr ⟨b, hb, ?_⟩
    have hraw := strGetRaw_of_get hw (get_abs_any_now hw.names hg0 now)
    rw [hrun]; simp [Model.strGet, hraw, Res.ok]

/-- the amount a job adds to a counter (single increments only) -/
def delta : Job → Int
  | .op (.strIncr _ d) => d
  | _ => 0

def total (tr : List (Job × Int)) : Int := (tr.map (fun c => delta c.1)).sum
def totalAbs (tr : List (Job × Int)) : Nat := (tr.map (fun c => (delta c.1).natAbs)).sum

theorem sum_perm_nat : ∀ {l l' : List Nat}, l.Perm l' → l.sum = l'.sum := by
  intro l l' h
  induction h with
  | nil => rfl
  | cons x _ ih => simp [ih]
  | swap x y l => simp only [List.sum_cons]; omega
  | trans _ _ ih1 ih2 => exact ih1.trans ih2

theorem emptyWF : ({} : DB).WF :=
  ⟨List.nodup_nil, List.nodup_nil, (by intro r h; cases h), (by intro r h; cases h), List.nodup_nil⟩

theorem sum_perm_int : ∀ {l l' : List Int}, l.Perm l' → l.sum = l'.sum := by
  intro l l' h
  induction h with
  | nil => rfl
  | cons x _ ih => simp [ih]
  | swap x y l => simp only [List.sum_cons]; omega
  | trans _ _ ih1 ih2 => exact ih1.trans ih2

/-- A sequential run of increments of one counter, in ANY order: every call succeeds and the
counter ends at the start value plus the sum — provided no partial sum can leave int64
(`|n| + Σ|dᵢ| ≤ maxInt64`, an order-independent bound; beyond it the code wraps, D17). -/
theorem seqRun_incr (k : Bytes) : ∀ (tr : List (Job × Int)) (db : DB) (n : Int), Counter db k n →
    (∀ c ∈ tr, ∃ d, c.1 = .op (.strIncr k d)) → (n.natAbs + totalAbs tr : Int) ≤ maxInt64 →
    (∀ o ∈ (seqRun tr db).1, ∃ v, o = .ok v) ∧ Counter (seqRun tr db).2 k (n + total tr)
  | [], db, n, hc, _, _ => by
    refine ⟨(by intro o ho; cases ho), ?_⟩
    simpa [seqRun, total] using hc
  | (op, now) :: tr, db, n, hc, hops, hb => by
    obtain ⟨d, hop⟩ := hops (op, now) (List.mem_cons_self ..)
    simp only at hop
    subst hop
    have hb' : (n.natAbs + ((d.natAbs + totalAbs tr : Nat) : Int)) ≤ maxInt64 := by
      simpa [totalAbs, delta] using hb
    have hmax : maxInt64 = 9223372036854775807 := rfl
    have hmin : minInt64 = -9223372036854775808 := rfl
    have hd : inInt64 d = true := inInt64_iff.mpr (by omega)
    have hnd : inInt64 (n + d) = true := inInt64_iff.mpr (by omega)
    obtain ⟨hout, hc'⟩ := counter_incr hc d now hd hnd
    have ih := seqRun_incr k tr (Job.seq (.op (.strIncr k d)) now db).db (n + d) hc'
      (fun c hc => hops c (List.mem_cons_of_mem _ hc)) (by omega)
    refine ⟨?_, ?_⟩
    · intro o ho
      simp only [seqRun, List.mem_cons] at ho
      rcases ho with rfl | ho
      · exact ⟨_, hout⟩
      · exact ih.1 o ho
    · have : n + total ((.op (.strIncr k d), now) :: tr) = n + d + total tr := by
        simp [total, delta]; omega
      rw [this]
      exact ih.2

end Redka.Proofs.Sched

namespace Redka.Proofs.Sched

open Redka Redka.Model Redka.Sched

/-! ### poppers -/

/-- ids of the key rows named `k` (no assumption that there is at most one) -/
def kidsOf (db : DB) (k : Bytes) : List Int := (db.keys.filter (fun r => r.key == k)).map (·.id)

/-- number of `rlist` rows stored under the name `k` -/
def listCount (db : DB) (k : Bytes) : Nat :=
  (db.lists.filter (fun x => (kidsOf db k).contains x.kid)).length

/-- number of `rset` rows stored under the name `k` -/
def setCount (db : DB) (k : Bytes) : Nat :=
  (db.sets.filter (fun x => (kidsOf db k).contains x.kid)).length

def outOk : Out → Bool
  | .ok _ => true
  | .error _ => false

def okCount (outs : List Out) : Nat := (outs.filter outOk).length

theorem okCount_cons (o : Out) (os : List Out) :
    okCount (o :: os) = (if outOk o = true then 1 else 0) + okCount os := by
  unfold okCount; rw [List.filter_cons]; split <;> simp [Nat.add_comm]

theorem seqRun_cons (op : Job) (now : Int) (tr : List (Job × Int)) (db : DB) :
    (seqRun ((op, now) :: tr) db).1 =
      (op.seq now db).out :: (seqRun tr (op.seq now db).db).1 := rfl

/-- how many operations of a history succeeded -/
def succeeded (l : List Rec) : Nat := (l.filter (fun r => r.out.isOk)).length

theorem succeeded_eq {l : List Rec} {outs : List Out} (h : l.map Rec.out = outs.map Outcome.done) :
    succeeded l = okCount outs := by
  unfold succeeded okCount
  have h1 : (l.filter (fun r => r.out.isOk)).length = ((l.map Rec.out).filter Outcome.isOk).length := by
    rw [List.filter_map, List.length_map]; rfl
  have h2 : ((outs.map Outcome.done).filter Outcome.isOk).length = (outs.filter outOk).length := by
    rw [List.filter_map, List.length_map]
    congr 2; funext o; cases o <;> rfl
  rw [h1, h, h2]

theorem filter_single {α} (P V : α → Bool) (l : List α) (x : α) (hx : x ∈ l) (hP : P x = true)
    (hV : V x = true) (hlen : (l.filter P).length ≤ 1) :
    ((l.filter (fun y => !V y)).filter P).length = 0 := by
  have hmem : x ∈ l.filter P := List.mem_filter.mpr ⟨hx, hP⟩
  have hcomm : (l.filter (fun y => !V y)).filter P = (l.filter P).filter (fun y => !V y) := by
    rw [List.filter_filter, List.filter_filter]
    congr 1; funext y; exact Bool.and_comm _ _
  rw [hcomm]
  match hl : l.filter P, hmem, hlen with
  | [y], hm, _ =>
    simp only [List.mem_singleton] at hm; subst hm
    simp [hV]
  | _ :: _ :: _, _, h => simp at h

theorem kids_map (keys : List KeyRow) (g : KeyRow → KeyRow) (hk : ∀ r, (g r).key = r.key)
    (hi : ∀ r, (g r).id = r.id) (k : Bytes) :
    ((keys.map g).filter (fun r => r.key == k)).map (·.id) =
      (keys.filter (fun r => r.key == k)).map (·.id) := by
  induction keys with
  | nil => rfl
  | cons r rs ih =>
    simp only [List.map_cons, List.filter_cons, hk]
    split <;> simp [hi, ih]

theorem kidsOf_updKey (db : DB) (id : Int) (f : KeyRow → KeyRow) (hk : ∀ r, (f r).key = r.key)
    (hi : ∀ r, (f r).id = r.id) (k : Bytes) : kidsOf (db.updKey id f) k = kidsOf db k := by
  unfold kidsOf DB.updKey
  exact kids_map db.keys (fun r => if r.id == id then f r else r)
    (by intro r; show (if r.id == id then f r else r).key = r.key; split <;> simp [hk])
    (by intro r; show (if r.id == id then f r else r).id = r.id; split <;> simp [hi]) k

theorem kid_of_liveKeyT {db : DB} {k : Bytes} {ty now : Int} {r : KeyRow}
    (h : db.liveKeyT k ty now = some r) : (kidsOf db k).contains r.id = true := by
  unfold DB.liveKeyT at h
  have hp := List.find?_some h
  have hm := List.mem_of_find?_eq_some h
  simp only [Bool.and_eq_true] at hp
  simp only [kidsOf, List.contains_eq_mem, List.mem_map, List.mem_filter, decide_eq_true_eq]
  exact ⟨r, ⟨hm, hp.1.1⟩, rfl⟩

/-! #### lists -/

theorem listPop_empty {db : DB} {k : Bytes} (h : listCount db k = 0) (front : Bool) (now : Int) :
    listPop db k front now = .err .notFound db := by
  unfold listPop
  split
  · rfl
  · rename_i r hr
    have hk := kid_of_liveKeyT hr
    have hrows : listRows db r.id = [] := by
      cases hl : listRows db r.id with
      | nil => rfl
      | cons x xs =>
        have hx : x ∈ listRows db r.id := by rw [hl]; exact List.mem_cons_self ..
        unfold listRows at hx
        rw [Redka.Scan.mem_sortBy, List.mem_filter] at hx
        have : x ∈ db.lists.filter (fun x => (kidsOf db k).contains x.kid) := by
          rw [List.mem_filter]
          refine ⟨hx.1, ?_⟩
          have : x.kid = r.id := by simpa using hx.2
          rw [this]; exact hk
        unfold listCount at h
        rw [List.length_eq_zero_iff] at h
        rw [h] at this; cases this
    simp only [hrows]
    cases front <;> rfl

theorem listPop_last {db : DB} {k : Bytes} (h : listCount db k ≤ 1) (front : Bool) (now : Int)
    {v : Val} (hok : (listPop db k front now).out = .ok v) :
    listCount (listPop db k front now).db k = 0 := by
  cases hl : db.liveKeyT k TList now with
  | none => simp [listPop, hl, Res.err] at hok
  | some r =>
    have hk := kid_of_liveKeyT hl
    cases hrow : (if front then (listRows db r.id).head? else (listRows db r.id).getLast?) with
    | none => simp [listPop, hl, hrow, Res.err] at hok
    | some row =>
      have hdb : (listPop db k front now).db = listDeleteRows db r.id [row.pos] now := by
        simp [listPop, hl, hrow, Res.ok]
      rw [hdb]
      have hmem : row ∈ listRows db r.id := by
        cases front
        · exact List.mem_of_getLast? (by simpa using hrow)
        · exact List.mem_of_head? (by simpa using hrow)
      unfold listRows at hmem
      rw [Redka.Scan.mem_sortBy, List.mem_filter] at hmem
      have hkid : row.kid = r.id := by simpa using hmem.2
      have hkids : kidsOf (listDeleteRows db r.id [row.pos] now) k = kidsOf db k := by
        simp only [listDeleteRows, List.foldl_cons, List.foldl_nil, listOnDelete]
        rw [kidsOf_updKey _ _ _ (by intro r; rfl) (by intro r; rfl)]
        rfl
      unfold listCount
      rw [hkids]
      have hlists : (listDeleteRows db r.id [row.pos] now).lists =
          db.lists.filter (fun x => !(x.kid == r.id && [row.pos].contains x.pos)) := by
        simp [listDeleteRows, listOnDelete, DB.updKey]
      rw [hlists]
      exact filter_single (fun x => (kidsOf db k).contains x.kid)
        (fun x => x.kid == r.id && [row.pos].contains x.pos) db.lists row hmem.1
        (by simp only [hkid]; exact hk) (by simp [hkid]) (by unfold listCount at h; exact h)

def isListPop (k : Bytes) : Job → Bool
  | .op (.listPopBack k') => k' == k
  | .op (.listPopFront k') => k' == k
  | _ => false

theorem dbRun_listPop {k : Bytes} {op : Job} (h : isListPop k op = true) (now : Int) (db : DB) :
    ∃ front, op.seq now db = update (fun d => listPop d k front now) db := by
  cases op with
  | block p ops => simp [isListPop] at h
  | op o =>
    cases o <;> simp [isListPop] at h
    · subst h; exact ⟨false, rfl⟩
    · subst h; exact ⟨true, rfl⟩

theorem dbRun_listPop_empty {k : Bytes} {op : Job} (hop : isListPop k op = true) (now : Int) {db : DB}
    (h : listCount db k = 0) : outOk (op.seq now db).out = false ∧ (op.seq now db).db = db := by
  obtain ⟨front, hrun⟩ := dbRun_listPop hop now db
  rw [hrun, update_out, update_db, listPop_empty h]
  exact ⟨rfl, rfl⟩

theorem dbRun_listPop_step {k : Bytes} {op : Job} (hop : isListPop k op = true) (now : Int) {db : DB}
    (h : listCount db k ≤ 1) :
    (outOk (op.seq now db).out = true ∧ listCount (op.seq now db).db k = 0) ∨
    (outOk (op.seq now db).out = false ∧ (op.seq now db).db = db) := by
  obtain ⟨front, hrun⟩ := dbRun_listPop hop now db
  rw [hrun, update_out, update_db]
  cases ho : (listPop db k front now).out with
  | ok v => exact .inl ⟨rfl, listPop_last h front now ho⟩
  | error e => exact .inr ⟨rfl, rfl⟩

theorem seqRun_listPop_empty (k : Bytes) : ∀ (tr : List (Job × Int)) (db : DB),
    (∀ c ∈ tr, isListPop k c.1 = true) → listCount db k = 0 → okCount (seqRun tr db).1 = 0
  | [], _, _, _ => rfl
  | (op, now) :: tr, db, hops, h => by
    obtain ⟨ho, hdb⟩ := dbRun_listPop_empty (hops (op, now) (List.mem_cons_self ..)) now h
    have ih := seqRun_listPop_empty k tr db (fun c hc => hops c (List.mem_cons_of_mem _ hc)) h
    rw [seqRun_cons, okCount_cons, ho, hdb]; simpa using ih

/-- Sequentially, in any order: of any number of pops (front or back) of a list that holds at most
one element, at most one succeeds. -/
theorem seqRun_listPop_one (k : Bytes) : ∀ (tr : List (Job × Int)) (db : DB),
    (∀ c ∈ tr, isListPop k c.1 = true) → listCount db k ≤ 1 → okCount (seqRun tr db).1 ≤ 1
  | [], _, _, _ => Nat.zero_le _
  | (op, now) :: tr, db, hops, h => by
    have hrest : ∀ c ∈ tr, isListPop k c.1 = true := fun c hc => hops c (List.mem_cons_of_mem _ hc)
    rcases dbRun_listPop_step (hops (op, now) (List.mem_cons_self ..)) now h with ⟨ho, h0⟩ | ⟨ho, hdb⟩
    · have := seqRun_listPop_empty k tr _ hrest h0
      rw [seqRun_cons, okCount_cons, ho, this]; simp
    · have ih := seqRun_listPop_one k tr db hrest h
      rw [seqRun_cons, okCount_cons, ho, hdb]; simpa using ih

/-! #### sets -/

theorem setRows_empty {db : DB} {k : Bytes} (h : setCount db k = 0) {ty now : Int} {r : KeyRow}
    (hr : db.liveKeyT k ty now = some r) : setRows db r.id = [] := by
  have hk := kid_of_liveKeyT hr
  cases hl : setRows db r.id with
  | nil => rfl
  | cons x xs =>
    have hx : x ∈ setRows db r.id := by rw [hl]; exact List.mem_cons_self ..
    unfold setRows at hx
    rw [Redka.Scan.mem_sortBy, List.mem_filter] at hx
    have : x ∈ db.sets.filter (fun x => (kidsOf db k).contains x.kid) := by
      rw [List.mem_filter]
      refine ⟨hx.1, ?_⟩
      have : x.kid = r.id := by simpa using hx.2
      rw [this]; exact hk
    unfold setCount at h
    rw [List.length_eq_zero_iff] at h
    rw [h] at this; cases this

theorem setPop_empty {db : DB} {k : Bytes} (h : setCount db k = 0) (o : Option Bytes) (now : Int) :
    outOk (setPop db k o now).out = false ∧ (setPop db k o now).db = db := by
  unfold setPop
  split
  · split <;> exact ⟨rfl, rfl⟩
  · rename_i r hr
    simp only [setRows_empty h hr]
    cases o <;> exact ⟨rfl, rfl⟩

theorem setPop_last {db : DB} {k : Bytes} (h : setCount db k ≤ 1) (o : Option Bytes) (now : Int)
    {v : Val} (hok : (setPop db k o now).out = .ok v) :
    setCount (setPop db k o now).db k = 0 := by
  cases hl : db.liveKeyT k TSet now with
  | none => cases o <;> simp [setPop, hl, Res.err] at hok
  | some r =>
    have hk := kid_of_liveKeyT hl
    cases o with
    | none =>
      cases hemp : (setRows db r.id).isEmpty <;> simp [setPop, hl, hemp, Res.err] at hok
    | some e =>
      cases hany : (setRows db r.id).any (fun x => x.elem == e) with
      | false => simp [setPop, hl, hany, Res.err] at hok
      | true =>
        have hdb : (setPop db k (some e) now).db = setUpdKeyAfterDelete
            { db with sets := db.sets.filter (fun x => !(x.kid == r.id && x.elem == e)) } k 1 now := by
          simp [setPop, hl, hany, Res.ok]
        rw [hdb]
        obtain ⟨row, hmem, hel⟩ := List.any_eq_true.mp hany
        unfold setRows at hmem
        rw [Redka.Scan.mem_sortBy, List.mem_filter] at hmem
        have hkid : row.kid = r.id := by simpa using hmem.2
        have hkids : ∀ d : DB, d.keys = db.keys → kidsOf (setUpdKeyAfterDelete d k 1 now) k = kidsOf db k := by
          intro d hd
          unfold setUpdKeyAfterDelete
          split
          · unfold kidsOf; rw [hd]
          · rw [kidsOf_updKey _ _ _ (by intro r; rfl) (by intro r; rfl)]
            unfold kidsOf; rw [hd]
        have hsets : ∀ d : DB, (setUpdKeyAfterDelete d k 1 now).sets = d.sets := by
          intro d; unfold setUpdKeyAfterDelete; split <;> rfl
        unfold setCount
        rw [hkids { db with sets := db.sets.filter (fun x => !(x.kid == r.id && x.elem == e)) } rfl,
          hsets]
        exact filter_single (fun x => (kidsOf db k).contains x.kid)
          (fun x => x.kid == r.id && x.elem == e) db.sets row hmem.1
          (by simp only [hkid]; exact hk) (by simp [hkid, hel]) (by unfold setCount at h; exact h)

def isSetPop (k : Bytes) : Job → Bool
  | .op (.setPop k' _) => k' == k
  | _ => false

theorem dbRun_setPop {k : Bytes} {op : Job} (h : isSetPop k op = true) (now : Int) (db : DB) :
    ∃ o, op.seq now db = update (fun d => setPop d k o now) db := by
  cases op with
  | block p ops => simp [isSetPop] at h
  | op o =>
    cases o <;> simp [isSetPop] at h
    subst h; exact ⟨_, rfl⟩

theorem dbRun_setPop_step {k : Bytes} {op : Job} (hop : isSetPop k op = true) (now : Int) {db : DB}
    (h : setCount db k ≤ 1) :
    (outOk (op.seq now db).out = true ∧ setCount (op.seq now db).db k = 0) ∨
    (outOk (op.seq now db).out = false ∧ (op.seq now db).db = db) := by
  obtain ⟨o, hrun⟩ := dbRun_setPop hop now db
  rw [hrun, update_out, update_db]
  cases ho : (setPop db k o now).out with
  | ok v => exact .inl ⟨rfl, setPop_last h o now ho⟩
  | error e => exact .inr ⟨rfl, rfl⟩

theorem seqRun_setPop_empty (k : Bytes) : ∀ (tr : List (Job × Int)) (db : DB),
    (∀ c ∈ tr, isSetPop k c.1 = true) → setCount db k = 0 → okCount (seqRun tr db).1 = 0
  | [], _, _, _ => rfl
  | (op, now) :: tr, db, hops, h => by
    obtain ⟨o, hrun⟩ := dbRun_setPop (hops (op, now) (List.mem_cons_self ..)) now db
    obtain ⟨ho, hdb⟩ := setPop_empty h o now
    have ho' : outOk (op.seq now db).out = false := by rw [hrun, update_out]; exact ho
    have hdb' : (op.seq now db).db = db := by
      rw [hrun, update_db]; split <;> first | exact hdb | rfl
    have ih := seqRun_setPop_empty k tr db (fun c hc => hops c (List.mem_cons_of_mem _ hc)) h
    rw [seqRun_cons, okCount_cons, ho', hdb']; simpa using ih

/-- … and the same for `setPop` (whatever element the random choice names). -/
theorem seqRun_setPop_one (k : Bytes) : ∀ (tr : List (Job × Int)) (db : DB),
    (∀ c ∈ tr, isSetPop k c.1 = true) → setCount db k ≤ 1 → okCount (seqRun tr db).1 ≤ 1
  | [], _, _, _ => Nat.zero_le _
  | (op, now) :: tr, db, hops, h => by
    have hrest : ∀ c ∈ tr, isSetPop k c.1 = true := fun c hc => hops c (List.mem_cons_of_mem _ hc)
    rcases dbRun_setPop_step (hops (op, now) (List.mem_cons_self ..)) now h with ⟨ho, h0⟩ | ⟨ho, hdb⟩
    · have := seqRun_setPop_empty k tr _ hrest h0
      rw [seqRun_cons, okCount_cons, ho, this]; simp
    · have ih := seqRun_setPop_one k tr db hrest h
      rw [seqRun_cons, okCount_cons, ho, hdb]; simpa using ih

end Redka.Proofs.Sched
