/-
  C19 — the hash repository: every `Tx` method is an `Eff` step.
-/
import RedkaModel.Proofs.MetaEff
import RedkaModel.Proofs.InvHash

namespace Redka.MetaProofs

open Redka Redka.Model Redka.InvP

variable {db : DB}

theorem hashSetRow_touch (kid : Int) (f v : Bytes) : Touch kid db (hashSetRow db kid f v) := by
  unfold hashSetRow
  split
  · refine Touch.setHashes kid db _ (fun i hi => ?_)
    refine (filter_kid_map_other (·.kid) _ db.hashes i (fun x _ hx => ?_) (fun x _ => ?_)).symm
    · have : (x.kid == kid) = false := by simpa [hx] using hi
      simp [this]
    · show (if x.kid == kid && x.field == f then _ else x).kid = x.kid
      split <;> rfl
  · refine (Touch.setHashes kid db _ (fun i hi => ?_)).trans (Touch.updLen kid _ _ (fun _ => rfl))
    exact (filter_kid_append_other (·.kid) db.hashes
      ({ rowid := db.nextHashRowid, kid := kid, field := f, value := v } : HashRow) (i := i)
      (fun (e : kid = i) => hi e.symm)).symm

theorem hashSetTx_eff {k f v : Bytes} {now : Int} {d : DB} (he : hashSetTx db k f v now = .ok d) :
    Eff now db d ∧ Keep db d := by
  unfold hashSetTx at he
  cases hk : hashSetKey db k now with
  | error e => rw [hk] at he; cases he
  | ok p =>
    obtain ⟨db1, r⟩ := p
    rw [hk] at he
    simp only [Except.ok.injEq] at he
    subst he
    exact eff_upsert_touch hk (fun _ => ⟨rfl, rfl, rfl⟩)
      (fun o => ⟨rfl, rfl, by show o.version < o.version + 1; omega, rfl⟩)
      (hashSetRow_touch r.id f v)

theorem hashSet_eff (k f v : Bytes) (now : Int) : Eff now db (hashSet db k f v now).db := by
  unfold hashSet
  simp only
  split
  · exact Eff.refl _ _
  · rename_i d he; exact (hashSetTx_eff he).1

theorem hashSetManyLoop_eff (k : Bytes) (now : Int) (items : List (Bytes × Bytes)) :
    ∀ {db : DB}, Eff now db (hashSetManyLoop db k now items).2 := by
  induction items with
  | nil => intro db; exact Eff.refl _ _
  | cons p rest ih =>
    intro db
    obtain ⟨f, v⟩ := p
    unfold hashSetManyLoop
    split
    · exact Eff.refl _ _
    · rename_i d he
      exact (hashSetTx_eff he).1.trans (hashSetTx_eff he).2 ih

theorem hashSetMany_eff (k : Bytes) (items : List (Bytes × Bytes)) (now : Int) :
    Eff now db (hashSetMany db k items now).db := by
  unfold hashSetMany
  have := hashSetManyLoop_eff k now items (db := db)
  simp only
  split <;> (rename_i he; rw [he] at this; exact this)

theorem hashSetNotExists_eff (k f v : Bytes) (now : Int) :
    Eff now db (hashSetNotExists db k f v now).db := by
  unfold hashSetNotExists
  split
  · exact Eff.refl _ _
  · split
    · exact Eff.refl _ _
    · rename_i d he; exact (hashSetTx_eff he).1

theorem hashIncr_eff (k f : Bytes) (d now : Int) : Eff now db (hashIncr db k f d now).db := by
  unfold hashIncr
  simp only
  split
  · exact Eff.refl _ _
  · split
    · exact Eff.refl _ _
    · rename_i dd he; exact (hashSetTx_eff he).1

theorem hashIncrFloat_eff (k f : Bytes) (d : Dyadic) (now : Int) :
    Eff now db (hashIncrFloat db k f d now).db := by
  unfold hashIncrFloat
  simp only
  split
  · exact Eff.refl _ _
  · exact Eff.refl _ _
  · split
    · split <;> exact Eff.refl _ _
    · split
      · exact Eff.refl _ _
      · rename_i dd he; exact (hashSetTx_eff he).1

theorem hashDelete_eff (k : Bytes) (fs : List Bytes) (now : Int) :
    Eff now db (hashDelete db k fs now).db := by
  unfold hashDelete
  split
  · exact Eff.refl _ _
  · rename_i r hl
    simp only
    split
    · exact Eff.refl _ _
    · have ht : Touch r.id db { db with hashes := db.hashes.filter (fun x => !(x.kid == r.id && fs.contains x.field)) } := by
        refine Touch.setHashes r.id db _ (fun i hi => ?_)
        refine (filter_kid_filter_other (·.kid) _ db.hashes i (fun x _ hx => ?_)).symm
        have : (x.kid == r.id) = false := by simpa [hx] using hi
        simp [this]
      exact (eff_touch_updKey ht (isBump_len now _)).1

end Redka.MetaProofs
