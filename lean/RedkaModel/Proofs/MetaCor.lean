/-
  C19 — exact row-level facts behind the readable corollaries: a creating write starts at
  version 1, a rename carries the row over, the expiry commands touch nothing but version and
  expiry, a successful store restarts the destination.
-/
import RedkaModel.Proofs.MetaStep

namespace Redka.MetaProofs

open Redka Redka.Model Redka.InvP

variable {db : DB}

/-! ### creating writes -/

/-- the methods that run exactly one key upsert on the name they are given -/
def createKey : Op → Option Bytes
  | .strSet k _ | .strSetExpires k _ _ | .strIncr k _ | .strSetWith k _ _ => some k
  | .listPushBack k _ | .listPushFront k _ => some k
  | .setAdd k _ => some k
  | .hashSet k _ _ | .hashSetNotExists k _ _ | .hashIncr k _ _ => some k
  | .zAdd k _ _ | .zIncr k _ _ => some k
  | _ => none

/-- every row named `k` of `post` has version 1 and the modification time `now` -/
def Fresh1 (k : Bytes) (now : Int) (post : DB) : Prop :=
  ∀ r' ∈ post.keys, r'.key = k → r'.version = 1 ∧ r'.mtime = now

theorem Fresh1.of_absent {k : Bytes} {now : Int} (hf : db.findKey k = none) : Fresh1 k now db :=
  fun r' hr' hk => absurd hk (findKey_none hf r' hr')

theorem upsert_new_touch {now : Int} {a b c : DB} {k : Bytes} {ty : Int} {onNew : Int → KeyRow}
    {onOld : KeyRow → KeyRow} {r : KeyRow} (hf : a.findKey k = none)
    (he : keyUpsert a k ty onNew onOld = .ok (b, r))
    (hnew : ∀ id, (onNew id).version = 1 ∧ (onNew id).mtime = now)
    (ht : Touch r.id b c) : Fresh1 k now c := by
  intro r' hr' hk
  obtain ⟨r2, hr2, hs, _⟩ := ht.keys r' hr'
  rcases keyUpsert_cases he with ⟨_, hr, hdb⟩ | ⟨old, hf', _⟩
  · rw [hdb] at hr2
    rcases List.mem_append.1 hr2 with hr2 | hr2
    · exact absurd (hs.key.symm.trans hk) (findKey_none hf r2 hr2)
    · have : r2 = r := List.mem_singleton.1 hr2
      subst this
      rw [hs.version, hs.mtime, hr]
      exact hnew _
  · rw [hf] at hf'; cases hf'

theorem strUpsertSet_new {now : Int} (h : WF db) (k v : Bytes) (hf : db.findKey k = none)
    (onNew : Int → KeyRow) (onOld : KeyRow → KeyRow)
    (hnew : ∀ id, (onNew id).id = id ∧ (onNew id).key = k ∧ (onNew id).ty = TString ∧
      (onNew id).len = none ∧ (onNew id).version = 1 ∧ (onNew id).mtime = now)
    (hold : ∀ o, (onOld o).id = o.id ∧ (onOld o).key = o.key ∧ (onOld o).ty = o.ty ∧
      (onOld o).len = o.len) :
    Fresh1 k now (match keyUpsert db k TString onNew onOld with
      | .error e => ((.error e : Except Err DB), db)
      | .ok (db1, _) =>
        match strSet2 db1 k v with
        | .error e => (.error e, db1)
        | .ok db2 => (.ok db2, db2)).2 := by
  cases he : keyUpsert db k TString onNew onOld with
  | error e => exact Fresh1.of_absent hf
  | ok p =>
    obtain ⟨db1, r⟩ := p
    obtain ⟨d, _, h1, _, hr, hk, _, _⟩ := h.keyUpsert (ty := TString) 1 0 none (by decide)
      ⟨fun _ => ⟨rfl, rfl⟩, fun h => absurd rfl h⟩ (fun _ => rfl) he
      (fun id => ⟨(hnew id).1, (hnew id).2.1, (hnew id).2.2.1, (hnew id).2.2.2.1⟩)
      (fun o => by
        obtain ⟨a, b, c, e⟩ := hold o
        refine ⟨a, b, c, ?_⟩
        rw [e]; cases o.len <;> simp)
    obtain ⟨db2, h2, ht⟩ := strSet2_touch h1 hr v
    rw [hk] at h2
    simp only [h2]
    exact upsert_new_touch hf he (fun id => ⟨(hnew id).2.2.2.2.1, (hnew id).2.2.2.2.2⟩) ht

theorem strSetTx_new (h : WF db) {k : Bytes} (hf : db.findKey k = none) (v : Bytes)
    (et : Option Int) (now : Int) : Fresh1 k now (strSetTx db k v et now).2 :=
  strUpsertSet_new h k v hf _ _ (fun _ => ⟨rfl, rfl, rfl, rfl, rfl, rfl⟩) (fun _ => ⟨rfl, rfl, rfl, rfl⟩)

theorem strUpdateTx_new (h : WF db) {k : Bytes} (hf : db.findKey k = none) (v : Bytes)
    (now : Int) : Fresh1 k now (strUpdateTx db k v now).2 :=
  strUpsertSet_new h k v hf _ _ (fun _ => ⟨rfl, rfl, rfl, rfl, rfl, rfl⟩) (fun _ => ⟨rfl, rfl, rfl, rfl⟩)

theorem hashSetTx_new {k f v : Bytes} {now : Int} {d : DB} (hf : db.findKey k = none)
    (he : hashSetTx db k f v now = .ok d) : Fresh1 k now d := by
  unfold hashSetTx at he
  cases hk : hashSetKey db k now with
  | error e => rw [hk] at he; cases he
  | ok p =>
    obtain ⟨db1, r⟩ := p
    rw [hk] at he
    simp only [Except.ok.injEq] at he
    subst he
    exact upsert_new_touch hf hk (fun _ => ⟨rfl, rfl⟩) (hashSetRow_touch r.id f v)

theorem zAddTx_new {k e : Bytes} {s : Score} {now : Int} {d : DB} (hf : db.findKey k = none)
    (he : zAddTx db k e s now = .ok d) : Fresh1 k now d := by
  unfold zAddTx at he
  cases hk : zAddKey db k now with
  | error er => rw [hk] at he; cases he
  | ok p =>
    obtain ⟨db1, r⟩ := p
    rw [hk] at he
    simp only [Except.ok.injEq] at he
    subst he
    exact upsert_new_touch hf hk (fun _ => ⟨rfl, rfl⟩) (zSetRow_touch r.id e s)

theorem listPush_new {k : Bytes} (hf : db.findKey k = none) (e : Bytes) (front : Bool) (now : Int) :
    Fresh1 k now (listPush db k e front now).db := by
  unfold listPush
  cases hk : listPushKey db k now with
  | error er => exact Fresh1.of_absent hf
  | ok p =>
    obtain ⟨db1, r⟩ := p
    simp only
    generalize (if front = true then
        (match dyMin ((db1.lists.filter (fun x => x.kid == r.id)).map (·.pos)) with
          | none => (0 : Dyadic) | some m => round53 (m - 1))
      else _) = pos
    split
    · exact upsert_new_touch hf hk (fun _ => ⟨rfl, rfl⟩) (Touch.refl _ _)
    · refine upsert_new_touch hf hk (fun _ => ⟨rfl, rfl⟩) (Touch.setLists r.id db1 _ (fun i hi => ?_))
      exact (filter_kid_append_other (·.kid) db1.lists ({ kid := r.id, pos := pos, elem := e } : ListRow)
        (i := i) (fun (e : r.id = i) => hi e.symm)).symm

/-- a creating write to an absent name yields version 1, at `Tx` level -/
theorem create_fresh_tx (h : WF db) {op : Op} {k : Bytes} (now : Int) (hc : createKey op = some k)
    (hf : db.findKey k = none) : Fresh1 k now (Model.tx true op now db).db := by
  have h0 : Fresh1 k now db := Fresh1.of_absent hf
  cases op <;> simp only [createKey, Option.some.injEq] at hc <;> (try cases hc)
  case strSet v =>
    show Fresh1 _ now (strSet db _ v none now).db
    unfold strSet
    have := strSetTx_new h hf v none now
    split <;> (rename_i he; rw [he] at this; exact this)
  case strSetExpires v ttl =>
    show Fresh1 _ now (strSet db _ v _ now).db
    unfold strSet
    have := strSetTx_new h hf v (if ttl > 0 then some (now + ttl) else none) now
    split <;> (rename_i he; rw [he] at this; exact this)
  case strIncr d =>
    show Fresh1 _ now (strIncr db _ d now).db
    unfold strIncr
    simp only
    split
    · exact h0
    · rename_i n _
      have := strUpdateTx_new h hf (itoa (wrap64 (n + d))) now
      split <;> (rename_i he; rw [he] at this; exact this)
  case strSetWith v o =>
    show Fresh1 _ now (strSetWith db _ v o now).db
    unfold strSetWith
    simp only
    split
    · exact h0
    · split
      · exact h0
      · have h1 := strUpdateTx_new h hf v now
        have h2 := strSetTx_new h hf v (if o.ttl > 0 then some (now + o.ttl) else o.atMs) now
        split <;> rename_i he <;> split at he <;> first
          | (rw [he] at h1; exact h1)
          | (rw [he] at h2; exact h2)
  case listPushBack e => exact listPush_new hf e false now
  case listPushFront e => exact listPush_new hf e true now
  case setAdd es =>
    show Fresh1 _ now (setAdd db _ es now).db
    unfold setAdd
    cases hk : setAddKey db _ now with
    | error er => exact h0
    | ok p =>
      obtain ⟨db1, r⟩ := p
      exact upsert_new_touch hf hk (fun _ => ⟨rfl, rfl⟩) (setAddElems_touch es 0)
  case hashSet f v =>
    show Fresh1 _ now (hashSet db _ f v now).db
    unfold hashSet
    simp only
    split
    · exact h0
    · rename_i d he; exact hashSetTx_new hf he
  case hashSetNotExists f v =>
    show Fresh1 _ now (hashSetNotExists db _ f v now).db
    unfold hashSetNotExists
    split
    · exact h0
    · split
      · exact h0
      · rename_i d he; exact hashSetTx_new hf he
  case hashIncr f d =>
    show Fresh1 _ now (hashIncr db _ f d now).db
    unfold hashIncr
    simp only
    split
    · exact h0
    · split
      · exact h0
      · rename_i dd he; exact hashSetTx_new hf he
  case zAdd e s =>
    show Fresh1 _ now (zAdd db _ e s now).db
    unfold zAdd
    simp only
    split
    · exact h0
    · rename_i d he; exact zAddTx_new hf he
  case zIncr e d =>
    show Fresh1 _ now (zIncr db _ e d now).db
    unfold zIncr
    cases hk : zAddKey db _ now with
    | error er => exact h0
    | ok p =>
      obtain ⟨db1, r⟩ := p
      simp only
      split
      · exact upsert_new_touch hf hk (fun _ => ⟨rfl, rfl⟩) (zInsertNew_touch r.id e d)
      · split
        · exact upsert_new_touch hf hk (fun _ => ⟨rfl, rfl⟩) (Touch.refl _ _)
        · rename_i s _
          exact upsert_new_touch hf hk (fun _ => ⟨rfl, rfl⟩) (zSetRow_touch r.id e s)


theorem create_is_update {op : Op} {k : Bytes} (h : createKey op = some k) : wrapOf op = .update := by
  cases op <;> first | rfl | cases h

/-- the same on the handle (a refused call leaves the tables alone) -/
theorem create_fresh_db (h : WF db) {op : Op} {k : Bytes} (now : Int) (hc : createKey op = some k)
    (hf : db.findKey k = none) : Fresh1 k now (Model.dbRun op now db).db := by
  unfold Model.dbRun
  rw [create_is_update hc]
  show Fresh1 k now (update (Model.tx true op now) db).db
  unfold update
  dsimp only
  split
  · exact create_fresh_tx h now hc hf
  · exact Fresh1.of_absent hf

/-- after `Delete` of a live (or absent) name the name is free -/
theorem keyDelete_absent (h : WF db) {k : Bytes} {ks : List Bytes} {now : Int} (hk : k ∈ ks)
    (hl : (∃ r0, db.liveKey k now = some r0) ∨ db.findKey k = none) :
    (keyDelete db ks now).db.findKey k = none := by
  unfold DB.findKey
  rw [List.find?_eq_none]
  intro x hx
  have hx' : x ∈ (db.deleteKeysWhere (fun r => ks.contains r.key && r.live now)).1.keys := hx
  rw [deleteKeysWhere_keys] at hx'
  obtain ⟨hxm, hxp⟩ := List.mem_filter.1 hx'
  intro hxk
  have hxk : x.key = k := by simpa using hxk
  rcases hl with ⟨r0, hl⟩ | hl
  · obtain ⟨hr0, hk0⟩ := liveKey_some hl
    have : x = r0 := eq_of_key_eq h.uKey hxm hr0 (hxk.trans hk0.symm)
    subst this
    have hlive : x.live now = true := by
      unfold DB.liveKey at hl
      have := List.find?_some hl
      simp only [Bool.and_eq_true] at this
      exact this.2
    simp [hlive] at hxp
    exact hxp (hxk ▸ hk)
  · exact findKey_none hl x hxm hxk

/-! ### rename and the expiry commands: the exact row -/

theorem pairwise_id_map {l : List KeyRow} (hu : l.Pairwise (fun a b => a.id ≠ b.id))
    (g : KeyRow → KeyRow) (hg : ∀ o, (g o).id = o.id) :
    (l.map g).Pairwise (fun a b => a.id ≠ b.id) := by
  rw [List.pairwise_map]
  exact hu.imp (fun {a b} hab => by rw [hg a, hg b]; exact hab)

theorem renameStmt_row (h : WF db) {k nk : Bytes} {now : Int} {r : KeyRow}
    (hl : db.liveKey k now = some r) :
    rowAt (renameStmt db k nk now) r.id nk =
      some { r with key := nk, version := r.version + 1, mtime := now } := by
  unfold renameStmt
  rw [hl]
  obtain ⟨hr, _⟩ := liveKey_some hl
  show rowAt (DB.updKey (db.deleteKeysWhere (fun x => x.key == nk && x.id != r.id)).1 r.id _) r.id nk = _
  have hk1 := deleteKeysWhere_keys db (fun x => x.key == nk && x.id != r.id)
  generalize (db.deleteKeysWhere (fun x => x.key == nk && x.id != r.id)).1 = db1 at hk1
  have hr1 : r ∈ db1.keys := by
    rw [hk1]; exact List.mem_filter.2 ⟨hr, by simp⟩
  have hu1 : db1.keys.Pairwise (fun a b => a.id ≠ b.id) := by
    rw [hk1]; exact h.uId.filter _
  have hu2 := pairwise_id_map hu1
    (fun x => if x.id == r.id then ({ x with key := nk, version := x.version + 1, mtime := now } : KeyRow) else x)
    (fun o => by split <;> rfl)
  have hmem := mem_updKey_of (i := r.id)
    (f := fun o => ({ o with key := nk, version := o.version + 1, mtime := now } : KeyRow)) hr1
  simp only [beq_self_eq_true, if_true] at hmem
  exact rowAt_of_mem (db := db1.updKey r.id _) hu2 hmem

theorem keyRename_row (h : WF db) {k nk : Bytes} {now : Int} {r : KeyRow}
    (hl : db.liveKey k now = some r) (hne : k ≠ nk)
    (hok : Spec.isErr (Model.dbRun (.keyRename k nk) now db).out = false) :
    rowAt (Model.dbRun (.keyRename k nk) now db).db r.id nk =
      some { r with key := nk, version := r.version + 1, mtime := now } := by
  have hrun : Model.dbRun (.keyRename k nk) now db = update (fun d => keyRename d k nk now) db := rfl
  have hrow := renameStmt_row h (nk := nk) hl
  have hkne : (k == nk) = false := by simpa using hne
  have hres : keyRename db k nk now = Res.ok .nil (renameStmt db k nk now) ∨
      Spec.isErr (keyRename db k nk now).out = true := by
    unfold keyRename
    simp only [hl, hkne]
    by_cases hem : r.key.isEmpty = true
    · right; simp only [hem, if_true]; rfl
    · simp only [hem, Bool.false_eq_true, if_false]
      cases hlnk : db.liveKey nk now with
      | none => left; rfl
      | some newK =>
        simp only
        by_cases hty : (r.ty != newK.ty) = true
        · right; simp only [hty, if_true]; rfl
        · left; simp only [hty, Bool.false_eq_true, if_false]
  rw [hrun] at hok ⊢
  rcases hres with hres | hres
  · have : update (fun d => keyRename d k nk now) db = Res.ok .nil (renameStmt db k nk now) := by
      unfold update; simp only [hres]; rfl
    rw [this]; exact hrow
  · rw [update_out] at hok
    rw [hres] at hok; cases hok

theorem expUpd_row (h : WF db) {r : KeyRow} (hr : r ∈ db.keys) (f : KeyRow → KeyRow)
    (hf : ∀ o, (f o).id = o.id ∧ (f o).key = o.key) :
    rowAt (db.updKey r.id f) r.id r.key = some (f r) := by
  have hu2 := pairwise_id_map h.uId (fun x => if x.id == r.id then f x else x)
    (fun o => by split <;> first | exact (hf o).1 | rfl)
  have hmem := mem_updKey_of (i := r.id) (f := f) hr
  simp only [beq_self_eq_true, if_true] at hmem
  have := rowAt_of_mem (db := db.updKey r.id f) hu2 hmem
  rw [(hf r).1, (hf r).2] at this
  exact this

theorem keyExpireAt_row (h : WF db) {k : Bytes} {now : Int} {r : KeyRow}
    (hl : db.liveKey k now = some r) (t : Int) :
    rowAt (keyExpireAt db k t now).db r.id k =
      some { r with version := r.version + 1, etime := some t } := by
  obtain ⟨hr, hk⟩ := liveKey_some hl
  subst hk
  unfold keyExpireAt
  rw [hl]
  exact expUpd_row h hr (fun o => { o with version := o.version + 1, etime := some t })
    (fun _ => ⟨rfl, rfl⟩)

theorem keyPersist_row (h : WF db) {k : Bytes} {now : Int} {r : KeyRow}
    (hl : db.liveKey k now = some r) :
    rowAt (keyPersist db k now).db r.id k =
      some { r with version := r.version + 1, etime := none } := by
  obtain ⟨hr, hk⟩ := liveKey_some hl
  subst hk
  unfold keyPersist
  rw [hl]
  exact expUpd_row h hr (fun o => { o with version := o.version + 1, etime := none })
    (fun _ => ⟨rfl, rfl⟩)

/-! ### the destination of a successful store -/

theorem store_dest_row (h : WF db) {op : Op} {d : Bytes} {now : Int} (hd : Spec.storeDest op = some d)
    (hne : emptyStore op = false) (hE : Spec.isErr (Model.dbRun op now db).out = false) :
    ∀ r' ∈ (Model.dbRun op now db).db.keys, r'.key = d →
      r'.mtime = now ∧ DestCase now d (storeTy op) db (Model.dbRun op now db).db false r' := by
  intro r' hr' hk
  have hs := db_sum op now db h
  cases hs with
  | eff _ hs' =>
    rcases hs' with hs' | hs'
    · rw [hs'] at hd; cases hd
    · rw [hs'] at hE; cases hE
  | exp _ hs' => rw [hs'] at hd; cases hd
  | store d' hd' hst =>
    have : d' = d := by rw [hd] at hd'; exact (Option.some.inj hd').symm
    subst this
    rcases hst with ⟨_, hor⟩ | ⟨_, _, hall⟩
    · rcases hor with hor | hor
      · rw [hor.1] at hE; cases hE
      · rw [hor] at hne; cases hne
    · have := (hall r' hr').2 hk
      rw [hE] at this
      exact this

end Redka.MetaProofs
