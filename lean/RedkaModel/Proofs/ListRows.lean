/-
  The `rlist` table against the abstraction: what deleting rows, inserting a row and overwriting
  an element do to the ordered rows of one list (`Model.listRows`), the part of the C11 invariant
  the list proofs need (`DB.LWF`), and the generic "a name now stores this typed value" step
  (`Stored`, the `Written` of Proofs/Str.lean for any type).
-/
import RedkaModel.Proofs.Abs
import RedkaModel.Proofs.ListOrd

namespace Redka.Model

open Redka Redka.Scan Redka.ListOrd

/-! ### ordered rows of one list, on the bare table -/

/-- `listRows` as a function of the table only -/
def rowsOf (L : List ListRow) (kid : Int) : List ListRow :=
  sortBy (fun a b => decide (a.pos < b.pos)) (L.filter (fun r => r.kid == kid))

theorem listRows_eq_rowsOf (db : DB) (kid : Int) : listRows db kid = rowsOf db.lists kid := rfl

/-- `(kid, pos)` is unique -/
def PosNodup (L : List ListRow) : Prop := (L.map (fun r => (r.kid, r.pos))).Nodup

/-- strictly increasing positions -/
def PosSorted (l : List ListRow) : Prop := l.Pairwise (fun a b => decide (a.pos < b.pos) = true)

theorem PosSorted.lt {l : List ListRow} (h : PosSorted l) :
    l.Pairwise (fun a b => a.pos < b.pos) :=
  List.Pairwise.imp (fun h => of_decide_eq_true h) h

theorem mem_rowsOf {L : List ListRow} {kid : Int} {x : ListRow} :
    x ∈ rowsOf L kid ↔ x ∈ L ∧ x.kid = kid := by
  unfold rowsOf
  rw [mem_sortBy, List.mem_filter]
  simp

theorem length_rowsOf (L : List ListRow) (kid : Int) :
    (rowsOf L kid).length = (L.filter (fun r => r.kid == kid)).length := length_sortBy _ _

theorem PosNodup.filter_pos {L : List ListRow} (h : PosNodup L) (kid : Int) :
    ((L.filter (fun r => r.kid == kid)).map (·.pos)).Nodup := by
  have h1 : ((L.filter (fun r => r.kid == kid)).map (fun r => (r.kid, r.pos))).Nodup :=
    List.Nodup.sublist (List.Sublist.map _ List.filter_sublist) h
  have h2 : (L.filter (fun r => r.kid == kid)).map (fun r => (r.kid, r.pos))
      = ((L.filter (fun r => r.kid == kid)).map (·.pos)).map (fun p => (kid, p)) := by
    rw [List.map_map]
    apply List.map_congr_left
    intro x hx
    have := (List.mem_filter.1 hx).2
    have hk : x.kid = kid := by simpa using this
    simp [hk]
  rw [h2] at h1
  unfold List.Nodup at h1 ⊢
  rw [List.pairwise_map] at h1
  exact List.Pairwise.imp (fun hne he => hne (by rw [he])) h1

theorem rowsOf_sorted {L : List ListRow} (h : PosNodup L) (kid : Int) : PosSorted (rowsOf L kid) :=
  pairwise_sortBy (fun r : ListRow => r.pos) strictTotal_dy _ (h.filter_pos kid)

/-- the ordered rows are the only strictly increasing list with these members -/
theorem rowsOf_eq {L : List ListRow} (h : PosNodup L) {kid : Int} {l : List ListRow}
    (hs : PosSorted l) (hm : ∀ z, z ∈ l ↔ z ∈ L ∧ z.kid = kid) : rowsOf L kid = l := by
  apply pairwise_ext (fun r : ListRow => r.pos) strictTotal_dy (rowsOf_sorted h kid) hs
  intro z
  rw [mem_rowsOf, hm]

theorem PosSorted.nodup {l : List ListRow} (h : PosSorted l) : l.Nodup :=
  nodup_of_pairwise (fun r : ListRow => r.pos) strictTotal_dy h

theorem PosSorted.pos_inj {l : List ListRow} (h : PosSorted l) :
    ∀ x ∈ l, ∀ y ∈ l, x.pos = y.pos → x = y :=
  key_inj_of_pairwise (fun r : ListRow => r.pos) strictTotal_dy h

theorem PosSorted.filter {l : List ListRow} (h : PosSorted l) (q : ListRow → Bool) :
    PosSorted (l.filter q) := List.Pairwise.filter _ h

theorem PosSorted.sublist {l l' : List ListRow} (h : PosSorted l) (hs : l'.Sublist l) :
    PosSorted l' := List.Pairwise.sublist hs h

/-! ### deleting rows -/

theorem PosNodup.filter {L : List ListRow} (h : PosNodup L) (q : ListRow → Bool) :
    PosNodup (L.filter q) :=
  List.Nodup.sublist (List.Sublist.map _ List.filter_sublist) h

theorem rowsOf_delete {L : List ListRow} (h : PosNodup L) (kid : Int) (V : List Dyadic) :
    rowsOf (L.filter (fun r => !(r.kid == kid && V.contains r.pos))) kid
      = (rowsOf L kid).filter (fun x => !V.contains x.pos) := by
  apply rowsOf_eq (h.filter _) ((rowsOf_sorted h kid).filter _)
  intro z
  rw [List.mem_filter, mem_rowsOf, List.mem_filter]
  constructor
  · rintro ⟨⟨h1, h2⟩, h3⟩
    exact ⟨⟨h1, by simpa [h2] using h3⟩, h2⟩
  · rintro ⟨⟨h1, h3⟩, h2⟩
    exact ⟨⟨h1, h2⟩, by simpa [h2] using h3⟩

theorem filter_other_delete (L : List ListRow) {kid id' : Int} (hne : id' ≠ kid) (V : List Dyadic) :
    (L.filter (fun r => !(r.kid == kid && V.contains r.pos))).filter (fun r => r.kid == id')
      = L.filter (fun r => r.kid == id') := by
  rw [List.filter_filter]
  apply List.filter_congr
  intro x _
  by_cases hx : x.kid = id'
  · have : ¬ x.kid = kid := fun h => hne (hx ▸ h)
    simp [this]
  · simp [hx]

/-! ### inserting a row -/

theorem PosNodup.append {L : List ListRow} (h : PosNodup L) {kid : Int} {p : Dyadic} (e : Bytes)
    (hp : ∀ x ∈ L, x.kid = kid → x.pos ≠ p) : PosNodup (L ++ [{ kid := kid, pos := p, elem := e }]) := by
  unfold PosNodup
  rw [List.map_append, List.nodup_append]
  refine ⟨h, by simp, ?_⟩
  intro a ha b hb
  simp only [List.map_cons, List.map_nil, List.mem_singleton] at hb
  obtain ⟨x, hx, rfl⟩ := List.mem_map.1 ha
  rw [hb]
  intro he
  simp only [Prod.mk.injEq] at he
  exact hp x hx he.1 he.2

theorem rowsOf_insert {L : List ListRow} {kid : Int} {p : Dyadic} {e : Bytes}
    (h' : PosNodup (L ++ [{ kid := kid, pos := p, elem := e }]))
    {pre post : List ListRow} (hsplit : rowsOf L kid = pre ++ post) (hs : PosSorted (pre ++ post))
    (hpre : ∀ x ∈ pre, x.pos < p) (hpost : ∀ x ∈ post, p < x.pos) :
    rowsOf (L ++ [{ kid := kid, pos := p, elem := e }]) kid
      = pre ++ ({ kid := kid, pos := p, elem := e } : ListRow) :: post := by
  apply rowsOf_eq h'
  · have hs' := List.pairwise_append.1 hs
    unfold PosSorted
    rw [List.pairwise_append]
    refine ⟨hs'.1, List.Pairwise.cons ?_ hs'.2.1, ?_⟩
    · intro x hx; exact decide_eq_true (hpost x hx)
    · intro a ha b hb
      rcases List.mem_cons.1 hb with rfl | hb
      · exact decide_eq_true (hpre a ha)
      · exact hs'.2.2 a ha b hb
  · intro z
    have hm : z ∈ pre ++ post ↔ z ∈ L ∧ z.kid = kid := by rw [← hsplit, mem_rowsOf]
    simp only [List.mem_append, List.mem_cons, List.not_mem_nil, or_false] at hm ⊢
    constructor
    · rintro (h1 | h1 | h1)
      · exact ⟨Or.inl (hm.1 (Or.inl h1)).1, (hm.1 (Or.inl h1)).2⟩
      · subst h1; exact ⟨Or.inr rfl, rfl⟩
      · exact ⟨Or.inl (hm.1 (Or.inr h1)).1, (hm.1 (Or.inr h1)).2⟩
    · rintro ⟨h1 | h1, h2⟩
      · rcases hm.2 ⟨h1, h2⟩ with h3 | h3
        · exact Or.inl h3
        · exact Or.inr (Or.inr h3)
      · exact Or.inr (Or.inl h1)

theorem filter_other_append (L : List ListRow) {kid id' : Int} (hne : id' ≠ kid) (p : Dyadic) (e : Bytes) :
    (L ++ [({ kid := kid, pos := p, elem := e } : ListRow)]).filter (fun r => r.kid == id')
      = L.filter (fun r => r.kid == id') := by
  rw [List.filter_append]
  have : ¬ kid = id' := fun h => hne h.symm
  simp [this]

theorem filter_self_append_length (L : List ListRow) (kid : Int) (p : Dyadic) (e : Bytes) :
    ((L ++ [({ kid := kid, pos := p, elem := e } : ListRow)]).filter (fun r => r.kid == kid)).length
      = (L.filter (fun r => r.kid == kid)).length + 1 := by
  rw [List.filter_append]
  simp

/-! ### overwriting an element -/

/-- `update rlist set elem = ? where kid = ? and pos = ?` -/
def setElemRow (kid : Int) (p : Dyadic) (e : Bytes) (x : ListRow) : ListRow :=
  if x.kid == kid && x.pos == p then { x with elem := e } else x

theorem setElemRow_kid (kid : Int) (p : Dyadic) (e : Bytes) (x : ListRow) :
    (setElemRow kid p e x).kid = x.kid := by unfold setElemRow; split <;> rfl

theorem setElemRow_pos (kid : Int) (p : Dyadic) (e : Bytes) (x : ListRow) :
    (setElemRow kid p e x).pos = x.pos := by unfold setElemRow; split <;> rfl

theorem insertSortedBy_map_l {β : Type} (lt : β → β → Bool) (g : β → β)
    (hg : ∀ a b, lt (g a) (g b) = lt a b) (x : β) :
    ∀ l : List β, insertSortedBy lt (g x) (l.map g) = (insertSortedBy lt x l).map g
  | [] => rfl
  | y :: ys => by
    simp only [List.map_cons, insertSortedBy, hg]
    split
    · rfl
    · rw [List.map_cons, insertSortedBy_map_l lt g hg x ys]

theorem sortBy_map_l {β : Type} (lt : β → β → Bool) (g : β → β)
    (hg : ∀ a b, lt (g a) (g b) = lt a b) :
    ∀ l : List β, sortBy lt (l.map g) = (sortBy lt l).map g
  | [] => rfl
  | y :: ys => by
    have ih := sortBy_map_l lt g hg ys
    simp only [sortBy, List.map_cons, List.foldr_cons] at ih ⊢
    rw [ih, insertSortedBy_map_l lt g hg]

theorem rowsOf_setElem (L : List ListRow) (kid : Int) (p : Dyadic) (e : Bytes) :
    rowsOf (L.map (setElemRow kid p e)) kid
      = (rowsOf L kid).map (fun x => if x.pos == p then { x with elem := e } else x) := by
  unfold rowsOf
  rw [List.filter_map]
  have hf : ((fun r : ListRow => r.kid == kid) ∘ setElemRow kid p e) = (fun r => r.kid == kid) := by
    funext x; simp [Function.comp, setElemRow_kid]
  rw [hf, sortBy_map_l _ _ (by intro a b; simp [setElemRow_pos])]
  apply List.map_congr_left
  intro x hx
  have hk : x.kid = kid := by
    have := (mem_sortBy _ x _).1 hx
    simpa using (List.mem_filter.1 this).2
  simp [setElemRow, hk]

theorem PosNodup.setElem {L : List ListRow} (h : PosNodup L) (kid : Int) (p : Dyadic) (e : Bytes) :
    PosNodup (L.map (setElemRow kid p e)) := by
  unfold PosNodup at h ⊢
  rw [List.map_map]
  have : ((fun r : ListRow => (r.kid, r.pos)) ∘ setElemRow kid p e) = (fun r => (r.kid, r.pos)) := by
    funext x; simp [Function.comp, setElemRow_kid, setElemRow_pos]
  rw [this]; exact h

theorem filter_setElem (L : List ListRow) (kid : Int) (p : Dyadic) (e : Bytes) (id' : Int) :
    ((L.map (setElemRow kid p e)).filter (fun r => r.kid == id')).length
      = (L.filter (fun r => r.kid == id')).length := by
  rw [List.filter_map]
  have hf : ((fun r : ListRow => r.kid == id') ∘ setElemRow kid p e) = (fun r => r.kid == id') := by
    funext x; simp [Function.comp, setElemRow_kid]
  rw [hf, List.length_map]

theorem filter_other_setElem (L : List ListRow) {kid id' : Int} (hne : id' ≠ kid) (p : Dyadic) (e : Bytes) :
    (L.map (setElemRow kid p e)).filter (fun r => r.kid == id') = L.filter (fun r => r.kid == id') := by
  rw [List.filter_map]
  have hf : ((fun r : ListRow => r.kid == id') ∘ setElemRow kid p e) = (fun r => r.kid == id') := by
    funext x; simp [Function.comp, setElemRow_kid]
  rw [hf]
  conv => rhs; rw [← List.map_id (L.filter fun r => r.kid == id')]
  apply List.map_congr_left
  intro x hx
  have hk : x.kid = id' := by simpa using (List.mem_filter.1 hx).2
  have : ¬ x.kid = kid := fun h => hne (hk ▸ h)
  simp [setElemRow, this]

end Redka.Model

/-! ### the invariant part the list proofs use -/

namespace Redka.DB

open Redka Redka.Model

/-- `DB.WF` plus the three facts about `rlist` in the C11 audit: the cached length of a list key
is its number of rows, `(kid, pos)` is unique, every row has an owner. -/
structure LWF (db : DB) : Prop where
  wf : db.WF
  listLen : ∀ r ∈ db.keys, r.ty = TList →
    r.len = some (((db.lists.filter (fun x => x.kid == r.id)).length : Nat) : Int)
  listPos : PosNodup db.lists
  listOwner : ∀ x ∈ db.lists, ∃ r ∈ db.keys, r.id = x.kid

theorem Inv.lwf {db : DB} (h : db.Inv) : db.LWF := by
  refine ⟨Inv.wf h, ?_, ?_, ?_⟩
  · unfold Inv invB at h
    simp only [Bool.and_eq_true] at h
    obtain ⟨⟨hk, _⟩, _⟩ := h
    unfold keysOk at hk
    rw [List.all_eq_true] at hk
    intro r hr hty
    have := hk r hr
    simp only [Bool.and_eq_true, decide_eq_true_eq] at this
    have h2 := this.2
    have hns : ¬ (r.ty == TString) = true := by simp [hty, TList, TString]
    rw [if_neg hns] at h2
    have h3 : r.len = some (db.childCount r) := by simpa using h2
    rw [h3]
    simp [childCount, hty]
  · unfold Inv invB at h
    simp only [Bool.and_eq_true] at h
    obtain ⟨_, hu⟩ := h
    unfold uniqueOk at hu
    simp only [Bool.and_eq_true, nodupB_iff] at hu
    exact hu.1.1.1.1.1.1.2
  · unfold Inv invB at h
    simp only [Bool.and_eq_true] at h
    obtain ⟨⟨_, ho⟩, _⟩ := h
    unfold ownersOk at ho
    simp only [Bool.and_eq_true] at ho
    have hl := ho.1.1.1.2
    rw [List.all_eq_true] at hl
    intro x hx
    have := hl x hx
    unfold ownerOk at this
    obtain ⟨r, hr, hc⟩ := List.any_eq_true.1 this
    simp only [Bool.and_eq_true, beq_iff_eq] at hc
    exact ⟨r, hr, hc.1⟩

theorem LWF.rows_sorted {db : DB} (h : db.LWF) (kid : Int) : PosSorted (listRows db kid) :=
  rowsOf_sorted h.listPos kid

theorem LWF.len_eq {db : DB} (h : db.LWF) {r : KeyRow} (hr : r ∈ db.keys) (ht : r.ty = TList) :
    r.len = some (((listRows db r.id).length : Nat) : Int) := by
  rw [h.listLen r hr ht, listRows_eq_rowsOf, length_rowsOf]

/-- a fresh key id owns no rows -/
theorem LWF.no_rows_fresh {db : DB} (h : db.LWF) :
    db.lists.filter (fun x => x.kid == db.nextKeyId) = [] := by
  rw [List.filter_eq_nil_iff]
  intro x hx hk
  obtain ⟨r, hr, hid⟩ := h.listOwner x hx
  have hk : x.kid = db.nextKeyId := by simpa using hk
  exact nextKeyId_fresh db r hr (by rw [hid, hk])

/-- `update rkey set … where id = ?` on a table with unique ids only looks at the one row -/
theorem updKey_const {db : DB} (hi : (db.keys.map (·.id)).Nodup) {old : KeyRow} (ho : old ∈ db.keys)
    (f : KeyRow → KeyRow) : db.updKey old.id f = db.updKey old.id (fun _ => f old) := by
  unfold updKey
  congr 1
  apply List.map_congr_left
  intro x hx
  by_cases hxo : x.id = old.id
  · have : x = old := id_inj hi hx ho hxo
    simp [this]
  · simp [hxo]

end Redka.DB

/-! ### a name now stores a typed value -/

namespace Redka.Spec

open Redka Redka.Model Redka.DB

/-- `db2` is `db` with the name `k` now stored as row `r` holding the value `v`; nothing else is
different as far as the abstraction can see -/
structure Stored (db db2 : DB) (k : Bytes) (r : KeyRow) (v : SVal) : Prop where
  find : ∀ k', db2.findKey k' = if k == k' then some r else db.findKey k'
  val : absVal db2 r = some v
  frame : ∀ r' ∈ db.keys, r'.key ≠ k → absVal db2 r' = absVal db r'

theorem Stored.abs {db db2 : DB} {k : Bytes} {r : KeyRow} {v : SVal}
    (hn : (db.keys.map (·.key)).Nodup) (hn2 : (db2.keys.map (·.key)).Nodup)
    (h : Stored db db2 k r v) (now : Int) :
    abs now db2 = purge now (put (abs now db) k ⟨v, r.etime⟩) := by
  have hs := ((sorted_abs hn now).put k ⟨v, r.etime⟩).purge now
  apply abs_ext hn2 hs
  intro k'
  rw [get_purge ((sorted_abs hn now).put k _), get_put, h.find]
  by_cases hk : k = k'
  · subst hk
    simp only [beq_self_eq_true, if_true, Option.bind_some, rowEntry, h.val, Option.map_some]
    rfl
  · have : (k == k') = false := by simpa using hk
    simp only [this, Bool.false_eq_true, if_false]
    rw [← get_purge (sorted_abs hn now), purge_abs hn, get_abs hn]
    cases hf : db.findKey k' with
    | none => rfl
    | some r' =>
      obtain ⟨hm, hmk⟩ := findKey_mem hf
      simp only [Option.bind_some, rowEntry]
      rw [h.frame r' hm (by rw [hmk]; exact fun he => hk he.symm)]

/-- storing what is already there changes nothing -/
theorem put_same {s : State} (hs : Sorted s) {k : Bytes} {e : Entry} (h : get s k = some e) :
    put s k e = s := by
  apply sorted_ext (hs.put k e) hs
  intro k'
  have := get_put s k e k'
  unfold get at this h
  rw [this]
  by_cases hk : k = k'
  · subst hk; simp [h]
  · simp [hk]

theorem absVal_list {db : DB} {r : KeyRow} (h : r.ty = TList) :
    absVal db r = some (.list ((listRows db r.id).map (·.elem))) := by
  simp [absVal, h, TString, TList]

/-- a row that is not a list has a value (given `WF`), and it is not a list -/
theorem absVal_nonlist {db : DB} (hw : db.WF) {r : KeyRow} (hr : r ∈ db.keys) (h1 : r.ty ≠ TList) :
    ∃ v, absVal db r = some v ∧ ∀ l, v ≠ .list l := by
  have h2 := hw.tyOk r hr
  have : r.ty = 1 ∨ r.ty = 3 ∨ r.ty = 4 ∨ r.ty = 5 := by
    simp only [TList] at h1; omega
  rcases this with h | h | h | h
  · obtain ⟨s, hs, hk⟩ := hw.strRow r hr h
    rw [absVal_str h]
    cases hfs : db.strs.find? (fun s => s.kid == r.id) with
    | none =>
      rw [List.find?_eq_none] at hfs
      exact absurd (by simp [hk]) (hfs s hs)
    | some s' => exact ⟨_, rfl, by intro l; simp⟩
  all_goals simp [absVal, h, TString, TList, TSet, THash, TZSet]

end Redka.Spec
