/-
  Order facts used by the list family (C02): positions are `Dyadic`s under their linear order,
  a strictly sorted list is determined by its members, minimum / maximum of a list of positions,
  and list-level lemmas about removing occurrences, inserting next to a pivot, and selecting
  sublists of a list without duplicates.
-/
import RedkaModel.Proofs.ScanInst
import RedkaModel.Model.List
import RedkaModel.Spec.Seq

namespace Redka.ListOrd

open Redka Redka.Scan Redka.Model

/-! ### the order on positions -/

theorem dy_lt_irrefl (a : Dyadic) : ¬ a < a := Std.lt_irrefl

theorem dy_lt_trans {a b c : Dyadic} (h1 : a < b) (h2 : b < c) : a < c := Std.lt_trans h1 h2

theorem dy_lt_of_le_of_lt {a b c : Dyadic} (h1 : a ≤ b) (h2 : b < c) : a < c :=
  Std.lt_of_le_of_lt h1 h2

theorem dy_lt_of_lt_of_le {a b c : Dyadic} (h1 : a < b) (h2 : b ≤ c) : a < c :=
  Std.lt_of_lt_of_le h1 h2

theorem dy_le_of_lt {a b : Dyadic} (h : a < b) : a ≤ b := Std.le_of_lt h

theorem dy_lt_asymm {a b : Dyadic} (h : a < b) : ¬ b < a := fun h' => dy_lt_irrefl a (dy_lt_trans h h')

theorem dy_lt_or_eq_of_le {a b : Dyadic} (h : a ≤ b) : a < b ∨ a = b := by
  by_cases h' : b ≤ a
  · exact Or.inr (Dyadic.le_antisymm h h')
  · exact Or.inl (Dyadic.not_lt.1 h')

theorem dy_lt_of_le_of_ne {a b : Dyadic} (h : a ≤ b) (hne : a ≠ b) : a < b := by
  rcases dy_lt_or_eq_of_le h with h | h
  · exact h
  · exact absurd h hne

theorem dy_ne_of_lt {a b : Dyadic} (h : a < b) : a ≠ b := fun he => dy_lt_irrefl a (he ▸ h)

theorem strictTotal_dy : StrictTotal (fun (a b : Dyadic) => decide (a < b)) where
  irrefl := by intro a; simp [dy_lt_irrefl a]
  trans := by
    intro a b c h1 h2
    simp only [decide_eq_true_eq] at h1 h2 ⊢
    exact dy_lt_trans h1 h2
  connected := by
    intro a b h1 h2
    simp only [decide_eq_false_iff_not] at h1 h2
    exact Dyadic.le_antisymm (Dyadic.not_le.1 h2) (Dyadic.not_le.1 h1)

/-! ### a strictly sorted list is determined by its members -/

section uniq
variable {β κ : Type} {ltk : κ → κ → Bool} (g : β → κ)

theorem pairwise_ext (ho : StrictTotal ltk) :
    ∀ {a b : List β}, a.Pairwise (fun x y => ltk (g x) (g y) = true) →
      b.Pairwise (fun x y => ltk (g x) (g y) = true) → (∀ z, z ∈ a ↔ z ∈ b) → a = b
  | [], [], _, _, _ => rfl
  | [], y :: _, _, _, h => by have := (h y).2 (by simp); cases this
  | x :: _, [], _, _, h => by have := (h x).1 (by simp); cases this
  | x :: a, y :: b, ha, hb, h => by
    have ha' := List.pairwise_cons.1 ha
    have hb' := List.pairwise_cons.1 hb
    have hxy : x = y := by
      rcases List.mem_cons.1 ((h x).1 (by simp)) with h1 | h1
      · exact h1
      · rcases List.mem_cons.1 ((h y).2 (by simp)) with h2 | h2
        · exact h2.symm
        · have := ho.trans _ _ _ (ha'.1 y h2) (hb'.1 x h1)
          rw [ho.irrefl] at this; cases this
    subst hxy
    have htl : ∀ z, z ∈ a ↔ z ∈ b := by
      intro z
      constructor
      · intro hz
        rcases List.mem_cons.1 ((h z).1 (List.mem_cons_of_mem _ hz)) with h1 | h1
        · have := ha'.1 z hz
          rw [h1, ho.irrefl] at this; cases this
        · exact h1
      · intro hz
        rcases List.mem_cons.1 ((h z).2 (List.mem_cons_of_mem _ hz)) with h1 | h1
        · have := hb'.1 z hz
          rw [h1, ho.irrefl] at this; cases this
        · exact h1
    rw [pairwise_ext ho ha'.2 hb'.2 htl]

/-- a strictly sorted list has no duplicates -/
theorem nodup_of_pairwise (ho : StrictTotal ltk) {a : List β}
    (h : a.Pairwise (fun x y => ltk (g x) (g y) = true)) : a.Nodup := by
  unfold List.Nodup
  refine List.Pairwise.imp ?_ h
  intro x y hxy he
  rw [he, ho.irrefl] at hxy; cases hxy

theorem key_inj_of_pairwise (ho : StrictTotal ltk) {a : List β}
    (h : a.Pairwise (fun x y => ltk (g x) (g y) = true)) :
    ∀ x ∈ a, ∀ y ∈ a, g x = g y → x = y := by
  induction a with
  | nil => intro x hx; cases hx
  | cons z a ih =>
    have h' := List.pairwise_cons.1 h
    intro x hx y hy he
    rcases List.mem_cons.1 hx with h1 | h1 <;> rcases List.mem_cons.1 hy with h2 | h2
    · rw [h1, h2]
    · have := h'.1 y h2; rw [← h1, he, ho.irrefl] at this; cases this
    · have := h'.1 x h1; rw [← h2, he, ho.irrefl] at this; cases this
    · exact ih h'.2 x h1 y h2 he

end uniq

/-! ### minimum and maximum of a list of positions -/

theorem dyMin_eq_none {l : List Dyadic} : dyMin l = none ↔ l = [] := by
  cases l with
  | nil => simp [dyMin]
  | cons x xs =>
    simp only [dyMin]
    cases dyMin xs <;> simp

theorem dyMax_eq_none {l : List Dyadic} : dyMax l = none ↔ l = [] := by
  cases l with
  | nil => simp [dyMax]
  | cons x xs =>
    simp only [dyMax]
    cases dyMax xs <;> simp

theorem dyMin_spec : ∀ {l : List Dyadic} {m : Dyadic}, dyMin l = some m → m ∈ l ∧ ∀ y ∈ l, m ≤ y
  | [], _, h => by cases h
  | x :: xs, m, h => by
    simp only [dyMin] at h
    cases hm : dyMin xs with
    | none =>
      rw [hm] at h
      have hx : xs = [] := dyMin_eq_none.1 hm
      cases h; subst hx
      exact ⟨by simp, by intro y hy; simp at hy; rw [hy]; exact Dyadic.le_refl _⟩
    | some m' =>
      rw [hm] at h
      obtain ⟨hmem, hle⟩ := dyMin_spec hm
      simp only [Option.some.injEq] at h
      by_cases hlt : x < m'
      · rw [if_pos hlt] at h; subst h
        refine ⟨by simp, ?_⟩
        intro y hy
        rcases List.mem_cons.1 hy with rfl | hy
        · exact Dyadic.le_refl _
        · exact dy_le_of_lt (dy_lt_of_lt_of_le hlt (hle y hy))
      · rw [if_neg hlt] at h; subst h
        refine ⟨List.mem_cons_of_mem _ hmem, ?_⟩
        intro y hy
        rcases List.mem_cons.1 hy with rfl | hy
        · exact Dyadic.not_le.1 hlt
        · exact hle y hy

theorem dyMax_spec : ∀ {l : List Dyadic} {m : Dyadic}, dyMax l = some m → m ∈ l ∧ ∀ y ∈ l, y ≤ m
  | [], _, h => by cases h
  | x :: xs, m, h => by
    simp only [dyMax] at h
    cases hm : dyMax xs with
    | none =>
      rw [hm] at h
      have hx : xs = [] := dyMax_eq_none.1 hm
      cases h; subst hx
      exact ⟨by simp, by intro y hy; simp at hy; rw [hy]; exact Dyadic.le_refl _⟩
    | some m' =>
      rw [hm] at h
      obtain ⟨hmem, hle⟩ := dyMax_spec hm
      simp only [Option.some.injEq] at h
      by_cases hlt : m' < x
      · rw [if_pos hlt] at h; subst h
        refine ⟨by simp, ?_⟩
        intro y hy
        rcases List.mem_cons.1 hy with rfl | hy
        · exact Dyadic.le_refl _
        · exact dy_le_of_lt (dy_lt_of_le_of_lt (hle y hy) hlt)
      · rw [if_neg hlt] at h; subst h
        refine ⟨List.mem_cons_of_mem _ hmem, ?_⟩
        intro y hy
        rcases List.mem_cons.1 hy with rfl | hy
        · exact Dyadic.not_le.1 hlt
        · exact hle y hy

/-- the minimum is the member below all others -/
theorem dyMin_eq_of {l : List Dyadic} {m : Dyadic} (hm : m ∈ l) (hle : ∀ y ∈ l, m ≤ y) :
    dyMin l = some m := by
  cases h : dyMin l with
  | none => rw [dyMin_eq_none.1 h] at hm; cases hm
  | some m' =>
    obtain ⟨h1, h2⟩ := dyMin_spec h
    rw [Dyadic.le_antisymm (h2 m hm) (hle m' h1)]

theorem dyMax_eq_of {l : List Dyadic} {m : Dyadic} (hm : m ∈ l) (hle : ∀ y ∈ l, y ≤ m) :
    dyMax l = some m := by
  cases h : dyMax l with
  | none => rw [dyMax_eq_none.1 h] at hm; cases hm
  | some m' =>
    obtain ⟨h1, h2⟩ := dyMax_spec h
    rw [Dyadic.le_antisymm (hle m' h1) (h2 m hm)]

/-! ### selecting and removing members of a list without duplicates -/

section lists
variable {α : Type} [DecidableEq α]

omit [DecidableEq α] in
theorem length_filter_add_not (p : α → Bool) : ∀ l : List α,
    (l.filter p).length + (l.filter (fun x => !p x)).length = l.length
  | [] => rfl
  | x :: xs => by
    have ih := length_filter_add_not p xs
    cases h : p x <;> simp [h] <;> omega

/-- removing the members of a duplicate-free sublist-as-a-set shortens the list by its length -/
theorem length_filter_not_mem {l S : List α} (hl : l.Nodup) (hS : S.Nodup) (hsub : ∀ x ∈ S, x ∈ l) :
    (l.filter (fun x => !S.contains x)).length + S.length = l.length := by
  have hperm : (l.filter (fun x => S.contains x)).Perm S := by
    rw [List.perm_ext_iff_of_nodup (List.Nodup.sublist List.filter_sublist hl) hS]
    intro a
    rw [List.mem_filter]
    constructor
    · rintro ⟨_, h⟩; simpa using h
    · intro h; exact ⟨hsub a h, by simpa using h⟩
  have := length_filter_add_not (fun x => S.contains x) l
  rw [hperm.length_eq] at this
  omega

theorem filter_not_head {x : α} {xs : List α} (h : (x :: xs).Nodup) :
    (x :: xs).filter (fun y => ![x].contains y) = xs := by
  have h' := List.nodup_cons.1 h
  rw [List.filter_cons]
  simp only [List.contains_cons, beq_self_eq_true, Bool.true_or, Bool.not_true, Bool.false_eq_true,
    if_false]
  rw [List.filter_eq_self]
  intro a ha
  have : ¬ a = x := fun he => h'.1 (he ▸ ha)
  simp [this]

theorem filter_not_last {l : List α} {x : α} (h : (l ++ [x]).Nodup) :
    (l ++ [x]).filter (fun y => ![x].contains y) = l := by
  have h' := List.nodup_append.1 h
  rw [List.filter_append]
  have h1 : l.filter (fun y => ![x].contains y) = l := by
    rw [List.filter_eq_self]
    intro a ha
    have : ¬ a = x := fun he => h'.2.2 a ha x (by simp) he
    simp [this]
  rw [h1]
  simp

theorem filter_not_filter (q : α → Bool) (l : List α) :
    l.filter (fun y => !(l.filter q).contains y) = l.filter (fun y => !q y) := by
  apply List.filter_congr
  intro x hx
  cases hq : q x
  · have : x ∉ l.filter q := fun h => by simp [List.mem_filter, hq] at h
    simp [this]
  · have : x ∈ l.filter q := List.mem_filter.2 ⟨hx, hq⟩
    simp [this]

/-- the members of a sublist, selected from a duplicate-free list, are that sublist -/
theorem filter_mem_sublist : ∀ {s l : List α}, s.Sublist l → l.Nodup →
    l.filter (fun y => s.contains y) = s
  | _, _, .slnil, _ => rfl
  | s, _, .cons (l₂ := l) a hs, hl => by
    have hl' := List.nodup_cons.1 hl
    have : a ∉ s := fun h => hl'.1 (hs.subset h)
    rw [List.filter_cons]
    simp only [List.contains_eq_mem, this, decide_false, Bool.false_eq_true, if_false]
    have ih := filter_mem_sublist hs hl'.2
    simpa using ih
  | _, _, .cons_cons (l₁ := s) (l₂ := l) a hs, hl => by
    have hl' := List.nodup_cons.1 hl
    rw [List.filter_cons]
    simp only [List.contains_cons, beq_self_eq_true, Bool.true_or, if_true]
    congr 1
    refine Eq.trans (List.filter_congr ?_) (filter_mem_sublist hs hl'.2)
    intro x hx
    have : ¬ x = a := fun he => hl'.1 (he ▸ hx)
    simp [this]

omit [DecidableEq α] in
theorem nodup_reverse' {l : List α} (h : l.Nodup) : l.reverse.Nodup := by
  unfold List.Nodup at h ⊢
  rw [List.pairwise_reverse]
  exact List.Pairwise.imp (fun hne he => hne he.symm) h

variable {β : Type} [BEq β] [LawfulBEq β]

omit [LawfulBEq β] in
/-- removing from a duplicate-free list of rows the first `n` rows whose image is `e` is, on the
images, removing the first `n` occurrences of `e` -/
theorem removeFirstN_rows (f : α → β) (e : β) : ∀ (l : List α) (n : Nat), l.Nodup →
    (l.filter (fun y => !((l.filter (fun y => f y == e)).take n).contains y)).map f
      = Spec.removeFirstN e n (l.map f)
  | l, 0, _ => by
    have : l.filter (fun y => !((l.filter (fun y => f y == e)).take 0).contains y) = l := by
      rw [List.filter_eq_self]; intro a _; simp
    rw [this]; simp [Spec.removeFirstN]
  | [], n + 1, _ => by simp [Spec.removeFirstN]
  | y :: ys, n + 1, hl => by
    have hl' := List.nodup_cons.1 hl
    rw [List.map_cons]
    simp only [Spec.removeFirstN]
    cases hq : f y == e with
    | true =>
      simp only [if_true]
      rw [← removeFirstN_rows f e ys n hl'.2]
      rw [List.filter_cons (p := fun y => f y == e), if_pos hq, List.take_succ_cons, List.filter_cons]
      simp only [List.contains_cons, beq_self_eq_true, Bool.true_or, Bool.not_true,
        Bool.false_eq_true, if_false]
      congr 1
      apply List.filter_congr
      intro x hx
      have : ¬ x = y := fun he => hl'.1 (he ▸ hx)
      simp [this]
    | false =>
      simp only [Bool.false_eq_true, if_false]
      rw [← removeFirstN_rows f e ys (n + 1) hl'.2]
      rw [List.filter_cons (p := fun y => f y == e), if_neg (by simp [hq]), List.filter_cons]
      have hy : y ∉ (ys.filter (fun y => f y == e)).take (n + 1) :=
        fun h => hl'.1 (List.mem_filter.1 (List.mem_of_mem_take h)).1
      simp [hy]

omit [LawfulBEq β] in
theorem removeLastN_rows (f : α → β) (e : β) (l : List α) (n : Nat) (hl : l.Nodup) :
    (l.filter (fun y => !((l.filter (fun y => f y == e)).reverse.take n).contains y)).map f
      = Spec.removeLastN e n (l.map f) := by
  have h := removeFirstN_rows f e l.reverse n (nodup_reverse' hl)
  rw [List.filter_reverse, List.filter_reverse, List.map_reverse, List.map_reverse] at h
  unfold Spec.removeLastN
  rw [← h, List.reverse_reverse]

omit [DecidableEq α] [LawfulBEq β] in
/-- removing occurrences never lengthens -/
theorem removeFirstN_length_le (e : β) : ∀ (n : Nat) (l : List β),
    (Spec.removeFirstN e n l).length ≤ l.length
  | 0, l => by simp [Spec.removeFirstN]
  | n + 1, [] => by simp [Spec.removeFirstN]
  | n + 1, y :: ys => by
    simp only [Spec.removeFirstN]
    split
    · have := removeFirstN_length_le e n ys; simp; omega
    · have := removeFirstN_length_le e (n + 1) ys; simp; omega

omit [DecidableEq α] in
/-- split a list at its first member satisfying `q` -/
theorem split_first (q : α → Bool) : ∀ l : List α,
    (∃ pre x post, l = pre ++ x :: post ∧ q x = true ∧ ∀ y ∈ pre, q y = false) ∨
    (∀ y ∈ l, q y = false)
  | [] => Or.inr (by simp)
  | a :: l => by
    cases hq : q a with
    | true => exact Or.inl ⟨[], a, l, rfl, hq, by simp⟩
    | false =>
      rcases split_first q l with ⟨pre, x, post, hl, hx, hpre⟩ | hall
      · refine Or.inl ⟨a :: pre, x, post, by rw [hl]; rfl, hx, ?_⟩
        intro y hy
        rcases List.mem_cons.1 hy with rfl | hy
        · exact hq
        · exact hpre y hy
      · refine Or.inr ?_
        intro y hy
        rcases List.mem_cons.1 hy with rfl | hy
        · exact hq
        · exact hall y hy

omit [DecidableEq α] [LawfulBEq β] in
theorem insertAt_none (p x : β) (after : Bool) : ∀ l : List β, (∀ y ∈ l, (y == p) = false) →
    Spec.insertAt p x after l = none
  | [], _ => rfl
  | a :: l, h => by
    simp only [Spec.insertAt, h a (by simp), Bool.false_eq_true, if_false]
    rw [insertAt_none p x after l (fun y hy => h y (List.mem_cons_of_mem _ hy))]
    rfl

omit [DecidableEq α] [LawfulBEq β] in
theorem insertAt_split (p x : β) (after : Bool) (a : β) (ha : (a == p) = true) (post : List β) :
    ∀ pre : List β, (∀ y ∈ pre, (y == p) = false) →
    Spec.insertAt p x after (pre ++ a :: post)
      = some (if after then pre ++ a :: x :: post else pre ++ x :: a :: post)
  | [], _ => by simp [Spec.insertAt, ha]
  | b :: pre, h => by
    simp only [List.cons_append, Spec.insertAt, h b (by simp), Bool.false_eq_true, if_false]
    rw [insertAt_split p x after a ha post pre (fun y hy => h y (List.mem_cons_of_mem _ hy))]
    cases after <;> rfl

end lists

end Redka.ListOrd
