/-
  `internal/rhash` against the abstract keyspace.

  Plan. `HWF` is the part of the C11 invariant the hash proofs use (on top of `DB.WF`: the unique
  index on `(kid, field)`, the cached `len` of every hash key, no orphan rows). `HHolder` splits on
  what sits at a name (nothing / an expired leftover / a visible hash / a visible key of another
  type) and records what the model's guarded lookup (`liveKeyT … THash`) and the abstraction make
  of it. Every write of the family is "replace the key row of the name by `r2`, replace the rows of
  its id by `hs'`" (`KeysStep`, `RowsStep`); `step_hwf_written` says that such a step keeps `HWF`
  and changes the abstraction at that one name only (`WrittenV`).
-/
import RedkaModel.Proofs.HashRows
import RedkaModel.Proofs.Str

namespace Redka.HashRef

open Redka Redka.Model Redka.Spec Redka.DB Redka.Scan

/-! ### the invariant part used -/

/-- `DB.WF` plus what the invariant says about `rhash` -/
structure HWF (db : DB) : Prop where
  wf : db.WF
  /-- unique index on `(kid, field)` -/
  pairs : PairNodup db.hashes
  /-- the cached length of a hash key is its number of rows -/
  len : ∀ r ∈ db.keys, r.ty = THash →
    r.len = some ((db.hashes.filter (fun x => x.kid == r.id)).length : Int)
  /-- every row belongs to a stored hash key -/
  owner : ∀ x ∈ db.hashes, ∃ r ∈ db.keys, r.id = x.kid ∧ r.ty = THash

theorem _root_.Redka.DB.Inv.hwf {db : DB} (h : db.Inv) : HWF db := by
  have hwf := DB.Inv.wf h
  unfold DB.Inv invB at h
  simp only [Bool.and_eq_true] at h
  obtain ⟨⟨hk, ho⟩, hu⟩ := h
  unfold uniqueOk at hu
  simp only [Bool.and_eq_true, nodupB_iff] at hu
  unfold keysOk at hk
  rw [List.all_eq_true] at hk
  unfold ownersOk at ho
  simp only [Bool.and_eq_true] at ho
  refine ⟨hwf, hu.1.1.1.1.2, ?_, ?_⟩
  · intro r hr hty
    have := hk r hr
    simp only [Bool.and_eq_true, decide_eq_true_eq] at this
    have h2 := this.2
    rw [if_neg (by simp [hty, THash, TString])] at h2
    have h2 : r.len = some (db.childCount r) := by simpa using h2
    rw [h2]
    simp [childCount, hty, THash, TList, TSet]
  · intro x hx
    have := List.all_eq_true.1 ho.1.2 x hx
    unfold ownerOk at this
    obtain ⟨r, hr, hp⟩ := List.any_eq_true.1 this
    simp only [Bool.and_eq_true, beq_iff_eq] at hp
    exact ⟨r, hr, hp.1, hp.2⟩

/-! ### typed values, hash side -/

theorem absVal_hash {db : DB} {r : KeyRow} (h : r.ty = THash) :
    absVal db r = some (.hash (hview db.hashes r.id)) := by
  simp [absVal, h, THash, TString, TList, TSet, hashRows_view]

theorem absVal_eq_hash_ty {db : DB} {r : KeyRow} {m : List (Bytes × Bytes)}
    (h : absVal db r = some (.hash m)) : r.ty = THash := by
  unfold absVal at h
  split at h
  · cases hf : db.strs.find? (fun s => s.kid == r.id) <;> simp [hf] at h
  · split at h
    · simp at h
    · split at h
      · simp at h
      · split at h
        · rename_i ht; simpa using ht
        · split at h <;> simp at h

/-- a stored key row always has a typed value -/
theorem absVal_some_of_wf {db : DB} (hw : db.WF) {r : KeyRow} (hr : r ∈ db.keys) :
    ∃ v, absVal db r = some v := by
  by_cases ht : r.ty = TString
  · obtain ⟨s, hs, hk⟩ := hw.strRow r hr ht
    rw [absVal_str ht]
    cases hfs : db.strs.find? (fun s => s.kid == r.id) with
    | none =>
      rw [List.find?_eq_none] at hfs
      exact absurd (by simp [hk]) (hfs s hs)
    | some s' => exact ⟨_, rfl⟩
  · obtain ⟨v, hv, _⟩ := absVal_nonstr (db := db) ht (hw.tyOk r hr)
    exact ⟨v, hv⟩

/-! ### what is stored under a name -/

inductive HHolder (now : Int) (db : DB) (k : Bytes) : Prop
  | absent (h : db.findKey k = none) (hg : get (abs now db) k = none)
      (hk : db.liveKeyT k THash now = none)
  | stale (r : KeyRow) (h : db.findKey k = some r) (hl : r.live now = false)
      (hg : get (abs now db) k = none) (hk : db.liveKeyT k THash now = none)
  | hash (r : KeyRow) (h : db.findKey k = some r) (hl : r.live now = true) (ht : r.ty = THash)
      (hg : get (abs now db) k = some ⟨.hash (hview db.hashes r.id), r.etime⟩)
      (hk : db.liveKeyT k THash now = some r)
  | other (r : KeyRow) (v : SVal) (h : db.findKey k = some r) (hl : r.live now = true)
      (ht : r.ty ≠ THash) (hg : get (abs now db) k = some ⟨v, r.etime⟩)
      (hv : ∀ m, v ≠ .hash m) (hk : db.liveKeyT k THash now = none)

theorem hholder {db : DB} (hw : db.WF) (now : Int) (k : Bytes) : HHolder now db k := by
  have hga := get_abs hw.names now k
  have hka := liveKeyT_eq hw.names k THash now
  cases hf : db.findKey k with
  | none =>
    rw [hf] at hga hka
    exact .absent hf hga hka
  | some r =>
    rw [hf] at hga hka
    obtain ⟨hm, _⟩ := findKey_mem hf
    cases hl : r.live now with
    | false =>
      refine .stale r hf hl ?_ ?_
      · rw [hga]; simp [rowEntry, hl]
      · rw [hka]; simp [Option.filter, hl]
    | true =>
      by_cases ht : r.ty = THash
      · refine .hash r hf hl ht ?_ ?_
        · rw [hga]; simp [rowEntry, hl, absVal_hash ht]
        · rw [hka]; simp [Option.filter, hl, ht]
      · obtain ⟨v, hv⟩ := absVal_some_of_wf hw hm
        refine .other r v hf hl ht ?_ ?_ ?_
        · rw [hga]; simp [rowEntry, hl, hv]
        · intro m hvm
          rw [hvm] at hv
          exact ht (absVal_eq_hash_ty hv)
        · rw [hka]; simp [Option.filter, ht]

/-! ### a write seen from the abstraction (any type) -/

/-- `db2` is `db` with the name `k` now stored as row `r` holding the value `v`; nothing else is
different as far as the abstraction can see -/
structure WrittenV (db db2 : DB) (k : Bytes) (r : KeyRow) (v : SVal) : Prop where
  find : ∀ k', db2.findKey k' = if k == k' then some r else db.findKey k'
  val : absVal db2 r = some v
  frame : ∀ r' ∈ db.keys, r'.key ≠ k → absVal db2 r' = absVal db r'

theorem WrittenV.abs {db db2 : DB} {k : Bytes} {r : KeyRow} {v : SVal}
    (hn : (db.keys.map (·.key)).Nodup) (hn2 : (db2.keys.map (·.key)).Nodup)
    (h : WrittenV db db2 k r v) (now : Int) :
    abs now db2 = purge now (put (abs now db) k ⟨v, r.etime⟩) := by
  have hs := ((sorted_abs hn now).put k ⟨v, r.etime⟩).purge now
  apply abs_ext hn2 hs
  intro k'
  rw [get_purge ((sorted_abs hn now).put k _), get_put, h.find]
  by_cases hk : k = k'
  · subst hk
    simp only [beq_self_eq_true, if_true, Option.bind_some, rowEntry, h.val, Option.map_some]
    rfl
  · have : (k == k') = false := by simpa using hk
    simp only [this, Bool.false_eq_true, if_false]
    rw [← get_purge (sorted_abs hn now), purge_abs hn, get_abs hn]
    cases hf : db.findKey k' with
    | none => rfl
    | some r' =>
      obtain ⟨hm, hmk⟩ := findKey_mem hf
      simp only [Option.bind_some, rowEntry]
      rw [h.frame r' hm (by rw [hmk]; exact fun he => hk he.symm)]

/-- putting twice under the same name: the second entry wins -/
theorem put_put {s : State} (hs : Sorted s) (k : Bytes) (e1 e2 : Entry) :
    put (put s k e1) k e2 = put s k e2 := by
  apply sorted_ext ((hs.put k e1).put k e2) (hs.put k e2)
  intro k'
  have h1 := get_put (put s k e1) k e2 k'
  have h2 := get_put s k e1 k'
  have h3 := get_put s k e2 k'
  unfold Spec.get at h1 h2 h3
  rw [h1, h2, h3]
  split <;> rfl

/-! ### replacing the key row of a name, and the rows of its id -/

/-- the tables after a statement pair of the hash repository: new `rkey` rows, new `rhash` rows -/
def withKH (db : DB) (K : List KeyRow) (hs : List HashRow) : DB := { db with keys := K, hashes := hs }

/-- `K` is `db.keys` with the row named `k` replaced by (or, if there was none, extended with) the
hash key row `r2` -/
structure KeysStep (db : DB) (K : List KeyRow) (k : Bytes) (r2 : KeyRow) : Prop where
  find : ∀ k', K.find? (fun r => r.key == k') = if k == k' then some r2 else db.findKey k'
  names : (K.map (·.key)).Nodup
  ids : (K.map (·.id)).Nodup
  mem : ∀ x ∈ K, x = r2 ∨ (x ∈ db.keys ∧ x.id ≠ r2.id)
  keep : ∀ x ∈ db.keys, x.id ≠ r2.id → x ∈ K
  self : r2 ∈ K
  ty : r2.ty = THash
  key : r2.key = k

/-- `hs'` differs from `hs` only in rows of key id `id` -/
structure RowsStep (hs hs' : List HashRow) (id : Int) : Prop where
  pairs : PairNodup hs'
  other : ∀ id', id' ≠ id → hs'.filter (fun r => r.kid == id') = hs.filter (fun r => r.kid == id')
  kids : ∀ x ∈ hs', x.kid = id ∨ ∃ y ∈ hs, y.kid = x.kid

theorem rowsStep_put {hs : List HashRow} (h : PairNodup hs) (rid kid : Int) (f v : Bytes) :
    RowsStep hs (hashPut hs rid kid f v) kid :=
  ⟨pairs_hashPut h rid kid f v, fun _ hne => filter_hashPut_other hs rid hne f v,
    fun _ hx => kid_of_mem_hashPut hx⟩

theorem rowsStep_del {hs : List HashRow} (h : PairNodup hs) (id : Int) (fs : List Bytes) :
    RowsStep hs (hashDel hs id fs) id :=
  ⟨pairs_hashDel h id fs, fun _ hne => filter_hashDel_other hs hne fs,
    fun x hx => Or.inr ⟨x, mem_hashDel hx, rfl⟩⟩

theorem keysStep_append {db : DB} (hw : db.WF) {k : Bytes} {r2 : KeyRow} (h : db.findKey k = none)
    (hid : r2.id = db.nextKeyId) (hk : r2.key = k) (ht : r2.ty = THash) :
    KeysStep db (db.keys ++ [r2]) k r2 := by
  have hnone : db.findKey r2.key = none := by rw [hk]; exact h
  refine ⟨?_, names_append hw.names hnone, ids_append hw.ids hid, ?_, ?_, by simp, ht, hk⟩
  · intro k'; rw [← hk]; exact findKey_append hnone k'
  · intro x hx
    rcases List.mem_append.1 hx with hx | hx
    · exact Or.inr ⟨hx, by rw [hid]; exact nextKeyId_fresh db x hx⟩
    · exact Or.inl (by simpa using hx)
  · intro x hx _; exact List.mem_append_left _ hx

theorem keysStep_update {db : DB} (hw : db.WF) {k : Bytes} {old r2 : KeyRow}
    (h : db.findKey k = some old) (hid : r2.id = old.id) (hk : r2.key = old.key) (ht : r2.ty = THash) :
    KeysStep db (db.updKey old.id (fun _ => r2)).keys k r2 := by
  obtain ⟨ho, hok⟩ := findKey_mem h
  refine ⟨?_, ?_, ?_, ?_, ?_, ?_, ht, by rw [hk, hok]⟩
  · intro k'; rw [← hok]; exact findKey_updKey hw.names hw.ids ho hk k'
  · rw [updKey_names hw.ids ho hk]; exact hw.names
  · rw [updKey_ids hw.ids ho hid]; exact hw.ids
  · intro x hx
    rcases mem_updKey hw.ids ho hx with hx | ⟨hx, hne⟩
    · exact Or.inl hx
    · exact Or.inr ⟨hx, fun he => hne (id_inj hw.ids hx ho (by rw [he, hid]))⟩
  · intro x hx hne
    rw [updKey_keys hw.ids ho]
    refine List.mem_map.2 ⟨x, hx, ?_⟩
    have : x ≠ old := fun he => hne (by rw [he, hid])
    simp [this]
  · rw [updKey_keys hw.ids ho]
    exact List.mem_map.2 ⟨old, ho, by simp⟩

/-- **The write lemma of the family.** Replacing the key row of `k` by `r2` and the rows of
`r2.id` by those of `hs'`, with the cached length kept in step, keeps the invariant part and
changes the abstraction at `k` only: `k` now holds the field map of `hs'`. -/
theorem step_hwf_written {db : DB} (hw : HWF db) {K : List KeyRow} {k : Bytes} {r2 : KeyRow}
    (ks : KeysStep db K k r2) {hs' : List HashRow} (rs : RowsStep db.hashes hs' r2.id)
    (hlen : r2.len = some ((hs'.filter (fun x => x.kid == r2.id)).length : Int)) :
    HWF (withKH db K hs') ∧ WrittenV db (withKH db K hs') k r2 (.hash (hview hs' r2.id)) := by
  have hmemK : ∀ r' ∈ db.keys, r'.key ≠ k → r' ∈ K ∧ r'.id ≠ r2.id := by
    intro r' hr' hne
    have hf : K.find? (fun r => r.key == r'.key) = some r' := by
      rw [ks.find]
      have : (k == r'.key) = false := by simpa using fun he : k = r'.key => hne he.symm
      simp only [this, Bool.false_eq_true, if_false]
      exact findKey_of_mem hw.wf.names hr'
    have hin := List.mem_of_find?_eq_some hf
    refine ⟨hin, ?_⟩
    rcases ks.mem r' hin with he | ⟨_, hne'⟩
    · exact absurd (by rw [he, ks.key]) hne
    · exact hne'
  refine ⟨⟨⟨ks.names, ks.ids, ?_, ?_, hw.wf.strKids⟩, rs.pairs, ?_, ?_⟩, ⟨ks.find, ?_, ?_⟩⟩
  · intro x hx
    rcases ks.mem x hx with he | ⟨hx', _⟩
    · rw [he, ks.ty]; decide
    · exact hw.wf.tyOk x hx'
  · intro x hx hty
    rcases ks.mem x hx with he | ⟨hx', _⟩
    · rw [he, ks.ty] at hty; cases hty
    · exact hw.wf.strRow x hx' hty
  · intro x hx hty
    rcases ks.mem x hx with he | ⟨hx', hne⟩
    · rw [he]; exact hlen
    · show x.len = some ((hs'.filter (fun y => y.kid == x.id)).length : Int)
      rw [rs.other x.id hne]
      exact hw.len x hx' hty
  · intro x hx
    rcases rs.kids x hx with he | ⟨y, hy, hyk⟩
    · exact ⟨r2, ks.self, he.symm, ks.ty⟩
    · obtain ⟨r, hr, hrid, hrty⟩ := hw.owner y hy
      by_cases hc : r.id = r2.id
      · exact ⟨r2, ks.self, by rw [← hc, hrid, hyk], ks.ty⟩
      · exact ⟨r, ks.keep r hr hc, by rw [hrid, hyk], hrty⟩
  · exact absVal_hash (db := withKH db K hs') ks.ty
  · intro r' hr' hne
    obtain ⟨_, hid⟩ := hmemK r' hr' hne
    apply absVal_congr <;> try rfl
    exact rs.other r'.id hid

/-! ### `tx.set` in closed form -/

/-- the row `sqlSet1` inserts -/
def hNew (k : Bytes) (now id : Int) : KeyRow :=
  { id := id, key := k, ty := THash, version := 1, etime := none, mtime := now, len := some 0 }

/-- the `do update` assignments of `sqlSet1` -/
def hTouch (now : Int) (o : KeyRow) : KeyRow := { o with version := o.version + 1, mtime := now }

/-- the trigger `rhash_on_insert`: `len + 1` when `sqlSet2` inserted a row -/
def bump (isNew : Bool) (o : KeyRow) : KeyRow :=
  { o with len := if isNew then o.len.map (· + 1) else o.len }

theorem updKey_const {db : DB} (hi : (db.keys.map (·.id)).Nodup) {old : KeyRow} (ho : old ∈ db.keys)
    (g : KeyRow → KeyRow) : db.updKey old.id g = db.updKey old.id (fun _ => g old) := by
  unfold updKey
  congr 1
  apply List.map_congr_left
  intro x hx
  by_cases h : x.id = old.id
  · rw [id_inj hi hx ho h]
  · simp [h]

theorem updKey_updKey {db : DB} {id : Int} {r1 : KeyRow} (h1 : r1.id = id) (g : KeyRow → KeyRow) :
    (db.updKey id (fun _ => r1)).updKey id g = db.updKey id (fun _ => g r1) := by
  unfold updKey
  simp only [List.map_map]
  congr 1
  apply List.map_congr_left
  intro x _
  simp only [Function.comp]
  by_cases h : x.id = id <;> simp [h, h1]

theorem hashSetRow_eq (db : DB) (kid : Int) (f v : Bytes) :
    hashSetRow db kid f v
      = withKH db
          (db.updKey kid (bump (!db.hashes.any (fun r => r.kid == kid && r.field == f)))).keys
          (hashPut db.hashes db.nextHashRowid kid f v) := by
  unfold hashSetRow withKH hashPut
  split
  · rename_i h
    have hk : (db.updKey kid (bump (!db.hashes.any (fun r => r.kid == kid && r.field == f)))).keys
        = db.keys := by
      unfold updKey
      simp only [h, Bool.not_true]
      conv => rhs; rw [← List.map_id db.keys]
      apply List.map_congr_left
      intro x _
      split <;> rfl
    rw [hk]
  · rename_i h
    have h : db.hashes.any (fun r => r.kid == kid && r.field == f) = false := by simpa using h
    simp only [h, Bool.not_false]
    rfl

theorem hashSetTx_other {db : DB} {k f v : Bytes} {now : Int} {old : KeyRow}
    (h : db.findKey k = some old) (ht : old.ty ≠ THash) :
    hashSetTx db k f v now = .error .keyType := by
  simp [hashSetTx, hashSetKey, keyUpsert_other h ht]

/-- `tx.set` on a stored hash key (visible or not): closed form, invariant, abstraction -/
theorem hashSetTx_old {db : DB} (hw : HWF db) {k : Bytes} {old : KeyRow}
    (h : db.findKey k = some old) (ht : old.ty = THash) (f v : Bytes) (now : Int) :
    ∃ db2 r2, hashSetTx db k f v now = .ok db2 ∧ HWF db2 ∧ r2.etime = old.etime ∧
      WrittenV db db2 k r2 (.hash (aput (hview db.hashes old.id) f v)) := by
  obtain ⟨ho, hok⟩ := findKey_mem h
  let isNew := !db.hashes.any (fun r => r.kid == old.id && r.field == f)
  let r2 := bump isNew (hTouch now old)
  have hr2id : r2.id = old.id := rfl
  have ks : KeysStep db (db.updKey old.id (fun _ => r2)).keys k r2 :=
    keysStep_update hw.wf h rfl rfl ht
  have rs := rowsStep_put hw.pairs db.nextHashRowid old.id f v
  have hlen : r2.len = some (((hashPut db.hashes db.nextHashRowid old.id f v).filter
      (fun x => x.kid == r2.id)).length : Int) := by
    show (if isNew = true then (old.len.map (· + 1)) else old.len) = _
    rw [hr2id, length_filter_hashPut_self, hw.len old ho ht]
    cases hany : db.hashes.any (fun r => r.kid == old.id && r.field == f) <;>
      simp [isNew, hany]
  obtain ⟨hw2, hwr⟩ := step_hwf_written hw ks rs hlen
  refine ⟨_, r2, ?_, hw2, rfl, ?_⟩
  · have h1 : hashSetKey db k now
        = .ok (db.updKey old.id (fun _ => hTouch now old), hTouch now old) := keyUpsert_old h ht
    simp only [hashSetTx, h1]
    rw [hashSetRow_eq]
    show Except.ok (withKH (db.updKey old.id (fun _ => hTouch now old))
      ((db.updKey old.id (fun _ => hTouch now old)).updKey old.id (bump isNew)).keys
      (hashPut db.hashes db.nextHashRowid old.id f v)) = _
    rw [updKey_updKey (id := old.id) (r1 := hTouch now old) rfl]
    rfl
  · rw [hr2id, hview_hashPut hw.pairs] at hwr
    exact hwr

/-- `tx.set` on a free name: closed form, invariant, abstraction -/
theorem hashSetTx_new {db : DB} (hw : HWF db) {k : Bytes} (h : db.findKey k = none)
    (f v : Bytes) (now : Int) :
    ∃ db2 r2, hashSetTx db k f v now = .ok db2 ∧ HWF db2 ∧ r2.etime = none ∧
      WrittenV db db2 k r2 (.hash [(f, v)]) := by
  have hfresh : ∀ x ∈ db.hashes, x.kid ≠ db.nextKeyId := by
    intro x hx he
    obtain ⟨r, hr, hrid, _⟩ := hw.owner x hx
    exact nextKeyId_fresh db r hr (by rw [hrid, he])
  have hnone : db.hashes.any (fun r => r.kid == db.nextKeyId && r.field == f) = false := by
    rw [List.any_eq_false]
    intro x hx
    simp [hfresh x hx]
  have hfil : db.hashes.filter (fun x => x.kid == db.nextKeyId) = [] := by
    rw [List.filter_eq_nil_iff]
    intro x hx; simpa using hfresh x hx
  let r2 := bump true (hNew k now db.nextKeyId)
  have hr2id : r2.id = db.nextKeyId := rfl
  have ks : KeysStep db (db.keys ++ [r2]) k r2 := keysStep_append hw.wf h rfl rfl rfl
  have rs := rowsStep_put hw.pairs db.nextHashRowid db.nextKeyId f v
  have hlen : r2.len = some (((hashPut db.hashes db.nextHashRowid db.nextKeyId f v).filter
      (fun x => x.kid == r2.id)).length : Int) := by
    rw [hr2id, length_filter_hashPut_self, hfil, hnone]
    rfl
  obtain ⟨hw2, hwr⟩ := step_hwf_written hw ks rs hlen
  refine ⟨_, r2, ?_, hw2, rfl, ?_⟩
  · have h1 : hashSetKey db k now
        = .ok ({ db with keys := db.keys ++ [hNew k now db.nextKeyId] }, hNew k now db.nextKeyId) :=
      keyUpsert_new h
    simp only [hashSetTx, h1]
    rw [hashSetRow_eq]
    have hkeys : (({ db with keys := db.keys ++ [hNew k now db.nextKeyId] } : DB).updKey db.nextKeyId
        (bump (!db.hashes.any (fun r => r.kid == db.nextKeyId && r.field == f)))).keys
        = db.keys ++ [r2] := by
      unfold updKey
      simp only [List.map_append, List.map_cons, List.map_nil, hnone, Bool.not_false]
      congr 1
      · conv => rhs; rw [← List.map_id db.keys]
        apply List.map_congr_left
        intro x hx
        have : ¬ x.id = db.nextKeyId := nextKeyId_fresh db x hx
        simp [this]
      · simp [hNew, r2]
    exact congrArg Except.ok (by rw [← hkeys]; rfl)
  · rw [hr2id, hview_hashPut hw.pairs, hview_nil_of_no_rows hfresh] at hwr
    exact hwr

/-- `tx.set` keeps the invariant part whatever it meets -/
theorem hashSetTx_hwf {db : DB} (hw : HWF db) (k f v : Bytes) (now : Int) :
    ∀ d, hashSetTx db k f v now = .ok d → HWF d := by
  intro d hd
  cases hf : db.findKey k with
  | none =>
    obtain ⟨db2, _, he, hw2, _⟩ := hashSetTx_new hw hf f v now
    rw [he] at hd; cases hd; exact hw2
  | some old =>
    by_cases ht : old.ty = THash
    · obtain ⟨db2, _, he, hw2, _⟩ := hashSetTx_old hw hf ht f v now
      rw [he] at hd; cases hd; exact hw2
    · rw [hashSetTx_other hf ht] at hd; cases hd

end Redka.HashRef
