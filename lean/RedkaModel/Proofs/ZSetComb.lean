/-
  `internal/rzset` against the abstract keyspace, part 3: union and intersection
  (`inter.go`, `union.go`), with and without storing.

  The model groups the rows of all source keys by member, in table order; the specification walks
  the key list in the order given. The two see the same scores per member up to a permutation
  (`scores_perm`), which is all that `min`, `max` and a sum of at most two terms can see.

  A key named twice. `where key in (…)` reads each named key once, and (since the repair of D07)
  `having count(distinct kid)` is compared with the number of DISTINCT keys: the model's result for
  `ks` is its result for `dedup ks` (`model_zCombine_dedup`). The specification walks `ks` as
  given; it has the same members for `ks` and `dedup ks` (`sMembers_dedup`) and, for `min` and
  `max`, the same scores (`spec_zCombine_dedup`); a `sum` counts the repeated key twice.
-/
import RedkaModel.Proofs.ZSetWrite

namespace Redka.ZSetRef

open Redka Redka.Scan Redka.Spec Redka.Model Redka.DB

/-! ### `where key in (…)` against a walk over the key list -/

section perm
variable {α κ : Type} [BEq κ] [LawfulBEq κ]

theorem filterMap_congr' {β : Type} {f g : α → Option β} : ∀ {l : List α},
    (∀ x ∈ l, f x = g x) → l.filterMap f = l.filterMap g
  | [], _ => rfl
  | x :: l, h => by
    rw [List.filterMap_cons, List.filterMap_cons, h x (by simp),
      filterMap_congr' (fun y hy => h y (List.mem_cons_of_mem _ hy))]

theorem filter_or_perm (p1 p2 : α → Bool) : ∀ (l : List α),
    (∀ a ∈ l, ¬ (p1 a = true ∧ p2 a = true)) →
    (l.filter (fun a => p1 a || p2 a)).Perm (l.filter p1 ++ l.filter p2)
  | [], _ => List.Perm.refl _
  | x :: l, h => by
    have ih := filter_or_perm p1 p2 l (fun a ha => h a (List.mem_cons_of_mem _ ha))
    have hx := h x (by simp)
    rw [List.filter_cons, List.filter_cons, List.filter_cons]
    cases h1 : p1 x <;> cases h2 : p2 x
    · simpa using ih
    · simp only [Bool.false_or, if_true, Bool.false_eq_true, if_false]
      exact (ih.cons x).trans List.perm_middle.symm
    · simp only [Bool.true_or, if_true, Bool.false_eq_true, if_false, List.cons_append]
      exact ih.cons x
    · exact absurd ⟨h1, h2⟩ hx

theorem filter_key_le_one (key : α → κ) (k : κ) : ∀ (m : List α), (m.map key).Nodup →
    (m.filter (fun a => key a == k)).length ≤ 1
  | [], _ => by simp
  | x :: m, h => by
    rw [List.map_cons] at h
    have h' := List.nodup_cons.1 h
    have ih := filter_key_le_one key k m h'.2
    rw [List.filter_cons]
    by_cases hk : key x = k
    · have : m.filter (fun a => key a == k) = [] := by
        rw [List.filter_eq_nil_iff]
        intro a ha hak
        have hak : key a = k := by simpa using hak
        exact h'.1 (List.mem_map.2 ⟨a, ha, by rw [hak, hk]⟩)
      simp [hk, this]
    · simp [hk]; exact ih

theorem filter_eq_find_toList (p : α → Bool) : ∀ (l : List α), (l.filter p).length ≤ 1 →
    l.filter p = (l.find? p).toList
  | [], _ => rfl
  | x :: l, h => by
    rw [List.filter_cons] at h ⊢
    rw [List.find?_cons]
    cases hp : p x with
    | true =>
      simp only [hp, if_true, List.length_cons] at h
      have : l.filter p = [] := List.eq_nil_of_length_eq_zero (by omega)
      simp [this]
    | false =>
      simp only [hp, Bool.false_eq_true, if_false] at h ⊢
      exact filter_eq_find_toList p l h

/-- `select … where key in K and q`, for a table where `key` is unique among the rows satisfying
`q` and a duplicate-free `K`: the same rows as looking the members of `K` up one by one -/
theorem filter_contains_perm (key : α → κ) (q : α → Bool) (l : List α)
    (hu : ((l.filter q).map key).Nodup) : ∀ (K : List κ), K.Nodup →
    (l.filter (fun a => K.contains (key a) && q a)).Perm
      (K.filterMap (fun k => l.find? (fun a => key a == k && q a)))
  | [], _ => by simp
  | k :: K, hK => by
    have hK' := List.nodup_cons.1 hK
    have ih := filter_contains_perm key q l hu K hK'.2
    have hpred : (fun a => (k :: K).contains (key a) && q a)
        = (fun a => (key a == k && q a) || (K.contains (key a) && q a)) := by
      funext a
      rw [List.contains_cons]
      cases (key a == k) <;> cases K.contains (key a) <;> cases q a <;> rfl
    have hdisj : ∀ a ∈ l, ¬ ((key a == k && q a) = true ∧ (K.contains (key a) && q a) = true) := by
      rintro a _ ⟨h1, h2⟩
      simp only [Bool.and_eq_true, beq_iff_eq, List.contains_iff_mem] at h1 h2
      exact hK'.1 (h1.1 ▸ h2.1)
    have hone : (l.filter (fun a => key a == k && q a)).length ≤ 1 := by
      have : l.filter (fun a => key a == k && q a) = (l.filter q).filter (fun a => key a == k) := by
        rw [List.filter_filter]
      rw [this]
      exact filter_key_le_one key k _ hu
    rw [hpred]
    refine (filter_or_perm _ _ l hdisj).trans ?_
    rw [filter_eq_find_toList _ l hone, List.filterMap_cons]
    cases l.find? (fun a => key a == k && q a) with
    | none => simpa using ih
    | some a => simpa using ih.cons a

end perm

/-! ### the rows a combination reads, member by member -/

/-- the rows of all live sorted sets named in `ks` -/
def cRows (db : DB) (ks : List Bytes) (now : Int) : List ZRow :=
  db.zsets.filter (fun r => (zKids db ks now).contains r.kid)

/-- the scores the model aggregates for member `e` (table order) -/
def mScores (db : DB) (ks : List Bytes) (now : Int) (e : Bytes) : List Score :=
  ((cRows db ks now).filter (fun r => r.elem == e)).map (·.score)

/-- the scores the specification aggregates for member `e` (key-list order) -/
def sScores (s : State) (ks : List Bytes) (e : Bytes) : List Score :=
  (ks.map (zsetAt s)).filterMap (fun z => aget z e)

theorem zKids_perm {db : DB} (hz : db.ZWF) (now : Int) {ks : List Bytes} (hks : ks.Nodup) :
    (zKids db ks now).Perm ((ks.filterMap (fun k => db.liveKeyT k TZSet now)).map (·.id)) := by
  unfold zKids
  apply List.Perm.map
  have hq : (fun r : KeyRow => ks.contains r.key && r.ty == TZSet && r.live now)
      = (fun r => ks.contains r.key && (r.ty == TZSet && r.live now)) := by
    funext r; rw [Bool.and_assoc]
  have hf : (fun k => db.liveKeyT k TZSet now)
      = (fun k => db.keys.find? (fun r => r.key == k && (r.ty == TZSet && r.live now))) := by
    funext k
    unfold liveKeyT
    congr 1
    funext r; rw [Bool.and_assoc]
  rw [hq, hf]
  apply filter_contains_perm KeyRow.key _ db.keys _ ks hks
  exact List.Nodup.sublist (List.Sublist.map _ List.filter_sublist) hz.names

theorem zKids_nodup {db : DB} (hz : db.ZWF) (ks : List Bytes) (now : Int) : (zKids db ks now).Nodup :=
  List.Nodup.sublist (List.Sublist.map _ List.filter_sublist) hz.ids

theorem elem_kids_nodup {db : DB} (hz : db.ZWF) (e : Bytes) :
    ((db.zsets.filter (fun r => r.elem == e)).map (·.kid)).Nodup := by
  have hsub : ((db.zsets.filter (fun r => r.elem == e)).map (fun r => (r.kid, r.elem))).Nodup :=
    List.Nodup.sublist (List.Sublist.map _ List.filter_sublist) hz.zuniq
  unfold List.Nodup at hsub ⊢
  rw [List.pairwise_map] at hsub ⊢
  refine hsub.imp_of_mem ?_
  intro a b ha hb hne heq
  have hea : a.elem = e := by simpa using (List.mem_filter.1 ha).2
  have heb : b.elem = e := by simpa using (List.mem_filter.1 hb).2
  exact hne (by rw [heq, hea, heb])

/-- per member, model and specification aggregate the same scores, in a possibly different order -/
theorem scores_perm {db : DB} (hz : db.ZWF) (now : Int) {ks : List Bytes} (hks : ks.Nodup) (e : Bytes) :
    (mScores db ks now e).Perm (sScores (abs now db) ks e) := by
  have h1 : (cRows db ks now).filter (fun r => r.elem == e)
      = db.zsets.filter (fun r => (zKids db ks now).contains r.kid && r.elem == e) := by
    unfold cRows; rw [List.filter_filter]
    apply List.filter_congr
    intro x _; rw [Bool.and_comm]
  have h2 := filter_contains_perm ZRow.kid (fun r => r.elem == e) db.zsets (elem_kids_nodup hz e)
    (zKids db ks now) (zKids_nodup hz ks now)
  have h3 : (mScores db ks now e).Perm
      ((zKids db ks now).filterMap (fun id => aget (zAssoc db id) e)) := by
    unfold mScores
    rw [h1]
    refine (h2.map _).trans ?_
    rw [List.map_filterMap]
    apply List.Perm.of_eq
    apply filterMap_congr'
    intro id _
    rw [aget_zAssoc hz.zuniq]
    rfl
  refine h3.trans (((zKids_perm hz now hks).filterMap _).trans ?_)
  apply List.Perm.of_eq
  unfold sScores
  rw [List.filterMap_map, List.filterMap_map, List.filterMap_filterMap]
  apply filterMap_congr'
  intro k _
  simp only [Function.comp, zsetAt_abs hz.toWF]
  cases db.liveKeyT k TZSet now with
  | none => rfl
  | some r => rfl

/-! ### aggregation does not depend on the order (min, max, sums of at most two terms) -/

/-- the aggregate of the specification over a list of scores; `none` for the empty list and for a
sum that is not a number -/
def specFold (agg : Agg) : List Score → Option Score
  | [] => none
  | x :: xs => xs.foldl (fun a y => a.bind (fun a => aggOne agg a y)) (some x)

theorem aggScores_eq (agg : Agg) (l : List Score) : aggScores agg l = specFold agg l := by
  cases l with
  | nil => rfl
  | cons x xs =>
    show List.foldl _ (some x) xs = List.foldl _ (some x) xs
    congr 1
    funext acc y
    cases acc with
    | none => rfl
    | some a => cases agg <;> rfl

theorem min_rc (z a b : Score) : Score.min (Score.min z a) b = Score.min (Score.min z b) a := by
  cases z <;> cases a <;> cases b <;> simp [Score.min, Score.lt] <;> grind

theorem max_rc (z a b : Score) : Score.max (Score.max z a) b = Score.max (Score.max z b) a := by
  cases z <;> cases a <;> cases b <;> simp [Score.max, Score.lt] <;> grind

theorem score_add_comm (a b : Score) : Score.add a b = Score.add b a := by
  cases a <;> cases b <;> simp [Score.add, Dyadic.add_comm]

theorem foldl_some (f : Score → Score → Score) (x : Score) : ∀ (xs : List Score),
    xs.foldl (fun a y => a.bind (fun a => some (f a y))) (some x) = some (xs.foldl f x)
  | [] => rfl
  | y :: ys => by
    simp only [List.foldl_cons, Option.bind_some]
    exact foldl_some f (f x y) ys

theorem specFold_min (l : List Score) :
    specFold .min l = if l = [] then none else some (l.foldl Score.min .posInf) := by
  cases l with
  | nil => rfl
  | cons x xs =>
    have h0 : Score.min .posInf x = x := by cases x <;> simp [Score.min, Score.lt]
    simp only [specFold, aggOne, foldl_some, List.foldl_cons, h0]
    simp

theorem specFold_max (l : List Score) :
    specFold .max l = if l = [] then none else some (l.foldl Score.max .negInf) := by
  cases l with
  | nil => rfl
  | cons x xs =>
    have h0 : Score.max .negInf x = x := by cases x <;> simp [Score.max, Score.lt]
    simp only [specFold, aggOne, foldl_some, List.foldl_cons, h0]
    simp

theorem perm_pair {x y a b : Score} (h : [x, y].Perm [a, b]) : (x = a ∧ y = b) ∨ (x = b ∧ y = a) := by
  have hx : x ∈ [a, b] := h.mem_iff.1 (by simp)
  simp only [List.mem_cons, List.not_mem_nil, or_false] at hx
  rcases hx with rfl | rfl
  · have := (List.perm_cons x).1 h
    exact Or.inl ⟨rfl, by simpa using this.eq_singleton⟩
  · have h2 : [x, y].Perm [x, a] := h.trans (List.Perm.swap x a [])
    have := (List.perm_cons x).1 h2
    exact Or.inr ⟨rfl, by simpa using this.eq_singleton⟩

theorem specFold_perm {agg : Agg} {l1 l2 : List Score} (hp : l1.Perm l2)
    (h : agg ≠ .sum ∨ l1.length ≤ 2) : specFold agg l1 = specFold agg l2 := by
  have hnil : l1 = [] ↔ l2 = [] := by
    constructor
    · intro h1; subst h1; exact hp.symm.eq_nil
    · intro h2; subst h2; exact hp.eq_nil
  cases agg with
  | min =>
    rw [specFold_min, specFold_min, hp.foldl_eq' (fun x _ y _ z => min_rc z x y)]
    simp only [hnil]
  | max =>
    rw [specFold_max, specFold_max, hp.foldl_eq' (fun x _ y _ z => max_rc z x y)]
    simp only [hnil]
  | sum =>
    have hlen : l1.length ≤ 2 := by
      rcases h with h | h
      · exact absurd rfl h
      · exact h
    have hl2 := hp.length_eq
    match l1, l2, hp, hlen, hl2 with
    | [], [], _, _, _ => rfl
    | [x], [y], hp, _, _ =>
      have : x = y := by simpa using hp.eq_singleton
      rw [this]
    | [x, y], [a, b], hp, _, _ =>
      rcases perm_pair hp with ⟨rfl, rfl⟩ | ⟨rfl, rfl⟩
      · rfl
      · simp only [specFold, List.foldl_cons, List.foldl_nil, Option.bind_some, aggOne,
          score_add_comm x y]

/-- what the model aggregates for a member is what the specification aggregates -/
theorem agg_eq {db : DB} (hz : db.ZWF) (now : Int) {ks : List Bytes} (hks : ks.Nodup) (agg : Agg)
    (hord : agg ≠ .sum ∨ ks.length ≤ 2) (e : Bytes) :
    aggScores agg (mScores db ks now e) = specFold agg (sScores (abs now db) ks e) := by
  rw [aggScores_eq]
  apply specFold_perm (scores_perm hz now hks e)
  rcases hord with h | h
  · exact Or.inl h
  · right
    rw [(scores_perm hz now hks e).length_eq]
    unfold sScores
    have := List.length_filterMap_le (fun z => aget z e) (ks.map (zsetAt (abs now db)))
    rw [List.length_map] at this
    omega

/-! ### `dedup`, `sfromList`, sorting under an embedding -/

theorem mem_dedup {α : Type} [DecidableEq α] (y : α) : ∀ (l : List α), y ∈ dedup l ↔ y ∈ l
  | [] => by simp [dedup]
  | x :: xs => by
    have ih := mem_dedup y xs
    unfold dedup
    split
    · rename_i hx
      rw [ih, List.mem_cons]
      constructor
      · exact Or.inr
      · rintro (rfl | h)
        · exact hx
        · exact h
    · rw [List.mem_cons, List.mem_cons, ih]

theorem nodup_dedup {α : Type} [DecidableEq α] : ∀ (l : List α), (dedup l).Nodup
  | [] => by simp [dedup]
  | x :: xs => by
    unfold dedup
    split
    · exact nodup_dedup xs
    · rename_i hx
      exact List.nodup_cons.2 ⟨fun h => hx ((mem_dedup x xs).1 h), nodup_dedup xs⟩

theorem dedup_cons {α : Type} [DecidableEq α] (x : α) (xs : List α) :
    dedup (x :: xs) = if x ∈ xs then dedup xs else x :: dedup xs := by
  rw [dedup]

theorem dedup_of_nodup {α : Type} [DecidableEq α] : ∀ {l : List α}, l.Nodup → dedup l = l
  | [], _ => rfl
  | x :: xs, h => by
    have h' := List.nodup_cons.1 h
    rw [dedup_cons, if_neg h'.1, dedup_of_nodup h'.2]

/-- for a list of distinct keys and an aggregate that does not depend on the order (min, max, a sum of at
most two terms) the model aggregates a group with the plain fold -/
theorem aggGroup_plain {ks : List Bytes} (hks : ks.Nodup) {agg : Agg}
    (hord : agg ≠ .sum ∨ ks.length ≤ 2) (l : List Score) : aggGroup ks agg l = aggScores agg l := by
  unfold aggGroup
  rw [dedup_of_nodup hks]
  have : ¬ (agg = .sum ∧ ks.length ≥ 3) := by
    rintro ⟨h1, h2⟩
    rcases hord with h | h
    · exact h h1
    · omega
  rw [if_neg this]

theorem dedup_dedup {α : Type} [DecidableEq α] (l : List α) : dedup (dedup l) = dedup l :=
  dedup_of_nodup (nodup_dedup l)

theorem contains_dedup (ks : List Bytes) (k : Bytes) : (dedup ks).contains k = ks.contains k := by
  rw [Bool.eq_iff_iff, List.contains_iff_mem, List.contains_iff_mem, mem_dedup]

/-- `where key in (…)` does not see a repetition -/
theorem zKids_dedup (db : DB) (ks : List Bytes) (now : Int) :
    zKids db (dedup ks) now = zKids db ks now := by
  unfold zKids
  congr 1
  apply List.filter_congr
  intro r _
  rw [contains_dedup]

theorem cRows_dedup (db : DB) (ks : List Bytes) (now : Int) :
    cRows db (dedup ks) now = cRows db ks now := by
  unfold cRows; rw [zKids_dedup]

def BSorted (s : List Bytes) : Prop := s.Pairwise (fun a b => bytesLt a b = true)

theorem mem_sinsert (x y : Bytes) : ∀ (s : List Bytes), y ∈ sinsert s x ↔ y = x ∨ y ∈ s
  | [] => by simp [sinsert]
  | z :: zs => by
    have ih := mem_sinsert x y zs
    unfold sinsert
    split
    · rename_i h
      have h : x = z := by simpa using h
      subst h
      simp
    · split
      · simp
      · rw [List.mem_cons, ih, List.mem_cons]
        constructor
        · rintro (h | h | h)
          · exact Or.inr (Or.inl h)
          · exact Or.inl h
          · exact Or.inr (Or.inr h)
        · rintro (h | h | h)
          · exact Or.inr (Or.inl h)
          · exact Or.inl h
          · exact Or.inr (Or.inr h)

theorem sorted_sinsert (x : Bytes) : ∀ (s : List Bytes), BSorted s → BSorted (sinsert s x)
  | [], _ => by simp [sinsert, BSorted]
  | z :: zs, h => by
    have h' := List.pairwise_cons.1 h
    unfold sinsert
    split
    · exact h
    · rename_i hne
      split
      · rename_i hlt
        refine List.Pairwise.cons ?_ h
        intro q hq
        rcases List.mem_cons.1 hq with rfl | hq
        · exact hlt
        · exact bytesLt_trans _ _ _ hlt (h'.1 q hq)
      · rename_i hlt
        have hgt : bytesLt z x = true := by
          cases hc : bytesLt z x with
          | true => rfl
          | false =>
            have := bytesLt_connected x z (by simpa using hlt) hc
            simp [this] at hne
        refine List.Pairwise.cons ?_ (sorted_sinsert x zs h'.2)
        intro q hq
        rcases (mem_sinsert x q zs).1 hq with rfl | hq
        · exact hgt
        · exact h'.1 q hq

theorem mem_foldl_sinsert (y : Bytes) : ∀ (l acc : List Bytes),
    y ∈ l.foldl sinsert acc ↔ y ∈ acc ∨ y ∈ l
  | [], acc => by simp
  | x :: l, acc => by
    rw [List.foldl_cons, mem_foldl_sinsert y l, mem_sinsert, List.mem_cons]
    constructor
    · rintro ((h | h) | h)
      · exact Or.inr (Or.inl h)
      · exact Or.inl h
      · exact Or.inr (Or.inr h)
    · rintro (h | h | h)
      · exact Or.inl (Or.inr h)
      · exact Or.inl (Or.inl h)
      · exact Or.inr h

theorem mem_sfromList (y : Bytes) (l : List Bytes) : y ∈ sfromList l ↔ y ∈ l := by
  unfold sfromList; rw [mem_foldl_sinsert]; simp

theorem sorted_foldl_sinsert : ∀ (l acc : List Bytes), BSorted acc → BSorted (l.foldl sinsert acc)
  | [], _, h => h
  | x :: l, acc, h => sorted_foldl_sinsert l _ (sorted_sinsert x acc h)

theorem sorted_sfromList (l : List Bytes) : BSorted (sfromList l) :=
  sorted_foldl_sinsert l [] List.Pairwise.nil

theorem BSorted.nodup {s : List Bytes} (h : BSorted s) : s.Nodup := by
  unfold List.Nodup
  refine List.Pairwise.imp ?_ h
  intro a b hab heq
  rw [heq, bytesLt_irrefl] at hab
  cases hab

theorem insertSortedBy_map {α β : Type} (f : α → β) (lt : α → α → Bool) (lt' : β → β → Bool)
    (h : ∀ a b, lt' (f a) (f b) = lt a b) (x : α) : ∀ (l : List α),
    insertSortedBy lt' (f x) (l.map f) = (insertSortedBy lt x l).map f
  | [] => rfl
  | y :: ys => by
    simp only [List.map_cons, insertSortedBy, h]
    split
    · rfl
    · rw [List.map_cons, insertSortedBy_map f lt lt' h x ys]

theorem sortBy_map {α β : Type} (f : α → β) (lt : α → α → Bool) (lt' : β → β → Bool)
    (h : ∀ a b, lt' (f a) (f b) = lt a b) : ∀ (l : List α),
    sortBy lt' (l.map f) = (sortBy lt l).map f
  | [] => rfl
  | y :: ys => by
    have ih := sortBy_map f lt lt' h ys
    simp only [sortBy, List.map_cons, List.foldr_cons] at ih ⊢
    rw [ih, insertSortedBy_map f lt lt' h]

theorem filterMap_length_eq_iff {α β : Type} (f : α → Option β) : ∀ (l : List α),
    (l.filterMap f).length = l.length ↔ l.all (fun a => (f a).isSome) = true
  | [] => by simp
  | x :: l => by
    have ih := filterMap_length_eq_iff f l
    have hle := List.length_filterMap_le f l
    rw [List.filterMap_cons, List.all_cons]
    cases hf : f x with
    | none =>
      simp only [Option.isSome_none, Bool.false_and, Bool.false_eq_true, iff_false, List.length_cons]
      omega
    | some b =>
      simp only [List.length_cons, Option.isSome_some, Bool.true_and]
      rw [← ih]
      omega

/-! ### the specification's combination, member by member -/

/-- the members the specification keeps -/
def sMembers (s : State) (ks : List Bytes) (inter : Bool) : List Bytes :=
  let zs := ks.map (zsetAt s)
  let members := sfromList (zs.flatMap (fun z => z.map (·.1)))
  if inter then members.filter (fun m => zs.all (fun z => (aget z m).isSome)) else members

/-- the score the specification assigns to a member (`none`: not a number) -/
def sAgg (s : State) (ks : List Bytes) (agg : Agg) (m : Bytes) : Option Score :=
  specFold agg (sScores s ks m)

theorem sScores_ne_nil_iff (s : State) (ks : List Bytes) (m : Bytes) :
    sScores s ks m ≠ [] ↔ m ∈ sfromList ((ks.map (zsetAt s)).flatMap (fun z => z.map (·.1))) := by
  rw [mem_sfromList, List.mem_flatMap]
  unfold sScores
  constructor
  · intro h
    obtain ⟨sc, hsc⟩ := List.exists_mem_of_ne_nil _ h
    obtain ⟨z, hz, hzs⟩ := List.mem_filterMap.1 hsc
    refine ⟨z, hz, ?_⟩
    have : (aget z m).isSome = true := by rw [hzs]; rfl
    rw [aget_isSome_eq, List.contains_iff_mem] at this
    exact this
  · rintro ⟨z, hz, hm⟩
    have : (aget z m).isSome = true := by rw [aget_isSome_eq, List.contains_iff_mem]; exact hm
    obtain ⟨sc, hsc⟩ := Option.isSome_iff_exists.1 this
    exact List.ne_nil_of_mem (List.mem_filterMap.2 ⟨z, hz, hsc⟩)

theorem mem_sMembers (s : State) (ks : List Bytes) (inter : Bool) (m : Bytes) :
    m ∈ sMembers s ks inter ↔
      sScores s ks m ≠ [] ∧ (inter = true → (sScores s ks m).length = ks.length) := by
  have hall : (ks.map (zsetAt s)).all (fun z => (aget z m).isSome) = true
      ↔ (sScores s ks m).length = ks.length := by
    rw [← filterMap_length_eq_iff, List.length_map]; rfl
  unfold sMembers
  cases inter with
  | false => simp [sScores_ne_nil_iff]
  | true =>
    simp only [if_true, List.mem_filter, hall, sScores_ne_nil_iff, true_implies]

theorem nodup_sMembers (s : State) (ks : List Bytes) (inter : Bool) : (sMembers s ks inter).Nodup := by
  unfold sMembers
  simp only []
  split
  · exact List.Nodup.sublist List.filter_sublist (sorted_sfromList _).nodup
  · exact (sorted_sfromList _).nodup

theorem spec_zCombine_eq (s : State) (ks : List Bytes) (agg : Agg) (inter : Bool) :
    Spec.zCombine s ks agg inter =
      (sMembers s ks inter).foldr (fun m acc =>
        match acc with
        | none => none
        | some l =>
          match sScores s ks m with
          | [] => some l
          | x :: xs =>
            match xs.foldl (fun a y => a.bind (fun a => aggOne agg a y)) (some x) with
            | none => none
            | some sc => some ((m, sc) :: l)) (some []) := rfl

theorem spec_foldr_char (s : State) (ks : List Bytes) (agg : Agg) : ∀ (M : List Bytes),
    (∀ m ∈ M, sScores s ks m ≠ []) → ∀ r,
    M.foldr (fun m acc =>
        match acc with
        | none => none
        | some l =>
          match sScores s ks m with
          | [] => some l
          | x :: xs =>
            match xs.foldl (fun a y => a.bind (fun a => aggOne agg a y)) (some x) with
            | none => none
            | some sc => some ((m, sc) :: l)) (some []) = some r →
    r = M.filterMap (fun m => (sAgg s ks agg m).map (fun sc => (m, sc))) ∧
      ∀ m ∈ M, sAgg s ks agg m ≠ none
  | [], _, r, h => by
    simp only [List.foldr_nil, Option.some.injEq] at h
    exact ⟨h.symm, fun _ hm => by cases hm⟩
  | m :: M, hne, r, h => by
    rw [List.foldr_cons] at h
    generalize hacc : M.foldr _ (some []) = acc at h
    cases acc with
    | none => cases h
    | some l =>
      obtain ⟨hl, hall⟩ := spec_foldr_char s ks agg M (fun x hx => hne x (List.mem_cons_of_mem _ hx)) l hacc
      have hm := hne m (by simp)
      simp only [] at h
      cases hsc : sScores s ks m with
      | nil => exact absurd hsc hm
      | cons x xs =>
        rw [hsc] at h
        simp only [] at h
        have hagg : sAgg s ks agg m = xs.foldl (fun a y => a.bind (fun a => aggOne agg a y)) (some x) := by
          unfold sAgg; rw [hsc]; rfl
        cases hf : xs.foldl (fun a y => a.bind (fun a => aggOne agg a y)) (some x) with
        | none => rw [hf] at h; cases h
        | some sc =>
          rw [hf] at h
          simp only [Option.some.injEq] at h
          refine ⟨?_, ?_⟩
          · rw [List.filterMap_cons, hagg, hf, ← h, hl]; rfl
          · intro y hy
            rcases List.mem_cons.1 hy with rfl | hy
            · rw [hagg, hf]; exact Option.some_ne_none _
            · exact hall y hy

theorem spec_zCombine_char {s : State} {ks : List Bytes} {agg : Agg} {inter : Bool}
    {r : List (Bytes × Score)} (h : Spec.zCombine s ks agg inter = some r) :
    r = (sMembers s ks inter).filterMap (fun m => (sAgg s ks agg m).map (fun sc => (m, sc))) ∧
      ∀ m ∈ sMembers s ks inter, sAgg s ks agg m ≠ none := by
  rw [spec_zCombine_eq] at h
  exact spec_foldr_char s ks agg _ (fun m hm => ((mem_sMembers s ks inter m).1 hm).1) r h

/-! ### the model's `group by elem … order by agg(score), elem` -/

/-- `order by 2, 1` with NULL first -/
def nullsFirst (a b : Bytes × Option Score) : Bool :=
  match a.2, b.2 with
  | some x, some y => Score.lt x y || (x == y && bytesLt a.1 b.1)
  | none, some _ => true
  | some _, none => false
  | none, none => bytesLt a.1 b.1

/-- `having count(distinct kid) = ?` fails; the parameter is the number of distinct keys -/
def mFail (db : DB) (ks : List Bytes) (now : Int) (inter : Bool) (e : Bytes) : Bool :=
  inter && !((((cRows db ks now).filter (fun r => r.elem == e)).length : Int) == (dedup ks).length)

theorem model_zCombine_eq (db : DB) (ks : List Bytes) (agg : Agg) (inter : Bool) (now : Int) :
    Model.zCombine db ks agg inter now =
      sortBy nullsFirst ((dedup ((cRows db ks now).map (·.elem))).filterMap (fun e =>
        if mFail db ks now inter e then none
        else some (e, aggGroup ks agg (mScores db ks now e)))) := rfl

def withScore (p : Bytes × Score) : Bytes × Option Score := (p.1, some p.2)

theorem nullsFirst_withScore (a b : Bytes × Score) :
    nullsFirst (withScore a) (withScore b) = Spec.zLt a b := rfl

theorem length_mScores (db : DB) (ks : List Bytes) (now : Int) (e : Bytes) :
    (mScores db ks now e).length = ((cRows db ks now).filter (fun r => r.elem == e)).length := by
  unfold mScores; rw [List.length_map]

theorem mem_elems_iff (db : DB) (ks : List Bytes) (now : Int) (e : Bytes) :
    e ∈ dedup ((cRows db ks now).map (·.elem)) ↔ mScores db ks now e ≠ [] := by
  rw [mem_dedup, List.mem_map]
  unfold mScores
  constructor
  · rintro ⟨r, hr, he⟩
    exact List.ne_nil_of_mem (List.mem_map.2 ⟨r, List.mem_filter.2 ⟨hr, by simp [he]⟩, rfl⟩)
  · intro h
    obtain ⟨sc, hsc⟩ := List.exists_mem_of_ne_nil _ h
    obtain ⟨r, hr, _⟩ := List.mem_map.1 hsc
    obtain ⟨h1, h2⟩ := List.mem_filter.1 hr
    exact ⟨r, h1, by simpa using h2⟩

/-- the members the model keeps are the members the specification keeps -/
theorem members_iff {db : DB} (hz : db.ZWF) (now : Int) {ks : List Bytes} (hks : ks.Nodup)
    (inter : Bool) (e : Bytes) :
    (e ∈ dedup ((cRows db ks now).map (·.elem)) ∧ mFail db ks now inter e = false) ↔
      e ∈ sMembers (abs now db) ks inter := by
  have hp := scores_perm hz now hks e
  have hlen := hp.length_eq
  have hnil : mScores db ks now e ≠ [] ↔ sScores (abs now db) ks e ≠ [] := by
    constructor
    · intro h h2; rw [h2] at hp; exact h hp.eq_nil
    · intro h h2; rw [h2] at hp; exact h hp.symm.eq_nil
  rw [mem_elems_iff, mem_sMembers, hnil, ← hlen, length_mScores]
  unfold mFail
  rw [dedup_of_nodup hks]
  cases inter with
  | false => simp
  | true =>
    simp only [Bool.true_and, Bool.not_eq_false', beq_iff_eq, true_implies]
    constructor
    · rintro ⟨h1, h2⟩; exact ⟨h1, by omega⟩
    · rintro ⟨h1, h2⟩; exact ⟨h1, by omega⟩

theorem nodup_of_fst {β : Type} {l : List (Bytes × β)} (h : (l.map (·.1)).Nodup) : l.Nodup := by
  unfold List.Nodup at h ⊢
  rw [List.pairwise_map] at h
  exact h.imp (fun hne heq => hne (congrArg Prod.fst heq))

/-- **The heart of union / intersection.** For a list of distinct keys, whenever the specification
produces a result `r` (no aggregate is NaN), the model's ordered group list is `r` in rank order. -/
theorem zCombine_match_nodup {db : DB} (hz : db.ZWF) (now : Int) {ks : List Bytes} (hks : ks.Nodup)
    (agg : Agg) (hord : agg ≠ .sum ∨ ks.length ≤ 2) (inter : Bool) {r : List (Bytes × Score)}
    (hr : Spec.zCombine (abs now db) ks agg inter = some r) :
    Model.zCombine db ks agg inter now = (zsorted r).map withScore := by
  obtain ⟨hrEq, hsome⟩ := spec_zCombine_char hr
  let g : Bytes → Option Score := fun e =>
    if mFail db ks now inter e then none else sAgg (abs now db) ks agg e
  let G' : List (Bytes × Score) :=
    (dedup ((cRows db ks now).map (·.elem))).filterMap (fun e => (g e).map (fun v => (e, v)))
  -- the model's groups are `G'` with every score present
  have hgroups : (dedup ((cRows db ks now).map (·.elem))).filterMap (fun e =>
        if mFail db ks now inter e then none
        else some (e, aggGroup ks agg (mScores db ks now e))) = G'.map withScore := by
    show _ = List.map withScore (List.filterMap _ _)
    rw [List.map_filterMap]
    apply filterMap_congr'
    intro e he
    cases hf : mFail db ks now inter e with
    | true => simp [g, hf]
    | false =>
      have hm : e ∈ sMembers (abs now db) ks inter := (members_iff hz now hks inter e).1 ⟨he, hf⟩
      have hag : aggGroup ks agg (mScores db ks now e) = sAgg (abs now db) ks agg e := by
        rw [aggGroup_plain hks hord]
        exact agg_eq hz now hks agg hord e
      obtain ⟨sc, hsc⟩ := Option.ne_none_iff_exists'.1 (hsome e hm)
      simp [g, hf, hag, hsc, withScore]
  rw [model_zCombine_eq, hgroups, sortBy_map withScore Spec.zLt nullsFirst nullsFirst_withScore]
  congr 1
  -- two rank-ordered lists with the same pairs
  have hndG : G'.Nodup := by
    apply nodup_of_fst
    have := keys_filterMap_sublist (fun e : Bytes => e) g (dedup ((cRows db ks now).map (·.elem)))
    rw [List.map_id'] at this
    exact List.Nodup.sublist this (nodup_dedup _)
  have hndR : r.Nodup := by
    apply nodup_of_fst
    rw [hrEq]
    have := keys_filterMap_sublist (fun e : Bytes => e) (sAgg (abs now db) ks agg)
      (sMembers (abs now db) ks inter)
    rw [List.map_id'] at this
    exact List.Nodup.sublist this (nodup_sMembers _ _ _)
  have hp1 : (sortBy Spec.zLt G').Pairwise (fun x y => Spec.zLt x y = true) :=
    pairwise_sortBy _root_.id strictTotal_zLt G' (by rw [List.map_id]; exact hndG)
  have hp2 : (zsorted r).Pairwise (fun x y => Spec.zLt x y = true) :=
    pairwise_sortBy _root_.id strictTotal_zLt r (by rw [List.map_id]; exact hndR)
  apply pairwise_unique strictTotal_zLt hp1 hp2
  intro p
  unfold zsorted
  rw [mem_sortBy, mem_sortBy, hrEq]
  show p ∈ List.filterMap _ _ ↔ _
  simp only [List.mem_filterMap, Option.map_eq_some_iff]
  constructor
  · rintro ⟨e, he, sc, hg, rfl⟩
    cases hf : mFail db ks now inter e with
    | true => simp [g, hf] at hg
    | false =>
      refine ⟨e, (members_iff hz now hks inter e).1 ⟨he, hf⟩, sc, ?_, rfl⟩
      simpa [g, hf] using hg
  · rintro ⟨e, he, sc, hg, rfl⟩
    obtain ⟨h1, h2⟩ := (members_iff hz now hks inter e).2 he
    exact ⟨e, h1, sc, by simp [g, h2, hg], rfl⟩

/-! ### a key named twice -/

/-- the model's combination for `ks` is its combination for the distinct keys of `ks` -/
theorem model_zCombine_dedup (db : DB) (ks : List Bytes) (agg : Agg) (inter : Bool) (now : Int) :
    Model.zCombine db (dedup ks) agg inter now = Model.zCombine db ks agg inter now := by
  rw [model_zCombine_eq, model_zCombine_eq]
  unfold mFail mScores aggGroup
  rw [cRows_dedup, dedup_dedup]

theorem sScores_cons (s : State) (k : Bytes) (ks : List Bytes) (e : Bytes) :
    sScores s (k :: ks) e = (aget (zsetAt s k) e).toList ++ sScores s ks e := by
  unfold sScores
  rw [List.map_cons, List.filterMap_cons]
  cases aget (zsetAt s k) e <;> rfl

theorem mem_sScores (s : State) (ks : List Bytes) (e : Bytes) (x : Score) :
    x ∈ sScores s ks e ↔ ∃ k ∈ ks, aget (zsetAt s k) e = some x := by
  unfold sScores
  simp only [List.mem_filterMap, List.mem_map]
  constructor
  · rintro ⟨z, ⟨k, hk, rfl⟩, hx⟩; exact ⟨k, hk, hx⟩
  · rintro ⟨k, hk, hx⟩; exact ⟨_, ⟨k, hk, rfl⟩, hx⟩

theorem sScores_dedup_nil (s : State) (ks : List Bytes) (e : Bytes) :
    sScores s (dedup ks) e = [] ↔ sScores s ks e = [] := by
  simp only [List.eq_nil_iff_forall_not_mem, mem_sScores, mem_dedup]

/-- folding an idempotent, right-commutative operation: a term that occurs again is absorbed -/
theorem foldl_absorb (f : Score → Score → Score) (hrc : ∀ z a b, f (f z a) b = f (f z b) a)
    (hid : ∀ z a, f (f z a) a = f z a) (x : Score) : ∀ (l : List Score) (z : Score), x ∈ l →
    l.foldl f (f z x) = l.foldl f z
  | [], _, h => by cases h
  | y :: l, z, h => by
    rw [List.foldl_cons, List.foldl_cons]
    by_cases hxy : x = y
    · subst hxy; rw [hid]
    · have hx : x ∈ l := by
        rcases List.mem_cons.1 h with h | h
        · exact absurd h hxy
        · exact h
      rw [hrc, foldl_absorb f hrc hid x l (f z y) hx]

theorem foldl_sScores_dedup (f : Score → Score → Score) (hrc : ∀ z a b, f (f z a) b = f (f z b) a)
    (hid : ∀ z a, f (f z a) a = f z a) (s : State) (e : Bytes) : ∀ (ks : List Bytes) (z : Score),
    (sScores s (dedup ks) e).foldl f z = (sScores s ks e).foldl f z
  | [], _ => rfl
  | k :: ks, z => by
    rw [sScores_cons, List.foldl_append, dedup_cons]
    split
    · rename_i hk
      rw [foldl_sScores_dedup f hrc hid s e ks z]
      cases hx : aget (zsetAt s k) e with
      | none => rfl
      | some x =>
        simp only [Option.toList_some, List.foldl_cons, List.foldl_nil]
        exact (foldl_absorb f hrc hid x _ z ((mem_sScores s ks e x).2 ⟨k, hk, hx⟩)).symm
    · rw [sScores_cons, List.foldl_append, foldl_sScores_dedup f hrc hid s e ks]

theorem min_idem (z a : Score) : Score.min (Score.min z a) a = Score.min z a := by
  cases z <;> cases a <;> simp [Score.min, Score.lt] <;> grind

theorem max_idem (z a : Score) : Score.max (Score.max z a) a = Score.max z a := by
  cases z <;> cases a <;> simp [Score.max, Score.lt] <;> grind

/-- `min` and `max` do not see a repetition; a `sum` does -/
theorem specFold_dedup {agg : Agg} (h : agg ≠ .sum) (s : State) (ks : List Bytes) (e : Bytes) :
    specFold agg (sScores s (dedup ks) e) = specFold agg (sScores s ks e) := by
  cases agg with
  | sum => exact absurd rfl h
  | min =>
    rw [specFold_min, specFold_min, foldl_sScores_dedup _ min_rc min_idem]
    simp only [sScores_dedup_nil]
  | max =>
    rw [specFold_max, specFold_max, foldl_sScores_dedup _ max_rc max_idem]
    simp only [sScores_dedup_nil]

theorem bsorted_sMembers (s : State) (ks : List Bytes) (inter : Bool) : BSorted (sMembers s ks inter) := by
  unfold sMembers
  simp only []
  split
  · exact List.Pairwise.filter _ (sorted_sfromList _)
  · exact sorted_sfromList _

theorem mem_sMembers' (s : State) (ks : List Bytes) (inter : Bool) (m : Bytes) :
    m ∈ sMembers s ks inter ↔
      (∃ k ∈ ks, m ∈ (zsetAt s k).map (·.1)) ∧
        (inter = true → ∀ k ∈ ks, (aget (zsetAt s k) m).isSome = true) := by
  unfold sMembers
  cases inter with
  | false =>
    simp only [Bool.false_eq_true, if_false, mem_sfromList, List.mem_flatMap, List.mem_map,
      false_implies, and_true]
    constructor
    · rintro ⟨z, ⟨k, hk, rfl⟩, hm⟩; exact ⟨k, hk, hm⟩
    · rintro ⟨k, hk, hm⟩; exact ⟨_, ⟨k, hk, rfl⟩, hm⟩
  | true =>
    simp only [if_true, List.mem_filter, mem_sfromList, List.mem_flatMap, List.mem_map,
      List.all_eq_true, true_implies]
    constructor
    · rintro ⟨⟨z, ⟨k, hk, rfl⟩, hm⟩, hall⟩
      exact ⟨⟨k, hk, hm⟩, fun k' hk' => hall _ ⟨k', hk', rfl⟩⟩
    · rintro ⟨⟨k, hk, hm⟩, hall⟩
      refine ⟨⟨_, ⟨k, hk, rfl⟩, hm⟩, ?_⟩
      rintro z ⟨k', hk', rfl⟩
      exact hall k' hk'

/-- the members of a union / intersection do not depend on how often a key is named -/
theorem sMembers_dedup (s : State) (ks : List Bytes) (inter : Bool) :
    sMembers s (dedup ks) inter = sMembers s ks inter := by
  apply pairwise_unique strictTotal_bytes (bsorted_sMembers _ _ _) (bsorted_sMembers _ _ _)
  intro m
  simp only [mem_sMembers', mem_dedup]

/-- one step of the specification's fold, as a function of the scores of the member -/
def specStep (agg : Agg) (sc : List Score) (m : Bytes) (acc : Option (List (Bytes × Score))) :
    Option (List (Bytes × Score)) :=
  match acc with
  | none => none
  | some l =>
    match sc with
    | [] => some l
    | x :: xs =>
      match xs.foldl (fun a y => a.bind (fun a => aggOne agg a y)) (some x) with
      | none => none
      | some v => some ((m, v) :: l)

theorem specStep_congr {agg : Agg} {sc sc' : List Score} (hn : sc = [] ↔ sc' = [])
    (hf : specFold agg sc = specFold agg sc') (m : Bytes) (acc : Option (List (Bytes × Score))) :
    specStep agg sc m acc = specStep agg sc' m acc := by
  cases acc with
  | none => rfl
  | some l =>
    cases sc with
    | nil => rw [hn.1 rfl]
    | cons x xs =>
      cases sc' with
      | nil => exact absurd (hn.2 rfl) (by simp)
      | cons y ys =>
        have hf' : xs.foldl (fun a y => a.bind (fun a => aggOne agg a y)) (some x)
            = ys.foldl (fun a y => a.bind (fun a => aggOne agg a y)) (some y) := hf
        simp only [specStep, hf']

/-- for `min` and `max` the specification's result does not depend on how often a key is named -/
theorem spec_zCombine_dedup {agg : Agg} (h : agg ≠ .sum) (s : State) (ks : List Bytes) (inter : Bool) :
    Spec.zCombine s (dedup ks) agg inter = Spec.zCombine s ks agg inter := by
  rw [spec_zCombine_eq, spec_zCombine_eq, sMembers_dedup]
  show List.foldr (fun m acc => specStep agg (sScores s (dedup ks) m) m acc) (some []) _
    = List.foldr (fun m acc => specStep agg (sScores s ks m) m acc) (some []) _
  congr 1
  funext m acc
  exact specStep_congr (sScores_dedup_nil s ks m) (specFold_dedup h s ks m) m acc

/-- the members of the specification's result -/
theorem spec_result_members {s : State} {ks : List Bytes} {agg : Agg} {inter : Bool}
    {r : List (Bytes × Score)} (h : Spec.zCombine s ks agg inter = some r) :
    r.map (·.1) = sMembers s ks inter := by
  obtain ⟨hr, hall⟩ := spec_zCombine_char h
  rw [hr]
  generalize sMembers s ks inter = M at hall
  induction M with
  | nil => rfl
  | cons m M ih =>
    obtain ⟨sc, hsc⟩ := Option.ne_none_iff_exists'.1 (hall m (by simp))
    rw [List.filterMap_cons, hsc]
    simp only [Option.map_some, List.map_cons]
    rw [ih (fun x hx => hall x (List.mem_cons_of_mem _ hx))]

/-- **The heart of union / intersection, any key list.** For a list of distinct keys, or for `min`
and `max` and any key list: whenever the specification produces a result `r` (no aggregate is
NaN), the model's ordered group list is `r` in rank order. -/
theorem zCombine_match {db : DB} (hz : db.ZWF) (now : Int) {ks : List Bytes} (agg : Agg)
    (hks : ks.Nodup ∨ agg ≠ .sum) (hord : agg ≠ .sum ∨ ks.length ≤ 2) (inter : Bool)
    {r : List (Bytes × Score)} (hr : Spec.zCombine (abs now db) ks agg inter = some r) :
    Model.zCombine db ks agg inter now = (zsorted r).map withScore := by
  rcases hks with hks | hns
  · exact zCombine_match_nodup hz now hks agg hord inter hr
  · rw [← model_zCombine_dedup]
    exact zCombine_match_nodup hz now (nodup_dedup ks) agg (Or.inl hns) inter
      (by rw [spec_zCombine_dedup hns]; exact hr)

/-- A key named twice, any aggregate. The model answers as for the list of distinct keys, and that
answer has exactly the members of the specification's answer for the list as given (the scores
agree for `min` and `max`; a `sum` adds the repeated key's score once in the model, once per
occurrence in the specification). -/
theorem zCombine_members {db : DB} (hz : db.ZWF) (now : Int) (ks : List Bytes) (agg : Agg)
    (hord : agg ≠ .sum ∨ (dedup ks).length ≤ 2) (inter : Bool) {r r' : List (Bytes × Score)}
    (hr : Spec.zCombine (abs now db) ks agg inter = some r)
    (hr' : Spec.zCombine (abs now db) (dedup ks) agg inter = some r') :
    Model.zCombine db ks agg inter now = (zsorted r').map withScore ∧
      r'.map (·.1) = r.map (·.1) := by
  refine ⟨?_, ?_⟩
  · rw [← model_zCombine_dedup]
    exact zCombine_match_nodup hz now (nodup_dedup ks) agg hord inter hr'
  · rw [spec_result_members hr, spec_result_members hr', sMembers_dedup]

/-! ### `Inter` / `Union` without storing -/

theorem any_isNone_withScore (l : List (Bytes × Score)) :
    (l.map withScore).any (fun p => p.2.isNone) = false := by
  rw [List.any_map, List.any_eq_false]
  intro p _
  simp [withScore]

theorem items_withScore (l : List (Bytes × Score)) :
    (l.map withScore).filterMap (fun p => p.2.map (fun s => Val.list [.bytes p.1, .score s]))
      = l.map Spec.zItem := by
  rw [List.filterMap_map]
  induction l with
  | nil => rfl
  | cons p l ih => rw [List.filterMap_cons, List.map_cons, ih]; rfl

theorem zCombineRun_refines {db : DB} (hz : db.ZWF) (now : Int) {ks : List Bytes} (agg : Agg)
    (hks : ks.Nodup ∨ agg ≠ .sum) (hord : agg ≠ .sum ∨ ks.length ≤ 2) (inter : Bool)
    {r : List (Bytes × Score)} (hr : Spec.zCombine (abs now db) ks agg inter = some r) :
    Refines now (zCombineRun db ks agg inter now)
      (Spec.ok (.list ((zsorted r).map Spec.zItem)) (abs now db)) := by
  unfold zCombineRun
  simp only [zCombine_match hz now agg hks hord inter hr, any_isNone_withScore, Bool.false_eq_true,
    if_false, items_withScore]
  exact refines_same hz.toWF _

/-- `Inter` / `Union` over a list that names a key twice, any aggregate: the answer is the answer
for the distinct keys, and has the members of the specification's answer -/
theorem zCombineRun_members {db : DB} (hz : db.ZWF) (now : Int) (ks : List Bytes) (agg : Agg)
    (hord : agg ≠ .sum ∨ (dedup ks).length ≤ 2) (inter : Bool) {r r' : List (Bytes × Score)}
    (hr : Spec.zCombine (abs now db) ks agg inter = some r)
    (hr' : Spec.zCombine (abs now db) (dedup ks) agg inter = some r') :
    zCombineRun db ks agg inter now = ⟨.ok (.list ((zsorted r').map Spec.zItem)), db⟩ ∧
      r'.map (·.1) = r.map (·.1) := by
  obtain ⟨h1, h2⟩ := zCombine_members hz now ks agg hord inter hr hr'
  refine ⟨?_, h2⟩
  unfold zCombineRun
  simp only [h1, any_isNone_withScore, Bool.false_eq_true, if_false, items_withScore]
  rfl

/-! ### the storing variants -/

/-- the specification's combination looks only at the keys named in `ks` -/
theorem spec_zCombine_put {s : State} {ks : List Bytes} {d : Bytes} (hd : d ∉ ks) (e : Entry)
    (agg : Agg) (inter : Bool) :
    Spec.zCombine (put s d e) ks agg inter = Spec.zCombine s ks agg inter := by
  have hz : ks.map (zsetAt (put s d e)) = ks.map (zsetAt s) := by
    apply List.map_congr_left
    intro k hk
    unfold zsetAt
    rw [get_put]
    have : (d == k) = false := by simpa using fun h : d = k => hd (h ▸ hk)
    simp [this]
  unfold Spec.zCombine
  simp only [hz]

def wipeUpd (o : KeyRow) : KeyRow := { o with version := 0, mtime := 0, len := some 0 }

theorem zDeleteAll_some {db : DB} {d : Bytes} {now : Int} {r : KeyRow}
    (hl : db.liveKeyT d TZSet now = some r) :
    zDeleteAll db d now
      = (({ db with zsets := db.zsets.filter (fun x => x.kid != r.id) } : DB)).updKey r.id wipeUpd := by
  simp only [zDeleteAll, hl]
  rfl

theorem zDeleteAll_none {db : DB} {d : Bytes} {now : Int} (hl : db.liveKeyT d TZSet now = none) :
    zDeleteAll db d now = db := by
  simp only [zDeleteAll, hl]

theorem filter_kid_wipe (zs : List ZRow) (id : Int) {id' : Int} (hne : id' ≠ id) :
    (zs.filter (fun x => x.kid != id)).filter (fun z => z.kid == id')
      = zs.filter (fun z => z.kid == id') := by
  rw [List.filter_filter]
  apply List.filter_congr
  intro x _
  by_cases hk : x.kid = id'
  · have : ¬ x.kid = id := fun h => hne (by rw [← hk, h])
    simp [hk]
    exact hne
  · simp [hk]

theorem filter_kid_wipe_self (zs : List ZRow) (id : Int) :
    (zs.filter (fun x => x.kid != id)).filter (fun z => z.kid == id) = [] := by
  rw [List.filter_filter, List.filter_eq_nil_iff]
  intro x _
  simp

theorem zwf_wipe {db : DB} (hz : db.ZWF) {r : KeyRow} (hr : r ∈ db.keys) :
    ((({ db with zsets := db.zsets.filter (fun x => x.kid != r.id) } : DB)).updKey r.id wipeUpd).ZWF := by
  apply zwf_rows_update hz ⟨r, hr, rfl⟩
  · exact List.Nodup.sublist (List.Sublist.map _ List.filter_sublist) hz.zuniq
  · intro z hzm; exact Or.inl (List.mem_filter.1 hzm).1
  · intro id' hne
    unfold zCountOf
    rw [filter_kid_wipe db.zsets r.id hne]
  · intro o _ _
    refine ⟨rfl, fun _ => ?_⟩
    unfold zCountOf
    rw [filter_kid_wipe_self]
    rfl

theorem zDeleteAll_zwf {db : DB} (hz : db.ZWF) (d : Bytes) (now : Int) : (zDeleteAll db d now).ZWF := by
  cases hl : db.liveKeyT d TZSet now with
  | none => rw [zDeleteAll_none hl]; exact hz
  | some r => rw [zDeleteAll_some hl]; exact zwf_wipe hz (liveKeyT_some hl).1

/-- `sqlDeleteAll` on a live sorted set: the key stays, with no members -/
theorem abs_wipe {db : DB} (hz : db.ZWF) {d : Bytes} {now : Int} {r : KeyRow}
    (h : db.findKey d = some r) (hlv : r.live now = true) (ht : r.ty = TZSet)
    (hl : db.liveKeyT d TZSet now = some r) :
    abs now (zDeleteAll db d now) = put (abs now db) d ⟨.zset [], r.etime⟩ := by
  obtain ⟨hr, hrk⟩ := findKey_mem h
  rw [zDeleteAll_some hl]
  generalize hdb' : ((({ db with zsets := db.zsets.filter (fun x => x.kid != r.id) } : DB)).updKey r.id
    wipeUpd) = db'
  have hk' : db'.keys.map metaOf = db.keys.map metaOf := by
    rw [← hdb']
    exact updKey_meta (db := { db with zsets := db.zsets.filter (fun x => x.kid != r.id) })
      (fun _ _ _ => rfl)
  have hst : SameButZ db db' := by rw [← hdb']; exact ⟨rfl, rfl, rfl, rfl⟩
  have hfr : ∀ id', id' ≠ r.id →
      db'.zsets.filter (fun z => z.kid == id') = db.zsets.filter (fun z => z.kid == id') := by
    intro id' hne
    rw [← hdb']
    exact filter_kid_wipe db.zsets r.id hne
  have hA : zAssoc db' r.id = [] := by
    apply zAssoc_of_filter_nil
    rw [← hdb']
    exact filter_kid_wipe_self db.zsets r.id
  have hlive : liveAt now r.etime = true := hlv
  rw [abs_zrows hz hr ht hk' hst hfr now, hA, hrk]
  exact purge_put_live (sorted_abs hz.names now) (purge_abs hz.names now) d
    (e := ⟨.zset [], r.etime⟩) hlive

/-- the key row that owns the destination while the result is inserted -/
def Owner (db : DB) (id : Int) (k : Bytes) (et : Option Int) : Prop :=
  ∃ r ∈ db.keys, r.id = id ∧ r.ty = TZSet ∧ r.key = k ∧ r.etime = et

theorem owner_zSetRow {db : DB} {id : Int} {k : Bytes} {et : Option Int} (h : Owner db id k et)
    (e : Bytes) (s : Score) : Owner (zSetRow db id e s) id k et := by
  obtain ⟨r, hr, h1, h2, h3, h4⟩ := h
  obtain ⟨y, hy, hm⟩ := mem_of_map_eq (meta_zSetRow db id e s).symm r hr
  obtain ⟨m1, m2, m3, m4⟩ := metaOf_eq hm
  exact ⟨y, hy, by rw [← m1, h1], by rw [← m3, h2], by rw [← m2, h3], by rw [← m4, h4]⟩

theorem aget_foldl_aput {β : Type} (k : Bytes) : ∀ (items acc : List (Bytes × β)),
    (items.map (·.1)).Nodup →
    aget (items.foldl (fun a p => aput a p.1 p.2) acc) k
      = match aget items k with
        | some v => some v
        | none => aget acc k
  | [], _, _ => rfl
  | (k1, v1) :: rest, acc, hnd => by
    rw [List.map_cons] at hnd
    have hnd' := List.nodup_cons.1 hnd
    rw [List.foldl_cons, aget_foldl_aput k rest _ hnd'.2, aget_cons, aget_aput]
    by_cases hk : k1 = k
    · subst hk
      have : aget rest k1 = none := by
        rw [aget_eq_none_iff]
        intro p hp he
        exact hnd'.1 (List.mem_map.2 ⟨p, hp, he⟩)
      simp [this]
    · have : (k1 == k) = false := by simpa using hk
      simp [this]

theorem sorted_foldl_aput {β : Type} : ∀ (items acc : List (Bytes × β)), Sorted acc →
    Sorted (items.foldl (fun a p => aput a p.1 p.2) acc)
  | [], _, h => h
  | p :: rest, _, h => sorted_foldl_aput rest _ (h.aput p.1 p.2)

/-- inserting the members in rank order builds the map in member order -/
theorem foldl_aput_zsorted {r : List (Bytes × Score)} (hs : Sorted r) :
    (zsorted r).foldl (fun a p => aput a p.1 p.2) [] = r := by
  have hnd : ((zsorted r).map (·.1)).Nodup := ((perm_sortBy _ r).map _).nodup_iff.2 hs.nodup_keys
  apply sorted_ext (sorted_foldl_aput _ _ List.Pairwise.nil) hs
  intro k
  rw [aget_foldl_aput k _ _ hnd, aget_zsorted hs, aget_nil]
  cases aget r k <;> rfl

/-- `insert into rzset … select …` row by row -/
theorem zInsertAll_ok (now : Int) (id : Int) (k : Bytes) (et : Option Int) (s : State) (hs : Sorted s)
    (hps : purge now s = s) (hlive : liveAt now et = true) :
    ∀ (items : List (Bytes × Score)) (db : DB) (n : Int), db.ZWF → Owner db id k et →
      (items.map (·.1)).Nodup → (∀ p ∈ items, aget (zAssoc db id) p.1 = none) →
      abs now db = put s k ⟨.zset (zAssoc db id), et⟩ →
      ∃ db3, zInsertAll db id (items.map withScore) n = .ok (db3, n + items.length) ∧ db3.ZWF ∧
        abs now db3 = put s k ⟨.zset (items.foldl (fun a p => aput a p.1 p.2) (zAssoc db id)), et⟩
  | [], db, n, hz, _, _, _, ha => ⟨db, by simp [zInsertAll], hz, ha⟩
  | (e, sc) :: rest, db, n, hz, hown, hnd, hfresh, ha => by
    rw [List.map_cons] at hnd
    have hnd' := List.nodup_cons.1 hnd
    obtain ⟨r, hr, hrid, hrty, hrk, hret⟩ := hown
    have hno : zHas db.zsets id e = false := by
      have h1 := hfresh (e, sc) (by simp)
      rw [aget_zAssoc hz.zuniq] at h1
      rw [zHas_iff_zFind]
      cases hf : zFind db id e with
      | none => rfl
      | some row => rw [hf] at h1; cases h1
    have hstep : zInsertNew db id e sc = zSetRow db id e sc := (zSetRow_miss hno sc).symm
    have hz2 : (zSetRow db id e sc).ZWF := zwf_zSetRow hz ⟨r, hr, hrid⟩ e sc
    have hA2 : zAssoc (zSetRow db id e sc) id = aput (zAssoc db id) e sc :=
      zAssoc_zSetRow hz ⟨r, hr, hrid⟩ e sc
    have ha2 : abs now (zSetRow db id e sc) = put s k ⟨.zset (zAssoc (zSetRow db id e sc) id), et⟩ := by
      have := abs_zSetRow hz hr hrty e sc now
      rw [hrid, hrk, hret, ha, put_put _ hs] at this
      rw [this, hA2]
      exact purge_put_live hs hps k (e := ⟨.zset _, et⟩) hlive
    have hfresh2 : ∀ p ∈ rest, aget (zAssoc (zSetRow db id e sc) id) p.1 = none := by
      intro p hp
      rw [hA2, aget_aput]
      have hne : ¬ e = p.1 := fun h => hnd'.1 (List.mem_map.2 ⟨p, hp, h.symm⟩)
      have : (e == p.1) = false := by simpa using hne
      simp only [this, Bool.false_eq_true, if_false]
      exact hfresh p (List.mem_cons_of_mem _ hp)
    obtain ⟨db3, h3, hz3, ha3⟩ := zInsertAll_ok now id k et s hs hps hlive rest _ (n + 1) hz2
      (owner_zSetRow ⟨r, hr, hrid, hrty, hrk, hret⟩ e sc) hnd'.2 hfresh2 ha2
    refine ⟨db3, ?_, hz3, ?_⟩
    · have hany : db.zsets.any (fun r => r.kid == id && r.elem == e) = false := hno
      simp only [List.map_cons, withScore, zInsertAll, hany, Bool.false_eq_true, if_false, hstep, h3,
        List.length_cons]
      congr 2
      omega
    · rw [ha3, hA2]; rfl

/-- the specification's result is strictly sorted by member -/
theorem sorted_spec_result {s : State} {ks : List Bytes} {agg : Agg} {inter : Bool}
    {r : List (Bytes × Score)} (h : Spec.zCombine s ks agg inter = some r) : Sorted r := by
  rw [(spec_zCombine_char h).1]
  have hM : BSorted (sMembers s ks inter) := bsorted_sMembers s ks inter
  unfold Sorted
  refine List.Pairwise.filterMap _ ?_ hM
  intro a a' haa b hb b' hb'
  cases h1 : sAgg s ks agg a with
  | none => simp [h1] at hb
  | some v =>
    cases h2 : sAgg s ks agg a' with
    | none => simp [h2] at hb'
    | some v' =>
      simp only [h1, h2, Option.map_some, Option.some.injEq] at hb hb'
      rw [← hb, ← hb']
      exact haa

theorem length_zsorted (r : List (Bytes × Score)) : (zsorted r).length = r.length :=
  length_sortBy _ r

/-- `InterCmd.store` / `UnionCmd.store` outside D05, D08: the destination ends up holding
exactly the result computed on the state before the call -/
theorem zCombineStore_refines {db : DB} (hz : db.ZWF) {now : Int} {d : Bytes} {ks : List Bytes}
    (agg : Agg) (hks : ks.Nodup ∨ agg ≠ .sum) (hd : d ∉ ks) (hns : staleKey db now d = false)
    (hord : agg ≠ .sum ∨ ks.length ≤ 2) (inter : Bool) {r : List (Bytes × Score)}
    (hr : Spec.zCombine (abs now db) ks agg inter = some r) :
    Refines now (update (fun x => zCombineStore x d ks agg inter now) db)
      (Spec.zStore (abs now db) d r) := by
  have hsr := sorted_spec_result hr
  have hs := sorted_abs hz.names now
  have hps := purge_abs hz.names now
  have hnd : ((zsorted r).map (·.1)).Nodup := ((perm_sortBy _ r).map _).nodup_iff.2 hsr.nodup_keys
  -- what happens once the destination key row is in place with no members
  have finish : ∀ (et : Option Int) (db2 : DB) (r2 : KeyRow), liveAt now et = true → db2.ZWF →
      r2 ∈ db2.keys → r2.ty = TZSet → r2.key = d → r2.etime = et → zAssoc db2 r2.id = [] →
      abs now db2 = put (abs now db) d ⟨.zset [], et⟩ →
      ∃ db3, zInsertAll db2 r2.id (zCombine db2 ks agg inter now) 0 = .ok (db3, (r.length : Nat)) ∧
        abs now db3 = put (abs now db) d ⟨.zset r, et⟩ := by
    intro et db2 r2 hlive hz2 hm hty hk het hA hb
    have hr2 : Spec.zCombine (abs now db2) ks agg inter = some r := by
      rw [hb, spec_zCombine_put hd]; exact hr
    obtain ⟨db3, h3, _, ha3⟩ := zInsertAll_ok now r2.id d et (abs now db) hs hps hlive (zsorted r) db2 0
      hz2 ⟨r2, hm, rfl, hty, hk, het⟩ hnd (by intro p _; rw [hA]; rfl) (by rw [hA]; exact hb)
    refine ⟨db3, ?_, ?_⟩
    · rw [zCombine_match hz2 now agg hks hord inter hr2, h3, length_zsorted]
      simp
    · rw [ha3, hA, foldl_aput_zsorted hsr]
  rcases zholder hz.toWF now d with ⟨h, hg, hl⟩ | ⟨_, h, hlv, _, _⟩ | ⟨old, h, hlv, ht, hg, hl⟩ |
    ⟨old, v, h, _, ht, hg, hv, hl⟩
  · obtain ⟨db2, r0, hu⟩ := upsert_absent (now := now) hz h
    obtain ⟨db3, h3, ha3⟩ := finish none db2 r0 rfl hu.wf1 hu.mem hu.ty hu.rkey hu.retime hu.assoc hu.base
    have hm : update (fun x => zCombineStore x d ks agg inter now) db
        = ⟨.ok (.int (r.length : Nat)), db3⟩ := by
      simp [update, zCombineStore, zDeleteAll_none hl, hu.key, h3, Res.ok]
    rw [hm]
    simp only [Spec.zStore, hg, Spec.ok]
    exact refines_put hz.toWF (e := ⟨.zset r, none⟩) rfl ha3
  · exact (not_stale hns h hlv).elim
  · have hz1 := zDeleteAll_zwf hz d now
    have ha1 := abs_wipe hz h hlv ht hl
    have hlive : liveAt now old.etime = true := hlv
    have hg1 : Spec.get (abs now (zDeleteAll db d now)) d = some ⟨.zset [], old.etime⟩ := by
      rw [ha1, get_put_self]
    have hns1 := (get_abs_live hz1.toWF hg1).2
    rcases upsert_cases hz1 hns1 with ⟨hg', _⟩ | ⟨z', et', hg', db2, r2, hu⟩ | ⟨v, et', hg', hv, _⟩
    · rw [hg1] at hg'; cases hg'
    · rw [hg1] at hg'; cases hg'
      have hb : abs now db2 = put (abs now db) d ⟨.zset [], old.etime⟩ := by
        rw [hu.base, ha1, put_put _ hs]
      obtain ⟨db3, h3, ha3⟩ := finish old.etime db2 r2 hlive hu.wf1 hu.mem hu.ty hu.rkey hu.retime
        hu.assoc hb
      have hm : update (fun x => zCombineStore x d ks agg inter now) db
          = ⟨.ok (.int (r.length : Nat)), db3⟩ := by
        simp [update, zCombineStore, hu.key, h3, Res.ok]
      rw [hm]
      simp only [Spec.zStore, hg, Spec.ok]
      exact refines_put hz.toWF (e := ⟨.zset r, old.etime⟩) hlive ha3
    · rw [hg1] at hg'; cases hg'; exact absurd rfl (hv _)
  · have hm : update (fun x => zCombineStore x d ks agg inter now) db = ⟨.error .keyType, db⟩ := by
      simp [update, zCombineStore, zDeleteAll_none hl, upsert_other h ht, Res.err]
    rw [hm]
    cases v <;> first | exact absurd rfl (hv _) |
      (simp only [Spec.zStore, hg, Spec.er]; exact refines_same hz.toWF _)

/-! ### the storing variants keep `DB.ZWF` (all states) -/

theorem owner_zInsertNew {db : DB} {id : Int} (h : ∃ r ∈ db.keys, r.id = id) (e : Bytes) (s : Score) :
    ∃ r ∈ (zInsertNew db id e s).keys, r.id = id := by
  obtain ⟨r, hr, hrid⟩ := h
  have hmeta : (zInsertNew db id e s).keys.map metaOf = db.keys.map metaOf := by
    rw [zInsertNew_eq]
    exact updKey_meta (db := { db with zsets := _ }) (fun _ _ _ => rfl)
  obtain ⟨y, hy, hm⟩ := mem_of_map_eq hmeta.symm r hr
  exact ⟨y, hy, by rw [← (metaOf_eq hm).1, hrid]⟩

theorem zInsertAll_wf (id : Int) : ∀ (items : List (Bytes × Option Score)) (db : DB) (n : Int),
    db.ZWF → (∃ r ∈ db.keys, r.id = id) → ∀ db3 m, zInsertAll db id items n = .ok (db3, m) → db3.ZWF
  | [], db, n, hz, _, db3, m, h => by
    simp only [zInsertAll, Except.ok.injEq, Prod.mk.injEq] at h
    rw [← h.1]; exact hz
  | (e, none) :: rest, db, n, _, _, db3, m, h => by simp [zInsertAll] at h
  | (e, some s) :: rest, db, n, hz, hown, db3, m, h => by
    cases hany : db.zsets.any (fun r => r.kid == id && r.elem == e) with
    | true => simp [zInsertAll, hany] at h
    | false =>
      simp only [zInsertAll, hany, Bool.false_eq_true, if_false] at h
      exact zInsertAll_wf id rest _ (n + 1) (zwf_zInsertNew hz hown hany s)
        (owner_zInsertNew hown e s) db3 m h

theorem zCombineStore_wf {db : DB} (hz : db.ZWF) (d : Bytes) (ks : List Bytes) (agg : Agg)
    (inter : Bool) (now : Int) :
    (update (fun x => zCombineStore x d ks agg inter now) db).db.ZWF := by
  apply update_zwf hz
  intro v hv
  have hz1 := zDeleteAll_zwf hz d now
  unfold zCombineStore at hv ⊢
  simp only [] at hv ⊢
  cases hk : zAddKey (zDeleteAll db d now) d now with
  | error er => rw [hk] at hv; cases hv
  | ok p =>
    obtain ⟨db2, r⟩ := p
    obtain ⟨hz2, hr⟩ := upsert_wf hz1 hk
    simp only [hk] at hv ⊢
    cases hi : zInsertAll db2 r.id (zCombine db2 ks agg inter now) 0 with
    | error er => rw [hi] at hv; cases hv
    | ok q =>
      obtain ⟨db3, n⟩ := q
      exact zInsertAll_wf r.id _ db2 0 hz2 ⟨r, hr, rfl⟩ db3 n hi

end Redka.ZSetRef
