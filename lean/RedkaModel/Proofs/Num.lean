import RedkaModel.Basic

namespace Redka

theorem digitChar_toNat (d : Nat) : (digitChar d).toNat = 48 + d % 10 := by
  simp [digitChar]
  omega

theorem isDigit_iff (c : UInt8) : isDigit c = true ↔ 48 ≤ c.toNat ∧ c.toNat ≤ 57 := by
  simp [isDigit, UInt8.le_iff_toNat_le]

theorem isDigit_digitChar (d : Nat) : isDigit (digitChar d) = true := by
  rw [isDigit_iff, digitChar_toNat]; omega

theorem natDigits_all_digit (n : Nat) : (natDigits n).all isDigit = true := by
  fun_induction natDigits n with
  | case1 n h => simp [isDigit_digitChar]
  | case2 n h ih => simp [List.all_append, ih, isDigit_digitChar]

theorem natDigits_ne_nil (n : Nat) : natDigits n ≠ [] := by
  rw [natDigits]; split <;> simp

theorem natDigits_of_lt {n : Nat} (h : n < 10) : natDigits n = [digitChar n] := by
  rw [natDigits]; simp [h]

theorem natDigits_of_ge {n : Nat} (h : 10 ≤ n) :
    natDigits n = natDigits (n / 10) ++ [digitChar n] := by
  rw [natDigits]; simp [Nat.not_lt.mpr h]

theorem digitsVal_append (a b : Bytes) (acc : Nat) :
    digitsVal (a ++ b) acc = digitsVal b (digitsVal a acc) := by
  induction a generalizing acc with
  | nil => rfl
  | cons c cs ih => simp [digitsVal, ih]

theorem digitsVal_natDigits (n : Nat) : digitsVal (natDigits n) 0 = n := by
  fun_induction natDigits n with
  | case1 n h => simp [digitsVal, digitChar_toNat]; omega
  | case2 n h ih => simp [digitsVal_append, ih, digitsVal, digitChar_toNat]; omega

theorem natDigits_mem_digit {n : Nat} {c : UInt8} (h : c ∈ natDigits n) : isDigit c = true :=
  List.all_eq_true.mp (natDigits_all_digit n) c h

theorem natDigits_head_ne {n : Nat} {c : UInt8} {t : Bytes} (hc : isDigit c = false) :
    natDigits n ≠ c :: t := by
  intro h
  have := natDigits_mem_digit (n := n) (c := c) (by simp [h])
  simp [hc] at this

theorem natDigits_injective {a b : Nat} (h : natDigits a = natDigits b) : a = b := by
  rw [← digitsVal_natDigits a, ← digitsVal_natDigits b, h]

theorem itoa_natCast (n : Nat) : itoa (n : Int) = natDigits n := by
  simp [itoa]

theorem itoa_neg {i : Int} (h : i < 0) : itoa i = 45 :: natDigits i.natAbs := by
  simp [itoa, h]

theorem itoa_nonneg {i : Int} (h : 0 ≤ i) : itoa i = natDigits i.natAbs := by
  simp [itoa]; omega

theorem itoa_injective (a b : Int) (h : itoa a = itoa b) : a = b := by
  by_cases ha : a < 0 <;> by_cases hb : b < 0
  · rw [itoa_neg ha, itoa_neg hb] at h
    have := natDigits_injective (List.cons.inj h).2
    omega
  · rw [itoa_neg ha, itoa_nonneg (by omega)] at h
    exact absurd h.symm (natDigits_head_ne (by decide))
  · rw [itoa_nonneg (by omega), itoa_neg hb] at h
    exact absurd h (natDigits_head_ne (by decide))
  · rw [itoa_nonneg (by omega), itoa_nonneg (by omega)] at h
    have := natDigits_injective h
    omega

/-- `atoi` on a bare digit string -/
theorem atoi_digits {ds : Bytes} (hne : ds ≠ []) (hall : ds.all isDigit = true)
    (hmax : (digitsVal ds 0 : Int) ≤ maxInt64) : atoi ds = some (digitsVal ds 0 : Int) := by
  have hmin : ¬ ((digitsVal ds 0 : Int) < minInt64) := by
    have : (0 : Int) ≤ digitsVal ds 0 := Int.natCast_nonneg _
    simp [minInt64]
  have hmax' : ¬ ((digitsVal ds 0 : Int) > maxInt64) := by omega
  have hemp : ds.isEmpty = false := by cases ds <;> simp_all
  unfold atoi
  split
  rename_i x neg ds' heq
  split at heq
  · have : isDigit 45 = true := List.all_eq_true.mp hall 45 (by simp)
    simp [isDigit] at this
  · have : isDigit 43 = true := List.all_eq_true.mp hall 43 (by simp)
    simp [isDigit] at this
  · cases heq
    simp [hemp, hall, hmin, hmax']

/-- `atoi` on a minus sign followed by digits -/
theorem atoi_neg_digits {ds : Bytes} (hne : ds ≠ []) (hall : ds.all isDigit = true)
    (hmin : minInt64 ≤ -(digitsVal ds 0 : Int)) : atoi (45 :: ds) = some (-(digitsVal ds 0 : Int)) := by
  have hmin' : ¬ (-(digitsVal ds 0 : Int) < minInt64) := by omega
  have hmax' : ¬ (-(digitsVal ds 0 : Int) > maxInt64) := by
    have : (0 : Int) ≤ digitsVal ds 0 := Int.natCast_nonneg _
    simp [maxInt64]
  have hemp : ds.isEmpty = false := by cases ds <;> simp_all
  simp [atoi, hemp, hall, hmin', hmax']

theorem atoi_itoa (n : Int) (hlo : minInt64 ≤ n) (hhi : n ≤ maxInt64) : atoi (itoa n) = some n := by
  by_cases hn : n < 0
  · rw [itoa_neg hn, atoi_neg_digits (natDigits_ne_nil _) (natDigits_all_digit _)]
    · rw [digitsVal_natDigits]; congr 1; omega
    · rw [digitsVal_natDigits]; omega
  · rw [itoa_nonneg (by omega), atoi_digits (natDigits_ne_nil _) (natDigits_all_digit _)]
    · rw [digitsVal_natDigits]; congr 1; omega
    · rw [digitsVal_natDigits]; omega

end Redka
