/-
  C11 — the sorted-set repository (`internal/rzset`) preserves the invariant.
-/
import RedkaModel.Proofs.InvPrim

namespace Redka.InvP

open Redka Redka.Model

variable {db : DB}

/-- insert of a fresh member + trigger `rzset_on_insert` -/
theorem zInsertNew_wf (h : WF db) {kid : Int} (ho : Owner db kid TZSet) (e : Bytes) (s : Score)
    (hnew : ∀ y ∈ db.zsets, ¬(y.kid = kid ∧ y.elem = e)) :
    WF (zInsertNew db kid e s) ∧ Owner (zInsertNew db kid e s) kid TZSet := by
  unfold zInsertNew
  have h1 : WFd (fun i => if i = kid then -1 else 0)
      { db with zsets := db.zsets ++
        [({ rowid := db.nextZRowid, kid := kid, elem := e, score := s } : ZRow)] } := by
    refine WFd.setZSets h _ ?_ ?_ ?_ ?_
    · intro x hx
      rcases List.mem_append.1 hx with hx | hx
      · exact h.oZ x hx
      · rw [List.mem_singleton] at hx; subst hx; exact ho
    · refine pairwise_append_one h.uZ _ (fun y hy heq => hnew y hy ?_)
      simpa using heq
    · refine pairwise_append_one h.rZ _ (fun y hy => ?_)
      have := rowid_lt_nextZRowid db y hy
      show y.rowid ≠ db.nextZRowid
      omega
    · intro o _
      have := count_append (fun y : ZRow => y.kid) db.zsets
        { rowid := db.nextZRowid, kid := kid, elem := e, score := s } o.id
      simp only [cZ] at this ⊢
      by_cases e : o.id = kid <;> simp only [e, if_true, if_false] at this ⊢ <;> omega
  have ho1 : Owner { db with zsets := db.zsets ++
      [({ rowid := db.nextZRowid, kid := kid, elem := e, score := s } : ZRow)] } kid TZSet := ho
  refine ⟨?_, ho1.updKey _ _ (fun _ => ⟨rfl, rfl⟩)⟩
  have := WFd.updKey h1 kid (fun o => { o with len := o.len.map (· + 1) }) 1
    (fun r _ _ => ⟨rfl, rfl, rfl, rfl⟩)
    (fun r hr e hs => absurd hs (ho1.not_string h1 (by decide) r hr e))
  exact this.congr (fun o _ => by
    show (0 : Int) = if o.id = kid then (if o.id = kid then -1 else 0) + 1 else (if o.id = kid then -1 else 0)
    split <;> omega)

/-- `sqlAdd2`: `on conflict (kid, elem) do update set score = …` -/
theorem zSetRow_wf (h : WF db) {kid : Int} (ho : Owner db kid TZSet) (e : Bytes) (s : Score) :
    WF (zSetRow db kid e s) ∧ Owner (zSetRow db kid e s) kid TZSet := by
  unfold zSetRow
  split
  · refine ⟨?_, ho⟩
    refine (WFd.setZSets h _ ?_ ?_ ?_ ?_)
    · intro x hx
      obtain ⟨y, hy, rfl⟩ := List.mem_map.1 hx
      have := h.oZ y hy
      split <;> exact this
    · rw [List.pairwise_map]
      refine h.uZ.imp ?_
      intro a b hab
      split <;> split <;> exact hab
    · rw [List.pairwise_map]
      refine h.rZ.imp ?_
      intro a b hab
      split <;> split <;> exact hab
    · intro o _
      have : ((db.zsets.map (fun r : ZRow => if r.kid == kid && r.elem == e then { r with score := s } else r)).filter
          (fun x => x.kid == o.id)).length = (db.zsets.filter (fun x => x.kid == o.id)).length :=
        length_filter_map_kid (·.kid) _
          (fun x => by show (if x.kid == kid && x.elem == e then _ else x).kid = x.kid; split <;> rfl)
          db.zsets o.id
      rw [this]; rfl
  · rename_i hany
    refine zInsertNew_wf h ho e s ?_
    intro y hy
    have hf : (db.zsets.any fun r => r.kid == kid && r.elem == e) = false := by simpa using hany
    have := List.any_eq_false.1 hf y hy
    simpa using this

theorem zAddKey_wf (h : WF db) {k : Bytes} {now : Int} {db1 : DB} {r : KeyRow}
    (he : zAddKey db k now = .ok (db1, r)) : WF db1 ∧ Owner db1 r.id TZSet := by
  unfold zAddKey at he
  obtain ⟨d, hd, h1, ho, _⟩ := h.keyUpsert (ty := TZSet) 0 0 (some 0) (by decide)
    ⟨fun h => absurd h (by decide), fun _ => rfl⟩ (fun h => absurd h (by decide)) he
    (fun _ => ⟨rfl, rfl, rfl, rfl⟩)
    (fun o => ⟨rfl, rfl, rfl, by cases o.len <;> simp⟩)
  exact ⟨h1.congr (fun o _ => by rcases hd with rfl | rfl <;> simp), ho⟩

theorem zAddTx_wf (h : WF db) {k e : Bytes} {s : Score} {now : Int} {d : DB}
    (he : zAddTx db k e s now = .ok d) : WF d := by
  unfold zAddTx at he
  split at he
  · cases he
  · rename_i db1 r hk
    obtain ⟨h1, ho1⟩ := zAddKey_wf h hk
    simp only [Except.ok.injEq] at he
    exact he ▸ (zSetRow_wf h1 ho1 e s).1

theorem zAdd_wf (h : WF db) (k e : Bytes) (s : Score) (now : Int) : WF (zAdd db k e s now).db := by
  unfold zAdd
  simp only
  split
  · exact h
  · rename_i d he; exact zAddTx_wf h he

theorem zAddManyLoop_wf (k : Bytes) (now : Int) (items : List (Bytes × Score)) :
    ∀ {db : DB}, WF db → WF (zAddManyLoop db k now items).2 := by
  induction items with
  | nil => intro db h; exact h
  | cons p rest ih =>
    intro db h
    obtain ⟨e, s⟩ := p
    unfold zAddManyLoop
    split
    · exact h
    · rename_i d he; exact ih (zAddTx_wf h he)

theorem zAddMany_wf (h : WF db) (k : Bytes) (items : List (Bytes × Score)) (now : Int) :
    WF (zAddMany db k items now).db := by
  unfold zAddMany
  have := zAddManyLoop_wf k now items h
  simp only
  split <;> (rename_i he; rw [he] at this; exact this)

theorem zIncr_wf (h : WF db) (k e : Bytes) (d : Score) (now : Int) : WF (zIncr db k e d now).db := by
  unfold zIncr
  split
  · exact h
  · rename_i db1 r hk
    obtain ⟨h1, ho1⟩ := zAddKey_wf h hk
    split
    · rename_i hfind
      refine (zInsertNew_wf h1 ho1 e d ?_).1
      intro y hy
      have := List.find?_eq_none.1 hfind y hy
      simpa using this
    · split
      · exact h1
      · exact (zSetRow_wf h1 ho1 e _).1

/-- delete some members of one sorted set, then `len = len - n` on its key -/
theorem zRemove_wf (h : WF db) {kid : Int} (ho : Owner db kid TZSet) (q : ZRow → Bool)
    (f : KeyRow → KeyRow)
    (hf : ∀ r ∈ db.keys, r.id = kid → (f r).id = r.id ∧ (f r).key = r.key ∧ (f r).ty = r.ty ∧
      (f r).len = r.len.map (· - ((db.zsets.filter (fun x => x.kid == kid && q x)).length : Int))) :
    WF (DB.updKey { db with zsets := db.zsets.filter (fun x => !(x.kid == kid && q x)) } kid f) := by
  have h1 : WFd (fun i => if i = kid then ((db.zsets.filter (fun x => x.kid == kid && q x)).length : Int) else 0)
      { db with zsets := db.zsets.filter (fun x => !(x.kid == kid && q x)) } := by
    refine WFd.setZSets h _ (fun x hx => h.oZ x (List.mem_filter.1 hx).1) (h.uZ.filter _) (h.rZ.filter _) ?_
    intro o _
    have := count_remove (·.kid) q db.zsets kid o.id
    simp only [cZ]
    omega
  have ho1 : Owner { db with zsets := db.zsets.filter (fun x => !(x.kid == kid && q x)) } kid TZSet := ho
  have := WFd.updKey h1 kid f (-((db.zsets.filter (fun x => x.kid == kid && q x)).length : Int))
    (fun r hr e => by
      obtain ⟨a, b, c, d⟩ := hf r hr e
      exact ⟨a, b, c, d⟩)
    (fun r hr e hs => absurd hs (ho1.not_string h1 (by decide) r hr e))
  exact this.congr (fun o _ => by
    show (0 : Int) = if o.id = kid then (if o.id = kid then _ else 0) + -_ else (if o.id = kid then _ else 0)
    split <;> omega)

theorem zDeleteWhere_wf (h : WF db) (k : Bytes) (victims : List Bytes) (now : Int) :
    WF (zDeleteWhere db k victims now).db := by
  unfold zDeleteWhere
  split
  · exact h
  · rename_i r hl
    simp only
    split
    · exact h
    · unfold zUpdKeyAfterDelete
      have : DB.liveKeyT { db with zsets := db.zsets.filter (fun x => !(x.kid == r.id && victims.contains x.elem)) }
          k TZSet now = some r := hl
      rw [this]
      exact zRemove_wf h (liveKeyT_owner hl) (fun x => victims.contains x.elem) _
        (fun _ _ _ => ⟨rfl, rfl, rfl, rfl⟩)

theorem zDelete_wf (h : WF db) (k : Bytes) (es : List Bytes) (now : Int) :
    WF (zDelete db k es now).db := zDeleteWhere_wf h k es now

theorem zDeleteRank_wf (h : WF db) (k : Bytes) (a b now : Int) :
    WF (zDeleteRank db k a b now).db := by
  unfold zDeleteRank
  split
  · exact h
  · split
    · exact h
    · exact zDeleteWhere_wf h k _ now

theorem zDeleteScore_wf (h : WF db) (k : Bytes) (lo hi : Score) (now : Int) :
    WF (zDeleteScore db k lo hi now).db := zDeleteWhere_wf h k _ now

/-- `sqlDeleteAll1`, `sqlDeleteAll2` -/
theorem zDeleteAll_wf (h : WF db) (k : Bytes) (now : Int) : WF (zDeleteAll db k now) := by
  unfold zDeleteAll
  split
  · exact h
  · rename_i r hl
    have ho := liveKeyT_owner hl
    have hfil : db.zsets.filter (fun x => x.kid != r.id)
        = db.zsets.filter (fun x => !(x.kid == r.id && (fun _ => true) x)) := by
      apply List.filter_congr; intro x _; simp [bne]
    simp only [hfil]
    refine zRemove_wf h ho (fun _ => true) _ ?_
    intro o ho' e
    refine ⟨rfl, rfl, rfl, ?_⟩
    have hty : o.ty = TZSet := ho.ty_eq h.uId ho' e
    have hlen := (h.cnt o ho').2 (by rw [hty]; decide)
    have hm := (meas_eq db h.uId h.oS h.oL h.oT h.oH h.oZ ho' (h.ty o ho')).2 (by rw [hty]; decide)
    have hcc : db.childCount o = ((db.zsets.filter (fun x => x.kid == o.id)).length : Int) := by
      simp [DB.childCount, hty, TZSet, TSet, TList, THash]
    rw [hlen, hm, hcc, e]
    simp

theorem zInsertAll_wf {kid : Int} (items : List (Bytes × Option Score)) :
    ∀ {db : DB} (n : Int) {db3 : DB} {m : Int}, WF db → Owner db kid TZSet →
      zInsertAll db kid items n = .ok (db3, m) → WF db3 := by
  induction items with
  | nil =>
    intro db n db3 m h _ he
    simp only [zInsertAll, Except.ok.injEq, Prod.mk.injEq] at he
    exact he.1 ▸ h
  | cons p rest ih =>
    intro db n db3 m h ho he
    obtain ⟨e, s⟩ := p
    unfold zInsertAll at he
    split at he
    · cases he
    · rename_i s
      split at he
      · cases he
      · rename_i hany
        have hnew : ∀ y ∈ db.zsets, ¬(y.kid = kid ∧ y.elem = e) := by
          intro y hy
          have hf : (db.zsets.any fun r => r.kid == kid && r.elem == e) = false := by simpa using hany
          have := List.any_eq_false.1 hf y hy
          simpa using this
        obtain ⟨h', ho'⟩ := zInsertNew_wf h ho e s hnew
        exact ih (n + 1) h' ho' he

theorem zCombineStore_wf (h : WF db) (d : Bytes) (ks : List Bytes) (agg : Agg) (inter : Bool)
    (now : Int) : WF (zCombineStore db d ks agg inter now).db := by
  unfold zCombineStore
  have h1 := zDeleteAll_wf h d now
  simp only
  split
  · exact h1
  · rename_i db2 r he
    obtain ⟨h2, ho2⟩ := zAddKey_wf h1 he
    split
    · exact h2
    · rename_i db3 n hi
      exact zInsertAll_wf _ 0 h2 ho2 hi

end Redka.InvP
