/-
  Lemmas for C08 (`Props/C08.lean`): under one RW connection and committed-snapshot readers every
  schedule the protocol admits is equivalent to the sequential run of its operations in the order
  of their commit points.
-/
import RedkaModel.Model.Sched
import RedkaModel.Proofs.NoTrace
import RedkaModel.Proofs.Fault

namespace Redka.Proofs.Sched

open Redka Redka.Model Redka.Sched

/-! ### the sequential reference -/

theorem seqRun_append : ∀ (xs ys : List (Job × Int)) (db : DB),
    seqRun (xs ++ ys) db =
      ((seqRun xs db).1 ++ (seqRun ys (seqRun xs db).2).1, (seqRun ys (seqRun xs db).2).2)
  | [], ys, db => by simp [seqRun]
  | (op, now) :: xs, ys, db => by
    simp only [List.cons_append, seqRun]
    rw [seqRun_append xs ys]

theorem seqRun_snoc (xs : List (Job × Int)) (op : Job) (now : Int) (db : DB) :
    seqRun (xs ++ [(op, now)]) db =
      ((seqRun xs db).1 ++ [(op.seq now (seqRun xs db).2).out],
        (op.seq now (seqRun xs db).2).db) := by
  rw [seqRun_append]; simp [seqRun]

theorem seqRun_length : ∀ (xs : List (Job × Int)) (db : DB), (seqRun xs db).1.length = xs.length
  | [], _ => rfl
  | (op, now) :: xs, db => by simp [seqRun, seqRun_length xs]

/-! ### `take` -/

theorem take_spec {c : Client} : ∀ {l : List Act} {a : Act} {rest : List Act},
    take c l = some (a, rest) → l.Perm (a :: rest) ∧ a.client = c
  | [], _, _, h => by simp [take] at h
  | b :: l, a, rest, h => by
    unfold take at h
    split at h
    · rename_i hc
      simp only [Option.some.injEq, Prod.mk.injEq] at h
      obtain ⟨rfl, rfl⟩ := h
      exact ⟨List.Perm.refl _, hc⟩
    · split at h
      · cases h
      · rename_i x r hx
        simp only [Option.some.injEq, Prod.mk.injEq] at h
        obtain ⟨rfl, rfl⟩ := h
        obtain ⟨hp, hc⟩ := take_spec hx
        exact ⟨(List.Perm.cons b hp).trans (List.Perm.swap _ _ _), hc⟩

theorem rwInUse_perm {l l' : List Act} (h : l.Perm l') : rwInUse l = rwInUse l' :=
  (h.filter _).length_eq

theorem rwInUse_cons (a : Act) (l : List Act) :
    rwInUse (a :: l) = (if a.phase.isTx then 1 else 0) + rwInUse l := by
  unfold rwInUse
  rw [List.filter_cons]
  split <;> simp [Nat.add_comm]

theorem not_tx_of_rwInUse_zero : ∀ {l : List Act}, rwInUse l = 0 → ∀ a ∈ l, a.phase.isTx = false
  | [], _, a, ha => by cases ha
  | b :: l, h, a, ha => by
    rw [rwInUse_cons] at h
    cases hb : b.phase.isTx with
    | true => rw [hb] at h; simp at h
    | false =>
      rw [hb] at h
      rcases List.mem_cons.mp ha with rfl | ha
      · exact hb
      · exact not_tx_of_rwInUse_zero (by simpa using h) a ha

theorem holds_imp_tx {imm : Bool} {p : Phase} (h : p.holdsWriteLock imm = true) : p.isTx = true := by
  cases p <;> simp [Phase.holdsWriteLock, Phase.isTx] at h ⊢

theorem lockHeld_false {cfg : Cfg} {l : List Act} (h : rwInUse l = 0) : lockHeld cfg l = false := by
  unfold lockHeld
  rw [List.any_eq_false]
  intro a ha hl
  have := not_tx_of_rwInUse_zero h a ha
  rw [holds_imp_tx hl] at this
  cases this

/-! ### the shape of a step (any configuration) -/

/-- what one event does to the bookkeeping: a new call, an operation moving on, or an operation
returning -/
inductive Shape (st : St) (e : Client × Ev) (st' : St) : Prop where
  | call (op : Job) (now : Int) (he : e.2 = .call op now)
      (hst : st' = { st with pos := st.pos + 1, acts := st.acts ++ [⟨e.1, op, now, st.pos, .called⟩] })
  | advance (a : Act) (rest : List Act) (p : Phase) (hn : ∀ op now, e.2 ≠ .call op now)
      (ht : take e.1 st.acts = some (a, rest)) (hst : st' = advance st a rest p)
  | finish (a : Act) (rest : List Act) (o : Outcome) (db : DB) (hn : ∀ op now, e.2 ≠ .call op now)
      (ht : take e.1 st.acts = some (a, rest)) (hst : st' = finish st a rest o db)

theorem stepBegin_shape {cfg : Cfg} {st st' : St} {a : Act} {rest : List Act}
    (h : stepBegin cfg st a rest = some st') :
    (∃ p, st' = advance st a rest p) ∨ (∃ o db, st' = finish st a rest o db) := by
  unfold stepBegin at h
  split at h
  · split at h
    · cases h
    · split at h
      · cases h; exact .inr ⟨_, _, rfl⟩
      · cases h; exact .inl ⟨_, rfl⟩
  · cases h

theorem stepBody_shape {cfg : Cfg} {st st' : St} {a : Act} {rest : List Act}
    (h : stepBody cfg st a rest = some st') :
    (∃ p, st' = advance st a rest p) ∨ (∃ o db, st' = finish st a rest o db) := by
  unfold stepBody at h
  split at h
  · split at h
    · cases h; exact .inl ⟨_, rfl⟩
    · split at h
      · cases h; exact .inr ⟨_, _, rfl⟩
      · cases h; exact .inl ⟨_, rfl⟩
  · cases h

theorem stepCommit_shape {st st' : St} {a : Act} {rest : List Act}
    (h : stepCommit st a rest = some st') : ∃ o db, st' = finish st a rest o db := by
  unfold stepCommit at h
  split at h
  · cases h; exact ⟨_, _, rfl⟩
  · cases h

theorem stepStmt_shape {cfg : Cfg} {st st' : St} {a : Act} {rest : List Act}
    (h : stepStmt cfg st a rest = some st') : ∃ o db, st' = finish st a rest o db := by
  unfold stepStmt at h
  split at h
  · split at h
    · cases h
    · split at h
      · cases h; exact ⟨_, _, rfl⟩
      · cases h; exact ⟨_, _, rfl⟩
  · split at h
    · cases h; exact ⟨_, _, rfl⟩
    · cases h; exact ⟨_, _, rfl⟩
  · cases h

theorem step_shape {cfg : Cfg} {st st' : St} {e : Client × Ev} (h : step cfg st e = some st') :
    Shape st e st' := by
  unfold step at h
  split at h
  · rename_i op now he
    split at h
    · cases h
    · cases h; exact .call op now he rfl
  · rename_i he
    split at h
    · cases h
    · rename_i a rest ht
      rcases stepBegin_shape h with ⟨p, hp⟩ | ⟨o, db, hf⟩
      · exact .advance a rest p (by intro _ _ hc; rw [he] at hc; cases hc) ht hp
      · exact .finish a rest o db (by intro _ _ hc; rw [he] at hc; cases hc) ht hf
  · rename_i he
    split at h
    · cases h
    · rename_i a rest ht
      rcases stepBody_shape h with ⟨p, hp⟩ | ⟨o, db, hf⟩
      · exact .advance a rest p (by intro _ _ hc; rw [he] at hc; cases hc) ht hp
      · exact .finish a rest o db (by intro _ _ hc; rw [he] at hc; cases hc) ht hf
  · rename_i he
    split at h
    · cases h
    · rename_i a rest ht
      obtain ⟨o, db, hf⟩ := stepCommit_shape h
      exact .finish a rest o db (by intro _ _ hc; rw [he] at hc; cases hc) ht hf
  · rename_i he
    split at h
    · cases h
    · rename_i a rest ht
      obtain ⟨o, db, hf⟩ := stepStmt_shape h
      exact .finish a rest o db (by intro _ _ hc; rw [he] at hc; cases hc) ht hf

/-- an invariant of every step is an invariant of the run -/
theorem runFrom_induct {cfg : Cfg} (P : St → Prop)
    (hstep : ∀ st e st', P st → step cfg st e = some st' → P st') :
    ∀ (s : Schedule) (st st' : St), P st → runFrom cfg st s = some st' → P st'
  | [], st, st', hp, h => by simp only [runFrom, Option.some.injEq] at h; exact h ▸ hp
  | e :: es, st, st', hp, h => by
    unfold runFrom at h
    split at h
    · cases h
    · rename_i st1 h1
      exact runFrom_induct P hstep es st1 st' (hstep st e st1 hp h1) h

/-! ### positions: call < return, the log is in order of return (any configuration) -/

structure PosOk (st : St) : Prop where
  log_lt : ∀ r ∈ st.log, r.call < r.ret ∧ r.ret < st.pos
  acts_lt : ∀ a ∈ st.acts, a.call < st.pos
  sorted : st.log.Pairwise (fun a b => a.ret < b.ret)

theorem posOk_init (db : DB) : PosOk (St.init db) :=
  ⟨(by intro r hr; cases hr), (by intro a ha; cases ha), List.Pairwise.nil⟩

theorem posOk_step {cfg : Cfg} (st : St) (e : Client × Ev) (st' : St) (hp : PosOk st)
    (h : step cfg st e = some st') : PosOk st' := by
  obtain ⟨hl, ha, hs⟩ := hp
  cases step_shape h with
  | call op now he hst =>
    subst hst
    refine ⟨?_, ?_, hs⟩
    · intro r hr; have := hl r hr; exact ⟨this.1, by show r.ret < st.pos + 1; omega⟩
    · intro a hm
      show a.call < st.pos + 1
      rcases List.mem_append.mp hm with hm | hm
      · have := ha a hm; omega
      · simp only [List.mem_singleton] at hm; subst hm; show st.pos < st.pos + 1; omega
  | advance a rest p hn ht hst =>
    subst hst
    obtain ⟨hperm, _⟩ := take_spec ht
    refine ⟨?_, ?_, hs⟩
    · intro r hr; have := hl r hr; exact ⟨this.1, by show r.ret < st.pos + 1; omega⟩
    · intro b hm
      show b.call < st.pos + 1
      rcases List.mem_cons.mp hm with rfl | hm
      · have := ha a (hperm.mem_iff.mpr (List.mem_cons_self ..)); show a.call < st.pos + 1; omega
      · have := ha b (hperm.mem_iff.mpr (List.mem_cons_of_mem _ hm)); omega
  | finish a rest o db hn ht hst =>
    subst hst
    obtain ⟨hperm, _⟩ := take_spec ht
    have hac := ha a (hperm.mem_iff.mpr (List.mem_cons_self ..))
    refine ⟨?_, ?_, ?_⟩
    · intro r hr
      show r.call < r.ret ∧ r.ret < st.pos + 1
      rcases List.mem_append.mp hr with hr | hr
      · have := hl r hr; omega
      · simp only [List.mem_singleton] at hr; subst hr
        exact ⟨hac, by show st.pos < st.pos + 1; omega⟩
    · intro b hm
      show b.call < st.pos + 1
      have := ha b (hperm.mem_iff.mpr (List.mem_cons_of_mem _ hm)); omega
    · show (st.log ++ [_]).Pairwise _
      rw [List.pairwise_append]
      refine ⟨hs, List.pairwise_singleton _ _, ?_⟩
      intro r hr b hb
      simp only [List.mem_singleton] at hb; subst hb
      exact (hl r hr).2

theorem respects_of_posOk {st : St} (h : PosOk st) : RespectsRealTime st.log := by
  unfold RespectsRealTime
  have : st.log.Pairwise (fun a b => a ∈ st.log ∧ a.ret < b.ret) := by
    have hs := h.sorted
    rw [List.pairwise_iff_forall_sublist] at hs ⊢
    intro a b hab
    exact ⟨hab.subset (List.mem_cons_self ..), hs hab⟩
  refine this.imp ?_
  intro a b ⟨ha, hab⟩
  have := (h.log_lt a ha).1
  omega

/-- Returning later than the model says keeps the order admissible: the model lets every operation
return at its last SQL event, which is the strongest real-time constraint. -/
theorem respects_of_later_returns (order : List Rec) (delay : Rec → Nat) (h : RespectsRealTime order) :
    RespectsRealTime (order.map (fun r => { r with ret := r.ret + delay r })) := by
  unfold RespectsRealTime at h ⊢
  rw [List.pairwise_map]
  refine h.imp ?_
  intro a b hab
  show ¬ (b.ret + delay b < a.call)
  omega

/-! ### bookkeeping: the operations that returned or are in flight are the calls of the schedule -/

def keysOf (st : St) : List (Client × Job × Int × Nat) := st.log.map Rec.key ++ st.acts.map Act.key

theorem keys_step {cfg : Cfg} {st st' : St} {e : Client × Ev} (h : step cfg st e = some st') :
    (keysOf st').Perm (keysOf st ++ callsFrom st.pos [e]) ∧ st'.pos = st.pos + 1 := by
  obtain ⟨c, ev⟩ := e
  cases step_shape h with
  | call op now he hst =>
    subst hst
    simp only at he; subst he
    refine ⟨?_, rfl⟩
    simp only [keysOf, callsFrom, List.map_append, List.map_cons, List.map_nil, List.append_assoc]
    exact List.Perm.refl _
  | advance a rest p hn ht hst =>
    subst hst
    obtain ⟨hperm, _⟩ := take_spec ht
    refine ⟨?_, rfl⟩
    have hc : callsFrom st.pos [(c, ev)] = [] := by
      cases ev with
      | call op now => exact absurd rfl (hn op now)
      | _ => rfl
    rw [hc, List.append_nil]
    show (st.log.map Rec.key ++ (a.key :: rest.map Act.key)).Perm _
    exact List.Perm.append_left _ ((hperm.map Act.key).symm)
  | finish a rest o db hn ht hst =>
    subst hst
    obtain ⟨hperm, _⟩ := take_spec ht
    refine ⟨?_, rfl⟩
    have hc : callsFrom st.pos [(c, ev)] = [] := by
      cases ev with
      | call op now => exact absurd rfl (hn op now)
      | _ => rfl
    rw [hc, List.append_nil]
    show ((st.log ++ [_]).map Rec.key ++ rest.map Act.key).Perm _
    simp only [List.map_append, List.map_cons, List.map_nil, List.append_assoc, List.singleton_append]
    exact List.Perm.append_left _ ((hperm.map Act.key).symm)

theorem callsFrom_cons (n : Nat) (e : Client × Ev) (es : Schedule) :
    callsFrom n (e :: es) = callsFrom n [e] ++ callsFrom (n + 1) es := by
  obtain ⟨c, ev⟩ := e
  cases ev <;> simp [callsFrom]

theorem keys_run {cfg : Cfg} : ∀ (s : Schedule) (st st' : St), runFrom cfg st s = some st' →
    (keysOf st').Perm (keysOf st ++ callsFrom st.pos s)
  | [], st, st', h => by
    simp only [runFrom, Option.some.injEq] at h; subst h; simp [callsFrom]
  | e :: es, st, st', h => by
    unfold runFrom at h
    split at h
    · cases h
    · rename_i st1 h1
      obtain ⟨hp1, hpos⟩ := keys_step h1
      have ih := keys_run es st1 st' h
      rw [hpos] at ih
      rw [callsFrom_cons, ← List.append_assoc]
      exact ih.trans (List.Perm.append_right _ hp1)

/-! ### the semantic invariant: one RW connection, readers on committed snapshots -/

/-- the configurations the positive theorems are about -/
def SingleWriter (cfg : Cfg) : Prop := cfg.rwConns = 1 ∧ cfg.journal ≠ .sharedCache

theorem singleWriter_wal : SingleWriter cfgWal := ⟨rfl, by decide⟩
theorem singleWriter_memdb : SingleWriter cfgMemdb := ⟨rfl, by decide⟩

/-- an open transaction is consistent with the committed state `db`: it started from it, and its
private copy is the callback's result on it -/
def PhaseOk (db : DB) (a : Act) : Prop :=
  match a.phase with
  | .called => True
  | .begun snap => snap = db ∧ a.job.wrap = .update
  | .bodied o p =>
    a.job.wrap = .update ∧ o = (a.job.txBody a.now db).out ∧ p = (a.job.txBody a.now db).db

structure Sem (init : DB) (st : St) : Prop where
  outs : st.log.map Rec.out = (seqRun (st.log.map Rec.inv) init).1.map Outcome.done
  state : st.committed = (seqRun (st.log.map Rec.inv) init).2
  one : rwInUse st.acts ≤ 1
  phases : ∀ a ∈ st.acts, PhaseOk st.committed a

theorem sem_init (db : DB) : Sem db (St.init db) :=
  ⟨rfl, rfl, (by simp [St.init, rwInUse]), (by intro a ha; cases ha)⟩

theorem phaseOk_of_not_tx {db : DB} {a : Act} (h : a.phase.isTx = false) : PhaseOk db a := by
  unfold PhaseOk
  cases hp : a.phase <;> simp [hp, Phase.isTx] at h ⊢

theorem rwFree_single {cfg : Cfg} (hc : cfg.rwConns = 1) {l : List Act} (h : rwFree cfg l = true) :
    rwInUse l = 0 := by
  unfold rwFree at h
  rw [hc] at h
  simp at h
  exact h

/-- appending the record of `a` with the `DB`-level result of its operation keeps the log a
sequential run -/
theorem sem_finish {init : DB} {st : St} (hs : Sem init st) (a : Act) (rest : List Act)
    (hrest : rwInUse rest = 0) :
    Sem init (finish st a rest (.done (a.job.seq a.now st.committed).out)
      (a.job.seq a.now st.committed).db) := by
  refine ⟨?_, ?_, ?_, ?_⟩
  · show (st.log ++ [_]).map Rec.out = (seqRun ((st.log ++ [_]).map Rec.inv) init).1.map Outcome.done
    simp only [List.map_append, List.map_cons, List.map_nil, Rec.inv]
    rw [seqRun_snoc, hs.outs, ← hs.state]
    simp
  · show (a.job.seq a.now st.committed).db = (seqRun ((st.log ++ [_]).map Rec.inv) init).2
    simp only [List.map_append, List.map_cons, List.map_nil, Rec.inv]
    rw [seqRun_snoc, ← hs.state]
  · show rwInUse rest ≤ 1
    omega
  · intro b hb
    exact phaseOk_of_not_tx (not_tx_of_rwInUse_zero hrest b hb)

theorem update_out (f : DB → Res) (db : DB) : (update f db).out = (f db).out := by
  cases h : (f db).out <;> simp [update, h]

theorem update_db (f : DB → Res) (db : DB) :
    (update f db).db = (match (f db).out with | .ok _ => (f db).db | .error _ => db) := by
  cases h : (f db).out <;> simp [update, h]

theorem dbRun_update {op : Op} (now : Int) (db : DB) (h : Model.wrapOf op = .update) :
    Model.dbRun op now db = update (Model.tx true op now) db := by
  unfold Model.dbRun; rw [h]

theorem dbRun_rwDirect {op : Op} (now : Int) (db : DB) (h : Model.wrapOf op = .rwDirect) :
    Model.dbRun op now db = Model.tx false op now db := by
  unfold Model.dbRun; rw [h]

theorem dbRun_roDirect {op : Op} (now : Int) (db : DB) (h : Model.wrapOf op = .roDirect) :
    Model.dbRun op now db = Model.tx false op now db := by
  unfold Model.dbRun; rw [h]

theorem seq_update {j : Job} (now : Int) (db : DB) (h : j.wrap = .update) :
    j.seq now db = update (j.txBody now) db := by
  cases j with
  | op o => exact dbRun_update now db h
  | block p ops => rfl

theorem seq_rwDirect {j : Job} (now : Int) (db : DB) (h : j.wrap = .rwDirect) :
    j.seq now db = j.direct now db := by
  cases j with
  | op o => exact dbRun_rwDirect now db h
  | block p ops => cases h

theorem seq_roDirect {j : Job} (now : Int) (db : DB) (h : j.wrap = .roDirect) :
    j.seq now db = j.direct now db := by
  cases j with
  | op o => exact dbRun_roDirect now db h
  | block p ops => cases h

/-- A block job alone is `execTx` around its callback, fault-free (the control structure modelled
for C07 in `Model/Fault.lean`): same tables afterwards, success exactly when `execTx` returns nil. -/
theorem block_is_execTx (env : Env) (p : Bool) (ops : List Op) (now : Int) (db : DB) :
    (runTx env p ops .none now db).2 = (Job.seq (.block p ops) now db).db ∧
    ((runTx env p ops .none now db).1 = .ok () ↔ ∃ v, (Job.seq (.block p ops) now db).out = .ok v) := by
  cases hr : (runOps p now ops db).1 with
  | none => simp [runTx, Fault.reached, Job.seq, Job.txBody, update, hr]
  | some e => simp [runTx, Fault.reached, Job.seq, Job.txBody, update, hr, rollback]

/-- a job on the read-only handle publishes nothing (C12 `read_notrace`) -/
theorem direct_ro_db {j : Job} (now : Int) (db : DB) (h : j.wrap = .roDirect) :
    (j.direct now db).db = db := by
  cases j with
  | op o =>
    exact Proofs.NoTrace.read_notrace false o now db (Proofs.NoTrace.isRead_of_roDirect h)
  | block p ops => cases h

theorem sem_step {cfg : Cfg} (hc : SingleWriter cfg) {init : DB} (st : St) (e : Client × Ev) (st' : St)
    (hs : Sem init st) (h : step cfg st e = some st') : Sem init st' := by
  obtain ⟨c, ev⟩ := e
  cases ev with
  | call op now =>
    simp only [step] at h
    split at h
    · cases h
    · cases h
      refine ⟨hs.outs, hs.state, ?_, ?_⟩
      · show rwInUse (st.acts ++ [_]) ≤ 1
        have : rwInUse (st.acts ++ [⟨c, op, now, st.pos, .called⟩]) = rwInUse st.acts := by
          simp [rwInUse, List.filter_append, Phase.isTx]
        rw [this]; exact hs.one
      · intro a ha
        rcases List.mem_append.mp ha with ha | ha
        · exact hs.phases a ha
        · simp only [List.mem_singleton] at ha; subst ha; exact trivial
  | begin =>
    simp only [step] at h
    split at h
    · cases h
    · rename_i a rest ht
      obtain ⟨hperm, _⟩ := take_spec ht
      unfold stepBegin at h
      split at h
      · rename_i hph hw
        split at h
        · cases h
        · rename_i hfree
          have h0 : rwInUse rest = 0 := rwFree_single hc.1 (by simpa using hfree)
          rw [lockHeld_false h0] at h
          simp only [Bool.and_false, Bool.false_eq_true, if_false, Option.some.injEq] at h
          subst h
          refine ⟨hs.outs, hs.state, ?_, ?_⟩
          · show rwInUse (_ :: rest) ≤ 1
            rw [rwInUse_cons, h0]; split <;> omega
          · intro b hb
            rcases List.mem_cons.mp hb with rfl | hb
            · exact ⟨rfl, hw⟩
            · exact hs.phases b (hperm.mem_iff.mpr (List.mem_cons_of_mem _ hb))
      · cases h
  | body =>
    simp only [step] at h
    split at h
    · cases h
    · rename_i a rest ht
      obtain ⟨hperm, _⟩ := take_spec ht
      have hone := hs.one
      rw [rwInUse_perm hperm, rwInUse_cons] at hone
      have hpa := hs.phases a (hperm.mem_iff.mpr (List.mem_cons_self ..))
      unfold stepBody at h
      split at h
      · rename_i snap hph
        rw [hph] at hone
        have h0 : rwInUse rest = 0 := by simp [Phase.isTx] at hone; omega
        unfold PhaseOk at hpa
        rw [hph] at hpa
        obtain ⟨hsnap, hw⟩ := hpa
        subst hsnap
        rw [lockHeld_false h0] at h
        have h' : st' = advance st a rest
            (.bodied (a.job.txBody a.now st.committed).out (a.job.txBody a.now st.committed).db) := by
          cases hi : cfg.txImmediate <;> simp [hi] at h <;> exact h.symm
        subst h'
        refine ⟨hs.outs, hs.state, ?_, ?_⟩
        · show rwInUse (_ :: rest) ≤ 1
          rw [rwInUse_cons, h0]; split <;> omega
        · intro b hb
          rcases List.mem_cons.mp hb with rfl | hb
          · exact ⟨hw, rfl, rfl⟩
          · exact hs.phases b (hperm.mem_iff.mpr (List.mem_cons_of_mem _ hb))
      · cases h
  | commit =>
    simp only [step] at h
    split at h
    · cases h
    · rename_i a rest ht
      obtain ⟨hperm, _⟩ := take_spec ht
      have hone := hs.one
      rw [rwInUse_perm hperm, rwInUse_cons] at hone
      have hpa := hs.phases a (hperm.mem_iff.mpr (List.mem_cons_self ..))
      unfold stepCommit at h
      split at h
      · rename_i out priv hph
        rw [hph] at hone
        have h0 : rwInUse rest = 0 := by simp [Phase.isTx] at hone; omega
        unfold PhaseOk at hpa
        rw [hph] at hpa
        obtain ⟨hw, ho, hp⟩ := hpa
        have hsub : ∀ b ∈ rest, b ∈ st.acts :=
          fun b hb => hperm.mem_iff.mpr (List.mem_cons_of_mem _ hb)
        subst ho; subst hp
        simp only [Option.some.injEq] at h
        subst h
        have key := sem_finish hs a rest h0
        rw [seq_update _ _ hw, update_out, update_db] at key
        exact key
      · cases h
  | stmt =>
    simp only [step] at h
    split at h
    · cases h
    · rename_i a rest ht
      obtain ⟨hperm, _⟩ := take_spec ht
      have hsub : ∀ b ∈ rest, b ∈ st.acts :=
        fun b hb => hperm.mem_iff.mpr (List.mem_cons_of_mem _ hb)
      unfold stepStmt at h
      split at h
      · rename_i hph hw
        split at h
        · cases h
        · rename_i hfree
          have h0 : rwInUse rest = 0 := rwFree_single hc.1 (by simpa using hfree)
          rw [lockHeld_false h0] at h
          simp only [Bool.false_eq_true, if_false, Option.some.injEq] at h
          subst h
          have key := sem_finish hs a rest h0
          rw [seq_rwDirect _ _ hw] at key
          exact key
      · rename_i hph hw
        have hj : (cfg.journal == Journal.sharedCache) = false := by
          have := hc.2
          cases hjj : cfg.journal <;> simp_all
        rw [hj] at h
        simp only [Bool.false_and, Bool.false_eq_true, if_false, Option.some.injEq] at h
        subst h
        have hone := hs.one
        rw [rwInUse_perm hperm, rwInUse_cons, hph] at hone
        have hdb : (a.job.seq a.now st.committed).db = st.committed := by
          rw [seq_roDirect _ _ hw]
          exact direct_ro_db _ _ hw
        refine ⟨?_, ?_, ?_, ?_⟩
        · show (st.log ++ [_]).map Rec.out = (seqRun ((st.log ++ [_]).map Rec.inv) init).1.map Outcome.done
          simp only [List.map_append, List.map_cons, List.map_nil, Rec.inv]
          rw [seqRun_snoc, hs.outs, ← hs.state, seq_roDirect _ _ hw]
          simp
        · show st.committed = (seqRun ((st.log ++ [_]).map Rec.inv) init).2
          simp only [List.map_append, List.map_cons, List.map_nil, Rec.inv]
          rw [seqRun_snoc, ← hs.state, hdb]
        · show rwInUse rest ≤ 1
          simp [Phase.isTx] at hone; omega
        · intro b hb
          exact hs.phases b (hsub b hb)
      · cases h

/-! ### the run -/

/-- Everything the three inductions give about a schedule the protocol admits. -/
theorem run_facts {cfg : Cfg} (hc : SingleWriter cfg) {init : DB} {s : Schedule} {h : History}
    (hr : run cfg init s = some h) :
    Sem init h ∧ PosOk h ∧ (h.log.map Rec.key ++ h.acts.map Act.key).Perm (calls s) := by
  refine ⟨?_, ?_, ?_⟩
  · exact runFrom_induct (Sem init) (fun st e st' => sem_step hc st e st') s _ h (sem_init init) hr
  · exact runFrom_induct PosOk (fun st e st' => posOk_step st e st') s _ h (posOk_init init) hr
  · have := keys_run s _ h hr
    simpa [keysOf, St.init, calls] using this

/-- positions and bookkeeping hold under every configuration -/
theorem run_facts_any {cfg : Cfg} {init : DB} {s : Schedule} {h : History}
    (hr : run cfg init s = some h) :
    PosOk h ∧ (h.log.map Rec.key ++ h.acts.map Act.key).Perm (calls s) := by
  refine ⟨?_, ?_⟩
  · exact runFrom_induct PosOk (fun st e st' => posOk_step st e st') s _ h (posOk_init init) hr
  · have := keys_run s _ h hr
    simpa [keysOf, St.init, calls] using this

theorem valid_iff {cfg : Cfg} {init : DB} {s : Schedule} :
    Valid cfg init s ↔ ∃ h, run cfg init s = some h ∧ h.acts = [] := by
  unfold Valid valid
  cases hr : run cfg init s with
  | none => simp
  | some h => simp [List.isEmpty_iff]

theorem history_of_run {cfg : Cfg} {init : DB} {s : Schedule} {h : History}
    (hr : run cfg init s = some h) : history cfg init s = h.log ∧ finalState cfg init s = h.committed := by
  simp [history, finalState, hr]

/-- **Linearizability**, single writer: the history, read in the order in which the operations
returned (= the order of their commit points), is a sequential run. Stated for every schedule the
protocol admits; operations still in flight have had no effect. -/
theorem linearizable_run {cfg : Cfg} (hc : SingleWriter cfg) {init : DB} {s : Schedule} {h : History}
    (hr : run cfg init s = some h) :
    (h.log.map Rec.key ++ h.acts.map Act.key).Perm (calls s) ∧
    RespectsRealTime h.log ∧
    h.log.map Rec.out = (seqRun (h.log.map Rec.inv) init).1.map Outcome.done ∧
    h.committed = (seqRun (h.log.map Rec.inv) init).2 := by
  obtain ⟨hs, hp, hk⟩ := run_facts hc hr
  exact ⟨hk, respects_of_posOk hp, hs.outs, hs.state⟩

theorem admitted_iff {cfg : Cfg} {init : DB} {s : Schedule} :
    Admitted cfg init s ↔ ∃ h, run cfg init s = some h := by
  unfold Admitted
  cases run cfg init s <;> simp

theorem admitted_of_valid {cfg : Cfg} {init : DB} {s : Schedule} (h : Valid cfg init s) :
    Admitted cfg init s := by
  obtain ⟨h, hr, _⟩ := valid_iff.mp h
  exact admitted_iff.mpr ⟨h, hr⟩

theorem inFlight_of_valid {cfg : Cfg} {init : DB} {s : Schedule} (h : Valid cfg init s) :
    inFlight cfg init s = [] := by
  obtain ⟨h, hr, ha⟩ := valid_iff.mp h
  simp [inFlight, hr, ha]

theorem inv_of_key (l : List Rec) :
    (l.map Rec.key).map (fun c => (c.2.1, c.2.2.1)) = l.map Rec.inv := by
  simp [Rec.key, Rec.inv, Function.comp_def]

/-- The sequential view of a complete schedule: its history, in the order of return, is the
sequential run of a rearrangement of its invocations. -/
theorem seq_view {cfg : Cfg} (hc : SingleWriter cfg) {init : DB} {s : Schedule} (hv : Valid cfg init s) :
    ∃ tr : List (Job × Int), tr.Perm (opsOf s) ∧
      (history cfg init s).map Rec.out = (seqRun tr init).1.map Outcome.done ∧
      finalState cfg init s = (seqRun tr init).2 := by
  obtain ⟨h, hr, ha⟩ := valid_iff.mp hv
  obtain ⟨hk, _, ho, hst⟩ := linearizable_run hc hr
  obtain ⟨hh, hf⟩ := history_of_run hr
  rw [ha] at hk
  simp only [List.map_nil, List.append_nil] at hk
  refine ⟨h.log.map Rec.inv, ?_, by rw [hh]; exact ho, by rw [hf]; exact hst⟩
  rw [← inv_of_key]
  exact hk.map _

/-- the result of the operation at any place of a sequential log is the `DB`-level method's result
on the state the operations before it leave -/
theorem result_at {init : DB} {log pre post : List Rec} {r : Rec}
    (houts : log.map Rec.out = (seqRun (log.map Rec.inv) init).1.map Outcome.done)
    (hsplit : log = pre ++ r :: post) :
    r.out = .done (r.job.seq r.now (seqRun (pre.map Rec.inv) init).2).out := by
  subst hsplit
  simp only [List.map_append, List.map_cons] at houts
  rw [seqRun_append] at houts
  simp only [List.map_append] at houts
  have hlen : (pre.map Rec.out).length = ((seqRun (pre.map Rec.inv) init).1.map Outcome.done).length := by
    simp [seqRun_length]
  have := (List.append_inj houts hlen).2
  simp only [Rec.inv, seqRun, List.map_cons, List.cons.injEq] at this
  exact this.1

/-! ### nothing waits for ever: some event is always enabled -/

def ClientsNodup (st : St) : Prop := (st.acts.map Act.client).Nodup

theorem clientsNodup_init (db : DB) : ClientsNodup (St.init db) := List.nodup_nil

theorem clientsNodup_step {cfg : Cfg} (st : St) (e : Client × Ev) (st' : St) (hp : ClientsNodup st)
    (h : step cfg st e = some st') : ClientsNodup st' := by
  unfold ClientsNodup at hp ⊢
  have hcall : ∀ op now, e.2 = .call op now → st.acts.any (fun a => a.client == e.1) = false := by
    intro op now he
    unfold step at h
    rw [he] at h
    simp only at h
    split at h
    · cases h
    · rename_i hx; simpa using hx
  cases step_shape h with
  | call op now he hst =>
    subst hst
    have hno := hcall op now he
    show ((st.acts ++ [_]).map Act.client).Nodup
    rw [List.map_append, List.nodup_append]
    refine ⟨hp, by simp, ?_⟩
    intro x hx y hy
    simp only [List.map_cons, List.map_nil, List.mem_singleton] at hy
    subst hy
    obtain ⟨a, ha, rfl⟩ := List.mem_map.mp hx
    rw [List.any_eq_false] at hno
    intro heq
    exact hno a ha (by simp [heq])
  | advance a rest p hn ht hst =>
    subst hst
    obtain ⟨hperm, _⟩ := take_spec ht
    exact (hperm.map Act.client).nodup_iff.mp hp
  | finish a rest o db hn ht hst =>
    subst hst
    obtain ⟨hperm, _⟩ := take_spec ht
    have := (hperm.map Act.client).nodup_iff.mp hp
    exact (List.nodup_cons.mp this).2

theorem take_of_mem : ∀ {l : List Act} {a : Act}, (l.map Act.client).Nodup → a ∈ l →
    ∃ rest, take a.client l = some (a, rest)
  | [], _, _, h => by cases h
  | b :: l, a, hn, h => by
    rw [List.map_cons, List.nodup_cons] at hn
    rcases List.mem_cons.mp h with rfl | h
    · exact ⟨l, by simp [take]⟩
    · have hne : b.client ≠ a.client := by
        intro heq; exact hn.1 (heq ▸ List.mem_map_of_mem h)
      obtain ⟨rest, hr⟩ := take_of_mem hn.2 h
      exact ⟨b :: rest, by simp [take, hne, hr]⟩

theorem exists_tx_of_rwInUse_pos : ∀ {l : List Act}, 0 < rwInUse l → ∃ a ∈ l, a.phase.isTx = true
  | [], h => by simp [rwInUse] at h
  | b :: l, h => by
    rw [rwInUse_cons] at h
    cases hb : b.phase.isTx with
    | true => exact ⟨b, List.mem_cons_self .., hb⟩
    | false =>
      rw [hb] at h
      obtain ⟨a, ha, hx⟩ := exists_tx_of_rwInUse_pos (l := l) (by simpa using h)
      exact ⟨a, List.mem_cons_of_mem _ ha, hx⟩

/-- In every state in which an operation is in flight some client can take its next step — under
EVERY configuration: an open transaction can always run its body / commit, and when no transaction
is open the connection is free for the first caller. `step = none` ("waits") is never for ever. -/
theorem progress_step (cfg : Cfg) (st : St) (hn : ClientsNodup st) (hne : st.acts ≠ []) :
    ∃ e st', step cfg st e = some st' := by
  by_cases h0 : rwInUse st.acts = 0
  · cases hacts : st.acts with
    | nil => exact absurd hacts hne
    | cons a t =>
      rw [hacts] at h0
      have hall := not_tx_of_rwInUse_zero h0
      have hph : a.phase = .called := by
        have := hall a (List.mem_cons_self ..)
        cases hp : a.phase <;> simp [hp, Phase.isTx] at this ⊢
      have ht0 : rwInUse t = 0 := by
        rw [rwInUse_cons] at h0; omega
      have htake : take a.client (a :: t) = some (a, t) := by simp [take]
      have hfree : rwFree cfg t = true := by
        unfold rwFree; rw [ht0]
        cases hc : cfg.rwConns with
        | zero => simp
        | succ n => simp
      cases hw : a.job.wrap with
      | update =>
        refine ⟨(a.client, .begin), ?_⟩
        simp only [step, hacts, htake, stepBegin, hph, hw, hfree, lockHeld_false ht0]
        simp
      | rwDirect =>
        refine ⟨(a.client, .stmt), ?_⟩
        simp only [step, hacts, htake, stepStmt, hph, hw, hfree, lockHeld_false ht0]
        simp
      | roDirect =>
        refine ⟨(a.client, .stmt), ?_⟩
        simp only [step, hacts, htake, stepStmt, hph, hw]
        split <;> exact ⟨_, rfl⟩
  · obtain ⟨a, ha, htx⟩ := exists_tx_of_rwInUse_pos (Nat.pos_of_ne_zero h0)
    obtain ⟨rest, htake⟩ := take_of_mem hn ha
    cases hp : a.phase with
    | called => simp [hp, Phase.isTx] at htx
    | begun snap =>
      refine ⟨(a.client, .body), ?_⟩
      simp only [step, htake, stepBody, hp]
      split
      · exact ⟨_, rfl⟩
      · split <;> exact ⟨_, rfl⟩
    | bodied o p =>
      exact ⟨(a.client, .commit), by simp only [step, htake, stepCommit, hp]; exact ⟨_, rfl⟩⟩

theorem run_clientsNodup {cfg : Cfg} {init : DB} {s : Schedule} {h : History}
    (hr : run cfg init s = some h) : ClientsNodup h :=
  runFrom_induct ClientsNodup (fun st e st' => clientsNodup_step st e st') s _ h
    (clientsNodup_init init) hr

theorem runFrom_append {cfg : Cfg} : ∀ (s t : Schedule) (st : St),
    runFrom cfg st (s ++ t) = (runFrom cfg st s).bind (fun st' => runFrom cfg st' t)
  | [], t, st => rfl
  | e :: s, t, st => by
    simp only [List.cons_append, runFrom]
    cases step cfg st e with
    | none => rfl
    | some st1 => exact runFrom_append s t st1

/-- every admitted schedule with operations in flight can be continued by one more event -/
theorem progress {cfg : Cfg} {init : DB} {s : Schedule} {h : History}
    (hr : run cfg init s = some h) (hne : h.acts ≠ []) :
    ∃ e h', run cfg init (s ++ [e]) = some h' := by
  obtain ⟨e, h', he⟩ := progress_step cfg h (run_clientsNodup hr) hne
  refine ⟨e, h', ?_⟩
  unfold run at hr ⊢
  rw [runFrom_append, hr]
  simp [runFrom, he]

/-! ### the instance the source selects -/

set_option maxRecDepth 100000 in
/-- `DataSource`: `[writable] params.Set("_txlock", "immediate")` -/
theorem txImmediate_tie : txImmediateOfSource = true := by decide

set_option maxRecDepth 100000 in
/-- `DataSource`: `[source == ":memory:"] params.Set("cache", "shared")` -/
theorem memoryShared_tie : memoryIsSharedCache = true := by decide

/-- `d.RW.SetMaxOpenConns(1)` -/
theorem rwConns_tie : rwConnsOfSource = 1 := by decide

set_option maxRecDepth 100000 in
theorem journal_tie :
    journalOfSource .diskLib = some .wal ∧ journalOfSource .diskServer = some .wal ∧
    journalOfSource .memoryServer = some .memdb := by decide

theorem cfgOf_tie :
    cfgOf .diskLib = cfgWal ∧ cfgOf .diskServer = cfgWal ∧ cfgOf .memoryServer = cfgMemdb ∧
    cfgOf .memoryLib = cfgShared := by
  obtain ⟨h1, h2, h3⟩ := journal_tie
  have h4 : journalOfSource .memoryLib = some .sharedCache := by
    simp [journalOfSource, memoryShared_tie]
  simp [cfgOf, h1, h2, h3, h4, txImmediate_tie, rwConns_tie, cfgWal, cfgMemdb, cfgShared]

end Redka.Proofs.Sched
