/-
  C19 — the effect calculus: `Touch j` (child-level edits of one key), `Eff now` (what a whole
  method may do to the key table: leave a row and its children alone, or bump it / create it at
  the time of the call), their composition laws, and the passage from `Eff` to the row
  requirements of `Spec.metaOK`.
-/
import RedkaModel.Proofs.Meta

namespace Redka.MetaProofs

open Redka Redka.Spec Redka.InvP

/-! ### projections of the statement-level primitives -/

@[simp] theorem updKey_keys (db : DB) (i : Int) (f : KeyRow → KeyRow) :
    (db.updKey i f).keys = db.keys.map (fun r => if r.id == i then f r else r) := rfl
@[simp] theorem updKey_strs (db : DB) (i : Int) (f : KeyRow → KeyRow) : (db.updKey i f).strs = db.strs := rfl
@[simp] theorem updKey_lists (db : DB) (i : Int) (f : KeyRow → KeyRow) : (db.updKey i f).lists = db.lists := rfl
@[simp] theorem updKey_sets (db : DB) (i : Int) (f : KeyRow → KeyRow) : (db.updKey i f).sets = db.sets := rfl
@[simp] theorem updKey_hashes (db : DB) (i : Int) (f : KeyRow → KeyRow) : (db.updKey i f).hashes = db.hashes := rfl
@[simp] theorem updKey_zsets (db : DB) (i : Int) (f : KeyRow → KeyRow) : (db.updKey i f).zsets = db.zsets := rfl

theorem mem_updKey {db : DB} {i : Int} {f : KeyRow → KeyRow} {r' : KeyRow}
    (h : r' ∈ (db.updKey i f).keys) :
    ∃ r ∈ db.keys, (r.id = i ∧ r' = f r) ∨ (r.id ≠ i ∧ r' = r) := by
  rw [updKey_keys, List.mem_map] at h
  obtain ⟨r, hr, e⟩ := h
  refine ⟨r, hr, ?_⟩
  by_cases hi : r.id = i
  · left; simp [hi] at e; exact ⟨hi, e.symm⟩
  · right; simp [hi] at e; exact ⟨hi, e.symm⟩

theorem mem_updKey_of {db : DB} {i : Int} {f : KeyRow → KeyRow} {r : KeyRow} (h : r ∈ db.keys) :
    (if r.id == i then f r else r) ∈ (db.updKey i f).keys := by
  rw [updKey_keys]; exact List.mem_map.2 ⟨r, h, rfl⟩

theorem updKey_id (db : DB) (i : Int) : db.updKey i (fun o => o) = db := by
  unfold DB.updKey
  have : db.keys.map (fun r => if r.id == i then r else r) = db.keys := by
    simp
  rw [this]

theorem updKey_updKey (db : DB) (i : Int) (f g : KeyRow → KeyRow) (hf : ∀ o, (f o).id = o.id) :
    (db.updKey i f).updKey i g = db.updKey i (fun o => g (f o)) := by
  unfold DB.updKey
  simp only [List.map_map]
  congr 1
  apply List.map_congr_left
  intro r _
  by_cases hi : r.id = i
  · simp [hi, hf]
  · simp [hi]

/-! ### relations -/

/-- `r'` is `r` up to the cached length -/
def SameMeta (r r' : KeyRow) : Prop := r' = { r with len := r'.len }

theorem SameMeta.rfl' (r : KeyRow) : SameMeta r r := rfl

theorem SameMeta.trans {a b c : KeyRow} (h1 : SameMeta a b) (h2 : SameMeta b c) : SameMeta a c := by
  unfold SameMeta at *
  rw [h2, h1]

theorem SameMeta.id {r r' : KeyRow} (h : SameMeta r r') : r'.id = r.id := by rw [h]
theorem SameMeta.key {r r' : KeyRow} (h : SameMeta r r') : r'.key = r.key := by rw [h]
theorem SameMeta.ty {r r' : KeyRow} (h : SameMeta r r') : r'.ty = r.ty := by rw [h]
theorem SameMeta.version {r r' : KeyRow} (h : SameMeta r r') : r'.version = r.version := by rw [h]
theorem SameMeta.mtime {r r' : KeyRow} (h : SameMeta r r') : r'.mtime = r.mtime := by rw [h]
theorem SameMeta.etime {r r' : KeyRow} (h : SameMeta r r') : r'.etime = r.etime := by rw [h]

/-- every key id of `a` is still there in `b` -/
def Keep (a b : DB) : Prop := ∀ r ∈ a.keys, ∃ r' ∈ b.keys, r'.id = r.id

theorem Keep.refl (a : DB) : Keep a a := fun r hr => ⟨r, hr, rfl⟩

theorem Keep.trans {a b c : DB} (h1 : Keep a b) (h2 : Keep b c) : Keep a c := fun r hr => by
  obtain ⟨r', hr', e⟩ := h1 r hr
  obtain ⟨r'', hr'', e'⟩ := h2 r' hr'
  exact ⟨r'', hr'', e'.trans e⟩

/-- child-level edits of key id `j`: only the child rows of `j` and the `len` of its key row may
differ -/
structure Touch (j : Int) (a b : DB) : Prop where
  child : ∀ i, i ≠ j → ChildEq a b i
  keys : ∀ r' ∈ b.keys, ∃ r ∈ a.keys, SameMeta r r' ∧ (r'.id ≠ j → r' = r)
  keep : Keep a b

theorem Touch.refl (j : Int) (a : DB) : Touch j a a :=
  ⟨fun i _ => ChildEq.refl a i, fun r hr => ⟨r, hr, rfl, fun _ => rfl⟩, Keep.refl a⟩

theorem Touch.trans {j : Int} {a b c : DB} (h1 : Touch j a b) (h2 : Touch j b c) : Touch j a c := by
  refine ⟨fun i hi => (h1.child i hi).trans (h2.child i hi), fun r'' hr'' => ?_, h1.keep.trans h2.keep⟩
  obtain ⟨r', hr', s2, e2⟩ := h2.keys r'' hr''
  obtain ⟨r, hr, s1, e1⟩ := h1.keys r' hr'
  refine ⟨r, hr, s1.trans s2, fun hne => ?_⟩
  have := e2 hne
  rw [this] at hne ⊢
  exact e1 hne

/-- only a child table was replaced -/
theorem Touch.of_keys_eq {j : Int} {a b : DB} (hk : b.keys = a.keys)
    (hc : ∀ i, i ≠ j → ChildEq a b i) : Touch j a b :=
  ⟨hc, fun r hr => ⟨r, hk ▸ hr, rfl, fun _ => rfl⟩, fun r hr => ⟨r, hk ▸ hr, rfl⟩⟩

/-- the `len` update of the insert triggers -/
theorem Touch.updLen (j : Int) (a : DB) (f : KeyRow → KeyRow)
    (hf : ∀ o, f o = { o with len := (f o).len }) : Touch j a (a.updKey j f) := by
  refine ⟨fun i _ => ChildEq.of_tables rfl rfl rfl rfl rfl, fun r' hr' => ?_, fun r hr => ?_⟩
  · obtain ⟨r, hr, ⟨_, e⟩ | ⟨hi, e⟩⟩ := mem_updKey hr'
    · refine ⟨r, hr, ?_, fun hne => ?_⟩
      · rw [e]; exact hf r
      · rw [e, hf r] at hne; exact absurd (by assumption) hne
    · exact ⟨r, hr, e ▸ rfl, fun _ => e⟩
  · refine ⟨_, mem_updKey_of hr, ?_⟩
    split
    · rw [hf r]
    · rfl

/-- the row `r'` was written at the time of the call: bumped from a row of `a` with the same id,
or brand new -/
def Bumped (now : Int) (a : DB) (r' : KeyRow) : Prop :=
  r'.mtime = now ∧
  ((∃ r ∈ a.keys, r.id = r'.id ∧ r.ty = r'.ty ∧ r.version < r'.version) ∨
   ((∀ r ∈ a.keys, r.id ≠ r'.id) ∧ 1 ≤ r'.version))

/-- the effect of a (non-storing, non-expiry) method on the key table: every row of the result
either is a row of the pre-state whose children are untouched, or was written at the time of the
call with a larger version -/
def Eff (now : Int) (a b : DB) : Prop :=
  ∀ r' ∈ b.keys, (r' ∈ a.keys ∧ ChildEq a b r'.id) ∨ Bumped now a r'

theorem Eff.refl (now : Int) (a : DB) : Eff now a a := fun r hr => .inl ⟨hr, ChildEq.refl a _⟩

theorem Eff.trans {now : Int} {a b c : DB} (h1 : Eff now a b) (hk : Keep a b) (h2 : Eff now b c) :
    Eff now a c := by
  intro r'' hr''
  rcases h2 r'' hr'' with ⟨hb, hc⟩ | ⟨hm, hb⟩
  · rcases h1 r'' hb with ⟨ha, hc'⟩ | hbump
    · exact .inl ⟨ha, hc'.trans hc⟩
    · exact .inr hbump
  · refine .inr ⟨hm, ?_⟩
    rcases hb with ⟨r', hr', hid, hty, hv⟩ | ⟨hnew, hv⟩
    · rcases h1 r' hr' with ⟨ha, _⟩ | ⟨_, hb'⟩
      · exact .inl ⟨r', ha, hid, hty, hv⟩
      · rcases hb' with ⟨r, hr, hid', hty', hv'⟩ | ⟨hnew', hv'⟩
        · exact .inl ⟨r, hr, hid'.trans hid, hty'.trans hty, by omega⟩
        · exact .inr ⟨fun r hr => hid ▸ hnew' r hr, by omega⟩
    · refine .inr ⟨fun r hr e => ?_, hv⟩
      obtain ⟨r', hr', e'⟩ := hk r hr
      exact hnew r' hr' (e'.trans e)

/-- an `Eff` step keeps the clock assumption -/
theorem Eff.mono {now : Int} {a b : DB} (h : Eff now a b) (hm : MonoClock now a) : MonoClock now b := by
  intro r' hr'
  rcases h r' hr' with ⟨ha, _⟩ | ⟨hm', _⟩
  · exact hm r' ha
  · omega

/-- an untouched row meets the requirement `metaOK` puts on a continued history -/
theorem plain_of_mem {now : Int} {a b : DB} {r' : KeyRow}
    (hu : a.keys.Pairwise (fun x y => x.id ≠ y.id)) (ha : r' ∈ a.keys) (hc : ChildEq a b r'.id) :
    PlainRowM now a b r' := by
  unfold PlainRowM
  rw [rowAt_of_mem hu ha]
  have : absVal a r' = absVal b r' := absVal_congr hc
  exact ⟨Int.le_refl _, fun _ => Int.le_refl _, rfl,
    fun h => by rcases h with h | h <;> exact absurd (by first | exact this | rfl) h,
    fun h => absurd this h⟩

/-- so does a row written at the time of the call -/
theorem plain_of_bumped {now : Int} {a b : DB} {r' : KeyRow}
    (hu : a.keys.Pairwise (fun x y => x.id ≠ y.id)) (hb : Bumped now a r') :
    PlainRowM now a b r' := by
  unfold PlainRowM
  obtain ⟨hmt, hb⟩ := hb
  rcases hb with ⟨r, hr, hid, hty, hv⟩ | ⟨hnew, hv⟩
  · have hfind : a.findId r'.id = some r := hid ▸ findId_of_mem hu hr
    cases hra : rowAt a r'.id r'.key with
    | some r0 =>
      obtain ⟨h0, hid0, _⟩ := rowAt_some hra
      have : r0 = r := eq_of_id_eq hu h0 hr (hid0.trans hid.symm)
      subst this
      exact ⟨by omega, fun hm => by have := hm r0 hr; omega, hty, fun _ => hv, fun _ => hmt⟩
    | none =>
      simp only [hfind]
      exact ⟨hv, hmt, hty⟩
  · have h1 : rowAt a r'.id r'.key = none := by
      cases hra : rowAt a r'.id r'.key with
      | none => rfl
      | some r0 => exact absurd (rowAt_some hra).2.1 (hnew r0 (rowAt_some hra).1)
    have h2 : a.findId r'.id = none := by
      cases hf : a.findId r'.id with
      | none => rfl
      | some r0 => exact absurd (findId_some hf).2 (hnew r0 (findId_some hf).1)
    simp only [h1, h2]
    exact ⟨hv, hmt⟩

/-- from `Eff` to the requirement `metaOK` puts on a row that is not a store destination -/
theorem Eff.plain {now : Int} {a b : DB} (h : Eff now a b)
    (hu : a.keys.Pairwise (fun x y => x.id ≠ y.id)) :
    ∀ r' ∈ b.keys, PlainRowM now a b r' := by
  intro r' hr'
  rcases h r' hr' with ⟨ha, hc⟩ | hb
  · exact plain_of_mem hu ha hc
  · exact plain_of_bumped hu hb

/-! ### the three shapes of a single-key write -/

/-- a function that bumps a key row at the time of the call -/
def IsBump (now : Int) (f : KeyRow → KeyRow) : Prop :=
  ∀ o, (f o).id = o.id ∧ (f o).ty = o.ty ∧ o.version < (f o).version ∧ (f o).mtime = now

theorem isBump_succ (now : Int) :
    IsBump now (fun o : KeyRow => { o with version := o.version + 1, mtime := now }) :=
  fun o => ⟨rfl, rfl, by show o.version < o.version + 1; omega, rfl⟩

theorem isBump_len (now : Int) (g : Option Int → Option Int) :
    IsBump now (fun o : KeyRow => { o with version := o.version + 1, mtime := now, len := g o.len }) :=
  fun o => ⟨rfl, rfl, by show o.version < o.version + 1; omega, rfl⟩

/-- child edits, then the key update (`sqlDelete2`, `sqlInsert`, …) -/
theorem eff_touch_updKey {now : Int} {j : Int} {a b : DB} {f : KeyRow → KeyRow}
    (ht : Touch j a b) (hf : IsBump now f) : Eff now a (b.updKey j f) ∧ Keep a (b.updKey j f) := by
  refine ⟨fun r'' hr'' => ?_, fun r hr => ?_⟩
  · obtain ⟨r', hr', ⟨hi, e⟩ | ⟨hi, e⟩⟩ := mem_updKey hr''
    · obtain ⟨r, hr, hs, _⟩ := ht.keys r' hr'
      obtain ⟨f1, f2, f3, f4⟩ := hf r'
      refine .inr ⟨e ▸ f4, .inl ⟨r, hr, ?_, ?_, ?_⟩⟩
      · rw [e, f1, hs.id]
      · rw [e, f2, hs.ty]
      · rw [e, ← hs.version]; exact f3
    · obtain ⟨r, hr, _, hsame⟩ := ht.keys r' hr'
      have := hsame hi
      subst this; subst e
      exact .inl ⟨hr, (ht.child _ hi).trans (ChildEq.of_tables rfl rfl rfl rfl rfl)⟩
  · obtain ⟨r', hr', e⟩ := ht.keep r hr
    refine ⟨_, mem_updKey_of hr', ?_⟩
    split
    · rw [(hf r').1, e]
    · exact e

/-- the key update, then child edits (`rlist_on_update`) -/
theorem eff_updKey_touch {now : Int} {j : Int} {a c : DB} {f : KeyRow → KeyRow}
    (hf : IsBump now f) (ht : Touch j (a.updKey j f) c) : Eff now a c ∧ Keep a c := by
  refine ⟨fun r'' hr'' => ?_, fun r hr => ?_⟩
  · obtain ⟨r', hr', hs, hsame⟩ := ht.keys r'' hr''
    obtain ⟨r, hr, ⟨hi, e⟩ | ⟨hi, e⟩⟩ := mem_updKey hr'
    · obtain ⟨f1, f2, f3, f4⟩ := hf r
      refine .inr ⟨?_, .inl ⟨r, hr, ?_, ?_, ?_⟩⟩
      · rw [hs.mtime, e, f4]
      · rw [hs.id, e, f1]
      · rw [hs.ty, e, f2]
      · rw [hs.version, e]; exact f3
    · have hne : r''.id ≠ j := by rw [hs.id, e]; exact hi
      have := hsame hne
      subst this; subst e
      exact .inl ⟨hr, (ChildEq.of_tables rfl rfl rfl rfl rfl : ChildEq a (a.updKey j f) _).trans
        (ht.child _ hne)⟩
  · have hmem := mem_updKey_of (i := j) (f := f) hr
    obtain ⟨r', hr', e⟩ := ht.keep _ hmem
    refine ⟨r', hr', e.trans ?_⟩
    split
    · exact (hf r).1
    · rfl

/-- the key upsert, then child edits (`sqlSet1`/`sqlSet2`, `sqlAdd1`/`sqlAdd2`, `sqlPush`, …) -/
theorem eff_upsert_touch {now : Int} {a b c : DB} {k : Bytes} {ty : Int} {onNew : Int → KeyRow}
    {onOld : KeyRow → KeyRow} {r : KeyRow}
    (he : keyUpsert a k ty onNew onOld = .ok (b, r))
    (hnew : ∀ id, (onNew id).id = id ∧ (onNew id).version = 1 ∧ (onNew id).mtime = now)
    (hold : IsBump now onOld) (ht : Touch r.id b c) : Eff now a c ∧ Keep a c := by
  rcases keyUpsert_cases he with ⟨_, hr, hdb⟩ | ⟨old, hf, _, hr, hdb⟩
  · obtain ⟨n1, n2, n3⟩ := hnew a.nextKeyId
    rw [← hr] at n1 n2 n3
    have fresh : ∀ o ∈ a.keys, o.id ≠ r.id := fun o ho => by
      have := id_lt_nextKeyId a o ho; omega
    have hab : ∀ i, ChildEq a b i := fun i => by
      rw [hdb]; exact ChildEq.of_tables rfl rfl rfl rfl rfl
    refine ⟨fun r'' hr'' => ?_, fun x hx => ?_⟩
    · obtain ⟨r', hr', hs, hsame⟩ := ht.keys r'' hr''
      rw [hdb] at hr'
      rcases List.mem_append.1 hr' with hr' | hr'
      · have hne : r''.id ≠ r.id := by rw [hs.id]; exact fresh r' hr'
        have := hsame hne
        subst this
        exact .inl ⟨hr', (hab _).trans (ht.child _ hne)⟩
      · have : r' = r := List.mem_singleton.1 hr'
        subst this
        refine .inr ⟨by rw [hs.mtime, n3], .inr ⟨fun o ho => ?_, by rw [hs.version, n2]; omega⟩⟩
        rw [hs.id]; exact fresh o ho
    · have : x ∈ b.keys := by rw [hdb]; exact List.mem_append_left _ hx
      exact ht.keep x this
  · obtain ⟨hom, _⟩ := findKey_some hf
    obtain ⟨o1, o2, o3, o4⟩ := hold old
    rw [← hr] at o1 o2 o3 o4
    have hab : ∀ i, ChildEq a b i := fun i => by
      rw [hdb]; exact ChildEq.of_tables rfl rfl rfl rfl rfl
    refine ⟨fun r'' hr'' => ?_, fun x hx => ?_⟩
    · obtain ⟨r', hr', hs, hsame⟩ := ht.keys r'' hr''
      rw [hdb] at hr'
      obtain ⟨x, hx, ⟨_, e⟩ | ⟨hi, e⟩⟩ := mem_updKey hr'
      · refine .inr ⟨by rw [hs.mtime, e, o4], .inl ⟨old, hom, ?_, ?_, ?_⟩⟩
        · rw [hs.id, e, o1]
        · rw [hs.ty, e, o2]
        · rw [hs.version, e]; exact o3
      · have hne : r''.id ≠ r.id := by rw [hs.id, e, o1]; exact hi
        have := hsame hne
        subst this; subst e
        exact .inl ⟨hx, (hab _).trans (ht.child _ hne)⟩
    · have hmem : (if x.id == old.id then r else x) ∈ b.keys := by
        rw [hdb]; exact mem_updKey_of (f := fun _ => r) hx
      obtain ⟨r', hr', e⟩ := ht.keep _ hmem
      refine ⟨r', hr', e.trans ?_⟩
      split
      · rename_i hc; rw [o1]; exact (by simpa using hc : x.id = old.id).symm
      · rfl

/-- a failed upsert changes nothing; a successful one alone is an `Eff` step -/
theorem eff_upsert {now : Int} {a b : DB} {k : Bytes} {ty : Int} {onNew : Int → KeyRow}
    {onOld : KeyRow → KeyRow} {r : KeyRow}
    (he : keyUpsert a k ty onNew onOld = .ok (b, r))
    (hnew : ∀ id, (onNew id).id = id ∧ (onNew id).version = 1 ∧ (onNew id).mtime = now)
    (hold : IsBump now onOld) : Eff now a b ∧ Keep a b :=
  eff_upsert_touch he hnew hold (Touch.refl _ _)

/-! ### building `Touch` from replaced child tables -/

theorem Touch.setStrs (j : Int) (a : DB) (l : List StrRow)
    (h : ∀ i, i ≠ j → a.strs.filter (fun x => x.kid == i) = l.filter (fun x => x.kid == i)) :
    Touch j a { a with strs := l } :=
  Touch.of_keys_eq rfl (fun i hi => ⟨h i hi, rfl, rfl, rfl, rfl⟩)

theorem Touch.setLists (j : Int) (a : DB) (l : List ListRow)
    (h : ∀ i, i ≠ j → a.lists.filter (fun x => x.kid == i) = l.filter (fun x => x.kid == i)) :
    Touch j a { a with lists := l } :=
  Touch.of_keys_eq rfl (fun i hi => ⟨rfl, h i hi, rfl, rfl, rfl⟩)

theorem Touch.setSets (j : Int) (a : DB) (l : List SetRow)
    (h : ∀ i, i ≠ j → a.sets.filter (fun x => x.kid == i) = l.filter (fun x => x.kid == i)) :
    Touch j a { a with sets := l } :=
  Touch.of_keys_eq rfl (fun i hi => ⟨rfl, rfl, h i hi, rfl, rfl⟩)

theorem Touch.setHashes (j : Int) (a : DB) (l : List HashRow)
    (h : ∀ i, i ≠ j → a.hashes.filter (fun x => x.kid == i) = l.filter (fun x => x.kid == i)) :
    Touch j a { a with hashes := l } :=
  Touch.of_keys_eq rfl (fun i hi => ⟨rfl, rfl, rfl, h i hi, rfl⟩)

theorem Touch.setZSets (j : Int) (a : DB) (l : List ZRow)
    (h : ∀ i, i ≠ j → a.zsets.filter (fun x => x.kid == i) = l.filter (fun x => x.kid == i)) :
    Touch j a { a with zsets := l } :=
  Touch.of_keys_eq rfl (fun i hi => ⟨rfl, rfl, rfl, rfl, h i hi⟩)

end Redka.MetaProofs
