/-
  Position arithmetic of `rlist`: when the `Spacious` side condition of the list refinement
  (`pushRoom`, `insertRoom` of Proofs/ListRef.lean) is guaranteed.

  The statements `sqlPushBack`, `sqlPushFront`, `sqlInsertAfter`, `sqlInsertBefore` compute the new
  position in IEEE doubles: `max + 1`, `min - 1`, `(a + b) / 2`, `pivot ± 1`. The model computes the
  exact `Dyadic` sum and rounds it to 53 significant bits (`round53`); halving is exact. Whenever
  the rounding step is the identity (`pushExact`, `insertExact`: the exact sum is a double) the new
  position lies strictly where it should (`pushRoom_of_exact`, `insertRoom_of_exact`) — pure order
  reasoning on `Dyadic`. The rounding step is the identity for every dyadic whose odd numerator has
  at most 53 bits (`round53_of_bits`), in particular for `m * 2^(-j)` with `|m| < 2^53`
  (`round53_grid`) and hence for sums of two grid points with `|m₁| + |m₂| < 2^53`
  (`round53_grid_add`), and for integers below 2^53 (`round53_int`). So a list whose positions are
  integers of magnitude below 2^52 — every list built by pushes alone with fewer than 2^52
  elements — always has room for a push (`pushRoom_of_small_ints`).
-/
import RedkaModel.Proofs.ListRef

namespace Redka.ListPos

open Redka Redka.Model Redka.ListOrd

/-! ### order facts on `Dyadic` -/

theorem dy_lt_add_one (m : Dyadic) : m < m + 1 := by grind

theorem dy_sub_one_lt (m : Dyadic) : m - 1 < m := by grind

/-- halving is exact -/
theorem dyHalf_add_self (x : Dyadic) : dyHalf x + dyHalf x = x := by
  apply Dyadic.toRat_inj.1
  rw [Dyadic.toRat_add]
  cases x with
  | zero =>
    show (Dyadic.toRat 0) + (Dyadic.toRat 0) = Dyadic.toRat 0
    rw [Dyadic.toRat_zero]; grind
  | ofOdd n k hn =>
    show (Dyadic.ofOdd n (k + 1) hn).toRat + (Dyadic.ofOdd n (k + 1) hn).toRat = _
    rw [Dyadic.toRat_ofOdd_eq_mul_two_pow, Dyadic.toRat_ofOdd_eq_mul_two_pow]
    have : (-(k + 1) : Int) = -k - 1 := by omega
    rw [this, Rat.zpow_sub_one (by decide)]
    grind

/-- the exact midpoint lies strictly between -/
theorem dyHalf_between {a b : Dyadic} (h : a < b) : a < dyHalf (a + b) ∧ dyHalf (a + b) < b := by
  have := dyHalf_add_self (a + b)
  grind

/-! ### push -/

/-- no rounding happened in `max + 1` / `min - 1` -/
def pushExact (L : List ListRow) (kid : Int) (front : Bool) : Bool :=
  let ps := (L.filter (fun x => x.kid == kid)).map (·.pos)
  if front then (match dyMin ps with | none => true | some m => round53 (m - 1) == m - 1)
  else (match dyMax ps with | none => true | some m => round53 (m + 1) == m + 1)

theorem pushRoom_of_exact (L : List ListRow) (kid : Int) (front : Bool)
    (h : pushExact L kid front = true) : pushRoom L kid front = true := by
  unfold pushRoom
  rw [List.all_eq_true]
  intro x hx
  have hxp : x.pos ∈ (L.filter (fun x => x.kid == kid)).map (·.pos) := List.mem_map.2 ⟨x, hx, rfl⟩
  unfold pushExact at h
  unfold pushPos
  cases front with
  | true =>
    simp only [if_true] at h ⊢
    cases hm : dyMin ((L.filter (fun x => x.kid == kid)).map (·.pos)) with
    | none => rw [dyMin_eq_none.1 hm] at hxp; cases hxp
    | some m =>
      rw [hm] at h
      have he : round53 (m - 1) = m - 1 := by simpa using h
      simp only [he, decide_eq_true_eq]
      exact dy_lt_of_lt_of_le (dy_sub_one_lt m) ((dyMin_spec hm).2 _ hxp)
  | false =>
    simp only [Bool.false_eq_true, if_false] at h ⊢
    cases hm : dyMax ((L.filter (fun x => x.kid == kid)).map (·.pos)) with
    | none => rw [dyMax_eq_none.1 hm] at hxp; cases hxp
    | some m =>
      rw [hm] at h
      have he : round53 (m + 1) = m + 1 := by simpa using h
      simp only [he, decide_eq_true_eq]
      exact dy_lt_of_le_of_lt ((dyMax_spec hm).2 _ hxp) (dy_lt_add_one m)

/-! ### insert -/

/-- no rounding happened in `pivot + 1` / `pivot - 1` / `a + b` -/
def insertExact (rows : List ListRow) (p : Bytes) (after : Bool) : Bool :=
  match pivotPos rows p with
  | none => true
  | some pv =>
    if after then
      (match dyMin ((rows.filter (fun x => decide (pv < x.pos))).map (·.pos)) with
       | none => round53 (pv + 1) == pv + 1
       | some nx => round53 (pv + nx) == pv + nx)
    else
      (match dyMax ((rows.filter (fun x => decide (x.pos < pv))).map (·.pos)) with
       | none => round53 (pv - 1) == pv - 1
       | some pr => round53 (pr + pv) == pr + pv)

theorem insertRoom_of_exact (rows : List ListRow) (p : Bytes) (after : Bool)
    (h : insertExact rows p after = true) : insertRoom rows p after = true := by
  unfold insertRoom insertPos
  unfold insertExact at h
  cases hpv : pivotPos rows p with
  | none => rfl
  | some pv =>
    rw [hpv] at h
    simp only [List.all_eq_true]
    intro x hx
    cases after with
    | true =>
      simp only [if_true] at h ⊢
      cases hm : dyMin ((rows.filter (fun x => decide (pv < x.pos))).map (·.pos)) with
      | none =>
        rw [hm] at h
        have he : round53 (pv + 1) = pv + 1 := by simpa using h
        have hnil := dyMin_eq_none.1 hm
        have hnlt : ¬ pv < x.pos := by
          intro hlt
          have : x.pos ∈ (rows.filter (fun x => decide (pv < x.pos))).map (·.pos) :=
            List.mem_map.2 ⟨x, List.mem_filter.2 ⟨hx, decide_eq_true hlt⟩, rfl⟩
          rw [hnil] at this; cases this
        simp only [hnlt, decide_false, Bool.false_eq_true, if_false, he, decide_eq_true_eq]
        exact dy_lt_of_le_of_lt (Dyadic.not_le.1 hnlt) (dy_lt_add_one pv)
      | some nx =>
        rw [hm] at h
        have he : round53 (pv + nx) = pv + nx := by simpa using h
        obtain ⟨hmem, hle⟩ := dyMin_spec hm
        obtain ⟨y, hy, hyp⟩ := List.mem_map.1 hmem
        have hlt : pv < nx := by
          rw [← hyp]; exact of_decide_eq_true (List.mem_filter.1 hy).2
        have hb := dyHalf_between hlt
        simp only [mid53, he]
        by_cases hc : pv < x.pos
        · have : nx ≤ x.pos :=
            hle _ (List.mem_map.2 ⟨x, List.mem_filter.2 ⟨hx, decide_eq_true hc⟩, rfl⟩)
          simp only [hc, decide_true, if_true, decide_eq_true_eq]
          exact dy_lt_of_lt_of_le hb.2 this
        · simp only [hc, decide_false, Bool.false_eq_true, if_false, decide_eq_true_eq]
          exact dy_lt_of_le_of_lt (Dyadic.not_le.1 hc) hb.1
    | false =>
      simp only [Bool.false_eq_true, if_false] at h ⊢
      cases hm : dyMax ((rows.filter (fun x => decide (x.pos < pv))).map (·.pos)) with
      | none =>
        rw [hm] at h
        have he : round53 (pv - 1) = pv - 1 := by simpa using h
        have hnil := dyMax_eq_none.1 hm
        have hnlt : ¬ x.pos < pv := by
          intro hlt
          have : x.pos ∈ (rows.filter (fun x => decide (x.pos < pv))).map (·.pos) :=
            List.mem_map.2 ⟨x, List.mem_filter.2 ⟨hx, decide_eq_true hlt⟩, rfl⟩
          rw [hnil] at this; cases this
        simp only [hnlt, decide_false, Bool.false_eq_true, if_false, he, decide_eq_true_eq]
        exact dy_lt_of_lt_of_le (dy_sub_one_lt pv) (Dyadic.not_le.1 hnlt)
      | some pr =>
        rw [hm] at h
        have he : round53 (pr + pv) = pr + pv := by simpa using h
        obtain ⟨hmem, hle⟩ := dyMax_spec hm
        obtain ⟨y, hy, hyp⟩ := List.mem_map.1 hmem
        have hlt : pr < pv := by
          rw [← hyp]; exact of_decide_eq_true (List.mem_filter.1 hy).2
        have hb := dyHalf_between hlt
        simp only [mid53, he]
        by_cases hc : x.pos < pv
        · have : x.pos ≤ pr :=
            hle _ (List.mem_map.2 ⟨x, List.mem_filter.2 ⟨hx, decide_eq_true hc⟩, rfl⟩)
          simp only [hc, decide_true, if_true, decide_eq_true_eq]
          exact dy_lt_of_le_of_lt this hb.1
        · simp only [hc, decide_false, Bool.false_eq_true, if_false, decide_eq_true_eq]
          exact dy_lt_of_lt_of_le hb.2 (Dyadic.not_le.1 hc)

/-! ### when rounding is the identity -/

/-- a dyadic whose odd numerator has at most 53 bits is a double (exponent range aside) -/
theorem round53_of_bits (n k : Int) (hn : n % 2 = 1) (h : natBits n.natAbs ≤ 53) :
    round53 (.ofOdd n k hn) = .ofOdd n k hn := by
  simp [round53, h]

theorem natBits_le_iff (n k : Nat) : natBits n ≤ k ↔ n < 2 ^ k := by
  unfold natBits
  by_cases h : n = 0
  · simp [h, Nat.two_pow_pos]
  · simp only [h, if_false]
    rw [← Nat.log2_lt h]
    omega

/-- `m * 2^(-j)` with `|m| < 2^53` is a double -/
theorem round53_grid (m j : Int) (h : m.natAbs < 2 ^ 53) :
    round53 (Dyadic.ofIntWithPrec m j) = Dyadic.ofIntWithPrec m j := by
  unfold Dyadic.ofIntWithPrec
  split
  · rfl
  · apply round53_of_bits
    rw [natBits_le_iff, Int.shiftRight_eq_div_pow]
    exact Nat.lt_of_le_of_lt (Int.natAbs_ediv_le_natAbs _ _) h

theorem ofIntWithPrec_add (m₁ m₂ j : Int) :
    Dyadic.ofIntWithPrec m₁ j + Dyadic.ofIntWithPrec m₂ j = Dyadic.ofIntWithPrec (m₁ + m₂) j := by
  apply Dyadic.toRat_inj.1
  rw [Dyadic.toRat_add, Dyadic.toRat_ofIntWithPrec_eq_mul_two_pow,
    Dyadic.toRat_ofIntWithPrec_eq_mul_two_pow, Dyadic.toRat_ofIntWithPrec_eq_mul_two_pow,
    Rat.intCast_add]
  grind

/-- the sum of two points of the grid `2^(-j)` with `|m₁| + |m₂| < 2^53` is computed exactly -/
theorem round53_grid_add (m₁ m₂ j : Int) (h : m₁.natAbs + m₂.natAbs < 2 ^ 53) :
    round53 (Dyadic.ofIntWithPrec m₁ j + Dyadic.ofIntWithPrec m₂ j)
      = Dyadic.ofIntWithPrec m₁ j + Dyadic.ofIntWithPrec m₂ j := by
  rw [ofIntWithPrec_add]
  apply round53_grid
  omega

/-- integers below 2^53 are doubles -/
theorem round53_int (n : Int) (h : n.natAbs < 2 ^ 53) : round53 (n : Dyadic) = (n : Dyadic) :=
  round53_grid n 0 h

theorem int_add_one (n : Int) : (n : Dyadic) + 1 = ((n + 1 : Int) : Dyadic) :=
  ofIntWithPrec_add n 1 0

theorem int_sub_one (n : Int) : (n : Dyadic) - 1 = ((n - 1 : Int) : Dyadic) := by
  have := ofIntWithPrec_add n (-1) 0
  have h1 : (n : Dyadic) - 1 = (n : Dyadic) + Dyadic.ofIntWithPrec (-1) 0 := rfl
  rw [h1]; exact this

/-- A list whose positions are integers of magnitude below 2^52 has room for a push at either
end: every list built by pushes alone (positions 0, ±1, ±2, …) with fewer than 2^52 elements. -/
theorem pushRoom_of_small_ints (L : List ListRow) (kid : Int) (front : Bool)
    (h : ∀ x ∈ L, x.kid = kid → ∃ n : Int, x.pos = (n : Dyadic) ∧ n.natAbs < 2 ^ 52) :
    pushRoom L kid front = true := by
  apply pushRoom_of_exact
  unfold pushExact
  have hint : ∀ m ∈ (L.filter (fun x => x.kid == kid)).map (·.pos),
      ∃ n : Int, m = (n : Dyadic) ∧ n.natAbs < 2 ^ 52 := by
    intro m hm
    obtain ⟨x, hx, rfl⟩ := List.mem_map.1 hm
    have := List.mem_filter.1 hx
    exact h x this.1 (by simpa using this.2)
  cases front with
  | true =>
    simp only [if_true]
    cases hm : dyMin ((L.filter (fun x => x.kid == kid)).map (·.pos)) with
    | none => rfl
    | some m =>
      obtain ⟨n, rfl, hn⟩ := hint m (dyMin_spec hm).1
      simp only [beq_iff_eq]
      rw [int_sub_one]
      exact round53_int _ (by omega)
  | false =>
    simp only [Bool.false_eq_true, if_false]
    cases hm : dyMax ((L.filter (fun x => x.kid == kid)).map (·.pos)) with
    | none => rfl
    | some m =>
      obtain ⟨n, rfl, hn⟩ := hint m (dyMax_spec hm).1
      simp only [beq_iff_eq]
      rw [int_add_one]
      exact round53_int _ (by omega)

/-- Positions on a common grid `2^(-j)` (`0 ≤ j ≤ 51`) with numerators below 2^52 leave room for an
insert next to any pivot: the midpoint of two such positions, and `pivot ± 1`, are exact. Each
midpoint insertion uses up one bit: the new position is on the grid `2^(-(j+1))`. -/
theorem insertRoom_of_grid (rows : List ListRow) (p : Bytes) (after : Bool) (j : Nat) (hj : j ≤ 51)
    (h : ∀ x ∈ rows, ∃ m : Int, x.pos = Dyadic.ofIntWithPrec m j ∧ m.natAbs < 2 ^ 52) :
    insertRoom rows p after = true := by
  apply insertRoom_of_exact
  have hone : (1 : Dyadic) = Dyadic.ofIntWithPrec ((2 : Int) ^ j) j := by
    apply Dyadic.toRat_inj.1
    rw [Dyadic.toRat_ofIntWithPrec_eq_mul_two_pow]
    have h1 : (1 : Dyadic).toRat = 1 := Dyadic.toRat_natCast 1
    rw [h1, Rat.zpow_neg, Rat.zpow_natCast, Rat.intCast_pow]
    have h2 : ((2 : Int) : Rat) = 2 := rfl
    rw [h2]
    have h3 : (2 : Rat) ^ j ≠ 0 := Rat.ne_of_gt (Rat.pow_pos (by decide))
    exact (Rat.mul_inv_cancel _ h3).symm
  have hpow : ((2 : Int) ^ j).natAbs ≤ 2 ^ 51 := by
    rw [Int.natAbs_pow]
    exact Nat.pow_le_pow_right (by decide) hj
  have hmone : -(1 : Dyadic) = Dyadic.ofIntWithPrec (-(2 : Int) ^ j) j := by
    rw [hone, Dyadic.neg_ofIntWithPrec]
  have hgrid : ∀ pos ∈ rows.map (·.pos), ∃ m : Int, pos = Dyadic.ofIntWithPrec m j ∧ m.natAbs < 2 ^ 52 := by
    intro pos hpos
    obtain ⟨x, hx, rfl⟩ := List.mem_map.1 hpos
    exact h x hx
  have hsub : ∀ (q : ListRow → Bool) pos, pos ∈ (rows.filter q).map (·.pos) → pos ∈ rows.map (·.pos) := by
    intro q pos hpos
    obtain ⟨x, hx, rfl⟩ := List.mem_map.1 hpos
    exact List.mem_map.2 ⟨x, (List.mem_filter.1 hx).1, rfl⟩
  unfold insertExact
  cases hpv : pivotPos rows p with
  | none => rfl
  | some pv =>
    obtain ⟨mp, rfl, hmp⟩ := hgrid pv (hsub _ pv (dyMin_spec hpv).1)
    simp only []
    cases after with
    | true =>
      simp only [if_true]
      split
      · rw [hone, beq_iff_eq]
        exact round53_grid_add _ _ _ (by omega)
      · rename_i nx hnx
        obtain ⟨mn, rfl, hmn⟩ := hgrid nx (hsub _ nx (dyMin_spec hnx).1)
        rw [beq_iff_eq]
        exact round53_grid_add _ _ _ (by omega)
    | false =>
      simp only [Bool.false_eq_true, if_false]
      split
      · have hs : Dyadic.ofIntWithPrec mp j - 1 = Dyadic.ofIntWithPrec mp j + -(1 : Dyadic) := rfl
        rw [hs, hmone, beq_iff_eq]
        exact round53_grid_add _ _ _ (by rw [Int.natAbs_neg]; omega)
      · rename_i pr hpr
        obtain ⟨mn, rfl, hmn⟩ := hgrid pr (hsub _ pr (dyMax_spec hpr).1)
        rw [beq_iff_eq]
        exact round53_grid_add _ _ _ (by omega)

end Redka.ListPos
