/-
  REFERENCE state machine for MULTI / EXEC / DISCARD on ONE connection (property C15).

  The reference is about the transaction PROTOCOL, not about the 98 commands: what a single command
  replies and does to the tables is taken from the command layer (`Wire.run`, the transcription of
  every `Run` method), once with the `*redka.DB` runner (`Model.dbRun`, a command outside MULTI)
  and once with the `*redka.Tx` runner (`Model.tx true`, a command inside an EXEC block).

  The machine:

    * a request that does not parse is answered with ONE error; nothing else changes — inside
      MULTI too: it is NOT queued;
    * idle:      MULTI → `+OK`, start queuing with an empty queue;
                 EXEC, DISCARD → one error, nothing changes;
                 any other command → run it alone;
    * queuing q: MULTI → one error, nothing changes (the queue is kept);
                 DISCARD → `+OK`, back to idle, the queue is dropped;
                 any other command c → `+QUEUED`, queue := q ++ [c], the tables are NOT touched;
                 EXEC → run q IN ORDER on a private copy of the tables (`runBlock`), reply `*|q|`
                 followed by the |q| individual replies in order; the copy becomes the database
                 iff NO command failed, otherwise the database is exactly what it was; idle again.

  The property fixes the replies of a block only implicitly for the failing case ("none of the
  block's effects is kept"). The reference takes the reading that is free of parameters: EXEC
  always answers with exactly |q| replies, each command — also one after a failing command — being
  run on the private copy in its turn; the copy is thrown away at the end when some command
  failed. What an implementation has to do relative to that is `Refines` below: for a block without
  failure EVERYTHING (phase, tables, tokens) must coincide; for a block with a failing command the
  phase and the tables must coincide, and the tokens must begin with the same `*|q|` header and be
  a PREFIX of the reference's tokens (an implementation may stop talking, it may not say anything
  else). Redka stops right after the reply of the first failing command (defect D12).

  What MULTI / EXEC / DISCARD are: the request's lower-cased first word, whatever follows it
  (`MULTI x y` is MULTI — the server never looks at the arguments; real Redis would answer with an
  arity error. Also the error of a DISCARD without MULTI reads "ERR EXEC without MULTI". Both are
  cosmetic and outside C15; the reference follows the server there).

  Core Lean only.
-/
import RedkaModel.Model.Wire.Cmd.Parse
import RedkaModel.Model.Wire.Cmd.Run

namespace Redka.Spec.Multi

open Redka Redka.Wire

/-! ### states and requests -/

/-- the state of one connection between two requests -/
inductive Phase where
  | idle
  | queuing (q : List ParsedCmd)
deriving DecidableEq

/-- a request as the protocol sees it -/
inductive Req where
  /-- `command.Parse` returns an error -/
  | unparsable (e : RErr)
  | multi
  | exec
  | discard
  /-- any other command, parsed -/
  | cmd (c : ParsedCmd)
deriving DecidableEq

def named (n : Bytes) (s : String) : Bool := n == asciiBytes s

/-- The request as a protocol request. `none`: outside the wire model's domain — the name is not
ASCII-lowerable in the model, a number is outside the parser model's numeric domain, the request is
empty, or the generated grammar is unknown (`Props.C15.out_of_scope_iff`; a parser panic, the former
defect D11, no longer exists: `WireProofs.parse_ne_panic`). No claim is made about such a request
except that the model leaves connection and tables alone (`Props.C15.out_of_scope_inert`). -/
def classify (req : List Bytes) : Option Req :=
  match parse req with
  | .ok pc =>
    some (if named pc.name "multi" then .multi
          else if named pc.name "exec" then .exec
          else if named pc.name "discard" then .discard
          else .cmd pc)
  | .error e => some (.unparsable e)
  | _ => none

/-! ### an EXEC block -/

/-- a block run on a private copy of the tables -/
structure BlockRun where
  /-- the private copy after the last command -/
  db : DB
  /-- the reply of every command, in order: exactly one entry per queued command -/
  replies : List (List Token)
  /-- no command failed -/
  ok : Bool

/-- every queued command in order, each as a method of the SAME transaction (`Model.tx true`), on
the tables the previous one left -/
def runBlock (now : Int) : List ParsedCmd → DB → BlockRun
  | [], db => { db := db, replies := [], ok := true }
  | c :: cs, db =>
    let r := run c (Model.tx true) now db none
    let b := runBlock now cs r.db
    { db := b.db, replies := r.toks :: b.replies, ok := !r.failed && b.ok }

/-! ### the machine -/

def errTok (e : RErr) : Token := .err (asciiBytes e.text)
def queuedTok : Token := .str (asciiBytes "QUEUED")

/-- one request on one connection: new phase, new tables, tokens written -/
def refStep (ph : Phase) (db : DB) (now : Int) : Req → Phase × DB × List Token
  | .unparsable e => (ph, db, [.err (errorText (asciiBytes e.text) [])])
  | .multi =>
    match ph with
    | .idle => (.queuing [], db, [okTok])
    | .queuing _ => (ph, db, [errTok .nestedMulti])
  | .exec =>
    match ph with
    | .idle => (.idle, db, [errTok .notInMulti])
    | .queuing q =>
      let b := runBlock now q db
      (.idle, if b.ok then b.db else db, .arrayHdr q.length :: b.replies.flatten)
  | .discard =>
    match ph with
    | .idle => (.idle, db, [errTok .notInMulti])
    | .queuing _ => (.idle, db, [okTok])
  | .cmd c =>
    match ph with
    | .idle => let r := run c Model.dbRun now db none; (.idle, r.db, r.toks)
    | .queuing q => (.queuing (q ++ [c]), db, [queuedTok])

/-- a sequence of timed requests on one connection: final phase, final tables, one token list per
request -/
def refRun (ph : Phase) (db : DB) : List (Int × Req) → Phase × DB × List (List Token)
  | [] => (ph, db, [])
  | (now, r) :: rest =>
    let s := refStep ph db now r
    let t := refRun s.1 s.2.1 rest
    (t.1, t.2.1, s.2.2 :: t.2.2)

/-! ### the classifier and the refinement relation -/

/-- what kind of step a request is, decided on the REFERENCE side -/
inductive StepClass where
  /-- everything must coincide -/
  | clean
  /-- an EXEC whose block has a failing command, every command of the block being in the model's
  domain: everything must coincide as well (the tables are rolled back, all |q| replies are written;
  D12 — the reply stopped at the failing command — is repaired) -/
  | fails
  /-- an EXEC whose block contains a command outside the command model's numeric domain
  (`RunRes.ood`, e.g. INCRBYFLOAT of a hex float): the wire model stops there and makes no claim -/
  | ood
deriving DecidableEq, Repr

/-- every command of the block runs: a command outside the model's domain anywhere makes the block `.ood`;
otherwise a failing command anywhere makes it `.fails` -/
def blockClass (now : Int) : List ParsedCmd → DB → StepClass
  | [], _ => .clean
  | c :: cs, db =>
    let r := run c (Model.tx true) now db none
    if r.ood then .ood else
    match blockClass now cs r.db with
    | .ood => .ood
    | .fails => .fails
    | .clean => if r.failed then .fails else .clean

def stepClass (ph : Phase) (db : DB) (now : Int) : Req → StepClass
  | .exec => match ph with | .queuing q => blockClass now q db | .idle => .clean
  | _ => .clean

/-- THE REFINEMENT RELATION of one step, implementation against reference, per class. -/
def Refines (cls : StepClass) (impl ref : Phase × DB × List Token) : Prop :=
  match cls with
  | .clean => impl = ref
  | .fails => impl = ref
  | .ood => impl.1 = ref.1

/-- the class of every step along the reference run -/
def runClasses (ph : Phase) (db : DB) : List (Int × Req) → List StepClass
  | [] => []
  | (now, r) :: rest =>
    let s := refStep ph db now r
    stepClass ph db now r :: runClasses s.1 s.2.1 rest

/-- no EXEC of the run has a failing or out-of-domain block -/
def CleanRun (ph : Phase) (db : DB) (rs : List (Int × Req)) : Prop :=
  ∀ c ∈ runClasses ph db rs, c = .clean

/-- no EXEC of the run leaves the command model's domain (failing blocks are allowed) -/
def InDomainRun (ph : Phase) (db : DB) (rs : List (Int × Req)) : Prop :=
  ∀ c ∈ runClasses ph db rs, c ≠ .ood

instance (ph : Phase) (db : DB) (rs : List (Int × Req)) : Decidable (CleanRun ph db rs) := by
  unfold CleanRun; infer_instance

instance (ph : Phase) (db : DB) (rs : List (Int × Req)) : Decidable (InDomainRun ph db rs) := by
  unfold InDomainRun; infer_instance

/-- the replies of a run, step by step: equal on a clean step and on a failing one -/
def RepliesRefine : List StepClass → List (List Token) → List (List Token) → Prop
  | [], [], [] => True
  | c :: cs, i :: is, r :: rs =>
    (match c with
      | .clean => i = r
      | .fails => i = r
      | .ood => True) ∧ RepliesRefine cs is rs
  | _, _, _ => False

/-- all requests of a run as protocol requests; `none` when one is outside the domain -/
def classifyAll : List (Int × List Bytes) → Option (List (Int × Req))
  | [] => some []
  | (now, r) :: rest =>
    match classify r, classifyAll rest with
    | some a, some as => some ((now, a) :: as)
    | _, _ => none

end Redka.Spec.Multi
