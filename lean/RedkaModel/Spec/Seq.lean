/-
  The Redis index rules the properties name, on plain lists (C02, C05). Independent of the model.
-/
namespace Redka.Spec

/-- a negative index counts from the tail -/
def normIdx (n i : Int) : Int := if i < 0 then n + i else i

/-- LRANGE: both bounds inclusive, negative bounds count from the tail, out-of-range bounds are
clamped, an inverted or empty range selects nothing -/
def lrange {α} (l : List α) (a b : Int) : List α :=
  let n : Int := l.length
  let s := max (normIdx n a) 0
  let e := min (normIdx n b) (n - 1)
  if s > e then [] else (l.drop s.toNat).take (e - s + 1).toNat

/-- LINDEX / LSET position: `none` when out of range -/
def lindexPos (n : Nat) (i : Int) : Option Nat :=
  let j := normIdx n i
  if j < 0 ∨ j ≥ n then none else some j.toNat

def lindex {α} (l : List α) (i : Int) : Option α :=
  match lindexPos l.length i with
  | none => none
  | some j => l[j]?

def lset {α} (l : List α) (i : Int) (x : α) : Option (List α) :=
  match lindexPos l.length i with
  | none => none
  | some j => some (l.set j x)

/-- LTRIM keeps exactly what LRANGE selects -/
def ltrim {α} (l : List α) (a b : Int) : List α := lrange l a b

/-- remove the first `n` occurrences (from the front) -/
def removeFirstN {α} [BEq α] (x : α) : Nat → List α → List α
  | 0, l => l
  | _, [] => []
  | n + 1, y :: ys => if y == x then removeFirstN x n ys else y :: removeFirstN x (n + 1) ys

/-- remove the first `n` occurrences counting from the back -/
def removeLastN {α} [BEq α] (x : α) (n : Nat) (l : List α) : List α :=
  (removeFirstN x n l.reverse).reverse

/-- insert `x` before / after the first occurrence of `p`; `none` when `p` is absent -/
def insertAt {α} [BEq α] (p x : α) (after : Bool) : List α → Option (List α)
  | [] => none
  | y :: ys =>
    if y == p then some (if after then y :: x :: ys else x :: y :: ys)
    else (insertAt p x after ys).map (y :: ·)

/-- sorted-set rank range as the API documents it: negative bounds select nothing, an inverted
range selects nothing, bounds past the end are clamped -/
def rankSlice {α} (l : List α) (a b : Int) : List α :=
  if a < 0 ∨ b < 0 ∨ a > b then [] else (l.drop a.toNat).take (b - a + 1).toNat

/-- `LIMIT offset count` as ZRANGEBYSCORE documents it: offset ≤ 0 means none, count ≤ 0 means all -/
def offsetCount {α} (l : List α) (offset count : Int) : List α :=
  let l := if offset > 0 then l.drop offset.toNat else l
  if count > 0 then l.take count.toNat else l

end Redka.Spec
