/-
  What the documented SQL views must show according to C11: exactly the live keys and elements
  that the API shows — computed from the abstract keyspace alone.
-/
import RedkaModel.Spec.Abs
import RedkaModel.Model.Views

namespace Redka.Spec

open Redka Redka.Model.View

/-- the element count the API reports for a collection (`rkey.len` is NULL for strings) -/
def SVal.size : SVal → Option Int
  | .str _ => none
  | .list l => some l.length
  | .set s => some s.length
  | .hash h => some h.length
  | .zset z => some z.length

/-- `vkey`: name, type, element count, expiry of every key that exists -/
def vkeyRows (s : State) : List (Bytes × Int × Option Int × Option Int) :=
  s.map (fun p => (p.1, p.2.val.ty, p.2.val.size, p.2.etime))

/-- `vstring`: name, value, expiry of every string -/
def vstringRows (s : State) : List (Bytes × Bytes × Option Int) :=
  s.flatMap (fun p => match p.2.val with
    | .str b => [(p.1, b, p.2.etime)]
    | _ => [])

/-- `vlist`: name, 1-based index, element, expiry — the index is the position the API reports -/
def vlistRows (s : State) : List (Bytes × Nat × Bytes × Option Int) :=
  s.flatMap (fun p => match p.2.val with
    | .list l => (numbered l).map (fun q => (p.1, q.1, q.2, p.2.etime))
    | _ => [])

def vsetRows (s : State) : List (Bytes × Bytes × Option Int) :=
  s.flatMap (fun p => match p.2.val with
    | .set m => m.map (fun x => (p.1, x, p.2.etime))
    | _ => [])

def vhashRows (s : State) : List (Bytes × Bytes × Bytes × Option Int) :=
  s.flatMap (fun p => match p.2.val with
    | .hash m => m.map (fun x => (p.1, x.1, x.2, p.2.etime))
    | _ => [])

def vzsetRows (s : State) : List (Bytes × Bytes × Score × Option Int) :=
  s.flatMap (fun p => match p.2.val with
    | .zset m => m.map (fun x => (p.1, x.1, x.2, p.2.etime))
    | _ => [])

end Redka.Spec
