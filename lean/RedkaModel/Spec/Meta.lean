/-
  C12 (reads and refusals leave no trace) and C19 (key metadata tells the truth) as decidable
  judgements on one observed step of the implementation (raw tables before / after).
-/
import RedkaModel.Spec.Abs

namespace Redka.Spec

open Redka

/-- operations that can never write -/
def isRead : Op → Bool
  | .strGet _ | .strGetMany _ => true
  | .keyCount _ | .keyExists _ | .keyGet _ | .keyKeys _ | .keyLen | .keyRandom _ | .keyScan .. => true
  | .listGet .. | .listLen _ | .listRange .. => true
  | .setDiff _ | .setExists .. | .setInter _ | .setItems _ | .setLen _ | .setRandom .. | .setScan ..
  | .setUnion _ => true
  | .hashExists .. | .hashFields _ | .hashGet .. | .hashGetMany .. | .hashItems _ | .hashLen _
  | .hashScan .. | .hashValues _ => true
  | .zCount .. | .zGetRank .. | .zGetRankRev .. | .zGetScore .. | .zInter .. | .zLen _ | .zRangeRank ..
  | .zRangeScore .. | .zScan .. | .zUnion .. => true
  | _ => false

/-- "there was nothing to do" outcomes of writers: nothing removed, condition not met -/
def nothingToDo (op : Op) (res : Out) : Bool :=
  match op, res with
  | .keyDelete _, .ok (.int 0) => true
  | .keyDeleteExpired _, .ok (.int 0) => true
  | .listDelete .., .ok (.int 0) | .listDeleteBack .., .ok (.int 0) | .listDeleteFront .., .ok (.int 0) => true
  | .listTrim .., .ok (.int 0) => true
  | .setDelete .., .ok (.int 0) | .hashDelete .., .ok (.int 0) | .zDelete .., .ok (.int 0) => true
  | .zDeleteRank .., .ok (.int 0) | .zDeleteScore .., .ok (.int 0) => true
  | .hashSetNotExists .., .ok (.bool false) => true
  | .keyRenameNX .., .ok (.bool false) => true
  | .strSetWith .., .ok (.list [_, .bool false, .bool false]) => true
  | .setDiffStore _ [], _ | .setInterStore _ [], _ | .setUnionStore _ [], _ => true
  | .hashSetMany _ [], _ | .zAddMany _ [], _ | .strSetMany [], _ => true
  | _, .error .notFound => true
  | _, .error .pivotNotFound => true
  | _, _ => false

/-- Must this step leave the tables untouched? Reads always; refusals (any error) at `DB` level;
inside a caller-managed transaction only the nothing-to-do outcomes (C12's last sentence). -/
def traceless (inTx : Bool) (op : Op) (res : Out) : Bool :=
  isRead op || nothingToDo op res || (!inTx && isErr res)

/-- `some true`: left no trace; `some false`: C12 violated; `none`: not a traceless step -/
def noTrace (inTx : Bool) (op : Op) (pre post : DB) (res : Out) : Option Bool :=
  if traceless inTx op res then some (decide (pre = post)) else none

/-! ### C19 -/

/-- storing operations fully replace their destination: a new history starts -/
def storeDest : Op → Option Bytes
  | .setDiffStore d _ | .setInterStore d _ | .setUnionStore d _ => some d
  | .zInterStore d _ _ | .zUnionStore d _ _ => some d
  | _ => none

/-- judge the metadata of every key row after a step that was *not* traceless:
 * a row that survives with the same id never has its version or mtime go backwards;
 * if its abstract value or its expiry changed, the version strictly increased, and if the value
   changed the mtime is the time of the call;
 * a row that is new (new id or new name for that id aside from rename) has version ≥ 1 and the
   mtime of the call;
 * the destination of a storing operation starts a new history (only version ≥ 1 and mtime = now
   are required of it).
`now` is the canonical clock of the call. -/
def metaOK (op : Op) (now : Int) (pre post : DB) (res : Out) : Bool :=
  post.keys.all (fun r' =>
    let fresh := decide (r'.version ≥ 1) && (r'.mtime == now)
    if !isErr res && storeDest op == some r'.key then fresh
    else
      match pre.keys.find? (fun r => r.id == r'.id && r.key == r'.key) with
      | some r =>
        let v := absVal pre r
        let v' := absVal post r'
        let valChanged := !(decide (v = v'))
        let etChanged := !(decide (r.etime = r'.etime))
        decide (r'.version ≥ r.version) && decide (r'.mtime ≥ r.mtime) && (r.ty == r'.ty) &&
        (if valChanged || etChanged then decide (r'.version > r.version) else true) &&
        (if valChanged then r'.mtime == now else true)
      | none =>
        -- renamed (same id, new name) or created
        match pre.keys.find? (fun r => r.id == r'.id) with
        | some r => decide (r'.version > r.version) && (r'.mtime == now) && (r.ty == r'.ty)
        | none => fresh)

end Redka.Spec

namespace Redka.Spec

open Redka

/-- every key name an operation mentions -/
def opKeys : Op → List Bytes
  | .strGet k | .strIncr k _ | .strIncrFloat k _ | .strSet k _ | .strSetExpires k _ _ | .strSetWith k _ _ => [k]
  | .strGetMany ks => ks
  | .strSetMany items => items.map (·.1)
  | .keyCount ks | .keyDelete ks => ks
  | .keyExists k | .keyExpire k _ | .keyExpireAt k _ | .keyGet k | .keyPersist k => [k]
  | .keyRename a b | .keyRenameNX a b => [a, b]
  | .keyDeleteAll | .keyDeleteExpired _ | .keyKeys _ | .keyLen | .keyRandom _ | .keyScan .. => []
  | .listDelete k _ | .listDeleteBack k _ _ | .listDeleteFront k _ _ | .listGet k _ | .listInsertAfter k _ _
  | .listInsertBefore k _ _ | .listLen k | .listPopBack k | .listPopFront k | .listPushBack k _
  | .listPushFront k _ | .listRange k _ _ | .listSet k _ _ | .listTrim k _ _ => [k]
  | .listPopBackPushFront a b => [a, b]
  | .setAdd k _ | .setDelete k _ | .setExists k _ | .setItems k | .setLen k | .setPop k _ | .setRandom k _
  | .setScan k _ _ _ => [k]
  | .setDiff ks | .setInter ks | .setUnion ks => ks
  | .setDiffStore d ks | .setInterStore d ks | .setUnionStore d ks => d :: ks
  | .setMove a b _ => [a, b]
  | .hashDelete k _ | .hashExists k _ | .hashFields k | .hashGet k _ | .hashGetMany k _ | .hashIncr k _ _
  | .hashIncrFloat k _ _ | .hashItems k | .hashLen k | .hashScan k _ _ _ | .hashSet k _ _ | .hashSetMany k _
  | .hashSetNotExists k _ _ | .hashValues k => [k]
  | .zAdd k _ _ | .zAddMany k _ | .zCount k _ _ | .zDelete k _ | .zDeleteRank k _ _ | .zDeleteScore k _ _
  | .zGetRank k _ | .zGetRankRev k _ | .zGetScore k _ | .zIncr k _ _ | .zLen k | .zRangeRank k _ _ _
  | .zRangeScore k _ _ _ _ _ | .zScan k _ _ _ => [k]
  | .zInter ks _ | .zUnion ks _ => ks
  | .zInterStore d ks _ | .zUnionStore d ks _ => d :: ks

/-- the type an operation works on; `none` for the type-agnostic key operations -/
def opType : Op → Option Int
  | .strGet _ | .strGetMany _ | .strIncr .. | .strIncrFloat .. | .strSet .. | .strSetExpires ..
  | .strSetMany _ | .strSetWith .. => some TString
  | .keyCount _ | .keyDelete _ | .keyDeleteAll | .keyDeleteExpired _ | .keyExists _ | .keyExpire ..
  | .keyExpireAt .. | .keyGet _ | .keyKeys _ | .keyLen | .keyPersist _ | .keyRandom _ | .keyRename ..
  | .keyRenameNX .. | .keyScan .. => none
  | .listDelete .. | .listDeleteBack .. | .listDeleteFront .. | .listGet .. | .listInsertAfter ..
  | .listInsertBefore .. | .listLen _ | .listPopBack _ | .listPopBackPushFront .. | .listPopFront _
  | .listPushBack .. | .listPushFront .. | .listRange .. | .listSet .. | .listTrim .. => some TList
  | .setAdd .. | .setDelete .. | .setDiff _ | .setDiffStore .. | .setExists .. | .setInter _
  | .setInterStore .. | .setItems _ | .setLen _ | .setMove .. | .setPop .. | .setRandom .. | .setScan ..
  | .setUnion _ | .setUnionStore .. => some TSet
  | .hashDelete .. | .hashExists .. | .hashFields _ | .hashGet .. | .hashGetMany .. | .hashIncr ..
  | .hashIncrFloat .. | .hashItems _ | .hashLen _ | .hashScan .. | .hashSet .. | .hashSetMany ..
  | .hashSetNotExists .. | .hashValues _ => some THash
  | .zAdd .. | .zAddMany .. | .zCount .. | .zDelete .. | .zDeleteRank .. | .zDeleteScore .. | .zGetRank ..
  | .zGetRankRev .. | .zGetScore .. | .zIncr .. | .zInter .. | .zInterStore .. | .zLen _ | .zRangeRank ..
  | .zRangeScore .. | .zScan .. | .zUnion .. | .zUnionStore .. => some TZSet

/-- some key the operation names is held (live) by another type: the C06 situation -/
def crossType (op : Op) (now : Int) (pre : DB) : Bool :=
  match opType op with
  | none => false
  | some t => (opKeys op).any (fun k => match pre.liveKey k now with
    | some r => r.ty != t
    | none => false)

/-- some key the operation names carries an expiry (reached or not), or the operation itself is
about expiry: the C10 situations -/
def expiryInvolved (op : Op) (pre : DB) : Bool :=
  (match op with
   | .keyExpire .. | .keyExpireAt .. | .keyPersist _ | .keyDeleteExpired _ | .strSetExpires .. => true
   | .strSetWith _ _ o => o.ttl != 0 || o.atMs.isSome || o.keepTTL
   | .keyLen | .keyKeys _ | .keyRandom _ | .keyScan .. | .keyDeleteAll => pre.keys.any (fun r => r.etime.isSome)
   | _ => false) ||
  (opKeys op).any (fun k => match pre.findKey k with
    | some r => r.etime.isSome
    | none => false)

/-- C19, last clause: the type and expiry reported by the key lookup are what the operation
established according to the specification. `none` where the specification does not decide. -/
def typeEtimeTruthful (inTx : Bool) (op : Op) (now : Int) (pre post : DB) (res : Out) : Option Bool :=
  let r := step op now (abs now pre)
  if isSkip r.out then none
  else if inTx && isErr res then none
  else
    match op with
    | .keyDeleteExpired _ | .zInterStore .. | .zUnionStore .. | .keyScan .. => none
    | _ =>
      let proj (s : State) := s.map (fun e => (e.1, e.2.val.ty, e.2.etime))
      some (decide (proj (abs now post) = proj (purge now r.st)))

/-- a set store with an empty source list: succeeds without touching anything (nothing to do) -/
def emptySources : Op → Bool
  | .setDiffStore _ [] | .setInterStore _ [] | .setUnionStore _ [] => true
  | _ => false

/-- C19, last clause: "a key that is … fully replaced by a storing operation and created again
starts a new history". After a successful store the destination row is what a key created for the
first time by this call would be: version 1, modification time of the call — whatever the
destination was before. `none`: not a store, a failed one, an empty source list, or the D05
situation (the name is held by an expired-but-stored row, which the store reuses). -/
def storeHistory (op : Op) (now : Int) (pre post : DB) (res : Out) : Option Bool :=
  match storeDest op with
  | none => none
  | some d =>
    if isErr res || emptySources op || staleKey pre now d then none
    else some (post.keys.all (fun r' => r'.key != d || (r'.version == 1 && r'.mtime == now)))

/-- which parts of the final tables differ between two runs (model vs implementation) -/
def diffParts (a b : DB) : List String :=
  let ka := a.keys
  let kb := b.keys
  (if ka.map (fun r => (r.id, r.key, r.ty)) != kb.map (fun r => (r.id, r.key, r.ty)) then ["keys"] else []) ++
  (if ka.map (·.version) != kb.map (·.version) then ["version"] else []) ++
  (if ka.map (·.mtime) != kb.map (·.mtime) then ["mtime"] else []) ++
  (if ka.map (·.etime) != kb.map (·.etime) then ["etime"] else []) ++
  (if ka.map (·.len) != kb.map (·.len) then ["len"] else []) ++
  (if decide (a.strs = b.strs) && decide (a.lists = b.lists) && decide (a.sets = b.sets) &&
      decide (a.hashes = b.hashes) && decide (a.zsets = b.zsets) then [] else ["children"]) ++
  (if a.fk != b.fk then ["fk"] else [])

end Redka.Spec
