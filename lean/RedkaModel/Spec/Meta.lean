/-
  C12 (reads and refusals leave no trace) and C19 (key metadata tells the truth) as decidable
  judgements on one observed step of the implementation (raw tables before / after).
-/
import RedkaModel.Spec.Abs

namespace Redka.Spec

open Redka

/-- operations that can never write -/
def isRead : Op → Bool
  | .strGet _ | .strGetMany _ => true
  | .keyCount _ | .keyExists _ | .keyGet _ | .keyKeys _ | .keyLen | .keyRandom _ | .keyScan .. => true
  | .listGet .. | .listLen _ | .listRange .. => true
  | .setDiff _ | .setExists .. | .setInter _ | .setItems _ | .setLen _ | .setRandom .. | .setScan ..
  | .setUnion _ => true
  | .hashExists .. | .hashFields _ | .hashGet .. | .hashGetMany .. | .hashItems _ | .hashLen _
  | .hashScan .. | .hashValues _ => true
  | .zCount .. | .zGetRank .. | .zGetRankRev .. | .zGetScore .. | .zInter .. | .zLen _ | .zRangeRank ..
  | .zRangeScore .. | .zScan .. | .zUnion .. => true
  | _ => false

/-- "there was nothing to do" outcomes of writers: nothing removed, condition not met -/
def nothingToDo (op : Op) (res : Out) : Bool :=
  match op, res with
  | .keyDelete _, .ok (.int 0) => true
  | .keyDeleteExpired _, .ok (.int 0) => true
  | .listDelete .., .ok (.int 0) | .listDeleteBack .., .ok (.int 0) | .listDeleteFront .., .ok (.int 0) => true
  | .listTrim .., .ok (.int 0) => true
  | .setDelete .., .ok (.int 0) | .hashDelete .., .ok (.int 0) | .zDelete .., .ok (.int 0) => true
  | .zDeleteRank .., .ok (.int 0) | .zDeleteScore .., .ok (.int 0) => true
  | .hashSetNotExists .., .ok (.bool false) => true
  | .keyRenameNX .., .ok (.bool false) => true
  | .strSetWith .., .ok (.list [_, .bool false, .bool false]) => true
  | .setDiffStore _ [], _ | .setInterStore _ [], _ | .setUnionStore _ [], _ => true
  | .hashSetMany _ [], _ | .zAddMany _ [], _ | .strSetMany [], _ => true
  | _, .error .notFound => true
  | _, .error .pivotNotFound => true
  | _, _ => false

/-- Must this step leave the tables untouched? Reads always; refusals (any error) at `DB` level;
inside a caller-managed transaction only the nothing-to-do outcomes (C12's last sentence). -/
def traceless (inTx : Bool) (op : Op) (res : Out) : Bool :=
  isRead op || nothingToDo op res || (!inTx && isErr res)

/-- `some true`: left no trace; `some false`: C12 violated; `none`: not a traceless step -/
def noTrace (inTx : Bool) (op : Op) (pre post : DB) (res : Out) : Option Bool :=
  if traceless inTx op res then some (decide (pre = post)) else none

/-! ### C19 -/

/-- storing operations fully replace their destination: a new history starts -/
def storeDest : Op → Option Bytes
  | .setDiffStore d _ | .setInterStore d _ | .setUnionStore d _ => some d
  | .zInterStore d _ _ | .zUnionStore d _ _ => some d
  | _ => none

/-- judge the metadata of every key row after a step that was *not* traceless:
 * a row that survives with the same id never has its version or mtime go backwards;
 * if its abstract value or its expiry changed, the version strictly increased, and if the value
   changed the mtime is the time of the call;
 * a row that is new (new id or new name for that id aside from rename) has version ≥ 1 and the
   mtime of the call;
 * the destination of a storing operation starts a new history (only version ≥ 1 and mtime = now
   are required of it).
`now` is the canonical clock of the call. -/
def metaOK (op : Op) (now : Int) (pre post : DB) (res : Out) : Bool :=
  post.keys.all (fun r' =>
    let fresh := decide (r'.version ≥ 1) && (r'.mtime == now)
    if !isErr res && storeDest op == some r'.key then fresh
    else
      match pre.keys.find? (fun r => r.id == r'.id && r.key == r'.key) with
      | some r =>
        let v := absVal pre r
        let v' := absVal post r'
        let valChanged := !(decide (v = v'))
        let etChanged := !(decide (r.etime = r'.etime))
        decide (r'.version ≥ r.version) && decide (r'.mtime ≥ r.mtime) && (r.ty == r'.ty) &&
        (if valChanged || etChanged then decide (r'.version > r.version) else true) &&
        (if valChanged then r'.mtime == now else true)
      | none =>
        -- renamed (same id, new name) or created
        match pre.keys.find? (fun r => r.id == r'.id) with
        | some r => decide (r'.version > r.version) && (r'.mtime == now) && (r.ty == r'.ty)
        | none => fresh)

end Redka.Spec
