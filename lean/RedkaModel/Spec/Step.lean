/-
  What each API operation must do to the abstract keyspace, following the property statements
  (C01–C06, C10) and, where they are silent, the documented behaviour (DESIGN.md §10).
  `now` is only used to compute new expiry instants: an expired key is simply not in the state.
-/
import RedkaModel.Spec.State
import RedkaModel.Spec.Seq
import RedkaModel.Model.Op
import RedkaModel.Sql.Glob
import RedkaModel.Spec.Glob

namespace Redka.Spec

open Redka

structure SRes where
  out : Out
  st : State

def ok (v : Val) (s : State) : SRes := ⟨.ok v, s⟩
def er (e : Err) (s : State) : SRes := ⟨.error e, s⟩
/-- the specification does not decide this case (recorded in DESIGN.md §10) -/
def skip (s : State) : SRes := ⟨.error .outOfDomain, s⟩

def bytesList (l : List Bytes) : Val := .list (l.map .bytes)
def pairVal (p : Bytes × Bytes) : Val := .list [.bytes p.1, .bytes p.2]
def zItem (p : Bytes × Score) : Val := .list [.bytes p.1, .score p.2]

/-- what the key lookup must report: name, type and expiry (version and mtime are C19's business) -/
def keyVal (k : Bytes) (e : Entry) : Val :=
  .key { id := 0, key := k, ty := e.val.ty, version := 0, etime := e.etime, mtime := 0, len := none }

def inInt64 (i : Int) : Bool := decide (minInt64 ≤ i) && decide (i ≤ maxInt64)

/-! ### strings (C01) -/

def strGet (s : State) (k : Bytes) : SRes :=
  match get s k with
  | some ⟨.str b, _⟩ => ok (.bytes b) s
  | _ => er .notFound s

def strGetMany (s : State) (ks : List Bytes) : SRes :=
  let items := s.filterMap (fun p => match p.2.val with
    | .str b => if ks.contains p.1 then some (pairVal (p.1, b)) else none
    | _ => none)
  ok (.list items) s

/-- unconditional set with the given new expiry -/
def strPut (s : State) (k v : Bytes) (et : Option Int) : Option State :=
  match get s k with
  | some ⟨.str _, _⟩ => some (put s k ⟨.str v, et⟩)
  | some _ => none
  | none => some (put s k ⟨.str v, et⟩)

def strSet (s : State) (k v : Bytes) (et : Option Int) : SRes :=
  match strPut s k v et with
  | some s' => ok .nil s'
  | none => er .keyType s

def strIncr (s : State) (k : Bytes) (d : Int) : SRes :=
  match get s k with
  | some ⟨.str b, et⟩ =>
    (match valueInt b with
     | none => er .valueType s
     | some n => ok (.int (n + d)) (put s k ⟨.str (itoa (n + d)), et⟩))
  | some _ => er .keyType s
  | none => ok (.int d) (put s k ⟨.str (itoa d), none⟩)

/-- float increment: "reads the stored text as a number, fails without effect when it is not one,
and stores the canonical text of the sum"; decided where `valueFloat`/`formatFloatDec` decide -/
def strIncrFloat (s : State) (k : Bytes) (d : Dyadic) : SRes :=
  match get s k with
  | some ⟨.str b, et⟩ =>
    (match valueFloat b with
     | .invalid => er .valueType s
     | .unknown => skip s
     | .val x =>
       match formatFloatDec (f64add x d) with
       | none => skip s
       | some txt => ok (.score (.fin (f64add x d))) (put s k ⟨.str txt, et⟩))
  | some _ => er .keyType s
  | none =>
    -- a missing key counts as zero
    (match formatFloatDec (f64add .zero d) with
     | none => skip s
     | some txt => ok (.score (.fin (f64add .zero d))) (put s k ⟨.str txt, none⟩))

def strSetMany (s : State) (items : List (Bytes × Bytes)) : SRes :=
  if items.any (fun p => match get s p.1 with
      | some ⟨.str _, _⟩ => false
      | some _ => true
      | none => false) then er .keyType s
  else ok .nil (items.foldl (fun acc p => put acc p.1 ⟨.str p.2, none⟩) s)

def strSetWith (s : State) (k v : Bytes) (o : SetOpts) (now : Int) : SRes :=
  let cur := get s k
  let prev : Option Bytes := match cur with | some ⟨.str b, _⟩ => some b | _ => none
  let pv : Val := match prev with | some b => .bytes b | none => .nil
  let exists_ := prev.isSome
  if o.ifExists && !exists_ then ok (.list [pv, .bool false, .bool false]) s
  else if o.ifNotExists && exists_ then ok (.list [pv, .bool false, .bool false]) s
  else
    let oldEt : Option Int := match cur with | some e => e.etime | none => none
    let et : Option Int :=
      if o.keepTTL then oldEt
      else if o.ttl > 0 then some (now + o.ttl) else o.atMs
    match strPut s k v et with
    | none => er .keyType s
    | some s' => ok (.list [pv, .bool (!exists_), .bool exists_]) s'

/-! ### keys (C06, C10) -/

def keyCount (s : State) (ks : List Bytes) : SRes :=
  ok (.int (s.filter (fun p => ks.contains p.1)).length) s

def keyDelete (s : State) (ks : List Bytes) : SRes :=
  ok (.int (s.filter (fun p => ks.contains p.1)).length) (s.filter (fun p => !ks.contains p.1))

def keyExpireAt (s : State) (k : Bytes) (t : Int) : SRes :=
  match get s k with
  | none => er .notFound s
  | some e => ok .nil (put s k { e with etime := some t })

def keyPersist (s : State) (k : Bytes) : SRes :=
  match get s k with
  | none => er .notFound s
  | some e => ok .nil (put s k { e with etime := none })

def keyGet (s : State) (k : Bytes) : SRes :=
  match get s k with
  | none => er .notFound s
  | some e => ok (keyVal k e) s

def keyRename (s : State) (k nk : Bytes) : SRes :=
  match get s k with
  | none => er .notFound s
  | some e =>
    if k == nk then ok .nil s
    else match get s nk with
      | some e' => if e'.val.ty != e.val.ty then er .keyType s else ok .nil (put (del s k) nk e)
      | none => ok .nil (put (del s k) nk e)

def keyRenameNX (s : State) (k nk : Bytes) : SRes :=
  match get s k with
  | none => er .notFound s
  | some e =>
    if k == nk then ok (.bool false) s
    else match get s nk with
      | some _ => ok (.bool false) s
      | none => ok (.bool true) (put (del s k) nk e)

/-! ### lists (C02) -/

def listPush (s : State) (k e : Bytes) (front : Bool) : SRes :=
  match get s k with
  | some ⟨.list l, et⟩ =>
    let l' := if front then e :: l else l ++ [e]
    ok (.int l'.length) (put s k ⟨.list l', et⟩)
  | some _ => er .keyType s
  | none => ok (.int 1) (put s k ⟨.list [e], none⟩)

def listPop (s : State) (k : Bytes) (front : Bool) : SRes :=
  match get s k with
  | some ⟨.list l, et⟩ =>
    if front then
      (match l with
       | [] => er .notFound s
       | x :: xs => ok (.bytes x) (put s k ⟨.list xs, et⟩))
    else
      (match l.getLast? with
       | none => er .notFound s
       | some x => ok (.bytes x) (put s k ⟨.list l.dropLast, et⟩))
  | _ => er .notFound s

def listPopBackPushFront (s : State) (src dst : Bytes) : SRes :=
  match get s src with
  | some ⟨.list l, _⟩ =>
    (match l.getLast? with
     | none => er .notFound s
     | some x =>
       -- the destination must be able to take it, or nothing happens at all
       match get s dst with
       | some ⟨.list _, _⟩ | none =>
         let r := listPop s src false
         let p := listPush r.st dst x true
         ⟨.ok (.bytes x), p.st⟩
       | some _ => er .keyType s)
  | _ => er .notFound s

def listDeleteAll (s : State) (k e : Bytes) : SRes :=
  match get s k with
  | some ⟨.list l, et⟩ =>
    let l' := l.filter (fun x => !(x == e))
    ok (.int ((l.length : Int) - l'.length)) (if l'.length == l.length then s else put s k ⟨.list l', et⟩)
  | _ => ok (.int 0) s

def listDeleteN (s : State) (k e : Bytes) (n : Int) (back : Bool) : SRes :=
  if n ≤ 0 then ok (.int 0) s
  else match get s k with
    | some ⟨.list l, et⟩ =>
      let l' := if back then removeLastN e n.toNat l else removeFirstN e n.toNat l
      ok (.int ((l.length : Int) - l'.length)) (if l'.length == l.length then s else put s k ⟨.list l', et⟩)
    | _ => ok (.int 0) s

def listGet (s : State) (k : Bytes) (i : Int) : SRes :=
  match lindex (listAt s k) i with
  | some x => ok (.bytes x) s
  | none => er .notFound s

def listSet (s : State) (k : Bytes) (i : Int) (e : Bytes) : SRes :=
  match get s k with
  | some ⟨.list l, et⟩ =>
    (match lset l i e with
     | some l' => ok .nil (put s k ⟨.list l', et⟩)
     | none => er .notFound s)
  | _ => er .notFound s

def listInsert (s : State) (k p e : Bytes) (after : Bool) : SRes :=
  match get s k with
  | some ⟨.list l, et⟩ =>
    (match insertAt p e after l with
     | some l' => ok (.int l'.length) (put s k ⟨.list l', et⟩)
     | none => er .pivotNotFound s)
  | _ => er .notFound s

def listLen (s : State) (k : Bytes) : SRes := ok (.int (listAt s k).length) s

def listRange (s : State) (k : Bytes) (a b : Int) : SRes :=
  ok (bytesList (lrange (listAt s k) a b)) s

def listTrim (s : State) (k : Bytes) (a b : Int) : SRes :=
  match get s k with
  | some ⟨.list l, et⟩ =>
    let l' := ltrim l a b
    ok (.int ((l.length : Int) - l'.length)) (if l'.length == l.length then s else put s k ⟨.list l', et⟩)
  | _ => ok (.int 0) s

/-! ### sets (C03) -/

def setAdd (s : State) (k : Bytes) (es : List Bytes) : SRes :=
  match get s k with
  | some ⟨.set m, et⟩ =>
    let m' := sunion m es
    ok (.int ((m'.length : Int) - m.length)) (put s k ⟨.set m', et⟩)
  | some _ => er .keyType s
  | none =>
    let m' := sfromList es
    ok (.int m'.length) (put s k ⟨.set m', none⟩)

def setDelete (s : State) (k : Bytes) (es : List Bytes) : SRes :=
  match get s k with
  | some ⟨.set m, et⟩ =>
    let m' := sdiff m es
    ok (.int ((m.length : Int) - m'.length)) (if m'.length == m.length then s else put s k ⟨.set m', et⟩)
  | _ => ok (.int 0) s

def setDiffOf (s : State) (ks : List Bytes) : List Bytes :=
  match ks with
  | [] => []
  | k :: rest => rest.foldl (fun acc x => sdiff acc (setAt s x)) (setAt s k)

def setInterOf (s : State) (ks : List Bytes) : List Bytes :=
  match ks with
  | [] => []
  | k :: rest => rest.foldl (fun acc x => sinter acc (setAt s x)) (setAt s k)

def setUnionOf (s : State) (ks : List Bytes) : List Bytes :=
  ks.foldl (fun acc x => sunion acc (setAt s x)) []

/-- the storing variants: the destination ends up holding exactly the result computed on the
state before the call; an existing destination of another type is refused -/
def setStore (s : State) (d : Bytes) (ks : List Bytes) (result : List Bytes) : SRes :=
  if ks.isEmpty then ok (.int 0) s
  else match get s d with
    | some ⟨.set _, et⟩ => ok (.int result.length) (put s d ⟨.set result, et⟩)
    | some _ => er .keyType s
    | none => ok (.int result.length) (put s d ⟨.set result, none⟩)

def setMove (s : State) (src dst e : Bytes) : SRes :=
  if !smem (setAt s src) e then er .notFound s
  else match get s dst with
    | some ⟨.set _, _⟩ | none =>
      let r := setDelete s src [e]
      let a := setAdd r.st dst [e]
      ⟨.ok .nil, a.st⟩
    | some _ => er .keyType s

def setPop (s : State) (k : Bytes) (oracle : Option Bytes) : SRes :=
  let m := setAt s k
  match oracle with
  | none => if m.isEmpty then er .notFound s else skip s
  | some e => if smem m e then ⟨.ok (.bytes e), (setDelete s k [e]).st⟩ else skip s

def setRandom (s : State) (k : Bytes) (oracle : Option Bytes) : SRes :=
  let m := setAt s k
  match oracle with
  | none => if m.isEmpty then er .notFound s else skip s
  | some e => if smem m e then ok (.bytes e) s else skip s

/-! ### hashes (C04) -/

def hashSet (s : State) (k f v : Bytes) : SRes :=
  match get s k with
  | some ⟨.hash h, et⟩ => ok (.bool (aget h f).isNone) (put s k ⟨.hash (aput h f v), et⟩)
  | some _ => er .keyType s
  | none => ok (.bool true) (put s k ⟨.hash [(f, v)], none⟩)

def hashSetMany (s : State) (k : Bytes) (items : List (Bytes × Bytes)) : SRes :=
  if items.isEmpty then ok (.int 0) s
  else match get s k with
    | some ⟨.hash h, et⟩ =>
      let created := (items.filter (fun p => (aget h p.1).isNone)).length
      ok (.int created) (put s k ⟨.hash (items.foldl (fun acc p => aput acc p.1 p.2) h), et⟩)
    | some _ => er .keyType s
    | none => ok (.int items.length) (put s k ⟨.hash (items.foldl (fun acc p => aput acc p.1 p.2) []), none⟩)

def hashSetNX (s : State) (k f v : Bytes) : SRes :=
  match get s k with
  | some ⟨.hash h, et⟩ =>
    if (aget h f).isSome then ok (.bool false) s else ok (.bool true) (put s k ⟨.hash (aput h f v), et⟩)
  | some _ => er .keyType s
  | none => ok (.bool true) (put s k ⟨.hash [(f, v)], none⟩)

def hashDelete (s : State) (k : Bytes) (fs : List Bytes) : SRes :=
  match get s k with
  | some ⟨.hash h, et⟩ =>
    let h' := h.filter (fun p => !fs.contains p.1)
    ok (.int ((h.length : Int) - h'.length)) (if h'.length == h.length then s else put s k ⟨.hash h', et⟩)
  | _ => ok (.int 0) s

def hashGet (s : State) (k f : Bytes) : SRes :=
  match aget (hashAt s k) f with
  | some v => ok (.bytes v) s
  | none => er .notFound s

def hashIncr (s : State) (k f : Bytes) (d : Int) : SRes :=
  match get s k with
  | some ⟨.hash h, et⟩ =>
    (match valueInt ((aget h f).getD []) with
     | none => er .valueType s
     | some n => ok (.int (n + d)) (put s k ⟨.hash (aput h f (itoa (n + d))), et⟩))
  | some _ => er .keyType s
  | none => ok (.int d) (put s k ⟨.hash [(f, itoa d)], none⟩)

def hashIncrFloat (s : State) (k f : Bytes) (d : Dyadic) : SRes :=
  match get s k with
  | some ⟨.hash h, et⟩ =>
    (match valueFloat ((aget h f).getD []) with
     | .invalid => er .valueType s
     | .unknown => skip s
     | .val x =>
       match formatFloatDec (f64add x d) with
       | none => skip s
       | some txt => ok (.score (.fin (f64add x d))) (put s k ⟨.hash (aput h f txt), et⟩))
  | some _ => er .keyType s
  | none =>
    -- a missing key (like a missing field) counts as zero
    (match formatFloatDec (f64add .zero d) with
     | none => skip s
     | some txt => ok (.score (.fin (f64add .zero d))) (put s k ⟨.hash [(f, txt)], none⟩))

/-! ### sorted sets (C05) -/

def between (lo hi x : Score) : Bool := Score.le lo x && Score.le x hi

def zAdd (s : State) (k e : Bytes) (sc : Score) : SRes :=
  match get s k with
  | some ⟨.zset z, et⟩ => ok (.bool (aget z e).isNone) (put s k ⟨.zset (aput z e sc), et⟩)
  | some _ => er .keyType s
  | none => ok (.bool true) (put s k ⟨.zset [(e, sc)], none⟩)

def zAddMany (s : State) (k : Bytes) (items : List (Bytes × Score)) : SRes :=
  if items.isEmpty then ok (.int 0) s
  else match get s k with
    | some ⟨.zset z, et⟩ =>
      let created := (items.filter (fun p => (aget z p.1).isNone)).length
      ok (.int created) (put s k ⟨.zset (items.foldl (fun acc p => aput acc p.1 p.2) z), et⟩)
    | some _ => er .keyType s
    | none => ok (.int items.length) (put s k ⟨.zset (items.foldl (fun acc p => aput acc p.1 p.2) []), none⟩)

/-- remove the listed members of `k`; reports how many were removed -/
def zRemove (s : State) (k : Bytes) (victims : List Bytes) : SRes :=
  match get s k with
  | some ⟨.zset z, et⟩ =>
    let z' := z.filter (fun p => !victims.contains p.1)
    ok (.int ((z.length : Int) - z'.length)) (if z'.length == z.length then s else put s k ⟨.zset z', et⟩)
  | _ => ok (.int 0) s

def zIncr (s : State) (k e : Bytes) (d : Score) : SRes :=
  match get s k with
  | some ⟨.zset z, et⟩ =>
    (match aget z e with
     | none => ok (.score d) (put s k ⟨.zset (aput z e d), et⟩)
     | some old =>
       match Score.add old d with
       | none => skip s                         -- inf + -inf: not a number
       | some (.fin x) => let r := Score.fin (round53 x); ok (.score r) (put s k ⟨.zset (aput z e r), et⟩)
       | some r => ok (.score r) (put s k ⟨.zset (aput z e r), et⟩))
  | some _ => er .keyType s
  | none => ok (.score d) (put s k ⟨.zset [(e, d)], none⟩)

def indexOf? {α} (p : α → Bool) : List α → Option Nat
  | [] => none
  | x :: xs => if p x then some 0 else (indexOf? p xs).map (· + 1)

def zGetRank (s : State) (k e : Bytes) (rev : Bool) : SRes :=
  let l := zsorted (zsetAt s k)
  let l := if rev then l.reverse else l
  match indexOf? (fun p : Bytes × Score => p.1 == e) l, aget (zsetAt s k) e with
  | some i, some sc => ok (.list [.int i, .score sc]) s
  | _, _ => er .notFound s

def aggOne (agg : Agg) (a b : Score) : Option Score :=
  match agg with
  | .sum => (match Score.add a b with
      | some (.fin x) => some (.fin (round53 x))
      | r => r)
  | .min => some (Score.min a b)
  | .max => some (Score.max a b)

/-- union / intersection of the sorted sets named by `ks` with aggregated scores;
`none` when an aggregate is not a number -/
def zCombine (s : State) (ks : List Bytes) (agg : Agg) (inter : Bool) : Option (List (Bytes × Score)) :=
  let zs := ks.map (zsetAt s)
  let members := sfromList (zs.flatMap (fun z => z.map (·.1)))
  let members := if inter then members.filter (fun m => zs.all (fun z => (aget z m).isSome)) else members
  members.foldr (fun m acc =>
    match acc with
    | none => none
    | some l =>
      let scores := zs.filterMap (fun z => aget z m)
      match scores with
      | [] => some l
      | x :: xs =>
        match xs.foldl (fun a y => a.bind (fun a => aggOne agg a y)) (some x) with
        | none => none
        | some sc => some ((m, sc) :: l)) (some [])

def zStore (s : State) (d : Bytes) (result : List (Bytes × Score)) : SRes :=
  match get s d with
  | some ⟨.zset _, et⟩ => ok (.int result.length) (put s d ⟨.zset result, et⟩)
  | some _ => er .keyType s
  | none => ok (.int result.length) (put s d ⟨.zset result, none⟩)

/-! ### the step function -/

def step (op : Op) (now : Int) (s : State) : SRes :=
  match op with
  | .strGet k => strGet s k
  | .strGetMany ks => strGetMany s ks
  | .strIncr k d => strIncr s k d
  | .strIncrFloat k d => strIncrFloat s k d
  | .strSet k v => strSet s k v none
  | .strSetExpires k v ttl => strSet s k v (if ttl > 0 then some (now + ttl) else none)
  | .strSetMany items => strSetMany s items
  | .strSetWith k v o => strSetWith s k v o now
  | .keyCount ks => keyCount s ks
  | .keyDelete ks => keyDelete s ks
  | .keyDeleteAll => ok .nil []
  | .keyDeleteExpired _ => skip s                -- storage-level count; `check` handles the state
  | .keyExists k => ok (.bool (get s k).isSome) s
  | .keyExpire k ttl => keyExpireAt s k (now + ttl)
  | .keyExpireAt k t => keyExpireAt s k t
  | .keyGet k => keyGet s k
  | .keyKeys p => ok (.list ((s.filter (fun e => globSpec p e.1)).map (fun e => keyVal e.1 e.2))) s
  | .keyLen => ok (.int s.length) s
  | .keyPersist k => keyPersist s k
  | .keyRandom o =>
    (match o with
     | none => if s.isEmpty then er .notFound s else skip s
     | some k => match get s k with
       | some e => ok (keyVal k e) s
       | none => skip s)
  | .keyRename k nk => keyRename s k nk
  | .keyRenameNX k nk => keyRenameNX s k nk
  | .keyScan .. => skip s                        -- C16 has its own oracle
  | .listDelete k e => listDeleteAll s k e
  | .listDeleteBack k e n => listDeleteN s k e n true
  | .listDeleteFront k e n => listDeleteN s k e n false
  | .listGet k i => listGet s k i
  | .listInsertAfter k p e => listInsert s k p e true
  | .listInsertBefore k p e => listInsert s k p e false
  | .listLen k => listLen s k
  | .listPopBack k => listPop s k false
  | .listPopBackPushFront a b => listPopBackPushFront s a b
  | .listPopFront k => listPop s k true
  | .listPushBack k e => listPush s k e false
  | .listPushFront k e => listPush s k e true
  | .listRange k a b => listRange s k a b
  | .listSet k i e => listSet s k i e
  | .listTrim k a b => listTrim s k a b
  | .setAdd k es => setAdd s k es
  | .setDelete k es => setDelete s k es
  | .setDiff ks => ok (bytesList (setDiffOf s ks)) s
  | .setDiffStore d ks => setStore s d ks (setDiffOf s ks)
  | .setExists k e => ok (.bool (smem (setAt s k) e)) s
  | .setInter ks => ok (bytesList (setInterOf s ks)) s
  | .setInterStore d ks => setStore s d ks (setInterOf s ks)
  | .setItems k => ok (bytesList (setAt s k)) s
  | .setLen k => ok (.int (setAt s k).length) s
  | .setMove a b e => setMove s a b e
  | .setPop k o => setPop s k o
  | .setRandom k o => setRandom s k o
  | .setScan .. => skip s
  | .setUnion ks => ok (bytesList (setUnionOf s ks)) s
  | .setUnionStore d ks => setStore s d ks (setUnionOf s ks)
  | .hashDelete k fs => hashDelete s k fs
  | .hashExists k f => ok (.bool (aget (hashAt s k) f).isSome) s
  | .hashFields k => ok (bytesList ((hashAt s k).map (·.1))) s
  | .hashGet k f => hashGet s k f
  | .hashGetMany k fs => ok (.list (((hashAt s k).filter (fun p => fs.contains p.1)).map pairVal)) s
  | .hashIncr k f d => hashIncr s k f d
  | .hashIncrFloat k f d => hashIncrFloat s k f d
  | .hashItems k => ok (.list ((hashAt s k).map pairVal)) s
  | .hashLen k => ok (.int (hashAt s k).length) s
  | .hashScan .. => skip s
  | .hashSet k f v => hashSet s k f v
  | .hashSetMany k items => hashSetMany s k items
  | .hashSetNotExists k f v => hashSetNX s k f v
  | .hashValues k => ok (bytesList (sortBy bytesLt ((hashAt s k).map (·.2)))) s
  | .zAdd k e sc => zAdd s k e sc
  | .zAddMany k items => zAddMany s k items
  | .zCount k lo hi => ok (.int ((zsetAt s k).filter (fun p => between lo hi p.2)).length) s
  | .zDelete k es => zRemove s k es
  | .zDeleteRank k a b => zRemove s k ((rankSlice (zsorted (zsetAt s k)) a b).map (·.1))
  | .zDeleteScore k lo hi => zRemove s k (((zsetAt s k).filter (fun p => between lo hi p.2)).map (·.1))
  | .zGetRank k e => zGetRank s k e false
  | .zGetRankRev k e => zGetRank s k e true
  | .zGetScore k e =>
    (match aget (zsetAt s k) e with
     | some sc => ok (.score sc) s
     | none => er .notFound s)
  | .zIncr k e d => zIncr s k e d
  | .zInter ks agg =>
    (match zCombine s ks agg true with
     | some r => ok (.list ((zsorted r).map zItem)) s
     | none => skip s)
  | .zInterStore d ks agg =>
    (match zCombine s ks agg true with
     | some r => zStore s d r
     | none => skip s)
  | .zLen k => ok (.int (zsetAt s k).length) s
  | .zRangeRank k a b desc =>
    let l := zsorted (zsetAt s k)
    ok (.list ((rankSlice (if desc then l.reverse else l) a b).map zItem)) s
  | .zRangeScore k lo hi desc off cnt =>
    let l := (zsorted (zsetAt s k)).filter (fun p => between lo hi p.2)
    ok (.list ((offsetCount (if desc then l.reverse else l) off cnt).map zItem)) s
  | .zScan .. => skip s
  | .zUnion ks agg =>
    (match zCombine s ks agg false with
     | some r => ok (.list ((zsorted r).map zItem)) s
     | none => skip s)
  | .zUnionStore d ks agg =>
    (match zCombine s ks agg false with
     | some r => zStore s d r
     | none => skip s)

end Redka.Spec
