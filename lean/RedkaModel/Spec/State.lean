/-
  The abstract keyspace the properties talk about: a finite map from key to a typed value with an
  optional expiry. Canonical representation (strictly sorted association lists) so that equality
  of abstract states is plain `=`.
-/
import RedkaModel.Basic

namespace Redka.Spec

open Redka

inductive SVal where
  | str (b : Bytes)
  | list (l : List Bytes)
  | set (s : List Bytes)                   -- strictly increasing (bytes order)
  | hash (h : List (Bytes × Bytes))        -- strictly increasing by field
  | zset (z : List (Bytes × Score))        -- strictly increasing by member
deriving DecidableEq

structure Entry where
  val : SVal
  etime : Option Int
deriving DecidableEq

/-- strictly increasing by key -/
abbrev State := List (Bytes × Entry)

def SVal.ty : SVal → Int
  | .str _ => 1 | .list _ => 2 | .set _ => 3 | .hash _ => 4 | .zset _ => 5

/-! ### sorted association lists -/

def aget {β} (m : List (Bytes × β)) (k : Bytes) : Option β :=
  (m.find? (fun p => p.1 == k)).map (·.2)

def aput {β} (m : List (Bytes × β)) (k : Bytes) (v : β) : List (Bytes × β) :=
  match m with
  | [] => [(k, v)]
  | (k', v') :: rest =>
    if k == k' then (k, v) :: rest
    else if bytesLt k k' then (k, v) :: (k', v') :: rest
    else (k', v') :: aput rest k v

def adel {β} (m : List (Bytes × β)) (k : Bytes) : List (Bytes × β) :=
  m.filter (fun p => !(p.1 == k))

/-! ### sorted sets of byte strings -/

def sinsert (s : List Bytes) (x : Bytes) : List Bytes :=
  match s with
  | [] => [x]
  | y :: ys => if x == y then y :: ys else if bytesLt x y then x :: y :: ys else y :: sinsert ys x

def sfromList (l : List Bytes) : List Bytes := l.foldl sinsert []

def smem (s : List Bytes) (x : Bytes) : Bool := s.contains x

def sunion (a b : List Bytes) : List Bytes := b.foldl sinsert a
def sinter (a b : List Bytes) : List Bytes := a.filter (fun x => b.contains x)
def sdiff (a b : List Bytes) : List Bytes := a.filter (fun x => !b.contains x)

/-! ### keyspace access -/

def get (s : State) (k : Bytes) : Option Entry := aget s k
def put (s : State) (k : Bytes) (e : Entry) : State := aput s k e
def del (s : State) (k : Bytes) : State := adel s k

/-- the set stored at `k`; a missing key or a key of another type reads as the empty set -/
def setAt (s : State) (k : Bytes) : List Bytes :=
  match get s k with
  | some ⟨.set m, _⟩ => m
  | _ => []

def zsetAt (s : State) (k : Bytes) : List (Bytes × Score) :=
  match get s k with
  | some ⟨.zset m, _⟩ => m
  | _ => []

def listAt (s : State) (k : Bytes) : List Bytes :=
  match get s k with
  | some ⟨.list m, _⟩ => m
  | _ => []

def hashAt (s : State) (k : Bytes) : List (Bytes × Bytes) :=
  match get s k with
  | some ⟨.hash m, _⟩ => m
  | _ => []

/-- order of sorted-set members: by score, then by member bytes -/
def zLt (a b : Bytes × Score) : Bool :=
  Score.lt a.2 b.2 || (a.2 == b.2 && bytesLt a.1 b.1)

/-- the members of a sorted set in rank order -/
def zsorted (z : List (Bytes × Score)) : List (Bytes × Score) := sortBy zLt z

end Redka.Spec
