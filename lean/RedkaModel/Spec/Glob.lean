/-
  Reference semantics of glob patterns (property C18), on bytes, independent of SQLite:

  * `*` matches any run of bytes, including none;
  * `?` matches exactly one byte;
  * `[...]` matches one byte that is listed or lies in a range `a-z`;
    a class whose first character is `^` or `!` matches any byte that is NOT listed;
    a `]` directly after `[` (or after the negation mark) is a listed byte, not the end;
  * every other byte matches only itself (case-sensitively).

  The property fixes no meaning for a `[` that is never closed and for a reversed range such as
  `[z-a]`. Here an unclosed `[` makes the pattern match nothing and a reversed range contains
  nothing, and both are excluded by `WellFormed`, under which all agreement theorems are stated.

  Core Lean only: this file is linked into the driver executable. Everything is structurally
  recursive, so closed instances can be checked by `decide`.
-/
import RedkaModel.Basic

namespace Redka.Spec

/-! ### the bytes with a meaning -/

abbrev cStar  : UInt8 := 42   -- `*`
abbrev cQuest : UInt8 := 63   -- `?`
abbrev cOpen  : UInt8 := 91   -- `[`
abbrev cClose : UInt8 := 93   -- `]`
abbrev cCaret : UInt8 := 94   -- `^`
abbrev cBang  : UInt8 := 33   -- `!`
abbrev cDash  : UInt8 := 45   -- `-`

/-! ### patterns as lists of elements -/

/-- a member of a bracket class: one listed byte or an inclusive range -/
inductive Member where
  | one (c : UInt8)
  | range (lo hi : UInt8)
deriving DecidableEq, Repr

def Member.has (c : UInt8) : Member → Bool
  | .one x => c == x
  | .range lo hi => decide (lo ≤ c) && decide (c ≤ hi)

inductive Elem where
  | star                                              -- `*`
  | any                                               -- `?`
  | lit (c : UInt8)                                   -- any other byte
  /-- `[...]`; `negMark` is the leading `^` or `!` of a negated class -/
  | cls (negMark : Option UInt8) (ms : List Member)
deriving DecidableEq, Repr

/-- The members of a class, read up to the closing `]`, and the pattern text after it.
`a-z` is a range unless the `-` is the last byte of the class; the `z` that ends a range does
not begin another (`a-c-e` lists `a-c`, `-` and `e`). `none`: the class is never closed. -/
def members : Bytes → Option (List Member × Bytes)
  | [] => none
  | c :: p =>
    if c = cClose then some ([], p)
    else
      let single := (members p).map fun (ms, rest) => (.one c :: ms, rest)
      match p with
      | d :: hi :: p' =>
        if d = cDash ∧ hi ≠ cClose then (members p').map fun (ms, rest) => (.range c hi :: ms, rest)
        else single
      | _ => single

/-- A whole class, given the pattern text after its `[`: an optional negation mark, an optional
`]` that counts as a member, then the members. -/
def readClass (p : Bytes) : Option (Elem × Bytes) :=
  let (mark, p) : Option UInt8 × Bytes := match p with
    | c :: r => if c = cCaret ∨ c = cBang then (some c, r) else (none, p)
    | [] => (none, [])
  let (lead, p) : List Member × Bytes := match p with
    | c :: r => if c = cClose then ([.one cClose], r) else ([], p)
    | [] => ([], [])
  (members p).map fun (ms, rest) => (.cls mark (lead ++ ms), rest)

/-- The elements of a pattern; `none` if some class is never closed.
`skip` is the number of leading bytes that belong to a class that has already been read. -/
def lex : Bytes → (skip : Nat) → Option (List Elem)
  | [], _ => some []
  | _ :: p, skip + 1 => lex p skip
  | c :: p, 0 =>
    if c = cStar then (lex p 0).map (.star :: ·)
    else if c = cQuest then (lex p 0).map (.any :: ·)
    else if c = cOpen then
      match readClass p with
      | none => none
      | some (cl, rest) => (lex p (p.length - rest.length)).map (cl :: ·)
    else (lex p 0).map (.lit c :: ·)

/-! ### matching -/

/-- `s` and everything that is left of it after removing a run of bytes from its front -/
def suffixes : Bytes → List Bytes
  | [] => [[]]
  | c :: s => (c :: s) :: suffixes s

def matchElems : List Elem → Bytes → Bool
  | [], s => s.isEmpty
  | .star :: es, s => (suffixes s).any (matchElems es)
  | .any :: es, _ :: s => matchElems es s
  | .lit x :: es, c :: s => c == x && matchElems es s
  | .cls mark ms :: es, c :: s => (ms.any (·.has c) != mark.isSome) && matchElems es s
  | _ :: _, [] => false

/-- does `name` match the glob `pattern`? -/
def globSpec (pattern name : Bytes) : Bool :=
  match lex pattern 0 with
  | none => false
  | some es => matchElems es name

/-! ### the patterns and names the agreement theorems speak about -/

def Member.ordered : Member → Bool
  | .one _ => true
  | .range lo hi => decide (lo ≤ hi)

def Elem.ordered : Elem → Bool
  | .cls _ ms => ms.all Member.ordered
  | _ => true

/-- every `[` that opens a class is closed, and no range is reversed -/
def wellFormed (pattern : Bytes) : Bool :=
  match lex pattern 0 with
  | none => false
  | some es => es.all Elem.ordered

abbrev WellFormed (pattern : Bytes) : Prop := wellFormed pattern = true

def Elem.bangNegated : Elem → Bool
  | .cls mark _ => mark == some cBang
  | _ => false

/-- Classifier of the known deviation D16: no bracket class of the pattern starts with `!`. -/
def noBangClass (pattern : Bytes) : Bool :=
  match lex pattern 0 with
  | none => true
  | some es => es.all (fun e => !e.bangNegated)

abbrev NoBangClass (pattern : Bytes) : Prop := noBangClass pattern = true

/-- 7-bit text without NUL -/
def Ascii (b : Bytes) : Prop := ∀ c ∈ b, 0 < c.toNat ∧ c.toNat < 128

instance (b : Bytes) : Decidable (Ascii b) := inferInstanceAs (Decidable (∀ c ∈ b, _))

/-- no byte is `*`, `?` or `[` -/
def NoMeta (b : Bytes) : Prop := ∀ c ∈ b, c ≠ cStar ∧ c ≠ cQuest ∧ c ≠ cOpen

instance (b : Bytes) : Decidable (NoMeta b) := inferInstanceAs (Decidable (∀ c ∈ b, _))

/-- the bytes of a string literal of 7-bit characters, for writing examples -/
def str (s : String) : Bytes := s.toList.map Char.toUInt8

end Redka.Spec
