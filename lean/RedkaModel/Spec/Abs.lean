/-
  The abstraction map from the six tables to the abstract keyspace, the relational check of one
  observed step against the specification, and the catalogue of known deviation classes.
-/
import RedkaModel.Spec.Step
import RedkaModel.Model.Run

namespace Redka.Spec

open Redka

/-- the typed value of one key row, read from the child table of its type -/
def absVal (db : DB) (r : KeyRow) : Option SVal :=
  if r.ty == TString then (db.strs.find? (fun s => s.kid == r.id)).map (fun s => .str s.value)
  else if r.ty == TList then some (.list ((Model.listRows db r.id).map (·.elem)))
  else if r.ty == TSet then some (.set ((Model.setRows db r.id).map (·.elem)))
  else if r.ty == THash then some (.hash ((Model.hashRows db r.id).map (fun h => (h.field, h.value))))
  else if r.ty == TZSet then
    some (.zset ((sortBy (fun (a b : ZRow) => bytesLt a.elem b.elem)
      (db.zsets.filter (fun z => z.kid == r.id))).map (fun z => (z.elem, z.score))))
  else none

/-- only keys whose expiry has not been reached exist (C10) -/
def abs (now : Int) (db : DB) : State :=
  let live := db.keys.filter (fun r => r.live now)
  let entries := live.filterMap (fun r => (absVal db r).map (fun v => (r.key, (⟨v, r.etime⟩ : Entry))))
  sortBy (fun a b => bytesLt a.1 b.1) entries

/-- forget what the abstract keyspace does not track in key rows (id, version, mtime) -/
partial def projVal : Val → Val
  | .key r => .key { r with id := 0, version := 0, mtime := 0, len := none }
  | .list l => .list (l.map projVal)
  | v => v

def outEq : Out → Out → Bool
  | .ok a, .ok b => projVal a == b
  | .error a, .error b => a == b
  | _, _ => false

def isSkip : Out → Bool
  | .error .outOfDomain => true
  | _ => false

def isErr : Out → Bool
  | .error _ => true
  | _ => false

partial def memberSet : Val → List Bytes
  | .list l => sfromList (l.filterMap (fun v => match v with
      | .list (.bytes m :: _) => some m
      | _ => none))
  | _ => []

/-- `nodupB` for key lists -/
def distinct (ks : List Bytes) : Bool :=
  match ks with
  | [] => true
  | k :: rest => !rest.contains k && distinct rest

/-- drop the entries whose (possibly just assigned) expiry has been reached -/
def purge (now : Int) (s : State) : State := s.filter (fun p => liveAt now p.2.etime)

/-- key rows of a listing, ordered by name (the API gives no order) -/
def sortKeyVals (v : Val) : Val :=
  match v with
  | .list l => .list (sortBy (fun a b => match a, b with
      | .key x, .key y => bytesLt x.key y.key
      | _, _ => false) l)
  | v => v

/-- a `sum` over three or more keys: float addition is not associative and the property fixes no order of
summation, so only the member sets are compared (the class `SumOrder` of the C05 refinement theorem) -/
def sumOrder (agg : Agg) (ks : List Bytes) : Bool := decide (agg = .sum) && decide (ks.length ≥ 3)

/-- Judge one observed step: `some true` = conforms to the specification, `some false` = does
not, `none` = the specification does not decide this case.
`inTx`: the operation ran inside a caller-managed transaction that went on to commit; an
operation that reports an *error* there may leave partial effects (DESIGN §10.11), so only its
result is judged. -/
def check (inTx : Bool) (op : Op) (now : Int) (pre post : DB) (res : Out) : Option Bool :=
  let s := abs now pre
  let s' := abs now post
  let r := step op now s
  let r : SRes := { r with st := purge now r.st }
  match op with
  | .keyKeys p =>
    -- C18 fixes no meaning for unterminated or reversed classes, nor for non-ASCII bytes
    if !(wellFormed p && decide (Ascii p) && s.all (fun e => decide (Ascii e.1))) then none else
    (match res, r.out with
     | .ok v, .ok w => some (sortKeyVals (projVal v) == w && decide (s' = s))
     | _, _ => some false)
  | .keyDeleteAll =>
    -- documented: "Should not be run inside a database transaction" (VACUUM fails there)
    if inTx then none else some (outEq res r.out && decide (s' = r.st))
  | .keyRandom none =>
    -- the implementation reported "no key" (or failed): right exactly when no key is live
    some (outEq res (.error .notFound) && s.isEmpty && decide (s' = s))
  | .keyDeleteExpired _ =>
    -- the cleaner may only remove keys that no longer exist: the keyspace is unchanged
    some (decide (s' = s) && !isErr res)
  | .zInter ks agg | .zUnion ks agg =>
    if isSkip r.out then none
    else if distinct ks && !sumOrder agg ks then some (outEq res r.out && decide (s' = r.st))
    else
      -- repeated keys, or a sum over three or more keys: members only (C05 fixes scores for lists of
      -- distinct keys; the order of a float summation is not fixed)
      (match res, r.out with
       | .ok v, .ok w => some (memberSet v == memberSet w && decide (s' = s))
       | _, _ => some false)
  | .zInterStore d ks agg | .zUnionStore d ks agg =>
    if isSkip r.out then none
    else if distinct ks && !sumOrder agg ks then
      (if inTx && isErr res then some (outEq res r.out) else some (outEq res r.out && decide (s' = r.st)))
    else
      (match res, r.out with
       | .ok _, .ok _ =>
         some (outEq res r.out &&
           (zsetAt s' d).map (·.1) == (zsetAt r.st d).map (·.1) &&
           decide (del s' d = del r.st d))
       | .error a, .error b => some (a == b)
       | _, _ => some false)
  | _ =>
    if isSkip r.out then none
    else if inTx && isErr res then some (outEq res r.out)
    else some (outEq res r.out && decide (s' = r.st))

/-! ### known deviation classes (DESIGN §11); each is a decidable predicate on the pre-state and
the operation, as narrow as the cause of the defect -/

/-- the name is held by a stored row whose expiry has passed -/
def staleKey (db : DB) (now : Int) (k : Bytes) : Bool :=
  match db.findKey k with
  | some r => !r.live now
  | none => false

/-- the names an operation writes to -/
def writeKeys : Op → List Bytes
  | .strIncr k _ | .strIncrFloat k _ | .strSet k _ | .strSetExpires k _ _ | .strSetWith k _ _ => [k]
  | .strSetMany items => items.map (·.1)
  | .keyRename _ nk | .keyRenameNX _ nk => [nk]
  | .listInsertAfter k _ _ | .listInsertBefore k _ _ | .listPushBack k _ | .listPushFront k _ => [k]
  | .listPopBackPushFront _ d => [d]
  | .setAdd k _ => [k]
  | .setDiffStore d _ | .setInterStore d _ | .setUnionStore d _ => [d]
  | .setMove _ d _ => [d]
  | .hashIncr k _ _ | .hashIncrFloat k _ _ | .hashSet k _ _ | .hashSetMany k _ | .hashSetNotExists k _ _ => [k]
  | .zAdd k _ _ | .zAddMany k _ | .zIncr k _ _ => [k]
  | .zInterStore d _ _ | .zUnionStore d _ _ => [d]
  | _ => []

def liveListLen (db : DB) (now : Int) (k : Bytes) : Option Nat :=
  (db.liveKeyT k TList now).map (fun r => (Model.listRows db r.id).length)

def known (inTx : Bool) (op : Op) (now : Int) (pre : DB) : List String :=
  let d05 := if (writeKeys op).any (staleKey pre now) then ["D05"] else []
  let rest : List String :=
    match op with
    | .listInsertAfter .. | .listInsertBefore .. =>
      (match (Model.tx true op now pre).out with
       | .error .sqlUnique => ["D03"]
       | _ => [])
    | .keyLen => if pre.keys.any (fun r => !r.live now) then ["D06"] else []
    | .setInterStore d ks | .zInterStore d ks _ => if ks.contains d then ["D08"] else []
    | .setDiffStore d ks | .setUnionStore d ks | .zUnionStore d ks _ => if ks.contains d then ["D08"] else []
    | .strIncr k d =>
      (match Model.strGetRaw pre k now with
       | some v => (match valueInt v with
         | some n => if !inInt64 (n + d) then ["D17"] else []
         | none => [])
       | none => [])
    | .hashIncr k f d =>
      (match Model.hashGetRaw pre k f now with
       | some v => (match valueInt v with
         | some n => if !inInt64 (n + d) then ["D17"] else []
         | none => [])
       | none => [])
    | .keyRename k _ | .keyRenameNX k _ => if k.isEmpty && (pre.liveKey k now).isSome then ["D18"] else []
    | .keyKeys p => if !noBangClass p then ["D16"] else []
    | _ => []
  d05 ++ rest

end Redka.Spec
