/-
  Tie between the grammar file regenerated from the redka source on every run
  (`RedkaModel/Generated/Grammar.lean`, written by tools/extract_wire) and the reviewed copy the
  wire model's theorems are stated about (`RedkaModel/Model/Wire/GrammarExpected.lean`).
  One named obligation per `ParseXxx`, so that a changed grammar breaks `lake build` at the
  command it belongs to; the list-level theorems catch added or removed parse functions, a
  changed dispatch row and a hand-written parser that became pipeline-based (or vice versa).
-/
import RedkaModel.Generated.Grammar
import RedkaModel.Model.Wire.GrammarExpected

namespace Redka.Wire.Tie

open Redka.Wire

/-- `conn.ParseEcho` -/
theorem g_Echo : Generated.grammar_Echo = Expected.grammar_Echo := rfl
/-- `conn.ParsePing` -/
theorem g_Ping : Generated.grammar_Ping = Expected.grammar_Ping := rfl
/-- `conn.ParseSelect` -/
theorem g_Select : Generated.grammar_Select = Expected.grammar_Select := rfl
/-- `hash.ParseHDel` -/
theorem g_HDel : Generated.grammar_HDel = Expected.grammar_HDel := rfl
/-- `hash.ParseHIncrBy` -/
theorem g_HIncrBy : Generated.grammar_HIncrBy = Expected.grammar_HIncrBy := rfl
/-- `hash.ParseHIncrByFloat` -/
theorem g_HIncrByFloat : Generated.grammar_HIncrByFloat = Expected.grammar_HIncrByFloat := rfl
/-- `hash.ParseHMGet` -/
theorem g_HMGet : Generated.grammar_HMGet = Expected.grammar_HMGet := rfl
/-- `hash.ParseHMSet` -/
theorem g_HMSet : Generated.grammar_HMSet = Expected.grammar_HMSet := rfl
/-- `hash.ParseHScan` -/
theorem g_HScan : Generated.grammar_HScan = Expected.grammar_HScan := rfl
/-- `hash.ParseHSet` -/
theorem g_HSet : Generated.grammar_HSet = Expected.grammar_HSet := rfl
/-- `key.ParseDel` -/
theorem g_Del : Generated.grammar_Del = Expected.grammar_Del := rfl
/-- `key.ParseExists` -/
theorem g_Exists : Generated.grammar_Exists = Expected.grammar_Exists := rfl
/-- `key.ParseExpire` -/
theorem g_Expire : Generated.grammar_Expire = Expected.grammar_Expire := rfl
/-- `key.ParseExpireAt` -/
theorem g_ExpireAt : Generated.grammar_ExpireAt = Expected.grammar_ExpireAt := rfl
/-- `key.ParseScan` -/
theorem g_Scan : Generated.grammar_Scan = Expected.grammar_Scan := rfl
/-- `list.ParseLIndex` -/
theorem g_LIndex : Generated.grammar_LIndex = Expected.grammar_LIndex := rfl
/-- `list.ParseLInsert` -/
theorem g_LInsert : Generated.grammar_LInsert = Expected.grammar_LInsert := rfl
/-- `list.ParseLLen` -/
theorem g_LLen : Generated.grammar_LLen = Expected.grammar_LLen := rfl
/-- `list.ParseLPop` -/
theorem g_LPop : Generated.grammar_LPop = Expected.grammar_LPop := rfl
/-- `list.ParseLPush` -/
theorem g_LPush : Generated.grammar_LPush = Expected.grammar_LPush := rfl
/-- `list.ParseLRange` -/
theorem g_LRange : Generated.grammar_LRange = Expected.grammar_LRange := rfl
/-- `list.ParseLRem` -/
theorem g_LRem : Generated.grammar_LRem = Expected.grammar_LRem := rfl
/-- `list.ParseLSet` -/
theorem g_LSet : Generated.grammar_LSet = Expected.grammar_LSet := rfl
/-- `list.ParseLTrim` -/
theorem g_LTrim : Generated.grammar_LTrim = Expected.grammar_LTrim := rfl
/-- `list.ParseRPop` -/
theorem g_RPop : Generated.grammar_RPop = Expected.grammar_RPop := rfl
/-- `list.ParseRPopLPush` -/
theorem g_RPopLPush : Generated.grammar_RPopLPush = Expected.grammar_RPopLPush := rfl
/-- `list.ParseRPush` -/
theorem g_RPush : Generated.grammar_RPush = Expected.grammar_RPush := rfl
/-- `server.ParseLolwut` -/
theorem g_Lolwut : Generated.grammar_Lolwut = Expected.grammar_Lolwut := rfl
/-- `set.ParseSAdd` -/
theorem g_SAdd : Generated.grammar_SAdd = Expected.grammar_SAdd := rfl
/-- `set.ParseSDiff` -/
theorem g_SDiff : Generated.grammar_SDiff = Expected.grammar_SDiff := rfl
/-- `set.ParseSDiffStore` -/
theorem g_SDiffStore : Generated.grammar_SDiffStore = Expected.grammar_SDiffStore := rfl
/-- `set.ParseSInter` -/
theorem g_SInter : Generated.grammar_SInter = Expected.grammar_SInter := rfl
/-- `set.ParseSInterStore` -/
theorem g_SInterStore : Generated.grammar_SInterStore = Expected.grammar_SInterStore := rfl
/-- `set.ParseSIsMember` -/
theorem g_SIsMember : Generated.grammar_SIsMember = Expected.grammar_SIsMember := rfl
/-- `set.ParseSMove` -/
theorem g_SMove : Generated.grammar_SMove = Expected.grammar_SMove := rfl
/-- `set.ParseSRem` -/
theorem g_SRem : Generated.grammar_SRem = Expected.grammar_SRem := rfl
/-- `set.ParseSScan` -/
theorem g_SScan : Generated.grammar_SScan = Expected.grammar_SScan := rfl
/-- `set.ParseSUnion` -/
theorem g_SUnion : Generated.grammar_SUnion = Expected.grammar_SUnion := rfl
/-- `set.ParseSUnionStore` -/
theorem g_SUnionStore : Generated.grammar_SUnionStore = Expected.grammar_SUnionStore := rfl
/-- `string.ParseIncrBy` -/
theorem g_IncrBy : Generated.grammar_IncrBy = Expected.grammar_IncrBy := rfl
/-- `string.ParseIncrByFloat` -/
theorem g_IncrByFloat : Generated.grammar_IncrByFloat = Expected.grammar_IncrByFloat := rfl
/-- `string.ParseMSet` -/
theorem g_MSet : Generated.grammar_MSet = Expected.grammar_MSet := rfl
/-- `string.ParseSet` -/
theorem g_Set : Generated.grammar_Set = Expected.grammar_Set := rfl
/-- `string.ParseSetEX` -/
theorem g_SetEX : Generated.grammar_SetEX = Expected.grammar_SetEX := rfl
/-- `zset.ParseZAdd` -/
theorem g_ZAdd : Generated.grammar_ZAdd = Expected.grammar_ZAdd := rfl
/-- `zset.ParseZCount` -/
theorem g_ZCount : Generated.grammar_ZCount = Expected.grammar_ZCount := rfl
/-- `zset.ParseZIncrBy` -/
theorem g_ZIncrBy : Generated.grammar_ZIncrBy = Expected.grammar_ZIncrBy := rfl
/-- `zset.ParseZInter` -/
theorem g_ZInter : Generated.grammar_ZInter = Expected.grammar_ZInter := rfl
/-- `zset.ParseZInterStore` -/
theorem g_ZInterStore : Generated.grammar_ZInterStore = Expected.grammar_ZInterStore := rfl
/-- `zset.ParseZRange` -/
theorem g_ZRange : Generated.grammar_ZRange = Expected.grammar_ZRange := rfl
/-- `zset.ParseZRangeByScore` -/
theorem g_ZRangeByScore : Generated.grammar_ZRangeByScore = Expected.grammar_ZRangeByScore := rfl
/-- `zset.ParseZRank` -/
theorem g_ZRank : Generated.grammar_ZRank = Expected.grammar_ZRank := rfl
/-- `zset.ParseZRem` -/
theorem g_ZRem : Generated.grammar_ZRem = Expected.grammar_ZRem := rfl
/-- `zset.ParseZRemRangeByRank` -/
theorem g_ZRemRangeByRank : Generated.grammar_ZRemRangeByRank = Expected.grammar_ZRemRangeByRank := rfl
/-- `zset.ParseZRemRangeByScore` -/
theorem g_ZRemRangeByScore : Generated.grammar_ZRemRangeByScore = Expected.grammar_ZRemRangeByScore := rfl
/-- `zset.ParseZRevRange` -/
theorem g_ZRevRange : Generated.grammar_ZRevRange = Expected.grammar_ZRevRange := rfl
/-- `zset.ParseZRevRangeByScore` -/
theorem g_ZRevRangeByScore : Generated.grammar_ZRevRangeByScore = Expected.grammar_ZRevRangeByScore := rfl
/-- `zset.ParseZRevRank` -/
theorem g_ZRevRank : Generated.grammar_ZRevRank = Expected.grammar_ZRevRank := rfl
/-- `zset.ParseZScan` -/
theorem g_ZScan : Generated.grammar_ZScan = Expected.grammar_ZScan := rfl
/-- `zset.ParseZScore` -/
theorem g_ZScore : Generated.grammar_ZScore = Expected.grammar_ZScore := rfl
/-- `zset.ParseZUnion` -/
theorem g_ZUnion : Generated.grammar_ZUnion = Expected.grammar_ZUnion := rfl
/-- `zset.ParseZUnionStore` -/
theorem g_ZUnionStore : Generated.grammar_ZUnionStore = Expected.grammar_ZUnionStore := rfl

/-- the set of pipeline-based parse functions, their extra parameters and grammars -/
theorem grammars_eq : Generated.grammars = Expected.grammars := rfl

/-- the parse functions that inspect the arguments by hand -/
theorem manualParsers_eq : Generated.manualParsers = Expected.manualParsers := rfl

/-- `command.Parse`: every row of the `switch` -/
theorem dispatch_eq : Generated.dispatch = Expected.dispatch := rfl

theorem dispatchDefault_eq : Generated.dispatchDefault = Expected.dispatchDefault := rfl

end Redka.Wire.Tie
