/-
  Tie between the command sources regenerated from the redka tree on every run
  (`RedkaModel/Generated/Cmds.lean`, written by tools/extract_wire/cmds.go) and the reviewed copy
  the wire model was transcribed from (`RedkaModel/Model/Wire/CmdsExpected.lean`): for every
  command object the printed `ParseXxx` function and `Run` method (locals alpha-renamed) and the
  facets of `Run`; every helper function of internal/command/*; the documented command tables.
  One named obligation per command, so that a change breaks `lake build` at the command it belongs
  to; the list-level theorems catch added or removed commands and helpers.
-/
import RedkaModel.Generated.Cmds
import RedkaModel.Model.Wire.CmdsExpected

namespace Redka.Wire.Tie

open Redka.Wire

theorem c_conn_ParseEcho : Generated.src_conn_ParseEcho = Expected.src_conn_ParseEcho := rfl
theorem c_conn_ParsePing : Generated.src_conn_ParsePing = Expected.src_conn_ParsePing := rfl
theorem c_conn_ParseSelect : Generated.src_conn_ParseSelect = Expected.src_conn_ParseSelect := rfl
theorem c_hash_ParseHDel : Generated.src_hash_ParseHDel = Expected.src_hash_ParseHDel := rfl
theorem c_hash_ParseHExists : Generated.src_hash_ParseHExists = Expected.src_hash_ParseHExists := rfl
theorem c_hash_ParseHGet : Generated.src_hash_ParseHGet = Expected.src_hash_ParseHGet := rfl
theorem c_hash_ParseHGetAll : Generated.src_hash_ParseHGetAll = Expected.src_hash_ParseHGetAll := rfl
theorem c_hash_ParseHIncrBy : Generated.src_hash_ParseHIncrBy = Expected.src_hash_ParseHIncrBy := rfl
theorem c_hash_ParseHIncrByFloat : Generated.src_hash_ParseHIncrByFloat = Expected.src_hash_ParseHIncrByFloat := rfl
theorem c_hash_ParseHKeys : Generated.src_hash_ParseHKeys = Expected.src_hash_ParseHKeys := rfl
theorem c_hash_ParseHLen : Generated.src_hash_ParseHLen = Expected.src_hash_ParseHLen := rfl
theorem c_hash_ParseHMGet : Generated.src_hash_ParseHMGet = Expected.src_hash_ParseHMGet := rfl
theorem c_hash_ParseHMSet : Generated.src_hash_ParseHMSet = Expected.src_hash_ParseHMSet := rfl
theorem c_hash_ParseHScan : Generated.src_hash_ParseHScan = Expected.src_hash_ParseHScan := rfl
theorem c_hash_ParseHSet : Generated.src_hash_ParseHSet = Expected.src_hash_ParseHSet := rfl
theorem c_hash_ParseHSetNX : Generated.src_hash_ParseHSetNX = Expected.src_hash_ParseHSetNX := rfl
theorem c_hash_ParseHVals : Generated.src_hash_ParseHVals = Expected.src_hash_ParseHVals := rfl
theorem c_key_ParseDel : Generated.src_key_ParseDel = Expected.src_key_ParseDel := rfl
theorem c_key_ParseExists : Generated.src_key_ParseExists = Expected.src_key_ParseExists := rfl
theorem c_key_ParseExpire : Generated.src_key_ParseExpire = Expected.src_key_ParseExpire := rfl
theorem c_key_ParseExpireAt : Generated.src_key_ParseExpireAt = Expected.src_key_ParseExpireAt := rfl
theorem c_key_ParseFlushDB : Generated.src_key_ParseFlushDB = Expected.src_key_ParseFlushDB := rfl
theorem c_key_ParseKeys : Generated.src_key_ParseKeys = Expected.src_key_ParseKeys := rfl
theorem c_key_ParsePersist : Generated.src_key_ParsePersist = Expected.src_key_ParsePersist := rfl
theorem c_key_ParseRandomKey : Generated.src_key_ParseRandomKey = Expected.src_key_ParseRandomKey := rfl
theorem c_key_ParseRename : Generated.src_key_ParseRename = Expected.src_key_ParseRename := rfl
theorem c_key_ParseRenameNX : Generated.src_key_ParseRenameNX = Expected.src_key_ParseRenameNX := rfl
theorem c_key_ParseScan : Generated.src_key_ParseScan = Expected.src_key_ParseScan := rfl
theorem c_key_ParseTTL : Generated.src_key_ParseTTL = Expected.src_key_ParseTTL := rfl
theorem c_key_ParseType : Generated.src_key_ParseType = Expected.src_key_ParseType := rfl
theorem c_list_ParseLIndex : Generated.src_list_ParseLIndex = Expected.src_list_ParseLIndex := rfl
theorem c_list_ParseLInsert : Generated.src_list_ParseLInsert = Expected.src_list_ParseLInsert := rfl
theorem c_list_ParseLLen : Generated.src_list_ParseLLen = Expected.src_list_ParseLLen := rfl
theorem c_list_ParseLPop : Generated.src_list_ParseLPop = Expected.src_list_ParseLPop := rfl
theorem c_list_ParseLPush : Generated.src_list_ParseLPush = Expected.src_list_ParseLPush := rfl
theorem c_list_ParseLRange : Generated.src_list_ParseLRange = Expected.src_list_ParseLRange := rfl
theorem c_list_ParseLRem : Generated.src_list_ParseLRem = Expected.src_list_ParseLRem := rfl
theorem c_list_ParseLSet : Generated.src_list_ParseLSet = Expected.src_list_ParseLSet := rfl
theorem c_list_ParseLTrim : Generated.src_list_ParseLTrim = Expected.src_list_ParseLTrim := rfl
theorem c_list_ParseRPop : Generated.src_list_ParseRPop = Expected.src_list_ParseRPop := rfl
theorem c_list_ParseRPopLPush : Generated.src_list_ParseRPopLPush = Expected.src_list_ParseRPopLPush := rfl
theorem c_list_ParseRPush : Generated.src_list_ParseRPush = Expected.src_list_ParseRPush := rfl
theorem c_server_ParseConfig : Generated.src_server_ParseConfig = Expected.src_server_ParseConfig := rfl
theorem c_server_ParseDBSize : Generated.src_server_ParseDBSize = Expected.src_server_ParseDBSize := rfl
theorem c_server_ParseLolwut : Generated.src_server_ParseLolwut = Expected.src_server_ParseLolwut := rfl
theorem c_server_ParseOK : Generated.src_server_ParseOK = Expected.src_server_ParseOK := rfl
theorem c_server_ParseUnknown : Generated.src_server_ParseUnknown = Expected.src_server_ParseUnknown := rfl
theorem c_set_ParseSAdd : Generated.src_set_ParseSAdd = Expected.src_set_ParseSAdd := rfl
theorem c_set_ParseSCard : Generated.src_set_ParseSCard = Expected.src_set_ParseSCard := rfl
theorem c_set_ParseSDiff : Generated.src_set_ParseSDiff = Expected.src_set_ParseSDiff := rfl
theorem c_set_ParseSDiffStore : Generated.src_set_ParseSDiffStore = Expected.src_set_ParseSDiffStore := rfl
theorem c_set_ParseSInter : Generated.src_set_ParseSInter = Expected.src_set_ParseSInter := rfl
theorem c_set_ParseSInterStore : Generated.src_set_ParseSInterStore = Expected.src_set_ParseSInterStore := rfl
theorem c_set_ParseSIsMember : Generated.src_set_ParseSIsMember = Expected.src_set_ParseSIsMember := rfl
theorem c_set_ParseSMembers : Generated.src_set_ParseSMembers = Expected.src_set_ParseSMembers := rfl
theorem c_set_ParseSMove : Generated.src_set_ParseSMove = Expected.src_set_ParseSMove := rfl
theorem c_set_ParseSPop : Generated.src_set_ParseSPop = Expected.src_set_ParseSPop := rfl
theorem c_set_ParseSRandMember : Generated.src_set_ParseSRandMember = Expected.src_set_ParseSRandMember := rfl
theorem c_set_ParseSRem : Generated.src_set_ParseSRem = Expected.src_set_ParseSRem := rfl
theorem c_set_ParseSScan : Generated.src_set_ParseSScan = Expected.src_set_ParseSScan := rfl
theorem c_set_ParseSUnion : Generated.src_set_ParseSUnion = Expected.src_set_ParseSUnion := rfl
theorem c_set_ParseSUnionStore : Generated.src_set_ParseSUnionStore = Expected.src_set_ParseSUnionStore := rfl
theorem c_string_ParseGet : Generated.src_string_ParseGet = Expected.src_string_ParseGet := rfl
theorem c_string_ParseGetSet : Generated.src_string_ParseGetSet = Expected.src_string_ParseGetSet := rfl
theorem c_string_ParseIncr : Generated.src_string_ParseIncr = Expected.src_string_ParseIncr := rfl
theorem c_string_ParseIncrBy : Generated.src_string_ParseIncrBy = Expected.src_string_ParseIncrBy := rfl
theorem c_string_ParseIncrByFloat : Generated.src_string_ParseIncrByFloat = Expected.src_string_ParseIncrByFloat := rfl
theorem c_string_ParseMGet : Generated.src_string_ParseMGet = Expected.src_string_ParseMGet := rfl
theorem c_string_ParseMSet : Generated.src_string_ParseMSet = Expected.src_string_ParseMSet := rfl
theorem c_string_ParseSet : Generated.src_string_ParseSet = Expected.src_string_ParseSet := rfl
theorem c_string_ParseSetEX : Generated.src_string_ParseSetEX = Expected.src_string_ParseSetEX := rfl
theorem c_string_ParseSetNX : Generated.src_string_ParseSetNX = Expected.src_string_ParseSetNX := rfl
theorem c_string_ParseStrlen : Generated.src_string_ParseStrlen = Expected.src_string_ParseStrlen := rfl
theorem c_zset_ParseZAdd : Generated.src_zset_ParseZAdd = Expected.src_zset_ParseZAdd := rfl
theorem c_zset_ParseZCard : Generated.src_zset_ParseZCard = Expected.src_zset_ParseZCard := rfl
theorem c_zset_ParseZCount : Generated.src_zset_ParseZCount = Expected.src_zset_ParseZCount := rfl
theorem c_zset_ParseZIncrBy : Generated.src_zset_ParseZIncrBy = Expected.src_zset_ParseZIncrBy := rfl
theorem c_zset_ParseZInter : Generated.src_zset_ParseZInter = Expected.src_zset_ParseZInter := rfl
theorem c_zset_ParseZInterStore : Generated.src_zset_ParseZInterStore = Expected.src_zset_ParseZInterStore := rfl
theorem c_zset_ParseZRange : Generated.src_zset_ParseZRange = Expected.src_zset_ParseZRange := rfl
theorem c_zset_ParseZRangeByScore : Generated.src_zset_ParseZRangeByScore = Expected.src_zset_ParseZRangeByScore := rfl
theorem c_zset_ParseZRank : Generated.src_zset_ParseZRank = Expected.src_zset_ParseZRank := rfl
theorem c_zset_ParseZRem : Generated.src_zset_ParseZRem = Expected.src_zset_ParseZRem := rfl
theorem c_zset_ParseZRemRangeByRank : Generated.src_zset_ParseZRemRangeByRank = Expected.src_zset_ParseZRemRangeByRank := rfl
theorem c_zset_ParseZRemRangeByScore : Generated.src_zset_ParseZRemRangeByScore = Expected.src_zset_ParseZRemRangeByScore := rfl
theorem c_zset_ParseZRevRange : Generated.src_zset_ParseZRevRange = Expected.src_zset_ParseZRevRange := rfl
theorem c_zset_ParseZRevRangeByScore : Generated.src_zset_ParseZRevRangeByScore = Expected.src_zset_ParseZRevRangeByScore := rfl
theorem c_zset_ParseZRevRank : Generated.src_zset_ParseZRevRank = Expected.src_zset_ParseZRevRank := rfl
theorem c_zset_ParseZScan : Generated.src_zset_ParseZScan = Expected.src_zset_ParseZScan := rfl
theorem c_zset_ParseZScore : Generated.src_zset_ParseZScore = Expected.src_zset_ParseZScore := rfl
theorem c_zset_ParseZUnion : Generated.src_zset_ParseZUnion = Expected.src_zset_ParseZUnion := rfl
theorem c_zset_ParseZUnionStore : Generated.src_zset_ParseZUnionStore = Expected.src_zset_ParseZUnionStore := rfl
theorem h_key_toTypeID : Generated.helperText_key_toTypeID = Expected.helperText_key_toTypeID := rfl
theorem h_server_ConfigGet_Run : Generated.helperText_server_ConfigGet_Run = Expected.helperText_server_ConfigGet_Run := rfl
theorem h_server_ParseConfigGet : Generated.helperText_server_ParseConfigGet = Expected.helperText_server_ParseConfigGet := rfl
theorem cmd_names : Generated.cmdSrcs.map (·.fn) = Expected.cmdSrcs.map (·.fn) := rfl
theorem helper_names : Generated.helpers.map (·.1) = Expected.helpers.map (·.1) := rfl
theorem run_calls : Generated.runCalls = Expected.runCalls := rfl
theorem docs_table : Generated.docs = Expected.docs := rfl

end Redka.Wire.Tie
