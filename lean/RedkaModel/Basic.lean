/-
  Basic data shared by the Model, the Spec and the driver.
  Core Lean only (no Mathlib): the driver is linked as a `lean_exe`.
-/

namespace Redka

/-- Everything a client can supply: keys, fields, members, elements, values, patterns. -/
abbrev Bytes := List UInt8

/-- `memcmp` order (SQLite BLOB / BINARY text collation): lexicographic on unsigned bytes,
a proper prefix is smaller. -/
def bytesLt : Bytes → Bytes → Bool
  | [], [] => false
  | [], _ :: _ => true
  | _ :: _, [] => false
  | a :: as, b :: bs => if a < b then true else if b < a then false else bytesLt as bs

def bytesLe (a b : Bytes) : Bool := !bytesLt b a

/-! ### Integers as Go prints and parses them -/

def digitChar (d : Nat) : UInt8 := (48 + d % 10).toUInt8

/-- decimal digits of a natural number, most significant first (`0` ↦ "0") -/
def natDigits (n : Nat) : Bytes :=
  if h : n < 10 then [digitChar n] else natDigits (n / 10) ++ [digitChar n]
termination_by n
decreasing_by omega

/-- `strconv.Itoa` -/
def itoa (i : Int) : Bytes :=
  if i < 0 then 45 :: natDigits i.natAbs else natDigits i.natAbs

def isDigit (c : UInt8) : Bool := 48 ≤ c && c ≤ 57

def digitsVal : Bytes → Nat → Nat
  | [], acc => acc
  | c :: cs, acc => digitsVal cs (acc * 10 + (c.toNat - 48))

def minInt64 : Int := -9223372036854775808
def maxInt64 : Int := 9223372036854775807

/-- `strconv.Atoi` on a 64-bit platform: optional sign, at least one decimal digit,
no underscores (base 10 given explicitly), range-checked. -/
def atoi (b : Bytes) : Option Int :=
  let (neg, ds) := match b with
    | 45 :: r => (true, r)
    | 43 :: r => (false, r)
    | r => (false, r)
  if ds.isEmpty || !ds.all isDigit then none
  else
    let v : Int := digitsVal ds 0
    let v := if neg then -v else v
    if v < minInt64 || v > maxInt64 then none else some v

/-- two's-complement wrap of Go's `int` addition -/
def wrap64 (i : Int) : Int :=
  let m : Int := 18446744073709551616
  let r := (i - minInt64) % m
  r + minInt64

/-- `core.Value.Int`: empty text counts as zero -/
def valueInt (b : Bytes) : Option Int := if b.isEmpty then some 0 else atoi b

/-! ### Sorted-set scores: finite dyadic rationals and the two infinities -/

inductive Score where
  | negInf
  | fin (d : Dyadic)
  | posInf
deriving DecidableEq

namespace Score

def lt : Score → Score → Bool
  | negInf, negInf => false
  | negInf, _ => true
  | fin _, negInf => false
  | fin a, fin b => decide (a < b)
  | fin _, posInf => true
  | posInf, _ => false

def le (a b : Score) : Bool := !lt b a

/-- IEEE addition on the modelled domain; `none` is NaN (`inf + -inf`), which SQLite stores as
NULL and the `NOT NULL` column rejects. Rounding of finite sums is applied by the caller. -/
def add : Score → Score → Option Score
  | negInf, posInf => none
  | posInf, negInf => none
  | negInf, _ => some negInf
  | _, negInf => some negInf
  | posInf, _ => some posInf
  | _, posInf => some posInf
  | fin a, fin b => some (fin (a + b))

def min (a b : Score) : Score := if lt b a then b else a
def max (a b : Score) : Score := if lt a b then b else a

end Score

/-! ### round-to-nearest-even at 53 significant bits (list positions) -/

def natBits (n : Nat) : Nat := if n = 0 then 0 else Nat.log2 n + 1

/-- Round a dyadic to the nearest IEEE double significand (53 bits, ties to even).
Exponent range (overflow, subnormals) is not modelled. -/
def round53 (x : Dyadic) : Dyadic :=
  match x with
  | .zero => .zero
  | .ofOdd n k _ =>
    let a := n.natAbs
    let bits := natBits a
    if bits ≤ 53 then x
    else
      let sh := bits - 53
      let q := a >>> sh
      let r := a % (2 ^ sh)
      let half := 2 ^ (sh - 1)
      let q' := if r > half || (r == half && q % 2 == 1) then q + 1 else q
      let m : Int := if n < 0 then -(q' : Int) else (q' : Int)
      Dyadic.ofIntWithPrec m (k - sh)

def dyHalf (x : Dyadic) : Dyadic := x >>> (1 : Int)

/-- `(a + b) / 2` as SQLite computes it on doubles (the sum is rounded, halving is exact) -/
def mid53 (a b : Dyadic) : Dyadic := dyHalf (round53 (a + b))

/-! ### floats as Go parses and prints them, on the modelled domain -/

/-- what `strconv.ParseFloat(s, 64)` makes of a stored text, as far as the model decides it -/
inductive FParse where
  | invalid                 -- Go reports a syntax error
  | val (d : Dyadic)        -- Go returns exactly this number
  | unknown                 -- outside the modelled domain (exponents, hex floats, inf/nan, underscores,
                            -- decimals that are not exactly representable, negative zero)
deriving DecidableEq

def isOneOf (cs : List UInt8) (c : UInt8) : Bool := cs.contains c

/-- bytes that occur in some text `strconv.ParseFloat` accepts -/
def floatAlphabet (c : UInt8) : Bool :=
  -- + - . e E x X p P _ a b c d f A B C D F i I n N t T y Y
  isDigit c || isOneOf [43, 45, 46, 101, 69, 120, 88, 112, 80, 95, 97, 98, 99, 100, 102, 65, 66, 67, 68, 70, 105, 73, 110, 78, 116, 84, 121, 89] c

def pow5 (k : Nat) : Nat := 5 ^ k

/-- odd part of a positive natural number -/
def oddPart (n : Nat) : Nat :=
  if h : n = 0 then 0 else if n % 2 = 0 then oddPart (n / 2) else n
termination_by n
decreasing_by omega

def splitSign (b : Bytes) : Bool × Bytes :=
  match b with
  | 45 :: r => (true, r)
  | 43 :: r => (false, r)
  | r => (false, r)

/-- `[+-]? ( D+ ( . D* )? | . D+ )`: sign, integer digits, fraction digits -/
def plainDecimal (b : Bytes) : Option (Bool × Bytes × Bytes) :=
  let neg := (splitSign b).1
  let r := (splitSign b).2
  let ip := r.takeWhile isDigit
  let rest := r.dropWhile isDigit
  match rest with
  | [] => if ip.isEmpty then none else some (neg, ip, [])
  | 46 :: fr =>
    if fr.all isDigit && !(ip.isEmpty && fr.isEmpty) then some (neg, ip, fr) else none
  | _ => none

def parseFloatDec (b : Bytes) : FParse :=
  if !b.all floatAlphabet then .invalid
  else if b.all (fun c => isDigit c || c == 43 || c == 45 || c == 46) then
    match plainDecimal b with
    | none => .invalid
    | some (neg, ip, fr) =>
      let n := digitsVal (ip ++ fr) 0
      let f := fr.length
      if n % pow5 f != 0 then .unknown          -- not a dyadic rational
      else
        let m := n / pow5 f                     -- value = m / 2^f
        if m == 0 then (if neg then .unknown else .val .zero)
        else if oddPart m ≥ 2 ^ 53 then .unknown
        else .val (Dyadic.ofIntWithPrec (if neg then -(m : Int) else m) f)
  -- no x X i I n N, but one of a b c d f A B C D F t T y Y
  else if !b.any (isOneOf [120, 88, 105, 73, 110, 78]) && b.any (isOneOf [97, 98, 99, 100, 102, 65, 66, 67, 68, 70, 116, 84, 121, 89]) then .invalid
  else .unknown

/-- `core.Value.Float`: empty text counts as zero -/
def valueFloat (b : Bytes) : FParse := if b.isEmpty then .val .zero else parseFloatDec b

def stripTrailingZeros (n : Nat) : Nat :=
  if h : n = 0 then 0 else if n % 10 = 0 then stripTrailingZeros (n / 10) else n
termination_by n
decreasing_by omega

/-- `strconv.FormatFloat(x, 'f', -1, 64)` for a number whose decimal expansion has at most 15
significant digits (then the shortest text that reads back as `x` is the exact expansion);
`none` outside that domain. -/
def formatFloatDec (x : Dyadic) : Option Bytes :=
  match x with
  | .zero => some [48]
  | .ofOdd n k _ =>
    let sign : Bytes := if n < 0 then [45] else []
    if k ≤ 0 then
      let N := n.natAbs * 2 ^ (-k).toNat
      -- the odd part must fit in 53 bits (10^23 has one significant digit and is not a float64)
      if n.natAbs < 2 ^ 53 && (natDigits (stripTrailingZeros N)).length ≤ 15 then some (sign ++ natDigits N) else none
    else
      let kk := k.toNat
      let ds := natDigits (n.natAbs * pow5 kk)      -- value = this / 10^k, last digit is 5
      if ds.length > 15 then none
      else if ds.length ≤ kk then
        some (sign ++ [48, 46] ++ List.replicate (kk - ds.length) 48 ++ ds)
      else
        some (sign ++ ds.take (ds.length - kk) ++ [46] ++ ds.drop (ds.length - kk))


/-! ### small list helpers -/

def insertSortedBy {α} (lt : α → α → Bool) (x : α) : List α → List α
  | [] => [x]
  | y :: ys => if lt x y then x :: y :: ys else y :: insertSortedBy lt x ys

def sortBy {α} (lt : α → α → Bool) (l : List α) : List α :=
  l.foldr (insertSortedBy lt) []

def dedup {α} [DecidableEq α] : List α → List α
  | [] => []
  | x :: xs => if x ∈ xs then dedup xs else x :: dedup xs

/-- maximum of a list of integers, `d` when empty -/
def maxD (d : Int) : List Int → Int
  | [] => d
  | x :: xs => let m := maxD d xs; if x > m then x else m

end Redka
