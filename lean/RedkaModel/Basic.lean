/-
  Basic data shared by the Model, the Spec and the driver.
  Core Lean only (no Mathlib): the driver is linked as a `lean_exe`.
-/

namespace Redka

/-- Everything a client can supply: keys, fields, members, elements, values, patterns. -/
abbrev Bytes := List UInt8

/-- `memcmp` order (SQLite BLOB / BINARY text collation): lexicographic on unsigned bytes,
a proper prefix is smaller. -/
def bytesLt : Bytes → Bytes → Bool
  | [], [] => false
  | [], _ :: _ => true
  | _ :: _, [] => false
  | a :: as, b :: bs => if a < b then true else if b < a then false else bytesLt as bs

def bytesLe (a b : Bytes) : Bool := !bytesLt b a

/-! ### Integers as Go prints and parses them -/

def digitChar (d : Nat) : UInt8 := (48 + d % 10).toUInt8

/-- decimal digits of a natural number, most significant first (`0` ↦ "0") -/
def natDigits (n : Nat) : Bytes :=
  if h : n < 10 then [digitChar n] else natDigits (n / 10) ++ [digitChar n]
termination_by n
decreasing_by omega

/-- `strconv.Itoa` -/
def itoa (i : Int) : Bytes :=
  if i < 0 then 45 :: natDigits i.natAbs else natDigits i.natAbs

def isDigit (c : UInt8) : Bool := 48 ≤ c && c ≤ 57

def digitsVal : Bytes → Nat → Nat
  | [], acc => acc
  | c :: cs, acc => digitsVal cs (acc * 10 + (c.toNat - 48))

def minInt64 : Int := -9223372036854775808
def maxInt64 : Int := 9223372036854775807

/-- `strconv.Atoi` on a 64-bit platform: optional sign, at least one decimal digit,
no underscores (base 10 given explicitly), range-checked. -/
def atoi (b : Bytes) : Option Int :=
  let (neg, ds) := match b with
    | 45 :: r => (true, r)
    | 43 :: r => (false, r)
    | r => (false, r)
  if ds.isEmpty || !ds.all isDigit then none
  else
    let v : Int := digitsVal ds 0
    let v := if neg then -v else v
    if v < minInt64 || v > maxInt64 then none else some v

/-- two's-complement wrap of Go's `int` addition -/
def wrap64 (i : Int) : Int :=
  let m : Int := 18446744073709551616
  let r := (i - minInt64) % m
  r + minInt64

/-- `core.Value.Int`: empty text counts as zero -/
def valueInt (b : Bytes) : Option Int := if b.isEmpty then some 0 else atoi b

/-! ### Sorted-set scores: finite dyadic rationals and the two infinities -/

inductive Score where
  | negInf
  | fin (d : Dyadic)
  | posInf
deriving DecidableEq

namespace Score

def lt : Score → Score → Bool
  | negInf, negInf => false
  | negInf, _ => true
  | fin _, negInf => false
  | fin a, fin b => decide (a < b)
  | fin _, posInf => true
  | posInf, _ => false

def le (a b : Score) : Bool := !lt b a

/-- IEEE addition on the modelled domain; `none` is NaN (`inf + -inf`), which SQLite stores as
NULL and the `NOT NULL` column rejects. Rounding of finite sums is applied by the caller. -/
def add : Score → Score → Option Score
  | negInf, posInf => none
  | posInf, negInf => none
  | negInf, _ => some negInf
  | _, negInf => some negInf
  | posInf, _ => some posInf
  | _, posInf => some posInf
  | fin a, fin b => some (fin (a + b))

def min (a b : Score) : Score := if lt b a then b else a
def max (a b : Score) : Score := if lt a b then b else a

end Score

/-! ### round-to-nearest-even at 53 significant bits (list positions) -/

def natBits (n : Nat) : Nat := if n = 0 then 0 else Nat.log2 n + 1

/-- Round a dyadic to the nearest IEEE double significand (53 bits, ties to even).
Exponent range (overflow, subnormals) is not modelled. -/
def round53 (x : Dyadic) : Dyadic :=
  match x with
  | .zero => .zero
  | .ofOdd n k _ =>
    let a := n.natAbs
    let bits := natBits a
    if bits ≤ 53 then x
    else
      let sh := bits - 53
      let q := a >>> sh
      let r := a % (2 ^ sh)
      let half := 2 ^ (sh - 1)
      let q' := if r > half || (r == half && q % 2 == 1) then q + 1 else q
      let m : Int := if n < 0 then -(q' : Int) else (q' : Int)
      Dyadic.ofIntWithPrec m (k - sh)

def dyHalf (x : Dyadic) : Dyadic := x >>> (1 : Int)

/-- `(a + b) / 2` as SQLite computes it on doubles (the sum is rounded, halving is exact) -/
def mid53 (a b : Dyadic) : Dyadic := dyHalf (round53 (a + b))

/-! ### small list helpers -/

def insertSortedBy {α} (lt : α → α → Bool) (x : α) : List α → List α
  | [] => [x]
  | y :: ys => if lt x y then x :: y :: ys else y :: insertSortedBy lt x ys

def sortBy {α} (lt : α → α → Bool) (l : List α) : List α :=
  l.foldr (insertSortedBy lt) []

def dedup {α} [DecidableEq α] : List α → List α
  | [] => []
  | x :: xs => if x ∈ xs then dedup xs else x :: dedup xs

/-- maximum of a list of integers, `d` when empty -/
def maxD (d : Int) : List Int → Int
  | [] => d
  | x :: xs => let m := maxD d xs; if x > m then x else m

end Redka
