/-
  Basic data shared by the Model, the Spec and the driver.
  Core Lean only (no Mathlib): the driver is linked as a `lean_exe`.
-/

namespace Redka

/-- Everything a client can supply: keys, fields, members, elements, values, patterns. -/
abbrev Bytes := List UInt8

/-- `memcmp` order (SQLite BLOB / BINARY text collation): lexicographic on unsigned bytes,
a proper prefix is smaller. -/
def bytesLt : Bytes → Bytes → Bool
  | [], [] => false
  | [], _ :: _ => true
  | _ :: _, [] => false
  | a :: as, b :: bs => if a < b then true else if b < a then false else bytesLt as bs

def bytesLe (a b : Bytes) : Bool := !bytesLt b a

/-! ### Integers as Go prints and parses them -/

def digitChar (d : Nat) : UInt8 := (48 + d % 10).toUInt8

/-- decimal digits of a natural number, most significant first (`0` ↦ "0") -/
def natDigits (n : Nat) : Bytes :=
  if h : n < 10 then [digitChar n] else natDigits (n / 10) ++ [digitChar n]
termination_by n
decreasing_by omega

/-- `strconv.Itoa` -/
def itoa (i : Int) : Bytes :=
  if i < 0 then 45 :: natDigits i.natAbs else natDigits i.natAbs

def isDigit (c : UInt8) : Bool := 48 ≤ c && c ≤ 57

def digitsVal : Bytes → Nat → Nat
  | [], acc => acc
  | c :: cs, acc => digitsVal cs (acc * 10 + (c.toNat - 48))

def minInt64 : Int := -9223372036854775808
def maxInt64 : Int := 9223372036854775807

/-- `strconv.Atoi` on a 64-bit platform: optional sign, at least one decimal digit,
no underscores (base 10 given explicitly), range-checked. -/
def atoi (b : Bytes) : Option Int :=
  let (neg, ds) := match b with
    | 45 :: r => (true, r)
    | 43 :: r => (false, r)
    | r => (false, r)
  if ds.isEmpty || !ds.all isDigit then none
  else
    let v : Int := digitsVal ds 0
    let v := if neg then -v else v
    if v < minInt64 || v > maxInt64 then none else some v

/-- two's-complement wrap of Go's `int` addition -/
def wrap64 (i : Int) : Int :=
  let m : Int := 18446744073709551616
  let r := (i - minInt64) % m
  r + minInt64

/-- `core.Value.Int`: empty text counts as zero -/
def valueInt (b : Bytes) : Option Int := if b.isEmpty then some 0 else atoi b

/-! ### Sorted-set scores: finite dyadic rationals and the two infinities -/

inductive Score where
  | negInf
  | fin (d : Dyadic)
  | posInf
deriving DecidableEq

namespace Score

def lt : Score → Score → Bool
  | negInf, negInf => false
  | negInf, _ => true
  | fin _, negInf => false
  | fin a, fin b => decide (a < b)
  | fin _, posInf => true
  | posInf, _ => false

def le (a b : Score) : Bool := !lt b a

/-- IEEE addition on the modelled domain; `none` is NaN (`inf + -inf`), which SQLite stores as
NULL and the `NOT NULL` column rejects. Rounding of finite sums is applied by the caller. -/
def add : Score → Score → Option Score
  | negInf, posInf => none
  | posInf, negInf => none
  | negInf, _ => some negInf
  | _, negInf => some negInf
  | posInf, _ => some posInf
  | _, posInf => some posInf
  | fin a, fin b => some (fin (a + b))

def min (a b : Score) : Score := if lt b a then b else a
def max (a b : Score) : Score := if lt a b then b else a

end Score

/-! ### round-to-nearest-even at 53 significant bits (list positions) -/

def natBits (n : Nat) : Nat := if n = 0 then 0 else Nat.log2 n + 1

/-- Round a dyadic to the nearest IEEE double significand (53 bits, ties to even).
Exponent range (overflow, subnormals) is not modelled. -/
def round53 (x : Dyadic) : Dyadic :=
  match x with
  | .zero => .zero
  | .ofOdd n k _ =>
    let a := n.natAbs
    let bits := natBits a
    if bits ≤ 53 then x
    else
      let sh := bits - 53
      let q := a >>> sh
      let r := a % (2 ^ sh)
      let half := 2 ^ (sh - 1)
      let q' := if r > half || (r == half && q % 2 == 1) then q + 1 else q
      let m : Int := if n < 0 then -(q' : Int) else (q' : Int)
      Dyadic.ofIntWithPrec m (k - sh)

def dyHalf (x : Dyadic) : Dyadic := x >>> (1 : Int)

/-- `(a + b) / 2` as SQLite computes it on doubles (the sum is rounded, halving is exact) -/
def mid53 (a b : Dyadic) : Dyadic := dyHalf (round53 (a + b))

/-! ### floats as Go parses and prints them

`strconv.ParseFloat(s, 64)` and `strconv.FormatFloat(x, 'f', -1, 64)` on every finite, normal
float64: a decimal text denotes a rational number, `ParseFloat` returns the double nearest to it
(ties to even, `ratRound53`), and `FormatFloat` prints the SHORTEST decimal that reads back as the
same double (the closest one when several have that length), without exponent. Doubles are exact
dyadic rationals with an odd part below `2^53` and a leading bit between `2^-1022` and `2^1023`.
Outside the decided domain (`unknown` / `none`): hexadecimal floats, `inf`/`nan`, underscores,
exponents beyond ±400, results that overflow or are subnormal, and negative zero. -/

/-- what `strconv.ParseFloat(s, 64)` makes of a stored text, as far as the model decides it -/
inductive FParse where
  | invalid                 -- Go reports a syntax error
  | val (d : Dyadic)        -- Go returns exactly this number
  | unknown                 -- outside the modelled domain
deriving DecidableEq

def isOneOf (cs : List UInt8) (c : UInt8) : Bool := cs.contains c

/-- bytes that occur in some text `strconv.ParseFloat` accepts -/
def floatAlphabet (c : UInt8) : Bool :=
  -- + - . e E x X p P _ a b c d f A B C D F i I n N t T y Y
  isDigit c || isOneOf [43, 45, 46, 101, 69, 120, 88, 112, 80, 95, 97, 98, 99, 100, 102, 65, 66, 67, 68, 70, 105, 73, 110, 78, 116, 84, 121, 89] c

def pow5 (k : Nat) : Nat := 5 ^ k

/-- odd part of a positive natural number -/
def oddPart (n : Nat) : Nat :=
  if h : n = 0 then 0 else if n % 2 = 0 then oddPart (n / 2) else n
termination_by n
decreasing_by omega

def splitSign (b : Bytes) : Bool × Bytes :=
  match b with
  | 45 :: r => (true, r)
  | 43 :: r => (false, r)
  | r => (false, r)

/-- `p * 2^t / q` as quotient, remainder and the denominator the remainder refers to -/
def scaleDiv (p q : Nat) (t : Int) : Nat × Nat × Nat :=
  if t ≥ 0 then
    let n := p * 2 ^ t.toNat
    (n / q, n % q, q)
  else
    let d := q * 2 ^ (-t).toNat
    (p / d, p % d, d)

/-- The float64 nearest to the positive rational `p / q` (`p, q > 0`), ties to even; `none` when
the result would overflow or be subnormal. -/
def ratRound53 (p q : Nat) : Option Dyadic :=
  -- p / q lies strictly between 2^(bp-bq-1) and 2^(bp-bq+1)
  let t0 : Int := 53 - (natBits p : Int) + (natBits q : Int)
  let t : Int := if (scaleDiv p q t0).1 ≥ 2 ^ 53 then t0 - 1 else t0
  let m := (scaleDiv p q t).1
  let r := (scaleDiv p q t).2.1
  let d := (scaleDiv p q t).2.2
  -- 2^52 ≤ m < 2^53 and p / q = (m + r / d) / 2^t
  let m' := if 2 * r > d || (2 * r == d && m % 2 == 1) then m + 1 else m
  let top : Int := (if m' ≥ 2 ^ 53 then 53 else 52) - t        -- exponent of the leading bit
  if top < -1022 || top > 1023 then none
  else some (Dyadic.ofIntWithPrec (m' : Int) t)

/-- `[+-]? ( D+ ( . D* )? | . D+ ) ( [eE] [+-]? D+ )?`: sign, integer digits, fraction digits,
exponent -/
def decimalParts (b : Bytes) : Option (Bool × Bytes × Bytes × Int) :=
  let neg := (splitSign b).1
  let r := (splitSign b).2
  let ip := r.takeWhile isDigit
  let rest := r.dropWhile isDigit
  let fracAndRest : Option (Bytes × Bytes) :=
    match rest with
    | 46 :: fr => some (fr.takeWhile isDigit, fr.dropWhile isDigit)
    | _ => some ([], rest)
  match fracAndRest with
  | none => none
  | some (fr, tail) =>
    if ip.isEmpty && fr.isEmpty then none
    else
      match tail with
      | [] => some (neg, ip, fr, 0)
      | c :: ex =>
        if c == 101 || c == 69 then
          let eneg := (splitSign ex).1
          let ed := (splitSign ex).2
          if ed.isEmpty || !ed.all isDigit then none
          else
            let e : Int := digitsVal ed 0
            some (neg, ip, fr, if eneg then -e else e)
        else none

/-- `strconv.ParseFloat(string(b), 64)` -/
def parseFloatDec (b : Bytes) : FParse :=
  if !b.all floatAlphabet then .invalid
  else if b.all (fun c => isDigit c || c == 43 || c == 45 || c == 46 || c == 101 || c == 69) then
    match decimalParts b with
    | none => .invalid
    | some (neg, ip, fr, e) =>
      let n := digitsVal (ip ++ fr) 0
      if n == 0 then (if neg then .unknown else .val .zero)     -- negative zero is not modelled
      else if e > 400 || e < -400 then .unknown                  -- overflow is an error, underflow is 0 or subnormal
      else
        let e' : Int := e - fr.length
        let p := if e' ≥ 0 then n * 10 ^ e'.toNat else n
        let q := if e' ≥ 0 then 1 else 10 ^ (-e').toNat
        match ratRound53 p q with
        | none => .unknown
        | some d => .val (if neg then -d else d)
  -- no x X i I n N, but one of a b c d f A B C D F t T y Y p P
  else if !b.any (isOneOf [120, 88, 105, 73, 110, 78]) && b.any (isOneOf [97, 98, 99, 100, 102, 65, 66, 67, 68, 70, 116, 84, 121, 89, 112, 80]) then .invalid
  else .unknown

/-- `core.Value.Float`: empty text counts as zero -/
def valueFloat (b : Bytes) : FParse := if b.isEmpty then .val .zero else parseFloatDec b

def stripTrailingZeros (n : Nat) : Nat :=
  if h : n = 0 then 0 else if n % 10 = 0 then stripTrailingZeros (n / 10) else n
termination_by n
decreasing_by omega

/-- drop factors of ten from the digits while the exponent is negative: `(120, -2) ↦ (12, -1)` -/
def normDec (fuel : Nat) (D : Nat) (q : Int) : Nat × Int :=
  match fuel with
  | 0 => (D, q)
  | fuel + 1 => if q < 0 && D % 10 == 0 && D != 0 then normDec fuel (D / 10) (q + 1) else (D, q)

/-- `%f` of the decimal `D * 10^q` -/
def renderDec (D : Nat) (q : Int) : Bytes :=
  let ds := natDigits D
  if q ≥ 0 then (if D == 0 then [48] else ds ++ List.replicate q.toNat 48)
  else
    let f := (-q).toNat
    if ds.length > f then ds.take (ds.length - f) ++ [46] ++ ds.drop (ds.length - f)
    else [48, 46] ++ List.replicate (f - ds.length) 48 ++ ds

/-- the least `j ≤ fuel` with `a * 10^j ≥ b` -/
def negExp10 (fuel : Nat) (a b : Nat) (j : Nat) : Nat :=
  match fuel with
  | 0 => j
  | fuel + 1 => if a ≥ b then j else negExp10 fuel (a * 10) b (j + 1)

/-- the decimals with `n` significant digits next to `a / b > 0`, the closer one first, as
`(digits, exponent)`; `e10` is the decimal exponent of `a / b` -/
def decCandidates (a b : Nat) (e10 : Int) (n : Nat) : List (Nat × Int) :=
  let q : Int := e10 - n + 1
  let num := if q ≥ 0 then a else a * 10 ^ (-q).toNat
  let den := if q ≥ 0 then b * 10 ^ q.toNat else b
  let lo := num / den
  let r := num % den
  if r == 0 then [(lo, q)]
  else if 2 * r < den then [(lo, q), (lo + 1, q)]
  else if 2 * r > den then [(lo + 1, q), (lo, q)]
  else if lo % 2 == 0 then [(lo, q), (lo + 1, q)] else [(lo + 1, q), (lo, q)]

/-- every candidate text for `|x| = a / b`, shortest first -/
def floatCandidates (a b : Nat) : List Bytes :=
  let e10 : Int :=
    if a ≥ b then ((natDigits (a / b)).length : Int) - 1 else -((negExp10 400 a b 0 : Nat) : Int)
  (List.range 17).flatMap (fun i =>
    (decCandidates a b e10 (i + 1)).map (fun c =>
      let c' := normDec 400 c.1 c.2
      renderDec c'.1 c'.2))

/-- `strconv.FormatFloat(x, 'f', -1, 64)`: the first candidate — fewest digits, then closest —
that `ParseFloat` reads back as `x`. `none`: `x` is not a normal float64 (or no candidate with at
most 17 digits reads back, which does not happen for a float64). -/
def formatFloatDec (x : Dyadic) : Option Bytes :=
  match x with
  | .zero => some [48]
  | .ofOdd n k _ =>
    let sign : Bytes := if n < 0 then [45] else []
    let a := if k ≥ 0 then n.natAbs else n.natAbs * 2 ^ (-k).toNat
    let b := if k ≥ 0 then 2 ^ k.toNat else 1
    match (floatCandidates a b).find? (fun t => parseFloatDec (sign ++ t) == .val x) with
    | some t => some (sign ++ t)
    | none => none

/-- float64 addition of two float64 values: the exact sum, rounded (overflow and subnormal sums
are caught by `formatFloatDec`, which prints only normal values) -/
def f64add (x d : Dyadic) : Dyadic := round53 (x + d)

/-! ### small list helpers -/

def insertSortedBy {α} (lt : α → α → Bool) (x : α) : List α → List α
  | [] => [x]
  | y :: ys => if lt x y then x :: y :: ys else y :: insertSortedBy lt x ys

def sortBy {α} (lt : α → α → Bool) (l : List α) : List α :=
  l.foldr (insertSortedBy lt) []

def dedup {α} [DecidableEq α] : List α → List α
  | [] => []
  | x :: xs => if x ∈ xs then dedup xs else x :: dedup xs

/-- maximum of a list of integers, `d` when empty -/
def maxD (d : Int) : List Int → Int
  | [] => d
  | x :: xs => let m := maxD d xs; if x > m then x else m

end Redka
