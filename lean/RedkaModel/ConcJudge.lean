/-
  Judging concurrent histories (C08): a Wing–Gong style search, run on the model, for a
  sequential order of whole operations that respects real time and explains every observed result
  and the final tables (compared as abstract keyspaces: versions and mtimes of overlapping
  operations have no canonical order). Supporting evidence for the schedule theorems of
  Props/C08, never a substitute for them.
-/
import RedkaModel.Proto
import RedkaModel.Spec.Abs
import RedkaModel.Model.Inv

namespace Redka.ConcJudge

open Redka Redka.Proto

/-- one event of a history: a single operation, or (over the wire) a MULTI…EXEC block, which takes
effect as one unit: its commands in order inside one transaction (`steps` has several entries) -/
structure Ev where
  call : Int
  ret : Int
  client : Int
  steps : List (Op × Out)
  block : Bool

def outSame : Out → Out → Bool
  | .ok a, .ok b => a == b
  | .error a, .error b => a == b
  | _, _ => false

def eraseIdx {α} : List α → Nat → List α
  | [], _ => []
  | _ :: xs, 0 => xs
  | x :: xs, n + 1 => x :: eraseIdx xs n

/-- the tables after the event, when the model reproduces every observed result. A single
operation is `DB.Update`-wrapped (`Model.dbRun`); the commands of a block run at `Tx` level inside
the one transaction of `handleMulti`, which commits when no command reports an error to it (the
generated blocks hold commands whose "nothing there" outcomes are nil replies, not errors). -/
def runEv (now : Int) (e : Ev) (db : DB) : Option DB :=
  if !e.block then
    match e.steps with
    | [(op, res)] => let r := Model.dbRun op now db; if outSame r.out res then some r.db else none
    | _ => none
  else
    e.steps.foldlM (fun (d : DB) (s : Op × Out) =>
      let r := Model.tx true s.1 now d
      if outSame r.out s.2 then some r.db else none) db

/-- can the pending operations be ordered, respecting real time, so that the model started in
`db` reproduces every result and ends in `final`? -/
def search (now : Int) (final : Spec.State) : Nat → List Ev → DB → Bool
  | 0, _, _ => false
  | fuel + 1, pending, db =>
    if pending.isEmpty then decide (Spec.abs now db = final)
    else
      let minRet := pending.foldl (fun m e => if e.ret < m then e.ret else m) ((pending.head?.map (·.ret)).getD 0)
      (List.range pending.length).any (fun i =>
        match pending[i]? with
        | none => false
        | some e =>
          -- `e` may come first iff no other pending operation returned before `e` was called
          if e.call > minRet && e.ret != minRet then false
          else
            match runEv now e db with
            | some db' => search now final fuel (eraseIdx pending i) db'
            | none => false)

def pStep : P (Op × Out) := do
  let op ← pOp
  expect "=>"
  let res ← pOut
  pure (op, res)

/-- `<call> <ret> <client> <op…> => <result>` or `<call> <ret> <client> B <n> <op…> => <result> && …` -/
def pEv : P Ev := do
  let call ← pInt; let ret ← pInt; let client ← pInt
  match (← get) with
  | "B" :: _ =>
    expect "B"
    let n ← pNat
    let rec go : Nat → List (Op × Out) → P (List (Op × Out))
      | 0, acc => pure acc.reverse
      | k + 1, acc => do
        let s ← pStep
        if k > 0 then expect "&&"
        go k (s :: acc)
    let steps ← go n []
    pure { call, ret, client, steps, block := true }
  | _ =>
    let s ← pStep
    pure { call, ret, client, steps := [s], block := false }

def isLockError (e : Ev) : Bool :=
  e.steps.any (fun s => match s.2 with
    | .error .sqlOther => true
    | _ => false)

/-- `CONC seq now cfg | pre | events | post` -/
def judge (line : String) : String :=
  match line.splitOn " | " with
  | [hdr, preS, evS, postS] =>
    match (hdr.splitOn " ").filter (· ≠ "") with
    | [_, seq, nowS, cfg] =>
      -- a client of the real server got no well-formed reply while others were running
      if postS.startsWith "BROKEN" then s!"{seq} L=0 E=1 I=1 n=0 K=" else
      match nowS.toInt?, runP pDump preS, runP pDump postS with
      | some now, .ok pre, .ok post =>
        let evStrs := if evS.trimAscii.toString.isEmpty then [] else evS.splitOn " ;; "
        let parsed := evStrs.map (runP pEv)
        match parsed.find? (fun r => match r with | .error _ => true | .ok _ => false) with
        | some (.error e) => s!"{seq} ERR event: {e}"
        | _ =>
          let evs := parsed.filterMap (fun r => match r with | .ok x => some x | .error _ => none)
          let locked := evs.any isLockError
          let lin := search now (Spec.abs now (canon post)) (evs.length + 1) evs (canon pre)
          let k := if cfg == "shared" && locked then "D15" else ""
          s!"{seq} L={if lin then 1 else 0} E={if locked then 1 else 0} I={if (canon post).invB then 1 else 0} n={evs.length} K={k}"
      | _, .error e, _ => s!"{seq} ERR pre: {e}"
      | _, _, .error e => s!"{seq} ERR post: {e}"
      | none, _, _ => s!"{seq} ERR now"
    | _ => "? ERR bad conc header"
  | parts => s!"? ERR bad conc line ({parts.length} parts)"

def kv (toks : List String) (k : String) : Option Int :=
  (toks.find? (fun t => t.startsWith (k ++ "="))).bind (fun t => (t.drop (k.length + 1)).toInt?)

/-- `CONS seq now cfg | kind total | observations`: conservation laws -/
def judgeCons (line : String) : String :=
  match line.splitOn " | " with
  | [hdr, whatS, obsS] =>
    match (hdr.splitOn " ").filter (· ≠ ""), (whatS.splitOn " ").filter (· ≠ "") with
    | [_, seq, _, cfg], [kind, totalS] =>
      let obs := (obsS.splitOn " ").filter (· ≠ "")
      let total : Int := totalS.toInt?.getD 0
      let failures := (kv obs "failures").getD (-1)
      let ok :=
        if kind == "incr" then kv obs "final" == some total
        else if kind == "pop" then kv obs "delivered" == some total && kv obs "dup" == some 0 && kv obs "left" == some 0
        else if kind == "move" then kv obs "src" == some 0 && kv obs "dst" == some total
        else false
      let k := if cfg == "shared" && failures > 0 then "D15" else ""
      s!"{seq} L={if ok then 1 else 0} E={if failures == 0 then 0 else 1} I=1 n={total} K={k}"
    | _, _ => "? ERR bad cons header"
  | parts => s!"? ERR bad cons line ({parts.length} parts)"

end Redka.ConcJudge
